#!/bin/bash
# Full .vo build of the development (never -vos). Run from anywhere.
set -e
set +e
cd "$(dirname "$0")"
{
  echo "-Q theories LW"
  echo "-arg -w -arg -notation-overridden,-deprecated-hint-without-locality,-deprecated-instance-without-locality,-deprecated-hint-rewrite-without-locality"
  find theories -name '*.v' | sort
} > _CoqProject.new
if ! cmp -s _CoqProject.new _CoqProject || [ ! -f Makefile ]; then
  mv _CoqProject.new _CoqProject
  coq_makefile -f _CoqProject -o Makefile > /dev/null
else
  rm -f _CoqProject.new
fi
log=build.$$.log
timeout 2700 make -j16 "$@" > $log 2>&1
rc=$?
grep -v "^COQDEP\|^COQC\|^CLEAN\|Nothing to be done\|^make\|is up to date" $log || true
rm -f $log
exit $rc
