#!/bin/bash
# Full .vo build of the development (never -vos). Run from anywhere.
#   build.sh                 build everything, keep going past a broken file (make -k); exit code = make's
#   build.sh <targets...>    build the given .vo targets with their dependencies (what ./check uses)
#   build.sh --setup         as the first form but always exit 0: MANIFEST.setup_cmd only warms the
#                            build; every check re-runs make for its own targets and reports a broken
#                            proof itself, so a file of a not-yet-claimed property cannot block setup
set +e
# deep vm_compute/cbn terms overflow the default 8 MB stack on some hosts
ulimit -s unlimited 2>/dev/null || ulimit -s 1000000 2>/dev/null || true
setup=0
if [ "$1" = "--setup" ]; then setup=1; shift; fi
if [ $# -eq 0 ]; then set -- -k; fi
cd "$(dirname "$0")"
{
  echo "-Q theories LW"
  echo "-arg -w -arg -notation-overridden,-deprecated-hint-without-locality,-deprecated-instance-without-locality,-deprecated-hint-rewrite-without-locality"
  find theories -name '*.v' | sort
} > _CoqProject.new
if ! cmp -s _CoqProject.new _CoqProject || [ ! -f Makefile ]; then
  mv _CoqProject.new _CoqProject
  coq_makefile -f _CoqProject -o Makefile > /dev/null
else
  rm -f _CoqProject.new
fi
log=build.$$.log
timeout 2700 make -j16 "$@" > $log 2>&1
rc=$?
grep -v "^COQDEP\|^COQC\|^CLEAN\|Nothing to be done\|^make\|is up to date" $log || true
rm -f $log
if [ $setup = 1 ]; then [ $rc = 0 ] || echo "build.sh --setup: make exited $rc (see messages above); continuing"; exit 0; fi
exit $rc
