(* Model of lightworks/tomography (state_tomography.py, process_tomography*.py,
   gate_fidelity.py, utils.py, mappings.py).  Executable Gallina, no proofs.

   A measurement string such as "X,Y,Z" is the list [PX; PY; PZ].
   Numeric functions are polymorphic in the scalar operations [o : ops K] and in
   two constants: [ii] (the imaginary unit) and [hh] (= 1/sqrt 2, the entry of
   the Hadamard gate).  Matrices are functions nat -> nat -> K (Base/Mat.v);
   the qubit with index 0 is the most significant bit of a row/column index
   (np.kron order), and its dual-rail modes are 0,1. *)
From Coq Require Import ZArith List Bool Arith.
From LW Require Import Base.Sx Base.Num Base.Sums Base.Mat.
Import ListNotations.

(* ------------------------------------------------------------------ labels *)
Inductive pauli : Type := PX | PY | PZ | PI.
Definition pauli_eqb (a b : pauli) : bool :=
  match a, b with
  | PX, PX | PY, PY | PZ, PZ | PI, PI => true
  | _, _ => false
  end.
Definition mstr := list pauli.
Fixpoint mstr_eqb (a b : mstr) : bool :=
  match a, b with
  | [], [] => true
  | x :: a', y :: b' => pauli_eqb x y && mstr_eqb a' b'
  | _, _ => false
  end.

(* key order of MEASUREMENT_MAPPING and of PAULI_MAPPING (mappings.py) *)
Definition meas_keys : list pauli := [PX; PY; PZ; PI].
Definition pauli_keys : list pauli := [PI; PX; PY; PZ].

(* utils._combine_all: result = list(value); (n-1) times:
   result = [comb v1 v2 for v1 in result for v2 in value] *)
Definition combine_step {A} (comb : A -> A -> A) (value result : list A) : list A :=
  flat_map (fun v1 => map (fun v2 => comb v1 v2) value) result.
Definition combine_all {A} (comb : A -> A -> A) (value : list A) (n : nat) : list A :=
  Nat.iter (n - 1) (combine_step comb value) value.

Definition singles (keys : list pauli) : list mstr := map (fun p => [p]) keys.
(* v1 + "," + v2 *)
Definition strings (keys : list pauli) (n : nat) : list mstr :=
  combine_all (@app pauli) (singles keys) n.

Fixpoint remove_first (x : mstr) (l : list mstr) : list mstr :=
  match l with
  | [] => []
  | y :: r => if mstr_eqb x y then r else y :: remove_first x r
  end.

(* utils._get_tomo_measurements *)
Definition tomo_measurements (n : nat) (remove_trivial : bool) : list mstr :=
  let all := strings meas_keys n in
  if remove_trivial then remove_first (repeat PI n) all else all.

(* c.replace("I", "Z") *)
Definition repl1 (p : pauli) : pauli := match p with PI => PZ | _ => p end.
Definition replIZ (c : mstr) : mstr := map repl1 c.

(* utils._get_required_tomo_measurements: the dictionary, and the distinct
   values.  Python returns list(set(values)): the ORDER of that list is not
   determined by the program, so every function below takes the list [req]
   actually used as an argument and the theorems quantify over all
   permutations of [req_canonical]. *)
Definition result_mapping (n : nat) (remove_trivial : bool) : list (mstr * mstr) :=
  map (fun c => (c, replIZ c)) (tomo_measurements n remove_trivial).
Fixpoint dedup (l : list mstr) : list mstr :=
  match l with
  | [] => []
  | x :: r => if existsb (mstr_eqb x) r then dedup r else x :: dedup r
  end.
Definition req_canonical (n : nat) (remove_trivial : bool) : list mstr :=
  dedup (map snd (result_mapping n remove_trivial)).

(* a Python dict built from key/value pairs: the last binding of a key wins *)
Definition dict_get {V} (k : mstr) (d : list (mstr * V)) : option V :=
  fold_left (fun acc kv => if mstr_eqb (fst kv) k then Some (snd kv) else acc) d None.

Fixpoint mapM {A B} (f : A -> res B) (l : list A) : res (list B) :=
  match l with
  | [] => Ok []
  | x :: r => do y <- f x; do ys <- mapM f r; Ok (y :: ys)
  end.

(* ---------------------------------------- dual-rail decoding of an outcome *)
Fixpoint zlist_eqb (a b : list Z) : bool :=
  match a, b with
  | [], [] => true
  | x :: a', y :: b' => Z.eqb x y && zlist_eqb a' b'
  | _, _ => false
  end.

(* the inner loop of _calculate_expectation_value for one outcome state:
   Ok true = multiplier -1, Ok false = multiplier +1; gate "I" short-cuts the
   test of the state; anything but [1,0] / [0,1] on a measured qubit raises *)
Fixpoint mult_aux (meas : mstr) (j : nat) (s : list Z) : res bool :=
  match meas with
  | [] => Ok false
  | g :: r =>
      let sl := firstn 2 (skipn (2 * j) s) in     (* state[2j : 2j+2] *)
      if pauli_eqb g PI || zlist_eqb sl [1; 0]%Z then mult_aux r (S j) s
      else if zlist_eqb sl [0; 1]%Z then (do m <- mult_aux r (S j) s; Ok (negb m))
      else Err ValueError
  end.

(* StateTomography.__init__ / ProcessTomography.__init__ validation order *)
Definition tomo_validate (n_is_int base_is_circuit : bool) (n input_modes : Z) (exp_is_function : bool)
  : res unit :=
  if negb n_is_int then Err TypeError
  else if negb base_is_circuit then Err TypeError
  else if negb (Z.eqb (2 * n) input_modes) then Err ValueError
  else if negb exp_is_function then Err TypeError
  else Ok tt.

Section Numeric.
  Context {K : Type} (o : ops K) (ii hh : K).
  Local Notation "0" := (k0 o).
  Local Notation "1" := (k1 o).
  Local Notation "a + b" := (kadd o a b).
  Local Notation "a * b" := (kmul o a b).
  Local Notation "a - b" := (ksub o a b).
  Local Notation "- a" := (kopp o a).
  Local Notation conj := (kconj o).
  Local Notation mat := (@mat K).

  Definition two : K := 1 + 1.
  Fixpoint pow2 (n : nat) : K := match n with O => 1 | S m => two * pow2 m end.   (* 2**n *)
  Definition sg (b : bool) : K := if b then kopp o 1 else 1.
  Definition half : K := kinv o two.

  Definition m22 (a b c d : K) : mat := fun i j =>
    match i, j with
    | O, O => a | O, S O => b | S O, O => c | S O, S O => d
    | _, _ => 0
    end.

  (* mappings.PAULI_MAPPING *)
  Definition pauli_mat (p : pauli) : mat :=
    match p with
    | PI => m22 1 0 0 1
    | PX => m22 0 1 1 0
    | PY => m22 0 (- ii) ii 0
    | PZ => m22 1 0 0 (kopp o 1)
    end.

  (* qubit.H, S, Z, I as matrices on the two dual-rail modes *)
  Definition had : mat := m22 hh hh hh (- hh).
  Definition smat : mat := m22 1 0 0 ii.
  Definition zmat : mat := m22 1 0 0 (kopp o 1).
  Definition imat : mat := m22 1 0 0 1.

  (* mappings.MEASUREMENT_MAPPING: "Y" is the circuit S, then Z, then H *)
  Definition meas_mat (p : pauli) : mat :=
    match p with
    | PX => had
    | PY => mmul o 2%nat had (mmul o 2%nat zmat smat)
    | PZ | PI => imat
    end.

  (* np.kron(A, B) for an m x m matrix B *)
  Definition kron (m : nat) (A B : mat) : mat :=
    fun i j => A (i / m)%nat (j / m)%nat * B (i mod m)%nat (j mod m)%nat.

  (* mat = f(ops[0]); for g in ops[1:]: mat = np.kron(mat, f(g)) *)
  Definition kfold (f : pauli -> mat) (c : mstr) : mat :=
    match c with
    | [] => mid o
    | g :: r => fold_left (fun m g' => kron 2%nat m (f g')) r (f g)
    end.

  Definition data : Type := list (list Z * K).     (* {State: counts} in dict order *)

  (* utils._calculate_expectation_value *)
  Definition expectation (meas : mstr) (d : data) : res K :=
    do ms <- mapM (fun sc => mult_aux meas O (fst sc)) d;
    let e := suml o (combine ms d) (fun mc => sg (fst mc) * snd (snd mc)) in
    let nc := suml o d snd in
    if keqb o nc 0 then Err OtherError       (* ZeroDivisionError *)
    else Ok (e * kinv o nc).

  (* utils._calculate_density_matrix *)
  Definition density (n : nat) (results : list (mstr * data)) : res mat :=
    do es <- mapM (fun cd => do e <- expectation (fst cd) (snd cd);
                             Ok (e * kinv o (pow2 n), kfold pauli_mat (fst cd))) results;
    Ok (fun a b => suml o es (fun wP => fst wP * snd wP a b)).

  (* StateTomography.process after the experiment returned [all_results] for
     the circuits of [req] *)
  Definition expand_results {V} (n : nat) (rd : list (mstr * V)) : res (list (mstr * V)) :=
    mapM (fun c => match dict_get (replIZ c) rd with
                   | Some d => Ok (c, d)
                   | None => Err KeyError
                   end) (tomo_measurements n false).

  Definition st_process (n : nat) (req : list mstr) (all_results : list data) : res mat :=
    if Nat.eqb (length req) (length all_results) then    (* zip(..., strict=True) *)
      do full <- expand_results n (combine req all_results);
      density n full
    else Err ValueError.

  (* StateTomography._create_circuit: the components appended to a copy of the
     base circuit, as (first mode, 2x2 unitary); their action on a mode unitary *)
  Definition comp : Type := (nat * mat)%type.
  Definition create_circuit (n : nat) (ops : list mat) : res (list comp) :=
    if Nat.eqb (length ops) n
    then Ok (map (fun iop => ((2 * fst iop)%nat, snd iop)) (combine (seq O (length ops)) ops))
    else Err ValueError.
  Definition circuit_unitary (N : nat) (base : mat) (c : list comp) : mat :=
    fold_left (fun U mv => mmul o N (block_mat o (fst mv) 2%nat (snd mv)) U) c base.
  Definition st_circuits (n : nat) (req : list mstr) : res (list (list comp)) :=
    mapM (fun s => create_circuit n (map meas_mat s)) req.

  (* ---- noiseless experiment at the qubit level ---------------------------
     outcome z (a row index) <-> dual-rail state; frequency = Born rule after
     the basis change M of the setting: (M rho M^+)[z,z] *)
  Fixpoint bits (n z : nat) : list bool :=
    match n with
    | O => []
    | S m => bits m (z / 2)%nat ++ [Nat.odd z]
    end.
  Definition rail (b : bool) : list Z := if b then [0; 1]%Z else [1; 0]%Z.
  Definition dual_rail (n z : nat) : list Z := flat_map rail (bits n z).
  Definition born (d : nat) (M rho : mat) (z : nat) : K :=
    sumn o d (fun k => sumn o d (fun l => M z k * rho k l * conj (M z l))).
  Definition ideal_data (n : nat) (s : mstr) (rho : mat) : data :=
    map (fun z => (dual_rail n z, born (2 ^ n)%nat (kfold meas_mat s) rho z)) (seq O (2 ^ n)%nat).
  Definition st_tomography (n : nat) (req : list mstr) (rho : mat) : res mat :=
    st_process n req (map (fun s => ideal_data n s rho) req).

  Definition trace (d : nat) (A : mat) : K := sumn o d (fun k => A k k).
  Definition hermitian (d : nat) (A : mat) : Prop := meq d (madj o A) A.
End Numeric.
