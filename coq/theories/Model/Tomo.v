(* Model of lightworks/tomography (state_tomography.py, process_tomography*.py,
   gate_fidelity.py, utils.py, mappings.py).  Executable Gallina, no proofs.

   A measurement string such as "X,Y,Z" is the list [PX; PY; PZ].
   Numeric functions are polymorphic in the scalar operations [o : ops K] and in
   two constants: [ii] (the imaginary unit) and [hh] (= 1/sqrt 2, the entry of
   the Hadamard gate).  Matrices are functions nat -> nat -> K (Base/Mat.v);
   the qubit with index 0 is the most significant bit of a row/column index
   (np.kron order), and its dual-rail modes are 0,1. *)
From Coq Require Import ZArith List Bool Arith.
From LW Require Import Base.Sx Base.Num Base.Sums Base.Mat.
Import ListNotations.

(* ------------------------------------------------------------------ labels *)
Inductive pauli : Type := PX | PY | PZ | PI.
Definition pauli_eqb (a b : pauli) : bool :=
  match a, b with
  | PX, PX | PY, PY | PZ, PZ | PI, PI => true
  | _, _ => false
  end.
Definition mstr := list pauli.
Fixpoint mstr_eqb (a b : mstr) : bool :=
  match a, b with
  | [], [] => true
  | x :: a', y :: b' => pauli_eqb x y && mstr_eqb a' b'
  | _, _ => false
  end.

(* key order of MEASUREMENT_MAPPING and of PAULI_MAPPING (mappings.py) *)
Definition meas_keys : list pauli := [PX; PY; PZ; PI].
Definition pauli_keys : list pauli := [PI; PX; PY; PZ].

(* utils._combine_all: result = list(value); (n-1) times:
   result = [comb v1 v2 for v1 in result for v2 in value] *)
Definition combine_step {A} (comb : A -> A -> A) (value result : list A) : list A :=
  flat_map (fun v1 => map (fun v2 => comb v1 v2) value) result.
Definition combine_all {A} (comb : A -> A -> A) (value : list A) (n : nat) : list A :=
  Nat.iter (n - 1) (combine_step comb value) value.

Definition singles (keys : list pauli) : list mstr := map (fun p => [p]) keys.
(* v1 + "," + v2 *)
Definition strings (keys : list pauli) (n : nat) : list mstr :=
  combine_all (@app pauli) (singles keys) n.

Fixpoint remove_first (x : mstr) (l : list mstr) : list mstr :=
  match l with
  | [] => []
  | y :: r => if mstr_eqb x y then r else y :: remove_first x r
  end.

(* utils._get_tomo_measurements *)
Definition tomo_measurements (n : nat) (remove_trivial : bool) : list mstr :=
  let all := strings meas_keys n in
  if remove_trivial then remove_first (repeat PI n) all else all.

(* c.replace("I", "Z") *)
Definition repl1 (p : pauli) : pauli := match p with PI => PZ | _ => p end.
Definition replIZ (c : mstr) : mstr := map repl1 c.

(* utils._get_required_tomo_measurements: the dictionary, and the distinct
   values.  Python returns list(set(values)): the ORDER of that list is not
   determined by the program, so every function below takes the list [req]
   actually used as an argument and the theorems quantify over all
   permutations of [req_canonical]. *)
Definition result_mapping (n : nat) (remove_trivial : bool) : list (mstr * mstr) :=
  map (fun c => (c, replIZ c)) (tomo_measurements n remove_trivial).
Fixpoint dedup (l : list mstr) : list mstr :=
  match l with
  | [] => []
  | x :: r => if existsb (mstr_eqb x) r then dedup r else x :: dedup r
  end.
Definition req_canonical (n : nat) (remove_trivial : bool) : list mstr :=
  dedup (map snd (result_mapping n remove_trivial)).

(* a Python dict built from key/value pairs: the last binding of a key wins *)
Definition dict_get {V} (k : mstr) (d : list (mstr * V)) : option V :=
  fold_left (fun acc kv => if mstr_eqb (fst kv) k then Some (snd kv) else acc) d None.

Fixpoint mapM {A B} (f : A -> res B) (l : list A) : res (list B) :=
  match l with
  | [] => Ok []
  | x :: r => do y <- f x; do ys <- mapM f r; Ok (y :: ys)
  end.

(* ---------------------------------------- dual-rail decoding of an outcome *)
Fixpoint zlist_eqb (a b : list Z) : bool :=
  match a, b with
  | [], [] => true
  | x :: a', y :: b' => Z.eqb x y && zlist_eqb a' b'
  | _, _ => false
  end.

(* the inner loop of _calculate_expectation_value for one outcome state:
   Ok true = multiplier -1, Ok false = multiplier +1; gate "I" short-cuts the
   test of the state; anything but [1,0] / [0,1] on a measured qubit raises *)
Fixpoint mult_aux (meas : mstr) (j : nat) (s : list Z) : res bool :=
  match meas with
  | [] => Ok false
  | g :: r =>
      let sl := firstn 2 (skipn (2 * j) s) in     (* state[2j : 2j+2] *)
      if pauli_eqb g PI || zlist_eqb sl [1; 0]%Z then mult_aux r (S j) s
      else if zlist_eqb sl [0; 1]%Z then (do m <- mult_aux r (S j) s; Ok (negb m))
      else Err ValueError
  end.

(* StateTomography.__init__ / ProcessTomography.__init__ validation order *)
Definition tomo_validate (n_is_int base_is_circuit : bool) (n input_modes : Z) (exp_is_function : bool)
  : res unit :=
  if negb n_is_int then Err TypeError
  else if negb base_is_circuit then Err TypeError
  else if negb (Z.eqb (2 * n) input_modes) then Err ValueError
  else if negb exp_is_function then Err TypeError
  else Ok tt.

(* ---------------------------------------------- process tomography: labels *)
Inductive inlab : Type := XP | XM | YP | YM | ZP | ZM.     (* "X+", "X-", ... *)
Definition inlab_eqb (a b : inlab) : bool :=
  match a, b with
  | XP, XP | XM, XM | YP, YP | YM, YM | ZP, ZP | ZM, ZM => true
  | _, _ => false
  end.
Definition instr := list inlab.
Fixpoint instr_eqb (a b : instr) : bool :=
  match a, b with
  | [], [] => true
  | x :: a', y :: b' => inlab_eqb x y && instr_eqb a' b'
  | _, _ => false
  end.
(* TOMO_INPUTS of process_tomography.py / process_tomography_li.py / gate_fidelity.py,
   and of process_tomography_mle.py; key order of RHO_MAPPING / INPUT_MAPPING *)
Definition li_inputs : list inlab := [ZP; ZM; XP; YP].
Definition mle_inputs : list inlab := [XP; XM; YP; YM; ZP; ZM].
Definition rho_keys : list inlab := [XP; XM; YP; YM; ZP; ZM].
Definition istrings (keys : list inlab) (n : nat) : list instr :=
  combine_all (@app inlab) (map (fun p => [p]) keys) n.
(* INPUT_MAPPING[op][0] *)
Definition input_state (l : inlab) : list Z :=
  match l with XP | YP | ZP => [1; 0]%Z | XM | YM | ZM => [0; 1]%Z end.

(* ProcessTomography._run_required_experiments, bookkeeping only:
   the (input, setting) pair of every requested experiment, in order *)
Definition experiments (inputs : list instr) (req : list mstr) : list (instr * mstr) :=
  flat_map (fun i => map (fun m => (i, m)) req) inputs.

(* ... and the sorting of the returned results:
   results[num*i : num*(i+1)] zipped (strict) with req, per input, then the
   expansion to all measurement strings through the I -> Z mapping *)
Definition run_required {V} (n : nat) (inputs : list instr) (req : list mstr) (results : list V)
  : res (list ((instr * mstr) * V)) :=
  let num := length req in
  do sorted <- mapM (fun ii_in =>
                  let chunk := firstn num (skipn (num * fst ii_in) results) in
                  if Nat.eqb (length chunk) num then Ok (snd ii_in, combine req chunk)
                  else Err ValueError)
               (combine (seq 0 (length inputs)) inputs);
  do full <- mapM (fun in_rd =>
                  mapM (fun c => match dict_get (replIZ c) (snd in_rd) with
                                 | Some d => Ok ((fst in_rd, c), d)
                                 | None => Err KeyError
                                 end) (tomo_measurements n false)) sorted;
  Ok (concat full).

Definition assoc_get {V} (k : instr * mstr) (d : list ((instr * mstr) * V)) : option V :=
  fold_left (fun acc kv => if instr_eqb (fst (fst kv)) (fst k) && mstr_eqb (snd (fst kv)) (snd k)
                           then Some (snd kv) else acc) d None.

Section Numeric.
  Context {K : Type} (o : ops K) (ii hh : K).
  Local Notation "0" := (k0 o).
  Local Notation "1" := (k1 o).
  Local Notation "a + b" := (kadd o a b).
  Local Notation "a * b" := (kmul o a b).
  Local Notation "a - b" := (ksub o a b).
  Local Notation "- a" := (kopp o a).
  Local Notation conj := (kconj o).
  Local Notation mat := (@mat K).

  Definition two : K := 1 + 1.
  Fixpoint pow2 (n : nat) : K := match n with O => 1 | S m => two * pow2 m end.   (* 2**n *)
  Definition sg (b : bool) : K := if b then kopp o 1 else 1.
  Definition half : K := kinv o two.

  Definition m22 (a b c d : K) : mat := fun i j =>
    match i, j with
    | O, O => a | O, S O => b | S O, O => c | S O, S O => d
    | _, _ => 0
    end.

  (* mappings.PAULI_MAPPING *)
  Definition pauli_mat (p : pauli) : mat :=
    match p with
    | PI => m22 1 0 0 1
    | PX => m22 0 1 1 0
    | PY => m22 0 (- ii) ii 0
    | PZ => m22 1 0 0 (kopp o 1)
    end.

  (* qubit.H, S, Z, I as matrices on the two dual-rail modes *)
  Definition had : mat := m22 hh hh hh (- hh).
  Definition smat : mat := m22 1 0 0 ii.
  Definition zmat : mat := m22 1 0 0 (kopp o 1).
  Definition imat : mat := m22 1 0 0 1.

  (* mappings.MEASUREMENT_MAPPING: "Y" is the circuit S, then Z, then H *)
  Definition meas_mat (p : pauli) : mat :=
    match p with
    | PX => had
    | PY => mmul o 2%nat had (mmul o 2%nat zmat smat)
    | PZ | PI => imat
    end.

  (* np.kron(A, B) for an m x m matrix B *)
  Definition kron (m : nat) (A B : mat) : mat :=
    fun i j => A (i / m)%nat (j / m)%nat * B (i mod m)%nat (j mod m)%nat.

  (* mat = f(ops[0]); for g in ops[1:]: mat = np.kron(mat, f(g)) *)
  Definition kfold {A : Type} (f : A -> mat) (c : list A) : mat :=
    match c with
    | [] => mid o
    | g :: r => fold_left (fun m g' => kron 2%nat m (f g')) r (f g)
    end.

  Definition data : Type := list (list Z * K).     (* {State: counts} in dict order *)

  (* utils._calculate_expectation_value *)
  Definition expectation (meas : mstr) (d : data) : res K :=
    do ms <- mapM (fun sc => mult_aux meas O (fst sc)) d;
    let e := suml o (combine ms d) (fun mc => sg (fst mc) * snd (snd mc)) in
    let nc := suml o d snd in
    if keqb o nc 0 then Err OtherError       (* ZeroDivisionError *)
    else Ok (e * kinv o nc).

  (* utils._calculate_density_matrix *)
  Definition density (n : nat) (results : list (mstr * data)) : res mat :=
    do es <- mapM (fun cd => do e <- expectation (fst cd) (snd cd);
                             Ok (e * kinv o (pow2 n), kfold pauli_mat (fst cd))) results;
    Ok (fun a b => suml o es (fun wP => fst wP * snd wP a b)).

  (* StateTomography.process after the experiment returned [all_results] for
     the circuits of [req] *)
  Definition expand_results {V} (n : nat) (rd : list (mstr * V)) : res (list (mstr * V)) :=
    mapM (fun c => match dict_get (replIZ c) rd with
                   | Some d => Ok (c, d)
                   | None => Err KeyError
                   end) (tomo_measurements n false).

  Definition st_process (n : nat) (req : list mstr) (all_results : list data) : res mat :=
    if Nat.eqb (length req) (length all_results) then    (* zip(..., strict=True) *)
      do full <- expand_results n (combine req all_results);
      density n full
    else Err ValueError.

  (* StateTomography._create_circuit: the components appended to a copy of the
     base circuit, as (first mode, 2x2 unitary); their action on a mode unitary *)
  Definition comp : Type := (nat * mat)%type.
  Definition create_circuit (n : nat) (ops : list mat) : res (list comp) :=
    if Nat.eqb (length ops) n
    then Ok (map (fun iop => ((2 * fst iop)%nat, snd iop)) (combine (seq O (length ops)) ops))
    else Err ValueError.
  Definition circuit_unitary (N : nat) (base : mat) (c : list comp) : mat :=
    fold_left (fun U mv => mmul o N (block_mat o (fst mv) 2%nat (snd mv)) U) c base.
  Definition st_circuits (n : nat) (req : list mstr) : res (list (list comp)) :=
    mapM (fun s => create_circuit n (map meas_mat s)) req.

  (* ---- noiseless experiment at the qubit level ---------------------------
     outcome z (a row index) <-> dual-rail state; frequency = Born rule after
     the basis change M of the setting: (M rho M^+)[z,z] *)
  Fixpoint bits (n z : nat) : list bool :=
    match n with
    | O => []
    | S m => bits m (z / 2)%nat ++ [Nat.odd z]
    end.
  Definition rail (b : bool) : list Z := if b then [0; 1]%Z else [1; 0]%Z.
  Definition dual_rail (n z : nat) : list Z := flat_map rail (bits n z).
  Definition born (d : nat) (M rho : mat) (z : nat) : K :=
    sumn o d (fun k => sumn o d (fun l => M z k * rho k l * conj (M z l))).
  Definition ideal_data (n : nat) (s : mstr) (rho : mat) : data :=
    map (fun z => (dual_rail n z, born (2 ^ n)%nat (kfold meas_mat s) rho z)) (seq O (2 ^ n)%nat).
  Definition st_tomography (n : nat) (req : list mstr) (rho : mat) : res mat :=
    st_process n req (map (fun s => ideal_data n s rho) req).

  Definition trace (d : nat) (A : mat) : K := sumn o d (fun k => A k k).
  Definition hermitian (d : nat) (A : mat) : Prop := meq d (madj o A) A.

  (* utils.state_fidelity; scipy.linalg.sqrtm (on d x d matrices) and abs() are
     oracles passed as arguments; their contracts are Section hypotheses in
     Proofs/TomoStateP.v *)
  Definition state_fidelity (sqrtm : nat -> mat -> mat) (kabs : K -> K)
             (d d_exp : nat) (rho rho_exp : mat) : res K :=
    let rho_root := sqrtm d rho in
    if negb (Nat.eqb d d_exp) then Err ValueError
    else
      let inner := mmul o d (mmul o d rho_root rho_exp) rho_root in
      Ok (kabs (trace d (sqrtm d inner))).

  (* utils.density_from_state: np.outer(state, conj(state)) *)
  Definition density_from_state (psi : nat -> K) : mat := fun i j => psi i * conj (psi j).

  (* ======================= process tomography (C16) ======================= *)
  (* mappings.RHO_MAPPING *)
  Definition rho_mat (l : inlab) : mat :=
    match l with
    | XP => m22 (1 * half) (1 * half) (1 * half) (1 * half)
    | XM => m22 (1 * half) (kopp o 1 * half) (kopp o 1 * half) (1 * half)
    | YP => m22 (1 * half) (- ii * half) (ii * half) (1 * half)
    | YM => m22 (1 * half) (ii * half) (- ii * half) (1 * half)
    | ZP => m22 1 0 0 0
    | ZM => m22 0 0 0 1
    end.
  (* INPUT_MAPPING[op][1]: H; "r_transform" = H then S; I *)
  Definition input_gate (l : inlab) : mat :=
    match l with
    | XP | XM => had
    | YP | YM => mmul o 2%nat smat had
    | ZP | ZM => imat
    end.

  (* ProcessTomography._create_circuit_and_input: components before the base
     circuit, components after it, input state *)
  Definition place (ops : list mat) : list comp :=
    map (fun iop => ((2 * fst iop)%nat, snd iop)) (combine (seq O (length ops)) ops).
  Definition create_circuit_and_input (input_op : instr) (output_op : mstr)
    : (list comp * list comp) * list Z :=
    ((place (map input_gate input_op), place (map meas_mat output_op)),
     concat (map input_state input_op)).

  Definition mconj (A : mat) : mat := fun i j => conj (A i j).
  Definition vec (D : nat) (A : mat) : nat -> K := fun x => A (x / D)%nat (x mod D)%nat.   (* _vec: flatten *)
  Definition unvec (D : nat) (v : nat -> K) : mat := fun r c => v (r * D + c)%nat.        (* _unvec *)

  (* utils.choi_from_unitary: outer(U.flatten(), conj(U.flatten())) *)
  Definition choi_from_unitary (dim : nat) (U : mat) : mat :=
    fun r c => vec dim U r * conj (vec dim U c).

  (* LIProcessTomography._calculate_expectation_values *)
  Definition expectations (full : list ((instr * mstr) * data)) : res (list ((instr * mstr) * K)) :=
    mapM (fun kd => do e <- expectation (snd (fst kd)) (snd kd); Ok (fst kd, e)) full.

  (* row of the LI transformation matrix for (in_s, meas):
     _vec(np.kron(full_paulis[meas], conj(full_rhos[in_s]))).conj() *)
  Definition li_row (n : nat) (k : instr * mstr) : nat -> K :=
    let dim := (2 ^ n)%nat in
    fun x => conj (vec (dim * dim) (kron dim (kfold pauli_mat (snd k)) (mconj (kfold rho_mat (fst k)))) x).
  (* the row on the pinned tree (before fix 00f76fe), kept for the regression theorems:
     _vec(np.kron(conj(full_rhos[in_s]), full_paulis[meas])).conj() *)
  Definition li_row_pinned (n : nat) (k : instr * mstr) : nat -> K :=
    let dim := (2 ^ n)%nat in
    fun x => conj (vec (dim * dim) (kron dim (mconj (kfold rho_mat (fst k))) (kfold pauli_mat (snd k))) x).

  (* LIProcessTomography.process.  [solve N T b] stands for np.linalg.pinv(T) @ b
     on an N x N system (oracle; contract in Proofs/TomoProcP.v); [row] is the row
     function ([li_row], or [li_row_pinned] for the regression theorems) *)
  Definition li_process_gen (row : nat -> instr * mstr -> nat -> K)
             (solve : nat -> mat -> (nat -> K) -> nat -> K)
             (n : nat) (req : list mstr) (results : list data) : res mat :=
    do full <- run_required n (istrings li_inputs n) req results;
    do lams <- expectations full;
    let dim := (2 ^ n)%nat in
    let N := length lams in
    let T : mat := fun i x => row n (fst (nth i lams (([], []), 0))) x in
    let b := fun i => snd (nth i lams (([], []), 0)) in
    Ok (unvec (dim * dim) (solve N T b)).
  Definition li_process := li_process_gen li_row.
  Definition li_process_pinned := li_process_gen li_row_pinned.

  (* utils.process_fidelity *)
  Definition process_fidelity (sqrtm : nat -> mat -> mat) (kabs : K -> K)
             (n D D_exp : nat) (choi choi_exp : mat) : res K :=
    if negb (Nat.eqb D D_exp) then Err ValueError
    else
      let w := kinv o (pow2 n) in
      state_fidelity sqrtm kabs D D_exp (fun i j => choi i j * w) (fun i j => choi_exp i j * w).

  (* ---- GateFidelity ---- *)
  Definition results_of_input (i : instr) (full : list ((instr * mstr) * data)) : list (mstr * data) :=
    map (fun kd => (snd (fst kd), snd kd)) (filter (fun kd => instr_eqb (fst (fst kd)) i) full).

  (* _calculate_alpha_and_u_basis: [solve D B b] stands for np.linalg.solve *)
  Definition u_basis (n : nat) : list mat := map (kfold pauli_mat) (strings pauli_keys n).
  Definition rho_basis (n : nat) : list mat := map (kfold rho_mat) (istrings li_inputs n).
  Definition basis_vectors (n : nat) : mat :=        (* column j = vec(rho_basis[j]) *)
    fun x j => vec (2 ^ n) (nth j (rho_basis n) (mid o)) x.
  Definition alpha_mat (solve : nat -> mat -> (nat -> K) -> nat -> K) (n : nat) : list (nat -> K) :=
    map (fun u => solve (4 ^ n)%nat (basis_vectors n) (vec (2 ^ n) u)) (u_basis n).

  Definition ofnat (m : nat) : K := Nat.iter m (fun x => x + 1) 0.

  (* GateFidelity.process; the value before np.real *)
  Definition gf_process (solve : nat -> mat -> (nat -> K) -> nat -> K)
             (n : nat) (req : list mstr) (results : list data) (target : mat) : res K :=
    let all_inputs := istrings li_inputs n in
    do full <- run_required n all_inputs req results;
    do rho_vec <- mapM (fun i => density n (results_of_input i full)) all_inputs;
    let dim := (2 ^ n)%nat in
    let alpha := alpha_mat solve n in
    let total :=
      suml o (combine alpha (u_basis n)) (fun au =>
        suml o (combine (seq O (length rho_vec)) rho_vec) (fun jr =>
          fst au (fst jr) *
          trace dim (mmul o dim (mmul o dim (mmul o dim target (madj o (snd au))) (madj o target)) (snd jr)))) in
    let d := ofnat dim in
    Ok ((total + d * d) * kinv o (d * d * (d + 1))).

  (* ---- MLETomographyAlgorithm ---- *)
  Definition mle_input_basis (n : nat) : list instr := istrings mle_inputs n.
  Definition mle_meas_basis (n : nat) : list mstr := tomo_measurements n true.

  (* _a_mat: rows 2(len(meas)*i + j) and +1:
     _vec(np.kron((id +- obs)/2, rho.T)) / 2**(2n) *)
  Definition a_rows (n : nat) : list (nat -> K) :=
    let dim := (2 ^ n)%nat in
    let w := kinv o (pow2 (2 * n)) in
    flat_map (fun in_s =>
      flat_map (fun meas =>
        let obs := kfold pauli_mat meas in
        let proj (s : bool) : mat := fun i j => (mid o i j + sg s * obs i j) * half in
        let row (s : bool) : nat -> K :=
          fun x => vec (dim * dim) (kron dim (proj s) (mtrans (kfold rho_mat in_s))) x * w in
        [row false; row true]) (mle_meas_basis n)) (mle_input_basis n).
  (* the rows on the pinned tree (before fix daa21e7): _vec(np.kron(rho, ((id +- obs)/2).T)) *)
  Definition a_rows_pinned (n : nat) : list (nat -> K) :=
    let dim := (2 ^ n)%nat in
    let w := kinv o (pow2 (2 * n)) in
    flat_map (fun in_s =>
      flat_map (fun meas =>
        let obs := kfold pauli_mat meas in
        let proj (s : bool) : mat := fun i j => (mid o i j + sg s * obs i j) * half in
        let row (s : bool) : nat -> K :=
          fun x => vec (dim * dim) (kron dim (kfold rho_mat in_s) (mtrans (proj s))) x * w in
        [row false; row true]) (mle_meas_basis n)) (mle_input_basis n).

  (* _n_vec_from_data *)
  Definition n_vec_from_data (n : nat) (dt : list ((instr * mstr) * K)) : res (list K) :=
    let len := ofnat (length dt) in
    do l <- mapM (fun in_s =>
              mapM (fun meas => match assoc_get (in_s, meas) dt with
                                | Some v => Ok [(1 + v) * half * kinv o len; (1 - v) * half * kinv o len]
                                | None => Err KeyError
                                end) (mle_meas_basis n)) (mle_input_basis n);
    Ok (concat (concat l)).

  (* 1e-8 *)
  Definition clip_min : K := kinv o (kofZ o 100000000).
  (* _p_vec: (A @ vec(choi.T)).clip(1e-8); p_lin is the value before clipping.
     [rows] = the rows of the A matrix *)
  Definition p_lin_of (rows : list (nat -> K)) (n : nat) (choi : mat) : list K :=
    let D := (4 ^ n)%nat in
    map (fun row => sumn o (D * D) (fun x => row x * vec D (mtrans choi) x)) rows.
  Definition clip (x : K) : K := if kleb o clip_min x then x else clip_min.
  Definition p_vec_of (rows : list (nat -> K)) (n : nat) (choi : mat) : list K := map clip (p_lin_of rows n choi).
  Definition p_lin (n : nat) (choi : mat) : list K := p_lin_of (a_rows n) n choi.
  Definition p_vec (n : nat) (choi : mat) : list K := p_vec_of (a_rows n) n choi.

  (* _gradient: -unvec(A.T @ (n_vec / p_vec(choi))) *)
  Definition gradient (n : nat) (choi : mat) (n_vec : list K) : mat :=
    let D := (4 ^ n)%nat in
    let w := map (fun np => fst np * kinv o (snd np)) (combine n_vec (p_vec n choi)) in
    let rows := combine (a_rows n) w in
    unvec D (fun x => - suml o rows (fun rw => fst rw x * snd rw)).
  (* on the pinned tree (before fix daa21e7): -unvec(conj(A.T) @ (n_vec / p_vec(choi))) with
     the pinned A matrix *)
  Definition gradient_pinned (n : nat) (choi : mat) (n_vec : list K) : mat :=
    let D := (4 ^ n)%nat in
    let w := map (fun np => fst np * kinv o (snd np)) (combine n_vec (p_vec_of (a_rows_pinned n) n choi)) in
    let rows := combine (a_rows_pinned n) w in
    unvec D (fun x => - suml o rows (fun rw => conj (fst rw x) * snd rw)).

  (* _tp_proj on a 4^n x 4^n matrix.  Choi matrices are ordered output (x) input (choi_from_unitary:
     index = out * dim + in), so trace preservation is "the partial trace over the OUTPUT (first) factor is
     the identity on the input".  Repaired code: einsum [0,1,0,3] and kron(identity, variation / dim).
     The pinned code traced over the second (input) factor, which is the unitality condition in this
     ordering - left over from the input-first convention the MLE used before findings F8/F9 were repaired. *)
  Definition partial_trace (dim : nat) (choi : mat) : mat :=
    fun i j => sumn o dim (fun k => choi (k * dim + i)%nat (k * dim + j)%nat).
  Definition tp_proj (n : nat) (choi : mat) : mat :=
    let dim := (2 ^ n)%nat in
    let variation : mat := fun i j => partial_trace dim choi i j - mid o i j in
    fun r c => choi r c - kron dim (mid o) (fun i j => variation i j * kinv o (pow2 n)) r c.
  Definition partial_trace_pinned (dim : nat) (choi : mat) : mat :=
    fun i j => sumn o dim (fun k => choi (i * dim + k)%nat (j * dim + k)%nat).
  Definition tp_proj_pinned (n : nat) (choi : mat) : mat :=
    let dim := (2 ^ n)%nat in
    let variation : mat := fun i j => partial_trace_pinned dim choi i j - mid o i j in
    fun r c => choi r c - kron dim (fun i j => variation i j * kinv o (pow2 n)) (mid o) r c.

  (* ---- noiseless process experiment at the qubit level ---------------------
     input label -> the state the preparation circuit makes from the Fock input:
     column (input_state) of INPUT_MAPPING's gate; the base circuit acts as the
     d x d matrix V: rho -> V rho V^+; measurement as in [ideal_data] *)
  Definition prep_vec (l : inlab) : nat -> K :=
    fun a => input_gate l a (match l with XP | YP | ZP => O | XM | YM | ZM => 1%nat end).
  Definition prep_rho1 (l : inlab) : mat := density_from_state (prep_vec l).
  Definition in_rho (i : instr) : mat := kfold prep_rho1 i.
  Definition out_rho (d : nat) (V rho : mat) : mat := mmul o d (mmul o d V rho) (madj o V).
  Definition process_ideal (n : nat) (V : mat) (inputs : list instr) (req : list mstr) : list data :=
    map (fun im => ideal_data n (snd im) (out_rho (2 ^ n)%nat V (in_rho (fst im)))) (experiments inputs req).

  (* MLEProcessTomography.process up to the call of pgdb: the dictionary nij *)
  Definition mle_nij (n : nat) (req : list mstr) (results : list data) : res (list ((instr * mstr) * K)) :=
    do full <- run_required n (istrings mle_inputs n) req results;
    expectations (filter (fun kd => negb (mstr_eqb (snd (fst kd)) (repeat PI n))) full).
  (* the starting point of pgdb *)
  Definition mle_start (n : nat) : mat := fun i j => mid o i j * kinv o (pow2 n).
End Numeric.
