(* A pool of Circuit objects and the API calls on them (the state machine
   used by C01, C02, C08, C09, C10, C19).  A call that raises leaves the
   world as it was; the argument of add / + / copy is never changed. *)
From Coq Require Import ZArith List Bool Arith Lia.
From LW Require Import Base.Sx Base.Num Base.Mat Model.Circuit.
Import ListNotations.

Section World.
  Context {K : Type} (o : ops K).
  Notation circ := (@circ K).
  Notation val := (@val K).

  Inductive op : Type :=
  | ONew (id n : nat)
  | OUnitary (id k : nat) (V : list (list (K * K)))
  | OBs (id : nat) (m1 : Z) (m2 : option Z) (r loss : val) (cv : conv)
  | OPs (id : nat) (m : Z) (phi loss : val)
  | OLoss (id : nat) (m : Z) (loss : val)
  | OBarrier (id : nat) (ms : option (list Z))
  | OSwaps (id : nat) (sw : list (Z * Z))
  | OHerald (id n : nat) (im : Z) (om : option Z)
  | OAdd (id sub : nat) (mode : Z) (group : bool)
  | OPlus (new a b : nat)
  | OCopy (new a : nat)
  | OUnpack (id : nat).

  Definition world : Type := list (nat * circ).     (* id -> object *)
  Fixpoint wget (w : world) (id : nat) : option circ :=
    match w with
    | [] => None
    | (i, c) :: w' => if Nat.eqb i id then Some c else wget w' id
    end.
  Fixpoint wset (w : world) (id : nat) (c : circ) : world :=
    match w with
    | [] => [(id, c)]
    | (i, c') :: w' => if Nat.eqb i id then (id, c) :: w' else (i, c') :: wset w' id c
    end.

  Definition upd (w : world) (id : nat) (f : circ -> res circ) : world * res unit :=
    match wget w id with
    | None => (w, Err KeyError)
    | Some c => match f c with
                | Ok c' => (wset w id c', Ok tt)
                | Err e => (w, Err e)
                end
    end.

  Definition step (e : env (K:=K)) (w : world) (x : op) : world * res unit :=
    match x with
    | ONew id n => (wset w id (new_circ n), Ok tt)
    | OUnitary id k V => (wset w id (unitary_circ k (of_rows (cplx o) V)), Ok tt)
    | OBs id m1 m2 r l cv => upd w id (fun c => op_bs o e c m1 m2 r l cv)
    | OPs id m phi l => upd w id (fun c => op_ps o e c m phi l)
    | OLoss id m l => upd w id (fun c => op_loss o e c m l)
    | OBarrier id ms => upd w id (fun c => op_barrier c ms)
    | OSwaps id sw => upd w id (fun c => op_mode_swaps c sw)
    | OHerald id n im om => upd w id (fun c => op_herald c n im om)
    | OAdd id sub mode g =>
        match wget w sub with
        | None => (w, Err KeyError)
        | Some s => upd w id (fun c => op_add o c s mode g)
        end
    | OPlus new a b =>
        match wget w a, wget w b with
        | Some ca, Some cb =>
            match op_plus ca cb with
            | Ok c => (wset w new c, Ok tt)
            | Err x => (w, Err x)
            end
        | _, _ => (w, Err KeyError)
        end
    | OCopy new a =>
        match wget w a with
        | Some ca => (wset w new (copy_circ ca), Ok tt)
        | None => (w, Err KeyError)
        end
    | OUnpack id => upd w id (fun c => Ok (unpack_groups c))
    end.

  (* run a program, collecting the outcome of every call *)
  Fixpoint run (e : env (K:=K)) (w : world) (p : list op) : world * list (res unit) :=
    match p with
    | [] => (w, [])
    | x :: p' =>
        let '(w', r) := step e w x in
        let '(w'', rs) := run e w' p' in
        (w'', r :: rs)
    end.
End World.

Arguments ONew {K} _ _. Arguments OUnitary {K} _ _ _. Arguments OBs {K} _ _ _ _ _ _.
Arguments OPs {K} _ _ _ _. Arguments OLoss {K} _ _ _. Arguments OBarrier {K} _ _.
Arguments OSwaps {K} _ _. Arguments OHerald {K} _ _ _ _. Arguments OAdd {K} _ _ _ _.
Arguments OPlus {K} _ _ _. Arguments OCopy {K} _ _. Arguments OUnpack {K} _.
