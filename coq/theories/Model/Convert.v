(* Model of lightworks/qubit/converter/qiskit_convert.py (decisions only).

   A qiskit program is a list of instructions (name, qubits, has-parameter).
   The qubit indices are the indices of the qubits IN THE CIRCUIT
   (QuantumCircuit.find_bit(q).index); reading them off the qiskit objects is
   the harness' job.  The model decides which lightworks gate is added on which
   mode, which swaps are inserted, which gates may be post-selected, which
   post-selection rules are returned, and when the conversion is refused (with
   which exception class).  The output is an EMITTED PROGRAM: the list of
   [circuit.add(...)] calls the converter makes, in order; the harness replays it
   with the real gate library.  No matrix is computed here (gate matrices are
   property C13, Circuit.add is C02).

   [post_selection_analyzer] is modelled with the REPAIRED rule
   [sum(q in has_ps for q in gate) <= 1] (finding F2; the pinned tree had
   [not all(q in has_ps for q in gate)]).  No proofs in this file. *)
From Coq Require Import List Arith Bool PeanoNat.
From LW Require Import Base.Sx.
Import ListNotations.

(* ------------------------------------------------------------------ gates *)
Inductive gname : Type :=
| Gh | Gx | Gy | Gz | Gs | Gsdg | Gt | Gtdg | Gsx          (* SINGLE_QUBIT_GATES_MAP *)
| Grx | Gry | Grz | Gp                                      (* ROTATION_GATES_MAP *)
| Gcx | Gcz | Gswap                                         (* TWO_QUBIT_GATES_MAP *)
| Gccx | Gccz                                               (* THREE_QUBIT_GATES_MAP *)
| Gother.                                                   (* any other instruction name *)

Definition is_single (g : gname) : bool :=
  match g with Gh | Gx | Gy | Gz | Gs | Gsdg | Gt | Gtdg | Gsx => true | _ => false end.
Definition is_rot (g : gname) : bool :=
  match g with Grx | Gry | Grz | Gp => true | _ => false end.
(* gate in ALLOWED_GATES *)
Definition is_allowed (g : gname) : bool :=
  match g with Gother => false | _ => true end.

Record qgate : Type := mkG {
  g_name : gname;
  g_qubits : list nat;      (* inst.qubits, as circuit-level indices *)
  g_param : bool            (* len(inst.operation.params) > 0 *)
}.

(* ------------------------------------- convert_two_qubits_to_adjacent *)
(* the while loop; [None] = fuel exhausted = the Python loop does not terminate
   (happens exactly when q0 = q1, see ConvertP.adjacent_diverges_iff) *)
Fixpoint adj_loop (fuel up lo : nat) : option (nat * nat) :=
  match fuel with
  | 0 => None
  | S f =>
      if up - lo =? 1 then Some (up, lo)
      else
        let up' := up - 1 in
        if up' - lo =? 1 then Some (up', lo) else adj_loop f up' (lo + 1)
  end.

Definition absdiff (a b : nat) : nat := (a - b) + (b - a).

Definition convert_two_qubits_to_adjacent (q0 q1 : nat)
  : option (nat * nat * list (nat * nat)) :=
  if absdiff q1 q0 =? 1 then Some (q0, q1, [])
  else
    let mx := Nat.max q0 q1 in
    let mn := Nat.min q0 q1 in
    match adj_loop (S (mx - mn)) mx mn with
    | None => None
    | Some (up, lo) =>
        let s1 := if mn =? lo then [] else [(mn, lo)] in
        let s2 := if mx =? up then [] else [(mx, up)] in
        Some (if q0 <? q1 then (lo, up, s1 ++ s2) else (up, lo, s1 ++ s2))
    end.

(* ------------------------------------------- post_selection_analyzer *)
(* gate_qubits entry: the qubit list of an instruction on >= 2 qubits, else None *)
Definition multi_qubits (g : qgate) : option (list nat) :=
  if 2 <=? length (g_qubits g) then Some (g_qubits g) else None.

Definition memb (q : nat) (l : list nat) : bool := existsb (Nat.eqb q) l.
(* sum(q in has_ps for q in gate) *)
Definition count_in (has : list nat) (qs : list nat) : nat :=
  length (filter (fun q => memb q has) qs).

(* The backwards pass, written as a right fold over the forward list: the
   recursive call has processed every LATER instruction.  Returns the flags in
   circuit order and the accumulated has_ps list. *)
Fixpoint analyze (gs : list qgate) : list bool * list nat :=
  match gs with
  | [] => ([], [])
  | g :: rest =>
      let '(fl, has) := analyze rest in
      match multi_qubits g with
      | None => (false :: fl, has)
      | Some qs => ((count_in has qs <=? 1) :: fl, has ++ qs)
      end
  end.

(* list(set(has_ps)): the model fixes one order, the harness sorts both sides *)
Definition ps_qubits (has : list nat) : list nat := nodup Nat.eq_dec has.

(* ------------------------------------------------ emitted program *)
Inductive eop : Type :=
| EGate1 (g : gname) (inst : nat) (mode : nat)
    (* circuit.add(SINGLE_QUBIT_GATES_MAP[g], mode)  or
       circuit.add(ROTATION_GATES_MAP[g](params[0] of instruction inst), mode) *)
| ESwap (routing : bool) (a0 a1 b0 b1 : nat)
    (* circuit.add(SWAP((a0,a1),(b0,b1)), 0); [routing] is ghost information:
       true for swaps inserted to make a pair adjacent, false for a source swap *)
| ECZ (heralded : bool) (mode : nat)              (* CZ_Heralded() / CZ() *)
| ECX (heralded : bool) (target : nat) (mode : nat)  (* CNOT_Heralded(target) / CNOT(target) *)
| ECCZ (mode : nat)                               (* CCZ() *)
| ECCX (target : nat) (mode : nat).               (* CCNOT(target) *)

(* self.modes[q] = (2q, 2q+1) *)
Definition mode0 (q : nat) : nat := 2 * q.
Definition mode1 (q : nat) : nat := 2 * q + 1.
Definition emit_swap (routing : bool) (qa qb : nat) : eop :=
  ESwap routing (mode0 qa) (mode1 qa) (mode0 qb) (mode1 qb).

(* the len(qubits) == 1 branch of convert *)
Definition add_one (g : gname) (inst q : nat) (param : bool) : res (list eop) :=
  if is_single g then Ok [EGate1 g inst (mode0 q)]
  else if negb param then Err IndexError            (* inst.operation.params[0] *)
  else if is_rot g then Ok [EGate1 g inst (mode0 q)]
  else Err KeyError.                                (* ROTATION_GATES_MAP[gate] *)

(* _add_two_qubit_gate; [ps] = post_select[i] *)
Definition add_two (g : gname) (q0 q1 : nat) (ps : bool) : res (list eop) :=
  match g with
  | Gswap => Ok [emit_swap false q0 q1]
  | Gcx | Gcz =>
      match convert_two_qubits_to_adjacent q0 q1 with
      | None => Err OtherError                      (* the while loop never ends *)
      | Some (a, b, to_swap) =>
          let lo := Nat.min a b in
          let gate := match g with
                      | Gcx => ECX (negb ps) (b - lo) (mode0 lo)
                      | _ => ECZ (negb ps) (mode0 lo)
                      end in
          let sw := map (fun p => emit_swap true (fst p) (snd p)) to_swap in
          Ok (sw ++ gate :: sw)
      end
  | _ => Err ValueError
  end.

Definition max3 (a b c : nat) := Nat.max a (Nat.max b c).
Definition min3 (a b c : nat) := Nat.min a (Nat.min b c).

(* _add_three_qubit_gate *)
Definition add_three (g : gname) (q0 q1 q2 : nat) (ps : bool) : res (list eop) :=
  match g with
  | Gccx | Gccz =>
      if negb ps then Err ValueError
      else if negb (max3 q0 q1 q2 - min3 q0 q1 q2 =? 2) then Err ValueError
      else
        let lo := min3 q0 q1 q2 in
        Ok [match g with
            | Gccx => ECCX (q2 - lo) (mode0 lo)
            | _ => ECCZ (mode0 lo)
            end]
  | _ => Err ValueError
  end.

(* body of the for loop of QiskitConverter.convert for instruction number inst *)
Definition convert_gate (inst : nat) (g : qgate) (ps : bool) : res (list eop) :=
  if negb (is_allowed (g_name g)) then Err ValueError
  else
    match g_qubits g with
    | [q] => add_one (g_name g) inst q (g_param g)
    | [q0; q1] => add_two (g_name g) q0 q1 ps
    | [q0; q1; q2] => add_three (g_name g) q0 q1 q2 ps
    | _ => Err ValueError                           (* "more than 3 qubits" (also 0) *)
    end.

Fixpoint convert_loop (inst : nat) (gfs : list (qgate * bool)) : res (list eop) :=
  match gfs with
  | [] => Ok []
  | (g, f) :: rest =>
      do ops <- convert_gate inst g f;
      do more <- convert_loop (S inst) rest;
      Ok (ops ++ more)
  end.

(* post_select list used by convert *)
Definition ps_flags (allow : bool) (gs : list qgate) : list bool :=
  if allow then fst (analyze gs) else repeat false (length gs).

(* qubits that get the rule "exactly one photon in modes (2q, 2q+1)";
   None = no PostSelection object returned *)
Definition ps_rules (allow : bool) (gs : list qgate) : option (list nat) :=
  if allow then
    match ps_qubits (snd (analyze gs)) with
    | [] => None
    | l => Some l
    end
  else None.

(* QiskitConverter(allow).convert(qc): emitted program and rule qubits, or the
   exception class; on an error nothing is returned *)
Definition convert (allow : bool) (gs : list qgate) : res (list eop * option (list nat)) :=
  do ops <- convert_loop 0 (combine gs (ps_flags allow gs));
  Ok (ops, ps_rules allow gs).
