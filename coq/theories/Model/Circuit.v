(* Model of lightworks.sdk.circuit: components, CompiledCircuit (compiler.py),
   Circuit (circuit.py) as a state machine, circuit_utils.py helpers.
   No proofs here.  Scalars: K = "reals" (operations record o), T = K*K complex.

   Irrational amplitudes are carried by the components: a value is a triple
     beam splitter : (reflectivity r, cos theta = sqrt r, sin theta = sqrt (1-r))
     phase shifter : (phi, cos phi, sin phi)
     loss          : (loss l, sqrt (1-l), sqrt l)
   or a reference to a Parameter whose current triple is looked up in an
   environment at compile time (late binding). *)
From Coq Require Import ZArith List Bool Arith Lia.
From LW Require Import Base.Sx Base.Num Base.Sums Base.Mat.
Import ListNotations.

Inductive conv : Type := Rx | Hv.

Section Model.
  Context {K : Type} (o : ops K).
  Definition T : Type := (K * K)%type.
  Definition co : ops T := cplx o.

  Definition triple : Type := (K * K * K)%type.
  Inductive val : Type := Lit (x : triple) | Ref (id : nat).
  Definition env : Type := nat -> triple.
  Definition getv (e : env) (v : val) : triple := match v with Lit x => x | Ref i => e i end.
  Definition t1 (x : triple) : K := fst (fst x).
  Definition t2 (x : triple) : K := snd (fst x).
  Definition t3 (x : triple) : K := snd x.

  Definition dict : Type := list (nat * nat).      (* insertion-ordered Python dict int -> int *)

  Inductive comp : Type :=
  | BS (m1 m2 : nat) (v : val) (cv : conv)
  | PS (m : nat) (v : val)
  | LossC (m : nat) (v : val)
  | Barrier (ms : list nat)
  | Swaps (sw : dict)
  | UMat (m k : nat) (V : mat (K:=T))
  | Group (sp : list comp) (m1 m2 : nat) (hin hout : dict).

  (* ---------------- dictionaries ---------------- *)
  Fixpoint dget (d : dict) (k : nat) : option nat :=
    match d with
    | [] => None
    | (k', v) :: d' => if Nat.eqb k' k then Some v else dget d' k
    end.
  Fixpoint dset (d : dict) (k v : nat) : dict :=
    match d with
    | [] => [(k, v)]
    | (k', v') :: d' => if Nat.eqb k' k then (k, v) :: d' else (k', v') :: dset d' k v
    end.
  Definition dkeys (d : dict) : list nat := map fst d.
  Definition dvals (d : dict) : list nat := map snd d.
  Definition dmem (d : dict) (k : nat) : bool := match dget d k with Some _ => true | None => false end.
  Definition dict_of (l : list (nat * nat)) : dict := fold_left (fun d kv => dset d (fst kv) (snd kv)) l [].

  Fixpoint insert_nat (x : nat) (l : list nat) : list nat :=
    match l with
    | [] => [x]
    | y :: l' => if Nat.leb x y then x :: l else y :: insert_nat x l'
    end.
  Definition sort_nat (l : list nat) : list nat := fold_right insert_nat [] l.
  Fixpoint list_eqb (a b : list nat) : bool :=
    match a, b with
    | [], [] => true
    | x :: a', y :: b' => Nat.eqb x y && list_eqb a' b'
    | _, _ => false
    end.
  Fixpoint index_of (x : nat) (l : list nat) : nat :=
    match l with
    | [] => 0
    | y :: l' => if Nat.eqb x y then 0 else S (index_of x l')
    end.

  (* ---------------- component matrices (components.py get_unitary) ---------------- *)
  Definition cR (a : K) : T := (a, k0 o).
  Definition cI (a : K) : T := (k0 o, a).

  Definition bs_mat (m1 m2 : nat) (x : triple) (cv : conv) : mat :=
    let c := t2 x in let s := t3 x in
    match cv with
    | Rx => embed2 co m1 m2 (cR c) (cI s) (cI s) (cR c)
    | Hv => embed2 co m1 m2 (cR c) (cR s) (cR s) (cR (kopp o c))
    end.
  Definition ps_mat (m : nat) (x : triple) : mat := phase_mat co m (t2 x, t3 x).
  (* Loss.get_unitary on (mode, last): [[t, -a], [a, t]]  (after the N1 repair) *)
  Definition loss_mat (n m : nat) (x : triple) : mat :=
    let t := t2 x in let a := t3 x in
    embed2 co m (n - 1) (cR t) (cR (kopp o a)) (cR a) (cR t).
  Definition swap_fun (sw : dict) (i : nat) : nat := match dget sw i with Some j => j | None => i end.
  Definition swaps_mat (sw : dict) : mat := perm_mat co (swap_fun sw).
  Definition umat_mat (m k : nat) (V : mat) : mat := block_mat co m k V.

  Definition in01 (x : K) : bool := kleb o (k0 o) x && kleb o x (k1 o).

  (* ---------------- CompiledCircuit.add ---------------- *)
  Definition cstate : Type := (nat * mat (K:=T))%type.     (* total modes, unitary *)

  Definition mul_in (n : nat) (A : mat) (st : cstate) : cstate :=
    (n, tab co n (mmul co n A (snd st))).

  Fixpoint cadd (e : env) (c : comp) (st : res cstate) {struct c} : res cstate :=
    match st with
    | Err x => Err x
    | Ok (n, U) =>
        match c with
        | BS m1 m2 v cv =>
            let x := getv e v in
            if in01 (t1 x) then Ok (mul_in n (bs_mat m1 m2 x cv) (n, U)) else Err ValueError
        | PS m v => Ok (mul_in n (ps_mat m (getv e v)) (n, U))
        | LossC m v =>
            let x := getv e v in
            let n' := S n in
            if in01 (t1 x) then Ok (mul_in n' (loss_mat n' m x) (n', pad co n U)) else Err ValueError
        | Barrier _ => Ok (n, U)
        | Swaps sw => Ok (mul_in n (swaps_mat sw) (n, U))
        | UMat m k V => Ok (mul_in n (umat_mat m k V) (n, U))
        | Group sp _ _ _ _ =>
            (fix go (l : list comp) (s : res cstate) : res cstate :=
               match l with
               | [] => s
               | x :: l' => go l' (cadd e x s)
               end) sp (Ok (n, U))
        end
    end.

  Definition cadd_list (e : env) (sp : list comp) (st : res cstate) : res cstate :=
    fold_left (fun s c => cadd e c s) sp st.

  Fixpoint n_loss (c : comp) : nat :=
    match c with
    | LossC _ _ => 1
    | Group sp _ _ _ _ => fold_right (fun x acc => n_loss x + acc) 0 sp
    | _ => 0
    end.
  Definition n_loss_list (sp : list comp) : nat := fold_right (fun x acc => n_loss x + acc) 0 sp.

  (* ---------------- the Circuit object ---------------- *)
  Record circ : Type := mkCirc {
    c_n : nat;                 (* __n_modes *)
    c_spec : list comp;        (* __circuit_spec *)
    c_in : dict; c_out : dict; (* __in_heralds / __out_heralds : full mode -> photons *)
    c_xin : dict; c_xout : dict;  (* __external_*_heralds *)
    c_int : list nat }.        (* __internal_modes *)

  Definition new_circ (n : nat) : circ := mkCirc n [] [] [] [] [] [].

  (* Circuit._build: compile; any exception becomes CircuitCompilationError *)
  Definition build (e : env) (c : circ) : res cstate :=
    match cadd_list e (c_spec c) (Ok (c_n c, mid co)) with
    | Ok st => Ok st
    | Err _ => Err CircuitCompilationError
    end.

  Definition input_modes (c : circ) : nat := c_n c - length (c_in c).

  (* _map_mode on a Python int *)
  Definition map_mode (internal : list nat) (m : Z) : Z :=
    fold_left (fun acc i => if (Z.of_nat i <=? acc)%Z then (acc + 1)%Z else acc) (sort_nat internal) m.
  Definition in_range (n : nat) (m : Z) : bool := ((0 <=? m) && (m <? Z.of_nat n))%Z.
  Definition mode_ok (c : circ) (m : Z) : res nat :=
    if in_range (c_n c) m then Ok (Z.to_nat m) else Err ModeRangeError.

  (* check_loss on a numeric value or a Parameter *)
  Definition check_loss (e : env) (v : val) : res unit :=
    if in01 (t1 (getv e v)) then Ok tt else Err ValueError.
  Definition loss_positive (v : val) : bool :=
    match v with
    | Ref _ => true
    | Lit x => negb (kleb o (t1 x) (k0 o))
    end.

  Definition set_spec (c : circ) (sp : list comp) : circ :=
    mkCirc (c_n c) sp (c_in c) (c_out c) (c_xin c) (c_xout c) (c_int c).
  Definition app_spec (c : circ) (sp : list comp) : circ := set_spec c (c_spec c ++ sp).

  (* BeamSplitter.__post_init__ : reflectivity of a literal must be in [0,1] *)
  Definition bs_valid (v : val) : bool :=
    match v with Ref _ => true | Lit x => in01 (t1 x) end.

  Definition op_bs (e : env) (c : circ) (m1 : Z) (m2 : option Z) (r : val) (loss : val) (cv : conv) : res circ :=
    let m2 := match m2 with Some x => x | None => (m1 + 1)%Z end in
    do a <- mode_ok c (map_mode (c_int c) m1);
    let m2' := map_mode (c_int c) m2 in
    if (Z.of_nat a =? m2')%Z then Err ModeRangeError else
    do b <- mode_ok c m2';
    do _ <- check_loss e loss;
    if negb (bs_valid r) then Err ValueError else
    let c1 := app_spec c [BS a b r cv] in
    if loss_positive loss then Ok (app_spec c1 [LossC a loss; LossC b loss]) else Ok c1.

  Definition op_ps (e : env) (c : circ) (m : Z) (phi : val) (loss : val) : res circ :=
    do a <- mode_ok c (map_mode (c_int c) m);
    do _ <- check_loss e loss;
    let c1 := app_spec c [PS a phi] in
    if loss_positive loss then Ok (app_spec c1 [LossC a loss]) else Ok c1.

  Definition op_loss (e : env) (c : circ) (m : Z) (loss : val) : res circ :=
    do a <- mode_ok c (map_mode (c_int c) m);
    do _ <- check_loss e loss;
    Ok (app_spec c [LossC a loss]).

  Fixpoint all_ok (c : circ) (ms : list Z) : res (list nat) :=
    match ms with
    | [] => Ok []
    | m :: ms' => do a <- mode_ok c m; do r <- all_ok c ms'; Ok (a :: r)
    end.

  Definition op_barrier (c : circ) (modes : option (list Z)) : res circ :=
    let ms := match modes with
              | Some l => l
              | None => map Z.of_nat (seq 0 (c_n c - length (c_int c)))
              end in
    do r <- all_ok c (map (map_mode (c_int c)) ms);
    Ok (app_spec c [Barrier r]).

  (* dict comprehension {map k : map v} over Python ints, kept as Z pairs until checked *)
  Fixpoint zdset (d : list (Z * Z)) (k v : Z) : list (Z * Z) :=
    match d with
    | [] => [(k, v)]
    | (k', v') :: d' => if (k' =? k)%Z then (k, v) :: d' else (k', v') :: zdset d' k v
    end.
  Definition op_mode_swaps (c : circ) (swaps : list (Z * Z)) : res circ :=
    let mapped := fold_left (fun d kv => zdset d (map_mode (c_int c) (fst kv)) (map_mode (c_int c) (snd kv)))
                            swaps [] in
    do ks <- all_ok c (map fst mapped);
    do vs <- all_ok c (map snd mapped);
    if list_eqb (sort_nat ks) (sort_nat vs)
    then Ok (app_spec c [Swaps (combine ks vs)])
    else Err ValueError.

  Definition op_herald (c : circ) (n : nat) (im : Z) (om : option Z) : res circ :=
    let om := match om with Some x => x | None => im end in
    let im' := map_mode (c_int c) im in
    let om' := map_mode (c_int c) om in
    do a <- mode_ok c im';
    do b <- mode_ok c om';
    if dmem (c_in c) a then Err ValueError else
    if dmem (c_out c) b then Err ValueError else
    Ok (mkCirc (c_n c) (c_spec c) (dset (c_in c) a n) (dset (c_out c) b n)
               (dset (c_xin c) a n) (dset (c_xout c) b n) (c_int c)).

  (* ---------------- circuit_utils ---------------- *)
  Definition is_group (c : comp) : bool := match c with Group _ _ _ _ _ => true | _ => false end.
  Definition unpack_spec (sp : list comp) : list comp :=
    flat_map (fun c => match c with Group g _ _ _ _ => g | _ => [c] end) sp.

  Definition bump (mode p : nat) : nat := if Nat.leb mode p then S p else p.

  Definition add_mode_to_unitary (V : mat (K:=T)) (a : nat) : mat :=
    fun i j =>
      if Nat.eqb i a || Nat.eqb j a then mid co i j
      else V (if Nat.ltb a i then i - 1 else i) (if Nat.ltb a j then j - 1 else j).

  Definition shift_rel_heralds (rel : Z) (h : dict) : dict :=
    dict_of (map (fun kv => (if ((rel <=? Z.of_nat (fst kv)) && (0 <=? rel))%Z then S (fst kv) else fst kv, snd kv)) h).

  Fixpoint aem (mode : nat) (c : comp) : comp :=      (* add_empty_mode_to_circuit_spec, one component *)
    match c with
    | BS m1 m2 v cv => BS (bump mode m1) (bump mode m2) v cv
    | PS m v => PS (bump mode m) v
    | LossC m v => LossC (bump mode m) v
    | Barrier ms => Barrier (map (bump mode) ms)
    | Swaps sw => Swaps (dict_of (map (fun kv => (bump mode (fst kv), bump mode (snd kv))) sw))
    | UMat m k V =>
        let m' := bump mode m in
        if Nat.ltb m' mode && Nat.ltb mode (m' + k)
        then UMat m' (S k) (tab co (S k) (add_mode_to_unitary V (mode - m')))
        else UMat m' k V
    | Group sp m1 m2 hin hout =>
        let m1' := bump mode m1 in
        let rel := (Z.of_nat mode - Z.of_nat m1')%Z in
        Group (map (aem mode) sp) m1' (bump mode m2) (shift_rel_heralds rel hin) (shift_rel_heralds rel hout)
    end.
  Definition aem_spec (mode : nat) (sp : list comp) : list comp := map (aem mode) sp.

  Fixpoint shift_comp (d : nat) (c : comp) : comp :=   (* add_modes_to_circuit_spec *)
    match c with
    | BS m1 m2 v cv => BS (m1 + d) (m2 + d) v cv
    | PS m v => PS (m + d) v
    | LossC m v => LossC (m + d) v
    | Barrier ms => Barrier (map (fun p => p + d) ms)
    | Swaps sw => Swaps (dict_of (map (fun kv => (fst kv + d, snd kv + d)) sw))
    | UMat m k V => UMat (m + d) k V
    | Group sp m1 m2 hin hout => Group (map (shift_comp d) sp) (m1 + d) (m2 + d) hin hout
    end.
  Definition shift_spec (d : nat) (sp : list comp) : list comp := map (shift_comp d) sp.

  (* Circuit._add_empty_mode: bumps n_modes, shifts the four herald dicts and internal modes *)
  Definition bump_dict (mode : nat) (h : dict) : dict :=
    dict_of (map (fun kv => (bump mode (fst kv), snd kv)) h).
  Definition add_empty_mode (c : circ) (sp : list comp) (mode : nat) : circ * list comp :=
    (mkCirc (S (c_n c)) (c_spec c) (bump_dict mode (c_in c)) (bump_dict mode (c_out c))
            (bump_dict mode (c_xin c)) (bump_dict mode (c_xout c)) (map (bump mode) (c_int c)),
     aem_spec mode sp).

  Definition copy_circ (c : circ) : circ := c.
  Definition unpack_groups (c : circ) : circ :=
    mkCirc (c_n c) (unpack_spec (c_spec c)) (c_in c) (c_out c) (c_in c) (c_out c) [].

  (* swap completion loop of Circuit.add *)
  Fixpoint skip_vals (fuel : nat) (vals : list nat) (cur : nat) : nat :=
    match fuel with
    | O => cur
    | S f => if existsb (Nat.eqb cur) vals then skip_vals f vals (S cur) else cur
    end.
  Fixpoint complete_swaps (n : nat) (i : nat) (prov : dict) (cur : nat) (acc : dict) : dict :=
    match n with
    | O => acc
    | S n' =>
        match dget prov i with
        | Some v => complete_swaps n' (S i) prov cur (dset acc i v)
        | None =>
            let cur' := skip_vals (S (length prov)) (dvals prov) cur in
            complete_swaps n' (S i) prov (S cur') (if Nat.eqb i cur' then acc else dset acc i cur')
        end
    end.

  (* Circuit.add (with the repairs F3, F4/F5, N2 of DESIGN section 7).
     [sub] is the argument; the result is the new state of [self]; the
     argument is not modified (work happens on a copy). *)
  Definition op_add (c : circ) (sub : circ) (mode : Z) (group : bool) : res circ :=
    do m <- mode_ok c (map_mode (c_int c) mode);
    let cc := unpack_groups (copy_circ sub) in
    let group := group || negb (Nat.eqb (length (c_in cc)) 0) in
    let w := if group then cc else copy_circ sub in
    let n_heralds := length (c_in w) in
    let n_avail := c_n c - m - length (filter (fun i => Nat.leb m i) (c_int c)) in
    if Nat.ltb n_avail (c_n w - n_heralds) then Err ModeRangeError else
    (* output swaps that return each herald to its input mode *)
    let prov := dict_of (combine (dkeys (c_out w)) (dkeys (c_in w))) in
    let swaps := complete_swaps (c_n w) 0 prov 0 [] in
    let sp0 := if list_eqb (dkeys swaps) (dvals swaps) then c_spec w else c_spec w ++ [Swaps swaps] in
    let w := mkCirc (c_n w) (c_spec w) (c_in w) (c_in w) (c_xin w) (c_xin w) (c_int w) in
    (* pass-through modes for the parent's existing ancillas *)
    let '(w, sp) :=
      fold_left (fun (acc : circ * list comp) i =>
                   let '(w, sp) := acc in
                   let target := fold_left (fun t hm => if (Z.of_nat hm <? t)%Z then (t + 1)%Z else t)
                                           (sort_nat (dkeys (c_in w))) (Z.of_nat i - Z.of_nat m)%Z in
                   if ((0 <=? target) && (target <? Z.of_nat (c_n w)))%Z
                   then add_empty_mode w sp (Z.to_nat target) else (w, sp))
                (sort_nat (c_int c)) (w, sp0) in
    (* new ancilla modes in the parent *)
    let c' :=
      fold_left (fun (p : circ) hm =>
                   let '(p', sp') := add_empty_mode p (c_spec p) (m + hm) in
                   mkCirc (c_n p') sp' (c_in p') (c_out p') (c_xin p') (c_xout p') (c_int p' ++ [m + hm]))
                (sort_nat (dkeys (c_in w))) c in
    let c'' := fold_left (fun (p : circ) kv =>
                            mkCirc (c_n p) (c_spec p) (dset (c_in p) (fst kv + m) (snd kv))
                                   (dset (c_out p) (fst kv + m) (snd kv)) (c_xin p) (c_xout p) (c_int p))
                         (c_in w) c' in
    let add_cs := shift_spec m sp in
    if group
    then Ok (app_spec c'' [Group add_cs m (m + c_n w - 1) (c_in w) (c_in w)])
    else Ok (app_spec c'' add_cs).

  (* Circuit.__add__ *)
  Definition op_plus (a b : circ) : res circ :=
    if negb (Nat.eqb (c_n a) (c_n b)) then Err ModeRangeError else
    if negb (Nat.eqb (length (c_in a)) 0) || negb (Nat.eqb (length (c_in b)) 0) then Err OtherError else
    Ok (mkCirc (c_n a) (c_spec a ++ c_spec b) [] [] [] [] []).

  Definition unitary_circ (k : nat) (V : mat (K:=T)) : circ :=
    mkCirc k [UMat 0 k V] [] [] [] [] [].
End Model.

Arguments BS {K} _ _ _ _. Arguments PS {K} _ _. Arguments LossC {K} _ _.
Arguments Barrier {K} _. Arguments Swaps {K} _. Arguments UMat {K} _ _ _.
Arguments Group {K} _ _ _ _ _. Arguments Lit {K} _. Arguments Ref {K} _.
Arguments mkCirc {K} _ _ _ _ _ _ _.
Arguments c_n {K} _. Arguments c_spec {K} _. Arguments c_in {K} _. Arguments c_out {K} _.
Arguments c_xin {K} _. Arguments c_xout {K} _. Arguments c_int {K} _.
Arguments new_circ {K} _. Arguments input_modes {K} _.
