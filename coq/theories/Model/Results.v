(* Model of lightworks/emulator/results/simulation_result.py and
   sampling_result.py: construction (array + inputs + outputs -> nested
   dictionary), the three __getitem__ forms, threshold / parity mappings
   (plain, inverted), _recombine_mapped_result, and SamplingResult.

   States are occupation lists (Model.State: equality/hash of a State are
   those of its list).  Values live in an arbitrary scalar type K with an
   operations record (Base.Num); only [kadd] and [k0] are used.  Python
   dictionaries are insertion-ordered association lists with the dict update
   rule (an existing key keeps its position and gets the new value).  The
   iteration order of the Python [set] in _recombine_mapped_result is a
   parameter [ord] (any rearrangement of the collected outputs).  No proofs
   in this file. *)
From Coq Require Import ZArith List Bool Arith.
From LW Require Import Base.Sx Base.Num Model.State.
Import ListNotations.
Open Scope Z_scope.

(* ------------------------------------------------------------------ dict *)
Definition dict (V : Type) : Type := list (state * V).

Section Dict.
  Context {V : Type}.
  Fixpoint dget (d : dict V) (k : state) : option V :=
    match d with
    | [] => None
    | (k', v) :: d' => if st_eqb k' k then Some v else dget d' k
    end.
  (* d[k] = v *)
  Fixpoint dset (d : dict V) (k : state) (v : V) : dict V :=
    match d with
    | [] => [(k, v)]
    | (k', v') :: d' => if st_eqb k' k then (k', v) :: d' else (k', v') :: dset d' k v
    end.
  Definition dkeys (d : dict V) : list state := map fst d.
  (* {}; for k, v in l: d[k] = v *)
  Definition dict_of (l : list (state * V)) : dict V :=
    fold_left (fun d kv => dset d (fst kv) (snd kv)) l [].
End Dict.

(* ------------------------------------------------- python values as keys *)
(* what can stand where a State is expected: a State, None, anything else *)
Inductive pyobj : Type := OState (s : state) | ONone | OOther.
(* the argument of [] : a single object or a tuple of objects *)
Inductive item : Type := ItObj (x : pyobj) | ItTuple (l : list pyobj).

(* result_type string: the two accepted values, anything else *)
Inductive rtype : Type := Probability | Amplitude | BadType.

(* the [results] argument, as numpy sees it *)
Inductive arrarg (K : Type) : Type :=
| ANested (rows : list (list K))   (* nested python list; np.array decides the shape *)
| AFlat (l : list K)               (* flat list: 1-D *)
| AScalar (x : K)                  (* 0-D *)
| AZeros (n m : nat).              (* np.zeros((n, m)): the way to get a 2-D array with n = 0 or m = 0 *)
Arguments ANested {K} _. Arguments AFlat {K} _. Arguments AScalar {K} _. Arguments AZeros {K} _ _.

Inductive shape : Type := Sh0 | Sh1 (n : nat) | Sh2 (n m : nat).

Fixpoint res_map {A B} (f : A -> res B) (l : list A) : res (list B) :=
  match l with
  | [] => Ok []
  | a :: l' => do b <- f a; do bs <- res_map f l'; Ok (b :: bs)
  end.

(* --------------------------------------------------- the mapping functions *)
(* State([1 if s >= 1 else 0 for s in out]); if invert: State([1 - s for s in new_s]) *)
Definition thr_map (invert : bool) (s : state) : state :=
  let t := map (fun x => if 1 <=? x then 1 else 0) s in
  if invert then map (fun x => 1 - x) t else t.
(* State([s % 2 ...]) / State([1 - (s % 2) ...]); Z.modulo = python % for a positive modulus *)
Definition par_map (invert : bool) (s : state) : state :=
  if invert then map (fun x => 1 - x mod 2) s else map (fun x => x mod 2) s.

Section Results.
  Context {K : Type} (o : ops K).

  (* np.array(results): shape and rows (rows only meaningful for 2-D) *)
  Definition np_array (a : arrarg K) : res (shape * list (list K)) :=
    match a with
    | ANested [] => Ok (Sh1 0, [])
    | ANested (r :: rs) =>
        if forallb (fun r' => Nat.eqb (length r') (length r)) rs
        then Ok (Sh2 (S (length rs)) (length r), r :: rs)
        else Err ValueError                       (* inhomogeneous shape (numpy >= 1.24) *)
    | AFlat l => Ok (Sh1 (length l), [])
    | AScalar _ => Ok (Sh0, [])
    | AZeros n m => Ok (Sh2 n m, repeat (repeat (k0 o) m) n)
    end.

  Record simres : Type := mkSim {
    sr_type : rtype;
    sr_ncols : nat;                   (* array.shape[1] *)
    sr_array : list (list K);         (* array rows *)
    sr_inputs : list state;
    sr_outputs : list state;
    sr_dict : dict (dict K) }.        (* the dict the object is *)

  Definition build_row (outs : list state) (row : list K) : dict K :=
    dict_of (combine outs row).
  Definition build_dict (ins outs : list state) (rows : list (list K)) : dict (dict K) :=
    dict_of (combine ins (map (build_row outs) rows)).

  (* the part of __init__ after np.array *)
  Definition sim_of_array (rt : rtype) (sh : shape) (rows : list (list K))
             (ins outs : list state) : res simres :=
    match sh with
    | Sh0 => Err IndexError                                        (* shape[0] *)
    | Sh1 n => if Nat.eqb (length ins) n then Err IndexError       (* shape[1] *)
               else Err ResultCreationError
    | Sh2 n m =>
        if negb (Nat.eqb (length ins) n) then Err ResultCreationError
        else if negb (Nat.eqb (length outs) m) then Err ResultCreationError
        else Ok (mkSim rt m rows ins outs (build_dict ins outs rows))
    end.

  Definition sim_make (rt : rtype) (a : arrarg K) (ins outs : list state) : res simres :=
    match rt with
    | BadType => Err ResultCreationError
    | _ => do shr <- np_array a; sim_of_array rt (fst shr) (snd shr) ins outs
    end.

  Definition arr_at (rows : list (list K)) (a b : nat) : option K :=
    match nth_error rows a with Some row => nth_error row b | None => None end.

  (* ---- __getitem__ ---- *)
  Inductive gval : Type := GVal (v : K) | GRow (d : dict K).

  Definition get_input (r : simres) (s : state) : res (dict K) :=
    match dget (sr_dict r) s with Some row => Ok row | None => Err KeyError end.

  Definition sim_getitem (r : simres) (it : item) : res gval :=
    match it with
    | ItObj (OState s) => do row <- get_input r s; Ok (GRow row)
    | ItObj _ => Err TypeError
    | ItTuple l =>
        if Nat.ltb 2 (length l) then Err ValueError
        else match l with
             | [] => Err IndexError                                  (* item[0] *)
             | x :: rest =>
                 let y := match rest with [y] => y | _ => ONone end in
                 match x, y with
                 | OState i, ONone => do row <- get_input r i; Ok (GRow row)
                 | OState i, OState t =>
                     do row <- get_input r i;
                     match dget row t with Some v => Ok (GVal v) | None => Err KeyError end
                 | _, _ => Err TypeError
                 end
             end
    end.

  (* ---- mappings ---- *)
  (* for out, val in row.items(): new = f(out); m[new] += val if new in m else m[new] = val *)
  Definition map_row (f : state -> state) (row : dict K) : dict K :=
    fold_left (fun m ov =>
                 let t := f (fst ov) in
                 match dget m t with
                 | Some w => dset m t (kadd o w (snd ov))
                 | None => dset m t (snd ov)
                 end) row [].
  (* mapped_result[in_state] = {...} for in_state in self (keys of a dict are distinct) *)
  Definition map_all (f : state -> state) (d : dict (dict K)) : dict (dict K) :=
    map (fun ir => (fst ir, map_row f (snd ir))) d.

  Definition add_new (acc : list state) (s : state) : list state :=
    if existsb (st_eqb s) acc then acc else acc ++ [s].
  (* the set of all mapped outputs (here: in order of first appearance) *)
  Definition unique_outputs (m : dict (dict K)) : list state :=
    fold_left (fun acc ir => fold_left (fun acc' ov => add_new acc' (fst ov)) (snd ir) acc) m [].

  Definition cell (row : dict K) (t : state) : K :=
    match dget row t with Some v => v | None => k0 o end.

  (* _recombine_mapped_result; [ord] = iteration order of the python set *)
  Definition recombine (ord : list state -> list state) (r : simres) (m : dict (dict K)) : res simres :=
    let outs := ord (unique_outputs m) in
    do rows <- res_map (fun i => match dget m i with
                                 | Some row => Ok (map (cell row) outs)
                                 | None => Err KeyError
                                 end) (sr_inputs r);
    sim_of_array (sr_type r) (Sh2 (length (sr_inputs r)) (length outs)) rows (sr_inputs r) outs.

  Definition apply_mapping (ord : list state -> list state) (f : state -> state) (r : simres) : res simres :=
    match sr_type r with
    | Amplitude => Err ValueError
    | _ => recombine ord r (map_all f (sr_dict r))
    end.
  Definition apply_threshold_mapping ord (invert : bool) := apply_mapping ord (thr_map invert).
  Definition apply_parity_mapping ord (invert : bool) := apply_mapping ord (par_map invert).

  (* ---- SamplingResult ---- *)
  Record sampres : Type := mkSamp {
    sp_input : state;
    sp_outputs : list state;
    sp_dict : dict K }.

  (* [results] is a python dict (distinct keys) *)
  Definition samp_make (results : dict K) (input : pyobj) : res sampres :=
    match input with
    | OState s => Ok (mkSamp s (dkeys results) results)
    | _ => Err ResultCreationError
    end.
  Definition samp_getitem (r : sampres) (it : item) : res K :=
    match it with
    | ItObj (OState s) => match dget (sp_dict r) s with Some v => Ok v | None => Err KeyError end
    | _ => Err TypeError
    end.
  (* the mappings have no result-type guard here; recombination = SamplingResult(mapped, input) *)
  Definition samp_apply_mapping (f : state -> state) (r : sampres) : sampres :=
    let d := map_row f (sp_dict r) in mkSamp (sp_input r) (dkeys d) d.
End Results.

Arguments GVal {K} _. Arguments GRow {K} _.
