(* Model of lightworks.sdk.state.State, emulator AnnotatedState, and
   sdk/utils/heralding_utils.py.  Occupations are Python ints -> Z. *)
From Coq Require Import ZArith List Bool Arith Lia.
From LW Require Import Base.Sx.
Import ListNotations.
Open Scope Z_scope.

Definition state := list Z.

Definition st_n_photons (s : state) : Z := fold_right Z.add 0 s.
Definition st_n_modes (s : state) : nat := length s.
Definition st_add (s t : state) : state := s ++ t.

Fixpoint zip_add (s t : list Z) : list Z :=
  match s, t with
  | x :: s', y :: t' => (x + y) :: zip_add s' t'
  | _, _ => []
  end.
Definition st_merge (s t : state) : res state :=
  if Nat.eqb (length s) (length t) then Ok (zip_add s t) else Err ValueError.

Fixpoint st_eqb (s t : state) : bool :=
  match s, t with
  | [], [] => true
  | x :: s', y :: t' => Z.eqb x y && st_eqb s' t'
  | _, _ => false
  end.

(* State._validate on integer occupations: ValueError on a negative entry.
   (Non-integers are outside the model's universe; the harness' malformed
   stream covers them against the TypeError class directly.) *)
Definition st_validate (s : state) : res unit :=
  if forallb (fun x => 0 <=? x) s then Ok tt else Err ValueError.

(* Python indexing and step-1 slicing *)
Definition py_index (len : nat) (i : Z) : option nat :=
  let l := Z.of_nat len in
  let j := if i <? 0 then i + l else i in
  if (0 <=? j) && (j <? l) then Some (Z.to_nat j) else None.

Definition st_getitem (s : state) (i : Z) : res Z :=
  match py_index (length s) i with
  | Some k => Ok (nth k s 0)
  | None => Err IndexError
  end.

Definition clamp_slice (len : nat) (x : option Z) (dflt : nat) : nat :=
  match x with
  | None => dflt
  | Some v =>
      let l := Z.of_nat len in
      let w := if v <? 0 then v + l else v in
      if w <? 0 then 0%nat else if l <? w then len else Z.to_nat w
  end.

Definition py_slice {A} (l : list A) (start stop : option Z) : list A :=
  let a := clamp_slice (length l) start 0%nat in
  let b := clamp_slice (length l) stop (length l) in
  firstn (b - a) (skipn a l).

Definition st_slice (s : state) (start stop : option Z) : state := py_slice s start stop.

(* ---- heralding_utils ---- *)
Definition hdict := list (nat * Z).   (* insertion-ordered dict: full mode -> photons *)
Fixpoint hlookup (h : hdict) (i : nat) : option Z :=
  match h with
  | [] => None
  | (k, v) :: h' => if Nat.eqb k i then Some v else hlookup h' i   (* keys of a dict are distinct *)
  end.

Fixpoint add_her (fuel i : nat) (h : nat -> option Z) (st : list Z) : res (list Z) :=
  match fuel with
  | O => Ok []
  | S f =>
      match h i with
      | Some v => do r <- add_her f (S i) h st; Ok (v :: r)
      | None =>
          match st with
          | [] => Err IndexError
          | x :: st' => do r <- add_her f (S i) h st'; Ok (x :: r)
          end
      end
  end.

Definition add_heralds_to_state (st : state) (h : hdict) : res state :=
  match h with
  | [] => Ok st
  | _ => add_her (length st + length h) 0 (hlookup h) st
  end.

Fixpoint insert_desc (m : nat) (l : list nat) : list nat :=
  match l with
  | [] => [m]
  | x :: l' => if Nat.leb x m then m :: l else x :: insert_desc m l'
  end.
Definition sort_desc (l : list nat) : list nat := fold_right insert_desc [] l.

Fixpoint remove_nth {A} (k : nat) (l : list A) : list A :=
  match l, k with
  | [], _ => []
  | _ :: l', O => l'
  | x :: l', S k' => x :: remove_nth k' l'
  end.

Fixpoint pops (ms : list nat) (s : state) : res state :=
  match ms with
  | [] => Ok s
  | m :: ms' => if Nat.ltb m (length s) then pops ms' (remove_nth m s) else Err IndexError
  end.

Definition remove_heralds_from_state (st : state) (modes : list nat) : res state :=
  pops (sort_desc modes) st.

(* ---- AnnotatedState: per-mode lists of labels, kept sorted ---- *)
Fixpoint insert_asc (x : Z) (l : list Z) : list Z :=
  match l with
  | [] => [x]
  | y :: l' => if x <=? y then x :: l else y :: insert_asc x l'
  end.
Definition sort_asc (l : list Z) : list Z := fold_right insert_asc [] l.

Definition astate := list (list Z).
Definition an_make (raw : list (list Z)) : astate := map sort_asc raw.
Definition an_n_photons (a : astate) : nat := fold_right (fun m acc => (length m + acc)%nat) 0%nat a.
Definition an_add (a b : astate) : astate := an_make (a ++ b).
Fixpoint zip_app (a b : list (list Z)) : list (list Z) :=
  match a, b with
  | x :: a', y :: b' => (x ++ y) :: zip_app a' b'
  | _, _ => []
  end.
Definition an_merge (a b : astate) : res astate :=
  if Nat.eqb (length a) (length b) then Ok (an_make (zip_app a b)) else Err ValueError.
Fixpoint zlist_eqb (s t : list Z) : bool :=
  match s, t with
  | [], [] => true
  | x :: s', y :: t' => Z.eqb x y && zlist_eqb s' t'
  | _, _ => false
  end.
Fixpoint an_eqb (a b : astate) : bool :=
  match a, b with
  | [], [] => true
  | x :: a', y :: b' => zlist_eqb x y && an_eqb a' b'
  | _, _ => false
  end.
Definition an_getitem (a : astate) (i : Z) : res (list Z) :=
  match py_index (length a) i with
  | Some k => Ok (nth k a [])
  | None => Err IndexError
  end.
Definition an_slice (a : astate) (start stop : option Z) : astate := an_make (py_slice a start stop).

(* fock_basis / _sums, with the enumeration order of the generator *)
Fixpoint fock_sums (len : nat) (total : nat) : list (list nat) :=
  match len with
  | O => []      (* _sums(0, n) recurses forever in Python; callers never pass 0 *)
  | S O => [[total]]
  | S len' =>
      flat_map (fun v => map (fun p => p ++ [v]) (fock_sums len' (total - v)))
               (seq 0 (S total))
  end.
