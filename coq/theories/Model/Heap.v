(* Reference-level model of the construction API of lightworks.Circuit (property C08).

   Model/World.v is a FUNCTIONAL pool of circuit values: it cannot exhibit aliasing.
   This file models what the Python really does: objects live in a heap, circuits hold
   REFERENCES, `copy(x)` allocates, `x.f = ...`, `list.append`, `d[k] = v` write in place.

   Objects (cells):
     CComp  a component dataclass instance (BeamSplitter, PhaseShifter, Loss, Barrier, ModeSwaps,
            UnitaryMatrix, Group).  A Group refers to its `circuit_spec` LIST object and to the two
            dictionaries of its `heralds` by address.  Barrier.modes, ModeSwaps.swaps and
            UnitaryMatrix.unitary are kept as values inside the cell: the code never mutates these
            sub-objects in place, it only rebinds the field (a whole-cell write here).
     CList  a Python list of component references (`__circuit_spec`, `Group.circuit_spec`)
     CDict  a Python dict int -> int (the four herald dictionaries of a circuit, Group.heralds[...])
     CNats  a Python list of ints (`__internal_modes`)
   A Circuit object is a record of n_modes and six references.  Circuit objects are only ever
   referenced from the pool (the Python variables of the program) or as locals of `add`, so they
   are records in the pool, not cells.

   Every function below allocates exactly where the Python copies or builds a new object and
   writes exactly where the Python assigns to a field / appends / stores a key.  Every write is
   recorded in the heap's write log [h_log].

   Source -> model:
     copy(spec)                                   hcopy           (shallow: sub-object references are shared)
     add_modes_to_circuit_spec                    h_shift  = h_xform (Xshift k)    (copy, then write the copy)
     add_empty_mode_to_circuit_spec               h_aem    = h_xform (Xaem mode)   (copy, then write the copy)
     _freeze_params (after deepcopy)              h_freeze = h_xform (Xfreeze e)
     unpack_circuit_spec                          h_unpack        (reads only; the result list is new)
     Circuit.copy                                 h_copy_circ     (new list object, same component references;
                                                                   four new dicts, new internal-modes list)
     Circuit.unpack_groups                        h_unpack_groups (external dicts become ALIASES of the
                                                                   full dicts: self.__external_in_heralds = self.__in_heralds)
     Circuit._add_empty_mode                      h_add_empty_mode
     Circuit.add                                  h_add
     Circuit.__add__                              OPlus case of hstep (new list = concatenation, same references)
     bs / ps / loss / barrier / mode_swaps        h_bs ... (new component, append to the circuit's own list)
     herald                                       h_herald (four in-place dict stores)
     compress_mode_swaps / convert_non_adj_...    h_compress / h_nonadj
     copy(freeze_parameters=True)                 h_copy_frozen
   Recursion into groups uses a depth index; groups never nest (Circuit.add unpacks before it
   groups), depth 2 is what [hstep] uses and Proofs/HeapP.v shows that this is enough.
   No proofs here. *)
From Coq Require Import ZArith List Bool Arith Lia PArith FMapPositive.
From LW Require Import Base.Sx Base.Num Base.Sums Base.Mat Model.Circuit Model.World Model.Rewrite.
Import ListNotations.

Definition addr : Type := positive.

Section Heap.
  Context {K : Type} (o : ops K).
  Notation val := (@val K).
  Notation comp := (@comp K).
  Notation circ := (@circ K).
  Notation op := (@op K).
  Notation op9 := (@op9 K).
  Notation cmat := (@mat (@T K)).

  Inductive hcomp : Type :=
  | HBS (m1 m2 : nat) (v : val) (cv : conv)
  | HPS (m : nat) (v : val)
  | HLoss (m : nat) (v : val)
  | HBarrier (ms : list nat)
  | HSwaps (sw : dict)
  | HUMat (m k : nat) (V : cmat)
  | HGroup (lst : addr) (m1 m2 : nat) (hin hout : addr).

  Inductive cell : Type :=
  | CComp (c : hcomp)
  | CList (l : list addr)
  | CDict (d : dict)
  | CNats (l : list nat).

  Record heap : Type := mkHeap {
    h_cells : PositiveMap.t cell;
    h_next : addr;                (* every allocated address is < h_next *)
    h_log : list addr }.          (* addresses written by [hwrite], most recent first *)

  Definition hempty : heap := mkHeap (PositiveMap.empty cell) 1%positive [].
  Definition hget (h : heap) (a : addr) : option cell := PositiveMap.find a (h_cells h).
  Definition halloc (h : heap) (c : cell) : heap * addr :=
    (mkHeap (PositiveMap.add (h_next h) c (h_cells h)) (Pos.succ (h_next h)) (h_log h), h_next h).
  Definition hwrite (h : heap) (a : addr) (c : cell) : heap :=
    mkHeap (PositiveMap.add a c (h_cells h)) (h_next h) (a :: h_log h).
  Definition clear_log (h : heap) : heap := mkHeap (h_cells h) (h_next h) [].

  (* copy.copy(obj): a new object with the same field values (references are shared) *)
  Definition hcopy (h : heap) (a : addr) : heap * addr :=
    match hget h a with
    | Some c => halloc h c
    | None => (h, a)
    end.

  Definition rd_list (h : heap) (a : addr) : list addr :=
    match hget h a with Some (CList l) => l | _ => [] end.
  Definition rd_dict (h : heap) (a : addr) : dict :=
    match hget h a with Some (CDict d) => d | _ => [] end.
  Definition rd_nats (h : heap) (a : addr) : list nat :=
    match hget h a with Some (CNats l) => l | _ => [] end.

  (* lst.append(x) / d[k] = v / ints.append(x) : in-place *)
  Definition h_append (h : heap) (a : addr) (x : addr) : heap := hwrite h a (CList (rd_list h a ++ [x])).
  Definition h_dset (h : heap) (a : addr) (k v : nat) : heap := hwrite h a (CDict (dset (rd_dict h a) k v)).
  Definition h_nappend (h : heap) (a : addr) (x : nat) : heap := hwrite h a (CNats (rd_nats h a ++ [x])).

  (* "new = []; for spec in lst: ...; new.append(spec')" *)
  Fixpoint hmap (f : heap -> addr -> heap * addr) (h : heap) (l : list addr) : heap * list addr :=
    match l with
    | [] => (h, [])
    | a :: l' =>
        let '(h1, a') := f h a in
        let '(h2, r) := hmap f h1 l' in
        (h2, a' :: r)
    end.
  Fixpoint hflat (f : heap -> addr -> heap * list addr) (h : heap) (l : list addr) : heap * list addr :=
    match l with
    | [] => (h, [])
    | a :: l' =>
        let '(h1, r1) := f h a in
        let '(h2, r) := hflat f h1 l' in
        (h2, r1 ++ r)
    end.

  (* ---------------- the copy-and-edit loop shared by add_modes_to_circuit_spec,
     add_empty_mode_to_circuit_spec and _freeze_params ----------------
       new = []
       for spec in circuit_spec:
           spec = copy(spec)                                  <- hcopy: a NEW cell, same field values
           if isinstance(spec, Group):
               spec.circuit_spec = <recursive call>(spec.circuit_spec, ...)     <- a NEW list object
               spec.mode_1, spec.mode_2 = ...
               [spec.heralds = {"input": new_in, "output": new_out}]            <- NEW dicts, or left alone
           else:
               spec.<mode fields> = ...                       <- written into the copy
           new.append(spec)
     The three functions differ in the values written ([xf_leaf], [xf_span]) and in whether the
     herald dictionaries of a group are rebuilt ([xf_her] = Some f) or stay shared with the
     original group ([xf_her] = None: add_modes_to_circuit_spec never touches spec.heralds). *)
  Record xform : Type := mkX {
    xf_leaf : hcomp -> hcomp;
    xf_span : nat -> nat -> nat * nat;
    xf_her : nat -> nat -> option (dict -> dict) }.

  Fixpoint h_xform (X : xform) (d : nat) (h : heap) (a : addr) {struct d} : heap * addr :=
    match d with
    | O => (h, a)
    | S d' =>
        let '(h1, a') := hcopy h a in                               (* spec = copy(spec) *)
        match hget h1 a' with
        | Some (CComp (HGroup lst m1 m2 hi ho)) =>
            let '(h2, ms) := hmap (h_xform X d') h1 (rd_list h1 lst) in
            let '(h3, lst') := halloc h2 (CList ms) in
            let '(m1', m2') := xf_span X m1 m2 in
            match xf_her X m1 m2 with
            | None => (hwrite h3 a' (CComp (HGroup lst' m1' m2' hi ho)), a')
            | Some f =>
                let '(h4, hi') := halloc h3 (CDict (f (rd_dict h3 hi))) in
                let '(h5, ho') := halloc h4 (CDict (f (rd_dict h4 ho))) in
                (hwrite h5 a' (CComp (HGroup lst' m1' m2' hi' ho')), a')
            end
        | Some (CComp c) => (hwrite h1 a' (CComp (xf_leaf X c)), a')
        | _ => (h1, a')
        end
    end.

  (* circuit_utils.add_modes_to_circuit_spec *)
  Definition Xshift (k : nat) : xform :=
    mkX (fun c => match c with
                  | HBS m1 m2 v cv => HBS (m1 + k) (m2 + k) v cv
                  | HPS m v => HPS (m + k) v
                  | HLoss m v => HLoss (m + k) v
                  | HBarrier ms => HBarrier (map (fun p => p + k) ms)
                  | HSwaps sw => HSwaps (dict_of (map (fun kv => (fst kv + k, snd kv + k)) sw))
                  | HUMat m kk V => HUMat (m + k) kk V
                  | HGroup _ _ _ _ _ => c
                  end)
        (fun m1 m2 => (m1 + k, m2 + k))
        (fun _ _ => None).
  Definition h_shift (d k : nat) : heap -> addr -> heap * addr := h_xform (Xshift k) d.

  (* circuit_utils.add_empty_mode_to_circuit_spec *)
  Definition Xaem (mode : nat) : xform :=
    mkX (fun c => match c with
                  | HBS m1 m2 v cv => HBS (bump mode m1) (bump mode m2) v cv
                  | HPS m v => HPS (bump mode m) v
                  | HLoss m v => HLoss (bump mode m) v
                  | HBarrier ms => HBarrier (map (bump mode) ms)
                  | HSwaps sw => HSwaps (dict_of (map (fun kv => (bump mode (fst kv), bump mode (snd kv))) sw))
                  | HUMat m k V =>
                      let m' := bump mode m in
                      if Nat.ltb m' mode && Nat.ltb mode (m' + k)
                      then HUMat m' (S k) (tab (co o) (S k) (add_mode_to_unitary o V (mode - m')))
                      else HUMat m' k V
                  | HGroup _ _ _ _ _ => c
                  end)
        (fun m1 m2 => (bump mode m1, bump mode m2))
        (fun m1 _ => Some (shift_rel_heralds (Z.of_nat mode - Z.of_nat (bump mode m1))%Z)).
  Definition h_aem (d mode : nat) : heap -> addr -> heap * addr := h_xform (Xaem mode) d.

  (* ---------------- circuit_utils.unpack_circuit_spec (reads only) ---------------- *)
  Definition h_unpack (h : heap) (l : list addr) : list addr :=
    flat_map (fun a => match hget h a with
                       | Some (CComp (HGroup lst _ _ _ _)) => rd_list h lst
                       | _ => [a]
                       end) l.

  (* ---------------- the Circuit object ---------------- *)
  Record hcirc : Type := mkHC {
    hc_n : nat;                          (* __n_modes (an int stored in the object) *)
    hc_spec : addr;                      (* __circuit_spec : reference to a CList *)
    hc_in : addr; hc_out : addr;         (* __in_heralds / __out_heralds : references to CDicts *)
    hc_xin : addr; hc_xout : addr;       (* __external_in_heralds / __external_out_heralds *)
    hc_int : addr }.                     (* __internal_modes : reference to a CNats *)

  (* Circuit.copy() : copy(list), copy(dict) x 4, copy(list of ints); components are NOT copied *)
  Definition h_copy_circ (h : heap) (c : hcirc) : heap * hcirc :=
    let '(h1, sp) := halloc h (CList (rd_list h (hc_spec c))) in
    let '(h2, i) := halloc h1 (CDict (rd_dict h1 (hc_in c))) in
    let '(h3, ou) := halloc h2 (CDict (rd_dict h2 (hc_out c))) in
    let '(h4, xi) := halloc h3 (CDict (rd_dict h3 (hc_xin c))) in
    let '(h5, xo) := halloc h4 (CDict (rd_dict h4 (hc_xout c))) in
    let '(h6, it) := halloc h5 (CNats (rd_nats h5 (hc_int c))) in
    (h6, mkHC (hc_n c) sp i ou xi xo it).

  (* Circuit.unpack_groups() *)
  Definition h_unpack_groups (h : heap) (c : hcirc) : heap * hcirc :=
    let '(h1, it) := halloc h (CNats []) in                                   (* self.__internal_modes = [] *)
    let '(h2, sp) := halloc h1 (CList (h_unpack h1 (rd_list h1 (hc_spec c)))) in
    (h2, mkHC (hc_n c) sp (hc_in c) (hc_out c) (hc_in c) (hc_out c) it).      (* external dicts ALIAS the full ones *)

  (* Circuit._add_empty_mode(circuit_spec, mode): returns the new list (a local value) *)
  Definition h_add_empty_mode (h : heap) (c : hcirc) (l : list addr) (mode : nat) : heap * hcirc * list addr :=
    let '(h1, l') := hmap (h_aem 2 mode) h l in
    let '(h2, i) := halloc h1 (CDict (bump_dict mode (rd_dict h1 (hc_in c)))) in
    let '(h3, ou) := halloc h2 (CDict (bump_dict mode (rd_dict h2 (hc_out c)))) in
    let '(h4, xi) := halloc h3 (CDict (bump_dict mode (rd_dict h3 (hc_xin c)))) in
    let '(h5, xo) := halloc h4 (CDict (bump_dict mode (rd_dict h4 (hc_xout c)))) in
    let '(h6, it) := halloc h5 (CNats (map (bump mode) (rd_nats h5 (hc_int c)))) in
    (h6, mkHC (S (hc_n c)) (hc_spec c) i ou xi xo it, l').

  Definition mode_ok_n (n : nat) (m : Z) : res nat :=
    if in_range n m then Ok (Z.to_nat m) else Err ModeRangeError.
  Fixpoint all_ok_n (n : nat) (ms : list Z) : res (list nat) :=
    match ms with
    | [] => Ok []
    | m :: ms' => do a <- mode_ok_n n m; do r <- all_ok_n n ms'; Ok (a :: r)
    end.

  (* ---------------- primitives: validate, build the component, append to the own list ---------------- *)
  Definition h_bs (e : env (K:=K)) (h : heap) (c : hcirc) (m1 : Z) (m2 : option Z) (r loss : val) (cv : conv)
    : heap * res hcirc :=
    let ints := rd_nats h (hc_int c) in
    let m2 := match m2 with Some x => x | None => (m1 + 1)%Z end in
    match mode_ok_n (hc_n c) (map_mode ints m1) with Err x => (h, Err x) | Ok a =>
    let m2' := map_mode ints m2 in
    if (Z.of_nat a =? m2')%Z then (h, Err ModeRangeError) else
    match mode_ok_n (hc_n c) m2' with Err x => (h, Err x) | Ok b =>
    match check_loss o e loss with Err x => (h, Err x) | Ok _ =>
    if negb (bs_valid o r) then (h, Err ValueError) else
    let '(h1, x) := halloc h (CComp (HBS a b r cv)) in
    let h2 := h_append h1 (hc_spec c) x in
    if loss_positive o loss then
      let '(h3, l1) := halloc h2 (CComp (HLoss a loss)) in
      let h4 := h_append h3 (hc_spec c) l1 in
      let '(h5, l2) := halloc h4 (CComp (HLoss b loss)) in
      (h_append h5 (hc_spec c) l2, Ok c)
    else (h2, Ok c)
    end end end.

  Definition h_ps (e : env (K:=K)) (h : heap) (c : hcirc) (m : Z) (phi loss : val) : heap * res hcirc :=
    match mode_ok_n (hc_n c) (map_mode (rd_nats h (hc_int c)) m) with Err x => (h, Err x) | Ok a =>
    match check_loss o e loss with Err x => (h, Err x) | Ok _ =>
    let '(h1, x) := halloc h (CComp (HPS a phi)) in
    let h2 := h_append h1 (hc_spec c) x in
    if loss_positive o loss then
      let '(h3, l1) := halloc h2 (CComp (HLoss a loss)) in
      (h_append h3 (hc_spec c) l1, Ok c)
    else (h2, Ok c)
    end end.

  Definition h_loss (e : env (K:=K)) (h : heap) (c : hcirc) (m : Z) (loss : val) : heap * res hcirc :=
    match mode_ok_n (hc_n c) (map_mode (rd_nats h (hc_int c)) m) with Err x => (h, Err x) | Ok a =>
    match check_loss o e loss with Err x => (h, Err x) | Ok _ =>
    let '(h1, x) := halloc h (CComp (HLoss a loss)) in
    (h_append h1 (hc_spec c) x, Ok c)
    end end.

  Definition h_barrier (h : heap) (c : hcirc) (modes : option (list Z)) : heap * res hcirc :=
    let ints := rd_nats h (hc_int c) in
    let ms := match modes with
              | Some l => l
              | None => map Z.of_nat (seq 0 (hc_n c - length ints))
              end in
    match all_ok_n (hc_n c) (map (map_mode ints) ms) with Err x => (h, Err x) | Ok r =>
    let '(h1, x) := halloc h (CComp (HBarrier r)) in
    (h_append h1 (hc_spec c) x, Ok c)
    end.

  Definition h_mode_swaps (h : heap) (c : hcirc) (swaps : list (Z * Z)) : heap * res hcirc :=
    let ints := rd_nats h (hc_int c) in
    let mapped := fold_left (fun d kv => zdset d (map_mode ints (fst kv)) (map_mode ints (snd kv))) swaps [] in
    match all_ok_n (hc_n c) (map fst mapped) with Err x => (h, Err x) | Ok ks =>
    match all_ok_n (hc_n c) (map snd mapped) with Err x => (h, Err x) | Ok vs =>
    if list_eqb (sort_nat ks) (sort_nat vs)
    then let '(h1, x) := halloc h (CComp (HSwaps (combine ks vs))) in
         (h_append h1 (hc_spec c) x, Ok c)
    else (h, Err ValueError)
    end end.

  (* Circuit.herald: four in-place stores; after unpack_groups two of them hit the same dict twice *)
  Definition h_herald (h : heap) (c : hcirc) (n : nat) (im : Z) (om : option Z) : heap * res hcirc :=
    let ints := rd_nats h (hc_int c) in
    let om := match om with Some x => x | None => im end in
    match mode_ok_n (hc_n c) (map_mode ints im) with Err x => (h, Err x) | Ok a =>
    match mode_ok_n (hc_n c) (map_mode ints om) with Err x => (h, Err x) | Ok b =>
    if dmem (rd_dict h (hc_in c)) a then (h, Err ValueError) else
    if dmem (rd_dict h (hc_out c)) b then (h, Err ValueError) else
    let h1 := h_dset h (hc_in c) a n in
    let h2 := h_dset h1 (hc_out c) b n in
    let h3 := h_dset h2 (hc_xin c) a n in
    (h_dset h3 (hc_xout c) b n, Ok c)
    end end.

  (* ---------------- Circuit.add ---------------- *)
  Definition set_spec_ref (c : hcirc) (sp : addr) : hcirc :=
    mkHC (hc_n c) sp (hc_in c) (hc_out c) (hc_xin c) (hc_xout c) (hc_int c).

  (* "for i in sorted(self.__internal_modes): ... spec = circuit._add_empty_mode(spec, target_mode)" *)
  Definition h_pass_step (m : nat) (acc : heap * hcirc * list addr) (i : nat) : heap * hcirc * list addr :=
    let '(hh, w, sp) := acc in
    let target := fold_left (fun t hm => if (Z.of_nat hm <? t)%Z then (t + 1)%Z else t)
                            (sort_nat (dkeys (rd_dict hh (hc_in w)))) (Z.of_nat i - Z.of_nat m)%Z in
    if ((0 <=? target) && (target <? Z.of_nat (hc_n w)))%Z
    then h_add_empty_mode hh w sp (Z.to_nat target) else acc.

  (* "for m in sorted(circuit.heralds['input']):
        self.__circuit_spec = self._add_empty_mode(self.__circuit_spec, mode + m)
        self.__internal_modes.append(mode + m)" *)
  Definition h_anc_step (m : nat) (acc : heap * hcirc) (hm : nat) : heap * hcirc :=
    let '(hh, p) := acc in
    let '(hh1, p', sp') := h_add_empty_mode hh p (rd_list hh (hc_spec p)) (m + hm) in
    let '(hh2, spa) := halloc hh1 (CList sp') in
    let hh3 := h_nappend hh2 (hc_int p') (m + hm) in
    (hh3, set_spec_ref p' spa).

  (* "self.__in_heralds[m + mode] = n ; self.__out_heralds[m + mode] = n" *)
  Definition h_her_step (m : nat) (p : hcirc) (hh : heap) (kv : nat * nat) : heap :=
    h_dset (h_dset hh (hc_in p) (fst kv + m) (snd kv)) (hc_out p) (fst kv + m) (snd kv).

  Definition h_add (h : heap) (c sub : hcirc) (mode : Z) (group : bool) : heap * res hcirc :=
    let ints := rd_nats h (hc_int c) in
    match mode_ok_n (hc_n c) (map_mode ints mode) with Err x => (h, Err x) | Ok m =>
    let '(h1, cc0) := h_copy_circ h sub in                       (* circuit_copy = circuit.copy() *)
    let '(h2, cc) := h_unpack_groups h1 cc0 in                   (* circuit_copy.unpack_groups() *)
    let group := group || negb (Nat.eqb (length (rd_dict h2 (hc_in cc))) 0) in
    let '(h3, w) := if group then (h2, cc) else h_copy_circ h2 sub in
    let n_heralds := length (rd_dict h3 (hc_in w)) in
    let n_avail := hc_n c - m - length (filter (fun i => Nat.leb m i) ints) in
    if Nat.ltb n_avail (hc_n w - n_heralds) then (h3, Err ModeRangeError) else
    let prov := dict_of (combine (dkeys (rd_dict h3 (hc_out w))) (dkeys (rd_dict h3 (hc_in w)))) in
    let swaps := complete_swaps (hc_n w) 0 prov 0 [] in
    let h4 := if list_eqb (dkeys swaps) (dvals swaps) then h3
              else let '(hh, a) := halloc h3 (CComp (HSwaps swaps)) in
                   h_append hh (hc_spec w) a in                  (* spec.append(ModeSwaps(swaps)) *)
    let '(h5, o') := halloc h4 (CDict (rd_dict h4 (hc_in w))) in  (* circuit.__out_heralds = copy(circuit.__in_heralds) *)
    let '(h6, xo') := halloc h5 (CDict (rd_dict h5 (hc_xin w))) in
    let w := mkHC (hc_n w) (hc_spec w) (hc_in w) o' (hc_xin w) xo' (hc_int w) in
    let sp0 := rd_list h6 (hc_spec w) in
    let '(h7, w, sp) := fold_left (h_pass_step m) (sort_nat ints) (h6, w, sp0) in
    let '(h8, c') := fold_left (h_anc_step m) (sort_nat (dkeys (rd_dict h7 (hc_in w)))) (h7, c) in
    let h9 := fold_left (h_her_step m c') (rd_dict h8 (hc_in w)) h8 in
    let '(h10, add_cs) := hmap (h_shift 2 m) h9 sp in            (* add_modes_to_circuit_spec(spec, mode) *)
    if group then
      let '(h11, lst) := halloc h10 (CList add_cs) in
      let '(h12, gi) := halloc h11 (CDict (rd_dict h11 (hc_in w))) in     (* circuit.heralds["input"] : a copy *)
      let '(h13, go) := halloc h12 (CDict (rd_dict h12 (hc_in w))) in     (* a second copy *)
      let '(h14, g) := halloc h13 (CComp (HGroup lst m (m + hc_n w - 1) gi go)) in
      (h_append h14 (hc_spec c') g, Ok c')                       (* self.__circuit_spec.append(Group(...)) *)
    else
      let '(h11, spa) := halloc h10 (CList (rd_list h10 (hc_spec c') ++ add_cs)) in
      (h11, Ok (set_spec_ref c' spa))                            (* self.__circuit_spec = self.__circuit_spec + add_cs *)
    end.

  (* ---------------- reading a circuit through the heap ---------------- *)
  Fixpoint abs_comp (d : nat) (h : heap) (a : addr) {struct d} : comp :=
    match d with
    | O => Barrier []
    | S d' =>
        match hget h a with
        | Some (CComp (HBS m1 m2 v cv)) => BS m1 m2 v cv
        | Some (CComp (HPS m v)) => PS m v
        | Some (CComp (HLoss m v)) => LossC m v
        | Some (CComp (HBarrier ms)) => Barrier ms
        | Some (CComp (HSwaps sw)) => Swaps sw
        | Some (CComp (HUMat m k V)) => UMat m k V
        | Some (CComp (HGroup lst m1 m2 hi ho)) =>
            Group (map (abs_comp d' h) (rd_list h lst)) m1 m2 (rd_dict h hi) (rd_dict h ho)
        | _ => Barrier []
        end
    end.
  Definition abs_list (h : heap) (l : list addr) : list comp := map (abs_comp 2 h) l.
  Definition abs_circ (h : heap) (c : hcirc) : circ :=
    mkCirc (hc_n c) (abs_list h (rd_list h (hc_spec c)))
           (rd_dict h (hc_in c)) (rd_dict h (hc_out c)) (rd_dict h (hc_xin c)) (rd_dict h (hc_xout c))
           (rd_nats h (hc_int c)).

  (* ---------------- rewrites ---------------- *)
  (* compress_mode_swaps: "spec = copy(spec)" comes BEFORE "if i in to_skip: continue" *)
  Fixpoint h_compress_outer (i : nat) (h : heap) (l : list addr) (to_skip : list nat) (new : list addr)
    : heap * list addr :=
    match l with
    | [] => (h, new)
    | a :: rest =>
        let '(h1, a') := hcopy h a in
        if memb i to_skip then h_compress_outer (S i) h1 rest to_skip new
        else
          match hget h1 a' with
          | Some (CComp (HSwaps sw)) =>
              (* the inner loop only reads circuit_spec[i+1:] *)
              let '(sw', ts') := compress_inner true (S i) (abs_list h1 rest) [] sw to_skip in
              let h2 := hwrite h1 a' (CComp (HSwaps sw')) in          (* spec.swaps = new_swaps *)
              h_compress_outer (S i) h2 rest ts' (new ++ [a'])
          | _ => h_compress_outer (S i) h1 rest to_skip (new ++ [a'])
          end
    end.
  Definition h_compress (h : heap) (c : hcirc) : heap * res hcirc :=
    let '(h1, l) := h_compress_outer 0 h (rd_list h (hc_spec c)) [] [] in
    let '(h2, sp) := halloc h1 (CList l) in
    (h2, Ok (set_spec_ref c sp)).

  Fixpoint h_nonadj_one (d : nat) (h : heap) (a : addr) {struct d} : heap * list addr :=
    match d with
    | O => (h, [a])
    | S d' =>
        let '(h1, a') := hcopy h a in
        match hget h1 a' with
        | Some (CComp (HBS m1 m2 v cv)) =>
            if adjacent m1 m2 then (h1, [a'])
            else
              let lo := Nat.min m1 m2 in
              let hi := Nat.max m1 m2 in
              let mid := non_adj_mid lo hi in
              let sw := non_adj_swaps lo hi in
              let '(a1, a2) := if Nat.ltb m2 m1 then (mid + 1, mid) else (mid, mid + 1) in
              let '(h2, x1) := halloc h1 (CComp (HSwaps sw)) in
              let '(h3, x2) := halloc h2 (CComp (HBS a1 a2 v cv)) in
              let '(h4, x3) := halloc h3 (CComp (HSwaps (flip_dict sw))) in
              (h4, [x1; x2; x3])
        | Some (CComp (HGroup lst m1 m2 hi ho)) =>
            let '(h2, ms) := hflat (h_nonadj_one d') h1 (rd_list h1 lst) in
            let '(h3, lst') := halloc h2 (CList ms) in
            (hwrite h3 a' (CComp (HGroup lst' m1 m2 hi ho)), [a'])
        | _ => (h1, [a'])
        end
    end.
  Definition h_nonadj (h : heap) (c : hcirc) : heap * res hcirc :=
    let '(h1, l) := hflat (h_nonadj_one 2) h (rd_list h (hc_spec c)) in
    let '(h2, sp) := halloc h1 (CList l) in
    (h2, Ok (set_spec_ref c sp)).

  (* copy(freeze_parameters=True): deepcopy, then _freeze_params copies every component again *)
  Definition Xfreeze (e : env (K:=K)) : xform :=
    mkX (fun c => match c with
                  | HBS m1 m2 v cv => HBS m1 m2 (freeze_val e v) cv
                  | HPS m v => HPS m (freeze_val e v)
                  | HLoss m v => HLoss m (freeze_val e v)
                  | _ => c
                  end)
        (fun m1 m2 => (m1, m2))
        (fun _ _ => Some (fun d => d)).                                  (* deepcopy of the heralds dicts *)
  Definition h_freeze (d : nat) (e : env (K:=K)) : heap -> addr -> heap * addr := h_xform (Xfreeze e) d.
  Definition h_copy_frozen (e : env (K:=K)) (h : heap) (c : hcirc) : heap * hcirc :=
    let '(h0, l) := hmap (h_freeze 2 e) h (rd_list h (hc_spec c)) in
    let '(h1, sp) := halloc h0 (CList l) in
    let '(h2, i) := halloc h1 (CDict (rd_dict h1 (hc_in c))) in
    let '(h3, ou) := halloc h2 (CDict (rd_dict h2 (hc_out c))) in
    let '(h4, xi) := halloc h3 (CDict (rd_dict h3 (hc_xin c))) in
    let '(h5, xo) := halloc h4 (CDict (rd_dict h4 (hc_xout c))) in
    let '(h6, it) := halloc h5 (CNats (rd_nats h5 (hc_int c))) in
    (h6, mkHC (hc_n c) sp i ou xi xo it).

  (* ---------------- the pool and the step function ---------------- *)
  Definition hpool : Type := list (nat * hcirc).
  Fixpoint pget (w : hpool) (id : nat) : option hcirc :=
    match w with
    | [] => None
    | (i, c) :: w' => if Nat.eqb i id then Some c else pget w' id
    end.
  Fixpoint pset (w : hpool) (id : nat) (c : hcirc) : hpool :=
    match w with
    | [] => [(id, c)]
    | (i, c') :: w' => if Nat.eqb i id then (id, c) :: w' else (i, c') :: pset w' id c
    end.

  Record hworld : Type := mkHW { hw_pool : hpool; hw_heap : heap }.
  Definition hw_empty : hworld := mkHW [] hempty.

  Definition abs (hw : hworld) : world (K:=K) :=
    map (fun ic => (fst ic, abs_circ (hw_heap hw) (snd ic))) (hw_pool hw).

  (* Circuit(n): a fresh object with fresh empty containers *)
  Definition h_new_circ (h : heap) (n : nat) (l : list addr) : heap * hcirc :=
    let '(h1, sp) := halloc h (CList l) in
    let '(h2, i) := halloc h1 (CDict []) in
    let '(h3, ou) := halloc h2 (CDict []) in
    let '(h4, xi) := halloc h3 (CDict []) in
    let '(h5, xo) := halloc h4 (CDict []) in
    let '(h6, it) := halloc h5 (CNats []) in
    (h6, mkHC n sp i ou xi xo it).

  Definition hupd (p : hpool) (h : heap) (id : nat) (f : heap -> hcirc -> heap * res hcirc) : hworld * res unit :=
    match pget p id with
    | None => (mkHW p h, Err KeyError)
    | Some c =>
        match f h c with
        | (h', Ok c') => (mkHW (pset p id c') h', Ok tt)
        | (h', Err x) => (mkHW p h', Err x)
        end
    end.

  (* the heap transformer of one API call; the write log is reset at the start of the call, so
     afterwards it holds exactly the writes this call performed *)
  Definition hstep_in (e : env (K:=K)) (p : hpool) (h : heap) (x : op) : hworld * res unit :=
    match x with
    | ONew id n => let '(h', c) := h_new_circ h n [] in (mkHW (pset p id c) h', Ok tt)
    | OUnitary id k V =>
        let '(h0, a) := halloc h (CComp (HUMat 0 k (of_rows (cplx o) V))) in
        let '(h', c) := h_new_circ h0 k [a] in (mkHW (pset p id c) h', Ok tt)
    | OBs id m1 m2 r l cv => hupd p h id (fun h c => h_bs e h c m1 m2 r l cv)
    | OPs id m phi l => hupd p h id (fun h c => h_ps e h c m phi l)
    | OLoss id m l => hupd p h id (fun h c => h_loss e h c m l)
    | OBarrier id ms => hupd p h id (fun h c => h_barrier h c ms)
    | OSwaps id sw => hupd p h id (fun h c => h_mode_swaps h c sw)
    | OHerald id n im om => hupd p h id (fun h c => h_herald h c n im om)
    | OAdd id sub mode g =>
        match pget p sub with
        | None => (mkHW p h, Err KeyError)
        | Some s => hupd p h id (fun h c => h_add h c s mode g)
        end
    | OPlus new a b =>
        match pget p a, pget p b with
        | Some ca, Some cb =>
            if negb (Nat.eqb (hc_n ca) (hc_n cb)) then (mkHW p h, Err ModeRangeError) else
            if negb (Nat.eqb (length (rd_dict h (hc_in ca))) 0) || negb (Nat.eqb (length (rd_dict h (hc_in cb))) 0)
            then (mkHW p h, Err OtherError) else
            (* new_circ.__circuit_spec = self.__circuit_spec + value.__circuit_spec *)
            let '(h', c) := h_new_circ h (hc_n ca) (rd_list h (hc_spec ca) ++ rd_list h (hc_spec cb)) in
            (mkHW (pset p new c) h', Ok tt)
        | _, _ => (mkHW p h, Err KeyError)
        end
    | OCopy new a =>
        match pget p a with
        | Some ca => let '(h', c) := h_copy_circ h ca in (mkHW (pset p new c) h', Ok tt)
        | None => (mkHW p h, Err KeyError)
        end
    | OUnpack id => hupd p h id (fun h c => let '(h', c') := h_unpack_groups h c in (h', Ok c'))
    end.

  Definition hstep (e : env (K:=K)) (hw : hworld) (x : op) : hworld * res unit :=
    hstep_in e (hw_pool hw) (clear_log (hw_heap hw)) x.

  Definition hstep9 (e : env (K:=K)) (hw : hworld) (x : op9) : hworld * res unit :=
    let p := hw_pool hw in
    let h := clear_log (hw_heap hw) in
    match x with
    | Base b => hstep_in e p h b
    | OCompress id => hupd p h id h_compress
    | ONonAdj id => hupd p h id h_nonadj
    | OCopyFrozen new a =>
        match pget p a with
        | Some ca => let '(h', c) := h_copy_frozen e h ca in (mkHW (pset p new c) h', Ok tt)
        | None => (mkHW p h, Err KeyError)
        end
    end.

  Fixpoint hrun (e : env (K:=K)) (hw : hworld) (p : list op) : hworld * list (res unit) :=
    match p with
    | [] => (hw, [])
    | x :: p' =>
        let '(hw', r) := hstep e hw x in
        let '(hw'', rs) := hrun e hw' p' in
        (hw'', r :: rs)
    end.

  (* ---------------- what a circuit can reach ---------------- *)
  (* the cells private to a circuit object: its list, its dicts, its internal-modes list *)
  Definition priv (c : hcirc) : list addr :=
    [hc_spec c; hc_in c; hc_out c; hc_xin c; hc_xout c; hc_int c].
  (* the cells behind one entry of a spec list, to depth d: the component cell and, for a group, its
     list object, its two herald dicts and the cells behind its members *)
  Fixpoint comp_cells (d : nat) (h : heap) (a : addr) {struct d} : list addr :=
    match d with
    | O => []
    | S d' =>
        a :: match hget h a with
             | Some (CComp (HGroup lst _ _ hi ho)) => lst :: hi :: ho :: flat_map (comp_cells d' h) (rd_list h lst)
             | _ => []
             end
    end.
  Definition spec_cells (h : heap) (l : list addr) : list addr := flat_map (comp_cells 2 h) l.
  Definition reach (h : heap) (c : hcirc) : list addr :=
    priv c ++ spec_cells h (rd_list h (hc_spec c)).
End Heap.

Arguments HBS {K} _ _ _ _. Arguments HPS {K} _ _. Arguments HLoss {K} _ _. Arguments HBarrier {K} _.
Arguments HSwaps {K} _. Arguments HUMat {K} _ _ _. Arguments HGroup {K} _ _ _ _ _.
Arguments CComp {K} _. Arguments CList {K} _. Arguments CDict {K} _. Arguments CNats {K} _.
