(* Model of lightworks/sdk/utils/post_selection.py (PostSelection, Rule,
   PostSelectionFunction, DefaultPostSelection) and of
   emulator/utils/post_selection_processing.py.  No proofs here.

   A post-selection is anything with a [validate : state -> bool]; evaluating
   it on a state may raise (state[m] with m out of range -> IndexError), hence
   [state -> res bool].  The sampling theorems quantify over an arbitrary
   function of that type; the three concrete forms below are what the
   correspondence run executes. *)
From Coq Require Import ZArith List Bool Arith.
From LW Require Import Base.Sx Model.State.
Import ListNotations.
Open Scope Z_scope.

(* ---- Rule(modes, n_photons).validate:  sum(state[m] for m in modes) in n_photons ---- *)
Record rule : Type := mkRule { r_modes : list nat; r_nph : list Z }.

Fixpoint sum_modes (ms : list nat) (s : state) : res Z :=
  match ms with
  | [] => Ok 0
  | m :: ms' => do v <- st_getitem s (Z.of_nat m); do r <- sum_modes ms' s; Ok (v + r)
  end.

Definition rule_validate (r : rule) (s : state) : res bool :=
  do t <- sum_modes (r_modes r) s; Ok (existsb (Z.eqb t) (r_nph r)).

(* PostSelection.validate: all(rule.validate(state) for rule in rules), lazily *)
Fixpoint rules_validate (rs : list rule) (s : state) : res bool :=
  match rs with
  | [] => Ok true
  | r :: rs' => do b <- rule_validate r s; if b then rules_validate rs' s else Ok false
  end.

(* ---- the PostSelection object: add() with its validation order ---- *)
Record postsel : Type := mkPS { ps_multi : bool; ps_rules : list rule; ps_used : list nat }.
Definition ps_new (multi : bool) : postsel := mkPS multi [] [].

Definition ps_add (p : postsel) (modes nph : list Z) : res postsel :=
  if existsb (fun v => v <? 0) modes then Err ValueError
  else if existsb (fun v => v <? 0) nph then Err ValueError
  else
    let ms := map Z.to_nat modes in
    if negb (ps_multi p) && existsb (fun m => existsb (Nat.eqb m) (ps_used p)) ms
    then Err ValueError
    else Ok (mkPS (ps_multi p) (ps_rules p ++ [mkRule ms nph]) (ps_used p ++ ms)).

(* a failed add leaves the object unchanged; returns the object after the
   whole program and the outcome (0 = ok, error code otherwise) of each add *)
Fixpoint ps_adds (p : postsel) (prog : list (list Z * list Z)) : postsel * list Z :=
  match prog with
  | [] => (p, [])
  | (ms, ns) :: prog' =>
      match ps_add p ms ns with
      | Ok p' => let '(q, outs) := ps_adds p' prog' in (q, 0 :: outs)
      | Err e => let '(q, outs) := ps_adds p prog' in (q, err_code e :: outs)
      end
  end.

(* PostSelection.modes = sorted(set of modes with rules) *)
Fixpoint insert_uniq (m : nat) (l : list nat) : list nat :=
  match l with
  | [] => [m]
  | x :: l' => if Nat.eqb m x then l else if Nat.ltb m x then m :: l else x :: insert_uniq m l'
  end.
Definition ps_modes (p : postsel) : list nat := fold_right insert_uniq [] (ps_used p).

(* ---- PostSelectionFunction: the harness draws Python lambdas from this
        small language (same evaluation order, `and`/`or` short-circuit) ---- *)
Inductive pred : Type :=
| PTrue | PFalse
| PModeEq (m : nat) (n : Z)          (* s[m] == n *)
| PModeGe (m : nat) (n : Z)          (* s[m] >= n *)
| PTotEq (n : Z)                     (* s.n_photons == n *)
| PTotGe (n : Z)                     (* s.n_photons >= n *)
| PSumEq (ms : list nat) (n : Z)     (* sum(s[m] for m in ms) == n *)
| PNot (p : pred)
| PAnd (p q : pred)
| POr (p q : pred).

Fixpoint pred_eval (p : pred) (s : state) : res bool :=
  match p with
  | PTrue => Ok true
  | PFalse => Ok false
  | PModeEq m n => do v <- st_getitem s (Z.of_nat m); Ok (v =? n)
  | PModeGe m n => do v <- st_getitem s (Z.of_nat m); Ok (n <=? v)
  | PTotEq n => Ok (st_n_photons s =? n)
  | PTotGe n => Ok (n <=? st_n_photons s)
  | PSumEq ms n => do t <- sum_modes ms s; Ok (t =? n)
  | PNot q => do b <- pred_eval q s; Ok (negb b)
  | PAnd q r => do b <- pred_eval q s; if b then pred_eval r s else Ok false
  | POr q r => do b <- pred_eval q s; if b then Ok true else pred_eval r s
  end.

(* ---- process_post_selection: None | PostSelection | function ---- *)
Inductive psel : Type :=
| PSDefault                      (* None -> DefaultPostSelection *)
| PSRules (rs : list rule)       (* a PostSelection object with these rules *)
| PSFun (p : pred).              (* a function -> PostSelectionFunction *)

Definition psel_validate (ps : psel) (s : state) : res bool :=
  match ps with
  | PSDefault => Ok true
  | PSRules rs => rules_validate rs s
  | PSFun p => pred_eval p s
  end.
