(* Model of lightworks/interferometers: decomposition.py (reck_decomposition,
   bs_matrix, check_null), reck.py (Reck.map), error_model.py and dists/*.py.

   [K] is the type of "real" scalars, complex numbers are pairs (Base/Num.v
   [cplx]).  Nothing irrational is computed here: every external numerical
   routine the Python calls is a field of the record [env]
     e_cis x      = (cos x, sin x)            np.exp(1j*x), np.cos, np.sin
     e_bsamp r    = (cos t, sin t), t = arccos(r**0.5)     BeamSplitter.get_unitary
     e_sqrt x     = x ** 0.5                               Loss.get_unitary
     e_fdiv x y   = floor (x / y)                          float %
     e_ints s k   = k-th value of default_rng(s).integers(2**31 - 1)
     e_unif src k = k-th value of <generator src>.random()
     e_norm src k = k-th value of <generator src>.standard_normal()
   and the answers of np.arctan / np.angle inside the nulling loop are an
   oracle [ans] (one (theta, phi) per step) and [endo] (one angle per diagonal
   entry).  The theorems (Proofs/ReckP.v) state the contracts they need. *)
From Coq Require Import ZArith Arith List Bool.
From LW Require Import Base.Num Base.Sums Base.Mat Base.Sx.
Import ListNotations.

Inductive rsrc : Type :=
| Entropy (tok : nat)      (* default_rng(None): fresh OS entropy, token = which call *)
| Seeded (s : Z).          (* default_rng(s) *)
Record rng : Type := mkRng { r_src : rsrc; r_pos : nat }.   (* generator = source + number of raw draws consumed *)

(* what a caller may pass as a seed (process_random_seed) *)
Inductive pyseed : Type := SeedNone | SeedInt (z : Z) | SeedBad.

Section Reck.
  Context {K : Type} (o : ops K).
  Notation C := (K * K)%type.
  Notation co := (cplx o).

  Record env : Type := mkEnv {
    e_cis : K -> C; e_bsamp : K -> K * K; e_sqrt : K -> K; e_fdiv : K -> K -> Z;
    e_pi : K;
    e_eps2 : K;      (* (1e-20)^2 : threshold of the "already nulled" branch, on |u|^2 *)
    e_prec : K;      (* check_null precision 1e-10 *)
    e_uprec2 : K;    (* settings.unitary_precision ^ 2 *)
    e_ints : Z -> nat -> Z;
    e_unif : rsrc -> nat -> K;
    e_norm : rsrc -> nat -> K }.

  Definition cre (a : K) : C := (a, k0 o).
  Definition ci : C := (k0 o, k1 o).
  Definition kltb (a b : K) : bool := negb (kleb o b a).     (* a < b *)
  Definition two : K := kadd o (k1 o) (k1 o).
  Definition half (x : K) : K := kmul o x (kinv o two).

  (* ---------------- decomposition.py ---------------- *)
  (* global phase of the unit cell, 1j * exp(1j*theta/2) = i (c + i s) *)
  Definition gph (c s : K) : C := (kopp o s, c).

  (* bs_matrix as a function of the amplitudes c = cos(theta/2), s = sin(theta/2), e = exp(i phi) *)
  Definition bs_amp (m1 m2 : nat) (c s : K) (e : C) : @mat C :=
    let g := gph c s in
    embed2 co m1 m2
      (kmul co (kmul co (kopp co e) (cre s)) g) (kmul co (cre c) g)
      (kmul co (kmul co e (cre c)) g) (kmul co (cre s) g).

  Definition bs_matrix (E : env) (m1 m2 : nat) (theta phi : K) : @mat C :=
    let cs := e_cis E (half theta) in bs_amp m1 m2 (fst cs) (snd cs) (e_cis E phi).

  (* the (i, j) pairs of the double loop, in order *)
  Definition reck_steps (n : nat) : list (nat * nat) :=
    flat_map (fun i => map (fun j => (i, j)) (seq 0 (n - 1 - i))) (seq 0 (n - 1)).

  Record nrec : Type := mkNrec { nr_i : nat; nr_j : nat; nr_theta : K; nr_phi : K; nr_small : bool }.

  (* the branch of one step: abs(u_ij) < 1e-20 -> (pi, 0), else the arctan/angle answer *)
  Definition null_answer (E : env) (ans : nat -> K * K) (k : nat) (u : C) : K * K * bool :=
    if kltb (cnorm2 o u) (e_eps2 E) then (e_pi E, k0 o, true)
    else (fst (ans k), snd (ans k), false).

  (* unitary = unitary @ conj(tr_ij.T) *)
  Definition null_update (n : nat) (U T : @mat C) : @mat C := tab co n (mmul co n U (madj co T)).

  Fixpoint decomp_loop (E : env) (n : nat) (ans : nat -> K * K) (st : list (nat * nat)) (k : nat)
           (U : @mat C) : list nrec * @mat C :=
    match st with
    | [] => ([], U)
    | (i, j) :: st' =>
        let loc := n - 1 - i in
        let a := null_answer E ans k (U loc j) in
        let theta := fst (fst a) in
        let phi := snd (fst a) in
        let r := decomp_loop E n ans st' (S k) (null_update n U (bs_matrix E j (S j) theta phi)) in
        (mkNrec i j theta phi (snd a) :: fst r, snd r)
    end.

  Definition kgtb (a b : K) : bool := negb (kleb o a b).     (* a > b *)

  (* check_null: i != j and (np.real(m > p) or np.imag(m) > p); numpy orders complex numbers lexicographically *)
  Definition check_null (E : env) (n : nat) (D : @mat C) : bool :=
    let p := e_prec E in
    forallb (fun i => forallb (fun j =>
      if Nat.eqb i j then true
      else let z := D i j in
           negb ((kgtb (fst z) p || (keqb o (fst z) p && kgtb (snd z) (k0 o))) || kgtb (snd z) p))
      (seq 0 n)) (seq 0 n).

  (* check_unitary: allclose(U^+ U, I, rtol = 0, atol = precision) *)
  Definition check_unitary (E : env) (n : nat) (U : @mat C) : bool :=
    let G := mmul co n (madj co U) U in
    forallb (fun i => forallb (fun j =>
      kleb o (cnorm2 o (ksub co (G i j) (mid co i j))) (e_uprec2 E)) (seq 0 n)) (seq 0 n).

  Record decomp : Type := mkDecomp { dc_recs : list nrec; dc_end : list K; dc_nulled : @mat C }.

  Definition reck_decomposition (E : env) (n : nat) (U : @mat C) (ans : nat -> K * K) (endo : nat -> K)
    : res decomp :=
    if negb (check_unitary E n U) then Err ValueError
    else
      let r := decomp_loop E n ans (reck_steps n) 0 U in
      if negb (check_null E n (snd r)) then Err OtherError      (* DecompositionUnsuccessful *)
      else Ok (mkDecomp (fst r) (map endo (seq 0 n)) (snd r)).

  (* ---------------- dists/*.py ---------------- *)
  Inductive dist : Type :=
  | DConst (v : K)
  | DTopHat (lo hi : K)
  | DGauss (c d : K) (lo hi : option K).     (* None = -inf / +inf *)

  Record dobj : Type := mkDobj { d_dist : dist; d_rng : rng }.

  (* constructor validation: is_number first (TypeError), then max < min (ValueError) *)
  Inductive pyval : Type := PNum (x : K) | PNone | PBad.
  (* a Constant has no generator: its [d_rng] is a fixed placeholder *)
  Definition norng : rng := mkRng (Entropy 0) 0.
  Definition mk_const (v : pyval) : res dobj :=
    match v with PNum x => Ok (mkDobj (DConst x) norng) | _ => Err TypeError end.
  Definition mk_tophat (lo hi : pyval) (g : rng) : res dobj :=
    match lo, hi with
    | PNum a, PNum b => if kltb b a then Err ValueError else Ok (mkDobj (DTopHat a b) g)
    | _, _ => Err TypeError
    end.
  Definition mk_gauss (c d lo hi : pyval) (g : rng) : res dobj :=
    match c, d with
    | PNum c', PNum d' =>
        match lo, hi with
        | PBad, _ | _, PBad => Err TypeError
        | _, _ =>
            let l := match lo with PNum x => Some x | _ => None end in
            let h := match hi with PNum x => Some x | _ => None end in
            match l, h with
            | Some a, Some b => if kltb b a then Err ValueError else Ok (mkDobj (DGauss c' d' l h) g)
            | _, _ => Ok (mkDobj (DGauss c' d' l h) g)
            end
        end
    | _, _ => Err TypeError
    end.

  Definition has_rng (d : dist) : bool := match d with DConst _ => false | _ => true end.
  Definition below (lo : option K) (v : K) : bool := match lo with Some a => kltb v a | None => false end.
  Definition above (hi : option K) (v : K) : bool := match hi with Some b => kltb b v | None => false end.

  (* Gaussian.value: resample until inside the bounds; [fuel] bounds the number
     of raw draws (Python loops forever where the model answers OtherError) *)
  Fixpoint gauss_loop (E : env) (fuel : nat) (src : rsrc) (pos : nat) (c d : K) (lo hi : option K)
    : res (K * nat) :=
    match fuel with
    | O => Err OtherError
    | S f =>
        let v := kadd o c (kmul o d (e_norm E src pos)) in
        if below lo v || above hi v then gauss_loop E f src (S pos) c d lo hi
        else Ok (v, S pos)
    end.

  Definition dist_value (E : env) (fuel : nat) (x : dobj) : res (K * dobj) :=
    let g := d_rng x in
    match d_dist x with
    | DConst v => Ok (v, x)
    | DTopHat lo hi =>
        Ok (kadd o lo (kmul o (ksub o hi lo) (e_unif E (r_src g) (r_pos g))),
            mkDobj (d_dist x) (mkRng (r_src g) (S (r_pos g))))
    | DGauss c d lo hi =>
        if kltb d (k0 o) then Err ValueError       (* numpy: scale < 0 *)
        else
          do r <- gauss_loop E fuel (r_src g) (r_pos g) c d lo hi;
          Ok (fst r, mkDobj (d_dist x) (mkRng (r_src g) (snd r)))
    end.

  (* the bounds a distribution declares *)
  Definition dist_lo (d : dist) : option K :=
    match d with DConst v => Some v | DTopHat lo _ => Some lo | DGauss _ _ lo _ => lo end.
  Definition dist_hi (d : dist) : option K :=
    match d with DConst v => Some v | DTopHat _ hi => Some hi | DGauss _ _ _ hi => hi end.

  (* ---------------- error_model.py ---------------- *)
  Record emodel : Type := mkEm { em_bs : dobj; em_loss : dobj; em_phase : dobj }.

  Definition process_random_seed (s : pyseed) : res (option Z) :=
    match s with SeedNone => Ok None | SeedInt z => Ok (Some z) | SeedBad => Err TypeError end.

  (* one iteration of the loop of _set_random_seed; k = number of integers drawn from the master generator *)
  Definition reseed (E : env) (s0 : option Z) (tok : nat) (x : dobj) (k : nat) : dobj * nat :=
    if has_rng (d_dist x) then
      match s0 with
      | Some z => (mkDobj (d_dist x) (mkRng (Seeded (e_ints E z k)) 0), S k)
      | None => (mkDobj (d_dist x) (mkRng (Entropy (tok + k)) 0), S k)
      end
    else (x, k).

  Definition set_random_seed (E : env) (em : emodel) (s : pyseed) (tok : nat) : res emodel :=
    do s0 <- process_random_seed s;
    let a := reseed E s0 tok (em_bs em) 0 in
    let b := reseed E s0 tok (em_loss em) (snd a) in
    let c := reseed E s0 tok (em_phase em) (snd b) in
    Ok (mkEm (fst a) (fst b) (fst c)).

  (* ---------------- reck.py ---------------- *)
  (* a programmed phase together with the amplitude exp(i * value) the compiled circuit uses *)
  Record phase : Type := mkPhase { ph_val : K; ph_amp : C }.

  Inductive comp : Type :=
  | CBarrier (ms : list nat)
  | CPS (m : nat) (p : phase)
  | CBS (m1 m2 : nat) (r : K)
  | CLoss (m : nat) (l : K).

  Record circuit : Type := mkCirc {
    c_n : nat; c_spec : list comp; c_hin : list (nat * Z); c_hout : list (nat * Z) }.

  Definition flip (n : nat) (A : @mat C) : @mat C := fun i j => A (n - 1 - i) (n - 1 - j).

  (* float % (2 pi) as the real modulo *)
  Definition two_pi (E : env) : K := kmul o two (e_pi E).
  Definition pmod (E : env) (x : K) : K :=
    ksub o x (kmul o (kofZ o (e_fdiv E x (two_pi E))) (two_pi E)).

  (* (v + get_phase_offset()) % (2 pi); amplitude = amp(v) * exp(i offset) *)
  Definition program_phase (E : env) (fuel : nat) (v : K) (amp : C) (ph : dobj) : res (phase * dobj) :=
    do r <- dist_value E fuel ph;
    Ok (mkPhase (pmod E (kadd o v (fst r))) (kmul co amp (e_cis E (fst r))), snd r).

  Record prec : Type := mkPrec { pr_i : nat; pr_j : nat; pr_theta : phase; pr_phi : phase }.

  (* the dict comprehension over phase_map: insertion order is bs_<k> then ps_<k> for each step *)
  Fixpoint program_steps (E : env) (fuel : nat) (recs : list nrec) (ph : dobj) : res (list prec * dobj) :=
    match recs with
    | [] => Ok ([], ph)
    | r :: recs' =>
        let cs := e_cis E (half (nr_theta r)) in
        let h := (fst cs, snd cs) : C in
        do a <- program_phase E fuel (nr_theta r) (kmul co h h) ph;
        do b <- program_phase E fuel (nr_phi r) (e_cis E (nr_phi r)) (snd a);
        do rest <- program_steps E fuel recs' (snd b);
        Ok (mkPrec (nr_i r) (nr_j r) (fst a) (fst b) :: fst rest, snd rest)
    end.

  Fixpoint program_ends (E : env) (fuel : nat) (ends : list K) (ph : dobj) : res (list phase * dobj) :=
    match ends with
    | [] => Ok ([], ph)
    | a :: ends' =>
        do p <- program_phase E fuel a (e_cis E a) ph;
        do rest <- program_ends E fuel ends' (snd p);
        Ok (fst p :: fst rest, snd rest)
    end.

  Definition in01 (x : K) : bool := kleb o (k0 o) x && kleb o x (k1 o).

  (* barrier; ps(mode+1, phi); bs(mode, r1); ps(mode, theta); bs(mode, r2, loss) *)
  Definition cell (n : nat) (p : prec) (r1 r2 l : K) : res (list comp) :=
    let mode := n - pr_j p - 2 in
    if negb (in01 r1) then Err ValueError          (* BeamSplitter.validate *)
    else if negb (in01 l) then Err ValueError      (* check_loss *)
    else if negb (in01 r2) then Err ValueError
    else Ok ([CBarrier [mode; S mode]; CPS (S mode) (pr_phi p); CBS mode (S mode) r1;
              CPS mode (pr_theta p); CBS mode (S mode) r2]
             ++ (if kgtb l (k0 o) then [CLoss mode l; CLoss (S mode) l] else [])).

  Fixpoint build_cells (E : env) (fuel n : nat) (ps : list prec) (bs ls : dobj)
    : res (list comp * (dobj * dobj)) :=
    match ps with
    | [] => Ok ([], (bs, ls))
    | p :: ps' =>
        do r1 <- dist_value E fuel bs;
        (* the first bs() call validates r1 before anything else is drawn *)
        if negb (in01 (fst r1)) then Err ValueError else
        do r2 <- dist_value E fuel (snd r1);
        do l <- dist_value E fuel ls;
        do c <- cell n p (fst r1) (fst r2) (fst l);
        do rest <- build_cells E fuel n ps' (snd r2) (snd l);
        Ok (c ++ fst rest, snd rest)
    end.

  Fixpoint zip_heralds (hin hout : list (nat * Z)) : res (list (nat * Z) * list (nat * Z)) :=
    match hin, hout with
    | [], [] => Ok ([], [])
    | (m1, a) :: hin', (m2, b) :: hout' =>
        if negb (Z.eqb a b) then Err OtherError       (* RuntimeError: mismatching heralding numbers *)
        else do r <- zip_heralds hin' hout'; Ok ((m1, a) :: fst r, (m2, a) :: snd r)
    | _, _ => Err ValueError                          (* zip(strict=True) *)
    end.

  Definition end_spec (n : nat) (ends : list phase) : list comp :=
    map (fun ip => CPS (n - fst ip - 1) (snd ip)) (combine (seq 0 n) ends).

  Definition reck_map (E : env) (fuel : nat) (em : emodel) (n : nat) (U : @mat C)
             (hin hout : list (nat * Z)) (seed : pyseed) (tok : nat)
             (ans : nat -> K * K) (endo : nat -> K) : res (circuit * emodel) :=
    do em1 <- set_random_seed E em seed tok;
    do dc <- reck_decomposition E n (tab co n (flip n U)) ans endo;
    do ps <- program_steps E fuel (dc_recs dc) (em_phase em1);
    do es <- program_ends E fuel (dc_end dc) (snd ps);
    do cells <- build_cells E fuel n (fst ps) (em_bs em1) (em_loss em1);
    do hs <- zip_heralds hin hout;
    Ok (mkCirc n (fst cells ++ [CBarrier (seq 0 n)] ++ end_spec n (fst es)) (fst hs) (snd hs),
        mkEm (fst (snd cells)) (snd (snd cells)) (snd es)).

  (* ---------------- the compiled n x n transformation (Circuit.U) ----------------
     Loss components act on a private extra mode each; on the first n modes
     their effect is the factor sqrt(1 - loss) on their mode. *)
  Definition comp_mat (E : env) (c : comp) : @mat C :=
    match c with
    | CBarrier _ => mid co
    | CPS m p => phase_mat co m (ph_amp p)
    | CBS m1 m2 r =>
        let a := e_bsamp E r in
        let cr := cre (fst a) in
        let sr := kmul co ci (cre (snd a)) in
        embed2 co m1 m2 cr sr sr cr
    | CLoss m l => phase_mat co m (cre (e_sqrt E (ksub o (k1 o) l)))
    end.

  Definition compile_from (E : env) (n : nat) (M : @mat C) (spec : list comp) : @mat C :=
    fold_left (fun M c => match c with
                          | CBarrier _ => M
                          | _ => tab co n (mmul co n (comp_mat E c) M)
                          end) spec M.
  Definition compile (E : env) (n : nat) (spec : list comp) : @mat C := compile_from E n (mid co) spec.

  (* product of recorded unit cells and end phases, in the flipped frame: D . T_K ... T_1 *)
  Definition rebuild (E : env) (n : nat) (recs : list nrec) (ends : list C) : @mat C :=
    let P := fold_left (fun P r => tab co n (mmul co n (bs_matrix E (nr_j r) (S (nr_j r)) (nr_theta r) (nr_phi r)) P))
                       recs (mid co) in
    tab co n (mmul co n (fun i j => if Nat.eqb i j then nth i ends (k0 co) else k0 co) P).
End Reck.
