(* Model of lightworks.emulator.backend (permanent.py, slos.py, backend.py),
   simulation/simulator.py and simulation/probability_distribution.py (State
   variant of pdist_calc).  No proofs here.

   K = "reals", T = K*K complex.  Square roots are never computed: an
   amplitude is returned as the pair (permanent, prod in! * prod out!), i.e.
   amplitude = permanent / sqrt(factor), |amplitude|^2 = |permanent|^2 / factor.
   thewalrus.perm is the mathematical permanent; the executable definition
   below is the Laplace expansion along the first column. *)
From Coq Require Import ZArith List Bool Arith Lia.
From LW Require Import Base.Sx Base.Num Base.Sums Base.Mat Model.State.
Import ListNotations.
Open Scope nat_scope.

(* occupation list -> list of modes, each repeated by its occupation *)
Fixpoint expand_from (i : nat) (s : list nat) : list nat :=
  match s with
  | [] => []
  | n :: s' => repeat i n ++ expand_from (S i) s'
  end.
Definition expand (s : list nat) : list nat := expand_from 0 s.

(* all ways of taking one element out of a list *)
Fixpoint selects {A} (l : list A) : list (A * list A) :=
  match l with
  | [] => []
  | x :: l' => (x, l') :: map (fun p => (fst p, x :: snd p)) (selects l')
  end.

Fixpoint fact_prod (s : list nat) : nat :=
  match s with [] => 1 | n :: s' => fact n * fact_prod s' end.

Definition osum (l : list nat) : nat := fold_right Nat.add 0 l.

Fixpoint incr (j : nat) (s : list nat) : list nat :=
  match s, j with
  | [], _ => []
  | n :: s', O => S n :: s'
  | n :: s', S j' => n :: incr j' s'
  end.

Fixpoint nlist_eqb (a b : list nat) : bool :=
  match a, b with
  | [], [] => true
  | x :: a', y :: b' => Nat.eqb x y && nlist_eqb a' b'
  | _, _ => false
  end.

Fixpoint mapM {A B} (f : A -> res B) (l : list A) : res (list B) :=
  match l with
  | [] => Ok []
  | a :: l' => do b <- f a; do r <- mapM f l'; Ok (b :: r)
  end.

(* ---- permanents and SLOS over an arbitrary scalar ring ---- *)
Section Perm.
  Context {R : Type} (r : ops R).
  Notation mat := (@mat R).

  (* permanent of the matrix M[a][b] = U (nth a xs) (nth b ys) *)
  Fixpoint perm_ml (U : mat) (xs ys : list nat) : R :=
    match ys with
    | [] => match xs with [] => k1 r | _ => k0 r end
    | y :: ys' => suml r (selects xs) (fun p => kmul r (U (fst p) y) (perm_ml U (snd p) ys'))
    end.

  (* Permanent.calculate: rows = output modes, columns = input modes *)
  Definition amp_perm (U : mat) (ins outs : list nat) : R := perm_ml U (expand outs) (expand ins).

  (* ---------------- SLOS.calculate ----------------
     The code stores, for each key, the amplitude including the factors
     sqrt(key[mode]) of the ladder operators; the model stores that value divided
     by sqrt(prod key!), which turns each ladder step into a plain product (an
     exact change of representation): final amplitude = coefficient * sqrt(prod out!) / sqrt(prod in!). *)
  Definition fdict : Type := list (list nat * R).
  Fixpoint fd_add (d : fdict) (k : list nat) (v : R) : fdict :=     (* add_dicts, one entry *)
    match d with
    | [] => [(k, v)]
    | (k', v') :: d' => if nlist_eqb k' k then (k', kadd r v' v) :: d' else (k', v') :: fd_add d' k v
    end.
  Definition fd_add_all (d1 d2 : fdict) : fdict := fold_left (fun d kv => fd_add d (fst kv) (snd kv)) d2 d1.
  Definition ladder (d : fdict) (mode : nat) (mult : R) : fdict :=
    map (fun kv => (incr mode (fst kv), kmul r (snd kv) mult)) d.
  Definition slos_photon (n : nat) (U : mat) (d : fdict) (i : nat) : fdict :=
    fold_left (fun out j => fd_add_all out (ladder d j (U j i))) (seq 0 n) [].
  Definition slos (n : nat) (U : mat) (ins : list nat) : fdict :=
    fold_left (slos_photon n U) (expand ins) [(repeat 0 n, k1 r)].
  Fixpoint fd_get (d : fdict) (k : list nat) : option R :=
    match d with
    | [] => None
    | (k', v) :: d' => if nlist_eqb k' k then Some v else fd_get d' k
    end.
End Perm.

Section Fock.
  Context {K : Type} (o : ops K).
  Definition TT : Type := (K * K)%type.
  Definition fo : ops TT := cplx o.
  Notation mat := (@mat TT).

  Definition amp_factor (ins outs : list nat) : nat := fact_prod ins * fact_prod outs.
  Definition kofnat (n : nat) : K := kofZ o (Z.of_nat n).
  (* |amplitude|^2 = |permanent|^2 / (prod in! * prod out!) *)
  Definition prob_of (U : mat) (ins outs : list nat) : K :=
    kmul o (cnorm2 o (amp_perm fo U ins outs)) (kinv o (kofnat (amp_factor ins outs))).
  Definition slos_prob (ins : list nat) (kv : list nat * TT) : K :=
    kmul o (kmul o (cnorm2 o (snd kv)) (kofnat (fact_prod (fst kv)))) (kinv o (kofnat (fact_prod ins))).

  (* ---------------- Backend.full_probability_distribution ---------------- *)
  Definition pdict : Type := list (list nat * K).
  Fixpoint pd_add (d : pdict) (k : list nat) (v : K) : pdict :=
    match d with
    | [] => [(k, v)]
    | (k', v') :: d' => if nlist_eqb k' k then (k', kadd o v' v) :: d' else (k', v') :: pd_add d' k v
    end.
  Fixpoint pd_get (d : pdict) (k : list nat) : option K :=
    match d with
    | [] => None
    | (k', v) :: d' => if nlist_eqb k' k then Some v else pd_get d' k
    end.
  Fixpoint pd_set (d : pdict) (k : list nat) (v : K) : pdict :=
    match d with
    | [] => [(k, v)]
    | (k', v') :: d' => if nlist_eqb k' k then (k', v) :: d' else (k', v') :: pd_set d' k v
    end.
  Definition pd_total (d : pdict) : K := fold_left (fun acc kv => kadd o acc (snd kv)) d (k0 o).
  Definition klt (a b : K) : bool := negb (kleb o b a).

  Inductive backend := Permanent | Slos.

  (* n = circuit modes, l = loss modes, U = U_full (dimension n + l), eps = threshold *)
  Definition full_dist (b : backend) (eps : K) (n l : nat) (U : mat) (ins : list nat) : pdict :=
    if Nat.eqb (osum ins) 0 then [(repeat 0 n, k1 o)] else
    let ins' := ins ++ repeat 0 l in
    match b with
    | Permanent =>
        let outs := fock_sums (length ins') (osum ins') in
        let pd := fold_left (fun pd os =>
                               if Nat.eqb (osum (firstn n os)) 0 then pd else
                               let p := prob_of U ins' os in
                               if klt eps p then pd_add pd (firstn n os) p else pd) outs [] in
        if klt (pd_total pd) (k1 o) && negb (Nat.eqb l 0)
        then pd_set pd (repeat 0 n) (ksub o (k1 o) (pd_total pd)) else pd
    | Slos =>
        fold_left (fun pd kv =>
                     let p := slos_prob ins' kv in
                     if klt eps p then pd_add pd (firstn n (fst kv)) p else pd)
                  (slos fo (n + l) U ins') []
    end.

  (* pdist_calc, State variant, with the F1 repair (the missing probability is
     added to the vacuum entry) *)
  Definition pdist_calc (b : backend) (eps : K) (n l : nat) (U : mat) (inputs : pdict) : pdict :=
    let pd := fold_left (fun pd ip =>
                           let sub := full_dist b eps n l U (fst ip) in
                           fold_left (fun pd sp => pd_add pd (fst sp) (kmul o (snd sp) (snd ip))) sub pd)
                        inputs [] in
    let total := pd_total pd in
    if klt total (k1 o) && negb (Nat.eqb l 0)
    then pd_set pd (repeat 0 n)
                (kadd o (match pd_get pd (repeat 0 n) with Some v => v | None => k0 o end) (ksub o (k1 o) total))
    else pd.

  (* ---------------- Simulator ---------------- *)
  (* user-visible states are Python int lists (Z); heralds: full mode -> photons *)
  Definition znat (s : list Z) : list nat := map Z.to_nat s.
  Definition zsum (s : list Z) : Z := fold_right Z.add 0%Z s.

  Fixpoint check_states (input_modes : nat) (l : list (list Z)) : res unit :=
    match l with
    | [] => Ok tt
    | s :: l' =>
        if negb (Nat.eqb (length s) input_modes) then Err ModeMismatchError else
        match st_validate s with
        | Err e => Err e
        | Ok _ => check_states input_modes l'
        end
    end.

  Definition all_equal (l : list Z) : bool :=
    match l with [] => true | x :: l' => forallb (Z.eqb x) l' end.

  (* Simulator.simulate: amplitudes for inputs x outputs (outputs = None: whole Fock basis).
     Returns the outputs used and, per input, per output, (permanent, factor). *)
  Definition simulate (n l : nat) (U : mat) (hin hout : hdict) (input_modes : nat)
             (inputs : list (list Z)) (outputs : option (list (list Z)))
    : res (list (list Z) * list (list (TT * nat))) :=
    do _ <- check_states input_modes inputs;
    do outs <-
       match outputs with
       | None =>
           match inputs with
           | [] => Err ValueError                      (* min() of an empty sequence *)
           | _ =>
               if all_equal (map zsum inputs)
               then Ok (map (map Z.of_nat) (fock_sums input_modes (Z.to_nat (zsum (hd [] inputs)))))
               else Err PhotonNumberError
           end
       | Some os =>
           do _ <- check_states input_modes os;
           if all_equal (map zsum (inputs ++ os)) then Ok os else Err PhotonNumberError
       end;
    do rows <-
       mapM (fun i =>
               do fi <- add_heralds_to_state i hin;
               let fi' := znat fi ++ repeat 0 l in
               mapM (fun x =>
                       do fx <- add_heralds_to_state x hout;
                       let fx' := znat fx ++ repeat 0 l in
                       Ok (amp_perm fo U fi' fx', amp_factor fi' fx')) outs) inputs;
    Ok (outs, rows).
End Fock.
