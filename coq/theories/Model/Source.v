(* Model of lightworks.emulator.components.source.Source (imperfect single
   photon source) and of emulator/simulation/probability_distribution.py
   (pdist_calc for State inputs — REPAIRED vacuum bookkeeping, finding F1 — and
   annotated_state_pdist_calc).  No proofs in this file.

   Numbers: polymorphic in [ops K].  The irrational quantities of the code,
   p_i = indistinguishability ** 0.5 and p2 = 1 - purity_to_prob(purity), are
   INPUTS of the model together with indistinguishability and purity; the
   model checks their defining polynomial relations ([params_ok]) and never
   computes a root.  Proofs/SourceP.v shows that the code's formulas satisfy
   these relations over the reals.

   Python dictionaries are insertion-ordered association lists; [dset] is
   d[k] = v, [dadd] is "if k in d: d[k] += v else: d[k] = v".

   The per-group boson-sampling distribution
   Backend.full_probability_distribution(circuit, State) is the ORACLE
   function [D] (a Section variable): C06 does not depend on the permanent
   model of C04. *)
From Coq Require Import ZArith List Bool Arith.
From LW Require Import Base.Sx Base.Num Base.Sums Model.State.
Import ListNotations.

(* ------------------------------------------------------------------ dicts *)
Section Dict.
  Context {A : Type} (eqb : A -> A -> bool) {K : Type} (o : ops K).

  Fixpoint dmem (d : list (A * K)) (k : A) : bool :=
    match d with
    | [] => false
    | (k', _) :: d' => if eqb k' k then true else dmem d' k
    end.
  Fixpoint dget (d : list (A * K)) (k : A) : K :=      (* d.get(k, 0) *)
    match d with
    | [] => k0 o
    | (k', v) :: d' => if eqb k' k then v else dget d' k
    end.
  Fixpoint dset (d : list (A * K)) (k : A) (v : K) : list (A * K) :=
    match d with
    | [] => [(k, v)]
    | (k', v') :: d' => if eqb k' k then (k', v) :: d' else (k', v') :: dset d' k v
    end.
  Fixpoint dadd (d : list (A * K)) (k : A) (v : K) : list (A * K) :=
    match d with
    | [] => [(k, v)]
    | (k', v') :: d' => if eqb k' k then (k', kadd o v' v) :: d' else (k', v') :: dadd d' k v
    end.
  (* sum(d.values()) *)
  Definition dtotal (d : list (A * K)) : K := suml o d snd.
End Dict.

(* dict.fromkeys(l): distinct elements in order of first occurrence *)
Fixpoint dedup_from (seen l : list Z) : list Z :=
  match l with
  | [] => []
  | x :: l' => if existsb (Z.eqb x) seen then dedup_from seen l' else x :: dedup_from (x :: seen) l'
  end.
Definition dedup (l : list Z) : list Z := dedup_from [] l.

Fixpoint index_of (l : list Z) (x : Z) : Z :=
  match l with
  | [] => 0%Z        (* unreachable: x is always one of the labels *)
  | y :: l' => if Z.eqb y x then 0%Z else (1 + index_of l' x)%Z
  end.

(* _remap_distribution, per state: first-occurrence relabelling *)
Definition relabel (a : astate) : astate :=
  let labs := dedup (concat a) in an_make (map (map (index_of labs)) a).

(* ---- group_empty_modes ---- *)
Fixpoint zrun (l : list Z) : nat :=
  match l with
  | x :: l' => if Z.eqb x 0 then S (zrun l') else O
  | [] => O
  end.
Fixpoint lookup_nat (d : list (nat * nat)) (i : nat) : option nat :=
  match d with
  | [] => None
  | (k, v) :: d' => if Nat.eqb k i then Some v else lookup_nat d' i
  end.
(* to_group : first mode of a run of >= 2 empty modes |-> its length; to_skip *)
Definition group_empty (st : state) : list (nat * nat) * list nat :=
  fold_left
    (fun (acc : list (nat * nat) * list nat) (i : nat) =>
       let (tg, ts) := acc in
       if existsb (Nat.eqb i) ts || Nat.eqb (S i) (length st) then acc
       else if Z.eqb (nth i st 1%Z) 0 then
              if Z.ltb 0 (nth (S i) st 0%Z) then acc
              else let n := zrun (skipn i st) in
                   (tg ++ [(i, n)], ts ++ seq (S i) (n - 1))
            else acc)
    (seq 0 (length st)) ([], []).

Section Source.
  Context {K : Type} (o : ops K).
  Local Notation "0" := (k0 o).
  Local Notation "1" := (k1 o).
  Local Notation "a + b" := (kadd o a b).
  Local Notation "a * b" := (kmul o a b).
  Local Notation "a - b" := (ksub o a b).

  Definition gt0 (x : K) : bool := negb (kleb o x 0).        (* x > 0 *)
  Definition klt (x y : K) : bool := negb (kleb o y x).      (* x < y *)
  Definition ktwo : K := 1 + 1.

  (* brightness, sqrt(indistinguishability), 1 - purity_to_prob(purity) *)
  Variables (nu p_i p2 : K).

  Definition p1 : K := 1 - p2.
  Definition p_d : K := 1 - p_i.
  Definition c0 : K := 1 - nu * (p1 + p2 * nu + ktwo * (1 - nu) * p2).
  Definition c1 : K := p_i * nu * (p1 + (1 - nu) * p2).
  Definition c1d : K := p_d * nu * (p1 + (1 - nu) * p2).
  Definition c1dp : K := nu * (1 - nu) * p2.
  Definition c12d : K := nu * nu * p_i * p2.
  Definition c1d2d : K := nu * nu * p_d * p2.

  (* the table before the [p > 0] filter; label 0 = indistinguishable photon,
     dpc = this photon made distinguishable, mpc = the extra noise photon *)
  Definition photon_table (cnt : Z) : list (list Z * K) :=
    let dpc := cnt in let mpc := (cnt + 1)%Z in
    [([], c0); ([0%Z], c1); ([dpc], c1d); ([mpc], c1dp); ([0%Z; mpc], c12d); ([dpc; mpc], c1d2d)].

  (* _single_photon_distribution (the caller advances the counter by 2) *)
  Definition single_photon (cnt : Z) : list (list Z * K) :=
    filter (fun e => gt0 (snd e)) (photon_table cnt).

  Definition lprod (a b : list (list Z * K)) : list (list Z * K) :=
    flat_map (fun d1 => map (fun d2 => (fst d1 ++ fst d2, snd d1 * snd d2)) b) a.

  (* the loop over the photons of one mode; [if not mode_dist] is re-tested
     on every iteration, as in the code *)
  Fixpoint mode_list (n : nat) (cnt : Z) (acc : list (list Z * K)) : list (list Z * K) :=
    match n with
    | O => acc
    | S n' =>
        let calc := single_photon cnt in
        mode_list n' (cnt + 2)%Z (match acc with [] => calc | _ => lprod acc calc end)
    end.

  (* _single_mode_distribution; returns the dictionary and the new counter *)
  Definition single_mode (n : Z) (cnt : Z) : list (astate * K) * Z :=
    if Z.eqb n 0 then ([(an_make [[]], 1)], cnt)
    else
      let ml := mode_list (Z.to_nat n) cnt [] in
      (fold_left (fun d e => dadd an_eqb o d (an_make [sort_asc (fst e)]) (snd e)) ml [],
       (cnt + 2 * Z.of_nat (Z.to_nat n))%Z).

  Definition empties (g : nat) : astate := an_make (repeat [] g).

  (* new_dist[s1 + s2] = p1 * p2  (assignment, not accumulation) *)
  Definition dist_product (dist calc : list (astate * K)) : list (astate * K) :=
    fold_left (fun d e1 =>
                 fold_left (fun d e2 => dset an_eqb d (an_add (fst e1) (fst e2)) (snd e1 * snd e2)) calc d)
              dist [].

  Definition full_step (tg : list (nat * nat)) (ts : list nat)
             (acc : list (astate * K) * Z) (im : nat * Z) : list (astate * K) * Z :=
    let (dist, cnt) := acc in
    let (i, n) := im in
    if existsb (Nat.eqb i) ts then acc
    else match lookup_nat tg i with
         | Some g =>
             (match dist with
              | [] => [(empties g, 1)]
              | _ => fold_left (fun d e => dset an_eqb d (an_add (fst e) (empties g)) (snd e)) dist []
              end, cnt)
         | None =>
             let (calc, cnt') := single_mode n cnt in
             (match dist with [] => calc | _ => dist_product dist calc end, cnt')
         end.

  (* _full_distribution, with self._counter = 1 on entry *)
  Definition full_distribution (st : state) : list (astate * K) :=
    let (tg, ts) := group_empty st in
    fst (fold_left (full_step tg ts) (combine (seq 0 (length st)) st) ([], 1%Z)).

  (* _remap_distribution *)
  Definition remap (d : list (astate * K)) : list (astate * K) :=
    fold_left (fun acc e => dadd an_eqb o acc (relabel (fst e)) (snd e)) d [].

  Definition build_full (st : state) : list (astate * K) := remap (full_distribution st).

  (* ---- _build_statistics_basic ---- *)
  Definition unit_vec (n_modes mode : nat) : state :=
    map (fun j => if Nat.eqb mode j then 1%Z else 0%Z) (seq 0 n_modes).
  Definition basic_sub (n_modes mode : nat) : list (K * state) :=
    (nu, unit_vec n_modes mode) ::
    (if klt nu 1 then [(1 - nu, repeat 0%Z n_modes)] else []).
  Definition bprod (stats sub : list (K * state)) : list (K * state) :=
    flat_map (fun e1 => map (fun e2 => (fst e1 * fst e2, zip_add (snd e1) (snd e2))) sub) stats.
  Fixpoint basic_photons (k : nat) (sub stats : list (K * state)) : list (K * state) :=
    match k with
    | O => stats
    | S k' => basic_photons k' sub (match stats with [] => sub | _ => bprod stats sub end)
    end.
  Definition basic_list (st : state) : list (K * state) :=
    fold_left (fun stats (mc : nat * Z) =>
                 let (mode, count) := mc in
                 if Z.eqb count 0 then stats
                 else basic_photons (Z.to_nat count) (basic_sub (length st) mode) stats)
              (combine (seq 0 (length st)) st) [].
  Definition build_basic (st : state) : list (state * K) :=
    match fold_left (fun d e => dadd st_eqb o d (snd e) (fst e)) (basic_list st) [] with
    | [] => [(st, 1)]
    | d => d
    end.

  (* ---- probability threshold + renormalisation ---- *)
  Definition threshold {A} (thr : K) (d : list (A * K)) : list (A * K) :=
    if keqb o thr 0 then d
    else
      let f := filter (fun e => kleb o thr (snd e)) d in
      let total := dtotal o f in
      map (fun e => (fst e, snd e * kinv o total)) f.

  (* ---- _build_statistics ---- *)
  Inductive stats : Type :=
  | SBasic (d : list (state * K))
  | SFull (d : list (astate * K)).

  Definition stats_total (s : stats) : K :=
    match s with SBasic d => dtotal o d | SFull d => dtotal o d end.

  (* dispatch on the public attributes purity and indistinguishability *)
  Definition stats_raw (purity indist : K) (st : state) : stats :=
    if keqb o purity 1 && keqb o indist 1 then SBasic (build_basic st) else SFull (build_full st).

  Definition build_statistics (purity indist thr : K) (st : state) : stats :=
    match stats_raw purity indist st with
    | SBasic d => SBasic (threshold thr d)
    | SFull d => SFull (threshold thr d)
    end.

  (* the relations that tie the model's inputs to the code's formulas:
     p_i^2 = indistinguishability,  (1 - purity) (1 + p2)^2 = 2 p2  *)
  Definition params_ok (purity indist : K) : bool :=
    keqb o (p_i * p_i) indist && keqb o ((1 - purity) * ((1 + p2) * (1 + p2))) (ktwo * p2).

  (* ---- output side ---- *)
  Section Output.
    Variable D : state -> list (state * K).    (* oracle: full_probability_distribution *)
    Variable n_modes : nat.                    (* circuit.n_modes *)
    Variable lossy : bool.                     (* circuit.loss_modes > 0 *)

    Definition vac : state := repeat 0%Z n_modes.

    Definition count_lab (lab : Z) (m : list Z) : Z :=
      fold_right (fun x acc => if Z.eqb x lab then (1 + acc)%Z else acc) 0%Z m.
    Definition group_state (a : astate) (lab : Z) : state := map (count_lab lab) a.

    (* the Fock states of the groups of equal labels, in first-occurrence order *)
    Definition decompose (a : astate) : list state :=
      match concat a with
      | [] => [vac]
      | labs => map (group_state a) (dedup labs)
      end.

    Definition conv (p q : list (state * K)) : list (state * K) :=
      fold_left (fun acc e1 =>
                   fold_left (fun acc e2 => dadd st_eqb o acc (zip_add (fst e1) (fst e2)) (snd e1 * snd e2)) q acc)
                p [].

    Definition combine_groups (gs : list state) : list (state * K) :=
      fold_left (fun pd g => match pd with [] => D g | _ => conv pd (D g) end) gs [].

    (* annotated_state_pdist_calc *)
    Definition annotated_pdist (inputs : list (astate * K)) : list (state * K) :=
      fold_left (fun acc e =>
                   fold_left (fun acc oe => dadd st_eqb o acc (fst oe) (snd e * snd oe))
                             (combine_groups (decompose (fst e))) acc)
                inputs [].

    (* pdist_calc (State inputs), with the repaired vacuum assignment
       pdist[vac] = pdist.get(vac, 0) + 1 - total *)
    Definition basic_mix (inputs : list (state * K)) : list (state * K) :=
      fold_left (fun pd e =>
                   let sub := D (fst e) in
                   match pd with
                   | [] => if keqb o (snd e) 1 then sub
                           else map (fun sp => (fst sp, snd sp * snd e)) sub
                   | _ => fold_left (fun pd sp => dadd st_eqb o pd (fst sp) (snd sp * snd e)) sub pd
                   end)
                inputs [].
    Definition basic_pdist (inputs : list (state * K)) : list (state * K) :=
      let pd := basic_mix inputs in
      let total := dtotal o pd in
      if klt total 1 && lossy then dset st_eqb pd vac (dget st_eqb o pd vac + (1 - total)) else pd.

    Definition pdist_calc (s : stats) : list (state * K) :=
      match s with SBasic d => basic_pdist d | SFull d => annotated_pdist d end.

    (* Sampler.probability_distribution (herald dictionary = circuit.heralds["input"]) *)
    Definition stats_empty (s : stats) : bool :=
      match s with SBasic [] => true | SFull [] => true | _ => false end.

    (* pdist_calc is a multimethod dispatched on dict[State, ...] / dict[AnnotatedState, ...]:
       an EMPTY dictionary (every input below the probability threshold) matches both
       registrations and multimethod raises DispatchError (mapped to OtherError) *)
    Definition sampler_pdist (purity indist thr : K) (st : state) (her : hdict) : res (list (state * K)) :=
      do full <- add_heralds_to_state st her;
      let s := build_statistics purity indist thr full in
      if stats_empty s then Err OtherError
      else match pdist_calc s with
           | [] => Ok [(vac, 1)]
           | pd => Ok pd
           end.
  End Output.

  (* ---- Source.__init__ validation: purity, brightness, indistinguishability,
     probability_threshold, in this order; all range errors are ValueError ---- *)
  Definition in01 (x : K) : bool := kleb o 0 x && kleb o x 1.
  Definition validate (half purity indist thr : K) : res unit :=
    if negb (klt half purity && kleb o purity 1) then Err ValueError
    else if negb (in01 nu) then Err ValueError
    else if negb (in01 indist) then Err ValueError
    else if negb (in01 thr) then Err ValueError
    else Ok tt.
End Source.
