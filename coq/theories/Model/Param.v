(* Model of lightworks.sdk.circuit.parameters (Parameter, ParameterDict) as a
   store machine, and of the parameter-related parts of circuit.py
   (get_all_params, copy(freeze_parameters=True) / _freeze_params) on top of
   Model/Circuit.v and Model/World.v.  No proofs here.

   A Parameter object is an index into the store (objects are never deleted;
   every alias - a handle, a ParameterDict entry, a component field - is the
   same index, which is Python's reference semantics).  A numeric value is
   carried as the triple its component needs (Circuit.v): the number itself
   plus the two amplitudes; the amplitudes play no role in this file.
   A non-numeric value (str / None / bool) is one token [VOther].

   The setters are written in state-passing style, [param -> param * res unit]:
   the object that comes back is written to the store WHETHER OR NOT the call
   raised, exactly like attribute assignments that precede a `raise` in Python.
   That a rejected call leaves no trace is therefore a theorem (ParamP.v), not
   something the plumbing guarantees. *)
From Coq Require Import ZArith List Bool Arith Lia.
From LW Require Import Base.Sx Base.Num Base.Sums Base.Mat Model.Circuit Model.World.
Import ListNotations.

Section Param.
  Context {K : Type} (o : ops K).
  Notation triple := (@triple K).
  Notation val := (@val K).
  Notation comp := (@comp K).
  Notation circ := (@circ K).
  Notation env := (@env K).
  Notation op := (@op K).
  Notation world := (@world K).

  (* ---------------- Parameter ---------------- *)
  Inductive pvalue : Type := VNum (x : triple) | VOther.
  Inductive bound : Type := BNone | BNum (b : K) | BOther.          (* None | number | non-numeric *)
  Inductive boundsarg : Type := BdNone | BdBadType | BdList (l : list bound).
  Inductive labelarg : Type := LabNone | LabStr (s : nat) | LabBad.

  Record param : Type := mkParam {
    p_val : pvalue;                 (* __value *)
    p_min : option K;               (* __min_bound *)
    p_max : option K;               (* __max_bound *)
    p_label : option nat }.         (* label *)

  Definition is_num (v : pvalue) : bool := match v with VNum _ => true | VOther => false end.
  Definition klt (a b : K) : bool := negb (kleb o b a).          (* a < b on a total order *)
  Definition has_bounds (p : param) : bool :=
    match p_min p, p_max p with None, None => false | _, _ => true end.

  Definition with_val (p : param) (v : pvalue) : param := mkParam v (p_min p) (p_max p) (p_label p).
  Definition with_min (p : param) (b : option K) : param := mkParam (p_val p) b (p_max p) (p_label p).
  Definition with_max (p : param) (b : option K) : param := mkParam (p_val p) (p_min p) b (p_label p).

  (* min_bound.setter: value numeric?, bound numeric?, value < bound?, then assign *)
  Definition set_min (p : param) (b : bound) : param * res unit :=
    match b with
    | BNone => (with_min p None, Ok tt)
    | _ =>
        match p_val p with
        | VOther => (p, Err ParameterBoundsError)
        | VNum x =>
            match b with
            | BNum m => if klt (t1 x) m then (p, Err ParameterBoundsError) else (with_min p (Some m), Ok tt)
            | _ => (p, Err ParameterBoundsError)
            end
        end
    end.

  Definition set_max (p : param) (b : bound) : param * res unit :=
    match b with
    | BNone => (with_max p None, Ok tt)
    | _ =>
        match p_val p with
        | VOther => (p, Err ParameterBoundsError)
        | VNum x =>
            match b with
            | BNum m => if klt m (t1 x) then (p, Err ParameterBoundsError) else (with_max p (Some m), Ok tt)
            | _ => (p, Err ParameterBoundsError)
            end
        end
    end.

  (* Parameter.set: non-numeric with bounds?, below min?, above max?, then assign *)
  Definition set_val (p : param) (v : pvalue) : param * res unit :=
    match v with
    | VOther => if has_bounds p then (p, Err ParameterValueError) else (with_val p v, Ok tt)
    | VNum x =>
        if match p_min p with Some m => klt (t1 x) m | None => false end then (p, Err ParameterValueError) else
        if match p_max p with Some m => klt m (t1 x) | None => false end then (p, Err ParameterValueError) else
        (with_val p v, Ok tt)
    end.

  (* Parameter.__init__: value assigned first, label check, bounds type, length,
     numeric value, then the two setters in order (min, max).  The object only
     exists for the caller when nothing raised. *)
  Definition new_param (v : pvalue) (bd : boundsarg) (lab : labelarg) : res param :=
    match lab with
    | LabBad => Err TypeError
    | _ =>
        let l := match lab with LabStr s => Some s | _ => None end in
        match bd with
        | BdBadType => Err TypeError
        | BdNone => Ok (mkParam v None None l)
        | BdList [bmin; bmax] =>
            if is_num v then
              let '(p1, r1) := set_min (mkParam v None None l) bmin in
              match r1 with
              | Err x => Err x
              | Ok _ => let '(p2, r2) := set_max p1 bmax in
                        match r2 with Err x => Err x | Ok _ => Ok p2 end
              end
            else Err ParameterBoundsError
        | BdList _ => Err ValueError
        end
    end.

  (* ---------------- the store and ParameterDict objects ---------------- *)
  Definition store : Type := list param.
  Fixpoint sset (st : store) (id : nat) (p : param) : store :=
    match st, id with
    | [], _ => []
    | _ :: r, O => p :: r
    | q :: r, S i => q :: sset r i p
    end.
  (* run a method on object [id]; the object returned is stored even when the method raised *)
  Definition supd (st : store) (id : nat) (f : param -> param * res unit) : store * res unit :=
    match nth_error st id with
    | None => (st, Err KeyError)
    | Some p => let '(p', r) := f p in (sset st id p', r)
    end.

  Definition pdict : Type := list (nat * nat).            (* __pdict : key -> Parameter, insertion ordered *)
  Definition dpool : Type := list (nat * pdict).
  Fixpoint pool_get (ds : dpool) (d : nat) : option pdict :=
    match ds with
    | [] => None
    | (i, x) :: r => if Nat.eqb i d then Some x else pool_get r d
    end.
  Fixpoint pool_set (ds : dpool) (d : nat) (x : pdict) : dpool :=
    match ds with
    | [] => [(d, x)]
    | (i, y) :: r => if Nat.eqb i d then (d, x) :: r else (i, y) :: pool_set r d x
    end.
  Definition ddel (pd : pdict) (k : nat) : pdict := filter (fun kv => negb (Nat.eqb (fst kv) k)) pd.

  Definition pstate : Type := (store * dpool)%type.

  Inductive dval : Type := DRaw (v : pvalue) | DPar (id : nat).   (* a plain value | a Parameter object *)

  Inductive pcall : Type :=
  | PNew (v : pvalue) (bd : boundsarg) (lab : labelarg)           (* Parameter(v, bounds, label) *)
  | PSet (id : nat) (v : pvalue)                                   (* p.set(v) *)
  | PSetMin (id : nat) (b : bound)                                 (* p.min_bound = b *)
  | PSetMax (id : nat) (b : bound)
  | DNew (d : nat) (items : list (nat * dval))                     (* ParameterDict(k=..., ...) *)
  | DSetItem (d key : nat) (x : dval)                              (* pd[key] = x *)
  | DRemove (d key : nat).                                         (* pd.remove(key) *)

  Definition raw_param (v : pvalue) : param := mkParam v None None None.

  Definition pstep (s : pstate) (c : pcall) : pstate * res unit :=
    let '(st, ds) := s in
    match c with
    | PNew v bd lab =>
        match new_param v bd lab with
        | Ok p => ((st ++ [p], ds), Ok tt)
        | Err x => (s, Err x)
        end
    | PSet id v => let '(st', r) := supd st id (fun p => set_val p v) in ((st', ds), r)
    | PSetMin id b => let '(st', r) := supd st id (fun p => set_min p b) in ((st', ds), r)
    | PSetMax id b => let '(st', r) := supd st id (fun p => set_max p b) in ((st', ds), r)
    | DNew d items =>
        let '(st', pd) :=
          fold_left (fun (acc : store * pdict) kv =>
                       let '(st1, pd) := acc in
                       match snd kv with
                       | DRaw v => (st1 ++ [raw_param v], dset pd (fst kv) (length st1))
                       | DPar id => (st1, dset pd (fst kv) id)
                       end) items (st, []) in
        ((st', pool_set ds d pd), Ok tt)
    | DSetItem d key x =>
        match pool_get ds d with
        | None => (s, Err KeyError)
        | Some pd =>
            match dget pd key, x with
            | Some _, DPar _ => (s, Err ParameterDictError)
            | Some id, DRaw v => let '(st', r) := supd st id (fun p => set_val p v) in ((st', ds), r)
            | None, DRaw _ => (s, Err ParameterDictError)
            | None, DPar id => ((st, pool_set ds d (dset pd key id)), Ok tt)
            end
        end
    | DRemove d key =>
        match pool_get ds d with
        | None => (s, Err KeyError)
        | Some pd => if dmem pd key then ((st, pool_set ds d (ddel pd key)), Ok tt) else (s, Err KeyError)
        end
    end.

  (* ---------------- parameters inside circuits ---------------- *)
  (* the triple a component sees for Parameter [id] right now; a non-numeric
     value is encoded as the out-of-range number -1 (invalid for a beam
     splitter and for a loss; a phase shifter has no invalid number, so
     histories never give a non-numeric value to a phase parameter) *)
  Definition bad_triple : triple := (kopp o (k1 o), k0 o, k0 o).
  Definition env_of_store (st : store) : env :=
    fun id => match nth_error st id with
              | Some p => match p_val p with VNum x => x | VOther => bad_triple end
              | None => bad_triple
              end.

  Definition val_refs (v : val) : list nat := match v with Ref i => [i] | Lit _ => [] end.
  (* Parameter objects among spec.values() of ONE component (a Group's own fields hold none) *)
  Definition comp_refs1 (c : comp) : list nat :=
    match c with
    | BS _ _ v _ => val_refs v
    | PS _ v => val_refs v
    | LossC _ v => val_refs v
    | _ => []
    end.
  (* every Parameter occurring in a component, through groups *)
  Fixpoint comp_refs (c : comp) : list nat :=
    match c with
    | BS _ _ v _ => val_refs v
    | PS _ v => val_refs v
    | LossC _ v => val_refs v
    | Group sp _ _ _ _ => flat_map comp_refs sp
    | _ => []
    end.
  Definition spec_refs (sp : list comp) : list nat := flat_map comp_refs sp.

  (* Circuit.get_all_params: loop over the unpacked spec, `p not in all_params` *)
  Definition add_new (acc : list nat) (l : list nat) : list nat :=
    fold_left (fun a i => if existsb (Nat.eqb i) a then a else a ++ [i]) l acc.
  Definition get_all_params (c : circ) : list nat :=
    fold_left (fun acc x => add_new acc (comp_refs1 x)) (unpack_spec (c_spec c)) [].

  (* Circuit._freeze_params / copy(freeze_parameters=True) *)
  Definition freeze_val (e : env) (v : val) : val :=
    match v with Ref i => Lit (e i) | Lit x => Lit x end.
  Fixpoint freeze_comp (e : env) (c : comp) : comp :=
    match c with
    | BS m1 m2 v cv => BS m1 m2 (freeze_val e v) cv
    | PS m v => PS m (freeze_val e v)
    | LossC m v => LossC m (freeze_val e v)
    | Group sp m1 m2 hin hout => Group (map (freeze_comp e) sp) m1 m2 hin hout
    | x => x
    end.
  Definition freeze_spec (e : env) (sp : list comp) : list comp := map (freeze_comp e) sp.
  Definition freeze (e : env) (c : circ) : circ := set_spec (copy_circ c) (freeze_spec e (c_spec c)).

  Definition lit_val (v : val) : bool := match v with Lit _ => true | Ref _ => false end.
  Fixpoint no_ref (c : comp) : bool :=
    match c with
    | BS _ _ v _ => lit_val v
    | PS _ v => lit_val v
    | LossC _ v => lit_val v
    | Group sp _ _ _ _ => forallb no_ref sp
    | _ => true
    end.
  Definition no_ref_circ (c : circ) : bool := forallb no_ref (c_spec c).

  (* groups never nest in circuits built through the API (Circuit.add unpacks
     what it groups); unpack_circuit_spec handles exactly this shape *)
  Definition gfree (c : comp) : bool := negb (is_group c).
  Definition flat (c : comp) : bool :=
    match c with Group sp _ _ _ _ => forallb gfree sp | _ => true end.
  Definition flat_spec (sp : list comp) : bool := forallb flat sp.

  (* ---------------- histories ---------------- *)
  Definition hstate : Type := (pstate * world)%type.

  Inductive hop : Type :=
  | HP (c : pcall)
  | HC (x : op)                       (* a Circuit API call; values may be [Ref id] *)
  | HFreeze (new a : nat)             (* new = a.copy(freeze_parameters=True) *)
  (* reads *)
  | RGet (id : nat) | RMin (id : nat) | RMax (id : nat) | RHas (id : nat)
  | RDGet (d key : nat) | RDKeys (d : nat) | RDItems (d : nat) | RDLen (d : nat)
  | RDHas (d : nat) | RDBounds (d : nat) | RDIn (d key : nat)
  | RU (cid : nat) | RParams (cid : nat).

  Inductive out : Type :=
  | OUnit
  | OVal (v : pvalue)
  | OBound (b : option K)
  | OBool (b : bool)
  | ONat (n : nat)
  | ONats (l : list nat)
  | OItems (l : list (nat * pvalue))
  | OBounds (l : list (nat * (option K * option K)))
  | OUni (u : cstate (K:=K)).

  Definition loss_arg (x : op) : option val :=
    match x with
    | OBs _ _ _ _ l _ => Some l
    | OPs _ _ _ l => Some l
    | OLoss _ _ l => Some l
    | _ => None
    end.
  Definition nonnum_ref (st : store) (v : val) : bool :=
    match v with
    | Ref id => match nth_error st id with Some p => negb (is_num (p_val p)) | None => true end
    | Lit _ => false
    end.
  (* check_loss raises TypeError (not ValueError) when the Parameter holds a
     non-numeric value; it is the first source of ValueError in bs/ps/loss *)
  Definition fix_loss_err (st : store) (x : op) (r : res unit) : res unit :=
    match r, loss_arg x with
    | Err ValueError, Some l => if nonnum_ref st l then Err TypeError else r
    | _, _ => r
    end.

  Definition on_param (st : store) (id : nat) (f : param -> out) : res out :=
    match nth_error st id with Some p => Ok (f p) | None => Err KeyError end.
  Definition on_dict (ds : dpool) (d : nat) (f : pdict -> res out) : res out :=
    match pool_get ds d with Some pd => f pd | None => Err KeyError end.
  Definition pval_of (st : store) (id : nat) : pvalue :=
    match nth_error st id with Some p => p_val p | None => VOther end.
  Definition param_of (st : store) (id : nat) : param :=
    match nth_error st id with Some p => p | None => raw_param VOther end.

  Definition hstep (s : hstate) (h : hop) : hstate * res out :=
    let '((st, ds), w) := s in
    let unit_of (r : res unit) : res out := match r with Ok _ => Ok OUnit | Err x => Err x end in
    match h with
    | HP c => let '(ps', r) := pstep (st, ds) c in ((ps', w), unit_of r)
    | HC x => let '(w', r) := step o (env_of_store st) w x in
              (((st, ds), w'), unit_of (fix_loss_err st x r))
    | HFreeze new a =>
        match wget w a with
        | Some ca => (((st, ds), wset w new (freeze (env_of_store st) ca)), Ok OUnit)
        | None => (s, Err KeyError)
        end
    | RGet id => (s, on_param st id (fun p => OVal (p_val p)))
    | RMin id => (s, on_param st id (fun p => OBound (p_min p)))
    | RMax id => (s, on_param st id (fun p => OBound (p_max p)))
    | RHas id => (s, on_param st id (fun p => OBool (has_bounds p)))
    | RDGet d key => (s, on_dict ds d (fun pd => match dget pd key with Some id => Ok (ONat id) | None => Err KeyError end))
    | RDKeys d => (s, on_dict ds d (fun pd => Ok (ONats (dkeys pd))))
    | RDItems d => (s, on_dict ds d (fun pd => Ok (OItems (map (fun kv => (fst kv, pval_of st (snd kv))) pd))))
    | RDLen d => (s, on_dict ds d (fun pd => Ok (ONat (length pd))))
    | RDHas d => (s, on_dict ds d (fun pd => Ok (OBool (existsb (fun kv => has_bounds (param_of st (snd kv))) pd))))
    | RDBounds d => (s, on_dict ds d (fun pd =>
                       Ok (OBounds (map (fun kv => let p := param_of st (snd kv) in (fst kv, (p_min p, p_max p))) pd))))
    | RDIn d key => (s, on_dict ds d (fun pd => Ok (OBool (dmem pd key))))
    | RU cid => (s, match wget w cid with
                    | Some c => match build o (env_of_store st) c with Ok u => Ok (OUni u) | Err x => Err x end
                    | None => Err KeyError
                    end)
    | RParams cid => (s, match wget w cid with Some c => Ok (ONats (get_all_params c)) | None => Err KeyError end)
    end.

  Definition is_read (h : hop) : bool :=
    match h with HP _ | HC _ | HFreeze _ _ => false | _ => true end.

  Definition hinit : hstate := (([], []), []).

  (* run a history, collecting the outcome of every step and the state after it *)
  Fixpoint hrun (s : hstate) (hs : list hop) : hstate * list (res out * hstate) :=
    match hs with
    | [] => (s, [])
    | h :: hs' =>
        let '(s1, r) := hstep s h in
        let '(s2, rs) := hrun s1 hs' in
        (s2, (r, s1) :: rs)
    end.
  Definition hfinal (s : hstate) (hs : list hop) : hstate := fst (hrun s hs).
End Param.

Arguments VNum {K} _. Arguments VOther {K}.
Arguments BNone {K}. Arguments BNum {K} _. Arguments BOther {K}.
Arguments BdNone {K}. Arguments BdBadType {K}. Arguments BdList {K} _.
Arguments mkParam {K} _ _ _ _.
Arguments p_val {K} _. Arguments p_min {K} _. Arguments p_max {K} _. Arguments p_label {K} _.
Arguments DRaw {K} _. Arguments DPar {K} _.
Arguments PNew {K} _ _ _. Arguments PSet {K} _ _. Arguments PSetMin {K} _ _. Arguments PSetMax {K} _ _.
Arguments DNew {K} _ _. Arguments DSetItem {K} _ _ _. Arguments DRemove {K} _ _.
Arguments HP {K} _. Arguments HC {K} _. Arguments HFreeze {K} _ _.
Arguments RGet {K} _. Arguments RMin {K} _. Arguments RMax {K} _. Arguments RHas {K} _.
Arguments RDGet {K} _ _. Arguments RDKeys {K} _. Arguments RDItems {K} _. Arguments RDLen {K} _.
Arguments RDHas {K} _. Arguments RDBounds {K} _. Arguments RDIn {K} _ _.
Arguments RU {K} _. Arguments RParams {K} _.
Arguments is_num {K} _. Arguments has_bounds {K} _.
Arguments store {K}. Arguments pstate {K}. Arguments hstate {K}. Arguments hinit {K}.
Arguments no_ref {K} _. Arguments no_ref_circ {K} _. Arguments comp_refs {K} _. Arguments comp_refs1 {K} _.
Arguments spec_refs {K} _. Arguments get_all_params {K} _. Arguments flat {K} _. Arguments flat_spec {K} _.
Arguments gfree {K} _. Arguments val_refs {K} _. Arguments lit_val {K} _. Arguments is_read {K} _.
