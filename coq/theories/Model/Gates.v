(* Model of lightworks.qubit.gates (single_qubit_gates.py, two_qubit_gates.py,
   three_qubit_gates.py).  No proofs here.

   Every constructor is transcribed as the sequence of API calls it makes
   (Unitary(...), .herald(...), Circuit(n), .add(..., group=True), .mode_swaps(...)),
   i.e. as a program of Model/World.v, so that herald placement and the mode
   mapping of Circuit.add are part of the model.  The matrices are built with the
   same numpy steps as the code (identity, block assignment, row/column sign flips,
   np.flip, matrix products, permutation_mat_from_swaps_dict = [swaps_mat]).

   Scalars: K = "reals" (operations record o), T = K*K complex ([cplx o]).  The
   irrational constants are arguments:
     h = 1/sqrt 2, r2 = sqrt 2, r3i = 1/sqrt 3, r7 = sqrt 7, qi = 2^(-1/4),
     g = sqrt (3/sqrt 2 - 2)
   and a rotation gate takes the amplitudes (c, s) = (cos(theta/2), sin(theta/2)),
   P takes (cos theta, sin theta).  Nothing irrational is ever computed. *)
From Coq Require Import ZArith List Bool Arith Lia.
From LW Require Import Base.Sx Base.Num Base.Sums Base.Mat Model.State Model.Circuit Model.World Model.Fock.
Import ListNotations.
Open Scope nat_scope.

(* ------------------------------------------------------------------ *)
(* Spec: the named gates, as textbook matrices.  Independent of the    *)
(* constructors below (nothing in this section is used by them).       *)
(* ------------------------------------------------------------------ *)
Section Spec.
  Context {T : Type} (t : ops T).
  (* ii = the imaginary unit, hh = 1/sqrt 2 of the scalar type *)
  Variables (ii hh : T).
  Local Notation "0" := (k0 t).
  Local Notation "1" := (k1 t).
  Local Notation "a + b" := (kadd t a b).
  Local Notation "a * b" := (kmul t a b).
  Local Notation "a - b" := (ksub t a b).
  Local Notation "- a" := (kopp t a).

  Definition m2 (a b c d : T) : nat -> nat -> T :=
    fun i j => match i, j with
               | O, O => a | O, S O => b | S O, O => c | S O, S O => d
               | _, _ => 0
               end.
  Definition half : T := hh * hh.
  Definition spec_I := m2 1 0 0 1.
  Definition spec_X := m2 0 1 1 0.
  Definition spec_Y := m2 0 (- ii) ii 0.
  Definition spec_Z := m2 1 0 0 (- (1)).
  Definition spec_H := m2 hh hh hh (- hh).
  Definition spec_S := m2 1 0 0 ii.
  Definition spec_Sadj := m2 1 0 0 (- ii).
  (* e^{i pi/4} = (1 + i)/sqrt 2 *)
  Definition spec_T := m2 1 0 0 (hh * (1 + ii)).
  Definition spec_Tadj := m2 1 0 0 (hh * (1 - ii)).
  (* sqrt X = ((1+i) I + (1-i) X) / 2 *)
  Definition spec_SX := m2 (half * (1 + ii)) (half * (1 - ii)) (half * (1 - ii)) (half * (1 + ii)).
  (* P(theta) = diag(1, e^{i theta}),  e = e^{i theta} *)
  Definition spec_P (e : T) := m2 1 0 0 e.
  (* R_A(theta) = exp(-i theta A / 2) = cos(theta/2) I - i sin(theta/2) A for a Pauli matrix A;
     c = cos(theta/2), s = sin(theta/2) as scalars of T *)
  Definition spec_rot (A : nat -> nat -> T) (c s : T) : nat -> nat -> T :=
    fun i j => c * spec_I i j - ii * (s * A i j).
  Definition spec_Rx := spec_rot spec_X.
  Definition spec_Ry := spec_rot spec_Y.
  Definition spec_Rz := spec_rot spec_Z.

End Spec.

Section SpecMulti.
  Context {T : Type} (t : ops T).
  (* multi-qubit gates on computational basis states = lists of bits (qubit 0 first);
     M b' b = <b'| G |b> *)
  Fixpoint bits_eqb (a b : list bool) : bool :=
    match a, b with
    | [], [] => true
    | x :: a', y :: b' => Bool.eqb x y && bits_eqb a' b'
    | _, _ => false
    end.
  Definition delta (a b : list bool) : T := if bits_eqb a b then k1 t else k0 t.
  Definition bit (b : list bool) (q : nat) : bool := nth q b false.
  Fixpoint flip_bit (b : list bool) (q : nat) : list bool :=
    match b, q with
    | [], _ => []
    | x :: b', O => negb x :: b'
    | x :: b', S q' => x :: flip_bit b' q'
    end.
  (* CZ |b> = (-1)^{b0 b1} |b> *)
  Definition spec_CZ (b' b : list bool) : T :=
    if bit b 0 && bit b 1 then kopp t (delta b' b) else delta b' b.
  (* CNOT with target tq (control = the other qubit): flips the target iff the control is 1 *)
  Definition spec_CNOT (tq : nat) (b' b : list bool) : T :=
    delta b' (if bit b (1 - tq) then flip_bit b tq else b).
  Definition spec_SWAP (b' b : list bool) : T := delta b' [bit b 1; bit b 0].
  Definition spec_CCZ (b' b : list bool) : T :=
    if bit b 0 && bit b 1 && bit b 2 then kopp t (delta b' b) else delta b' b.
  (* CCNOT (Toffoli) with target tq: flips the target iff both other qubits are 1 *)
  Definition spec_CCNOT (tq : nat) (b' b : list bool) : T :=
    let ctl := forallb (fun q => Nat.eqb q tq || bit b q) [0; 1; 2] in
    delta b' (if ctl then flip_bit b tq else b).
End SpecMulti.


(* all bit strings of length n, qubit 0 most significant: 00, 01, 10, 11 *)
Fixpoint bits (n : nat) : list (list bool) :=
  match n with
  | O => [[]]
  | S n' => flat_map (fun x => map (cons x) (bits n')) [false; true]
  end.
(* dual-rail encoding: 0 -> photon in the first mode of the pair, 1 -> in the second *)
Definition dr (b : list bool) : list Z := flat_map (fun x : bool => if x then [0; 1]%Z else [1; 0]%Z) b.
(* inverse of [dr] on its image *)
Fixpoint undr (s : list Z) : option (list bool) :=
  match s with
  | [] => Some []
  | a :: b :: s' =>
      match undr s' with
      | None => None
      | Some r => if ((a =? 1) && (b =? 0))%Z then Some (false :: r)
                  else if ((a =? 0) && (b =? 1))%Z then Some (true :: r) else None
      end
  | _ => None
  end.

(* ---- numpy steps on matrices ---- *)
Section Numpy.
  Context {K : Type} (o : ops K).
  Notation T := (K * K)%type.
  Notation co := (cplx o).
  Notation mat := (@mat T).
  Definition rows (n : nat) (A : mat) : list (list T) := mrows n n A.
  (* A[m:m+k, m:m+k] = B[:, :] *)
  Definition set_block (A : mat) (m k : nat) (B : mat) : mat := fun i j =>
    if (m <=? i) && (i <? m + k) && (m <=? j) && (j <? m + k) then B (i - m) (j - m) else A i j.
  (* A[r, :] = -A[r, :] ;  A[:, c] = -A[:, c] *)
  Definition neg_row (A : mat) (r : nat) : mat := fun i j => if i =? r then kopp co (A i j) else A i j.
  Definition neg_col (A : mat) (c : nat) : mat := fun i j => if j =? c then kopp co (A i j) else A i j.
  (* np.flip(B, axis=(0, 1)) of a k x k matrix *)
  Definition flip2 (k : nat) (B : mat) : mat := fun i j => B (k - 1 - i) (k - 1 - j).
  (* A[i, j] = v *)
  Definition set_entry (A : mat) (i0 j0 : nat) (v : T) : mat := fun i j =>
    if (i =? i0) && (j =? j0) then v else A i j.
  Definition mscale (z : T) (A : mat) : mat := fun i j => kmul co z (A i j).
  Definition mm (n : nat) (A B : mat) : mat := tab co n (mmul co n A B).        (* A @ B *)

  Definition zmax (l : list Z) : Z := fold_left Z.max (tl l) (hd 0%Z l).
  Fixpoint all_some (l : list (option Z)) : option (list Z) :=
    match l with
    | [] => Some []
    | Some x :: l' => match all_some l' with Some r => Some (x :: r) | None => None end
    | None :: _ => None
    end.
  Definition valid_target (n : Z) (tq : Z) : bool := ((0 <=? tq) && (tq <? n))%Z.
End Numpy.

(* ------------------------------------------------------------------ *)
(* The constructors                                                    *)
(* ------------------------------------------------------------------ *)
Section Gates.
  Context {K : Type} (o : ops K).
  Notation T := (K * K)%type.
  Notation co := (cplx o).
  Notation mat := (@mat T).
  Notation op := (@op K).
  Local Notation r0 := (k0 o).
  Local Notation r1 := (k1 o).
  Local Notation "a + b" := (kadd o a b).
  Local Notation "a * b" := (kmul o a b).
  Local Notation "a - b" := (ksub o a b).
  Local Notation "- a" := (kopp o a).

  Definition re (x : K) : T := (x, r0).
  Definition im (x : K) : T := (r0, x).
  Definition zz : T := (r0, r0).
  Definition kq (n d : Z) : K := kofZ o n * kinv o (kofZ o d).      (* the rational literal n/d *)

  (* ---- single qubit gates: the 2 x 2 arrays passed to Unitary ---- *)
  Inductive sq : Type := gI | gH | gX | gY | gZ | gS | gSadj | gT | gTadj | gSX.
  Variable h : K.                                       (* 1/sqrt 2 = 1/2**0.5 *)

  Definition sq_rows (g : sq) : list (list T) :=
    match g with
    | gI => [[re r1; re r0]; [re r0; re r1]]
    | gH => [[re (r1 * h); re (r1 * h)]; [re (r1 * h); re ((- r1) * h)]]          (* [[1,1],[1,-1]] / 2**0.5 *)
    | gX => [[re r0; re r1]; [re r1; re r0]]
    | gY => [[re r0; im (- r1)]; [im r1; re r0]]
    | gZ => [[re r1; re r0]; [re r0; re (- r1)]]
    | gS => [[re r1; re r0]; [re r0; im r1]]
    | gSadj => [[re r1; re r0]; [re r0; im (- r1)]]
    | gT => [[re r1; re r0]; [re r0; (h, h)]]                   (* exp(i pi/4) = cos(pi/4) + i sin(pi/4) *)
    | gTadj => [[re r1; re r0]; [re r0; (h, - h)]]              (* exp(-i pi/4) *)
    | gSX => let f := kq 1 2 in                              (* 0.5 * [[1+1j, 1-1j], [1-1j, 1+1j]] *)
             [[(f * r1, f * r1); (f * r1, f * (- r1))]; [(f * r1, f * (- r1)); (f * r1, f * r1)]]
    end.

  (* rotations; (c, s) = (cos(theta/2), sin(theta/2)) except for P where (c, s) = (cos theta, sin theta) *)
  Inductive rq : Type := gP | gRx | gRy | gRz.
  Definition rq_rows (g : rq) (c s : K) : list (list T) :=
    match g with
    | gP => [[re r1; re r0]; [re r0; (c, s)]]                   (* exp(1j * theta) *)
    | gRx => [[re c; im (- s)]; [im (- s); re c]]            (* [[cos, -1j sin], [-1j sin, cos]] *)
    | gRy => [[re c; re (- s)]; [re s; re c]]
    | gRz => [[(c, - s); re r0]; [re r0; (c, s)]]              (* exp(-1j theta/2), exp(1j theta/2) *)
    end.

  (* ---- CZ ---- *)
  Variables (r2 r3i : K).                                (* 2**0.5, 1/3**0.5 *)
  Definition cz_ubs : mat := of_rows co [[re ((- r1) * r3i); re (r2 * r3i)]; [re (r2 * r3i); re (r1 * r3i)]].
  Definition cz_ua : mat :=
    let u := fold_left (fun u i => set_block u i 2 cz_ubs) [0; 2; 4] (mid co) in
    neg_row o u 3.

  (* ---- CZ_Heralded ---- *)
  Variables (qi g : K).                                  (* 2**-0.25, (3/2**0.5 - 2)**0.5 *)
  Definition czh_uns : mat :=
    of_rows co [[re (r1 - r2); re qi; re g];
                [re qi; re (kq 1 2); re (kq 1 2 - h)];
                [re g; re (kq 1 2 - h); re (r2 - kq 1 2)]].
  Definition czh_ua0 : mat :=
    let u := set_block (mid co) 1 3 (flip2 3 czh_uns) in
    let u := set_block u 4 3 czh_uns in
    neg_col o u 3.
  Definition czh_ubs : mat :=
    let u := set_entry (mid co) 3 3 (re h) in
    let u := set_entry u 4 4 (re h) in
    let u := set_entry u 3 4 (im h) in
    set_entry u 4 3 (im h).
  Definition czh_swaps : dict := [(2, 0); (0, 1); (1, 2); (5, 7); (7, 6); (6, 5)].
  Definition czh_ua : mat :=
    let p1 := swaps_mat o czh_swaps in               (* permutation_mat_from_swaps_dict(swaps, 8) *)
    let p2 := madj co p1 in                          (* np.conj(u_perm1.T) *)
    mm o 8 (mm o 8 (mm o 8 (mm o 8 p2 czh_ubs) czh_ua0) czh_ubs) p1.

  (* ---- CCZ: the 10 x 10 literal ---- *)
  Variable r7 : K.                                       (* 7**0.5 *)
  Definition ccz_rows : list (list T) :=
    let a := r3i in                      (* 3**-0.5 *)
    let b := r2 * r3i in                 (* (2/3)**0.5 *)
    let c6 := h * r3i in                 (* 6**-0.5 *)
    let e := h * kq 1 2 in               (* 2**-1.5 *)
    let f := r7 * e in                   (* (7/8)**0.5 *)
    let c24 := c6 * kq 1 2 in            (* 24**-0.5 *)
    let c72 := h * kq 1 6 in             (* 72**-0.5 *)
    let third := kq 1 3 in
    [[re a; zz; zz; im b; zz; zz; zz; zz; zz; zz];
     [zz; re a; zz; zz; zz; im b; zz; zz; zz; zz];
     [zz; zz; re (- a); zz; zz; zz; zz; re h; im (- c6); zz];
     [im (- b); zz; zz; re (- a); zz; zz; zz; zz; zz; zz];
     [zz; zz; im (- (r2 * third)); zz; re (- a); zz; zz; im (- a); re third; zz];
     [zz; im (- b); zz; zz; zz; re (- a); zz; zz; zz; zz];
     [zz; zz; zz; zz; zz; zz; im e; zz; zz; im f];
     [zz; zz; im (- a); zz; re h; zz; zz; im (- e); re (- c24); zz];
     [zz; zz; im (- third); zz; re (- c6); zz; zz; im c24; re (- (kofZ o 7 * c72)); zz];
     [zz; zz; zz; zz; zz; zz; re (- f); zz; zz; re e]].

  (* ---- the constructors as API programs ----
     [dst] = slot of the object under construction, slots >= [tmp] are temporaries *)
  Definition mk_sq (gt : sq) (dst : nat) : list op := [OUnitary dst 2 (sq_rows gt)].
  Definition mk_rq (gt : rq) (c s : K) (dst : nat) : list op := [OUnitary dst 2 (rq_rows gt c s)].

  Definition mk_CZ (dst tmp : nat) : list op :=
    [ OUnitary tmp 6 (rows 6 cz_ua);
      OHerald tmp 0 0%Z (Some 0%Z); OHerald tmp 0 5%Z (Some 5%Z);
      ONew dst 4; OAdd dst tmp 0%Z true ].

  Definition mk_CZ_Heralded (dst tmp : nat) : list op :=
    [ OUnitary tmp 8 (rows 8 czh_ua);
      OHerald tmp 0 0%Z (Some 0%Z); OHerald tmp 1 1%Z (Some 1%Z);
      OHerald tmp 1 6%Z (Some 6%Z); OHerald tmp 0 7%Z (Some 7%Z);
      ONew dst 4; OAdd dst tmp 0%Z true ].

  Definition mk_CCZ (dst tmp : nat) : list op :=
    [ OUnitary tmp 10 ccz_rows;
      OHerald tmp 0 0%Z None; OHerald tmp 0 1%Z None; OHerald tmp 0 8%Z None; OHerald tmp 0 9%Z None;
      ONew dst 6; OAdd dst tmp 0%Z true ].

  (* H() ; inner() ; H() on the target inside a fresh Circuit(n), added grouped to self *)
  Definition h_conj (inner : nat -> nat -> list op) (tq : Z) (tmp : nat) : list op :=
    let circ := tmp in let hh := S tmp in let g0 := S (S tmp) in
    mk_sq gH hh ++ [OAdd circ hh (2 * tq)%Z false] ++
    inner g0 (S g0) ++ [OAdd circ g0 0%Z false] ++
    mk_sq gH hh ++ [OAdd circ hh (2 * tq)%Z false].

  Definition mk_CNOT (tq : Z) (dst tmp : nat) : res (list op) :=
    if negb (valid_target 2 tq) then Err ValueError else
    Ok ([ONew dst 4; ONew tmp 4] ++ h_conj mk_CZ tq tmp ++ [OAdd dst tmp 0%Z true]).

  Definition mk_CNOT_Heralded (tq : Z) (dst tmp : nat) : res (list op) :=
    if negb (valid_target 2 tq) then Err ValueError else
    Ok ([ONew dst 4; ONew tmp 4] ++ h_conj mk_CZ_Heralded tq tmp ++ [OAdd dst tmp 0%Z true]).

  (* CCNOT builds [circ] first and calls super().__init__(6) afterwards *)
  Definition mk_CCNOT (tq : Z) (dst tmp : nat) : res (list op) :=
    if negb (valid_target 3 tq) then Err ValueError else
    Ok ([ONew tmp 6] ++ h_conj mk_CCZ tq tmp ++ [ONew dst 6; OAdd dst tmp 0%Z true]).

  (* SWAP(qubit_1, qubit_2): a tuple entry is [Some m] for a Python int, [None] for anything else *)
  Definition mk_SWAP (q1 q2 : list (option Z)) (dst : nat) : res (list op) :=
    if negb (length q1 =? 2) then Err ValueError else
    if negb (length q2 =? 2) then Err ValueError else
    match all_some (q1 ++ q2) with
    | Some [a0; a1; b0; b1] =>
        let n := (zmax [a0; a1; b0; b1] + 1)%Z in
        Ok [ONew dst (Z.to_nat n); OSwaps dst [(a0, b0); (b0, a0); (a1, b1); (b1, a1)]]
    | _ => Err TypeError
    end.

  (* ---- running a constructor: every call must succeed, then compile ---- *)
  Definition env0 : @env K := fun _ => (r0, r0, r0).
  Definition first_err (rs : list (res unit)) : res unit :=
    fold_right (fun r acc => match r with Err e => Err e | Ok _ => acc end) (Ok tt) rs.

  Record gate : Type := mkGate { g_circ : @circ K; g_dim : nat; g_U : mat }.

  Definition compile_gate (p : res (list op)) (dst : nat) : res gate :=
    do prog <- p;
    let '(w, rs) := run o env0 [] prog in
    do _ <- first_err rs;
    match wget w dst with
    | None => Err KeyError
    | Some c => do st <- build o env0 c; Ok (mkGate c (fst st) (snd st))
    end.

  Definition gate_sq (gt : sq) : res gate := compile_gate (Ok (mk_sq gt 0)) 0.
  Definition gate_rq (gt : rq) (c s : K) : res gate := compile_gate (Ok (mk_rq gt c s 0)) 0.
  Definition gate_CZ : res gate := compile_gate (Ok (mk_CZ 0 1)) 0.
  Definition gate_CNOT (tq : Z) : res gate := compile_gate (mk_CNOT tq 0 1) 0.
  Definition gate_CZ_Heralded : res gate := compile_gate (Ok (mk_CZ_Heralded 0 1)) 0.
  Definition gate_CNOT_Heralded (tq : Z) : res gate := compile_gate (mk_CNOT_Heralded tq 0 1) 0.
  Definition gate_CCZ : res gate := compile_gate (Ok (mk_CCZ 0 1)) 0.
  Definition gate_CCNOT (tq : Z) : res gate := compile_gate (mk_CCNOT tq 0 1) 0.
  Definition gate_SWAP (q1 q2 : list (option Z)) : res gate := compile_gate (mk_SWAP q1 q2 0) 0.

  (* ---- the amplitude Simulator.simulate returns for one input/output pair of user-visible
          states (Model/Fock.v [simulate], one entry): heralds are inserted, the amplitude is
          permanent / sqrt(factor) and is returned as the pair (permanent, factor) ---- *)
  Definition hdz (d : list (nat * nat)) : hdict := map (fun kv => (fst kv, Z.of_nat (snd kv))) d.
  Definition sim_amp (gt : gate) (i x : list Z) : res (T * nat) :=
    do fi <- add_heralds_to_state i (hdz (c_in (g_circ gt)));
    do fx <- add_heralds_to_state x (hdz (c_out (g_circ gt)));
    Ok (amp_perm co (g_U gt) (znat fi) (znat fx), amp_factor (znat fi) (znat fx)).
End Gates.

(* ------------------------------------------------------------------ *)
(* which textbook matrix each single-qubit class is named after        *)
(* (T = K*K, i = (0,1), 1/sqrt 2 = (h,0); rotation amplitudes real)    *)
(* ------------------------------------------------------------------ *)
Section Names.
  Context {K : Type} (o : ops K).
  Let t := cplx o.
  Let ii : K * K := (k0 o, k1 o).
  Definition named_sq (h : K) (g : sq) : nat -> nat -> K * K :=
    let hh := (h, k0 o) in
    match g with
    | gI => spec_I t | gH => spec_H t hh | gX => spec_X t | gY => spec_Y t ii | gZ => spec_Z t
    | gS => spec_S t ii | gSadj => spec_Sadj t ii | gT => spec_T t ii hh | gTadj => spec_Tadj t ii hh
    | gSX => spec_SX t ii hh
    end.
  (* (c, s) = (cos(theta/2), sin(theta/2)); for P: (cos theta, sin theta), e^{i theta} = c + i s *)
  Definition named_rq (g : rq) (c s : K) : nat -> nat -> K * K :=
    match g with
    | gP => spec_P t (c, s)
    | gRx => spec_Rx t ii (c, k0 o) (s, k0 o)
    | gRy => spec_Ry t ii (c, k0 o) (s, k0 o)
    | gRz => spec_Rz t ii (c, k0 o) (s, k0 o)
    end.
  (* index of a one-qubit basis state *)
  Definition idx1 (b : list bool) : nat := if hd false b then 1 else 0.
End Names.

(* the Fock state on n modes with one photon in mode x and one in mode y, and the
   choice of the rail of a qubit encoded on the mode pair (m0, m1) *)
Definition two_photons (n x y : nat) : list nat := incr x (incr y (repeat 0 n)).
Definition rail (b : bool) (m0 m1 : nat) : nat := if b then m1 else m0.
