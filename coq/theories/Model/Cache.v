(* C11 — the lazy-recomputation caches of Sampler / QuickSampler as an abstract
   state machine, and the attribute state of Analyzer.  Model only, no proofs.

   Source: lightworks/emulator/simulation/sampler.py, quick_sampler.py
   (properties probability_distribution / continuous_distribution,
   _check_parameter_updates, _gen_calculation_values, sample, sample_N_inputs, sample_N_outputs),
   analyzer.py (analyze, attributes performance / error_rate).

   The machine is generic in
     cfg   the LIVE configuration: everything reachable from the object's
           attributes at the moment of a call (circuit with the current values
           of its components and parameters, input state, source, detector,
           backend, post-selection, photon_counting).  Attribute assignment and
           in-place mutation of an attached object both change only this.
     key   what _gen_calculation_values puts in the list __calculation_values
     snap  _gen_calculation_values
     keq   the comparison loop of _check_parameter_updates (true = no difference)
     dist  the body of the `if` in probability_distribution: what is computed
           from the live configuration (an exception leaves the object unchanged)
     cont  _convert_to_continuous
     pick  sample(): inverse CDF on the continuous distribution, then the live detector
     pickn sample_N_*: numpy choice on the distribution, then live herald /
           detector / post-selection processing (its outcome may be an exception
           class; that is part of S)
   [cont_checks] distinguishes the two continuous_distribution properties:
   Sampler's (and the repaired QuickSampler's) calls _check_parameter_updates,
   the pinned QuickSampler's returns the stored attribute unconditionally.
   [e_gen]/[ngen] is ghost state: the number of the computation that produced
   the cached objects (observable in Python as object identity of the returned dict). *)
From Coq Require Import ZArith NArith List Bool Arith.
From LW Require Import Base.Sx.
Import ListNotations.

Section Generic.
  Context {cfg key D CD U S : Type}.
  Variable snap : cfg -> key.
  Variable keq : key -> key -> bool.
  Variable dist : cfg -> res D.
  Variable cont : D -> CD.
  Variable pick : cfg -> CD -> U -> S.
  Variable pickn : cfg -> D -> U -> S.
  Variable cont_checks : bool.

  (* the three private attributes, always written together *)
  Record centry := { e_key : key; e_dist : D; e_cont : CD; e_gen : nat }.
  Record obj := { live : cfg; cached : option centry; ngen : nat }.

  (* a freshly created object: the attributes do not exist yet *)
  Definition fresh (c : cfg) : obj := {| live := c; cached := None; ngen := 0 |}.

  (* _check_parameter_updates: True iff a recalculation is needed.  The new
     values are the first argument of the comparison, the stored ones the second. *)
  Definition check_updates (o : obj) : bool :=
    match cached o with
    | None => true                                   (* not hasattr(self, "__calculation_values") *)
    | Some e => negb (keq (snap (live o)) (e_key e))
    end.

  (* property probability_distribution *)
  Definition read_dist (o : obj) : obj * res D :=
    if check_updates o then
      match dist (live o) with
      | Err e => (o, Err e)                          (* raised before any attribute is assigned *)
      | Ok d =>
          let en := {| e_key := snap (live o); e_dist := d; e_cont := cont d; e_gen := ngen o |} in
          ({| live := live o; cached := Some en; ngen := Datatypes.S (ngen o) |}, Ok d)
      end
    else
      match cached o with
      | Some e => (o, Ok (e_dist e))
      | None => (o, Err AttributeError)
      end.

  (* property continuous_distribution *)
  Definition read_cont (o : obj) : obj * res CD :=
    let '(o1, r) :=
      if cont_checks && check_updates o
      then let '(o', r) := read_dist o in
           (o', match r with Ok _ => Ok tt | Err e => Err e end)
      else (o, Ok tt) in
    match r with
    | Err e => (o1, Err e)
    | Ok _ =>
        match cached o1 with
        | Some e => (o1, Ok (e_cont e))
        | None => (o1, Err AttributeError)           (* self.__continuous_distribution does not exist *)
        end
    end.

  Inductive op : Type :=
  | Reconfigure (f : cfg -> res cfg)   (* setter or in-place mutation; a rejected one changes nothing *)
  | ReadDist
  | ReadCont
  | Sample (u : U)                     (* sample() *)
  | SampleN (u : U).                   (* sample_N_inputs / sample_N_outputs *)

  Inductive out : Type :=
  | ODone
  | OErr (e : err)
  | ODist (d : D)
  | OCont (c : CD)
  | OSample (s : S).

  Definition set_live (o : obj) (c : cfg) : obj :=
    {| live := c; cached := cached o; ngen := ngen o |}.

  Definition step (o : obj) (p : op) : obj * out :=
    match p with
    | Reconfigure f =>
        match f (live o) with
        | Ok c => (set_live o c, ODone)
        | Err e => (o, OErr e)
        end
    | ReadDist =>
        let '(o1, r) := read_dist o in
        (o1, match r with Ok d => ODist d | Err e => OErr e end)
    | ReadCont =>
        let '(o1, r) := read_cont o in
        (o1, match r with Ok c => OCont c | Err e => OErr e end)
    | Sample u =>
        let '(o1, r) := read_cont o in
        (o1, match r with Ok c => OSample (pick (live o1) c u) | Err e => OErr e end)
    | SampleN u =>
        let '(o1, r) := read_dist o in
        (o1, match r with Ok d => OSample (pickn (live o1) d u) | Err e => OErr e end)
    end.

  Fixpoint run (o : obj) (h : list op) : obj :=
    match h with
    | [] => o
    | p :: t => run (fst (step o p)) t
    end.

  (* outputs of a history, with the generation of the cache after each step (ghost) *)
  Fixpoint trace (o : obj) (h : list op) : list (out * option nat) :=
    match h with
    | [] => []
    | p :: t =>
        let '(o1, x) := step o p in
        (x, option_map e_gen (cached o1)) :: trace o1 t
    end.

  (* what a call returns on a freshly created object with configuration [c],
     written without any cache: the specification every long-lived object is
     measured against *)
  Definition spec_out (c : cfg) (p : op) : out :=
    match p with
    | Reconfigure f => match f c with Ok _ => ODone | Err e => OErr e end
    | ReadDist => match dist c with Ok d => ODist d | Err e => OErr e end
    | ReadCont => match dist c with Ok d => OCont (cont d) | Err e => OErr e end
    | Sample u => match dist c with Ok d => OSample (pick c (cont d) u) | Err e => OErr e end
    | SampleN u => match dist c with Ok d => OSample (pickn c d u) | Err e => OErr e end
    end.

  Definition next_cfg (c : cfg) (p : op) : cfg :=
    match p with
    | Reconfigure f => match f c with Ok c' => c' | Err _ => c end
    | _ => c
    end.
End Generic.

Arguments Reconfigure {cfg U} f.
Arguments ReadDist {cfg U}.
Arguments ReadCont {cfg U}.
Arguments Sample {cfg U} u.
Arguments SampleN {cfg U} u.
Arguments ODone {D CD S}.
Arguments OErr {D CD S} e.
Arguments ODist {D CD S} d.
Arguments OCont {D CD S} c.
Arguments OSample {D CD S} s.

(* ------------------------------------------------------------------------- *)
(* Analyzer: attributes performance / error_rate / results                    *)
(* ------------------------------------------------------------------------- *)
Section AnalyzerGeneric.
  Context {cfg Inp Exp Pr Perf ER : Type}.
  Variable probs : cfg -> Inp -> res Pr.            (* everything of analyze() up to and including _get_probs *)
  Variable perf : Pr -> Inp -> Perf.                (* probs.sum() / len(full_inputs) *)
  Variable erate : Pr -> Inp -> Exp -> res ER.      (* _calculate_error_rate (KeyError when an input is missing) *)
  (* pinned tree: `if hasattr(self, "error_rate")`; repaired: `if expected is not None` *)
  Variable copies_old_error : bool.

  Record aresult := { r_probs : Pr; r_perf : Perf; r_err : option ER }.
  Record astate := { a_cfg : cfg; a_perf : option Perf; a_err : option ER; a_res : option aresult }.

  Definition afresh (c : cfg) : astate := {| a_cfg := c; a_perf := None; a_err := None; a_res := None |}.

  Definition analyze (st : astate) (i : Inp) (x : option Exp) : astate * res aresult :=
    match probs (a_cfg st) i with
    | Err e => (st, Err e)
    | Ok p =>
        let pf := perf p i in
        let finish (er : option ER) :=
          let r := {| r_probs := p; r_perf := pf;
                      r_err := if copies_old_error then er
                               else match x with Some _ => er | None => None end |} in
          ({| a_cfg := a_cfg st; a_perf := Some pf; a_err := er; a_res := Some r |}, Ok r) in
        match x with
        | None => finish (a_err st)
        | Some ex =>
            match erate p i ex with
            | Err e =>   (* self.performance is already assigned when this raises *)
                ({| a_cfg := a_cfg st; a_perf := Some pf; a_err := a_err st; a_res := a_res st |}, Err e)
            | Ok er => finish (Some er)
            end
        end
    end.

  Inductive aop : Type :=
  | AReconfigure (f : cfg -> res cfg)
  | AAnalyze (i : Inp) (x : option Exp).

  Definition astep (st : astate) (p : aop) : astate * res (option aresult) :=
    match p with
    | AReconfigure f =>
        match f (a_cfg st) with
        | Ok c => ({| a_cfg := c; a_perf := a_perf st; a_err := a_err st; a_res := a_res st |}, Ok None)
        | Err e => (st, Err e)
        end
    | AAnalyze i x =>
        let '(st1, r) := analyze st i x in
        (st1, match r with Ok v => Ok (Some v) | Err e => Err e end)
    end.

  Fixpoint arun (st : astate) (h : list aop) : astate :=
    match h with [] => st | p :: t => arun (fst (astep st p)) t end.

  Fixpoint atrace (st : astate) (h : list aop) : list (res (option aresult) * (option Perf * option ER)) :=
    match h with
    | [] => []
    | p :: t => let '(st1, r) := astep st p in (r, (a_perf st1, a_err st1)) :: atrace st1 t
    end.
End AnalyzerGeneric.

Arguments AReconfigure {cfg Inp Exp} f.
Arguments AAnalyze {cfg Inp Exp} i x.

(* ------------------------------------------------------------------------- *)
(* Concrete instances used for execution                                      *)
(* ------------------------------------------------------------------------- *)
Fixpoint list_eqb {A} (eqb : A -> A -> bool) (l1 l2 : list A) : bool :=
  match l1, l2 with
  | [], [] => true
  | a :: t1, b :: t2 => eqb a b && list_eqb eqb t1 t2
  | _, _ => false
  end.

(* herald dictionaries {mode: photons}; python compares dicts by value, the
   harness passes them sorted by mode *)
Definition her := list (nat * nat).
Definition pair_eqb (a b : nat * nat) : bool := (fst a =? fst b) && (snd a =? snd b).
Definition her_eqb : her -> her -> bool := list_eqb pair_eqb.

(* ---- Sampler ---- *)
Record scfg := {
  sU : N;                 (* value of circuit.U_full, as an opaque identifier (equal id <-> equal array) *)
  sHin : her; sHout : her;(* circuit.heralds["input"], ["output"] *)
  sM : nat;               (* circuit.input_modes *)
  sIn : list nat;         (* input_state *)
  sBk : N;                (* backend.backend: 0 permanent, 1 slos *)
  sBr : Z; sPu : Z; sInd : Z; sThr : Z;   (* the four source fields, times 10^6 *)
  sDet : N                (* detector settings, opaque; NOT part of any snapshot, used at sampling time *)
}.

Record skey := { kU : N; kHin : her; kHout : her; kIn : list nat; kBk : N;
                 kBr : Z; kPu : Z; kInd : Z; kThr : Z }.

Definition skey_eqb (a b : skey) : bool :=
  N.eqb (kU a) (kU b) && her_eqb (kHin a) (kHin b) && her_eqb (kHout a) (kHout b) &&
  list_eqb Nat.eqb (kIn a) (kIn b) && N.eqb (kBk a) (kBk b) &&
  Z.eqb (kBr a) (kBr b) && Z.eqb (kPu a) (kPu b) && Z.eqb (kInd a) (kInd b) && Z.eqb (kThr a) (kThr b).

(* _gen_calculation_values; [with_heralds = false] is the pinned tree (finding N3) *)
Definition s_snap (with_heralds : bool) (c : scfg) : skey :=
  {| kU := sU c;
     kHin := if with_heralds then sHin c else [];
     kHout := if with_heralds then sHout c else [];
     kIn := sIn c; kBk := sBk c;
     kBr := sBr c; kPu := sPu c; kInd := sInd c; kThr := sThr c |}.

Fixpoint assoc_err {K} (eqb : K -> K -> bool) (t : list (K * err)) (k : K) : option err :=
  match t with
  | [] => None
  | (k', e) :: r => if eqb k k' then Some e else assoc_err eqb r k
  end.

(* The distribution of a configuration is opaque: it is NAMED by the full key
   (all fields the computation reads).  [errs] lists the keys for which the
   computation raises, as observed on a fresh object. *)
Definition s_dist (errs : list (skey * err)) (c : scfg) : res skey :=
  if negb (sM c =? length (sIn c)) then Err ValueError   (* "Mismatch in number of modes between input and circuit." *)
  else match assoc_err skey_eqb errs (s_snap true c) with
       | Some e => Err e
       | None => Ok (s_snap true c)
       end.

(* what a sampling call depends on besides the distribution: the live detector *)
Definition s_pick (c : scfg) (d : skey) (u : Z) : skey * N * Z := (d, sDet c, u).

Definition in_unit (v : Z) : bool := (0 <=? v)%Z && (v <=? 1000000)%Z.

Inductive sstep : Type :=
| SSetCircuit (u : N) (hin hout : her) (m : nat)  (* sampler.circuit = c, c.<component>(...), parameter.set(...) *)
| SSetInput (s : list nat)
| SSetBackend (b : N)                             (* sampler.backend = name / sampler.backend.backend = name *)
| SSetSource (br pu ind thr : Z)                  (* sampler.source = Source(...) *)
| SSetSrcField (which : nat) (v : Z)              (* sampler.source.<field> = v *)
| SSetDetector (d : N)
| SRead | SReadCont | SSample (u : Z) | SSampleN (u : Z).

Definition s_with_src (c : scfg) (br pu ind thr : Z) : scfg :=
  {| sU := sU c; sHin := sHin c; sHout := sHout c; sM := sM c; sIn := sIn c; sBk := sBk c;
     sBr := br; sPu := pu; sInd := ind; sThr := thr; sDet := sDet c |}.

Definition pur_ok (v : Z) : bool := (500000 <? v)%Z && (v <=? 1000000)%Z.

Definition s_reconf (p : sstep) (c : scfg) : res scfg :=
  match p with
  | SSetCircuit u hin hout m =>
      Ok {| sU := u; sHin := hin; sHout := hout; sM := m; sIn := sIn c; sBk := sBk c;
            sBr := sBr c; sPu := sPu c; sInd := sInd c; sThr := sThr c; sDet := sDet c |}
  | SSetInput s =>
      if length s =? sM c
      then Ok {| sU := sU c; sHin := sHin c; sHout := sHout c; sM := sM c; sIn := s; sBk := sBk c;
                 sBr := sBr c; sPu := sPu c; sInd := sInd c; sThr := sThr c; sDet := sDet c |}
      else Err ModeMismatchError
  | SSetBackend b =>
      if (b <? 2)%N
      then Ok {| sU := sU c; sHin := sHin c; sHout := sHout c; sM := sM c; sIn := sIn c; sBk := b;
                 sBr := sBr c; sPu := sPu c; sInd := sInd c; sThr := sThr c; sDet := sDet c |}
      else Err ValueError                           (* "Invalid backend provided." *)
  | SSetSource br pu ind thr =>
      if pur_ok pu && in_unit br && in_unit ind && in_unit thr
      then Ok (s_with_src c br pu ind thr) else Err ValueError
  | SSetSrcField w v =>
      match w with
      | 0 => if in_unit v then Ok (s_with_src c v (sPu c) (sInd c) (sThr c)) else Err ValueError
      | 1 => if pur_ok v then Ok (s_with_src c (sBr c) v (sInd c) (sThr c)) else Err ValueError
      | 2 => if in_unit v then Ok (s_with_src c (sBr c) (sPu c) v (sThr c)) else Err ValueError
      | _ => if in_unit v then Ok (s_with_src c (sBr c) (sPu c) (sInd c) v) else Err ValueError
      end
  | SSetDetector d =>
      Ok {| sU := sU c; sHin := sHin c; sHout := sHout c; sM := sM c; sIn := sIn c; sBk := sBk c;
            sBr := sBr c; sPu := sPu c; sInd := sInd c; sThr := sThr c; sDet := d |}
  | _ => Ok c
  end.

Definition s_op (p : sstep) : @op scfg Z :=
  match p with
  | SRead => ReadDist
  | SReadCont => ReadCont
  | SSample u => Sample u
  | SSampleN u => SampleN u
  | _ => Reconfigure (s_reconf p)
  end.

(* the Sampler machine; [wh] = heralds are part of the snapshot *)
Definition s_trace (wh : bool) (errs : list (skey * err)) (c0 : scfg) (h : list sstep) :=
  trace (s_snap wh) skey_eqb (s_dist errs) (fun d => d) s_pick s_pick true (fresh c0) (map s_op h).

(* ---- QuickSampler ---- *)
Record qcfg := {
  qU : N; qHin : her; qHout : her; qM : nat; qIn : list nat;
  qPsO : N;       (* identity of the post-selection object *)
  qPsV : N;       (* its current rules, as an opaque identifier of the VALUE *)
  qPc : bool      (* photon_counting *)
}.

Record qkey := { jU : N; jHin : her; jHout : her; jIn : list nat; jPsO : N; jPsV : N; jPc : bool }.

Definition qkey_eqb (a b : qkey) : bool :=
  N.eqb (jU a) (jU b) && her_eqb (jHin a) (jHin b) && her_eqb (jHout a) (jHout b) &&
  list_eqb Nat.eqb (jIn a) (jIn b) && N.eqb (jPsO a) (jPsO b) && N.eqb (jPsV a) (jPsV b) &&
  Bool.eqb (jPc a) (jPc b).

(* [wh = false]: heralds missing (N3); [wv = false]: the snapshot holds the
   post-selection OBJECT only, which has no __eq__ and aliases the live one (N12) *)
Definition q_snap (wh wv : bool) (c : qcfg) : qkey :=
  {| jU := qU c;
     jHin := if wh then qHin c else [];
     jHout := if wh then qHout c else [];
     jIn := qIn c; jPsO := qPsO c;
     jPsV := if wv then qPsV c else 0%N;
     jPc := qPc c |}.

Definition q_dist (errs : list (qkey * err)) (c : qcfg) : res qkey :=
  if negb (qM c =? length (qIn c)) then Err ValueError
  else match assoc_err qkey_eqb errs (q_snap true true c) with
       | Some e => Err e
       | None => Ok (q_snap true true c)
       end.

Definition q_pick (c : qcfg) (d : qkey) (u : Z) : qkey * Z := (d, u).

Inductive qstep : Type :=
| QSetCircuit (u : N) (hin hout : her) (m : nat)
| QSetInput (s : list nat)
| QSetPostSelect (o v : N)     (* qs.post_select = obj  (new identity)  /  obj.add(...) in place (same identity, new value) *)
| QSetPc (b : bool)
| QRead | QReadCont | QSample (u : Z) | QSampleN (u : Z).

Definition q_reconf (p : qstep) (c : qcfg) : res qcfg :=
  match p with
  | QSetCircuit u hin hout m =>
      Ok {| qU := u; qHin := hin; qHout := hout; qM := m; qIn := qIn c;
            qPsO := qPsO c; qPsV := qPsV c; qPc := qPc c |}
  | QSetInput s =>
      if length s =? qM c
      then Ok {| qU := qU c; qHin := qHin c; qHout := qHout c; qM := qM c; qIn := s;
                 qPsO := qPsO c; qPsV := qPsV c; qPc := qPc c |}
      else Err ModeMismatchError
  | QSetPostSelect o v =>
      Ok {| qU := qU c; qHin := qHin c; qHout := qHout c; qM := qM c; qIn := qIn c;
            qPsO := o; qPsV := v; qPc := qPc c |}
  | QSetPc b =>
      Ok {| qU := qU c; qHin := qHin c; qHout := qHout c; qM := qM c; qIn := qIn c;
            qPsO := qPsO c; qPsV := qPsV c; qPc := b |}
  | _ => Ok c
  end.

Definition q_op (p : qstep) : @op qcfg Z :=
  match p with
  | QRead => ReadDist
  | QReadCont => ReadCont
  | QSample u => Sample u
  | QSampleN u => SampleN u
  | _ => Reconfigure (q_reconf p)
  end.

(* [cc]: continuous_distribution checks for updates (false = pinned tree, F7) *)
Definition q_trace (wh wv cc : bool) (errs : list (qkey * err)) (c0 : qcfg) (h : list qstep) :=
  trace (q_snap wh wv) qkey_eqb (q_dist errs) (fun d => d) q_pick q_pick cc (fresh c0) (map q_op h).

(* ---- Analyzer ---- *)
(* configuration = the circuit (opaque identifier of U_full, heralds, input
   modes) and the post-selection value; probabilities are opaque and NAMED by
   (configuration, inputs id); the error rate by (that, expected id) *)
Record acfg := { aU : N; aH : her; aM : nat; aPs : N }.
Definition akey := (N * her * nat * N)%type.
Definition a_key (c : acfg) : akey := (aU c, aH c, aM c, aPs c).
Definition akey_eqb (a b : akey) : bool :=
  let '(u1, h1, m1, p1) := a in let '(u2, h2, m2, p2) := b in
  N.eqb u1 u2 && her_eqb h1 h2 && (m1 =? m2) && N.eqb p1 p2.

Definition apr := (akey * nat)%type.          (* "the probability array of this configuration for inputs #i" *)
Definition apr_eqb (a b : apr) : bool := akey_eqb (fst a) (fst b) && (snd a =? snd b).
Definition aer := (apr * nat)%type.           (* "its error rate against expectation #x" *)
Definition aer_eqb (a b : aer) : bool := apr_eqb (fst a) (fst b) && (snd a =? snd b).

Definition an_probs (errs : list (apr * err)) (c : acfg) (i : nat) : res apr :=
  match assoc_err apr_eqb errs (a_key c, i) with Some e => Err e | None => Ok (a_key c, i) end.
Definition an_perf (p : apr) (i : nat) : apr := p.
Definition an_erate (errs : list (aer * err)) (p : apr) (i x : nat) : res aer :=
  match assoc_err aer_eqb errs (p, x) with Some e => Err e | None => Ok (p, x) end.

Inductive anstep : Type :=
| ANSetCircuit (u : N) (h : her) (m : nat)
| ANSetPs (v : N)
| ANAnalyze (i : nat) (x : option nat).

Definition an_op (p : anstep) : @aop acfg nat nat :=
  match p with
  | ANSetCircuit u h m => AReconfigure (fun c => Ok {| aU := u; aH := h; aM := m; aPs := aPs c |})
  | ANSetPs v => AReconfigure (fun c => Ok {| aU := aU c; aH := aH c; aM := aM c; aPs := v |})
  | ANAnalyze i x => AAnalyze i x
  end.

Definition an_trace (old : bool) (perrs : list (apr * err)) (eerrs : list (aer * err))
           (c0 : acfg) (h : list anstep) :=
  atrace (an_probs perrs) an_perf (an_erate eerrs) old (afresh c0) (map an_op h).
