(* Model of lightworks.sdk.visualisation: Display (display.py), DrawCircuitSVG
   (draw_circuit_svg.py), DrawCircuitMPL (draw_circuit_mpl.py),
   process_parameter_value (display_utils.py).  No proofs here.

   Both drawers are reduced to their PARTIAL operations: list indexing
   (IndexError), item assignment (IndexError), max()/min() of a possibly empty
   collection (ValueError), the option validation (DisplayError) and the
   formatting of parameter values (round()/division of a non-number:
   TypeError).  The drawing primitives (drawsvg / matplotlib calls,
   display_components_svg.py) are abstract: they append a code to a trace and
   cannot fail.  Slices and "in" tests are total, as in Python.

   Positions: x_locations is kept with its values because the comparisons
   "loc < xloc" decide which waveguide primitives are emitted (the trace is
   compared with the implementation).  Units: SVG in drawing units with the
   label-dependent uniform offset of init_length dropped (100 + 50 = 150 for
   every mode); MPL in quarters (0.5 = 2).  y_locations: SVG in drawing units
   (125 / 75), MPL in tenths (1.0 = 10, 0.6 = 6).

   The SVG barrier is modelled WITH the repair of finding N6 (early return on
   an empty mode list). *)
From Coq Require Import ZArith List Bool Arith Lia.
From LW Require Import Base.Sx Base.Num Base.Mat Model.Circuit.
Import ListNotations.

(* what the display sees of a Parameter: is its label set, and is its current
   value a number, a string, or something else (None, a list, ...) *)
Inductive pkind : Type := PNum | PStr | POther.
Definition pinfo : Type := (bool * pkind)%type.
Definition penv : Type := nat -> pinfo.

Inductive backend : Type := SVG | MPL.
Inductive dtype : Type := DSvg | DMpl | DUnknown.          (* display_type: 'svg' | 'mpl' | anything else *)
Record dopts : Type := mkOpts {
  o_loss : bool;                  (* display_loss *)
  o_vals : bool;                  (* show_parameter_values *)
  o_labels : option nat }.        (* mode_labels: None | a list of that length *)

(* trace codes of the abstract primitives *)
Definition c_text : nat := 0.   Definition c_wg : nat := 1.     Definition c_ps : nat := 2.
Definition c_bs : nat := 3.     Definition c_unitary : nat := 4. Definition c_loss : nat := 5.
Definition c_swaps : nat := 6.  Definition c_group : nat := 7.  Definition c_herald : nat := 8.
(* a primitive drawn at the height of mode i (waveguides, boxes, herald markers) records the mode *)
Definition at_mode (k i : nat) : nat := k + 10 * S i.

(* ---------------- Python list / builtin operations ---------------- *)
Definition idx {A} (l : list A) (i : nat) : res A :=
  match nth_error l i with Some x => Ok x | None => Err IndexError end.
Fixpoint set_nth (l : list Z) (i : nat) (v : Z) : res (list Z) :=
  match l, i with
  | [], _ => Err IndexError
  | _ :: l', O => Ok (v :: l')
  | x :: l', S i' => do r <- set_nth l' i' v; Ok (x :: r)
  end.
Definition slice {A} (l : list A) (a b : nat) : list A := firstn (b - a) (skipn a l).   (* l[a:b] *)
Definition maxZ (l : list Z) : res Z :=
  match l with [] => Err ValueError | x :: l' => Ok (fold_left Z.max l' x) end.
Definition maxN (l : list nat) : res nat :=
  match l with [] => Err ValueError | x :: l' => Ok (fold_left Nat.max l' x) end.
Definition minN (l : list nat) : res nat :=
  match l with [] => Err ValueError | x :: l' => Ok (fold_left Nat.min l' x) end.
Definition memb (x : nat) (l : list nat) : bool := existsb (Nat.eqb x) l.
Definition nonempty {A} (l : list A) : bool := match l with [] => false | _ => true end.

Fixpoint foldM {A S} (f : S -> A -> res S) (l : list A) (s : S) : res S :=
  match l with
  | [] => Ok s
  | a :: l' => do s' <- f s a; foldM f l' s'
  end.
Fixpoint mapM {A B} (f : A -> res B) (l : list A) : res (list B) :=
  match l with
  | [] => Ok []
  | a :: l' => do b <- f a; do r <- mapM f l'; Ok (b :: r)
  end.
Definition range (a b : nat) : list nat := seq a (b - a).          (* range(a, b) *)

(* ---------------- geometry ---------------- *)
Definition unit_len (b : backend) : Z := match b with SVG => 50 | MPL => 2 end.      (* con_length = box size *)
Definition swap_con (b : backend) : Z := match b with SVG => 25 | MPL => 1 end.
Definition swap_size (b : backend) (span : nat) : Z :=
  match b with SVG => 50 + 20 * Z.of_nat span | MPL => 4 end.

(* y_locations *)
Fixpoint ylocs_from (her : list nat) (dy dys : Z) (i cnt : nat) (y : Z) : list Z :=
  match cnt with
  | O => []
  | S c => y :: ylocs_from her dy dys (S i) c (if memb (S i) her || memb i her then y + dys else y + dy)%Z
  end.
Definition ylocs (b : backend) (her : list nat) (n : nat) : list Z :=
  match b with
  | SVG => ylocs_from her 125 75 0 n 125
  | MPL => ylocs_from her 10 6 0 n 0
  end.

(* the loop that spreads the user labels over the non-ancilla modes:
   mode_labels[count] with len(mode_labels) = L *)
Definition expand_labels (n : nat) (her : list nat) (L : nat) : res (list (option nat)) :=
  do r <- foldM (fun (acc : nat * list (option nat)) i =>
                   let '(count, full) := acc in
                   if memb i her then Ok (count, None :: full)
                   else if Nat.ltb count L then Ok (S count, Some count :: full)
                   else Err IndexError)
                (range 0 n) (0, []);
  Ok (rev (snd r)).

(* mode_labels validation *)
Definition check_labels (n : nat) (her : list nat) (labels : option nat) : res nat :=
  let exp_len := n - length her in
  match labels with
  | Some k => if Nat.eqb k exp_len then Ok k else Err DisplayError
  | None => Ok exp_len
  end.

Section Display.
  Context {K : Type}.
  Notation comp := (@comp K).
  Notation circ := (@circ K).
  Notation val := (@val K).

  (* process_parameter_value: what kind of thing is shown *)
  Definition ppv (pe : penv) (show : bool) (v : val) : pkind :=
    match v with
    | Lit _ => PNum
    | Ref i => let '(lab, k) := pe i in if show then k else if lab then PStr else k
    end.
  (* "if not isinstance(x, str): round(x, 4)" / phi / (pi/4) *)
  Definition fmt (k : pkind) : res unit := match k with POther => Err TypeError | _ => Ok tt end.

  Record dctx : Type := mkCtx {
    d_b : backend; d_ys : list Z; d_her : list nat; d_pe : penv; d_loss : bool; d_vals : bool }.
  Record dst : Type := mkSt { xs : list Z; tr : list nat }.      (* x_locations, reversed trace *)

  Definition emit (k : nat) (s : dst) : dst := mkSt (xs s) (k :: tr s).
  Definition emits (k cnt : nat) (s : dst) : dst := mkSt (xs s) (repeat k cnt ++ tr s).
  Definition setx (s : dst) (i : nat) (v : Z) : res dst := do l <- set_nth (xs s) i v; Ok (mkSt l (tr s)).
  (* self._add_wg(.., self.y_locations[i], ..) *)
  Definition wg_at (cx : dctx) (s : dst) (i : nat) : res dst := do _ <- idx (d_ys cx) i; Ok (emit (at_mode c_wg i) s).

  (* for i, loc in enumerate(x_locations[a : b + 1]):
       if loc < xloc and i + a not in herald_modes: _add_wg(loc, y_locations[a + i], xloc - loc) *)
  Definition connect (cx : dctx) (s : dst) (a b : nat) (xloc : Z) : res dst :=
    let sl := slice (xs s) a (S b) in
    foldM (fun s (il : nat * Z) =>
             if (snd il <? xloc)%Z && negb (memb (fst il + a) (d_her cx)) then wg_at cx s (a + fst il) else Ok s)
          (combine (seq 0 (length sl)) sl) s.

  (* for i in range(a, b): if i not in herald_modes: _add_wg(.., y_locations[i], ..)
                           elif alt i: _add_wg(.., y_locations[i], ..) *)
  Definition wg_range (cx : dctx) (alt : nat -> bool) (s : dst) (a b : nat) : res dst :=
    foldM (fun s i => if memb i (d_her cx) then (if alt i then wg_at cx s i else Ok s) else wg_at cx s i)
          (range a b) s.
  (* the same loop, followed in each round by x_locations[i] = v *)
  Definition out_range (cx : dctx) (alt : nat -> bool) (s : dst) (a b : nat) (v : Z) : res dst :=
    foldM (fun s i =>
             do s1 <- (if memb i (d_her cx) then (if alt i then wg_at cx s i else Ok s) else wg_at cx s i);
             setx s1 i v)
          (range a b) s.
  Definition no_alt (_ : nat) : bool := false.

  (* _add_heralds *)
  Definition add_heralds (cx : dctx) (hin hout : dict) (s : dst) : res dst :=
    let one s (m : nat) := do _ <- idx (d_ys cx) m; Ok (emit c_text (emit (at_mode c_herald m) s)) in
    do s1 <- foldM one (dkeys hin) s;
    foldM one (dkeys hout) s1.

  Definition add_ps (cx : dctx) (s : dst) (m : nat) (v : val) : res dst :=
    let u := unit_len (d_b cx) in
    let phi := ppv (d_pe cx) (d_vals cx) v in
    do xloc <- idx (xs s) m;
    do _ <- idx (d_ys cx) m;
    let s := emit c_text (emit (at_mode c_ps m) (emit (at_mode c_wg m) s)) in
    do _ <- fmt phi;
    let s := emit (at_mode c_wg m) (emit c_text s) in
    setx s m (xloc + u + u + u)%Z.

  Definition add_loss (cx : dctx) (s : dst) (m : nat) (v : val) : res dst :=
    if negb (d_loss cx) then Ok s else
    let u := unit_len (d_b cx) in
    let l := ppv (d_pe cx) (d_vals cx) v in
    do xloc <- idx (xs s) m;
    do _ <- idx (d_ys cx) m;
    let s := emit c_text (emit (at_mode c_loss m) (emit (at_mode c_wg m) s)) in
    do _ <- fmt l;
    let s := emit (at_mode c_wg m) (emit c_text s) in
    setx s m (xloc + u + u + u)%Z.

  Definition add_bs (cx : dctx) (s : dst) (m1 m2 : nat) (v : val) : res dst :=
    let u := unit_len (d_b cx) in
    let ref := ppv (d_pe cx) (d_vals cx) v in
    let a := if Nat.ltb m2 m1 then m2 else m1 in
    let b := if Nat.ltb m2 m1 then m1 else m2 in
    do _ <- idx (d_ys cx) b;
    do _ <- idx (d_ys cx) a;
    do xloc <- maxZ (slice (xs s) a (S b));
    do s <- connect cx s a b xloc;
    do s <- wg_range cx no_alt s a (S b);
    let s := emit c_text (emit (at_mode c_bs a) s) in
    do _ <- fmt ref;
    let s := emit c_text s in
    do s <- wg_range cx no_alt s (S a) b;
    out_range cx no_alt s a (S b) (xloc + u + u + u)%Z.

  (* mode1, mode2 = spec.mode, spec.mode + k - 1.  k = 0 is not constructible;
     Python then has mode2 = mode - 1 (possibly -1): the slice is empty *)
  Definition add_unitary (cx : dctx) (s : dst) (m k : nat) : res dst :=
    let u := unit_len (d_b cx) in
    if Nat.eqb k 0 then (if Nat.ltb m (length (d_ys cx)) then Err ValueError else Err IndexError) else
    let a := m in
    let b := m + k - 1 in
    do _ <- idx (d_ys cx) b;
    do _ <- idx (d_ys cx) a;
    do xloc <- maxZ (slice (xs s) a (S b));
    do s <- connect cx s a b xloc;
    do s <- wg_range cx no_alt s a (S b);
    let s := emit c_text (emit (at_mode c_unitary a) s) in
    out_range cx no_alt s a (S b) (xloc + u + (u + u) + u)%Z.

  Definition add_barrier (cx : dctx) (s : dst) (ms : list nat) : res dst :=
    do mx <- match d_b cx with
             | SVG => match ms with
                      | [] => Ok None                                  (* N6 repair: early return *)
                      | _ => do locs <- mapM (idx (xs s)) ms; do mx <- maxZ locs; Ok (Some mx)
                      end
             | MPL => do mx <- foldM (fun acc m => do loc <- idx (xs s) m; Ok (Z.max acc loc)) ms 0%Z; Ok (Some mx)
             end;
    match mx with
    | None => Ok s
    | Some mx =>
        foldM (fun s m =>
                 do loc <- idx (xs s) m;
                 do s1 <- (if (loc <? mx)%Z then wg_at cx s m else Ok s);
                 setx s1 m mx)
              ms s
    end.

  Definition add_swaps (cx : dctx) (s : dst) (sw : dict) : res dst :=
    match sw with
    | [] => Ok s
    | _ =>
        let her := d_her cx in
        do mn <- minN (dkeys sw);
        do mx <- maxN (dkeys sw);
        let full := sw ++ map (fun m => (m, m)) (filter (fun m => negb (dmem sw m)) (range mn (S mx))) in
        do xloc <- maxZ (slice (xs s) mn (S mx));
        do cnt <- foldM (fun acc (ij : nat * nat) =>
                           if memb (fst ij) her then Ok acc
                           else do _ <- idx (d_ys cx) (fst ij); do _ <- idx (d_ys cx) (snd ij); Ok (S acc))
                        full 0;
        do s <- connect cx s mn mx xloc;
        do s <- wg_range cx no_alt s mn (S mx);
        let s := match d_b cx with SVG => emit c_swaps s | MPL => emits c_swaps cnt s end in
        out_range cx no_alt s mn (S mx) (xloc + swap_con (d_b cx) + swap_size (d_b cx) (mx - mn) + swap_con (d_b cx))%Z
    end.

  Definition add_group (cx : dctx) (s : dst) (m1 m2 : nat) (hin hout : dict) : res dst :=
    let u := unit_len (d_b cx) in
    let a := if Nat.ltb m2 m1 then m2 else m1 in
    let b := if Nat.ltb m2 m1 then m1 else m2 in
    let extra := if nonempty hin || nonempty hout then u else 0%Z in
    do _ <- idx (d_ys cx) b;
    do _ <- idx (d_ys cx) a;
    do xloc <- maxZ (slice (xs s) a (S b));
    do s <- connect cx s a b xloc;
    do s <- wg_range cx (fun i => dmem hin (i - a)) s a (S b);
    let s := emit c_text (emit (at_mode c_group a) s) in
    do s <- out_range cx (fun i => dmem hout (i - a)) s a (S b) (xloc + (u + extra) + (u + u) + (u + extra))%Z;
    add_heralds cx (map (fun kv => (fst kv + a, snd kv)) hin) (map (fun kv => (fst kv + a, snd kv)) hout) s.

  (* the multimethod dispatch; members of a group are NOT drawn *)
  Definition add_comp (cx : dctx) (s : dst) (c : comp) : res dst :=
    match c with
    | BS m1 m2 v _ => add_bs cx s m1 m2 v
    | PS m v => add_ps cx s m v
    | LossC m v => add_loss cx s m v
    | Barrier ms => add_barrier cx s ms
    | Swaps sw => add_swaps cx s sw
    | UMat m k _ => add_unitary cx s m k
    | Group _ m1 m2 hin hout => add_group cx s m1 m2 hin hout
    end.

  (* "if self.circuit._external_heralds['input']: for m in range(n): if m not in herald_modes: wg; x[m] += u" *)
  Definition lead_in (cx : dctx) (c : circ) (s : dst) : res dst :=
    if nonempty (c_xin c) then
      foldM (fun s m => if memb m (d_her cx) then Ok s
                        else do x <- idx (xs s) m; do s1 <- wg_at cx s m; setx s1 m (x + unit_len (d_b cx))%Z)
            (range 0 (c_n c)) s
    else Ok s.

  (* max(x_locations) (+ u with output heralds); extend every visible mode to it *)
  Definition lead_out (cx : dctx) (c : circ) (s : dst) : res (dst * Z) :=
    do m0 <- maxZ (xs s);
    let maxloc := if nonempty (c_xout c) then (m0 + unit_len (d_b cx))%Z else m0 in
    let sl := xs s in
    do s' <- foldM (fun s (il : nat * Z) =>
                      if (snd il <? maxloc)%Z && negb (memb (fst il) (d_her cx))
                      then do s1 <- wg_at cx s (fst il); setx s1 (fst il) maxloc
                      else Ok s)
                   (combine (seq 0 (length sl)) sl) s;
    Ok (s', maxloc).

  Definition mk_ctx (b : backend) (pe : penv) (c : circ) (op : dopts) : dctx :=
    mkCtx b (ylocs b (c_int c) (c_n c)) (c_int c) pe (o_loss op) (o_vals op).

  (* DrawCircuitSVG.__init__ followed by draw() *)
  Definition draw_svg (pe : penv) (c : circ) (op : dopts) : res dst :=
    let n := c_n c in
    let cx := mk_ctx SVG pe c op in
    do L <- check_labels n (c_int c) (o_labels op);
    do full <- expand_labels n (c_int c) L;
    do _ <- maxN (map (fun _ : option nat => 1) full);                  (* max(len(m) for m in mode_labels) *)
    do s <- foldM (fun s m => do _ <- idx (d_ys cx) m; Ok (emit c_text s)) (range 0 (length full)) (mkSt (repeat 150%Z n) []);
    do s <- lead_in cx c s;
    do s <- foldM (add_comp cx) (c_spec c) s;
    do sm <- lead_out cx c s;
    do s <- add_heralds cx (c_xin c) (c_xout c) (fst sm);
    do s <- foldM (fun s i => do x <- idx (xs s) i; setx s i (x + 50)%Z) (range 0 n) s;
    (* draw(): *)
    do _ <- maxZ (xs s);
    do _ <- maxZ (d_ys cx);
    do _ <- foldM (fun (_ : unit) i => do _ <- idx (d_ys cx) i; Ok tt) (range 0 n) tt;
    Ok s.

  (* DrawCircuitMPL.draw(): the label validation comes last *)
  Definition draw_mpl (pe : penv) (c : circ) (op : dopts) : res dst :=
    let n := c_n c in
    let cx := mk_ctx MPL pe c op in
    do s <- lead_in cx c (mkSt (repeat 2%Z n) []);
    do s <- foldM (add_comp cx) (c_spec c) s;
    do sm <- lead_out cx c s;
    do s <- add_heralds cx (c_xin c) (c_xout c) (fst sm);
    do _ <- maxZ (xs s);
    do _ <- maxZ (d_ys cx);
    do L <- check_labels n (c_int c) (o_labels op);
    do _ <- expand_labels n (c_int c) L;
    Ok s.

  (* lightworks.Display: returns the drawing or raises; never a new circuit *)
  Definition display_svg (pe : penv) (c : circ) (op : dopts) : res unit := do _ <- draw_svg pe c op; Ok tt.
  Definition display_mpl (pe : penv) (c : circ) (op : dopts) : res unit := do _ <- draw_mpl pe c op; Ok tt.
  Definition display (pe : penv) (c : circ) (dt : dtype) (op : dopts) : res unit :=
    match dt with
    | DMpl => display_mpl pe c op
    | DSvg => display_svg pe c op
    | DUnknown => Err DisplayError
    end.

  (* ---------------- well-formedness, as a decidable check ----------------
     (exported to the harness, which asserts it on every generated circuit) *)
  Definition ltb_all (N : nat) (l : list nat) : bool := forallb (fun m => Nat.ltb m N) l.
  Fixpoint nodupb (l : list nat) : bool :=
    match l with [] => true | x :: l' => negb (memb x l') && nodupb l' end.

  Fixpoint comp_ok (N : nat) (c : comp) {struct c} : bool :=
    match c with
    | BS m1 m2 _ _ => Nat.ltb m1 N && Nat.ltb m2 N
    | PS m _ => Nat.ltb m N
    | LossC m _ => Nat.ltb m N
    | Barrier ms => ltb_all N ms
    | Swaps sw => ltb_all N (dkeys sw) && ltb_all N (dvals sw)
    | UMat m k _ => Nat.ltb 0 k && Nat.leb (m + k) N
    | Group sp m1 m2 hin hout =>
        Nat.leb m1 m2 && Nat.ltb m2 N &&
        ltb_all (S m2 - m1) (dkeys hin) && ltb_all (S m2 - m1) (dkeys hout) &&
        (fix all (l : list comp) : bool := match l with [] => true | x :: l' => comp_ok N x && all l' end) sp
    end.

  Definition wf_check (c : circ) : bool :=
    forallb (comp_ok (c_n c)) (c_spec c) &&
    ltb_all (c_n c) (dkeys (c_in c)) && ltb_all (c_n c) (dkeys (c_out c)) &&
    ltb_all (c_n c) (dkeys (c_xin c)) && ltb_all (c_n c) (dkeys (c_xout c)) &&
    ltb_all (c_n c) (c_int c) && nodupb (c_int c).
End Display.
