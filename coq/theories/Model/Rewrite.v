(* Model of the circuit rewrites of lightworks (property C09):
     circuit_utils.py : unpack_circuit_spec (Model/Circuit.v [unpack_spec]),
                        compress_mode_swaps, combine_mode_swap_dicts,
                        convert_non_adj_beamsplitters
     circuit.py       : Circuit.unpack_groups (Model/Circuit.v), compress_mode_swaps,
                        remove_non_adjacent_bs, copy, copy(freeze_parameters=True) / _freeze_params
   transcribed loop by loop as executable functions on [list comp].  No proofs here.

   [compress_gen true] is compress_mode_swaps as it stands after the repair of finding N5
   (/repo commit 2dbd354: the inner scan skips entries that were already merged,
   "if i + 1 + j in to_skip: continue"); [compress_gen false] is the function as it stood on
   the pinned tree (kept for the refutation theorems, not run by the check).
   Circuit.compress_mode_swaps / remove_non_adjacent_bs no longer deep-copy the spec (finding
   N13, commit dab2a8f): in this functional model that was always the case. *)
From Coq Require Import ZArith List Bool Arith Lia.
From LW Require Import Base.Sx Base.Num Base.Sums Base.Mat Model.Circuit Model.World.
Import ListNotations.

Section Rewrite.
  Context {K : Type} (o : ops K).
  Notation comp := (@comp K).
  Notation circ := (@circ K).
  Notation val := (@val K).

  Definition memb (x : nat) (l : list nat) : bool := existsb (Nat.eqb x) l.

  (* ---------------- combine_mode_swap_dicts ----------------
     d[k] for a key k of d is [swap_fun d k] (first binding, Python dict lookup). *)

  (* for s2 in swaps2: if swaps1[s1] == s2: ... break      -> the key found, or None (the for-else) *)
  Fixpoint find_key (ks : list nat) (v : nat) : option nat :=
    match ks with
    | [] => None
    | k :: ks' => if Nat.eqb v k then Some k else find_key ks' v
    end.

  (* body of "for s1 in swaps1"; state = (new_swaps, added_swaps) *)
  Definition combine_step1 (s1 s2 : dict) (acc : dict * list nat) (k1 : nat) : dict * list nat :=
    let '(new, added) := acc in
    match find_key (dkeys s2) (swap_fun s1 k1) with
    | Some k2 => (dset new k1 (swap_fun s2 k2), added ++ [k2])
    | None => (dset new k1 (swap_fun s1 k1), added)
    end.

  (* body of "for s2 in swaps2: if s2 not in added_swaps: new_swaps[s2] = swaps2[s2]" *)
  Definition combine_step2 (s2 : dict) (added : list nat) (new : dict) (k2 : nat) : dict :=
    if memb k2 added then new else dset new k2 (swap_fun s2 k2).

  Definition combine_swaps (s1 s2 : dict) : dict :=
    let '(new, added) := fold_left (combine_step1 s1 s2) (dkeys s1) ([], []) in
    let new := fold_left (combine_step2 s2 added) (dkeys s2) new in
    filter (fun kv => negb (Nat.eqb (fst kv) (snd kv))) new.

  (* ---------------- compress_mode_swaps ---------------- *)
  (* modes a non-swap component adds to blocked_modes *)
  Definition blocked_of (c : comp) : list nat :=
    match c with
    | PS m _ => [m]
    | LossC m _ => [m]
    | BS m1 m2 _ _ => [m1; m2]
    | Group _ m1 m2 _ _ => seq m1 (S m2 - m1)          (* range(mode_1, mode_2 + 1) *)
    | UMat m k _ => seq m k                             (* range(mode, mode + unitary.shape[0]) *)
    | Barrier _ => []
    | Swaps _ => []                                     (* handled by the caller *)
    end.

  (* "for j, spec2 in enumerate(circuit_spec[i + 1 :])" ; idx = i + 1 + j ;
     state = (blocked_modes, spec.swaps, to_skip) *)
  Fixpoint compress_inner (repair : bool) (idx : nat) (rest : list comp)
           (blocked : list nat) (cur : dict) (to_skip : list nat) : dict * list nat :=
    match rest with
    | [] => (cur, to_skip)
    | c2 :: rest' =>
        if repair && memb idx to_skip
        then compress_inner repair (S idx) rest' blocked cur to_skip          (* N5 repair: continue *)
        else
          match c2 with
          | Swaps sw2 =>
              (* for m in swaps: if m in blocked_modes: block every key; break / else: combine *)
              if existsb (fun m => memb m blocked) (dkeys sw2)
              then compress_inner repair (S idx) rest' (blocked ++ dkeys sw2) cur to_skip
              else compress_inner repair (S idx) rest' blocked (combine_swaps cur sw2) (to_skip ++ [idx])
          | _ => compress_inner repair (S idx) rest' (blocked ++ blocked_of c2) cur to_skip
          end
    end.

  (* "for i, spec in enumerate(circuit_spec)" ; state = (to_skip, new_spec) *)
  Fixpoint compress_outer (repair : bool) (i : nat) (l : list comp) (to_skip : list nat)
           (new : list comp) : list comp :=
    match l with
    | [] => new
    | c :: rest =>
        if memb i to_skip then compress_outer repair (S i) rest to_skip new
        else
          match c with
          | Swaps sw =>
              let '(sw', ts') := compress_inner repair (S i) rest [] sw to_skip in
              compress_outer repair (S i) rest ts' (new ++ [Swaps sw'])
          | _ => compress_outer repair (S i) rest to_skip (new ++ [c])
          end
    end.

  Definition compress_gen (repair : bool) (sp : list comp) : list comp :=
    compress_outer repair 0 sp [] [].
  Definition compress_spec : list comp -> list comp := compress_gen true.
  Definition compress_pinned : list comp -> list comp := compress_gen false.

  (* ---------------- convert_non_adj_beamsplitters ---------------- *)
  Definition non_adj_mid (lo hi : nat) : nat := (lo + hi - 1) / 2.    (* int((m1 + m2 - 1) / 2) *)

  (* the two "for i in range(...)" loops filling the dictionary *)
  Definition non_adj_pairs (lo hi : nat) : list (nat * nat) :=
    let mid := non_adj_mid lo hi in
    map (fun i => (i, if Nat.eqb i lo then mid else i - 1)) (seq lo (mid + 1 - lo)) ++
    map (fun i => (i, if Nat.eqb i hi then mid + 1 else i + 1)) (seq (mid + 1) (hi - mid)).
  Definition non_adj_swaps (lo hi : nat) : dict := dict_of (non_adj_pairs lo hi).
  (* {v: k for k, v in swaps.items()} *)
  Definition flip_dict (sw : dict) : dict := dict_of (map (fun kv => (snd kv, fst kv)) sw).

  Definition adjacent (m1 m2 : nat) : bool := Nat.eqb (m1 + 1) m2 || Nat.eqb (m2 + 1) m1.

  Fixpoint non_adj_comp (c : comp) : list comp :=
    match c with
    | BS m1 m2 v cv =>
        if adjacent m1 m2 then [c]
        else
          let lo := Nat.min m1 m2 in
          let hi := Nat.max m1 m2 in
          let mid := non_adj_mid lo hi in
          let sw := non_adj_swaps lo hi in
          (* "if original modes were inverted then invert here too" *)
          let '(a1, a2) := if Nat.ltb m2 m1 then (mid + 1, mid) else (mid, mid + 1) in
          [Swaps sw; BS a1 a2 v cv; Swaps (flip_dict sw)]
    | Group sp m1 m2 hin hout => [Group (flat_map non_adj_comp sp) m1 m2 hin hout]
    | _ => [c]
    end.
  Definition non_adj_spec (sp : list comp) : list comp := flat_map non_adj_comp sp.

  (* ---------------- _freeze_params ---------------- *)
  Definition freeze_val (e : env (K:=K)) (v : val) : val := Lit (getv e v).
  Fixpoint freeze_comp (e : env (K:=K)) (c : comp) : comp :=
    match c with
    | BS m1 m2 v cv => BS m1 m2 (freeze_val e v) cv
    | PS m v => PS m (freeze_val e v)
    | LossC m v => LossC m (freeze_val e v)
    | Group sp m1 m2 hin hout => Group (map (freeze_comp e) sp) m1 m2 hin hout
    | _ => c
    end.
  Definition freeze_spec (e : env (K:=K)) (sp : list comp) : list comp := map (freeze_comp e) sp.

  (* ---------------- Circuit-level wrappers ----------------
     Every wrapper touches only the component list (unpack_groups, defined in
     Model/Circuit.v, additionally forgets which modes were internal). *)
  Definition compress_circ (c : circ) : circ := set_spec c (compress_spec (c_spec c)).
  Definition compress_circ_pinned (c : circ) : circ := set_spec c (compress_pinned (c_spec c)).
  Definition non_adj_circ (c : circ) : circ := set_spec c (non_adj_spec (c_spec c)).
  Definition copy_frozen (e : env (K:=K)) (c : circ) : circ := set_spec c (freeze_spec e (c_spec c)).

  (* ---------------- programs with rewrite calls ---------------- *)
  Inductive op9 : Type :=
  | Base (x : op (K:=K))                 (* every call of Model/World.v, incl. copy and unpack_groups *)
  | OCompress (id : nat)                 (* c.compress_mode_swaps() *)
  | ONonAdj (id : nat)                   (* c.remove_non_adjacent_bs() *)
  | OCopyFrozen (new a : nat).           (* new = a.copy(freeze_parameters=True) *)

  Definition step9 (repair : bool) (e : env (K:=K)) (w : world (K:=K)) (x : op9) : world (K:=K) * res unit :=
    match x with
    | Base b => step o e w b
    | OCompress id => upd w id (fun c => Ok (if repair then compress_circ c else compress_circ_pinned c))
    | ONonAdj id => upd w id (fun c => Ok (non_adj_circ c))
    | OCopyFrozen new a =>
        match wget w a with
        | Some ca => (wset w new (copy_frozen e ca), Ok tt)
        | None => (w, Err KeyError)
        end
    end.

  (* the circuit a rewrite call produced / changed (None for construction calls) *)
  Definition rewrite_target (x : op9) : option nat :=
    match x with
    | Base (OCopy new _) => Some new
    | Base (OUnpack id) => Some id
    | Base _ => None
    | OCompress id => Some id
    | ONonAdj id => Some id
    | OCopyFrozen new _ => Some new
    end.
End Rewrite.

Arguments Base {K} _. Arguments OCompress {K} _. Arguments ONonAdj {K} _. Arguments OCopyFrozen {K} _ _.
