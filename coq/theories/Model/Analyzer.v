(* Model of lightworks/emulator/simulation/analyzer.py (Analyzer.analyze,
   _process_inputs, _generate_outputs, _get_probs, _calculate_error_rate) and of
   quick_sampler.py (QuickSampler.probability_distribution,
   _calculate_probabiltiies), plus the Sampler distribution of an ideal source
   as the composition of Model/Fock.v's pdist_calc with herald insertion.
   No proofs here.

   Conventions (as in Model/Fock.v): K = "reals", complex = K*K, a probability
   is |permanent|^2 / (prod in! * prod out!) = [prob_of]; n = circuit modes
   (herald modes included), l = loss modes, U = U_full of dimension n + l,
   m = circuit.input_modes = n - #heralds; hin / hout = circuit.heralds["input"]
   / ["output"] (full mode -> photons).  The post-selection is any
   [state -> res bool] (PostSelection / function / default, Model/PostSel.v);
   both classes call it on the plain occupation LIST of the candidate output.

   Exceptions that are not in the shared enum are mapped to OtherError:
   RuntimeError (herald dictionaries differ), EmulatorError (empty quick
   sampler distribution), RecursionError (fock_basis(0, n)). *)
From Coq Require Import ZArith List Bool Arith Lia.
From LW Require Import Base.Sx Base.Num Base.Sums Base.Mat Model.State Model.Fock.
Import ListNotations.
Open Scope nat_scope.

(* python dict equality of two herald dictionaries (keys of a dict are distinct);
   the guard of Analyzer.analyze before fix e8102ee *)
Definition hd_eqb (a b : hdict) : bool :=
  Nat.eqb (length a) (length b) &&
  forallb (fun kv => match hlookup b (fst kv) with Some v => Z.eqb v (snd kv) | None => false end) a.

Definition hd_photons (h : hdict) : Z := fold_right (fun kv acc => (snd kv + acc)%Z) 0%Z h.

Fixpoint filterR {A} (f : A -> res bool) (l : list A) : res (list A) :=
  match l with
  | [] => Ok []
  | a :: l' => do b <- f a; do r <- filterR f l'; Ok (if b then a :: r else r)
  end.

Fixpoint index_of (outs : list state) (x : state) : option nat :=      (* list.index *)
  match outs with
  | [] => None
  | y :: outs' => if st_eqb y x then Some 0 else option_map S (index_of outs' x)
  end.

(* expected = {State: State | [State]} ; a single State is the one-element list *)
Definition expected_t : Type := list (state * list state).
Fixpoint exp_lookup (e : expected_t) (s : state) : option (list state) :=
  match e with
  | [] => None
  | (k, v) :: e' => if st_eqb k s then Some v else exp_lookup e' s
  end.

Section Analyzer.
  Context {K : Type} (o : ops K).
  Notation mat := (@mat (K * K)).

  Definition kdivn (a : K) (k : nat) : K := kmul o a (kinv o (kofnat o k)).
  Definition ksum (l : list K) : K := suml o l (fun x => x).

  (* Backend("permanent").probability: thewalrus.perm raises ValueError
     ("Input matrix must be square") when the photon numbers differ; partition()
     indexes out_state up to len(in_state) *)
  Definition backend_prob (U : mat) (ins outs : list nat) : res K :=
    if Nat.ltb (length outs) (length ins) then Err IndexError
    else if Nat.eqb (osum ins) (osum outs) then Ok (prob_of o U ins outs)
    else Err ValueError.

  (* ---------------- Analyzer._process_inputs ---------------- *)
  Definition an_process_inputs (m l : nat) (hin : hdict) (inputs : list state) : res (list (list nat)) :=
    match inputs with
    | [] => Err ValueError                                  (* min() of an empty sequence *)
    | _ =>
        if negb (all_equal (map zsum inputs)) then Err PhotonNumberError else
        do full <- mapM (fun s =>
                           if negb (Nat.eqb (length s) m) then Err ModeMismatchError else
                           do _ <- st_validate s;
                           add_heralds_to_state s hin) inputs;
        Ok (map (fun f => znat f ++ repeat 0 l) full)
    end.

  (* ---------------- Analyzer._generate_outputs ---------------- *)
  Definition an_candidates (m l nph : nat) : list (list nat) :=
    if Nat.eqb l 0 then fock_sums m nph
    else flat_map (fun k => fock_sums m k) (seq 0 (S nph)).

  (* for state in outputs: if validate(state): add heralds, keep (filtered, full) *)
  Fixpoint an_filter (ps : state -> res bool) (hout : hdict) (cands : list (list nat))
    : res (list (state * state)) :=
    match cands with
    | [] => Ok []
    | c :: cs =>
        let s := map Z.of_nat c in
        do b <- ps s;
        if b then
          do fo <- add_heralds_to_state s hout;
          do r <- an_filter ps hout cs;
          Ok ((s, fo) :: r)
        else an_filter ps hout cs
    end.

  Definition an_generate_outputs (ps : state -> res bool) (m l nph : nat) (hout : hdict)
    : res (list (state * state)) :=
    if Nat.eqb m 0 then Err OtherError else                  (* fock_basis(0, n): RecursionError *)
    do outs <- an_filter ps hout (an_candidates m l nph);
    match outs with
    | [] => Err ValueError                                  (* "No valid outputs found" *)
    | _ => Ok outs
    end.

  (* ---------------- Analyzer._get_probs, one entry ----------------
     ins = full input incl. loss modes, fo = full output without loss modes *)
  Definition an_entry (l : nat) (U : mat) (ins fo : list nat) : res K :=
    if Nat.eqb l 0 then
      do p <- backend_prob U ins fo; Ok (kadd o (k0 o) p)
    else if Nat.eqb (osum ins) (osum fo) then
      do p <- backend_prob U ins (fo ++ repeat 0 l); Ok (kadd o (k0 o) p)
    else if Nat.ltb (osum ins) (osum fo) then Err PhotonNumberError
    else
      fold_left (fun acc ls => do a <- acc; do p <- backend_prob U ins (fo ++ ls); Ok (kadd o a p))
                (fock_sums l (osum ins - osum fo)) (Ok (k0 o)).

  Definition an_probs (l : nat) (U : mat) (fins : list (list nat)) (outs : list (state * state))
    : res (list (list K)) :=
    mapM (fun ins => mapM (fun sf => an_entry l U ins (znat (snd sf))) outs) fins.

  (* ---------------- Analyzer._calculate_error_rate ----------------
     error = 1; for o in dict.fromkeys(expected[s]): if o in outputs:
     error -= iprobs[loc] / sum(iprobs).  dict.fromkeys keeps the first occurrence
     of every state (fix 23dccaf; before, the loop ran over the list itself:
     an_row_error_pinned).  The code has NO guard on sum(iprobs): a zero row gives
     0/0 = nan, which propagates through np.mean; nan is [None] here. *)
  Fixpoint st_dedupe (l : list state) : list state :=                (* list(dict.fromkeys(l)) *)
    match l with
    | [] => []
    | x :: l' => x :: filter (fun y => negb (st_eqb x y)) (st_dedupe l')
    end.

  Definition an_row_error_pinned (row : list K) (outs : list state) (exp : list state) : option K :=
    let tot := ksum row in
    fold_left (fun acc x =>
                 match acc with
                 | None => None
                 | Some er =>
                     match index_of outs x with
                     | Some loc =>
                         if keqb o tot (k0 o) then None
                         else Some (ksub o er (kmul o (nth loc row (k0 o)) (kinv o tot)))
                     | None => Some er
                     end
                 end) exp (Some (k1 o)).

  Definition an_row_error (row : list K) (outs : list state) (exp : list state) : option K :=
    an_row_error_pinned row outs (st_dedupe exp).

  Fixpoint opt_all {A} (l : list (option A)) : option (list A) :=
    match l with
    | [] => Some []
    | None :: _ => None
    | Some a :: l' => option_map (cons a) (opt_all l')
    end.

  Fixpoint zip_with {A B C} (f : A -> B -> C) (a : list A) (b : list B) : list C :=
    match a, b with
    | x :: a', y :: b' => f x y :: zip_with f a' b'
    | _, _ => []
    end.

  Definition an_error_rate (probs : list (list K)) (inputs outs : list state) (e : expected_t)
    : res (option K) :=
    if negb (forallb (fun s => match exp_lookup e s with Some _ => true | None => false end) inputs)
    then Err KeyError else
    let errs := zip_with (fun s row => an_row_error row outs
                                          (match exp_lookup e s with Some v => v | None => [] end))
                         inputs probs in
    Ok (option_map (fun es => kdivn (ksum es) (length es)) (opt_all errs)).

  (* ---------------- Analyzer.analyze ---------------- *)
  Record an_result : Type := mkAR {
    ar_outputs : list state;            (* results.outputs (heralds removed) *)
    ar_full : list state;               (* the same outputs with heralds inserted *)
    ar_probs : list (list K);           (* results.array *)
    ar_perf : K;                        (* results.performance *)
    ar_err : option (option K) }.       (* results.error_rate: absent | nan | value *)

  (* the photon number handed to _generate_outputs: inputs[0].n_photons, the
     photons the user put in (herald photons excluded; fix 35b3f09) *)
  Definition an_nphotons (inputs : list state) : nat := Z.to_nat (zsum (hd [] inputs)).

  (* everything analyze() does after its herald guard *)
  Definition analyze_body (n l : nat) (U : mat) (hin hout : hdict) (ps : state -> res bool)
             (inputs : list state) (expected : option expected_t) : res an_result :=
    let m := n - length hin in
    do fins <- an_process_inputs m l hin inputs;
    do outs <- an_generate_outputs ps m l (an_nphotons inputs) hout;
    do probs <- an_probs l U fins outs;
    let perf := kdivn (ksum (map ksum probs)) (length fins) in
    do er <- match expected with
             | None => Ok None
             | Some e => do x <- an_error_rate probs inputs (map fst outs) e; Ok (Some x)
             end;
    Ok (mkAR (map fst outs) (map snd outs) probs perf er).

  (* analyze(): `if len(heralds["input"]) != len(heralds["output"]): raise RuntimeError`
     (fix e8102ee: the NUMBER of heralds is compared, not the dictionaries) *)
  Definition analyze (n l : nat) (U : mat) (hin hout : hdict) (ps : state -> res bool)
             (inputs : list state) (expected : option expected_t) : res an_result :=
    if negb (Nat.eqb (length hin) (length hout)) then Err OtherError    (* RuntimeError *)
    else analyze_body n l U hin hout ps inputs expected.

  (* ---------------- QuickSampler ---------------- *)
  (* input_state setter *)
  Definition qs_new (m : nat) (input : state) : res unit :=
    if negb (Nat.eqb (length input) m) then Err ModeMismatchError else st_validate input.

  Definition zmax (s : state) : Z := fold_right Z.max 0%Z s.

  (* fock_basis(len(input), n_photons); threshold detectors keep max(s) <= 1
     (fix 3ccdb7f; before: max(s) == 1, see qs_candidates_pinned);
     post-selection; "Heralding function removed all possible outputs" *)
  Definition qs_candidates (ps : state -> res bool) (pc : bool) (input : state) : res (list state) :=
    if Nat.eqb (length input) 0 then Err OtherError else     (* fock_basis(0, n): RecursionError *)
    let basis := map (map Z.of_nat) (fock_sums (length input) (Z.to_nat (zsum input))) in
    let basis := if pc then basis else filter (fun s => Z.leb (zmax s) 1) basis in
    do outs <- filterR ps basis;
    match outs with
    | [] => Err ValueError
    | _ => Ok outs
    end.

  (* the threshold filter before fix 3ccdb7f: max(s) == 1, which refuses a vacuum input *)
  Definition qs_candidates_pinned (ps : state -> res bool) (pc : bool) (input : state) : res (list state) :=
    if Nat.eqb (length input) 0 then Err OtherError else
    let basis := map (map Z.of_nat) (fock_sums (length input) (Z.to_nat (zsum input))) in
    let basis := if pc then basis else filter (fun s => Z.eqb (zmax s) 1) basis in
    do outs <- filterR ps basis;
    match outs with
    | [] => Err ValueError
    | _ => Ok outs
    end.

  (* _calculate_probabiltiies: the dictionary before normalisation.  The
     candidate outputs are pairwise distinct (fock_basis has no duplicates), so
     the dict assignment pdist[State(ostate)] = p appends. *)
  Fixpoint qs_raw (eps : K) (l : nat) (U : mat) (hout : hdict) (fin : list nat) (outs : list state)
    : res (list (state * K)) :=
    match outs with
    | [] => Ok []
    | x :: outs' =>
        do fo <- add_heralds_to_state x hout;
        do p <- backend_prob U fin (znat fo ++ repeat 0 l);
        do r <- qs_raw eps l U hout fin outs';
        Ok (if klt o eps p then (x, p) :: r else r)
    end.

  Definition qs_normalise (pd : list (state * K)) : list (state * K) :=
    let tot := ksum (map snd pd) in
    map (fun sp => (fst sp, kmul o (snd sp) (kinv o tot))) pd.

  Definition qs_probs (eps : K) (l : nat) (U : mat) (hin hout : hdict) (input : state) (outs : list state)
    : res (list (state * K)) :=
    do fi <- add_heralds_to_state input hin;
    do raw <- qs_raw eps l U hout (znat fi ++ repeat 0 l) outs;
    Ok (qs_normalise raw).

  (* QuickSampler(circuit, input, photon_counting, post_select).probability_distribution;
     an empty dictionary raises EmulatorError.  [built] is circuit._build(), which
     the code only calls after the candidate outputs were found. *)
  Definition quick_sampler_lazy (eps : K) (n : nat) (built : res (nat * mat)) (hin hout : hdict)
             (ps : state -> res bool) (pc : bool) (input : state) : res (list (state * K)) :=
    do _ <- qs_new (n - length hin) input;
    do outs <- qs_candidates ps pc input;
    do tU <- built;
    do pd <- qs_probs eps (fst tU - n) (snd tU) hin hout input outs;
    match pd with
    | [] => Err OtherError                                   (* EmulatorError *)
    | _ => Ok pd
    end.

  Definition quick_sampler (eps : K) (n l : nat) (U : mat) (hin hout : hdict)
             (ps : state -> res bool) (pc : bool) (input : state) : res (list (state * K)) :=
    quick_sampler_lazy eps n (Ok (n + l, U)) hin hout ps pc input.

  (* ---------------- Sampler.probability_distribution, ideal source ---------------- *)
  Definition sampler_dist (b : backend) (eps : K) (n l : nat) (U : mat) (hin : hdict) (input : state)
    : res (pdict (K:=K)) :=
    if negb (Nat.eqb (length input) (n - length hin)) then Err ModeMismatchError else
    do _ <- st_validate input;
    do full <- add_heralds_to_state input hin;
    Ok (pdist_calc o b eps n l U [(znat full, k1 o)]).

  (* value of a distribution at a key, 0 when absent *)
  Definition pd_val (d : pdict (K:=K)) (k : list nat) : K :=
    match pd_get d k with Some v => v | None => k0 o end.
  Fixpoint qs_val (d : list (state * K)) (s : state) : K :=
    match d with
    | [] => k0 o
    | (t, v) :: d' => if st_eqb t s then v else qs_val d' s
    end.
End Analyzer.
