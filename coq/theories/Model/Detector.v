(* Model of lightworks/emulator/components/detector.py and of the sampling
   methods of emulator/simulation/sampler.py and quick_sampler.py.
   No proofs here.

   * The probability distribution is an INPUT: an association list
     state -> probability in the insertion order of the Python dict.
   * Randomness is an ORACLE STREAM: every function takes the list of uniform
     numbers the implementation will consume (python `random.random()` for the
     detector and `sample()`, numpy `Generator.random(N)` for `choice`) and
     returns what is left of it.  A stream that is too short gives
     [Err OtherError] (the harness always supplies enough).
   * Numbers are polymorphic in the operations record [ops K]. *)
From Coq Require Import ZArith List Bool Arith.
From LW Require Import Base.Sx Base.Num Model.State Model.PostSel.
Import ListNotations.
Open Scope Z_scope.

Section Model.
  Context {K : Type} (o : ops K).

  Definition klt (a b : K) : bool := negb (kleb o b a).          (* a < b *)
  Definition kdiv (a b : K) : K := kmul o a (kinv o b).
  Definition kabs (a : K) : K := if kleb o (k0 o) a then a else kopp o a.

  (* ------------------------------------------------------------------ *)
  (* Detector                                                            *)
  (* ------------------------------------------------------------------ *)
  Record detector : Type := mkDet { eff : K; pdark : K; pcount : bool }.

  (* for _i in range(n): if random() > efficiency: output[mode] -= 1 *)
  Fixpoint eff_photons (eta : K) (n : nat) (cnt : Z) (us : list K) : res (Z * list K) :=
    match n with
    | O => Ok (cnt, us)
    | S n' =>
        match us with
        | [] => Err OtherError
        | u :: us' => eff_photons eta n' (if klt eta u then cnt - 1 else cnt) us'
        end
    end.

  (* for mode, n in enumerate(in_state): ... *)
  Fixpoint eff_modes (eta : K) (s : state) (us : list K) : res (state * list K) :=
    match s with
    | [] => Ok ([], us)
    | n :: s' =>
        do cu <- eff_photons eta (Z.to_nat n) n us;
        do ru <- eff_modes eta s' (snd cu);
        Ok (fst cu :: fst ru, snd ru)
    end.

  (* for mode in range(len(in_state)): if random() < p_dark: output[mode] += 1 *)
  Fixpoint dark_modes (pd : K) (s : state) (us : list K) : res (state * list K) :=
    match s with
    | [] => Ok ([], us)
    | n :: s' =>
        match us with
        | [] => Err OtherError
        | u :: us' =>
            do ru <- dark_modes pd s' us';
            Ok ((if klt u pd then n + 1 else n) :: fst ru, snd ru)
        end
    end.

  (* [1 if count >= 1 else 0 for count in output] *)
  Definition threshold (s : state) : state := map (fun c => if 1 <=? c then 1 else 0) s.
  Definition cap (pc : bool) (s : state) : state := if pc then s else threshold s.

  Definition is_perfect (d : detector) : bool :=
    keqb o (eff d) (k1 o) && keqb o (pdark d) (k0 o) && pcount d.

  (* Detector._get_output *)
  Definition get_output (d : detector) (s : state) (us : list K) : res (state * list K) :=
    if is_perfect d then Ok (s, us)
    else
      do a <- (if klt (eff d) (k1 o) then eff_modes (eff d) s us else Ok (s, us));
      do b <- (if klt (k0 o) (pdark d) then dark_modes (pdark d) (fst a) (snd a) else Ok a);
      Ok (cap (pcount d) (fst b), snd b).

  (* ------------------------------------------------------------------ *)
  (* distributions, cumulative sums, inverse-CDF scans                   *)
  (* ------------------------------------------------------------------ *)
  Definition dist : Type := list (state * K).
  Definition dkeys (d : dist) : list state := map fst d.
  Definition dvals (d : dist) : list K := map snd d.

  (* python sum(values): ((0 + p1) + p2) + ... *)
  Definition ksum (l : list K) : K := fold_left (kadd o) l (k0 o).

  (* running sums pcon += p *)
  Fixpoint cumsum_from (acc : K) (l : list K) : list K :=
    match l with
    | [] => []
    | p :: l' => let a := kadd o acc p in a :: cumsum_from a l'
    end.
  Definition cumsum (l : list K) : list K := cumsum_from (k0 o) l.

  (* Sampler._convert_to_continuous: running sum / total *)
  Definition convert_to_continuous (d : dist) : dist :=
    let t := ksum (dvals d) in
    combine (dkeys d) (map (fun c => kdiv c t) (cumsum (dvals d))).
  (* QuickSampler._convert_to_continuous: running sum, no normalisation *)
  Definition qs_convert_to_continuous (d : dist) : dist :=
    combine (dkeys d) (cumsum (dvals d)).

  (* for state, cd in cdist.items(): if pval < cd: return state
     return state          (the last one; unbound on an empty dict) *)
  Fixpoint scan_cd {A} (cd : list (A * K)) (u : K) (last : option A) : option A :=
    match cd with
    | [] => last
    | (s, c) :: cd' => if klt u c then Some s else scan_cd cd' u (Some s)
    end.

  (* numpy Generator.choice(vals, p=p, size=N):
       cdf = p.cumsum(); cdf /= cdf[-1]; idx = cdf.searchsorted(random(N), side='right')
     On a non-decreasing cdf, searchsorted(side='right') is the first index
     whose entry exceeds u (contract: p >= 0, checked by numpy before). *)
  Definition np_cdf (p : list K) : list K :=
    let c := cumsum p in
    let t := last c (k0 o) in
    map (fun x => kdiv x t) c.
  Fixpoint first_gt (cdf : list K) (u : K) (i : nat) : nat :=
    match cdf with
    | [] => i
    | c :: r => if klt u c then i else first_gt r u (S i)
    end.
  Definition np_pick {A} (vals : list A) (cdf : list K) (u : K) : res A :=
    match nth_error vals (first_gt cdf u 0%nat) with
    | Some v => Ok v
    | None => Err IndexError
    end.
  Fixpoint mapM {A B} (f : A -> res B) (l : list A) : res (list B) :=
    match l with
    | [] => Ok []
    | a :: l' => do b <- f a; do r <- mapM f l'; Ok (b :: r)
    end.
  Definition np_choice {A} (vals : list A) (p : list K) (us : list K) : res (list A) :=
    mapM (np_pick vals (np_cdf p)) us.

  (* ------------------------------------------------------------------ *)
  (* herald check / removal / filters                                    *)
  (* ------------------------------------------------------------------ *)
  (* for m, n in herald_items: if state[m] != n: break   else: <accepted> *)
  Fixpoint herald_check (h : hdict) (s : state) : res bool :=
    match h with
    | [] => Ok true
    | (m, n) :: h' =>
        do v <- st_getitem s (Z.of_nat m);
        if v =? n then herald_check h' s else Ok false
    end.

  (* if heralds: State(remove_heralds_from_state(state, herald_modes)) else state *)
  Definition strip_heralds (h : hdict) (s : state) : res state :=
    match h with
    | [] => Ok s
    | _ => remove_heralds_from_state s (map fst h)
    end.

  (* heralds and max(heralds.values()) > 1 *)
  Definition herald_gt1 (h : hdict) : bool := existsb (fun mn => 1 <? snd mn) h.

  Definition postselect : Type := state -> res bool.

  (* what the sample_N_inputs loop does with one detected state: the herald
     check, herald removal, then post-selection AND n_photons >= min_detection;
     None = sample dropped *)
  Definition accept (h : hdict) (ps : postselect) (mind : Z) (full : state) : res (option state) :=
    do okh <- herald_check h full;
    if okh then
      do hs <- strip_heralds h full;
      do v <- ps hs;
      Ok (if v && (mind <=? st_n_photons hs) then Some hs else None)
    else Ok None.

  (* one iteration of the sample_N_inputs loop *)
  Definition process_sample (d : detector) (h : hdict) (ps : postselect) (mind : Z)
             (s : state) (us : list K) : res (option state * list K) :=
    do a <- get_output d s us;
    do r <- accept h ps mind (fst a);
    Ok (r, snd a).

  Fixpoint process_samples (d : detector) (h : hdict) (ps : postselect) (mind : Z)
           (samples : list state) (us : list K) : res (list state * list K) :=
    match samples with
    | [] => Ok ([], us)
    | s :: rest =>
        do a <- process_sample d h ps mind s us;
        do r <- process_samples d h ps mind rest (snd a);
        Ok (match fst a with Some hs => hs :: fst r | None => fst r end, snd r)
    end.

  (* numpy raises when |sum p - 1| > sqrt(eps) = 2^-26; lightworks then raises
     ValueError if |sum p - 1| > 0.01 and renormalises otherwise *)
  Definition np_atol : K := kinv o (kofZ o 67108864).
  Definition norm_tol : K := kinv o (kofZ o 100).

  (* Sampler.sample_N_inputs: un = numpy stream (one per requested sample),
     ud = python stream of the detector.  Returns the kept states in order
     and the unused part of the detector stream. *)
  Definition sample_N_inputs (d : detector) (h : hdict) (ps : postselect) (mind : Z)
             (pd : dist) (un ud : list K) : res (list state * list K) :=
    let t := ksum (dvals pd) in
    let dev := kabs (ksub o t (k1 o)) in
    do samples <-
       (if klt np_atol dev then
          if klt norm_tol dev then Err ValueError
          else np_choice (dkeys pd) (map (fun p => kdiv p t) (dvals pd)) un
        else np_choice (dkeys pd) (dvals pd) un);
    if herald_gt1 h && negb (pcount d) then Err SamplerError
    else process_samples d h ps mind samples ud.

  (* dict accumulation new_dist[s] += p, insertion ordered *)
  Fixpoint dict_add (s : state) (p : K) (nd : dist) : dist :=
    match nd with
    | [] => [(s, p)]
    | (t, q) :: nd' => if st_eqb t s then (t, kadd o q p) :: nd' else (t, q) :: dict_add s p nd'
    end.

  (* the loop of sample_N_outputs that builds new_dist *)
  Fixpoint build_new_dist (pc : bool) (h : hdict) (ps : postselect) (mind : Z)
           (pd : dist) (nd : dist) : res dist :=
    match pd with
    | [] => Ok nd
    | (s, p) :: pd' =>
        let s1 := if pc then s else map (fun i => Z.min i 1) s in
        do okh <- herald_check h s1;
        if okh then
          do hs <- strip_heralds h s1;
          if mind <=? st_n_photons hs then
            do v <- ps hs;
            build_new_dist pc h ps mind pd' (if v then dict_add hs p nd else nd)
          else build_new_dist pc h ps mind pd' nd
        else build_new_dist pc h ps mind pd' nd
    end.

  (* Sampler.sample_N_outputs (the detector efficiency is not looked at) *)
  Definition sample_N_outputs (d : detector) (h : hdict) (ps : postselect) (mind : Z)
             (pd : dist) (un : list K) : res (list state) :=
    if negb (keqb o (pdark d) (k0 o)) then Err SamplerError
    else if herald_gt1 h && negb (pcount d) then Err SamplerError
    else
      do nd <- build_new_dist (pcount d) h ps mind pd [];
      match nd with
      | [] => Err SamplerError
      | _ =>
          let t := ksum (dvals nd) in
          np_choice (dkeys nd) (map (fun p => kdiv p t) (dvals nd)) un
      end.

  (* Sampler.sample(): one python draw for the scan, then the detector.
     NOTE (finding N7): no herald check, no herald removal. *)
  Definition sampler_sample (d : detector) (pd : dist) (us : list K) : res (state * list K) :=
    match us with
    | [] => Err OtherError
    | u :: us' =>
        match scan_cd (convert_to_continuous pd) u None with
        | None => Err OtherError
        | Some s => get_output d s us'
        end
    end.

  Fixpoint repeat_sample {S} (f : list K -> res (S * list K)) (m : nat) (us : list K)
    : res (list S * list K) :=
    match m with
    | O => Ok ([], us)
    | S m' => do a <- f us; do r <- repeat_sample f m' (snd a); Ok (fst a :: fst r, snd r)
    end.

  (* QuickSampler.sample() and sample_N_outputs *)
  Definition qs_sample (pd : dist) (us : list K) : res (state * list K) :=
    match us with
    | [] => Err OtherError
    | u :: us' =>
        match scan_cd (qs_convert_to_continuous pd) u None with
        | None => Err OtherError
        | Some s => Ok (s, us')
        end
    end.
  Definition qs_sample_N_outputs (pd : dist) (un : list K) : res (list state) :=
    np_choice (dkeys pd) (dvals pd) un.

  (* the candidate outputs QuickSampler computes probabilities for:
     fock_basis(n_modes, n_photons), threshold detectors keep max(s) <= 1
     (repaired: the pinned filter max(s) == 1 refused the vacuum input),
     then the post-selection *)
  Fixpoint filterM {A} (f : A -> res bool) (l : list A) : res (list A) :=
    match l with
    | [] => Ok []
    | a :: l' => do b <- f a; do r <- filterM f l'; Ok (if b then a :: r else r)
    end.
  Definition qs_out_states (n_modes n_ph : nat) (pc : bool) (ps : postselect) : res (list state) :=
    let basis := map (map Z.of_nat) (fock_sums n_modes n_ph) in
    let basis := if pc then basis else filter (fun s => fold_right Z.max 0 s <=? 1) basis in
    filterM ps basis.
  Definition qs_supported (pd : dist) (outs : list state) : bool :=
    forallb (fun s => existsb (st_eqb s) outs) (dkeys pd).

  (* Counter(samples) as a dict in first-occurrence order *)
  Fixpoint count_add (s : state) (c : list (state * nat)) : list (state * nat) :=
    match c with
    | [] => [(s, 1%nat)]
    | (t, n) :: c' => if st_eqb t s then (t, S n) :: c' else (t, n) :: count_add s c'
    end.
  Definition counter (l : list state) : list (state * nat) :=
    fold_left (fun c s => count_add s c) l [].

  (* ------------------------------------------------------------------ *)
  (* _get_output as a decision tree and the detection kernel             *)
  (* (specification side; used by the theorems, executed only in         *)
  (*  Examples)                                                          *)
  (* ------------------------------------------------------------------ *)
  Inductive test : Type :=
  | TGt (eta : K)      (* random() > eta *)
  | TLt (p : K).       (* random() < p   *)
  Definition test_run (t : test) (u : K) : bool :=
    match t with TGt eta => klt eta u | TLt p => klt u p end.
  (* the one measure-theoretic fact: for u uniform on [0,1) and 0<=p<=1,
     P(u < p) = p and P(u > p) = 1 - p *)
  Definition test_prob (t : test) : K :=
    match t with TGt eta => ksub o (k1 o) eta | TLt p => p end.

  Inductive tree (A : Type) : Type :=
  | Leaf (a : A)
  | Node (t : test) (yes no : tree A).
  Arguments Leaf {A} _.
  Arguments Node {A} _ _ _.

  Fixpoint run_tree {A} (t : tree A) (us : list K) : res (A * list K) :=
    match t with
    | Leaf a => Ok (a, us)
    | Node c y n =>
        match us with
        | [] => Err OtherError
        | u :: us' => if test_run c u then run_tree y us' else run_tree n us'
        end
    end.

  (* finitely supported weighted lists *)
  Definition wdist (A : Type) : Type := list (A * K).
  Definition expect {A} (d : wdist A) (f : A -> K) : K :=
    fold_right (fun aw acc => kadd o (kmul o (snd aw) (f (fst aw))) acc) (k0 o) d.
  Definition dret {A} (a : A) : wdist A := [(a, k1 o)].
  Definition dscale {A} (c : K) (d : wdist A) : wdist A := map (fun aw => (fst aw, kmul o c (snd aw))) d.
  Definition dbind {A B} (d : wdist A) (k : A -> wdist B) : wdist B :=
    flat_map (fun aw => dscale (snd aw) (k (fst aw))) d.
  Definition dmap {A B} (f : A -> B) (d : wdist A) : wdist B := map (fun aw => (f (fst aw), snd aw)) d.
  Fixpoint dprod {A} (ds : list (wdist A)) : wdist (list A) :=
    match ds with
    | [] => dret []
    | d :: r => dbind d (fun a => dmap (cons a) (dprod r))
    end.

  (* law of a tree: each test is an independent Bernoulli event *)
  Fixpoint law {A} (t : tree A) : wdist A :=
    match t with
    | Leaf a => dret a
    | Node c y n => dscale (test_prob c) (law y) ++ dscale (ksub o (k1 o) (test_prob c)) (law n)
    end.

  (* the tree of _get_output, in continuation-passing style *)
  Fixpoint eff_photons_t {A} (eta : K) (n : nat) (cnt : Z) (k : Z -> tree A) : tree A :=
    match n with
    | O => k cnt
    | S n' => Node (TGt eta) (eff_photons_t eta n' (cnt - 1) k) (eff_photons_t eta n' cnt k)
    end.
  Fixpoint eff_modes_t {A} (eta : K) (s : state) (k : state -> tree A) : tree A :=
    match s with
    | [] => k []
    | n :: s' => eff_photons_t eta (Z.to_nat n) n (fun c => eff_modes_t eta s' (fun r => k (c :: r)))
    end.
  Fixpoint dark_modes_t {A} (pd : K) (s : state) (k : state -> tree A) : tree A :=
    match s with
    | [] => k []
    | n :: s' => Node (TLt pd) (dark_modes_t pd s' (fun r => k ((n + 1) :: r)))
                                (dark_modes_t pd s' (fun r => k (n :: r)))
    end.
  Definition get_output_tree (d : detector) (s : state) : tree state :=
    if is_perfect d then Leaf s
    else
      (if klt (eff d) (k1 o) then eff_modes_t (eff d) s else fun k => k s)
        (fun s1 =>
           (if klt (k0 o) (pdark d) then dark_modes_t (pdark d) s1 else fun k => k s1)
             (fun s2 => Leaf (cap (pcount d) s2))).

  (* the detection kernel of the property text *)
  Fixpoint binom (n k : nat) : nat :=
    match n, k with
    | _, O => 1
    | O, S _ => 0
    | S n', S k' => (binom n' k' + binom n' k)%nat
    end.
  Fixpoint kpow (x : K) (n : nat) : K :=
    match n with O => k1 o | S n' => kmul o x (kpow x n') end.
  Fixpoint kofnat (n : nat) : K :=
    match n with O => k0 o | S n' => kadd o (k1 o) (kofnat n') end.
  (* weight of "j of n photons detected", each independently with probability eta *)
  Definition binom_w (eta : K) (n j : nat) : K :=
    kmul o (kofnat (binom n j)) (kmul o (kpow eta j) (kpow (ksub o (k1 o) eta) (n - j))).
  Definition thin_mode (eta : K) (n : nat) : wdist Z :=
    map (fun j => (Z.of_nat j, binom_w eta n j)) (seq 0 (S n)).
  (* at most one dark count *)
  Definition dark_mode (pd : K) (m : Z) : wdist Z := [(m + 1, pd); (m, ksub o (k1 o) pd)].

  (* efficiency on every mode independently, THEN dark counts on every mode
     independently, THEN the threshold cap *)
  Definition kernel (d : detector) (s : state) : wdist state :=
    dmap (cap (pcount d))
         (dbind (dprod (map (fun n => thin_mode (eff d) (Z.to_nat n)) s))
                (fun t => dprod (map (dark_mode (pdark d)) t))).

  (* detect : dist -> dist, the exact law of (draw a state, then detect it) *)
  Definition detect (d : detector) (pd : wdist state) : wdist state := dbind pd (kernel d).

End Model.

Arguments Leaf {K A} _.
Arguments Node {K A} _ _ _.
Arguments TGt {K} _.
Arguments TLt {K} _.
