(* The matrix-level wiring theorem of Circuit.add (property C02, DESIGN "### C02" Spec):
   the compiled result of an accepted add is  E . iota(U_P)  with the wiring
   described by explicit index maps.  Assembles
     WiringMat   (compile commutes with mode insertion / offsetting / composition),
     WiringSwaps (the swap-completion loop denotes the herald-returning permutation),
     WiringPass  (pass-through modes for the parent's ancillas),
     WiringRank  (the index map of the parent; the two parent loops). *)
From Coq Require Import ZArith List Bool Arith Lia Ring_theory Ring Permutation.
From LW Require Import Base.Sx Base.Num Base.Sums Base.Mat Base.Embed Model.Circuit Model.Display
     Proofs.CompileP Proofs.CircuitP Proofs.AddP Proofs.RewriteP Proofs.DisplayP
     Proofs.WiringDefs Proofs.WiringMat Proofs.WiringSwaps Proofs.WiringPass Proofs.WiringRank.
Import ListNotations.

(* ---------- list helpers ---------- *)
Lemma map_nth_seq (l : list nat) : map (fun k => nth k l 0) (seq 0 (length l)) = l.
Proof.
  induction l as [|x l IH]; [reflexivity|]. simpl. f_equal.
  rewrite <- seq_shift, map_map. exact IH.
Qed.

Lemma ascl_nth_bound B (L : list nat) : ascl L -> NoDup L -> Forall (fun y => y < B) L ->
  forall j, j < length L -> nth j L 0 + (length L - j) <= B.
Proof.
  induction L as [|x L IH]; intros Ha Hn Hb j Hj; [simpl in Hj; lia|].
  destruct j as [|j].
  - pose proof (ascl_bound B L x Ha Hn Hb). simpl. lia.
  - destruct Ha as [_ Ha]. inversion Hn; subst. inversion Hb; subst. simpl in Hj.
    specialize (IH Ha H2 H4 j ltac:(lia)). simpl. lia.
Qed.

Lemma sasc_nodup l : sasc l -> NoDup l.
Proof.
  induction l as [|x l IH]; intros H; [constructor|]. destruct H as [Hx Hl].
  constructor; [|apply IH, Hl]. intros Hin. specialize (Hx x Hin). lia.
Qed.

Lemma sasc_map (f : nat -> nat) l : (forall a b, a < b -> f a < f b) -> sasc l -> sasc (map f l).
Proof.
  intros Hf. induction l as [|x l IH]; intros H; [exact Logic.I|]. destruct H as [Hx Hl].
  split; [|apply IH, Hl]. intros y Hy. apply in_map_iff in Hy as (z & <- & Hz). apply Hf, Hx, Hz.
Qed.

Lemma not_in_spec l x : not_in l x = true <-> ~ In x l.
Proof.
  unfold not_in. rewrite negb_true_iff. change (existsb (Nat.eqb x) l) with (memb x l).
  split; intros H.
  - intros Hin. apply memb_in in Hin. congruence.
  - destruct (memb x l) eqn:E; [apply memb_in in E; contradiction|reflexivity].
Qed.

Lemma open_modes_in n her x : In x (open_modes_of n her) <-> x < n /\ ~ In x her.
Proof.
  unfold open_modes_of. rewrite filter_In, in_seq, not_in_spec. intuition lia.
Qed.

Lemma open_modes_length n her : NoDup her -> (forall x, In x her -> x < n) ->
  length (open_modes_of n her) = n - length her.
Proof.
  intros Hn Hb. rewrite <- (freec_total her n Hn); [reflexivity|].
  apply Forall_forall. exact Hb.
Qed.

Lemma visible_from_in n internal m x :
  In x (visible_from n internal m) <-> m <= x /\ x < n /\ ~ In x internal.
Proof.
  unfold visible_from. rewrite filter_In, in_seq, not_in_spec. intuition lia.
Qed.

(* ---------- the visible modes from m on are the user modes mode, mode+1, ... ---------- *)
Lemma count_lt_S (I : list nat) x : NoDup I ->
  length (filter (fun i => i <? S x) I) = length (filter (fun i => i <? x) I) + (if memb x I then 1 else 0).
Proof.
  induction I as [|a I IH]; intros Hn; [reflexivity|]. inversion Hn as [|? ? Ha Hn']; subst.
  specialize (IH Hn'). cbn [filter]. unfold memb in *. cbn [existsb].
  destruct (Nat.eqb_spec x a) as [->|Hne].
  - replace (a <? S a) with true by (symmetry; apply Nat.ltb_lt; lia). rewrite Nat.ltb_irrefl. cbn [orb length].
    replace (existsb (Nat.eqb a) I) with false in IH; [lia|].
    symmetry. destruct (existsb (Nat.eqb a) I) eqn:E; [|reflexivity].
    exfalso. apply Ha. apply existsb_exists in E as (y & Hy & Ey). apply Nat.eqb_eq in Ey. subst. exact Hy.
  - cbn [orb]. destruct (Nat.ltb_spec a (S x)), (Nat.ltb_spec a x); cbn [length]; destruct (existsb (Nat.eqb x) I); lia.
Qed.

Lemma below_freec (I : list nat) x : NoDup I ->
  (Z.of_nat x - below I (Z.of_nat x) = Z.of_nat (freec I x))%Z.
Proof.
  intros Hn. unfold below.
  rewrite (filter_ext (fun i => (Z.of_nat i <? Z.of_nat x)%Z) (fun i => i <? x)).
  2:{ intros a. destruct (Z.ltb_spec (Z.of_nat a) (Z.of_nat x)), (Nat.ltb_spec a x); try reflexivity; lia. }
  assert (G : length (filter (fun i => i <? x) I) + freec I x = x).
  { induction x as [|x IH].
    - unfold freec, nvis. simpl. rewrite Nat.add_0_r.
      induction I as [|a I IHI]; [reflexivity|]. simpl. inversion Hn; subst. apply IHI. assumption.
    - rewrite count_lt_S by exact Hn. rewrite freec_S. destruct (memb x I); lia. }
  lia.
Qed.

Lemma filter_seq_idx (f : nat -> bool) a k : forall j, j < length (filter f (seq a k)) ->
  let v := nth j (filter f (seq a k)) 0 in
  a <= v /\ v < a + k /\ length (filter f (seq a (v - a))) = j.
Proof.
  induction k as [|k IH]; intros j Hj; cbv zeta; [simpl in Hj; lia|].
  rewrite seq_S, filter_app in *. rewrite app_length in Hj.
  destruct (lt_dec j (length (filter f (seq a k)))) as [Hl|Hl].
  - rewrite app_nth1 by exact Hl. specialize (IH j Hl). cbv zeta in IH. lia.
  - simpl in Hj |- *. destruct (f (a + k)) eqn:E; simpl in Hj; [|lia].
    rewrite app_nth2 by lia. replace (j - length (filter f (seq a k))) with 0 by lia. simpl.
    replace (a + k - a) with k by lia. lia.
Qed.

Lemma visible_from_rank n I m j : j < length (visible_from n I m) ->
  let v := nth j (visible_from n I m) 0 in
  m <= v /\ v < n /\ ~ In v I /\ freec I v = freec I m + j.
Proof.
  intros Hj v.
  assert (Hv : In v (visible_from n I m)) by (apply nth_In, Hj).
  apply visible_from_in in Hv as (H1 & H2 & H3).
  split; [exact H1|]. split; [exact H2|]. split; [exact H3|].
  destruct (filter_seq_idx (not_in I) m (n - m) j Hj) as (_ & _ & G). fold (visible_from n I m) in G. fold v in G.
  unfold freec, nvis. replace v with (m + (v - m)) at 1 by lia. rewrite seq_app, filter_app, app_length.
  simpl. f_equal. exact G.
Qed.

Lemma visible_from_map_mode {K : Type} (c : circ (K:=K)) (mode : Z) (m : nat) :
  NoDup (c_int c) -> mode_ok c (map_mode (c_int c) mode) = Ok m ->
  forall j, j < length (visible_from (c_n c) (c_int c) m) ->
    nth j (visible_from (c_n c) (c_int c) m) 0 = Z.to_nat (map_mode (c_int c) (mode + Z.of_nat j)).
Proof.
  intros Hn Hm j Hj.
  destruct (visible_from_rank _ _ _ _ Hj) as (_ & _ & Hv & Hf).
  set (v := nth j (visible_from (c_n c) (c_int c) m) 0) in *.
  assert (E0 : map_mode (c_int c) mode = Z.of_nat m).
  { unfold mode_ok, in_range in Hm.
    destruct ((0 <=? map_mode (c_int c) mode)%Z && (map_mode (c_int c) mode <? Z.of_nat (c_n c))%Z) eqn:E; [|discriminate].
    injection Hm as <-. apply andb_true_iff in E as [E1 _]. apply Z.leb_le in E1. lia. }
  destruct (map_mode_spec (c_int c) mode Hn) as (_ & S0 & _). cbv zeta in S0. rewrite E0 in S0.
  rewrite below_freec in S0 by exact Hn.
  destruct (map_mode_spec (c_int c) (mode + Z.of_nat j) Hn) as (R1 & R2 & R3). cbv zeta in R1, R2, R3.
  set (r := map_mode (c_int c) (mode + Z.of_nat j)) in *.
  assert (Hr : (0 <= r)%Z) by lia.
  assert (Er : r = Z.of_nat (Z.to_nat r)) by lia.
  rewrite Er in R2. rewrite below_freec in R2 by exact Hn.
  apply (freec_inj (c_int c)).
  - exact Hv.
  - intros Hin. apply (R1 _ Hin). lia.
  - lia.
Qed.

(* ---------- the order-preserving part of the wiring (pure index arithmetic) ---------- *)
Lemma sigma_enum n (outs ins : list nat) (sw : dict) :
  NoDup outs -> length outs = length ins ->
  (forall x, In x outs -> x < n) -> (forall x, In x ins -> x < n) ->
  wf_swaps n sw ->
  (forall k, k < length outs -> swap_fun sw (nth k outs 0) = nth k ins 0) ->
  (forall i, i < n -> ~ In i outs -> swap_fun sw i < n /\ ~ In (swap_fun sw i) ins) ->
  (forall i j, i < j -> j < n -> ~ In i outs -> ~ In j outs -> swap_fun sw i < swap_fun sw j) ->
  (forall i, n <= i -> swap_fun sw i = i) ->
  forall j, j < n - length outs ->
    swap_fun sw (nth j (open_modes_of n outs) 0) = nth j (open_modes_of n ins) 0.
Proof.
  intros Hno Hlen Hob Hib Hw H2 H3 H4 H5 j Hj.
  apply (incr_enum (open_modes_of n outs) (open_modes_of n ins) (swap_fun sw)).
  - apply sasc_filter_seq.
  - apply sasc_filter_seq.
  - intros a Ha. apply open_modes_in in Ha as [Ha1 Ha2]. apply open_modes_in. apply H3; assumption.
  - intros a a' Ha Ha' Hlt. apply open_modes_in in Ha as [Ha1 Ha2]. apply open_modes_in in Ha' as [Hb1 Hb2].
    apply H4; assumption.
  - intros b a Hb Ha Hlt. apply open_modes_in in Hb as [Hb1 Hb2].
    destruct (perm_on_surj n (swap_fun sw) b (wf_swaps_perm_on n sw Hw)) as (a' & Ea).
    exists a'. split; [|exact Ea]. apply open_modes_in.
    assert (Ha' : a' < n).
    { destruct (lt_dec a' n) as [Hl|Hl]; [exact Hl|]. rewrite H5 in Ea by lia. lia. }
    split; [exact Ha'|]. intros Hin. apply (In_nth _ _ 0) in Hin as (k & Hk & Ek).
    apply Hb2. rewrite <- Ea, <- Ek, H2 by exact Hk. apply nth_In. lia.
  - rewrite open_modes_length by assumption. exact Hj.
Qed.

Lemma wiring_enum (m nP nS : nat) (I ins ts : list nat) :
  let H2 := map (mins ts) ins in
  let n2 := nS + length ts in
  let h := length ins in
  NoDup ins -> (forall k, In k ins -> k < nS) ->
  (forall j, j < length ts -> nth j ts 0 < nS + j) ->
  m + n2 <= nP + h ->
  (forall p, p < n2 -> (forall y, mins ts y <> p) ->
     exists i, In i I /\ m <= i /\ ~ In p H2 /\ freec H2 p = i - m) ->
  (forall i, In i I -> m <= i ->
     (exists p, p < n2 /\ ~ In p H2 /\ freec H2 p = i - m /\ forall y, mins ts y <> p) \/ n2 - h <= i - m) ->
  let old := oldf m H2 in
  let phi := fun y => mins ts y + m in
  let vis := visible_from nP I m in
  nS - h <= length vis /\
  forall j, j < nS - h -> phi (nth j (open_modes_of nS ins) 0) = old (nth j vis 0).
Proof.
  intros H2 n2 h Hni Hib Hts Hkey HA HB old phi vis.
  assert (Hts' : forall j, j < length ts -> nth j ts 0 <= nS + j) by (intros j Hj; specialize (Hts j Hj); lia).
  assert (Ftop : forall l, mins ts (nS + l) = n2 + l) by (apply mins_top; exact Hts').
  assert (Flt : forall y, y < nS <-> mins ts y < n2).
  { intros y. pose proof (Ftop 0) as F0. rewrite !Nat.add_0_r in F0. split; intros Hy.
    - rewrite <- F0. apply mins_mono, Hy.
    - destruct (lt_dec y nS) as [Hl|Hl]; [exact Hl|exfalso].
      specialize (Ftop (y - nS)). replace (nS + (y - nS)) with y in Ftop by lia. lia. }
  assert (HndH : NoDup H2) by (apply nodup_map_inj; [intros a b; apply WiringRank.mins_inj|exact Hni]).
  assert (HbH : forall k, In k H2 -> k < n2).
  { intros k Hk. apply in_map_iff in Hk as (a & <- & Ha). apply Flt, Hib, Ha. }
  assert (HlH : length H2 = h) by (unfold H2; apply map_length).
  assert (Hfn2 : freec H2 n2 = n2 - h).
  { rewrite <- HlH. apply freec_total; [exact HndH|]. apply Forall_forall. exact HbH. }
  destruct (oldf_spec m H2 HndH) as (Omono & Olow & Orank & Osurj & Ole & Otop). fold old in Omono, Olow, Orank, Osurj, Ole, Otop.
  assert (OnP : old nP = nP + h) by (rewrite <- HlH; apply (Otop n2 nP HbH); lia).
  assert (Omono' : forall a b, a <= b -> old a <= old b).
  { intros a b Hab. destruct (Nat.eq_dec a b) as [->|Hne]; [lia|]. specialize (Omono a b ltac:(lia)). lia. }
  assert (Hphi_inj : forall a b, phi a = phi b -> a = b).
  { intros a b E. unfold phi in E. apply (WiringRank.mins_inj ts). lia. }
  set (A := open_modes_of nS ins). set (B := map old vis).
  assert (HP2 : forall a, In a A -> In (phi a) B).
  { intros a Ha. apply open_modes_in in Ha as [Ha1 Ha2]. apply in_map_iff.
    assert (Hx : mins ts a < n2) by (apply Flt, Ha1).
    assert (HxH : ~ In (mins ts a) H2).
    { intros Hin. apply in_map_iff in Hin as (a' & E & Ha'). apply WiringRank.mins_inj in E. subst a'. contradiction. }
    destruct (Osurj (m + mins ts a)) as (v & Hv & Ev); [lia|replace (m + mins ts a - m) with (mins ts a) by lia; exact HxH|].
    exists v. split; [rewrite Ev; unfold phi; lia|]. apply visible_from_in. split; [exact Hv|]. split.
    - destruct (lt_dec v nP) as [Hl|Hl]; [exact Hl|exfalso]. pose proof (Omono' nP v ltac:(lia)). lia.
    - intros HvI. destruct (Orank v Hv) as (Hge & Hnot & Hfr). rewrite Ev in Hnot, Hfr.
      replace (m + mins ts a - m) with (mins ts a) in Hnot, Hfr by lia.
      destruct (HB v HvI Hv) as [(p & Hp & HpH & Hpf & Hpno)|Hbig].
      + assert (p = mins ts a) by (apply (freec_inj H2); [assumption|assumption|lia]). apply (Hpno a). congruence.
      + pose proof (freec_lt H2 _ _ Hx Hnot) as Hl. lia. }
  assert (HP3 : forall b a, In b B -> In a A -> b < phi a -> exists a', In a' A /\ phi a' = b).
  { intros b a Hb Ha Hlt. apply in_map_iff in Hb as (v & <- & Hv). apply visible_from_in in Hv as (Hv1 & Hv2 & Hv3).
    apply open_modes_in in Ha as [Ha1 Ha2].
    destruct (Orank v Hv1) as (Hge & Hnot & Hfr).
    assert (Hxa : old v - m < mins ts a) by (unfold phi in Hlt; lia).
    assert (Hxn : old v - m < n2) by (apply Flt in Ha1; lia).
    destruct (mins_image_dec ts (old v - m)) as [(y & Ey)|Hno].
    - exists y. split; [|unfold phi; lia]. apply open_modes_in. split.
      + apply Flt. lia.
      + intros Hin. apply Hnot. rewrite <- Ey. apply in_map. exact Hin.
    - exfalso. destruct (HA _ Hxn Hno) as (i & Hi & Hmi & _ & Hfi).
      assert (i = v) by lia. subst i. contradiction. }
  assert (HlA : length A = nS - h) by (apply open_modes_length; assumption).
  assert (HlB : length B = length vis) by (apply map_length).
  assert (Hle : length A <= length B).
  { rewrite <- (map_length phi A). apply NoDup_incl_length.
    - apply nodup_map_inj; [exact Hphi_inj|]. apply sasc_nodup, sasc_filter_seq.
    - intros y Hy. apply in_map_iff in Hy as (a & <- & Ha). apply HP2, Ha. }
  split; [lia|]. intros j Hj.
  rewrite (incr_enum A B phi); try assumption.
  - unfold B. rewrite (nth_indep _ 0 (old 0)) by (rewrite map_length; lia). apply map_nth.
  - apply sasc_filter_seq.
  - apply sasc_map; [exact Omono|apply sasc_filter_seq].
  - intros a a' _ _ Hlt. unfold phi. pose proof (mins_mono ts a a' Hlt). lia.
  - lia.
Qed.

Section WiringP.
  Context {K : Type} {o : ops K} {SRK : StarRing o}.
  Notation T := (@T K).
  Notation co := (co o).
  Notation comp := (@comp K).
  Notation circ := (@circ K).
  Notation mat := (@mat T).
  Notation cadd := (cadd o).
  Notation cadd_list := (cadd_list o).
  Notation embr := (embr (o:=co)).

  (* ---------- duplicate-free swap dictionaries are preserved ---------- *)
  Lemma swnd_aem mode (c : comp) : swnd c -> swnd (aem o mode c).
  Proof.
    induction c as [m1 m2 v cv|m v|m v|ms|sw|m k V|sp m1 m2 hin hout IH] using comp_ind'; intros Hs;
      try exact Logic.I.
    - simpl. apply DisplayP.dict_of_nodup.
    - cbn [aem]. destruct (_ && _); exact Logic.I.
    - cbn [aem]. apply swnd_group. apply swnd_group in Hs.
      rewrite Forall_forall in *. intros y Hy. apply in_map_iff in Hy as (x & <- & Hx). apply IH; auto.
  Qed.
  Lemma swnd_shift d (c : comp) : swnd c -> swnd (shift_comp d c).
  Proof.
    induction c as [m1 m2 v cv|m v|m v|ms|sw|m k V|sp m1 m2 hin hout IH] using comp_ind'; intros Hs;
      try exact Logic.I.
    - simpl. apply DisplayP.dict_of_nodup.
    - cbn [shift_comp]. apply swnd_group. apply swnd_group in Hs.
      rewrite Forall_forall in *. intros y Hy. apply in_map_iff in Hy as (x & <- & Hx). apply IH; auto.
  Qed.
  Lemma swnd_aem_spec mode (sp : list comp) : Forall swnd sp -> Forall swnd (aem_spec o mode sp).
  Proof.
    unfold aem_spec. rewrite !Forall_forall. intros H y Hy. apply in_map_iff in Hy as (x & <- & Hx). apply swnd_aem, H, Hx.
  Qed.
  Lemma swnd_shift_spec d (sp : list comp) : Forall swnd sp -> Forall swnd (shift_spec d sp).
  Proof.
    unfold shift_spec. rewrite !Forall_forall. intros H y Hy. apply in_map_iff in Hy as (x & <- & Hx). apply swnd_shift, H, Hx.
  Qed.
  Lemma swnd_unpack (sp : list comp) : Forall swnd sp -> Forall swnd (unpack_spec sp).
  Proof.
    unfold unpack_spec. induction 1 as [|c sp Hc _ IH]; simpl; [constructor|].
    apply Forall_app. split; [|exact IH].
    destruct c; try (constructor; [exact Hc|constructor]). apply swnd_group in Hc. exact Hc.
  Qed.
  Lemma swnd_fold_aem ts (sp : list comp) : Forall swnd sp ->
    Forall swnd (fold_left (fun s t => aem_spec o t s) ts sp).
  Proof. revert sp. induction ts as [|t ts IH]; intros sp H; simpl; [exact H|]. apply IH, swnd_aem_spec, H. Qed.
  Lemma wf_swnd e N (c : comp) : wf (o:=o) e N c -> swnd c.
  Proof.
    induction c as [m1 m2 v cv|m v|m v|ms|sw|m k V|sp m1 m2 hin hout IH] using comp_ind'; intros H;
      try exact Logic.I.
    - inversion H; subst. simpl. match goal with Hs : wf_swaps _ _ |- _ => apply Hs end.
    - inversion H; subst. apply swnd_group. rewrite Forall_forall in *. intros x Hx. apply IH; auto.
  Qed.

  (* ---------- iterated insertion ---------- *)
  Lemma fok_comp f g n n' n'' : fok f n n' -> fok g n' n'' -> fok (fun i => g (f i)) n n''.
  Proof.
    intros [Hfi Hfb] [Hgi Hgb]. split.
    - intros a b E. apply Hfi, Hgi, E.
    - intros l i. rewrite (Hfb l i). apply Hgb.
  Qed.

  Lemma fok_mins ts n : (forall j, j < length ts -> nth j ts 0 <= n + j) -> fok (mins ts) n (n + length ts).
  Proof.
    revert n. induction ts as [|t ts IH]; intros n H.
    - simpl. rewrite Nat.add_0_r. split; [intros a b E; exact E|]. intros l i. unfold mins. simpl. reflexivity.
    - assert (Ht : t <= n) by (specialize (H 0 ltac:(simpl; lia)); simpl in H; lia).
      assert (H' : forall j, j < length ts -> nth j ts 0 <= S n + j).
      { intros j Hj. specialize (H (S j) ltac:(simpl; lia)). simpl in H. lia. }
      pose proof (fok_comp _ _ _ _ _ (fok_bump t n Ht) (IH (S n) H')) as G.
      simpl length. replace (n + S (length ts)) with (S n + length ts) by lia. exact G.
  Qed.

  Lemma aem_list_compile e ts : forall (sp0 : list comp) n n2 U0,
    (forall j, j < length ts -> nth j ts 0 <= n + j) -> Forall swnd sp0 ->
    cadd_list e sp0 (Ok (n, mid co)) = Ok (n2, U0) ->
    exists U', cadd_list e (fold_left (fun s t => aem_spec o t s) ts sp0) (Ok (n + length ts, mid co))
               = Ok (n2 + length ts, U') /\
               embr (mins ts) n2 (n2 + length ts) U0 U'.
  Proof.
    induction ts as [|t ts IH]; intros sp0 n n2 U0 Hts Hs H.
    - simpl. rewrite !Nat.add_0_r. exists U0. split; [exact H|].
      split; [intros i j _ _; reflexivity|]. intros x y Hx _ Hno. exfalso. apply (Hno x Hx). reflexivity.
    - assert (Ht : t <= n) by (specialize (Hts 0 ltac:(simpl; lia)); simpl in Hts; lia).
      assert (Hts' : forall j, j < length ts -> nth j ts 0 <= S n + j).
      { intros j Hj. specialize (Hts (S j) ltac:(simpl; lia)). simpl in Hts. lia. }
      pose proof (cadd_list_dim e sp0 _ _ _ _ H) as Hd.
      destruct (aem_compile_gen e t sp0 n n2 (mid co) (mid co) U0 Hs Ht) as (U1 & E1 & R1); [|exact H|].
      { apply embr_mid. apply fok_finj, fok_bump, Ht. }
      destruct (IH (aem_spec o t sp0) (S n) (S n2) U1 Hts' (swnd_aem_spec t sp0 Hs) E1) as (U' & E2 & R2).
      exists U'. simpl fold_left. simpl length.
      replace (n + S (length ts)) with (S n + length ts) by lia.
      replace (n2 + S (length ts)) with (S n2 + length ts) by lia.
      split; [exact E2|].
      apply (embr_comp (bump t) (mins ts) n2 (S n2) (S n2 + length ts) U0 U1 U'); try assumption.
      + apply fok_finj, fok_bump. lia.
      + apply fok_finj, fok_mins. intros j Hj. specialize (Hts' j Hj). lia.
  Qed.

  (* ---------- Layer 2 with clean dimensions ---------- *)
  Lemma shift_compile0 e d n N (sp : list comp) n2 U2 :
    Forall (cwf n) sp -> Forall swnd sp -> d + n <= N ->
    cadd_list e sp (Ok (n, mid co)) = Ok (n2, U2) ->
    exists M, cadd_list e (shift_spec d sp) (Ok (N, mid co)) = Ok (N + (n2 - n), M) /\
              embr (fsh n d N) n2 (N + (n2 - n)) U2 M.
  Proof.
    intros Hc Hs Hle H.
    destruct (shift_compile_gen e d n N 0 sp (mid co) (mid co) n2 U2 Hc Hs Hle) as (l2 & M & E1 & E2 & R).
    - rewrite !Nat.add_0_r. apply embr_mid, fok_finj, fok_fsh, Hle.
    - rewrite Nat.add_0_r. exact H.
    - rewrite !Nat.add_0_r in *. subst n2. replace (n + l2 - n) with l2 by lia. exists M. split; assumption.
  Qed.

  (* ---------- the output permutation appended to the sub-circuit ---------- *)
  Lemma swaps_step e (sp : list comp) n nl US (sw : dict) :
    wf_swaps n sw -> n <= nl ->
    cadd_list e sp (Ok (n, mid co)) = Ok (nl, US) ->
    exists U0, cadd_list e (sp ++ [Swaps sw]) (Ok (n, mid co)) = Ok (nl, U0) /\
               forall i j, i < nl -> j < nl -> U0 (swap_fun sw i) j = US i j.
  Proof.
    intros Hw Hle H. rewrite cadd_list_app, H. simpl. eexists. split; [reflexivity|].
    intros i j Hi Hj.
    destruct (perm_on_bij n nl (swap_fun sw) (wf_swaps_perm_on n sw Hw) Hle) as (q & Hb & _ & _).
    pose proof Hb as (Hp & Hq & Hqp & Hpq).
    rewrite tab_spec by (try apply Hp; assumption).
    unfold swaps_mat. rewrite (perm_mul_l nl (swap_fun sw) q US Hb) by (try apply Hp; assumption).
    rewrite Hqp by assumption. reflexivity.
  Qed.

  (* ---------- the sub-circuit with its output permutation ---------- *)
  Lemma sub_side e (w : circ) nSl US :
    WFH w -> length (c_in w) = length (c_out w) -> Forall swnd (c_spec w) ->
    cadd_list e (c_spec w) (Ok (c_n w, mid co)) = Ok (nSl, US) ->
    let outs := dkeys (c_out w) in let ins := dkeys (c_in w) in
    let swaps := complete_swaps (c_n w) 0 (dict_of (combine outs ins)) 0 [] in
    let sp0 := if list_eqb (dkeys swaps) (dvals swaps) then c_spec w else c_spec w ++ [Swaps swaps] in
    exists U0, cadd_list e sp0 (Ok (c_n w, mid co)) = Ok (nSl, U0) /\ Forall swnd sp0 /\
               forall i j, i < nSl -> j < nSl -> U0 (swap_fun swaps i) j = US i j.
  Proof.
    intros ([Hs Hi Ho Hxi Hxo Hint Hnd] & Hni & Hno) Hlen Hsw H outs ins swaps sp0.
    assert (Hlen' : length outs = length ins) by (unfold outs, ins, dkeys; rewrite !map_length; lia).
    destruct (complete_swaps_spec (c_n w) outs ins Hno Hni Hlen') as (Hw & _).
    { intros x Hx. exact (lt_all_in _ _ _ Ho Hx). }
    { intros x Hx. exact (lt_all_in _ _ _ Hi Hx). }
    fold swaps in Hw. pose proof (cadd_list_dim e _ _ _ _ _ H) as Hd.
    subst sp0. destruct (list_eqb (dkeys swaps) (dvals swaps)) eqn:E.
    - exists US. split; [exact H|]. split; [exact Hsw|]. intros i j _ _.
      rewrite (swaps_keys_eq_vals_id swaps); [reflexivity|apply Hw|apply list_eqb_true, E].
    - destruct (swaps_step e (c_spec w) (c_n w) nSl US swaps Hw ltac:(lia) H) as (U0 & E0 & HU0).
      exists U0. split; [exact E0|]. split; [|exact HU0].
      apply Forall_app. split; [exact Hsw|]. constructor; [|constructor]. simpl. apply Hw.
  Qed.

  Lemma old_avoid m H i k : NoDup H -> In k H -> oldf m H i <> k + m.
  Proof.
    intros Hn Hk E. destruct (oldf_spec m H Hn) as (_ & Olow & Orank & _).
    destruct (lt_dec i m) as [Hl|Hl]; [rewrite Olow in E by exact Hl; lia|].
    destruct (Orank i ltac:(lia)) as (_ & Hnot & _). apply Hnot. rewrite E.
    replace (k + m - m) with k by lia. exact Hk.
  Qed.

  (* ---------- Layer 4: the wiring theorem ---------- *)
  Theorem add_wiring e (c sub c' : circ) mode g lP UP lS US :
    WFH c -> WFH sub -> 1 <= c_n sub ->
    Forall swnd (c_spec c) -> Forall swnd (c_spec sub) ->
    length (c_in sub) = length (c_out sub) ->
    op_add o c sub mode g = Ok c' ->
    build o e c = Ok (c_n c + lP, UP) -> build o e sub = Ok (c_n sub + lS, US) ->
    let nP := c_n c in let nS := c_n sub in let h := length (c_in sub) in let nR := nP + h in
    let ins := dkeys (c_in sub) in let outs := dkeys (c_out sub) in
    exists (m : nat) (old loc phi_in phi_out : nat -> nat) (UR E iP : mat),
      mode_ok c (map_mode (c_int c) mode) = Ok m /\ m < nP /\ ~ In m (c_int c) /\
      c_n c' = nR /\ build o e c' = Ok (nR + lP + lS, UR) /\
      (forall a b, a < b -> old a < old b) /\ (forall i, i < nP -> old i < nR) /\
      (forall l, old (nP + l) = nR + l) /\ (forall i, i < m -> old i = i) /\
      (forall k, k < h -> loc k < nR /\ forall i, old i <> loc k) /\
      (forall k k', k < h -> k' < h -> loc k = loc k' -> k = k') /\
      Permutation (c_int c') (map old (c_int c) ++ map loc (seq 0 h)) /\
      c_in c' = map (fun kv => (old (fst kv), snd kv)) (c_in c) ++ map (fun kv => (phi_in (fst kv), snd kv)) (c_in sub) /\
      c_out c' = map (fun kv => (old (fst kv), snd kv)) (c_out c) ++ map (fun kv => (phi_in (fst kv), snd kv)) (c_in sub) /\
      (forall k, k < h -> phi_in (nth k ins 0) = loc k /\ phi_out (nth k outs 0) = loc k) /\
      nS - h <= length (visible_from nP (c_int c) m) /\
      (forall j, j < nS - h ->
         phi_in (nth j (open_modes_of nS ins) 0) = old (nth j (visible_from nP (c_int c) m) 0) /\
         phi_out (nth j (open_modes_of nS outs) 0) = old (nth j (visible_from nP (c_int c) m) 0)) /\
      (forall l, phi_in (nS + l) = nR + lP + l /\ phi_out (nS + l) = nR + lP + l) /\
      (forall i, i < nS + lS -> phi_in i < nR + lP + lS /\ phi_out i < nR + lP + lS) /\
      (forall i j, i < nS + lS -> j < nS + lS -> (phi_in i = phi_in j -> i = j) /\ (phi_out i = phi_out j -> i = j)) /\
      (forall i j, i < nS + lS -> j < nS + lS -> E (phi_out i) (phi_in j) = US i j) /\
      (forall x y, x < nR + lP + lS -> y < nR + lP + lS -> (forall i, i < nS + lS -> phi_in i <> x) ->
                   E x y = mid co x y /\ E y x = mid co y x) /\
      (forall x, (forall i, i < nS + lS -> phi_in i <> x) <-> (forall i, i < nS + lS -> phi_out i <> x)) /\
      (forall i, In i (c_int c) -> forall i', i' < nS + lS -> phi_in i' <> old i) /\
      (forall i j, i < nP + lP -> j < nP + lP -> iP (old i) (old j) = UP i j) /\
      (forall x y, x < nR + lP + lS -> y < nR + lP + lS -> (forall i, i < nP + lP -> old i <> x) ->
                   iP x y = mid co x y /\ iP y x = mid co y x) /\
      meq (nR + lP + lS) UR (mmul co (nR + lP + lS) E iP) /\
      WFH c' /\ Forall swnd (c_spec c').
  Proof.
    intros Hc Hsub Hn1 Hsc Hss Hlen Hadd HbP HbS. cbv zeta.
    pose proof (WFH_op_add o c sub mode g c' Hc Hsub Hn1 Hadd) as [HWc' _].
    unfold build in HbP, HbS.
    destruct (cadd_list e (c_spec c) (Ok (c_n c, mid co))) as [[nP1 UP1]|] eqn:EP; [|discriminate].
    injection HbP as -> ->.
    destruct (cadd_list e (c_spec sub) (Ok (c_n sub, mid co))) as [[nS1 US1]|] eqn:ES; [|discriminate].
    injection HbS as -> ->.
    rewrite op_add_eq in Hadd. unfold op_add' in Hadd.
    destruct (mode_ok c (map_mode (c_int c) mode)) as [m|] eqn:Em; cbn [bind] in Hadd; [|discriminate].
    pose proof (mode_ok_lt' c _ _ Em) as Hm. cbv zeta in Hadd.
    set (g' := g || negb (length (c_in (unpack_groups (copy_circ sub))) =? 0)) in *.
    set (w := if g' then unpack_groups (copy_circ sub) else copy_circ sub) in *.
    assert (Hw : WFH w /\ c_n w = c_n sub /\ c_in w = c_in sub /\ c_out w = c_out sub /\ Forall swnd (c_spec w) /\
                 cadd_list e (c_spec w) (Ok (c_n sub, mid co)) = Ok (c_n sub + lS, US)).
    { subst w. destruct g'.
      - destruct Hsub as (Hs & Hni & Hno). split; [split; [apply WF_unpack, Hs|split; assumption]|].
        simpl. repeat split; try reflexivity; [apply swnd_unpack, Hss|]. rewrite unpack_cadd_list. exact ES.
      - unfold copy_circ. split; [exact Hsub|]. repeat split; auto. }
    destruct Hw as (Hw & Hnw & Hiw & How & Hsw & ESw).
    change (fun i : nat => m <=? i) with (Nat.leb m) in Hadd.
    set (cnt := length (filter (Nat.leb m) (c_int c))) in *.
    set (h0 := length (c_in w)) in *.
    destruct (Nat.ltb_spec (c_n c - m - cnt) (c_n w - h0)) as [Hlt|Hsize]; [discriminate|].
    set (swaps := complete_swaps (c_n w) 0 (dict_of (combine (dkeys (c_out w)) (dkeys (c_in w)))) 0 []) in *.
    set (sp0 := if list_eqb (dkeys swaps) (dvals swaps) then c_spec w else c_spec w ++ [Swaps swaps]) in *.
    set (w1 := mkCirc (c_n w) (c_spec w) (c_in w) (c_in w) (c_xin w) (c_xin w) (c_int w)) in *.
    pose proof Hw as ([Hws Hwi Hwo Hwxi Hwxo Hwint Hwnd] & Hwni & Hwno).
    pose proof Hc as ([Hcs Hci Hco Hcxi Hcxo Hcint Hcnd] & Hcni & Hcno).
    assert (Hh0 : h0 = length (c_in sub)) by (unfold h0; rewrite Hiw; reflexivity).
    assert (Hlins : length (dkeys (c_in w)) = h0) by (unfold dkeys; apply map_length).
    assert (Hlen' : length (dkeys (c_out w)) = length (dkeys (c_in w))).
    { unfold dkeys. rewrite !map_length, Hiw, How. lia. }
    (* the sub-circuit and its output permutation *)
    pose proof (sub_side e w (c_n sub + lS) US Hw) as HS. cbv zeta in HS. fold swaps in HS. fold sp0 in HS.
    destruct HS as (U0 & E0 & Hs0 & HU0); [rewrite Hiw, How; exact Hlen|exact Hsw|rewrite Hnw; exact ESw|].
    pose proof (complete_swaps_spec (c_n w) (dkeys (c_out w)) (dkeys (c_in w)) Hwno Hwni Hlen'
                  (fun x Hx => lt_all_in _ _ _ Hwo Hx) (fun x Hx => lt_all_in _ _ _ Hwi Hx)) as HCS.
    cbv zeta in HCS. fold swaps in HCS. destruct HCS as (Hsw1 & Hsw2 & Hsw3 & Hsw4 & Hsw5).
    (* pass-through modes *)
    assert (HPI : PI h0 (w1, sp0)).
    { unfold PI. simpl. repeat split; try assumption. subst sp0.
      destruct (list_eqb (dkeys swaps) (dvals swaps)); [exact Hws|].
      apply Forall_app. split; [exact Hws|]. constructor; [|constructor]. apply swaps_cwf, Hw. }
    destruct (pass_fold_inv o h0 m (sort_nat (c_int c)) (w1, sp0) HPI) as [HPI2 Hcount].
    destruct (fold_left (pass_step o m) (sort_nat (c_int c)) (w1, sp0)) as [w2 sp] eqn:Ef.
    destruct HPI2 as (Hsp & Hk2 & Hn2 & Hl2). simpl in Hsp, Hk2, Hn2, Hl2, Hcount.
    rewrite (filter_perm_length (Nat.leb m) _ _ (sort_nat_perm (c_int c))) in Hcount. fold cnt in Hcount.
    pose proof (count_ge_bound (c_n c) m (c_int c) Hcnd Hcint) as Hcb. fold cnt in Hcb.
    pose proof (keys_length_le (c_n w) (c_in w) Hwni Hwi) as Hh0le. fold h0 in Hh0le.
    assert (Hkey : m + c_n w2 <= c_n c + h0) by lia.
    destruct (pass_fold_spec o m (c_int c) w1 sp0 w2 sp Hcnd) as (ts & Hts1 & Hts2 & Hts3 & Hts4 & HtsAB);
      [exact Hwni|intros k Hk; exact (lt_all_in _ _ _ Hwi Hk)|exact Ef|].
    cbv zeta in HtsAB. destruct HtsAB as [HtsA HtsB].
    change (c_n w1) with (c_n w) in *. change (c_in w1) with (c_in w) in *.
    assert (HH2 : dkeys (c_in w2) = map (mins ts) (dkeys (c_in w))) by (rewrite Hts3; apply dkeys_map_key).
    assert (Hts4' : forall j, j < length ts -> nth j ts 0 <= c_n w + j) by (intros j Hj; specialize (Hts4 j Hj); lia).
    (* the parent loops *)
    pose proof (parent_fold_spec o m c (dkeys (c_in w2)) Hn2 Hcni Hcno) as HPF. cbv zeta in HPF.
    set (c1 := fold_left (parent_step o m) (sort_nat (dkeys (c_in w2))) c) in *.
    destruct HPF as (Hp1 & Hp2 & Hp3 & Hp4 & Hp5).
    assert (HlH2 : length (dkeys (c_in w2)) = h0) by (unfold dkeys; rewrite map_length; exact Hl2).
    pose proof (herald_fold_spec m (c_in w2) c1 Hn2) as HHF. cbv zeta in HHF.
    set (c2 := fold_left (herald_step m) (c_in w2) c1) in *.
    destruct HHF as (Hh1 & Hh2 & Hh3 & Hh4 & Hh5).
    { intros k Hk. rewrite Hp4, Hp5, !dkeys_map_key.
      split; intros Hin; apply in_map_iff in Hin as (i & Ei & _); exact (old_avoid m _ i k Hn2 Hk Ei). }
    assert (Hres : c_n c' = c_n c2 /\ c_int c' = c_int c2 /\ c_in c' = c_in c2 /\ c_out c' = c_out c2 /\
                   (forall st, cadd_list e (c_spec c') st = cadd_list e (shift_spec m sp) (cadd_list e (c_spec c2) st)) /\
                   (Forall swnd (c_spec c2) -> Forall swnd (shift_spec m sp) -> Forall swnd (c_spec c'))).
    { destruct g'; injection Hadd as <-; simpl; repeat split.
      - intros st. rewrite cadd_list_app, cadd_list_cons, cadd_group. reflexivity.
      - intros G1 G2. apply Forall_app. split; [exact G1|]. constructor; [|constructor]. apply swnd_group. exact G2.
      - intros st. rewrite cadd_list_app. reflexivity.
      - intros G1 G2. apply Forall_app. split; assumption. }
    destruct Hres as (Hr1 & Hr2 & Hr3 & Hr4 & Hr5 & Hr6).
    (* compiling the three pieces *)
    set (hs := map (fun hm => m + hm) (sort_nat (dkeys (c_in w2)))) in *.
    assert (Hlh : length hs = h0) by (unfold hs; rewrite map_length, sort_length; exact HlH2).
    assert (Hhs : forall j, j < length hs -> nth j hs 0 <= c_n c + j).
    { intros j Hj. rewrite Hlh in Hj. unfold hs.
      rewrite (nth_indep _ 0 (m + 0)) by (rewrite map_length, sort_length, HlH2; exact Hj).
      rewrite (map_nth (fun hm => m + hm)).
      pose proof (ascl_nth_bound (c_n w2) (sort_nat (dkeys (c_in w2))) (sort_ascl _) (sort_nodup _ Hn2)) as Hb.
      rewrite sort_length, HlH2 in Hb. specialize (Hb ltac:(apply Forall_forall; intros y Hy; apply (proj1 (sort_in _ _)) in Hy; exact (lt_all_in _ _ _ Hk2 Hy)) j Hj).
      lia. }
    destruct (aem_list_compile e hs (c_spec c) (c_n c) (c_n c + lP) UP Hhs Hsc EP) as (UP' & EP' & RP).
    rewrite <- Hp2, Hlh in EP'. rewrite Hlh in RP.
    destruct (aem_list_compile e ts sp0 (c_n w) (c_n sub + lS) U0 Hts4' Hs0 E0) as (Uw & Ew & Rw).
    rewrite <- Hts2, <- Hts1 in Ew.
    assert (Hsps : Forall swnd sp) by (rewrite Hts2; apply swnd_fold_aem, Hs0).
    destruct (shift_compile0 e m (c_n w2) (c_n c + lP + h0) sp (c_n sub + lS + length ts) Uw Hsp Hsps ltac:(lia) Ew) as (M & EM & RM).
    replace (c_n sub + lS + length ts - c_n w2) with lS in EM, RM by lia.
    destruct (cadd_list_onto e (shift_spec m sp) (c_n c + lP + h0) UP' _ M EM) as (UR & EUR & HUR).
    set (D := c_n c + length (c_in sub) + lP + lS).
    assert (HD : c_n c + lP + h0 + lS = D) by (unfold D; lia).
    rewrite HD in *.
    (* index maps *)
    set (H2 := dkeys (c_in w2)) in *.
    set (old := oldf m H2).
    set (phi_in := fun y => fsh (c_n w2) m (c_n c + lP + h0) (mins ts y)).
    set (phi_out := fun y => phi_in (swap_fun swaps y)).
    set (loc := fun k => mins ts (nth k (dkeys (c_in sub)) 0) + m).
    destruct (oldf_spec m H2 Hn2) as (Omono & Olow & Orank & Osurj & Ole & Otop). fold old in Omono, Olow, Orank, Osurj, Ole, Otop.
    assert (HbH2 : forall k, In k H2 -> k < c_n w2) by (intros k Hk; exact (lt_all_in _ _ _ Hk2 Hk)).
    assert (Otop' : forall l, old (c_n c + l) = c_n c + h0 + l).
    { intros l. rewrite (Otop (c_n w2) (c_n c + l) HbH2); lia. }
    assert (Hphi_lo : forall y, mins ts y < c_n w2 -> phi_in y = mins ts y + m).
    { intros y Hy. unfold phi_in, fsh. replace (mins ts y <? c_n w2) with true by (symmetry; apply Nat.ltb_lt; exact Hy). reflexivity. }
    assert (Hins_lo : forall a, In a (dkeys (c_in w)) -> mins ts a < c_n w2).
    { intros a Ha. apply HbH2. rewrite HH2. apply in_map, Ha. }
    assert (Ftop : forall l, mins ts (c_n w + l) = c_n w2 + l) by (intros l; rewrite Hts1; apply mins_top; exact Hts4').
    assert (Flo : forall y, y < c_n w -> mins ts y < c_n w2).
    { intros y Hy. pose proof (Ftop 0) as F0. rewrite !Nat.add_0_r in F0. rewrite <- F0. apply mins_mono, Hy. }
    assert (Hphi_hi : forall l, phi_in (c_n w + l) = c_n c + lP + h0 + l).
    { intros l. unfold phi_in, fsh. rewrite Ftop.
      replace (c_n w2 + l <? c_n w2) with false by (symmetry; apply Nat.ltb_ge; lia). lia. }
    (* sigma is a bijection of the compiled sub-circuit's modes *)
    destruct (perm_on_bij (c_n w) (c_n sub + lS) (swap_fun swaps) (wf_swaps_perm_on _ _ Hsw1) ltac:(lia)) as (sq & Hbij & _ & _).
    pose proof Hbij as (Hsp1 & Hsq1 & Hsqp & Hspq).
    (* composed embedding of the sub-circuit *)
    assert (Hf1 : finj (mins ts) (c_n sub + lS) (c_n sub + lS + length ts)).
    { apply fok_finj, fok_mins. intros j Hj. specialize (Hts4' j Hj). lia. }
    assert (Hf2 : finj (fsh (c_n w2) m (c_n c + lP + h0)) (c_n sub + lS + length ts) D).
    { pose proof (fok_plus _ _ _ lS (fok_fsh (c_n w2) m (c_n c + lP + h0) ltac:(lia))) as G.
      replace (c_n w2 + lS) with (c_n sub + lS + length ts) in G by lia. rewrite HD in G. apply fok_finj, G. }
    pose proof (finj_comp _ _ _ _ _ Hf1 Hf2) as [Hf3 Hf4].
    assert (RE : embr (fun i => fsh (c_n w2) m (c_n c + lP + h0) (mins ts i)) (c_n sub + lS) D U0 M).
    { apply (embr_comp (mins ts) (fsh (c_n w2) m (c_n c + lP + h0)) (c_n sub + lS) (c_n sub + lS + length ts) D U0 Uw M);
        assumption. }
    destruct RE as [RE1 RE2].
    destruct RP as [RP1 RP2].
    assert (Hold_lo : forall i, i < c_n c + lP -> old i < c_n c + lP + h0).
    { intros i Hi. pose proof (fok_mins hs (c_n c + lP) ltac:(intros j Hj; specialize (Hhs j Hj); lia)) as G.
      rewrite Hlh in G. apply (fok_lo _ _ _ i G Hi). }
    exists m, old, loc, phi_in, phi_out, UR, M, (pad co (c_n c + lP + h0) UP').
    split; [reflexivity|].
    split; [exact Hm|].
    split; [exact (mode_ok_not_ancilla c mode m Hcnd Em)|].
    split; [rewrite Hr1, Hh1, Hp1; fold H2; lia|].
    split.
    { unfold build. rewrite Hr5, Hh2, Hr1, Hh1, Hp1. fold H2. rewrite HlH2.
      replace (c_n c + h0) with (c_n c + h0) by reflexivity. rewrite EP'.
      replace (c_n c + lP + h0) with (c_n c + lP + h0) by reflexivity. rewrite EUR. f_equal. }
    split; [exact Omono|].
    split; [intros i Hi; rewrite <- Hh0; pose proof (Otop' 0) as G; rewrite !Nat.add_0_r in G; rewrite <- G; apply Omono, Hi|].
    split; [intros l; rewrite <- Hh0; apply Otop'|].
    split; [exact Olow|].
    split.
    { intros k Hk. unfold loc. rewrite <- Hh0 in Hk |- *. rewrite <- Hiw.
      assert (Hin : In (nth k (dkeys (c_in w)) 0) (dkeys (c_in w))) by (apply nth_In; lia).
      split; [specialize (Hins_lo _ Hin); lia|]. intros i. apply old_avoid; [exact Hn2|].
      rewrite HH2. apply in_map, Hin. }
    split.
    { intros k k' Hk Hk' E. unfold loc in E. rewrite <- Hh0, <- Hlins in Hk, Hk'. rewrite <- Hiw in E.
      apply (proj1 (NoDup_nth (dkeys (c_in w)) 0) Hwni k k' Hk Hk'). apply (WiringRank.mins_inj ts). lia. }
    split.
    { rewrite Hr2, Hh3, Hp3. fold H2. fold old. apply Permutation_app_head.
      rewrite <- Hh0, <- Hlins.
      replace (map loc (seq 0 (length (dkeys (c_in w))))) with (map (fun x => x + m) H2).
      - apply Permutation_trans with (map (fun hm => m + hm) H2); [apply Permutation_map, sort_nat_perm|].
        rewrite (map_ext (fun hm => m + hm) (fun x => x + m)) by (intros; lia). apply Permutation_refl.
      - rewrite HH2, map_map. unfold loc. rewrite <- Hiw.
        rewrite <- (map_nth_seq (dkeys (c_in w))) at 1. rewrite map_map. reflexivity. }
    assert (Hnew : map (fun kv : nat * nat => (fst kv + m, snd kv)) (c_in w2)
                   = map (fun kv => (phi_in (fst kv), snd kv)) (c_in sub)).
    { rewrite Hts3, map_map, Hiw. apply map_ext_in. intros [a b] Hab. simpl. f_equal. symmetry. apply Hphi_lo, Hins_lo.
      rewrite Hiw. unfold dkeys. apply in_map_iff. exists (a, b). auto. }
    split; [rewrite Hr3, Hh4, Hp4, Hnew; reflexivity|].
    split; [rewrite Hr4, Hh5, Hp5, Hnew; reflexivity|].
    split.
    { intros k Hk. rewrite <- Hh0 in Hk. rewrite <- Hiw, <- How.
      assert (Hin : In (nth k (dkeys (c_in w)) 0) (dkeys (c_in w))) by (apply nth_In; lia).
      split; [unfold loc; rewrite <- Hiw; apply Hphi_lo, Hins_lo, Hin|].
      unfold phi_out. rewrite Hsw2 by lia. unfold loc. rewrite <- Hiw. apply Hphi_lo, Hins_lo, Hin. }
    destruct (wiring_enum m (c_n c) (c_n w) (c_int c) (dkeys (c_in w)) ts) as [WE1 WE2];
      try assumption.
    { intros k Hk. exact (lt_all_in _ _ _ Hwi Hk). }
    { rewrite Hlins. lia. }
    { rewrite <- HH2, <- Hts1. exact HtsA. }
    { rewrite <- HH2, <- Hts1, Hlins. exact HtsB. }
    rewrite Hlins in WE1, WE2. rewrite <- HH2 in WE2. fold old in WE2.
    rewrite <- Hnw, <- Hiw, <- How. fold h0.
    split; [exact WE1|].
    split.
    { intros j Hj.
      assert (HA : In (nth j (open_modes_of (c_n w) (dkeys (c_in w))) 0) (open_modes_of (c_n w) (dkeys (c_in w)))).
      { apply nth_In. rewrite open_modes_length; [lia|exact Hwni|intros x Hx; exact (lt_all_in _ _ _ Hwi Hx)]. }
      apply open_modes_in in HA as [HA1 HA2].
      assert (G : phi_in (nth j (open_modes_of (c_n w) (dkeys (c_in w))) 0) = old (nth j (visible_from (c_n c) (c_int c) m) 0)).
      { rewrite Hphi_lo by (apply Flo, HA1). apply WE2, Hj. }
      split; [exact G|]. unfold phi_out.
      rewrite (sigma_enum (c_n w) (dkeys (c_out w)) (dkeys (c_in w)) swaps); try assumption.
      - intros x Hx. exact (lt_all_in _ _ _ Hwo Hx).
      - intros x Hx. exact (lt_all_in _ _ _ Hwi Hx).
      - rewrite Hlen', Hlins. exact Hj. }
    split.
    { intros l. rewrite Hphi_hi. split; [lia|]. unfold phi_out. rewrite Hsw5 by lia. rewrite Hphi_hi. lia. }
    split.
    { intros i Hi. rewrite Hnw in Hi. split; [exact (Hf3 i Hi)|]. unfold phi_out. apply (Hf3 (swap_fun swaps i)), Hsp1, Hi. }
    split.
    { intros i j Hi Hj. rewrite Hnw in Hi, Hj. split; intros E'.
      - exact (Hf4 i j Hi Hj E').
      - unfold phi_out in E'. apply Hf4 in E'; [|apply Hsp1; assumption|apply Hsp1; assumption].
        rewrite <- (Hsqp i Hi), <- (Hsqp j Hj), E'. reflexivity. }
    split.
    { intros i j Hi Hj. unfold phi_out, phi_in. rewrite RE1 by (try apply Hsp1; lia). apply HU0; lia. }
    split.
    { intros x y Hx Hy Hno. apply RE2; try (fold D; assumption). intros i Hi. apply Hno. lia. }
    split.
    { intros x. split; intros Hno i Hi E'.
      - apply (Hno (swap_fun swaps i)); [rewrite Hnw; apply Hsp1; lia|exact E'].
      - apply (Hno (sq i)); [rewrite Hnw; apply Hsq1; lia|]. unfold phi_out. rewrite Hspq by lia. exact E'. }
    split.
    { intros i Hi i' Hi' E'.
      assert (HiP : i < c_n c) by exact (lt_all_in _ _ _ Hcint Hi).
      destruct (lt_dec i' (c_n w)) as [Hl|Hl].
      - destruct (in_dec Nat.eq_dec i' (dkeys (c_in w))) as [Hk|Hk].
        + rewrite Hphi_lo in E' by (apply Hins_lo, Hk).
          apply (old_avoid m H2 i (mins ts i') Hn2); [rewrite HH2; apply in_map, Hk|]. fold old. lia.
        + assert (HA : In i' (open_modes_of (c_n w) (dkeys (c_in w)))) by (apply open_modes_in; split; assumption).
          apply (In_nth _ _ 0) in HA as (j & Hj & Ej).
          rewrite open_modes_length in Hj by (try exact Hwni; intros x Hx; exact (lt_all_in _ _ _ Hwi Hx)).
          rewrite Hlins in Hj.
          rewrite Hphi_lo in E' by (apply Flo, Hl). rewrite <- Ej in E'. rewrite (WE2 j Hj) in E'.
          assert (Hv : In (nth j (visible_from (c_n c) (c_int c) m) 0) (visible_from (c_n c) (c_int c) m)) by (apply nth_In; lia).
          apply visible_from_in in Hv as (_ & _ & Hv3). apply Hv3.
          replace (nth j (visible_from (c_n c) (c_int c) m) 0) with i; [exact Hi|].
          destruct (lt_eq_lt_dec i (nth j (visible_from (c_n c) (c_int c) m) 0)) as [[Hlt|Heq]|Hgt]; [|exact Heq|].
          * specialize (Omono _ _ Hlt). lia.
          * specialize (Omono _ _ Hgt). lia.
      - replace i' with (c_n w + (i' - c_n w)) in E' by lia. rewrite Hphi_hi in E'.
        pose proof (Otop' 0) as G. rewrite Nat.add_0_r in G. specialize (Omono _ _ HiP). lia. }
    split.
    { intros i j Hi Hj. unfold pad.
      replace (old i <? c_n c + lP + h0) with true by (symmetry; apply Nat.ltb_lt, Hold_lo, Hi).
      replace (old j <? c_n c + lP + h0) with true by (symmetry; apply Nat.ltb_lt, Hold_lo, Hj).
      simpl. apply RP1; assumption. }
    split.
    { intros x y Hx Hy Hno. unfold pad.
      destruct (Nat.ltb_spec x (c_n c + lP + h0)) as [Hx'|Hx'], (Nat.ltb_spec y (c_n c + lP + h0)) as [Hy'|Hy'];
        simpl; try (split; reflexivity).
      apply RP2; assumption. }
    split; [exact HUR|].
    split; [exact HWc'|].
    apply Hr6.
    - rewrite Hh2, Hp2. apply swnd_fold_aem, Hsc.
    - apply swnd_shift_spec, Hsps.
  Qed.

  (* ---------- helpers to discharge the hypotheses on concrete circuits ---------- *)
  Lemma build_ok e (c : circ) : vals_ok (o:=o) e (Group (c_spec c) 0 0 [] []) ->
    exists U, build o e c = Ok (c_n c + n_loss_list (c_spec c), U).
  Proof.
    intros H. destruct (cadd_ok e (Group (c_spec c) 0 0 [] []) (c_n c) (mid co) H) as (n' & U' & E).
    rewrite cadd_group in E. pose proof (cadd_list_dim e _ _ _ _ _ E) as Hd. subst n'.
    exists U'. unfold build. rewrite E. reflexivity.
  Qed.

  Fixpoint swndb (c : comp) : bool :=
    match c with
    | Swaps sw => nodupb (dkeys sw)
    | Group sp _ _ _ _ => forallb swndb sp
    | _ => true
    end.
  Lemma swndb_sound (c : comp) : swndb c = true -> swnd c.
  Proof.
    induction c as [m1 m2 v cv|m v|m v|ms|sw|m k V|sp m1 m2 hin hout IH] using comp_ind'; intros H;
      try exact Logic.I.
    - simpl in *. apply nodupb_nodup, H.
    - apply swnd_group. cbn [swndb] in H. rewrite forallb_forall in H.
      rewrite Forall_forall in *. intros x Hx. apply IH; auto.
  Qed.
  Lemma swndb_spec_sound (sp : list comp) : forallb swndb sp = true -> Forall swnd sp.
  Proof. rewrite forallb_forall, Forall_forall. intros H x Hx. apply swndb_sound, H, Hx. Qed.

  (* ---------- Layers 1 and 2 in closed form (from the identity) ---------- *)
  Theorem aem_compile e mode (sp : list comp) n nl U :
    Forall swnd sp -> mode <= n ->
    cadd_list e sp (Ok (n, mid co)) = Ok (nl, U) ->
    exists U', cadd_list e (aem_spec o mode sp) (Ok (S n, mid co)) = Ok (S nl, U') /\
               (forall i j, i < nl -> j < nl -> U' (bump mode i) (bump mode j) = U i j) /\
               (forall x, x < S nl -> U' mode x = mid co mode x /\ U' x mode = mid co x mode).
  Proof.
    intros Hs Hle H. pose proof (cadd_list_dim e sp _ _ _ _ H) as Hd.
    destruct (aem_compile_gen e mode sp n nl (mid co) (mid co) U Hs Hle) as (U' & E & [R1 R2]); [|exact H|].
    { apply embr_mid, fok_finj, fok_bump, Hle. }
    exists U'. split; [exact E|]. split; [exact R1|].
    intros x Hx. apply R2; [lia|exact Hx|]. intros i _. apply bump_ne.
  Qed.

  Theorem shift_compile e d n N l (sp : list comp) U :
    Forall (cwf n) sp -> Forall swnd sp -> d + n <= N ->
    cadd_list e sp (Ok (n, mid co)) = Ok (n + l, U) ->
    let f := fun i => if i <? n then i + d else i - n + N in
    exists M, cadd_list e (shift_spec d sp) (Ok (N, mid co)) = Ok (N + l, M) /\
              (forall i j, i < n + l -> j < n + l -> M (f i) (f j) = U i j) /\
              (forall x y, x < N + l -> y < N + l -> (forall i, i < n + l -> f i <> x) ->
                           M x y = mid co x y /\ M y x = mid co y x).
  Proof.
    intros Hc Hs Hle H f.
    destruct (shift_compile0 e d n N sp (n + l) U Hc Hs Hle H) as (M & E & [R1 R2]).
    replace (n + l - n) with l in * by lia.
    exists M. split; [exact E|]. split; [exact R1|exact R2].
  Qed.
End WiringP.
