(* The matrix-level wiring theorem of Circuit.add (property C02, DESIGN "### C02" Spec):
   the compiled result of an accepted add is  E . iota(U_P)  with the wiring
   described by explicit index maps.  Assembles
     WiringMat   (compile commutes with mode insertion / offsetting / composition),
     WiringSwaps (the swap-completion loop denotes the herald-returning permutation),
     WiringPass  (pass-through modes for the parent's ancillas),
     WiringRank  (the index map of the parent; the two parent loops). *)
From Coq Require Import ZArith List Bool Arith Lia Ring_theory Ring Permutation.
From LW Require Import Base.Sx Base.Num Base.Sums Base.Mat Base.Embed Model.Circuit Model.Display
     Proofs.CompileP Proofs.CircuitP Proofs.RewriteP Proofs.DisplayP
     Proofs.WiringDefs Proofs.WiringMat Proofs.WiringSwaps Proofs.WiringPass Proofs.WiringRank.
Import ListNotations.

(* ---------- list helpers ---------- *)
Lemma map_nth_seq (l : list nat) : map (fun k => nth k l 0) (seq 0 (length l)) = l.
Proof.
  induction l as [|x l IH]; [reflexivity|]. simpl. f_equal.
  rewrite <- seq_shift, map_map. exact IH.
Qed.

Lemma ascl_nth_bound B (L : list nat) : ascl L -> NoDup L -> Forall (fun y => y < B) L ->
  forall j, j < length L -> nth j L 0 + (length L - j) <= B.
Proof.
  induction L as [|x L IH]; intros Ha Hn Hb j Hj; [simpl in Hj; lia|].
  destruct j as [|j].
  - pose proof (ascl_bound B L x Ha Hn Hb). simpl. lia.
  - destruct Ha as [_ Ha]. inversion Hn; subst. inversion Hb; subst. simpl in Hj.
    specialize (IH Ha H2 H4 j ltac:(lia)). simpl. lia.
Qed.

Lemma sasc_nodup l : sasc l -> NoDup l.
Proof.
  induction l as [|x l IH]; intros H; [constructor|]. destruct H as [Hx Hl].
  constructor; [|apply IH, Hl]. intros Hin. specialize (Hx x Hin). lia.
Qed.

Lemma sasc_map (f : nat -> nat) l : (forall a b, a < b -> f a < f b) -> sasc l -> sasc (map f l).
Proof.
  intros Hf. induction l as [|x l IH]; intros H; [exact Logic.I|]. destruct H as [Hx Hl].
  split; [|apply IH, Hl]. intros y Hy. apply in_map_iff in Hy as (z & <- & Hz). apply Hf, Hx, Hz.
Qed.

Lemma not_in_spec l x : not_in l x = true <-> ~ In x l.
Proof.
  unfold not_in. rewrite negb_true_iff. change (existsb (Nat.eqb x) l) with (memb x l).
  split; intros H.
  - intros Hin. apply memb_in in Hin. congruence.
  - destruct (memb x l) eqn:E; [apply memb_in in E; contradiction|reflexivity].
Qed.

Lemma open_modes_in n her x : In x (open_modes_of n her) <-> x < n /\ ~ In x her.
Proof.
  unfold open_modes_of. rewrite filter_In, in_seq, not_in_spec. intuition lia.
Qed.

Lemma open_modes_length n her : NoDup her -> (forall x, In x her -> x < n) ->
  length (open_modes_of n her) = n - length her.
Proof.
  intros Hn Hb. rewrite <- (freec_total her n Hn); [reflexivity|].
  apply Forall_forall. exact Hb.
Qed.

Lemma visible_from_in n internal m x :
  In x (visible_from n internal m) <-> m <= x /\ x < n /\ ~ In x internal.
Proof.
  unfold visible_from. rewrite filter_In, in_seq, not_in_spec. intuition lia.
Qed.

Section WiringP.
  Context {K : Type} {o : ops K} {SRK : StarRing o}.
  Notation T := (@T K).
  Notation co := (co o).
  Notation comp := (@comp K).
  Notation circ := (@circ K).
  Notation mat := (@mat T).
  Notation cadd := (cadd o).
  Notation cadd_list := (cadd_list o).
  Notation embr := (embr (o:=co)).

  (* ---------- duplicate-free swap dictionaries are preserved ---------- *)
  Lemma swnd_aem mode (c : comp) : swnd c -> swnd (aem o mode c).
  Proof.
    induction c as [m1 m2 v cv|m v|m v|ms|sw|m k V|sp m1 m2 hin hout IH] using comp_ind'; intros Hs;
      try exact Logic.I.
    - simpl. apply DisplayP.dict_of_nodup.
    - cbn [aem]. destruct (_ && _); exact Logic.I.
    - cbn [aem]. apply swnd_group. apply swnd_group in Hs.
      rewrite Forall_forall in *. intros y Hy. apply in_map_iff in Hy as (x & <- & Hx). apply IH; auto.
  Qed.
  Lemma swnd_shift d (c : comp) : swnd c -> swnd (shift_comp d c).
  Proof.
    induction c as [m1 m2 v cv|m v|m v|ms|sw|m k V|sp m1 m2 hin hout IH] using comp_ind'; intros Hs;
      try exact Logic.I.
    - simpl. apply DisplayP.dict_of_nodup.
    - cbn [shift_comp]. apply swnd_group. apply swnd_group in Hs.
      rewrite Forall_forall in *. intros y Hy. apply in_map_iff in Hy as (x & <- & Hx). apply IH; auto.
  Qed.
  Lemma swnd_aem_spec mode (sp : list comp) : Forall swnd sp -> Forall swnd (aem_spec o mode sp).
  Proof.
    unfold aem_spec. rewrite !Forall_forall. intros H y Hy. apply in_map_iff in Hy as (x & <- & Hx). apply swnd_aem, H, Hx.
  Qed.
  Lemma swnd_shift_spec d (sp : list comp) : Forall swnd sp -> Forall swnd (shift_spec d sp).
  Proof.
    unfold shift_spec. rewrite !Forall_forall. intros H y Hy. apply in_map_iff in Hy as (x & <- & Hx). apply swnd_shift, H, Hx.
  Qed.
  Lemma swnd_unpack (sp : list comp) : Forall swnd sp -> Forall swnd (unpack_spec sp).
  Proof.
    unfold unpack_spec. induction 1 as [|c sp Hc _ IH]; simpl; [constructor|].
    apply Forall_app. split; [|exact IH].
    destruct c; try (constructor; [exact Hc|constructor]). apply swnd_group in Hc. exact Hc.
  Qed.
  Lemma swnd_fold_aem ts (sp : list comp) : Forall swnd sp ->
    Forall swnd (fold_left (fun s t => aem_spec o t s) ts sp).
  Proof. revert sp. induction ts as [|t ts IH]; intros sp H; simpl; [exact H|]. apply IH, swnd_aem_spec, H. Qed.
  Lemma wf_swnd e N (c : comp) : wf (o:=o) e N c -> swnd c.
  Proof.
    induction c as [m1 m2 v cv|m v|m v|ms|sw|m k V|sp m1 m2 hin hout IH] using comp_ind'; intros H;
      try exact Logic.I.
    - inversion H; subst. simpl. match goal with Hs : wf_swaps _ _ |- _ => apply Hs end.
    - inversion H; subst. apply swnd_group. rewrite Forall_forall in *. intros x Hx. apply IH; auto.
  Qed.

  (* ---------- iterated insertion ---------- *)
  Lemma fok_comp f g n n' n'' : fok f n n' -> fok g n' n'' -> fok (fun i => g (f i)) n n''.
  Proof.
    intros [Hfi Hfb] [Hgi Hgb]. split.
    - intros a b E. apply Hfi, Hgi, E.
    - intros l i. rewrite (Hfb l i). apply Hgb.
  Qed.

  Lemma fok_mins ts n : (forall j, j < length ts -> nth j ts 0 <= n + j) -> fok (mins ts) n (n + length ts).
  Proof.
    revert n. induction ts as [|t ts IH]; intros n H.
    - simpl. rewrite Nat.add_0_r. split; [intros a b E; exact E|]. intros l i. unfold mins. simpl. reflexivity.
    - assert (Ht : t <= n) by (specialize (H 0 ltac:(simpl; lia)); simpl in H; lia).
      assert (H' : forall j, j < length ts -> nth j ts 0 <= S n + j).
      { intros j Hj. specialize (H (S j) ltac:(simpl; lia)). simpl in H. lia. }
      pose proof (fok_comp _ _ _ _ _ (fok_bump t n Ht) (IH (S n) H')) as G.
      simpl length. replace (n + S (length ts)) with (S n + length ts) by lia. exact G.
  Qed.

  Lemma aem_list_compile e ts : forall (sp0 : list comp) n n2 U0,
    (forall j, j < length ts -> nth j ts 0 <= n + j) -> Forall swnd sp0 ->
    cadd_list e sp0 (Ok (n, mid co)) = Ok (n2, U0) ->
    exists U', cadd_list e (fold_left (fun s t => aem_spec o t s) ts sp0) (Ok (n + length ts, mid co))
               = Ok (n2 + length ts, U') /\
               embr (mins ts) n2 (n2 + length ts) U0 U'.
  Proof.
    induction ts as [|t ts IH]; intros sp0 n n2 U0 Hts Hs H.
    - simpl. rewrite !Nat.add_0_r. exists U0. split; [exact H|].
      split; [intros i j _ _; reflexivity|]. intros x y Hx _ Hno. exfalso. apply (Hno x Hx). reflexivity.
    - assert (Ht : t <= n) by (specialize (Hts 0 ltac:(simpl; lia)); simpl in Hts; lia).
      assert (Hts' : forall j, j < length ts -> nth j ts 0 <= S n + j).
      { intros j Hj. specialize (Hts (S j) ltac:(simpl; lia)). simpl in Hts. lia. }
      pose proof (cadd_list_dim e sp0 _ _ _ _ H) as Hd.
      destruct (aem_compile_gen e t sp0 n n2 (mid co) (mid co) U0 Hs Ht) as (U1 & E1 & R1); [|exact H|].
      { apply embr_mid. apply fok_finj, fok_bump, Ht. }
      destruct (IH (aem_spec o t sp0) (S n) (S n2) U1 Hts' (swnd_aem_spec t sp0 Hs) E1) as (U' & E2 & R2).
      exists U'. simpl fold_left. simpl length.
      replace (n + S (length ts)) with (S n + length ts) by lia.
      replace (n2 + S (length ts)) with (S n2 + length ts) by lia.
      split; [exact E2|].
      apply (embr_comp (bump t) (mins ts) n2 (S n2) (S n2 + length ts) U0 U1 U'); try assumption.
      + apply fok_finj, fok_bump. lia.
      + apply fok_finj, fok_mins. intros j Hj. specialize (Hts' j Hj). lia.
  Qed.

  (* ---------- Layer 2 with clean dimensions ---------- *)
  Lemma shift_compile0 e d n N (sp : list comp) n2 U2 :
    Forall (cwf n) sp -> Forall swnd sp -> d + n <= N ->
    cadd_list e sp (Ok (n, mid co)) = Ok (n2, U2) ->
    exists M, cadd_list e (shift_spec d sp) (Ok (N, mid co)) = Ok (N + (n2 - n), M) /\
              embr (fsh n d N) n2 (N + (n2 - n)) U2 M.
  Proof.
    intros Hc Hs Hle H.
    destruct (shift_compile_gen e d n N 0 sp (mid co) (mid co) n2 U2 Hc Hs Hle) as (l2 & M & E1 & E2 & R).
    - rewrite !Nat.add_0_r. apply embr_mid, fok_finj, fok_fsh, Hle.
    - rewrite Nat.add_0_r. exact H.
    - rewrite !Nat.add_0_r in *. subst n2. replace (n + l2 - n) with l2 by lia. exists M. split; assumption.
  Qed.

  (* ---------- the output permutation appended to the sub-circuit ---------- *)
  Lemma swaps_step e (sp : list comp) n nl US (sw : dict) :
    wf_swaps n sw -> n <= nl ->
    cadd_list e sp (Ok (n, mid co)) = Ok (nl, US) ->
    exists U0, cadd_list e (sp ++ [Swaps sw]) (Ok (n, mid co)) = Ok (nl, U0) /\
               forall i j, i < nl -> j < nl -> U0 (swap_fun sw i) j = US i j.
  Proof.
    intros Hw Hle H. rewrite cadd_list_app, H. simpl. eexists. split; [reflexivity|].
    intros i j Hi Hj.
    destruct (perm_on_bij n nl (swap_fun sw) (wf_swaps_perm_on n sw Hw) Hle) as (q & Hb & _ & _).
    pose proof Hb as (Hp & Hq & Hqp & Hpq).
    rewrite tab_spec by (try apply Hp; assumption).
    unfold swaps_mat. rewrite (perm_mul_l nl (swap_fun sw) q US Hb) by (try apply Hp; assumption).
    rewrite Hqp by assumption. reflexivity.
  Qed.
End WiringP.
