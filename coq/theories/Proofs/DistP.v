(* Property C04: the probability distributions of Model/Fock.v
   (Backend.full_probability_distribution for both back ends, pdist_calc) over
   the Coq reals.

   Specification (independent of the loops of the code):
     marg U n l ins k  = total probability of the pattern k on the n circuit
                         modes, summed over every occupation of the l loss modes
                         by the remaining photons;
     margt eps ...     = the same sum with each full state of probability <= eps
                         dropped (the documented per-state truncation);
     pd_val d k        = the value of the dictionary d at k, 0 when k is absent.
   Results: for every matrix, both back ends assign margt eps to every
   non-vacuum pattern; for a unitary matrix and eps = 0 both assign marg to every
   pattern (the vacuum one included); values are >= 0, keys are duplicate-free
   patterns of n modes with at most the injected photons, the total lies in
   [1 - eps * #full states, 1]; the same for pdist_calc on a normalised mixture
   of inputs, whose total is exactly 1 on a lossy circuit. *)
From Coq Require Import ZArith Arith Lia List Bool Permutation Reals Lra.
From LW Require Import Base.Sx Base.Num Base.Sums Base.Mat Base.RInst Model.State Model.Fock
     Proofs.StateP Proofs.PermP Proofs.SlosP Proofs.FockUnitP Proofs.SimP.
Import ListNotations.
Open Scope nat_scope.

(* ------------------------------------------------------------------ *)
(* the specification                                                   *)
(* ------------------------------------------------------------------ *)
Definition pd_keys (d : @pdict R) : list (list nat) := map fst d.
Definition pd_val (d : @pdict R) (k : list nat) : R :=
  match pd_get d k with Some v => v | None => 0%R end.
Definition pd_nonneg (d : @pdict R) : Prop := forall k v, In (k, v) d -> (0 <= v)%R.

(* the probability of pattern k on the circuit modes: sum over all occupations
   lo of the loss modes by the photons that are not in k.  (When k holds more
   photons than ins the subtraction truncates to 0 and the single term is the
   probability of a photon-number violating transition, which is 0:
   [marg_excess].) *)
Definition marg (U : @mat C) (n l : nat) (ins k : list nat) : R :=
  suml rops (focks l (osum ins - osum k))
       (fun lo => prob_of rops U (ins ++ repeat 0 l) (k ++ lo)).

(* per-state truncation: a full state contributes only if its probability exceeds eps *)
Definition thr (eps p : R) : R := if klt rops eps p then p else 0%R.
Definition margt (eps : R) (U : @mat C) (n l : nat) (ins k : list nat) : R :=
  suml rops (focks l (osum ins - osum k))
       (fun lo => thr eps (prob_of rops U (ins ++ repeat 0 l) (k ++ lo))).

(* number of full output states (circuit + loss modes) of the input's photon number *)
Definition n_full_states (n l : nat) (ins : list nat) : nat := length (focks (n + l) (osum ins)).

(* the behaviour before the repair of finding F1: the vacuum entry is
   overwritten with 1 - total instead of receiving the missing probability *)
Definition pdist_calc_overwrite {K} (o : ops K) (b : backend) (eps : K) (n l : nat) (U : @mat (K * K))
           (inputs : @pdict K) : @pdict K :=
  let pd := fold_left (fun pd ip =>
                         let sub := full_dist o b eps n l U (fst ip) in
                         fold_left (fun pd sp => pd_add o pd (fst sp) (kmul o (snd sp) (snd ip))) sub pd)
                      inputs [] in
  let total := pd_total o pd in
  if klt o total (k1 o) && negb (Nat.eqb l 0)
  then pd_set pd (repeat 0 n) (ksub o (k1 o) total)
  else pd.

(* ------------------------------------------------------------------ *)
(* real sums                                                           *)
(* ------------------------------------------------------------------ *)
Section SumR.
  Local Open Scope R_scope.

  Lemma sumR_cons {A} (a : A) L f : suml rops (a :: L) f = f a + suml rops L f.
  Proof. reflexivity. Qed.

  Lemma sumR_nil {A} (f : A -> R) : suml rops [] f = 0.
  Proof. reflexivity. Qed.

  Lemma sumR_filter {A} (p : A -> bool) (l : list A) f :
    suml rops l (fun a => if p a then f a else 0) = suml rops (filter p l) f.
  Proof. symmetry. exact (suml_filter (r:=rops) p l f). Qed.

  Lemma sumR_map {A B} (g : A -> B) (l : list A) (f : B -> R) :
    suml rops l (fun a => f (g a)) = suml rops (map g l) f.
  Proof. symmetry. exact (suml_map (r:=rops) g l f). Qed.

  Lemma sumR_ext {A} (l : list A) f g : (forall a, In a l -> f a = g a) -> suml rops l f = suml rops l g.
  Proof. exact (suml_ext (o:=rops) l f g). Qed.

  Lemma sumR_add {A} (l : list A) f g :
    suml rops l (fun a => f a + g a) = suml rops l f + suml rops l g.
  Proof. exact (suml_add (o:=rops) l f g). Qed.

  Lemma sumR_mul_r {A} (l : list A) c f : suml rops l (fun a => f a * c) = suml rops l f * c.
  Proof. exact (suml_mul_r (r:=rops) l c f). Qed.

  Lemma sumR_le {A} (l : list A) f g : (forall a, In a l -> f a <= g a) -> suml rops l f <= suml rops l g.
  Proof.
    induction l as [|a l IH]; intros H; [rewrite !sumR_nil; lra|]. rewrite !sumR_cons.
    pose proof (H a (or_introl eq_refl)).
    assert (suml rops l f <= suml rops l g) by (apply IH; intros; apply H; right; assumption). lra.
  Qed.

  Lemma sumR_const {A} (l : list A) c : suml rops l (fun _ => c) = INR (length l) * c.
  Proof.
    induction l as [|a l IH]; [rewrite sumR_nil; simpl; lra|].
    rewrite sumR_cons, IH. change (length (a :: l)) with (S (length l)). rewrite S_INR. lra.
  Qed.

  Lemma sumR_zero {A} (l : list A) f : (forall a, In a l -> f a = 0) -> suml rops l f = 0.
  Proof. exact (suml_zero' (r:=rops) l f). Qed.

  Lemma sumR_nonneg {A} (l : list A) f : (forall a, In a l -> 0 <= f a) -> 0 <= suml rops l f.
  Proof. exact (suml_rops_nonneg l f). Qed.
End SumR.

(* ------------------------------------------------------------------ *)
(* dictionaries                                                        *)
(* ------------------------------------------------------------------ *)
Section DictR.
  Local Open Scope R_scope.
  Notation pdict := (@pdict R).

  Lemma klt_true a b : klt rops a b = true <-> a < b.
  Proof.
    unfold klt. simpl. destruct (Rle_dec b a); simpl; split; intros H; try discriminate; try reflexivity; lra.
  Qed.

  Lemma klt_false a b : klt rops a b = false <-> b <= a.
  Proof.
    unfold klt. simpl. destruct (Rle_dec b a); simpl; split; intros H; try discriminate; try reflexivity; lra.
  Qed.

  Lemma thr_bounds eps p : 0 <= eps -> 0 <= p -> 0 <= thr eps p <= p /\ p - eps <= thr eps p.
  Proof.
    intros He Hp. unfold thr. destruct (klt rops eps p) eqn:E.
    - lra.
    - apply klt_false in E. lra.
  Qed.

  Lemma thr_0 p : 0 <= p -> thr 0 p = p.
  Proof.
    intros Hp. unfold thr. destruct (klt rops 0 p) eqn:E; [reflexivity|]. apply klt_false in E. lra.
  Qed.

  Lemma thr_of_0 eps : thr eps 0 = 0.
  Proof. unfold thr. destruct (klt rops eps 0); reflexivity. Qed.

  Lemma pd_total_acc (d : pdict) a :
    fold_left (fun acc kv => kadd rops acc (snd kv)) d a = a + suml rops d (fun kv => snd kv).
  Proof.
    revert a. induction d as [|kv d IH]; intros a; cbn [fold_left].
    - rewrite sumR_nil. lra.
    - rewrite IH, sumR_cons. simpl. lra.
  Qed.

  Lemma pd_total_suml (d : pdict) : pd_total rops d = suml rops d (fun kv => snd kv).
  Proof. unfold pd_total. rewrite pd_total_acc. simpl. lra. Qed.

  Lemma pd_total_nil : pd_total rops [] = 0.
  Proof. reflexivity. Qed.

  Lemma pd_get_none (d : pdict) t : pd_get d t = None <-> ~ In t (pd_keys d).
  Proof. exact (fd_get_none d t). Qed.

  Lemma pd_val_absent (d : pdict) t : ~ In t (pd_keys d) -> pd_val d t = 0.
  Proof. intros H. unfold pd_val. apply pd_get_none in H. rewrite H. reflexivity. Qed.

  Lemma pd_get_in (d : pdict) t v : pd_get d t = Some v -> In (t, v) d.
  Proof.
    induction d as [|[k' v'] d IH]; simpl; [discriminate|].
    destruct (nlist_eqb k' t) eqn:E.
    - apply nlist_eqb_eq in E. subst. intros H. injection H as <-. left. reflexivity.
    - intros H. right. apply IH. exact H.
  Qed.

  Lemma pd_val_nonneg (d : pdict) t : pd_nonneg d -> 0 <= pd_val d t.
  Proof.
    intros H. unfold pd_val. destruct (pd_get d t) as [v|] eqn:E; [|lra].
    apply pd_get_in in E. apply (H t v E).
  Qed.

  (* ---- pd_add ---- *)
  Lemma pd_add_keys (d : pdict) k v t : In t (pd_keys (pd_add rops d k v)) <-> In t (pd_keys d) \/ t = k.
  Proof. exact (fd_add_keys (r:=rops) d k v t). Qed.

  Lemma pd_add_nodup (d : pdict) k v : NoDup (pd_keys d) -> NoDup (pd_keys (pd_add rops d k v)).
  Proof. exact (fd_add_nodup (r:=rops) d k v). Qed.

  Lemma pd_add_val (d : pdict) k v t :
    pd_val (pd_add rops d k v) t = pd_val d t + (if nlist_eqb k t then v else 0).
  Proof. exact (fd_add_val (r:=rops) d k v t). Qed.

  Lemma pd_add_total (d : pdict) k v : pd_total rops (pd_add rops d k v) = pd_total rops d + v.
  Proof.
    rewrite !pd_total_suml. induction d as [|[k' v'] d IH]; cbn [pd_add].
    - rewrite !sumR_cons, !sumR_nil. cbn [snd]. lra.
    - destruct (nlist_eqb k' k); rewrite !sumR_cons; cbn [snd].
      + cbn [kadd rops]. lra.
      + rewrite IH. lra.
  Qed.

  Lemma pd_add_nonneg (d : pdict) k v : pd_nonneg d -> 0 <= v -> pd_nonneg (pd_add rops d k v).
  Proof.
    intros Hd Hv. induction d as [|[k' v'] d IH]; simpl.
    - intros t w [E|[]]. injection E as _ <-. exact Hv.
    - assert (Hv' : 0 <= v') by (apply (Hd k'); left; reflexivity).
      assert (Hd' : pd_nonneg d) by (intros t w Hin; apply (Hd t); right; exact Hin).
      destruct (nlist_eqb k' k).
      + intros t w [E|Hin]; [injection E as _ <-; simpl; lra|apply (Hd' t); exact Hin].
      + intros t w [E|Hin]; [injection E as _ <-; exact Hv'|apply (IH Hd' t); exact Hin].
  Qed.

  (* ---- pd_set ---- *)
  Lemma pd_set_keys (d : pdict) k v t : In t (pd_keys (pd_set d k v)) <-> In t (pd_keys d) \/ t = k.
  Proof.
    induction d as [|[k' v'] d IH]; simpl.
    - split; [intros [H|[]]; right; symmetry; exact H|intros [[]|H]; left; symmetry; exact H].
    - destruct (nlist_eqb k' k) eqn:E; simpl.
      + apply nlist_eqb_eq in E. subst. split; [intros H; left; exact H|].
        intros [H|H]; [exact H|left; symmetry; exact H].
      + unfold pd_keys in IH. rewrite IH. tauto.
  Qed.

  Lemma pd_set_nodup (d : pdict) k v : NoDup (pd_keys d) -> NoDup (pd_keys (pd_set d k v)).
  Proof.
    induction d as [|[k' v'] d IH]; simpl; intros H.
    - constructor; [intros []|constructor].
    - inversion H as [|? ? Hk Hd]; subst. destruct (nlist_eqb k' k) eqn:E; simpl.
      + constructor; assumption.
      + constructor; [|apply IH; exact Hd]. intros Hin. apply pd_set_keys in Hin.
        destruct Hin as [Hin|Hin]; [contradiction|]. apply nlist_eqb_neq in E. congruence.
  Qed.

  Lemma pd_set_val (d : pdict) k v t :
    pd_val (pd_set d k v) t = if nlist_eqb k t then v else pd_val d t.
  Proof.
    unfold pd_val. induction d as [|[k' v'] d IH]; simpl.
    - destruct (nlist_eqb k t); reflexivity.
    - destruct (nlist_eqb k' k) eqn:E; simpl.
      + apply nlist_eqb_eq in E. subst. destruct (nlist_eqb k t); reflexivity.
      + destruct (nlist_eqb k' t) eqn:E2.
        * apply nlist_eqb_eq in E2. subst. rewrite (proj2 (nlist_eqb_neq k t)); [reflexivity|].
          apply nlist_eqb_neq in E. congruence.
        * exact IH.
  Qed.

  Lemma pd_set_total (d : pdict) k v :
    pd_total rops (pd_set d k v) = pd_total rops d - pd_val d k + v.
  Proof.
    rewrite !pd_total_suml. unfold pd_val. induction d as [|[k' v'] d IH]; cbn [pd_set pd_get].
    - rewrite !sumR_cons, !sumR_nil. cbn [snd]. lra.
    - destruct (nlist_eqb k' k); rewrite !sumR_cons; cbn [snd].
      + lra.
      + rewrite IH. lra.
  Qed.

  Lemma pd_set_nonneg (d : pdict) k v : pd_nonneg d -> 0 <= v -> pd_nonneg (pd_set d k v).
  Proof.
    intros Hd Hv. induction d as [|[k' v'] d IH]; simpl.
    - intros t w [E|[]]. injection E as _ <-. exact Hv.
    - assert (Hv' : 0 <= v') by (apply (Hd k'); left; reflexivity).
      assert (Hd' : pd_nonneg d) by (intros t w Hin; apply (Hd t); right; exact Hin).
      destruct (nlist_eqb k' k).
      + intros t w [E|Hin]; [injection E as _ <-; exact Hv|apply (Hd' t); exact Hin].
      + intros t w [E|Hin]; [injection E as _ <-; exact Hv'|apply (IH Hd' t); exact Hin].
  Qed.

  (* a keyed sum over a duplicate-free dictionary reads the entry *)
  Lemma sumR_pick (d : pdict) t :
    NoDup (pd_keys d) -> suml rops d (fun kv => if nlist_eqb (fst kv) t then snd kv else 0) = pd_val d t.
  Proof.
    intros H. pose proof (suml_fd_pick (r:=rops) d t (fun v => v) H) as E. exact E.
  Qed.

  (* the total is the sum of the values over the keys *)
  Lemma pd_total_keys (d : pdict) : NoDup (pd_keys d) -> pd_total rops d = suml rops (pd_keys d) (pd_val d).
  Proof.
    rewrite pd_total_suml. induction d as [|[k v] d IH]; intros H; [reflexivity|].
    inversion H as [|? ? Hk Hd]; subst. cbn [pd_keys map fst]. rewrite !sumR_cons. cbn [snd].
    rewrite (IH Hd). f_equal.
    - unfold pd_val. simpl. rewrite nlist_eqb_refl. reflexivity.
    - apply sumR_ext. intros t Ht. unfold pd_val. simpl.
      rewrite (proj2 (nlist_eqb_neq k t)); [reflexivity|]. intros ->. contradiction.
  Qed.

  (* ---- a guarded accumulation loop ---- *)
  Definition pd_fold {A} (c : A -> bool) (key : A -> list nat) (val : A -> R) (L : list A) (d0 : pdict) : pdict :=
    fold_left (fun pd x => if c x then pd_add rops pd (key x) (val x) else pd) L d0.

  Lemma pd_fold_val {A} c key val (L : list A) d0 t :
    pd_val (pd_fold c key val L d0) t =
    pd_val d0 t + suml rops L (fun x => if c x && nlist_eqb (key x) t then val x else 0).
  Proof.
    unfold pd_fold. revert d0. induction L as [|x L IH]; intros d0; cbn [fold_left].
    - rewrite sumR_nil. lra.
    - rewrite IH, sumR_cons. destruct (c x); cbn [andb]; [|lra].
      rewrite pd_add_val. lra.
  Qed.

  Lemma pd_fold_total {A} c key val (L : list A) d0 :
    pd_total rops (pd_fold c key val L d0) =
    pd_total rops d0 + suml rops L (fun x => if c x then val x else 0).
  Proof.
    unfold pd_fold. revert d0. induction L as [|x L IH]; intros d0; cbn [fold_left].
    - rewrite sumR_nil. lra.
    - rewrite IH, sumR_cons. destruct (c x); [|lra]. rewrite pd_add_total. lra.
  Qed.

  Lemma pd_fold_keys {A} c key val (L : list A) d0 t :
    In t (pd_keys (pd_fold c key val L d0)) <->
    In t (pd_keys d0) \/ exists x, In x L /\ c x = true /\ key x = t.
  Proof.
    unfold pd_fold. revert d0. induction L as [|x L IH]; intros d0; cbn [fold_left].
    - split; [intros H; left; exact H|]. intros [H|[x [[] _]]]. exact H.
    - rewrite IH. destruct (c x) eqn:E.
      + rewrite pd_add_keys. split.
        * intros [[H|H]|[y [Hy [Hc Hk]]]].
          -- left. exact H.
          -- right. exists x. split; [left; reflexivity|]. split; [exact E|symmetry; exact H].
          -- right. exists y. split; [right; exact Hy|]. split; assumption.
        * intros [H|[y [[Hy|Hy] [Hc Hk]]]].
          -- left. left. exact H.
          -- subst y. left. right. symmetry. exact Hk.
          -- right. exists y. split; [exact Hy|]. split; assumption.
      + split.
        * intros [H|[y [Hy [Hc Hk]]]]; [left; exact H|].
          right. exists y. split; [right; exact Hy|]. split; assumption.
        * intros [H|[y [[Hy|Hy] [Hc Hk]]]].
          -- left. exact H.
          -- subst y. congruence.
          -- right. exists y. split; [exact Hy|]. split; assumption.
  Qed.

  Lemma pd_fold_nodup {A} c key val (L : list A) d0 :
    NoDup (pd_keys d0) -> NoDup (pd_keys (pd_fold c key val L d0)).
  Proof.
    unfold pd_fold. revert d0. induction L as [|x L IH]; intros d0 H; cbn [fold_left]; [exact H|].
    apply IH. destruct (c x); [apply pd_add_nodup|]; exact H.
  Qed.

  Lemma pd_fold_nonneg {A} c key val (L : list A) d0 :
    pd_nonneg d0 -> (forall x, In x L -> c x = true -> 0 <= val x) -> pd_nonneg (pd_fold c key val L d0).
  Proof.
    unfold pd_fold. revert d0. induction L as [|x L IH]; intros d0 H HL; cbn [fold_left]; [exact H|].
    apply IH; [|intros y Hy; apply HL; right; exact Hy].
    destruct (c x) eqn:E; [|exact H]. apply pd_add_nonneg; [exact H|]. apply HL; [left; reflexivity|exact E].
  Qed.

  Lemma fold_left_ext {A B} (f g : A -> B -> A) L a :
    (forall a x, f a x = g a x) -> fold_left f L a = fold_left g L a.
  Proof. intros H. revert a. induction L as [|x L IH]; intros a; simpl; [reflexivity|]. rewrite H. apply IH. Qed.
End DictR.

(* ------------------------------------------------------------------ *)
(* marginalisation over the loss modes                                 *)
(* ------------------------------------------------------------------ *)
Section Marginal.
  Local Open Scope R_scope.
  Notation pdict := (@pdict R).

  Lemma firstn_app_exact {A} (k lo : list A) n : length k = n -> firstn n (k ++ lo) = k.
  Proof. intros <-. rewrite firstn_app, Nat.sub_diag, firstn_all. simpl. apply app_nil_r. Qed.

  Lemma osum_firstn_le n t : (osum (firstn n t) <= osum t)%nat.
  Proof. rewrite <- (firstn_skipn n t) at 2. rewrite osum_app. lia. Qed.

  Lemma vac_test n t : length t = n -> (osum t =? 0)%nat = nlist_eqb t (repeat 0%nat n).
  Proof.
    intros Hl. destruct (Nat.eqb_spec (osum t) 0) as [E|E]; symmetry.
    - apply nlist_eqb_eq. rewrite (osum_zero t E), Hl. reflexivity.
    - apply nlist_eqb_neq. intros ->. apply E. apply osum_repeat0.
  Qed.

  Lemma osum_pos_length s : osum s <> 0%nat -> (0 < length s)%nat.
  Proof. destruct s; simpl; [intros H; contradiction H; reflexivity|lia]. Qed.

  Lemma focks_zero l : focks l 0 = [repeat 0%nat l].
  Proof. apply fock_enum_zero. apply focks_enum. Qed.

  (* the full states whose circuit part is k are k ++ lo, lo over the loss-mode
     occupations of the remaining photons *)
  Lemma marg_reindex L n l N k (g : list nat -> R) :
    fock_enum L (n + l) N -> length k = n -> (osum k <= N)%nat ->
    suml rops L (fun t => if nlist_eqb (firstn n t) k then g t else 0) =
    suml rops (focks l (N - osum k)) (fun lo => g (k ++ lo)).
  Proof.
    intros [Hnd Hin] Hk Hle.
    rewrite (sumR_filter (fun t => nlist_eqb (firstn n t) k)), (sumR_map (app k)).
    apply (suml_perm (r:=rops)). apply NoDup_Permutation.
    - apply NoDup_filter. exact Hnd.
    - apply nodup_map_inj; [intros x y H; apply app_inv_head in H; exact H|apply focks_nodup].
    - intros t. rewrite filter_In, in_map_iff, Hin. split.
      + intros [[Hl Hs] E]. apply nlist_eqb_eq in E. exists (skipn n t). split.
        * rewrite <- E. apply firstn_skipn.
        * apply focks_spec. rewrite skipn_length, Hl. split; [lia|].
          rewrite <- (firstn_skipn n t), osum_app, E in Hs. lia.
      + intros [lo [<- Hlo]]. apply focks_spec in Hlo. destruct Hlo as [Hl Hs].
        rewrite app_length, osum_app, (firstn_app_exact k lo n Hk), nlist_eqb_refl.
        repeat split; lia.
  Qed.

  Lemma prob_of_mismatch (U : @mat C) ins outs : osum outs <> osum ins -> prob_of rops U ins outs = 0.
  Proof.
    intros H. rewrite prob_of_eq, (perm_ml_length (r:=cops)) by (rewrite !expand_length; exact H).
    unfold cnorm2. simpl. ring.
  Qed.

  Lemma ins_pad_length (ins : list nat) n l : length ins = n -> length (ins ++ repeat 0%nat l) = (n + l)%nat.
  Proof. intros <-. rewrite app_length, repeat_length. reflexivity. Qed.

  Lemma ins_pad_osum (ins : list nat) l : osum (ins ++ repeat 0%nat l) = osum ins.
  Proof. rewrite osum_app, osum_repeat0. lia. Qed.

  (* a pattern with more photons than were injected has probability 0 *)
  Lemma margt_excess eps U n l ins k : (osum ins < osum k)%nat -> margt eps U n l ins k = 0.
  Proof.
    intros H. unfold margt. apply sumR_zero. intros lo _.
    rewrite prob_of_mismatch; [apply thr_of_0|]. rewrite osum_app, ins_pad_osum. lia.
  Qed.

  Lemma marg_excess U n l ins k : (osum ins < osum k)%nat -> marg U n l ins k = 0.
  Proof.
    intros H. unfold marg. apply sumR_zero. intros lo _.
    apply prob_of_mismatch. rewrite osum_app, ins_pad_osum. lia.
  Qed.

  Lemma thr_le eps p : 0 <= p -> 0 <= thr eps p <= p.
  Proof. intros Hp. unfold thr. destruct (klt rops eps p); lra. Qed.

  Lemma margt_0 U n l ins k : margt 0 U n l ins k = marg U n l ins k.
  Proof. unfold margt, marg. apply sumR_ext. intros lo _. apply thr_0. apply prob_of_nonneg. Qed.

  Lemma margt_le eps U n l ins k : margt eps U n l ins k <= marg U n l ins k.
  Proof. unfold margt, marg. apply sumR_le. intros lo _. apply thr_le. apply prob_of_nonneg. Qed.

  Lemma margt_nonneg eps U n l ins k : 0 <= margt eps U n l ins k.
  Proof. unfold margt. apply sumR_nonneg. intros lo _. apply thr_le. apply prob_of_nonneg. Qed.

  Lemma marg_nonneg U n l ins k : 0 <= marg U n l ins k.
  Proof. unfold marg. apply sumR_nonneg. intros lo _. apply prob_of_nonneg. Qed.

  Lemma margt_lower eps U n l ins k :
    0 <= eps -> marg U n l ins k - eps * INR (length (focks l (osum ins - osum k))) <= margt eps U n l ins k.
  Proof.
    intros He. unfold margt, marg.
    set (F := focks l (osum ins - osum k)). set (p := fun lo => prob_of rops U (ins ++ repeat 0%nat l) (k ++ lo)).
    assert (E : suml rops F p - eps * INR (length F) = suml rops F (fun lo => p lo + - eps)).
    { rewrite sumR_add, sumR_const. lra. }
    rewrite E. apply sumR_le. intros lo _. unfold p.
    pose proof (thr_bounds eps (prob_of rops U (ins ++ repeat 0%nat l) (k ++ lo)) He (prob_of_nonneg _ _ _)). lra.
  Qed.

  (* the keyed sum of the loops, for every pattern *)
  Lemma keyed_sum L n l (U : @mat C) ins' eps k :
    fock_enum L (n + l) (osum ins') -> length k = n ->
    suml rops L (fun t => if nlist_eqb (firstn n t) k then thr eps (prob_of rops U ins' t) else 0) =
    suml rops (focks l (osum ins' - osum k)) (fun lo => thr eps (prob_of rops U ins' (k ++ lo))).
  Proof.
    intros HL Hk. destruct (le_lt_dec (osum k) (osum ins')) as [Hle|Hgt].
    - apply (marg_reindex L n l (osum ins') k (fun t => thr eps (prob_of rops U ins' t)) HL Hk Hle).
    - rewrite !sumR_zero; [reflexivity| |].
      + intros lo _. rewrite prob_of_mismatch; [apply thr_of_0|]. rewrite osum_app. lia.
      + intros t Ht. destruct (nlist_eqb (firstn n t) k) eqn:E; [|reflexivity].
        apply nlist_eqb_eq in E. apply (proj2 HL) in Ht. destruct Ht as [_ Hs].
        pose proof (osum_firstn_le n t). rewrite E in H. lia.
  Qed.

  (* ---------------- the two loops as guarded accumulations ---------------- *)
  Definition perm_pd (eps : R) (n : nat) (U : @mat C) (ins' : list nat) (outs : list (list nat)) : pdict :=
    pd_fold (fun os => negb (osum (firstn n os) =? 0)%nat && klt rops eps (prob_of rops U ins' os))
            (firstn n) (prob_of rops U ins') outs [].
  Definition slos_pd (eps : R) (n : nat) (ins' : list nat) (dict : list (list nat * C)) : pdict :=
    pd_fold (fun kv => klt rops eps (slos_prob rops ins' kv)) (fun kv => firstn n (fst kv))
            (slos_prob rops ins') dict [].

  Lemma full_dist_eq b eps n l (U : @mat C) ins :
    full_dist rops b eps n l U ins =
    if (osum ins =? 0)%nat then [(repeat 0%nat n, 1)] else
    let ins' := ins ++ repeat 0%nat l in
    match b with
    | Permanent =>
        let pd := perm_pd eps n U ins' (fock_sums (length ins') (osum ins')) in
        if klt rops (pd_total rops pd) 1 && negb (l =? 0)%nat
        then pd_set pd (repeat 0%nat n) (1 - pd_total rops pd) else pd
    | Slos => slos_pd eps n ins' (slos cops (n + l) U ins')
    end.
  Proof.
    unfold full_dist. destruct (osum ins =? 0)%nat; [reflexivity|]. cbv zeta. destruct b.
    - assert (E : forall outs d0,
                 fold_left (fun pd os =>
                              if (osum (firstn n os) =? 0)%nat then pd else
                              let p := prob_of rops U (ins ++ repeat 0%nat l) os in
                              if klt rops eps p then pd_add rops pd (firstn n os) p else pd) outs d0 =
                 pd_fold (fun os => negb (osum (firstn n os) =? 0)%nat &&
                                    klt rops eps (prob_of rops U (ins ++ repeat 0%nat l) os))
                         (firstn n) (prob_of rops U (ins ++ repeat 0%nat l)) outs d0).
      { intros outs d0. unfold pd_fold. apply fold_left_ext. intros a x.
        destruct (osum (firstn n x) =? 0)%nat; reflexivity. }
      unfold perm_pd. rewrite <- E. reflexivity.
    - reflexivity.
  Qed.

  Lemma pd_val_nil t : pd_val [] t = 0.
  Proof. reflexivity. Qed.

  Lemma perm_pd_val eps n l U ins' L k :
    fock_enum L (n + l) (osum ins') -> length k = n ->
    pd_val (perm_pd eps n U ins' L) k =
    if (osum k =? 0)%nat then 0
    else suml rops (focks l (osum ins' - osum k)) (fun lo => thr eps (prob_of rops U ins' (k ++ lo))).
  Proof.
    intros HL Hk. unfold perm_pd. rewrite pd_fold_val, pd_val_nil, Rplus_0_l.
    destruct (Nat.eqb_spec (osum k) 0) as [Hz|Hnz].
    - apply sumR_zero. intros t _. destruct (nlist_eqb (firstn n t) k) eqn:E.
      + apply nlist_eqb_eq in E. rewrite E, (proj2 (Nat.eqb_eq _ _) Hz). reflexivity.
      + rewrite andb_false_r. reflexivity.
    - rewrite <- (keyed_sum L n l U ins' eps k HL Hk). apply sumR_ext. intros t _.
      destruct (nlist_eqb (firstn n t) k) eqn:E.
      + apply nlist_eqb_eq in E. rewrite E, (proj2 (Nat.eqb_neq _ _) Hnz). cbn [negb andb].
        rewrite andb_true_r. reflexivity.
      + rewrite andb_false_r. reflexivity.
  Qed.

  Lemma perm_pd_total eps n U ins' L :
    pd_total rops (perm_pd eps n U ins' L) =
    suml rops L (fun t => if (osum (firstn n t) =? 0)%nat then 0 else thr eps (prob_of rops U ins' t)).
  Proof.
    unfold perm_pd. rewrite pd_fold_total, pd_total_nil, Rplus_0_l. apply sumR_ext. intros t _.
    destruct (osum (firstn n t) =? 0)%nat; reflexivity.
  Qed.

  Lemma slos_keys_enum n (U : @mat C) ins' :
    fock_enum (map fst (slos cops n U ins')) n (osum ins').
  Proof. split; [apply (slos_keys_nodup (r:=cops))|intros t; apply (slos_keys (r:=cops))]. Qed.

  Lemma slos_pd_val eps n l U ins' k :
    length k = n ->
    pd_val (slos_pd eps n ins' (slos cops (n + l) U ins')) k =
    suml rops (focks l (osum ins' - osum k)) (fun lo => thr eps (prob_of rops U ins' (k ++ lo))).
  Proof.
    intros Hk. unfold slos_pd. rewrite pd_fold_val, pd_val_nil, Rplus_0_l.
    rewrite <- (keyed_sum (map fst (slos cops (n + l) U ins')) n l U ins' eps k (slos_keys_enum _ _ _) Hk).
    rewrite <- (sumR_map fst).
    apply sumR_ext. intros kv Hin. rewrite (slos_entry_prob (n + l) U ins' kv Hin). cbv beta.
    destruct kv as [t c]. cbn [fst].
    destruct (nlist_eqb (firstn n t) k); [|rewrite andb_false_r; reflexivity].
    rewrite andb_true_r. reflexivity.
  Qed.

  Lemma slos_pd_total eps n N U ins' :
    pd_total rops (slos_pd eps n ins' (slos cops N U ins')) =
    suml rops (map fst (slos cops N U ins')) (fun t => thr eps (prob_of rops U ins' t)).
  Proof.
    unfold slos_pd. rewrite pd_fold_total, pd_total_nil, Rplus_0_l, <- (sumR_map fst).
    apply sumR_ext. intros kv Hin. rewrite (slos_entry_prob N U ins' kv Hin). reflexivity.
  Qed.
End Marginal.

(* ------------------------------------------------------------------ *)
(* Backend.full_probability_distribution                               *)
(* ------------------------------------------------------------------ *)
Section FullDist.
  Local Open Scope R_scope.
  Notation pdict := (@pdict R).

  (* the vacuum bookkeeping of the permanent branch *)
  Definition perm_final (n l : nat) (pd : pdict) : pdict :=
    if klt rops (pd_total rops pd) 1 && negb (l =? 0)%nat
    then pd_set pd (repeat 0%nat n) (1 - pd_total rops pd) else pd.

  Lemma full_dist_cases b eps n l (U : @mat C) ins :
    full_dist rops b eps n l U ins =
    if (osum ins =? 0)%nat then [(repeat 0%nat n, 1)] else
    match b with
    | Permanent =>
        perm_final n l (perm_pd eps n U (ins ++ repeat 0%nat l)
                                (fock_sums (length (ins ++ repeat 0%nat l)) (osum (ins ++ repeat 0%nat l))))
    | Slos => slos_pd eps n (ins ++ repeat 0%nat l) (slos cops (n + l) U (ins ++ repeat 0%nat l))
    end.
  Proof. rewrite full_dist_eq. reflexivity. Qed.

  Lemma fock_sums_enum_pad ins n l :
    length ins = n -> osum ins <> 0%nat ->
    fock_enum (fock_sums (length (ins ++ repeat 0%nat l)) (osum (ins ++ repeat 0%nat l))) (n + l)
              (osum (ins ++ repeat 0%nat l)).
  Proof.
    intros Hl Hs.
    assert (H : (0 < length (ins ++ repeat 0%nat l))%nat) by (apply osum_pos_length; rewrite ins_pad_osum; exact Hs).
    rewrite (ins_pad_length ins n l Hl) in *. apply fock_sums_enum. exact H.
  Qed.

  (* ---- the accumulated dictionary of the permanent loop ---- *)
  Lemma perm_pd_keys eps n l U ins' L t :
    fock_enum L (n + l) (osum ins') -> In t (pd_keys (perm_pd eps n U ins' L)) ->
    length t = n /\ (osum t <= osum ins')%nat /\ osum t <> 0%nat.
  Proof.
    intros [_ HL] Hin. unfold perm_pd in Hin. apply pd_fold_keys in Hin.
    destruct Hin as [[]|[os [Hos [Hc <-]]]].
    apply HL in Hos. destruct Hos as [Hlen Hs]. apply andb_true_iff in Hc. destruct Hc as [Hc _].
    apply negb_true_iff, Nat.eqb_neq in Hc.
    split; [rewrite firstn_length; lia|]. split; [rewrite <- Hs; apply osum_firstn_le|exact Hc].
  Qed.

  Lemma perm_pd_nodup eps n U ins' L : NoDup (pd_keys (perm_pd eps n U ins' L)).
  Proof. apply pd_fold_nodup. constructor. Qed.

  Lemma perm_pd_nonneg eps n U ins' L : pd_nonneg (perm_pd eps n U ins' L).
  Proof. apply pd_fold_nonneg; [intros ? ? []|intros; apply prob_of_nonneg]. Qed.

  Lemma perm_pd_no_vac eps n l U ins' L :
    fock_enum L (n + l) (osum ins') -> ~ In (repeat 0%nat n) (pd_keys (perm_pd eps n U ins' L)).
  Proof.
    intros HL Hin. apply (perm_pd_keys eps n l U ins' L _ HL) in Hin. destruct Hin as [_ [_ H]].
    apply H, osum_repeat0.
  Qed.

  (* ---- the accumulated dictionary of the slos loop ---- *)
  Lemma slos_pd_keys eps n l U ins' t :
    In t (pd_keys (slos_pd eps n ins' (slos cops (n + l) U ins'))) ->
    length t = n /\ (osum t <= osum ins')%nat.
  Proof.
    intros Hin. unfold slos_pd in Hin. apply pd_fold_keys in Hin.
    destruct Hin as [[]|[kv [Hkv [_ <-]]]].
    assert (Hk : In (fst kv) (map fst (slos cops (n + l) U ins'))) by (apply in_map; exact Hkv).
    apply (slos_keys (r:=cops)) in Hk. destruct Hk as [Hlen Hs].
    split; [rewrite firstn_length; lia|]. rewrite <- Hs. apply osum_firstn_le.
  Qed.

  Lemma slos_pd_nodup eps n ins' dict : NoDup (pd_keys (slos_pd eps n ins' dict)).
  Proof. apply pd_fold_nodup. constructor. Qed.

  Lemma slos_pd_nonneg eps n N U ins' : pd_nonneg (slos_pd eps n ins' (slos cops N U ins')).
  Proof.
    apply pd_fold_nonneg; [intros ? ? []|]. intros kv Hin _.
    rewrite (slos_entry_prob N U ins' kv Hin). apply prob_of_nonneg.
  Qed.

  (* ---- the vacuum step ---- *)
  Lemma perm_final_keys n l pd t :
    In t (pd_keys (perm_final n l pd)) -> In t (pd_keys pd) \/ t = repeat 0%nat n.
  Proof. unfold perm_final. destruct (_ && _); [apply pd_set_keys|intros H; left; exact H]. Qed.

  Lemma perm_final_nodup n l pd : NoDup (pd_keys pd) -> NoDup (pd_keys (perm_final n l pd)).
  Proof. unfold perm_final. destruct (_ && _); [apply pd_set_nodup|intros H; exact H]. Qed.

  Lemma perm_final_nonneg n l pd : pd_nonneg pd -> pd_nonneg (perm_final n l pd).
  Proof.
    unfold perm_final. intros H. destruct (klt rops (pd_total rops pd) 1) eqn:E; cbn [andb]; [|exact H].
    destruct (negb (l =? 0)%nat); [|exact H]. apply klt_true in E. apply pd_set_nonneg; [exact H|lra].
  Qed.

  Lemma perm_final_val_nonvac n l pd k : k <> repeat 0%nat n -> pd_val (perm_final n l pd) k = pd_val pd k.
  Proof.
    intros Hk. unfold perm_final. destruct (_ && _); [|reflexivity].
    rewrite pd_set_val, (proj2 (nlist_eqb_neq (repeat 0%nat n) k)); [reflexivity|]. intros E. apply Hk. symmetry. exact E.
  Qed.

  Lemma perm_final_total n l pd :
    ~ In (repeat 0%nat n) (pd_keys pd) ->
    pd_total rops (perm_final n l pd) =
    if klt rops (pd_total rops pd) 1 && negb (l =? 0)%nat then 1 else pd_total rops pd.
  Proof.
    intros H. unfold perm_final. destruct (_ && _); [|reflexivity].
    rewrite pd_set_total, (pd_val_absent pd _ H). lra.
  Qed.

  (* ---------------- (V1) every non-vacuum pattern, every eps, every matrix ---------------- *)
  Theorem dist_value_nonvac b eps n l (U : @mat C) ins k :
    length ins = n -> length k = n -> osum k <> 0%nat ->
    pd_val (full_dist rops b eps n l U ins) k = margt eps U n l ins k.
  Proof.
    intros Hl Hk Hnz. rewrite full_dist_cases.
    assert (Hkv : k <> repeat 0%nat n) by (intros ->; apply Hnz, osum_repeat0).
    destruct (Nat.eqb_spec (osum ins) 0) as [Hz|Hne].
    - rewrite margt_excess by lia. unfold pd_val. cbn [pd_get].
      rewrite (proj2 (nlist_eqb_neq (repeat 0%nat n) k)); [reflexivity|]. intros E. apply Hkv. symmetry. exact E.
    - unfold margt. rewrite <- (ins_pad_osum ins l). destruct b.
      + rewrite (perm_final_val_nonvac n l _ k Hkv).
        rewrite (perm_pd_val eps n l U _ _ k (fock_sums_enum_pad ins n l Hl Hne) Hk).
        rewrite (proj2 (Nat.eqb_neq _ _) Hnz). reflexivity.
      + apply slos_pd_val. exact Hk.
  Qed.

  Corollary dist_backend_independent_nonvac eps n l (U : @mat C) ins k :
    length ins = n -> length k = n -> osum k <> 0%nat ->
    pd_val (full_dist rops Permanent eps n l U ins) k = pd_val (full_dist rops Slos eps n l U ins) k.
  Proof. intros Hl Hk Hnz. rewrite !dist_value_nonvac by assumption. reflexivity. Qed.

  (* ---------------- (V2) keys, signs ---------------- *)
  Theorem dist_keys b eps n l (U : @mat C) ins :
    length ins = n ->
    NoDup (pd_keys (full_dist rops b eps n l U ins)) /\
    forall k, In k (pd_keys (full_dist rops b eps n l U ins)) -> length k = n /\ (osum k <= osum ins)%nat.
  Proof.
    intros Hl. rewrite full_dist_cases. destruct (Nat.eqb_spec (osum ins) 0) as [Hz|Hne].
    - split; [constructor; [intros []|constructor]|]. intros k [E|[]]. simpl in E. subst k.
      rewrite repeat_length, osum_repeat0. split; [reflexivity|lia].
    - destruct b.
      + split; [apply perm_final_nodup, perm_pd_nodup|]. intros k Hin.
        apply perm_final_keys in Hin. destruct Hin as [Hin| ->].
        * apply (perm_pd_keys eps n l U _ _ k (fock_sums_enum_pad ins n l Hl Hne)) in Hin.
          rewrite ins_pad_osum in Hin. destruct Hin as [H1 [H2 _]]. split; assumption.
        * rewrite repeat_length, osum_repeat0. split; [reflexivity|lia].
      + split; [apply slos_pd_nodup|]. intros k Hin. apply slos_pd_keys in Hin.
        rewrite ins_pad_osum in Hin. exact Hin.
  Qed.

  Theorem dist_nonneg b eps n l (U : @mat C) ins : pd_nonneg (full_dist rops b eps n l U ins).
  Proof.
    rewrite full_dist_cases. destruct (osum ins =? 0)%nat.
    - intros k v [E|[]]. injection E as _ <-. lra.
    - destruct b; [apply perm_final_nonneg, perm_pd_nonneg|apply slos_pd_nonneg].
  Qed.

  Lemma pd_val_wrong_length b eps n l (U : @mat C) ins k :
    length ins = n -> length k <> n -> pd_val (full_dist rops b eps n l U ins) k = 0.
  Proof.
    intros Hl Hk. apply pd_val_absent. intros Hin. apply (proj2 (dist_keys b eps n l U ins Hl)) in Hin.
    apply Hk. exact (proj1 Hin).
  Qed.

  (* ---------------- (V3) bounds for non-vacuum patterns ---------------- *)
  Theorem dist_upper b eps n l (U : @mat C) ins k :
    length ins = n -> length k = n -> osum k <> 0%nat ->
    pd_val (full_dist rops b eps n l U ins) k <= marg U n l ins k.
  Proof. intros Hl Hk Hnz. rewrite dist_value_nonvac by assumption. apply margt_le. Qed.

  Theorem dist_lower b eps n l (U : @mat C) ins k :
    0 <= eps -> length ins = n -> length k = n -> osum k <> 0%nat ->
    marg U n l ins k - eps * INR (length (focks l (osum ins - osum k))) <=
    pd_val (full_dist rops b eps n l U ins) k.
  Proof. intros He Hl Hk Hnz. rewrite dist_value_nonvac by assumption. apply margt_lower. exact He. Qed.

  (* ---------------- (V4) totals ---------------- *)
  Lemma enum_thr_bounds eps N (U : @mat C) ins' L :
    0 <= eps -> lunit cops N U -> length ins' = N -> fock_enum L N (osum ins') ->
    1 - eps * INR (length (focks N (osum ins'))) <= suml rops L (fun t => thr eps (prob_of rops U ins' t)) <= 1.
  Proof.
    intros He HU Hl HL. pose proof (fock_unitarity_enum N U ins' L HU Hl HL) as H1.
    assert (Hlen : length L = length (focks N (osum ins'))).
    { apply Permutation_length. apply (fock_enum_perm L _ N (osum ins') HL (focks_enum _ _)). }
    rewrite <- Hlen. split.
    - assert (E : 1 - eps * INR (length L) = suml rops L (fun t => prob_of rops U ins' t + - eps)).
      { pose proof (sumR_add L (fun t => prob_of rops U ins' t) (fun _ => - eps)) as Ea. cbv beta in Ea.
        rewrite Ea, sumR_const, H1. lra. }
      rewrite E. apply sumR_le. intros t _.
      pose proof (thr_bounds eps _ He (prob_of_nonneg U ins' t)). lra.
    - rewrite <- H1. apply sumR_le. intros t _. apply thr_le, prob_of_nonneg.
  Qed.

  (* the probability of all full states whose circuit part is empty *)
  Lemma vac_sum L n l (U : @mat C) ins ins' :
    ins' = ins ++ repeat 0%nat l -> fock_enum L (n + l) (osum ins') ->
    suml rops L (fun t => if (osum (firstn n t) =? 0)%nat then prob_of rops U ins' t else 0) =
    marg U n l ins (repeat 0%nat n).
  Proof.
    intros -> HL. unfold marg.
    pose proof (marg_reindex L n l (osum (ins ++ repeat 0%nat l)) (repeat 0%nat n)
                             (fun t => prob_of rops U (ins ++ repeat 0%nat l) t) HL (repeat_length _ _)) as H.
    rewrite osum_repeat0 in H. rewrite ins_pad_osum in H. rewrite osum_repeat0, <- H by lia.
    apply sumR_ext. intros t Ht. apply (proj2 HL) in Ht. destruct Ht as [Hlen _].
    rewrite (vac_test n (firstn n t)) by (rewrite firstn_length; lia). reflexivity.
  Qed.
End FullDist.

(* ------------------------------------------------------------------ *)
(* unitary matrices: exactness at eps = 0, normalisation               *)
(* ------------------------------------------------------------------ *)
Section FullDistUnitary.
  Local Open Scope R_scope.
  Notation pdict := (@pdict R).

  Lemma sumR_split {A} (L : list A) (c : A -> bool) (f : A -> R) :
    suml rops L f = suml rops L (fun t => if c t then f t else 0) + suml rops L (fun t => if c t then 0 else f t).
  Proof.
    pose proof (sumR_add L (fun t => if c t then f t else 0) (fun t => if c t then 0 else f t)) as E.
    cbv beta in E. rewrite <- E. apply sumR_ext. intros t _. destruct (c t); lra.
  Qed.

  (* the non-vacuum part of the full distribution *)
  Lemma nonvac_sum L n l (U : @mat C) ins :
    lunit cops (n + l) U -> length ins = n -> fock_enum L (n + l) (osum (ins ++ repeat 0%nat l)) ->
    suml rops L (fun t => if (osum (firstn n t) =? 0)%nat then 0 else prob_of rops U (ins ++ repeat 0%nat l) t) =
    1 - marg U n l ins (repeat 0%nat n).
  Proof.
    intros HU Hl HL.
    pose proof (fock_unitarity_enum (n + l) U _ L HU (ins_pad_length ins n l Hl) HL) as H1.
    pose proof (vac_sum L n l U ins _ eq_refl HL) as HV.
    pose proof (sumR_split L (fun t => (osum (firstn n t) =? 0)%nat)
                           (fun t => prob_of rops U (ins ++ repeat 0%nat l) t)) as E.
    cbv beta in E. rewrite H1, HV in E. lra.
  Qed.

  Lemma perm_tb_le eps L n l (U : @mat C) ins :
    lunit cops (n + l) U -> length ins = n -> fock_enum L (n + l) (osum (ins ++ repeat 0%nat l)) ->
    pd_total rops (perm_pd eps n U (ins ++ repeat 0%nat l) L) <= 1 - marg U n l ins (repeat 0%nat n).
  Proof.
    intros HU Hl HL. rewrite perm_pd_total, <- (nonvac_sum L n l U ins HU Hl HL).
    apply sumR_le. intros t _. destruct (_ =? _)%nat; [lra|]. apply thr_le, prob_of_nonneg.
  Qed.

  Lemma perm_tb_eps0 L n l (U : @mat C) ins :
    lunit cops (n + l) U -> length ins = n -> fock_enum L (n + l) (osum (ins ++ repeat 0%nat l)) ->
    pd_total rops (perm_pd 0 n U (ins ++ repeat 0%nat l) L) = 1 - marg U n l ins (repeat 0%nat n).
  Proof.
    intros HU Hl HL. rewrite perm_pd_total, <- (nonvac_sum L n l U ins HU Hl HL).
    apply sumR_ext. intros t _. destruct (_ =? _)%nat; [reflexivity|]. apply thr_0, prob_of_nonneg.
  Qed.

  Lemma perm_tb_lossless eps L n (U : @mat C) ins' :
    osum ins' <> 0%nat -> fock_enum L (n + 0) (osum ins') ->
    pd_total rops (perm_pd eps n U ins' L) = suml rops L (fun t => thr eps (prob_of rops U ins' t)).
  Proof.
    intros Hne HL. rewrite perm_pd_total. apply sumR_ext. intros t Ht. apply (proj2 HL) in Ht.
    destruct Ht as [Hlen Hs]. rewrite firstn_all2 by lia. rewrite Hs, (proj2 (Nat.eqb_neq _ _) Hne). reflexivity.
  Qed.

  Lemma marg_vac_lossless (U : @mat C) n ins : osum ins <> 0%nat -> marg U n 0 ins (repeat 0%nat n) = 0.
  Proof.
    intros Hne. unfold marg. rewrite osum_repeat0, Nat.sub_0_r. cbn [focks].
    rewrite (proj2 (Nat.eqb_neq _ _) Hne). reflexivity.
  Qed.

  Lemma prob_of_vacuum (U : @mat C) m : prob_of rops U (repeat 0%nat m) (repeat 0%nat m) = 1.
  Proof.
    rewrite prob_of_eq. unfold expand. rewrite expand_from_repeat0, fact_prod_repeat0.
    unfold cnorm2. simpl. field.
  Qed.

  (* ---------------- (E) eps = 0: both back ends return the marginal ---------------- *)
  Theorem dist_exact_eps0 b n l (U : @mat C) ins k :
    lunit cops (n + l) U -> length ins = n -> length k = n ->
    pd_val (full_dist rops b 0 n l U ins) k = marg U n l ins k.
  Proof.
    intros HU Hl Hk. destruct (Nat.eq_dec (osum k) 0) as [Hz|Hnz].
    2:{ rewrite dist_value_nonvac by assumption. apply margt_0. }
    assert (Ek : k = repeat 0%nat n) by (rewrite (osum_zero k Hz), Hk; reflexivity). subst k. clear Hz Hk.
    rewrite full_dist_cases. destruct (Nat.eqb_spec (osum ins) 0) as [Hi|Hi].
    - (* vacuum input *)
      unfold pd_val. cbn [pd_get]. rewrite nlist_eqb_refl.
      unfold marg. rewrite Hi, osum_repeat0. cbn [Nat.sub]. rewrite focks_zero, sumR_cons, sumR_nil.
      rewrite (osum_zero ins Hi), Hl, <- !repeat_app, prob_of_vacuum. lra.
    - pose proof (fock_sums_enum_pad ins n l Hl Hi) as HL. destruct b.
      + (* permanent: the vacuum entry is the complement of the rest *)
        pose proof (perm_tb_eps0 _ n l U ins HU Hl HL) as Htb.
        pose proof (perm_pd_val 0 n l U _ _ (repeat 0%nat n) HL (repeat_length _ _)) as Hv.
        rewrite osum_repeat0 in Hv. cbn [Nat.eqb] in Hv.
        pose proof (marg_nonneg U n l ins (repeat 0%nat n)) as Hm.
        unfold perm_final.
        destruct (klt rops (pd_total rops _) 1) eqn:E1; destruct (l =? 0)%nat eqn:E2; cbn [andb negb].
        * apply Nat.eqb_eq in E2. subst l. rewrite Hv, marg_vac_lossless by exact Hi. reflexivity.
        * rewrite pd_set_val, nlist_eqb_refl, Htb. lra.
        * apply Nat.eqb_eq in E2. subst l. rewrite Hv, marg_vac_lossless by exact Hi. reflexivity.
        * apply klt_false in E1. rewrite Htb in E1. rewrite Hv. lra.
      + rewrite slos_pd_val by apply repeat_length. rewrite ins_pad_osum. apply (margt_0 U n l ins (repeat 0%nat n)).
  Qed.

  Corollary dist_backend_independent n l (U : @mat C) ins k :
    lunit cops (n + l) U -> length ins = n ->
    pd_val (full_dist rops Permanent 0 n l U ins) k = pd_val (full_dist rops Slos 0 n l U ins) k.
  Proof.
    intros HU Hl. destruct (Nat.eq_dec (length k) n) as [Hk|Hk].
    - rewrite !dist_exact_eps0 by assumption. reflexivity.
    - rewrite !pd_val_wrong_length by assumption. reflexivity.
  Qed.

  (* ---------------- (N) normalisation up to the truncation ---------------- *)
  Theorem dist_total_bounds b eps n l (U : @mat C) ins :
    0 <= eps -> lunit cops (n + l) U -> length ins = n ->
    1 - eps * INR (n_full_states n l ins) <= pd_total rops (full_dist rops b eps n l U ins) <= 1.
  Proof.
    intros He HU Hl. unfold n_full_states.
    assert (Hpos : 0 <= eps * INR (length (focks (n + l) (osum ins)))) by (apply Rmult_le_pos; [exact He|apply pos_INR]).
    rewrite full_dist_cases. destruct (Nat.eqb_spec (osum ins) 0) as [Hi|Hi].
    - rewrite pd_total_suml, sumR_cons, sumR_nil. cbn [snd]. lra.
    - pose proof (fock_sums_enum_pad ins n l Hl Hi) as HL.
      pose proof (ins_pad_length ins n l Hl) as Hl'. pose proof (ins_pad_osum ins l) as Hs'.
      rewrite <- Hs' in Hpos |- *.
      destruct b.
      + rewrite (perm_final_total n l _ (perm_pd_no_vac eps n l U _ _ HL)).
        pose proof (perm_tb_le eps _ n l U ins HU Hl HL) as Hle.
        pose proof (marg_nonneg U n l ins (repeat 0%nat n)) as Hm.
        destruct (klt rops (pd_total rops _) 1) eqn:E1; destruct (l =? 0)%nat eqn:E2; cbn [andb negb]; try lra.
        * apply Nat.eqb_eq in E2. subst l. split; [|lra].
          rewrite perm_tb_lossless by (first [exact HL | rewrite Hs'; exact Hi]).
          pose proof (enum_thr_bounds eps (n + 0) U _ _ He HU Hl' HL) as B. lra.
        * apply Nat.eqb_eq in E2. subst l. split; [|lra].
          rewrite perm_tb_lossless by (first [exact HL | rewrite Hs'; exact Hi]).
          pose proof (enum_thr_bounds eps (n + 0) U _ _ He HU Hl' HL) as B. lra.
        * apply klt_false in E1. lra.
      + rewrite slos_pd_total.
        pose proof (enum_thr_bounds eps (n + l) U _ _ He HU Hl' (slos_keys_enum (n + l) U _)) as B.
        exact B.
  Qed.

  Corollary dist_total_eps0 b n l (U : @mat C) ins :
    lunit cops (n + l) U -> length ins = n -> pd_total rops (full_dist rops b 0 n l U ins) = 1.
  Proof.
    intros HU Hl. pose proof (dist_total_bounds b 0 n l U ins (Rle_refl 0) HU Hl) as B. lra.
  Qed.
End FullDistUnitary.

(* ------------------------------------------------------------------ *)
(* pdist_calc (State variant): mixtures of inputs                      *)
(* ------------------------------------------------------------------ *)
Section Mixture.
  Local Open Scope R_scope.
  Notation pdict := (@pdict R).

  (* the inputs of pdist_calc: states of n modes with weights >= 0 summing to 1 *)
  Definition mixture (n : nat) (inputs : pdict) : Prop :=
    (forall ip, In ip inputs -> length (fst ip) = n /\ 0 <= snd ip) /\ pd_total rops inputs = 1.

  (* the expectation of a quantity over the mixture *)
  Definition mix (inputs : pdict) (f : list nat -> R) : R := suml rops inputs (fun ip => f (fst ip) * snd ip).

  Definition mix_fold (sub : list nat -> pdict) (inputs : pdict) (d0 : pdict) : pdict :=
    fold_left (fun pd ip =>
                 fold_left (fun pd sp => pd_add rops pd (fst sp) (kmul rops (snd sp) (snd ip))) (sub (fst ip)) pd)
              inputs d0.

  Lemma inner_eq (S : pdict) (w : R) (pd : pdict) :
    fold_left (fun pd sp => pd_add rops pd (fst sp) (kmul rops (snd sp) w)) S pd =
    pd_fold (fun _ => true) (fun sp => fst sp) (fun sp => snd sp * w) S pd.
  Proof. reflexivity. Qed.

  Lemma mix_fold_val sub inputs d0 t :
    (forall ip, In ip inputs -> NoDup (pd_keys (sub (fst ip)))) ->
    pd_val (mix_fold sub inputs d0) t = pd_val d0 t + mix inputs (fun ins => pd_val (sub ins) t).
  Proof.
    unfold mix_fold, mix. revert d0. induction inputs as [|ip inputs IH]; intros d0 H; cbn [fold_left].
    - rewrite sumR_nil. lra.
    - rewrite IH by (intros; apply H; right; assumption). rewrite sumR_cons, inner_eq, pd_fold_val.
      assert (E : suml rops (sub (fst ip)) (fun x => if true && nlist_eqb (fst x) t then snd x * snd ip else 0) =
                  pd_val (sub (fst ip)) t * snd ip).
      { rewrite <- (sumR_pick _ t (H ip (or_introl eq_refl))), <- sumR_mul_r. apply sumR_ext. intros x _.
        cbn [andb]. destruct (nlist_eqb (fst x) t); lra. }
      rewrite E. lra.
  Qed.

  Lemma mix_fold_total sub inputs d0 :
    pd_total rops (mix_fold sub inputs d0) = pd_total rops d0 + mix inputs (fun ins => pd_total rops (sub ins)).
  Proof.
    unfold mix_fold, mix. revert d0. induction inputs as [|ip inputs IH]; intros d0; cbn [fold_left].
    - rewrite sumR_nil. lra.
    - rewrite IH, sumR_cons, inner_eq, pd_fold_total, (pd_total_suml (sub (fst ip))), <- sumR_mul_r. lra.
  Qed.

  Lemma mix_fold_keys sub inputs d0 t :
    In t (pd_keys (mix_fold sub inputs d0)) <->
    In t (pd_keys d0) \/ exists ip, In ip inputs /\ In t (pd_keys (sub (fst ip))).
  Proof.
    unfold mix_fold. revert d0. induction inputs as [|ip inputs IH]; intros d0; cbn [fold_left].
    - split; [intros H; left; exact H|]. intros [H|[ip [[] _]]]. exact H.
    - rewrite IH, inner_eq, pd_fold_keys. split.
      + intros [[H|[x [Hx [_ Hk]]]]|[ip' [Hip Hin]]].
        * left. exact H.
        * right. exists ip. split; [left; reflexivity|]. subst t. apply in_map. exact Hx.
        * right. exists ip'. split; [right; exact Hip|exact Hin].
      + intros [H|[ip' [[Hip|Hip] Hin]]].
        * left. left. exact H.
        * subst ip'. left. right. apply in_map_iff in Hin. destruct Hin as [x [Hk Hx]].
          exists x. split; [exact Hx|]. split; [reflexivity|exact Hk].
        * right. exists ip'. split; assumption.
  Qed.

  Lemma mix_fold_nodup sub inputs d0 : NoDup (pd_keys d0) -> NoDup (pd_keys (mix_fold sub inputs d0)).
  Proof.
    unfold mix_fold. revert d0. induction inputs as [|ip inputs IH]; intros d0 H; cbn [fold_left]; [exact H|].
    apply IH. rewrite inner_eq. apply pd_fold_nodup. exact H.
  Qed.

  Lemma mix_fold_nonneg sub inputs d0 :
    pd_nonneg d0 -> (forall ip, In ip inputs -> 0 <= snd ip /\ pd_nonneg (sub (fst ip))) ->
    pd_nonneg (mix_fold sub inputs d0).
  Proof.
    unfold mix_fold. revert d0. induction inputs as [|ip inputs IH]; intros d0 H Hi; cbn [fold_left]; [exact H|].
    apply IH; [|intros; apply Hi; right; assumption]. rewrite inner_eq.
    destruct (Hi ip (or_introl eq_refl)) as [Hw Hs].
    apply pd_fold_nonneg; [exact H|]. intros [k v] Hin _. cbn [snd].
    apply Rmult_le_pos; [apply (Hs k v Hin)|exact Hw].
  Qed.

  Lemma mix_le inputs f g :
    (forall ip, In ip inputs -> 0 <= snd ip /\ f (fst ip) <= g (fst ip)) -> mix inputs f <= mix inputs g.
  Proof.
    intros H. unfold mix. apply sumR_le. intros ip Hin. destruct (H ip Hin) as [Hw Hfg].
    apply Rmult_le_compat_r; assumption.
  Qed.

  Lemma mix_ext inputs f g : (forall ip, In ip inputs -> f (fst ip) = g (fst ip)) -> mix inputs f = mix inputs g.
  Proof. intros H. unfold mix. apply sumR_ext. intros ip Hin. rewrite (H ip Hin). reflexivity. Qed.

  Lemma mix_const inputs c : mix inputs (fun _ => c) = c * pd_total rops inputs.
  Proof.
    unfold mix. rewrite pd_total_suml.
    exact (suml_mul_l (o:=rops) inputs c (fun kv => snd kv)).
  Qed.

  Lemma pdist_calc_eq b eps n l (U : @mat C) inputs :
    pdist_calc rops b eps n l U inputs =
    let pd := mix_fold (full_dist rops b eps n l U) inputs [] in
    if klt rops (pd_total rops pd) 1 && negb (l =? 0)%nat
    then pd_set pd (repeat 0%nat n) (pd_val pd (repeat 0%nat n) + (1 - pd_total rops pd)) else pd.
  Proof. reflexivity. Qed.

  Lemma pdist_calc_overwrite_eq b eps n l (U : @mat C) inputs :
    pdist_calc_overwrite rops b eps n l U inputs =
    let pd := mix_fold (full_dist rops b eps n l U) inputs [] in
    if klt rops (pd_total rops pd) 1 && negb (l =? 0)%nat
    then pd_set pd (repeat 0%nat n) (1 - pd_total rops pd) else pd.
  Proof. reflexivity. Qed.

  Section Fixed.
    Variables (b : backend) (eps : R) (n l : nat) (U : @mat C) (inputs : pdict).
    Hypothesis Hmix : mixture n inputs.
    Let pd := mix_fold (full_dist rops b eps n l U) inputs [].

    Lemma mixture_nodup ip : In ip inputs -> NoDup (pd_keys (full_dist rops b eps n l U (fst ip))).
    Proof. intros Hin. apply dist_keys. apply (proj1 Hmix ip Hin). Qed.

    Lemma mixture_nonempty : inputs <> [].
    Proof. intros E. destruct Hmix as [_ H]. rewrite E, pd_total_nil in H. lra. Qed.

    (* the accumulated dictionary before the vacuum step *)
    Lemma pre_val t : pd_val pd t = mix inputs (fun ins => pd_val (full_dist rops b eps n l U ins) t).
    Proof. unfold pd. rewrite mix_fold_val by exact mixture_nodup. rewrite pd_val_nil. lra. Qed.

    Lemma pre_total : pd_total rops pd = mix inputs (fun ins => pd_total rops (full_dist rops b eps n l U ins)).
    Proof. unfold pd. rewrite mix_fold_total, pd_total_nil. lra. Qed.

    Lemma pre_total_le : 0 <= eps -> lunit cops (n + l) U -> pd_total rops pd <= 1.
    Proof.
      intros He HU. rewrite pre_total. rewrite <- (proj2 Hmix), <- (Rmult_1_l (pd_total rops inputs)), <- mix_const.
      apply mix_le. intros ip Hin. destruct (proj1 Hmix ip Hin) as [Hl Hw]. split; [exact Hw|].
      apply (dist_total_bounds b eps n l U (fst ip) He HU Hl).
    Qed.

    Lemma pre_total_ge (M : nat) :
      0 <= eps -> lunit cops (n + l) U ->
      (forall ip, In ip inputs -> (n_full_states n l (fst ip) <= M)%nat) ->
      1 - eps * INR M <= pd_total rops pd.
    Proof.
      intros He HU HM. rewrite pre_total.
      assert (E : 1 - eps * INR M = mix inputs (fun _ => 1 - eps * INR M)) by (rewrite mix_const, (proj2 Hmix); lra).
      rewrite E. apply mix_le. intros ip Hin. destruct (proj1 Hmix ip Hin) as [Hl Hw]. split; [exact Hw|].
      pose proof (dist_total_bounds b eps n l U (fst ip) He HU Hl) as B.
      assert (INR (n_full_states n l (fst ip)) <= INR M) by (apply le_INR, HM, Hin).
      assert (eps * INR (n_full_states n l (fst ip)) <= eps * INR M) by (apply Rmult_le_compat_l; assumption).
      lra.
    Qed.

    (* ---------------- totals ---------------- *)
    Theorem pdist_total_lossy :
      0 <= eps -> lunit cops (n + l) U -> l <> 0%nat -> pd_total rops (pdist_calc rops b eps n l U inputs) = 1.
    Proof.
      intros He HU Hlne. rewrite pdist_calc_eq. cbv zeta. fold pd.
      pose proof (pre_total_le He HU) as Hle.
      destruct (klt rops (pd_total rops pd) 1) eqn:E1; cbn [andb].
      - rewrite (proj2 (Nat.eqb_neq _ _) Hlne). cbn [negb]. rewrite pd_set_total. lra.
      - apply klt_false in E1. lra.
    Qed.

    Theorem pdist_total_bounds (M : nat) :
      0 <= eps -> lunit cops (n + l) U ->
      (forall ip, In ip inputs -> (n_full_states n l (fst ip) <= M)%nat) ->
      1 - eps * INR M <= pd_total rops (pdist_calc rops b eps n l U inputs) <= 1.
    Proof.
      intros He HU HM. rewrite pdist_calc_eq. cbv zeta. fold pd.
      pose proof (pre_total_le He HU) as Hle. pose proof (pre_total_ge M He HU HM) as Hge.
      assert (Hpos : 0 <= eps * INR M) by (apply Rmult_le_pos; [exact He|apply pos_INR]).
      destruct (klt rops (pd_total rops pd) 1 && negb (l =? 0)%nat); [|lra].
      rewrite pd_set_total. lra.
    Qed.

    (* ---------------- signs and keys ---------------- *)
    Theorem pdist_nonneg : pd_nonneg (pdist_calc rops b eps n l U inputs).
    Proof.
      rewrite pdist_calc_eq. cbv zeta. fold pd.
      assert (Hpd : pd_nonneg pd).
      { apply mix_fold_nonneg; [intros ? ? []|]. intros ip Hin. split; [apply (proj1 Hmix ip Hin)|apply dist_nonneg]. }
      destruct (klt rops (pd_total rops pd) 1) eqn:E1; cbn [andb]; [|exact Hpd].
      destruct (negb (l =? 0)%nat); [|exact Hpd]. apply klt_true in E1.
      apply pd_set_nonneg; [exact Hpd|]. pose proof (pd_val_nonneg pd (repeat 0%nat n) Hpd). lra.
    Qed.

    Lemma pre_keys k :
      In k (pd_keys pd) -> length k = n /\ exists ip, In ip inputs /\ (osum k <= osum (fst ip))%nat.
    Proof.
      intros Hin. unfold pd in Hin. apply mix_fold_keys in Hin. destruct Hin as [[]|[ip [Hip Hin]]].
      destruct (proj1 Hmix ip Hip) as [Hl _].
      apply (proj2 (dist_keys b eps n l U (fst ip) Hl)) in Hin. destruct Hin as [H1 H2].
      split; [exact H1|]. exists ip. split; assumption.
    Qed.

    Theorem pdist_keys :
      NoDup (pd_keys (pdist_calc rops b eps n l U inputs)) /\
      forall k, In k (pd_keys (pdist_calc rops b eps n l U inputs)) ->
                length k = n /\ exists ip, In ip inputs /\ (osum k <= osum (fst ip))%nat.
    Proof.
      rewrite pdist_calc_eq. cbv zeta. fold pd.
      assert (Hnd : NoDup (pd_keys pd)) by (apply mix_fold_nodup; constructor).
      destruct (klt rops (pd_total rops pd) 1 && negb (l =? 0)%nat).
      - split; [apply pd_set_nodup; exact Hnd|]. intros k Hin. apply pd_set_keys in Hin.
        destruct Hin as [Hin| ->]; [apply pre_keys; exact Hin|].
        rewrite repeat_length, osum_repeat0. split; [reflexivity|].
        pose proof mixture_nonempty as Hne. destruct inputs as [|ip rest]; [contradiction|].
        exists ip. split; [left; reflexivity|lia].
      - split; [exact Hnd|]. intros k Hin. apply pre_keys. exact Hin.
    Qed.

    (* ---------------- values ---------------- *)
    Theorem pdist_value_nonvac k :
      length k = n -> osum k <> 0%nat ->
      pd_val (pdist_calc rops b eps n l U inputs) k = mix inputs (fun ins => margt eps U n l ins k).
    Proof.
      intros Hk Hnz. rewrite pdist_calc_eq. cbv zeta. fold pd.
      assert (Hv : pd_val pd k = mix inputs (fun ins => margt eps U n l ins k)).
      { rewrite pre_val. apply mix_ext. intros ip Hin. apply dist_value_nonvac; [apply (proj1 Hmix ip Hin)|exact Hk|exact Hnz]. }
      destruct (klt rops (pd_total rops pd) 1 && negb (l =? 0)%nat); [|exact Hv].
      rewrite pd_set_val, (proj2 (nlist_eqb_neq (repeat 0%nat n) k)); [exact Hv|].
      intros E. apply Hnz. rewrite <- E. apply osum_repeat0.
    Qed.

    Theorem pdist_upper k :
      length k = n -> osum k <> 0%nat ->
      pd_val (pdist_calc rops b eps n l U inputs) k <= mix inputs (fun ins => marg U n l ins k).
    Proof.
      intros Hk Hnz. rewrite pdist_value_nonvac by assumption. apply mix_le. intros ip Hin.
      split; [apply (proj1 Hmix ip Hin)|apply margt_le].
    Qed.
  End Fixed.

  (* eps = 0: the mixture of the marginals, for every pattern *)
  Theorem pdist_exact_eps0 b n l (U : @mat C) inputs k :
    mixture n inputs -> lunit cops (n + l) U -> length k = n ->
    pd_val (pdist_calc rops b 0 n l U inputs) k = mix inputs (fun ins => marg U n l ins k).
  Proof.
    intros Hmix HU Hk. rewrite pdist_calc_eq. cbv zeta.
    set (pd := mix_fold (full_dist rops b 0 n l U) inputs []).
    assert (Ht : pd_total rops pd = 1).
    { unfold pd. rewrite (pre_total b 0 n l U inputs).
      rewrite (mix_ext inputs _ (fun _ => 1)).
      - rewrite mix_const, (proj2 Hmix). lra.
      - intros ip Hin. apply dist_total_eps0; [exact HU|apply (proj1 Hmix ip Hin)]. }
    rewrite Ht. replace (klt rops 1 1) with false by (symmetry; apply klt_false; lra). cbn [andb].
    unfold pd. rewrite (pre_val b 0 n l U inputs Hmix). apply mix_ext. intros ip Hin.
    apply dist_exact_eps0; [exact HU|apply (proj1 Hmix ip Hin)|exact Hk].
  Qed.
End Mixture.

(* ------------------------------------------------------------------ *)
(* reading aids                                                        *)
(* ------------------------------------------------------------------ *)
(* the count of full output states is the size of the basis the code enumerates *)
Lemma n_full_states_fock_sums n l ins :
  (0 < n + l)%nat -> n_full_states n l ins = length (fock_sums (n + l) (osum ins)).
Proof.
  intros H. unfold n_full_states. apply Permutation_length.
  apply (fock_enum_perm _ _ (n + l) (osum ins) (focks_enum _ _) (fock_sums_enum _ _ H)).
Qed.

(* focks enumerates exactly the occupation lists of l modes holding m photons *)
Lemma focks_exact l m t : In t (focks l m) <-> length t = l /\ osum t = m.
Proof. apply focks_spec. Qed.

Lemma marg_identity_example : marg (mid cops) 1 0 [1] [1] = 1%R.
Proof.
  unfold marg. simpl. unfold prob_of, amp_perm, amp_factor, kofnat, expand. simpl.
  unfold cnorm2, cmul. simpl. field.
Qed.

Lemma mixture_example : mixture 2 [([1; 0], (1 / 2)%R); ([0; 0], (1 / 2)%R)].
Proof.
  split.
  - intros ip [<-|[<-|[]]]; simpl; split; try reflexivity; lra.
  - rewrite pd_total_suml. simpl. lra.
Qed.

(* ------------------------------------------------------------------ *)
(* C03: Simulator.simulate(outputs=None) on a lossless herald-free      *)
(* circuit returns a unit vector                                       *)
(* ------------------------------------------------------------------ *)
Section SimUnit.
  Local Open Scope R_scope.

  (* |amplitude|^2 of an entry (permanent, product of factorials) of the result array *)
  Definition amp_prob (e : C * nat) : R := cnorm2 rops (fst e) * / IZR (Z.of_nat (snd e)).

  Lemma zsum_znat i : Forall (fun x => (0 <= x)%Z) i -> Z.to_nat (zsum i) = osum (znat i).
  Proof.
    induction 1 as [|x i Hx Hi IH]; [reflexivity|].
    assert (Hs : (0 <= zsum i)%Z) by (clear IH; induction Hi as [|y i Hy Hi IH]; simpl; lia).
    simpl zsum. simpl znat. rewrite osum_cons, <- IH, Z2Nat.inj_add by lia. reflexivity.
  Qed.

  Lemma znat_of_nat t : znat (map Z.of_nat t) = t.
  Proof.
    unfold znat. rewrite map_map. induction t as [|x t IH]; [reflexivity|]. simpl.
    rewrite Nat2Z.id, IH. reflexivity.
  Qed.

  Lemma Forall2_eq_map {A B} (f : A -> B) l r : Forall2 (fun a b => b = f a) l r -> r = map f l.
  Proof. induction 1 as [|a b l r E _ IH]; [reflexivity|]. simpl. rewrite E, IH. reflexivity. Qed.

  Theorem simulate_unit_vector N (U : @mat C) i outs rows :
    (0 < N)%nat -> unitary cops N U ->
    simulate rops N 0 U [] [] N [i] None = Ok (outs, rows) ->
    exists row, rows = [row] /\ length row = length outs /\ suml rops row amp_prob = 1.
  Proof.
    intros HN HU H.
    assert (Hv : SimP.valid_state N i).
    { unfold simulate in H. destruct (check_states N [i]) as [[]|e] eqn:E; [|discriminate].
      apply SimP.check_states_ok in E. inversion E. assumption. }
    destruct Hv as [Hlen Hpos].
    destruct (SimP.simulate_entries rops _ _ _ _ _ _ _ _ _ _ H) as [Ho Hr]. revert Ho.
    inversion Hr as [|i' row l' rows' Hrow Hrest]; subst. inversion Hrest; subst. clear Hr Hrest. intros Ho.
    destruct Hrow as [fi [Hfi Hrow]]. simpl in Hfi. injection Hfi as <-.
    exists row. split; [reflexivity|].
    assert (E : row = map (fun x => (amp_perm cops U (znat i ++ repeat 0%nat 0) (znat x ++ repeat 0%nat 0),
                                     amp_factor (znat i ++ repeat 0%nat 0) (znat x ++ repeat 0%nat 0))) outs).
    { apply Forall2_eq_map. eapply SimP.Forall2_impl; [|exact Hrow]. intros x e [fx [Hfx He]].
      simpl in Hfx. injection Hfx as <-. exact He. }
    split; [rewrite E, map_length; reflexivity|].
    rewrite E, Ho. cbn [hd]. rewrite <- sumR_map, <- sumR_map.
    rewrite (zsum_znat i Hpos).
    rewrite <- (fock_unitarity (length i) U (znat i) HN HU) by (unfold znat; apply map_length).
    apply sumR_ext. intros t _. cbn [repeat]. rewrite !app_nil_r, znat_of_nat. reflexivity.
  Qed.
End SimUnit.

(* ------------------------------------------------------------------ *)
(* regression witness for the repaired defect F1 (exact rationals)     *)
(* ------------------------------------------------------------------ *)
(* One photon into mode 0 of: a beam splitter on modes 0,1 with transmission
   amplitude s = 2ab/(a^2+b^2), a = 10^5, b = 1 (s ~ 2e-5, s^2 ~ 4e-10 < 1e-9),
   then a loss element on mode 0 (amplitudes 3/5 kept, 4/5 into the loss mode 2).
   The slos back end drops the state |0,1,0> (probability s^2 < eps) and already
   holds the vacuum pattern with probability (4/5)^2 c^2, so the accumulated
   total is c^2 < 1; the old code then REPLACED the vacuum entry by 1 - c^2 =
   s^2 and returned a distribution of total (3/5)^2 c^2 + s^2 ~ 0.36; the
   repaired code ADDS the missing s^2 and returns total 1. *)
From Coq Require Import QArith Qcanon.
From LW Require Import Base.QI2.

Module F1Witness.
  Definition q (a b : Z) : Qc := Q2Qc (Qmake a (Z.to_pos b)).
  Definition re (x : Qc) : Qc * Qc := (x, Q2Qc 0).
  Definition c : Qc := q 9999999999 10000000001.
  Definition s : Qc := q 200000 10000000001.
  Definition t : Qc := q 3 5.
  Definition r : Qc := q 4 5.
  Definition eps : Qc := q 1 1000000000.
  Definition U : @mat (Qc * Qc) :=
    of_rows (cplx qcops)
            [[re (t * c)%Qc; re (- (t * s))%Qc; re (- r)%Qc];
             [re s;          re c;              re (q 0 1)];
             [re (r * c)%Qc; re (- (r * s))%Qc; re t]].
  Definition unitaryb (n : nat) (V : @mat (Qc * Qc)) : bool :=
    forallb (fun i => forallb (fun j =>
       ceqb qcops (mmul (cplx qcops) n (madj (cplx qcops) V) V i j) (mid (cplx qcops) i j) &&
       ceqb qcops (mmul (cplx qcops) n V (madj (cplx qcops) V) i j) (mid (cplx qcops) i j))
       (seq 0 n)) (seq 0 n).
  Definition input : @pdict Qc := [([1; 0]%nat, q 1 1)].
  Definition old_dist := pdist_calc_overwrite qcops Slos eps 2 1 U input.
  Definition new_dist := pdist_calc qcops Slos eps 2 1 U input.
End F1Witness.

Theorem pdist_overwrite_loses_mass :
  exists (U : @mat (Qc * Qc)) (inputs : @pdict Qc) (eps : Qc),
    F1Witness.unitaryb 3 U = true /\ pd_total qcops inputs = Q2Qc 1 /\
    (* old behaviour: total below one half *)
    klt qcops (pd_total qcops (pdist_calc_overwrite qcops Slos eps 2 1 U inputs)) (F1Witness.q 1 2) = true /\
    (* repaired behaviour: total exactly one *)
    keqb qcops (pd_total qcops (pdist_calc qcops Slos eps 2 1 U inputs)) (Q2Qc 1) = true.
Proof.
  exists F1Witness.U, F1Witness.input, F1Witness.eps. vm_compute.
  repeat split; apply Qc_is_canon; reflexivity.
Qed.
