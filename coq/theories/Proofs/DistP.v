(* Property C04: the probability distributions of Model/Fock.v
   (Backend.full_probability_distribution for both back ends, pdist_calc) over
   the Coq reals.

   Specification (independent of the loops of the code):
     marg U n l ins k  = total probability of the pattern k on the n circuit
                         modes, summed over every occupation of the l loss modes
                         by the remaining photons;
     margt eps ...     = the same sum with each full state of probability <= eps
                         dropped (the documented per-state truncation);
     pd_val d k        = the value of the dictionary d at k, 0 when k is absent.
   Results: for every matrix, both back ends assign margt eps to every
   non-vacuum pattern; for a unitary matrix and eps = 0 both assign marg to every
   pattern (the vacuum one included); values are >= 0, keys are duplicate-free
   patterns of n modes with at most the injected photons, the total lies in
   [1 - eps * #full states, 1]; the same for pdist_calc on a normalised mixture
   of inputs, whose total is exactly 1 on a lossy circuit. *)
From Coq Require Import ZArith Arith Lia List Bool Permutation Reals Lra.
From LW Require Import Base.Num Base.Sums Base.Mat Base.RInst Model.State Model.Fock
     Proofs.StateP Proofs.PermP Proofs.SlosP Proofs.FockUnitP.
Import ListNotations.
Open Scope nat_scope.

(* ------------------------------------------------------------------ *)
(* the specification                                                   *)
(* ------------------------------------------------------------------ *)
Definition pd_keys (d : @pdict R) : list (list nat) := map fst d.
Definition pd_val (d : @pdict R) (k : list nat) : R :=
  match pd_get d k with Some v => v | None => 0%R end.
Definition pd_nonneg (d : @pdict R) : Prop := forall k v, In (k, v) d -> (0 <= v)%R.

(* the probability of pattern k on the circuit modes: sum over all occupations
   lo of the loss modes by the photons that are not in k.  (When k holds more
   photons than ins the subtraction truncates to 0 and the single term is the
   probability of a photon-number violating transition, which is 0:
   [marg_excess].) *)
Definition marg (U : @mat C) (n l : nat) (ins k : list nat) : R :=
  suml rops (focks l (osum ins - osum k))
       (fun lo => prob_of rops U (ins ++ repeat 0 l) (k ++ lo)).

(* per-state truncation: a full state contributes only if its probability exceeds eps *)
Definition thr (eps p : R) : R := if klt rops eps p then p else 0%R.
Definition margt (eps : R) (U : @mat C) (n l : nat) (ins k : list nat) : R :=
  suml rops (focks l (osum ins - osum k))
       (fun lo => thr eps (prob_of rops U (ins ++ repeat 0 l) (k ++ lo))).

(* number of full output states (circuit + loss modes) of the input's photon number *)
Definition n_full_states (n l : nat) (ins : list nat) : nat := length (focks (n + l) (osum ins)).

(* the behaviour before the repair of finding F1: the vacuum entry is
   overwritten with 1 - total instead of receiving the missing probability *)
Definition pdist_calc_overwrite {K} (o : ops K) (b : backend) (eps : K) (n l : nat) (U : @mat (K * K))
           (inputs : @pdict K) : @pdict K :=
  let pd := fold_left (fun pd ip =>
                         let sub := full_dist o b eps n l U (fst ip) in
                         fold_left (fun pd sp => pd_add o pd (fst sp) (kmul o (snd sp) (snd ip))) sub pd)
                      inputs [] in
  let total := pd_total o pd in
  if klt o total (k1 o) && negb (Nat.eqb l 0)
  then pd_set pd (repeat 0 n) (ksub o (k1 o) total)
  else pd.

(* ------------------------------------------------------------------ *)
(* real sums                                                           *)
(* ------------------------------------------------------------------ *)
Section SumR.
  Local Open Scope R_scope.

  Lemma sumR_cons {A} (a : A) L f : suml rops (a :: L) f = f a + suml rops L f.
  Proof. reflexivity. Qed.

  Lemma sumR_nil {A} (f : A -> R) : suml rops [] f = 0.
  Proof. reflexivity. Qed.

  Lemma sumR_filter {A} (p : A -> bool) (l : list A) f :
    suml rops l (fun a => if p a then f a else 0) = suml rops (filter p l) f.
  Proof. symmetry. exact (suml_filter (r:=rops) p l f). Qed.

  Lemma sumR_map {A B} (g : A -> B) (l : list A) (f : B -> R) :
    suml rops l (fun a => f (g a)) = suml rops (map g l) f.
  Proof. symmetry. exact (suml_map (r:=rops) g l f). Qed.

  Lemma sumR_ext {A} (l : list A) f g : (forall a, In a l -> f a = g a) -> suml rops l f = suml rops l g.
  Proof. exact (suml_ext (o:=rops) l f g). Qed.

  Lemma sumR_add {A} (l : list A) f g :
    suml rops l (fun a => f a + g a) = suml rops l f + suml rops l g.
  Proof. exact (suml_add (o:=rops) l f g). Qed.

  Lemma sumR_mul_r {A} (l : list A) c f : suml rops l (fun a => f a * c) = suml rops l f * c.
  Proof. exact (suml_mul_r (r:=rops) l c f). Qed.

  Lemma sumR_le {A} (l : list A) f g : (forall a, In a l -> f a <= g a) -> suml rops l f <= suml rops l g.
  Proof.
    induction l as [|a l IH]; intros H; [rewrite !sumR_nil; lra|]. rewrite !sumR_cons.
    pose proof (H a (or_introl eq_refl)).
    assert (suml rops l f <= suml rops l g) by (apply IH; intros; apply H; right; assumption). lra.
  Qed.

  Lemma sumR_const {A} (l : list A) c : suml rops l (fun _ => c) = INR (length l) * c.
  Proof.
    induction l as [|a l IH]; [rewrite sumR_nil; simpl; lra|].
    rewrite sumR_cons, IH. change (length (a :: l)) with (S (length l)). rewrite S_INR. lra.
  Qed.

  Lemma sumR_zero {A} (l : list A) f : (forall a, In a l -> f a = 0) -> suml rops l f = 0.
  Proof. exact (suml_zero' (r:=rops) l f). Qed.

  Lemma sumR_nonneg {A} (l : list A) f : (forall a, In a l -> 0 <= f a) -> 0 <= suml rops l f.
  Proof. exact (suml_rops_nonneg l f). Qed.
End SumR.

(* ------------------------------------------------------------------ *)
(* dictionaries                                                        *)
(* ------------------------------------------------------------------ *)
Section DictR.
  Local Open Scope R_scope.
  Notation pdict := (@pdict R).

  Lemma klt_true a b : klt rops a b = true <-> a < b.
  Proof.
    unfold klt. simpl. destruct (Rle_dec b a); simpl; split; intros H; try discriminate; try reflexivity; lra.
  Qed.

  Lemma klt_false a b : klt rops a b = false <-> b <= a.
  Proof.
    unfold klt. simpl. destruct (Rle_dec b a); simpl; split; intros H; try discriminate; try reflexivity; lra.
  Qed.

  Lemma thr_bounds eps p : 0 <= eps -> 0 <= p -> 0 <= thr eps p <= p /\ p - eps <= thr eps p.
  Proof.
    intros He Hp. unfold thr. destruct (klt rops eps p) eqn:E.
    - lra.
    - apply klt_false in E. lra.
  Qed.

  Lemma thr_0 p : 0 <= p -> thr 0 p = p.
  Proof.
    intros Hp. unfold thr. destruct (klt rops 0 p) eqn:E; [reflexivity|]. apply klt_false in E. lra.
  Qed.

  Lemma thr_of_0 eps : thr eps 0 = 0.
  Proof. unfold thr. destruct (klt rops eps 0); reflexivity. Qed.

  Lemma pd_total_acc (d : pdict) a :
    fold_left (fun acc kv => kadd rops acc (snd kv)) d a = a + suml rops d (fun kv => snd kv).
  Proof.
    revert a. induction d as [|kv d IH]; intros a; cbn [fold_left].
    - rewrite sumR_nil. lra.
    - rewrite IH, sumR_cons. simpl. lra.
  Qed.

  Lemma pd_total_suml (d : pdict) : pd_total rops d = suml rops d (fun kv => snd kv).
  Proof. unfold pd_total. rewrite pd_total_acc. simpl. lra. Qed.

  Lemma pd_total_nil : pd_total rops [] = 0.
  Proof. reflexivity. Qed.

  Lemma pd_get_none (d : pdict) t : pd_get d t = None <-> ~ In t (pd_keys d).
  Proof. exact (fd_get_none d t). Qed.

  Lemma pd_val_absent (d : pdict) t : ~ In t (pd_keys d) -> pd_val d t = 0.
  Proof. intros H. unfold pd_val. apply pd_get_none in H. rewrite H. reflexivity. Qed.

  Lemma pd_get_in (d : pdict) t v : pd_get d t = Some v -> In (t, v) d.
  Proof.
    induction d as [|[k' v'] d IH]; simpl; [discriminate|].
    destruct (nlist_eqb k' t) eqn:E.
    - apply nlist_eqb_eq in E. subst. intros H. injection H as <-. left. reflexivity.
    - intros H. right. apply IH. exact H.
  Qed.

  Lemma pd_val_nonneg (d : pdict) t : pd_nonneg d -> 0 <= pd_val d t.
  Proof.
    intros H. unfold pd_val. destruct (pd_get d t) as [v|] eqn:E; [|lra].
    apply pd_get_in in E. apply (H t v E).
  Qed.

  (* ---- pd_add ---- *)
  Lemma pd_add_keys (d : pdict) k v t : In t (pd_keys (pd_add rops d k v)) <-> In t (pd_keys d) \/ t = k.
  Proof. exact (fd_add_keys (r:=rops) d k v t). Qed.

  Lemma pd_add_nodup (d : pdict) k v : NoDup (pd_keys d) -> NoDup (pd_keys (pd_add rops d k v)).
  Proof. exact (fd_add_nodup (r:=rops) d k v). Qed.

  Lemma pd_add_val (d : pdict) k v t :
    pd_val (pd_add rops d k v) t = pd_val d t + (if nlist_eqb k t then v else 0).
  Proof. exact (fd_add_val (r:=rops) d k v t). Qed.

  Lemma pd_add_total (d : pdict) k v : pd_total rops (pd_add rops d k v) = pd_total rops d + v.
  Proof.
    rewrite !pd_total_suml. induction d as [|[k' v'] d IH]; cbn [pd_add].
    - rewrite !sumR_cons, !sumR_nil. cbn [snd]. lra.
    - destruct (nlist_eqb k' k); rewrite !sumR_cons; cbn [snd].
      + cbn [kadd rops]. lra.
      + rewrite IH. lra.
  Qed.

  Lemma pd_add_nonneg (d : pdict) k v : pd_nonneg d -> 0 <= v -> pd_nonneg (pd_add rops d k v).
  Proof.
    intros Hd Hv. induction d as [|[k' v'] d IH]; simpl.
    - intros t w [E|[]]. injection E as _ <-. exact Hv.
    - assert (Hv' : 0 <= v') by (apply (Hd k'); left; reflexivity).
      assert (Hd' : pd_nonneg d) by (intros t w Hin; apply (Hd t); right; exact Hin).
      destruct (nlist_eqb k' k).
      + intros t w [E|Hin]; [injection E as _ <-; simpl; lra|apply (Hd' t); exact Hin].
      + intros t w [E|Hin]; [injection E as _ <-; exact Hv'|apply (IH Hd' t); exact Hin].
  Qed.

  (* ---- pd_set ---- *)
  Lemma pd_set_keys (d : pdict) k v t : In t (pd_keys (pd_set d k v)) <-> In t (pd_keys d) \/ t = k.
  Proof.
    induction d as [|[k' v'] d IH]; simpl.
    - split; [intros [H|[]]; right; symmetry; exact H|intros [[]|H]; left; symmetry; exact H].
    - destruct (nlist_eqb k' k) eqn:E; simpl.
      + apply nlist_eqb_eq in E. subst. split; [intros H; left; exact H|].
        intros [H|H]; [exact H|left; symmetry; exact H].
      + unfold pd_keys in IH. rewrite IH. tauto.
  Qed.

  Lemma pd_set_nodup (d : pdict) k v : NoDup (pd_keys d) -> NoDup (pd_keys (pd_set d k v)).
  Proof.
    induction d as [|[k' v'] d IH]; simpl; intros H.
    - constructor; [intros []|constructor].
    - inversion H as [|? ? Hk Hd]; subst. destruct (nlist_eqb k' k) eqn:E; simpl.
      + constructor; assumption.
      + constructor; [|apply IH; exact Hd]. intros Hin. apply pd_set_keys in Hin.
        destruct Hin as [Hin|Hin]; [contradiction|]. apply nlist_eqb_neq in E. congruence.
  Qed.

  Lemma pd_set_val (d : pdict) k v t :
    pd_val (pd_set d k v) t = if nlist_eqb k t then v else pd_val d t.
  Proof.
    unfold pd_val. induction d as [|[k' v'] d IH]; simpl.
    - destruct (nlist_eqb k t); reflexivity.
    - destruct (nlist_eqb k' k) eqn:E; simpl.
      + apply nlist_eqb_eq in E. subst. destruct (nlist_eqb k t); reflexivity.
      + destruct (nlist_eqb k' t) eqn:E2.
        * apply nlist_eqb_eq in E2. subst. rewrite (proj2 (nlist_eqb_neq k t)); [reflexivity|].
          apply nlist_eqb_neq in E. congruence.
        * exact IH.
  Qed.

  Lemma pd_set_total (d : pdict) k v :
    pd_total rops (pd_set d k v) = pd_total rops d - pd_val d k + v.
  Proof.
    rewrite !pd_total_suml. unfold pd_val. induction d as [|[k' v'] d IH]; cbn [pd_set pd_get].
    - rewrite !sumR_cons, !sumR_nil. cbn [snd]. lra.
    - destruct (nlist_eqb k' k); rewrite !sumR_cons; cbn [snd].
      + lra.
      + rewrite IH. lra.
  Qed.

  Lemma pd_set_nonneg (d : pdict) k v : pd_nonneg d -> 0 <= v -> pd_nonneg (pd_set d k v).
  Proof.
    intros Hd Hv. induction d as [|[k' v'] d IH]; simpl.
    - intros t w [E|[]]. injection E as _ <-. exact Hv.
    - assert (Hv' : 0 <= v') by (apply (Hd k'); left; reflexivity).
      assert (Hd' : pd_nonneg d) by (intros t w Hin; apply (Hd t); right; exact Hin).
      destruct (nlist_eqb k' k).
      + intros t w [E|Hin]; [injection E as _ <-; exact Hv|apply (Hd' t); exact Hin].
      + intros t w [E|Hin]; [injection E as _ <-; exact Hv'|apply (IH Hd' t); exact Hin].
  Qed.

  (* a keyed sum over a duplicate-free dictionary reads the entry *)
  Lemma sumR_pick (d : pdict) t :
    NoDup (pd_keys d) -> suml rops d (fun kv => if nlist_eqb (fst kv) t then snd kv else 0) = pd_val d t.
  Proof.
    intros H. pose proof (suml_fd_pick (r:=rops) d t (fun v => v) H) as E. exact E.
  Qed.

  (* the total is the sum of the values over the keys *)
  Lemma pd_total_keys (d : pdict) : NoDup (pd_keys d) -> pd_total rops d = suml rops (pd_keys d) (pd_val d).
  Proof.
    rewrite pd_total_suml. induction d as [|[k v] d IH]; intros H; [reflexivity|].
    inversion H as [|? ? Hk Hd]; subst. cbn [pd_keys map fst]. rewrite !sumR_cons. cbn [snd].
    rewrite (IH Hd). f_equal.
    - unfold pd_val. simpl. rewrite nlist_eqb_refl. reflexivity.
    - apply sumR_ext. intros t Ht. unfold pd_val. simpl.
      rewrite (proj2 (nlist_eqb_neq k t)); [reflexivity|]. intros ->. contradiction.
  Qed.

  (* ---- a guarded accumulation loop ---- *)
  Definition pd_fold {A} (c : A -> bool) (key : A -> list nat) (val : A -> R) (L : list A) (d0 : pdict) : pdict :=
    fold_left (fun pd x => if c x then pd_add rops pd (key x) (val x) else pd) L d0.

  Lemma pd_fold_val {A} c key val (L : list A) d0 t :
    pd_val (pd_fold c key val L d0) t =
    pd_val d0 t + suml rops L (fun x => if c x && nlist_eqb (key x) t then val x else 0).
  Proof.
    unfold pd_fold. revert d0. induction L as [|x L IH]; intros d0; cbn [fold_left].
    - rewrite sumR_nil. lra.
    - rewrite IH, sumR_cons. destruct (c x); cbn [andb]; [|lra].
      rewrite pd_add_val. lra.
  Qed.

  Lemma pd_fold_total {A} c key val (L : list A) d0 :
    pd_total rops (pd_fold c key val L d0) =
    pd_total rops d0 + suml rops L (fun x => if c x then val x else 0).
  Proof.
    unfold pd_fold. revert d0. induction L as [|x L IH]; intros d0; cbn [fold_left].
    - rewrite sumR_nil. lra.
    - rewrite IH, sumR_cons. destruct (c x); [|lra]. rewrite pd_add_total. lra.
  Qed.

  Lemma pd_fold_keys {A} c key val (L : list A) d0 t :
    In t (pd_keys (pd_fold c key val L d0)) <->
    In t (pd_keys d0) \/ exists x, In x L /\ c x = true /\ key x = t.
  Proof.
    unfold pd_fold. revert d0. induction L as [|x L IH]; intros d0; cbn [fold_left].
    - split; [intros H; left; exact H|]. intros [H|[x [[] _]]]. exact H.
    - rewrite IH. destruct (c x) eqn:E.
      + rewrite pd_add_keys. split.
        * intros [[H|H]|[y [Hy [Hc Hk]]]].
          -- left. exact H.
          -- right. exists x. split; [left; reflexivity|]. split; [exact E|symmetry; exact H].
          -- right. exists y. split; [right; exact Hy|]. split; assumption.
        * intros [H|[y [[Hy|Hy] [Hc Hk]]]].
          -- left. left. exact H.
          -- subst y. left. right. symmetry. exact Hk.
          -- right. exists y. split; [exact Hy|]. split; assumption.
      + split.
        * intros [H|[y [Hy [Hc Hk]]]]; [left; exact H|].
          right. exists y. split; [right; exact Hy|]. split; assumption.
        * intros [H|[y [[Hy|Hy] [Hc Hk]]]].
          -- left. exact H.
          -- subst y. congruence.
          -- right. exists y. split; [exact Hy|]. split; assumption.
  Qed.

  Lemma pd_fold_nodup {A} c key val (L : list A) d0 :
    NoDup (pd_keys d0) -> NoDup (pd_keys (pd_fold c key val L d0)).
  Proof.
    unfold pd_fold. revert d0. induction L as [|x L IH]; intros d0 H; cbn [fold_left]; [exact H|].
    apply IH. destruct (c x); [apply pd_add_nodup|]; exact H.
  Qed.

  Lemma pd_fold_nonneg {A} c key val (L : list A) d0 :
    pd_nonneg d0 -> (forall x, In x L -> c x = true -> 0 <= val x) -> pd_nonneg (pd_fold c key val L d0).
  Proof.
    unfold pd_fold. revert d0. induction L as [|x L IH]; intros d0 H HL; cbn [fold_left]; [exact H|].
    apply IH; [|intros y Hy; apply HL; right; exact Hy].
    destruct (c x) eqn:E; [|exact H]. apply pd_add_nonneg; [exact H|]. apply HL; [left; reflexivity|exact E].
  Qed.

  Lemma fold_left_ext {A B} (f g : A -> B -> A) L a :
    (forall a x, f a x = g a x) -> fold_left f L a = fold_left g L a.
  Proof. intros H. revert a. induction L as [|x L IH]; intros a; simpl; [reflexivity|]. rewrite H. apply IH. Qed.
End DictR.
