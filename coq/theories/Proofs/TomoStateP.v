(* Lemmas for C15 (state tomography) about Model/Tomo.v.
   Part 1: enumeration of measurement strings, dictionaries, dual-rail decoding.
   Part 2: sums.  Part 3: tensor structure (kron) of the Pauli and measurement
   matrices; observables; Pauli completeness; the reconstruction identity. *)
From Coq Require Import ZArith List Bool Arith Lia Ring_theory Ring Permutation.
From LW Require Import Base.Sx Base.Num Base.Sums Base.Mat Base.QI2 Model.Tomo.
Import ListNotations.

(* ------------------------------------------------------------ Part 1: lists *)
Lemma pauli_eqb_eq a b : pauli_eqb a b = true <-> a = b.
Proof. destruct a, b; simpl; split; intros H; try reflexivity; discriminate. Qed.

Lemma mstr_eqb_eq a : forall b, mstr_eqb a b = true <-> a = b.
Proof.
  induction a as [|x a IH]; intros [|y b]; simpl; split; intros H; try reflexivity; try discriminate.
  - apply andb_true_iff in H as [H1 H2]. apply pauli_eqb_eq in H1. apply IH in H2. subst. reflexivity.
  - injection H as -> ->. apply andb_true_iff. split; [apply pauli_eqb_eq|apply IH]; reflexivity.
Qed.

Lemma mstr_eqb_refl a : mstr_eqb a a = true.
Proof. apply mstr_eqb_eq. reflexivity. Qed.

Lemma mstr_eqb_neq a b : a <> b -> mstr_eqb a b = false.
Proof. intros H. destruct (mstr_eqb a b) eqn:E; [|reflexivity]. apply mstr_eqb_eq in E. contradiction. Qed.

Lemma strings_1 keys : strings keys 1 = singles keys.
Proof. reflexivity. Qed.

Lemma strings_S keys n : 1 <= n ->
  strings keys (S n) = flat_map (fun c => map (fun g => c ++ [g]) keys) (strings keys n).
Proof.
  intros Hn. destruct n as [|m]; [lia|].
  unfold strings, combine_all. replace (S (S m) - 1) with (S (S m - 1)) by lia.
  simpl Nat.iter. unfold combine_step at 1.
  apply flat_map_ext. intros c. unfold singles. rewrite map_map. reflexivity.
Qed.

Lemma in_strings keys n c : 1 <= n ->
  (In c (strings keys n) <-> length c = n /\ Forall (fun g => In g keys) c).
Proof.
  intros Hn. revert c. induction n as [|n IH]; [lia|]. intros c.
  destruct (Nat.eq_dec n 0) as [->|Hn0].
  - rewrite strings_1. unfold singles. rewrite in_map_iff. split.
    + intros [g [<- Hg]]. split; [reflexivity|]. constructor; [exact Hg|constructor].
    + intros [Hl Hf]. destruct c as [|g [|? ?]]; try discriminate.
      exists g. split; [reflexivity|]. inversion Hf; assumption.
  - rewrite strings_S by lia. rewrite in_flat_map. split.
    + intros [c' [Hc' Hc]]. apply in_map_iff in Hc as [g [<- Hg]].
      apply IH in Hc' as [Hl Hf]; [|lia]. split.
      * rewrite app_length. simpl. lia.
      * apply Forall_app. split; [exact Hf|]. constructor; [exact Hg|constructor].
    + intros [Hl Hf]. destruct (exists_last (l:=c)) as [c' [g ->]].
      { intros ->. discriminate. }
      rewrite app_length in Hl. simpl in Hl. apply Forall_app in Hf as [Hf1 Hf2].
      exists c'. split.
      * apply IH; [lia|]. split; [lia|exact Hf1].
      * apply in_map_iff. exists g. split; [reflexivity|]. inversion Hf2; assumption.
Qed.

Lemma strings_length_elem keys n c : 1 <= n -> In c (strings keys n) -> length c = n.
Proof. intros Hn H. apply in_strings in H; [tauto|exact Hn]. Qed.

Lemma strings_count keys n : 1 <= n -> length (strings keys n) = length keys ^ n.
Proof.
  intros Hn. induction n as [|n IH]; [lia|].
  destruct (Nat.eq_dec n 0) as [->|Hn0].
  - rewrite strings_1. unfold singles. rewrite map_length. simpl. lia.
  - rewrite strings_S by lia.
    assert (G : forall l : list mstr, length (flat_map (fun c => map (fun g => c ++ [g]) keys) l) = length l * length keys).
    { induction l as [|x l IHl]; [reflexivity|]. simpl. rewrite app_length, map_length, IHl. lia. }
    rewrite G, IH by lia. simpl. lia.
Qed.

Lemma snoc_inj {A} (a b : list A) x y : a ++ [x] = b ++ [y] -> a = b /\ x = y.
Proof. intros H. apply app_inj_tail in H. exact H. Qed.

Lemma nodup_app_intro {A} (l1 l2 : list A) :
  NoDup l1 -> NoDup l2 -> (forall x, In x l1 -> In x l2 -> False) -> NoDup (l1 ++ l2).
Proof.
  induction l1 as [|a l1 IH]; intros H1 H2 H; simpl; [exact H2|].
  inversion H1 as [|? ? Ha H1']; subst. constructor.
  - rewrite in_app_iff. intros [Hin|Hin]; [contradiction|]. apply (H a); [left; reflexivity|exact Hin].
  - apply IH; [exact H1'|exact H2|]. intros x Hx. apply H. right. exact Hx.
Qed.

Lemma strings_nodup keys n : 1 <= n -> NoDup keys -> NoDup (strings keys n).
Proof.
  intros Hn Hk. induction n as [|n IH]; [lia|].
  destruct (Nat.eq_dec n 0) as [->|Hn0].
  - rewrite strings_1. unfold singles. apply FinFun.Injective_map_NoDup; [|exact Hk].
    intros a b E. injection E. auto.
  - rewrite strings_S by lia. specialize (IH ltac:(lia)).
    induction IH as [|c l Hc Hl IHl]; [constructor|]. simpl.
    apply nodup_app_intro.
    + apply FinFun.Injective_map_NoDup; [|exact Hk]. intros a b E. apply snoc_inj in E. tauto.
    + exact IHl.
    + intros x Hx Hx'. apply in_map_iff in Hx as [g [<- Hg]].
      apply in_flat_map in Hx' as [c' [Hc' Hx']]. apply in_map_iff in Hx' as [g' [E Hg']].
      apply snoc_inj in E as [-> _]. contradiction.
Qed.

(* ---- the required settings ---- *)
Lemma existsb_mstr x l : existsb (mstr_eqb x) l = true <-> In x l.
Proof.
  rewrite existsb_exists. split.
  - intros [y [Hy E]]. apply mstr_eqb_eq in E. subst. exact Hy.
  - intros H. exists x. split; [exact H|apply mstr_eqb_refl].
Qed.

Lemma dedup_in l x : In x (dedup l) <-> In x l.
Proof.
  induction l as [|a l IH]; simpl; [tauto|].
  destruct (existsb (mstr_eqb a) l) eqn:E.
  - apply existsb_mstr in E. rewrite IH. split; [auto|]. intros [<-|H]; assumption.
  - simpl. rewrite IH. tauto.
Qed.

Lemma dedup_nodup l : NoDup (dedup l).
Proof.
  induction l as [|a l IH]; simpl; [constructor|].
  destruct (existsb (mstr_eqb a) l) eqn:E; [exact IH|].
  constructor; [|exact IH]. rewrite dedup_in. intros H. apply existsb_mstr in H. congruence.
Qed.

Definition xyz : list pauli := [PX; PY; PZ].

Lemma repl1_xyz g : In (repl1 g) xyz.
Proof. destruct g; simpl; tauto. Qed.

Lemma replIZ_id s : Forall (fun g => In g xyz) s -> replIZ s = s.
Proof.
  induction 1 as [|g s Hg _ IH]; [reflexivity|]. simpl. rewrite IH. f_equal.
  destruct Hg as [<-|[<-|[<-|[]]]]; reflexivity.
Qed.

Lemma req_canonical_eq n : req_canonical n false = dedup (map replIZ (strings meas_keys n)).
Proof. unfold req_canonical, result_mapping, tomo_measurements. rewrite map_map. reflexivity. Qed.

Lemma req_canonical_in n s : 1 <= n ->
  (In s (req_canonical n false) <-> length s = n /\ Forall (fun g => In g xyz) s).
Proof.
  intros Hn. rewrite req_canonical_eq, dedup_in, in_map_iff. split.
  - intros [c [<- Hc]]. apply in_strings in Hc as [Hl _]; [|exact Hn]. split.
    + unfold replIZ. rewrite map_length. exact Hl.
    + unfold replIZ. apply Forall_forall. intros g Hg. apply in_map_iff in Hg as [g' [<- _]]. apply repl1_xyz.
  - intros [Hl Hf]. exists s. split; [apply replIZ_id; exact Hf|].
    apply in_strings; [exact Hn|]. split; [exact Hl|].
    eapply Forall_impl; [|exact Hf]. intros g. unfold xyz, meas_keys. simpl. tauto.
Qed.

Lemma req_canonical_perm n : 1 <= n -> Permutation (req_canonical n false) (strings xyz n).
Proof.
  intros Hn. apply NoDup_Permutation.
  - rewrite req_canonical_eq. apply dedup_nodup.
  - apply strings_nodup; [exact Hn|]. unfold xyz. repeat constructor; simpl; intuition discriminate.
  - intros s. rewrite req_canonical_in, in_strings by exact Hn. tauto.
Qed.

Lemma req_canonical_count n : 1 <= n -> length (req_canonical n false) = 3 ^ n.
Proof.
  intros Hn. rewrite (Permutation_length (req_canonical_perm n Hn)).
  rewrite strings_count by exact Hn. reflexivity.
Qed.

Lemma replIZ_in_req n c : 1 <= n -> In c (tomo_measurements n false) -> In (replIZ c) (req_canonical n false).
Proof.
  intros Hn Hc. rewrite req_canonical_eq, dedup_in. apply in_map. exact Hc.
Qed.

(* ---- dictionaries and mapM ---- *)
Lemma dict_get_map {V} (f : mstr -> V) k req :
  In k req -> dict_get k (combine req (map f req)) = Some (f k).
Proof.
  unfold dict_get.
  assert (G : forall acc, (acc = Some (f k) \/ In k req) ->
    fold_left (fun acc kv => if mstr_eqb (fst kv) k then Some (snd kv) else acc)
              (combine req (map f req)) acc = Some (f k)).
  { induction req as [|a req IH]; intros acc H; simpl.
    - destruct H as [H|[]]. exact H.
    - apply IH. destruct (mstr_eqb a k) eqn:E.
      + apply mstr_eqb_eq in E. subst. left. reflexivity.
      + destruct H as [H|[H|H]]; [left; exact H| |right; exact H].
        subst. rewrite mstr_eqb_refl in E. discriminate. }
  intros H. apply G. right. exact H.
Qed.

Lemma mapM_ok {A B} (f : A -> res B) (g : A -> B) l :
  (forall x, In x l -> f x = Ok (g x)) -> mapM f l = Ok (map g l).
Proof.
  induction l as [|a l IH]; intros H; simpl; [reflexivity|].
  rewrite H by (left; reflexivity). simpl. rewrite IH by (intros; apply H; right; assumption).
  reflexivity.
Qed.

(* ---- dual-rail decoding ---- *)
Fixpoint par (c : mstr) (bs : list bool) : bool :=
  match c, bs with
  | g :: c', b :: bs' => xorb (negb (pauli_eqb g PI) && b) (par c' bs')
  | _, _ => false
  end.

Lemma mult_aux_rail c : forall bs pre j,
  length pre = 2 * j -> length c = length bs ->
  mult_aux c j (pre ++ flat_map rail bs) = Ok (par c bs).
Proof.
  induction c as [|g c IH]; intros [|b bs] pre j Hp Hl; simpl in Hl; try discriminate; [reflexivity|].
  injection Hl as Hl.
  assert (Hs : firstn 2 (skipn (2 * j) (pre ++ flat_map rail (b :: bs))) = rail b).
  { rewrite skipn_app, <- Hp, skipn_all, Nat.sub_diag. simpl. destruct b; reflexivity. }
  assert (Hr : mult_aux c (S j) (pre ++ flat_map rail (b :: bs)) = Ok (par c bs)).
  { simpl flat_map. rewrite app_assoc. apply IH; [|exact Hl].
    rewrite app_length, Hp. destruct b; simpl; lia. }
  cbn [mult_aux]. rewrite Hs, Hr. cbn [par].
  destruct g, b; simpl; try reflexivity; destruct (par c bs); reflexivity.
Qed.

Lemma mult_aux_dual_rail c n z : length c = n -> mult_aux c 0 (dual_rail n z) = Ok (par c (bits n z)).
Proof.
  intros Hl. unfold dual_rail. apply (mult_aux_rail c (bits n z) [] 0); [reflexivity|].
  rewrite Hl. clear. revert z. induction n as [|n IH]; intros z; [reflexivity|].
  simpl. rewrite app_length, <- IH. simpl. lia.
Qed.

Lemma bits_length n z : length (bits n z) = n.
Proof. revert z. induction n as [|n IH]; intros z; [reflexivity|]. simpl. rewrite app_length, IH. simpl. lia. Qed.

Lemma par_snoc c : forall g bs b, length c = length bs ->
  par (c ++ [g]) (bs ++ [b]) = xorb (par c bs) (negb (pauli_eqb g PI) && b).
Proof.
  induction c as [|x c IH]; intros g [|y bs] b Hl; simpl in Hl; try discriminate.
  - simpl. destruct (negb (pauli_eqb g PI) && b); reflexivity.
  - injection Hl as Hl. simpl. rewrite IH by exact Hl. rewrite xorb_assoc. reflexivity.
Qed.

Lemma mapM_map {A B C} (f : B -> res C) (h : A -> B) l : mapM f (map h l) = mapM (fun x => f (h x)) l.
Proof. induction l as [|a l IH]; simpl; [reflexivity|]. rewrite IH. reflexivity. Qed.

Lemma combine_map {A B C} (p : A -> B) (h : A -> C) l :
  combine (map p l) (map h l) = map (fun z => (p z, h z)) l.
Proof. induction l as [|a l IH]; simpl; [reflexivity|]. rewrite IH. reflexivity. Qed.

Lemma repeat_snoc {A} (x : A) n : repeat x (S n) = repeat x n ++ [x].
Proof. induction n as [|n IH]; [reflexivity|]. simpl. simpl in IH. rewrite <- IH. reflexivity. Qed.

Lemma par_allI n bs : par (repeat PI n) bs = false.
Proof. revert bs. induction n as [|n IH]; intros [|b bs]; simpl; try reflexivity. rewrite IH. reflexivity. Qed.

(* index arithmetic for the last qubit *)
Lemma split_index z' y : y < 2 -> (z' * 2 + y) / 2 = z' /\ (z' * 2 + y) mod 2 = y /\ Nat.odd (z' * 2 + y) = Nat.odd y.
Proof.
  intros Hy. repeat split.
  - rewrite Nat.div_add_l by lia. rewrite (Nat.div_small y 2) by lia. lia.
  - rewrite Nat.add_comm, Nat.mod_add by lia. apply Nat.mod_small. lia.
  - rewrite Nat.add_comm, (Nat.mul_comm z' 2). apply Nat.odd_add_mul_2.
Qed.

Lemma half_index_lt k n : k < 2 ^ S n -> k / 2 < 2 ^ n.
Proof. intros H. apply Nat.div_lt_upper_bound; [lia|]. rewrite Nat.pow_succ_r' in H. lia. Qed.

Lemma eqb_split a k : ((a / 2 =? k / 2) && (a mod 2 =? k mod 2)) = (a =? k).
Proof.
  destruct (Nat.eqb_spec a k) as [->|Hne].
  - rewrite !Nat.eqb_refl. reflexivity.
  - destruct (Nat.eqb_spec (a / 2) (k / 2)) as [E1|]; [|reflexivity].
    destruct (Nat.eqb_spec (a mod 2) (k mod 2)) as [E2|]; [|reflexivity].
    exfalso. apply Hne. rewrite (Nat.div_mod_eq a 2), (Nat.div_mod_eq k 2). lia.
Qed.

(* ------------------------------------------------------------- Part 2: sums *)
Section SumLemmas.
  Context {K : Type} {o : ops K} {SR : StarRing o}.
  Let R := sr_ring (o:=o).
  Add Ring Ksl : R.
  Local Notation "a + b" := (kadd o a b).
  Local Notation "a * b" := (kmul o a b).
  Local Notation sumn := (sumn o).
  Local Notation suml := (suml o).

  Lemma sumn_prod n m f :
    sumn (n * m) f = sumn n (fun i => sumn m (fun j => f (i * m + j)%nat)).
  Proof.
    induction n as [|n IH]; [reflexivity|].
    rewrite Nat.mul_succ_l, sumn_app, IH. simpl. reflexivity.
  Qed.

  Lemma sumn_pair_mul n m f g :
    sumn n (fun i => sumn m (fun j => f i * g j)) = sumn n f * sumn m g.
  Proof.
    rewrite <- sumn_mul_r. apply sumn_ext. intros i _. apply sumn_mul_l.
  Qed.

  Lemma suml_map {A B} (h : A -> B) l (f : B -> K) : suml (map h l) f = suml l (fun a => f (h a)).
  Proof. induction l as [|a l IH]; simpl; [reflexivity|]. rewrite IH. reflexivity. Qed.

  Lemma suml_flat_map {A B} (h : A -> list B) l (f : B -> K) :
    suml (flat_map h l) f = suml l (fun a => suml (h a) f).
  Proof. induction l as [|a l IH]; simpl; [reflexivity|]. rewrite suml_app, IH. reflexivity. Qed.

  Lemma suml_mul_r {A} (l : list A) c f : suml l (fun a => f a * c) = suml l f * c.
  Proof. induction l as [|a l IH]; simpl; [ring|]. rewrite IH. ring. Qed.

  Lemma suml_pair_mul {A B} (l : list A) (m : list B) f g :
    suml l (fun a => suml m (fun b => f a * g b)) = suml l f * suml m g.
  Proof. rewrite <- suml_mul_r. apply suml_ext. intros a _. apply suml_mul_l. Qed.

  Lemma suml_sumn_swap {A} (l : list A) n (f : A -> nat -> K) :
    suml l (fun a => sumn n (fun k => f a k)) = sumn n (fun k => suml l (fun a => f a k)).
  Proof.
    induction l as [|a l IH]; simpl.
    - symmetry. apply sumn_zero.
    - rewrite IH, <- sumn_add. reflexivity.
  Qed.

  (* sum of rho[k,l] * delta(a,k) * delta(b,l) *)
  Lemma sumn_delta2 n a b (rho : nat -> nat -> K) : a < n -> b < n ->
    sumn n (fun k => sumn n (fun l => rho k l * (mid o a k * mid o b l))) = rho a b.
  Proof.
    intros Ha Hb.
    rewrite (sumn_single n a); [rewrite (sumn_single n b)| |]; try assumption.
    - unfold mid. rewrite !Nat.eqb_refl. ring.
    - intros l _ Hl. unfold mid. apply Nat.eqb_neq in Hl. rewrite (Nat.eqb_sym b l), Hl. ring.
    - intros k _ Hk. apply sumn_zero'. intros l _. unfold mid. apply Nat.eqb_neq in Hk.
      rewrite (Nat.eqb_sym a k), Hk. ring.
  Qed.
End SumLemmas.

(* ------------------------------------------ Part 3: tensor structure, identity *)
Section Tensor.
  Context {K : Type} {o : ops K} {ii hh : K} {TR : TomoRing o ii hh}.
  Let R := sr_ring (o:=o).
  Add Ring Kt : R.
  Local Notation "a + b" := (kadd o a b).
  Local Notation "a * b" := (kmul o a b).
  Local Notation "a - b" := (ksub o a b).
  Local Notation "- a" := (kopp o a).
  Local Notation one := (k1 o).
  Local Notation zero := (k0 o).
  Local Notation conj := (kconj o).
  Local Notation sumn := (sumn o).
  Local Notation suml := (suml o).
  Local Notation pauli_mat := (pauli_mat o ii).
  Local Notation meas_mat := (meas_mat o ii hh).

  Definition compat (gt : pauli * pauli) : Prop := snd gt = repl1 (fst gt) \/ fst gt = PI.

  Lemma hh2 : (one + one) * (hh * hh) = one.
  Proof. exact tr_hh. Qed.
  Lemma hh4 : (one + one) * (one + one) * (hh * hh * (hh * hh)) = one.
  Proof. transitivity (((one + one) * (hh * hh)) * ((one + one) * (hh * hh))); [ring|]. rewrite hh2. ring. Qed.

  Ltac conj_push :=
    repeat first [rewrite sr_conj_add | rewrite sr_conj_mul | rewrite sr_conj_opp | rewrite sr_conj_1
                 | rewrite sr_conj_0 | rewrite tr_hh_conj | rewrite tr_ii_conj].

  Lemma obs1 g t k l : compat (g, t) -> k < 2 -> l < 2 ->
    sumn 2 (fun y => sg o (negb (pauli_eqb g PI) && Nat.odd y) * (meas_mat t y k * conj (meas_mat t y l)))
    = pauli_mat g l k.
  Proof.
    intros Hc Hk Hl.
    assert (Hii := tr_ii (o:=o)).
    destruct k as [|[|k]]; [| |lia]; (destruct l as [|[|l]]; [| |lia]);
    destruct Hc as [Hc|Hc]; simpl in Hc; subst; try (destruct g); try (destruct t);
    cbn; conj_push.
    all: first [ ring | ring [Hii]
      | match goal with |- _ = ?r => transitivity (((one+one)*(hh*hh)) * r); [ring | rewrite hh2; ring] end
      | match goal with |- _ = ?r => transitivity (((one+one)*(hh*hh)) * r); [ring [Hii] | rewrite hh2; ring] end ].
  Qed.

  Ltac solve_poly Hii :=
    first [ ring | ring [Hii]
      | match goal with |- _ = ?r => transitivity (((one+one)*(hh*hh)) * r); [ring | rewrite hh2; ring] end
      | match goal with |- _ = ?r => transitivity (((one+one)*(hh*hh)) * r); [ring [Hii] | rewrite hh2; ring] end ].

  Lemma comp1 a b k l : a < 2 -> b < 2 -> k < 2 -> l < 2 ->
    suml meas_keys (fun g => (hh * hh) * (pauli_mat g a b * pauli_mat g l k)) = mid o a k * mid o b l.
  Proof.
    intros Ha Hb Hk Hl. assert (Hii := tr_ii (o:=o)).
    destruct a as [|[|a]]; [| |lia]; (destruct b as [|[|b]]; [| |lia]);
    (destruct k as [|[|k]]; [| |lia]); (destruct l as [|[|l]]; [| |lia]); cbn; solve_poly Hii.
  Qed.

  Fixpoint hpow (n : nat) : K := match n with O => one | S m => (hh * hh) * hpow m end.

  Lemma pow2_hpow n : pow2 o n * hpow n = one.
  Proof.
    induction n as [|n IH]; simpl; [ring|]. unfold two.
    transitivity (((one + one) * (hh * hh)) * (pow2 o n * hpow n)); [ring|]. rewrite hh2, IH. ring.
  Qed.
  Lemma kinv_pow2 n : kinv o (pow2 o n) = hpow n.
  Proof. apply ui_inv. apply pow2_hpow. Qed.
  Lemma kinv_one : kinv o one = one.
  Proof. apply ui_inv. ring. Qed.

  Lemma kfold_snoc (f : pauli -> mat) c g i j : i < 2 ^ S (length c) -> j < 2 ^ S (length c) ->
    kfold o f (c ++ [g]) i j = kfold o f c (i / 2) (j / 2) * f g (i mod 2) (j mod 2).
  Proof.
    destruct c as [|g0 r].
    - intros Hi Hj. change (2 ^ S (length (@nil pauli))) with 2 in *.
      change (kfold o f ([] ++ [g]) i j) with (f g i j).
      change (kfold o f [] (i / 2) (j / 2)) with (mid o (i / 2) (j / 2)).
      rewrite !Nat.div_small, !Nat.mod_small by lia. unfold mid. simpl. ring.
    - intros _ _. simpl. rewrite fold_left_app. reflexivity.
  Qed.

  Lemma sg_xorb a b : sg o (xorb a b) = sg o a * sg o b.
  Proof. destruct a, b; simpl; ring. Qed.

  Definition obsum (n : nat) (cs : list (pauli * pauli)) (k l : nat) : K :=
    sumn (2 ^ n) (fun z => sg o (par (map fst cs) (bits n z)) *
       (kfold o meas_mat (map snd cs) z k * conj (kfold o meas_mat (map snd cs) z l))).

  Lemma obsum_pauli cs : Forall compat cs -> forall k l, k < 2 ^ length cs -> l < 2 ^ length cs ->
    obsum (length cs) cs k l = kfold o pauli_mat (map fst cs) l k.
  Proof.
    induction cs as [|[g t] cs IH] using rev_ind; intros Hc k l Hk Hl.
    - simpl in *. assert (k = 0) by lia. assert (l = 0) by lia. subst. unfold obsum. cbn.
      rewrite sr_conj_1. ring.
    - apply Forall_app in Hc as [Hc Hgt]. inversion Hgt as [|? ? Hgt' _]; subst.
      rewrite app_length in *. simpl length in *. replace (length cs + 1)%nat with (S (length cs)) in * by lia.
      set (n := length cs) in *.
      rewrite map_app. simpl map. rewrite kfold_snoc by (rewrite map_length; assumption).
      unfold obsum. rewrite Nat.pow_succ_r', (Nat.mul_comm 2), sumn_prod.
      rewrite (sumn_ext _ _ (fun z' => sumn 2 (fun y =>
        (sg o (par (map fst cs) (bits n z')) *
           (kfold o meas_mat (map snd cs) z' (k / 2) * conj (kfold o meas_mat (map snd cs) z' (l / 2)))) *
        (sg o (negb (pauli_eqb g PI) && Nat.odd y) * (meas_mat t y (k mod 2) * conj (meas_mat t y (l mod 2))))))).
      + rewrite sumn_pair_mul. fold (obsum n cs (k / 2) (l / 2)).
        rewrite IH by (try assumption; apply half_index_lt; assumption).
        rewrite obs1 by (try assumption; apply Nat.mod_upper_bound; lia). reflexivity.
      + intros z' Hz'. apply sumn_ext. intros y Hy.
        destruct (split_index z' y Hy) as [E1 [E2 E3]].
        rewrite !map_app. simpl map. cbn [bits]. rewrite E1, E3.
        rewrite par_snoc by (rewrite map_length, bits_length; reflexivity).
        rewrite sg_xorb.
        rewrite !kfold_snoc by (rewrite map_length; fold n; first [assumption | rewrite Nat.pow_succ_r'; lia]).
        rewrite E1, E2. rewrite sr_conj_mul. ring.
  Qed.

  Definition complete_sum (n a b k l : nat) : K :=
    suml (strings meas_keys n) (fun c => hpow n * (kfold o pauli_mat c a b * kfold o pauli_mat c l k)).

  Lemma mid_split a k : mid o (a / 2) (k / 2) * mid o (a mod 2) (k mod 2) = mid o a k.
  Proof.
    unfold mid. rewrite <- (eqb_split a k).
    destruct (a / 2 =? k / 2), (a mod 2 =? k mod 2); simpl; ring.
  Qed.

  Lemma pauli_complete n : 1 <= n -> forall a b k l,
    a < 2 ^ n -> b < 2 ^ n -> k < 2 ^ n -> l < 2 ^ n ->
    complete_sum n a b k l = mid o a k * mid o b l.
  Proof.
    induction n as [|n IH]; [lia|]. intros _ a b k l Ha Hb Hk Hl.
    destruct (Nat.eq_dec n 0) as [->|Hn0].
    - change (2 ^ 1) with 2 in *. unfold complete_sum. rewrite strings_1. unfold singles.
      rewrite suml_map, <- comp1 by assumption. apply suml_ext. intros g _. simpl. ring.
    - unfold complete_sum. rewrite strings_S by lia. rewrite suml_flat_map.
      rewrite (suml_ext _ _ (fun c : mstr => suml meas_keys (fun g =>
        (hpow n * (kfold o pauli_mat c (a / 2) (b / 2) * kfold o pauli_mat c (l / 2) (k / 2))) *
        ((hh * hh) * (pauli_mat g (a mod 2) (b mod 2) * pauli_mat g (l mod 2) (k mod 2)))))).
      + rewrite suml_pair_mul.
        assert (IH' := IH ltac:(lia) (a / 2) (b / 2) (k / 2) (l / 2)). unfold complete_sum in IH'.
        rewrite IH' by (apply half_index_lt; assumption).
        rewrite comp1 by (apply Nat.mod_upper_bound; lia).
        rewrite <- (mid_split a k), <- (mid_split b l). ring.
      + intros c Hc. apply strings_length_elem in Hc; [|lia].
        rewrite suml_map. apply suml_ext. intros g _.
        rewrite !kfold_snoc by (rewrite Hc; assumption). simpl hpow. ring.
  Qed.

  Lemma born_sum N (sgn : nat -> K) (M rho : @mat K) :
    sumn N (fun z => sgn z * born o N M rho z) =
    sumn N (fun k => sumn N (fun l => rho k l * sumn N (fun z => sgn z * (M z k * conj (M z l))))).
  Proof.
    unfold born.
    rewrite (sumn_ext N _ (fun z => sumn N (fun k => sumn N (fun l => rho k l * (sgn z * (M z k * conj (M z l))))))).
    - rewrite sumn_swap. apply sumn_ext. intros k _. rewrite sumn_swap. apply sumn_ext. intros l _.
      rewrite sumn_mul_l. reflexivity.
    - intros z _. rewrite <- sumn_mul_l. apply sumn_ext. intros k _. rewrite <- sumn_mul_l.
      apply sumn_ext. intros l _. ring.
  Qed.

  Lemma allI_par c bs : Forall (fun g => g = PI) c -> par c bs = false.
  Proof.
    intros H. revert bs. induction H as [|g c -> _ IH]; intros [|b bs]; simpl; try reflexivity.
    rewrite IH. reflexivity.
  Qed.

  Lemma pauliI_mid i j : i < 2 -> j < 2 -> pauli_mat PI i j = mid o i j.
  Proof. intros Hi Hj. destruct i as [|[|i]]; [| |lia]; (destruct j as [|[|j]]; [| |lia]); reflexivity. Qed.

  Lemma allI_kfold c : Forall (fun g => g = PI) c -> forall i j, i < 2 ^ length c -> j < 2 ^ length c ->
    kfold o pauli_mat c i j = mid o i j.
  Proof.
    induction c as [|g c IH] using rev_ind; intros H i j Hi Hj.
    - reflexivity.
    - apply Forall_app in H as [H Hg]. inversion Hg as [|? ? -> _]; subst.
      rewrite app_length in *. simpl length in *. replace (length c + 1)%nat with (S (length c)) in * by lia.
      rewrite kfold_snoc by assumption.
      rewrite IH by (try assumption; apply half_index_lt; assumption).
      rewrite pauliI_mid by (apply Nat.mod_upper_bound; lia). apply mid_split.
  Qed.

  (* the basis-change matrix of every setting has orthonormal columns *)
  Lemma meas_unitary s k l : k < 2 ^ length s -> l < 2 ^ length s ->
    sumn (2 ^ length s) (fun z => kfold o meas_mat s z k * conj (kfold o meas_mat s z l)) = mid o l k.
  Proof.
    intros Hk Hl. set (cs := map (fun t => (PI, t)) s).
    assert (L : length cs = length s) by (unfold cs; apply map_length).
    assert (F : map fst cs = map (fun _ => PI) s) by (unfold cs; rewrite map_map; reflexivity).
    assert (S2 : map snd cs = s) by (unfold cs; rewrite map_map; simpl; apply map_id).
    assert (AI : Forall (fun g => g = PI) (map fst cs)).
    { rewrite F. apply Forall_forall. intros g Hg. apply in_map_iff in Hg as [? [<- _]]. reflexivity. }
    assert (C : Forall compat cs).
    { unfold cs. apply Forall_forall. intros gt Hg. apply in_map_iff in Hg as [? [<- _]]. right. reflexivity. }
    generalize (obsum_pauli cs C k l). rewrite L. intros E. specialize (E Hk Hl).
    rewrite allI_kfold in E by (try exact AI; rewrite map_length, L; assumption).
    rewrite <- E. unfold obsum. rewrite S2. apply sumn_ext. intros z _.
    rewrite allI_par by exact AI. simpl. ring.
  Qed.

  Local Notation ideal_data := (ideal_data o ii hh).

  Definition pauli_expect (n : nat) (rho : @mat K) (c : mstr) : K :=
    sumn (2 ^ n) (fun k => sumn (2 ^ n) (fun l => rho k l * kfold o pauli_mat c l k)).   (* tr(rho P_c) *)

  Lemma keqb_one_zero : keqb o one zero = false.
  Proof.
    destruct (keqb o one zero) eqn:E; [|reflexivity]. apply ui_eqb in E. exfalso. exact (ui_neq E).
  Qed.

  Lemma born_total n s rho : length s = n -> sumn (2 ^ n) (fun z => born o (2 ^ n) (kfold o meas_mat s) rho z) = trace o (2 ^ n) rho.
  Proof.
    intros Hs.
    rewrite (sumn_ext _ _ (fun z => one * born o (2 ^ n) (kfold o meas_mat s) rho z)) by (intros; ring).
    rewrite born_sum. unfold trace. apply sumn_ext. intros k Hk.
    rewrite (sumn_single (2 ^ n) k); try assumption.
    - rewrite (sumn_ext _ _ (fun z => kfold o meas_mat s z k * conj (kfold o meas_mat s z k))) by (intros; ring).
      rewrite <- Hs at 1. rewrite meas_unitary by (rewrite Hs; assumption). unfold mid. rewrite Nat.eqb_refl. ring.
    - intros l Hl Hne.
      rewrite (sumn_ext _ _ (fun z => kfold o meas_mat s z k * conj (kfold o meas_mat s z l))) by (intros; ring).
      rewrite <- Hs at 1. rewrite meas_unitary by (rewrite Hs; assumption). unfold mid.
      apply Nat.eqb_neq in Hne. rewrite Hne. ring.
  Qed.

  Lemma expectation_ideal n c rho : length c = n -> trace o (2 ^ n) rho = one ->
    expectation o c (ideal_data n (replIZ c) rho) = Ok (pauli_expect n rho c).
  Proof.
    intros Hc Ht. unfold expectation, Tomo.ideal_data.
    rewrite mapM_map.
    rewrite (mapM_ok _ (fun z => par c (bits n z))) by (intros; simpl; apply mult_aux_dual_rail; assumption).
    cbn [bind]. rewrite combine_map, !suml_map. cbn [fst snd]. rewrite !suml_seq.
    assert (Hs : length (replIZ c) = n) by (unfold replIZ; rewrite map_length; assumption).
    rewrite (born_total n (replIZ c) rho Hs), Ht, keqb_one_zero, kinv_one.
    f_equal. rewrite born_sum. unfold pauli_expect.
    transitivity (sumn (2 ^ n) (fun k => sumn (2 ^ n) (fun l => rho k l * kfold o pauli_mat c l k)) * one); [|ring].
    f_equal. apply sumn_ext. intros k Hk. apply sumn_ext. intros l Hl. f_equal.
    set (cs := map (fun g => (g, repl1 g)) c).
    assert (L : length cs = n) by (unfold cs; rewrite map_length; assumption).
    assert (F : map fst cs = c) by (unfold cs; rewrite map_map; simpl; apply map_id).
    assert (S2 : map snd cs = replIZ c) by (unfold cs; rewrite map_map; reflexivity).
    assert (C : Forall compat cs).
    { unfold cs. apply Forall_forall. intros gt Hg. apply in_map_iff in Hg as [? [<- _]]. left. reflexivity. }
    generalize (obsum_pauli cs C k l). rewrite L, F. intros E. rewrite <- E by assumption.
    unfold obsum. rewrite F, S2. reflexivity.
  Qed.

  (* _calculate_density_matrix on the noiseless data of every measurement string *)
  Lemma density_ideal n rho : 1 <= n -> trace o (2 ^ n) rho = one ->
    exists R, density o ii n (map (fun c => (c, ideal_data n (replIZ c) rho)) (tomo_measurements n false)) = Ok R /\
              meq (2 ^ n) R rho.
  Proof.
    intros Hn Ht. unfold density. rewrite mapM_map. cbn [fst snd].
    rewrite (mapM_ok _ (fun c => (pauli_expect n rho c * kinv o (pow2 o n), kfold o pauli_mat c))).
    2:{ intros c Hc. unfold tomo_measurements in Hc. apply strings_length_elem in Hc; [|exact Hn].
        rewrite expectation_ideal by assumption. reflexivity. }
    cbn [bind]. eexists. split; [reflexivity|]. intros a b Ha Hb.
    rewrite suml_map. cbn [fst snd]. unfold tomo_measurements. rewrite kinv_pow2.
    unfold pauli_expect.
    rewrite (suml_ext _ _ (fun c : mstr => sumn (2 ^ n) (fun k => sumn (2 ^ n) (fun l =>
       rho k l * (hpow n * (kfold o pauli_mat c a b * kfold o pauli_mat c l k)))))).
    2:{ intros c _. rewrite <- sumn_mul_r, <- sumn_mul_r. apply sumn_ext. intros k _.
        rewrite <- sumn_mul_r, <- sumn_mul_r. apply sumn_ext. intros l _. ring. }
    rewrite suml_sumn_swap.
    rewrite (sumn_ext _ _ (fun k => sumn (2 ^ n) (fun l => rho k l * (mid o a k * mid o b l)))).
    - apply sumn_delta2; assumption.
    - intros k Hk. rewrite suml_sumn_swap. apply sumn_ext. intros l Hl.
      rewrite suml_mul_l. f_equal. apply (pauli_complete n Hn a b k l); assumption.
  Qed.

  (* The reconstruction identity *)
  Theorem st_tomography_identity n req rho :
    1 <= n -> Permutation req (req_canonical n false) -> trace o (2 ^ n) rho = one ->
    exists R, st_tomography o ii hh n req rho = Ok R /\ meq (2 ^ n) R rho.
  Proof.
    intros Hn Hp Ht. unfold st_tomography, st_process. rewrite map_length, Nat.eqb_refl.
    unfold expand_results.
    rewrite (mapM_ok _ (fun c => (c, ideal_data n (replIZ c) rho))).
    2:{ intros c Hc. rewrite (dict_get_map (fun s => ideal_data n s rho)); [reflexivity|].
        apply (Permutation_in _ (Permutation_sym Hp)). apply replIZ_in_req; assumption. }
    cbn [bind]. apply density_ideal; assumption.
  Qed.
End Tensor.

(* ----------------------------------------------------- corollaries and specs *)
Section Corollaries.
  Context {K : Type} {o : ops K} {ii hh : K} {TR : TomoRing o ii hh}.
  Let R := sr_ring (o:=o).
  Add Ring Kco : R.
  Local Notation "a * b" := (kmul o a b).

  Lemma trace_compat d A B : meq d A B -> trace o d A = trace o d B.
  Proof. intros H. unfold trace. apply sumn_ext. intros k Hk. apply H; assumption. Qed.

  Lemma hermitian_compat d A B : meq d A B -> hermitian o d B -> hermitian o d A.
  Proof.
    intros H HB i j Hi Hj. unfold madj. rewrite !H by assumption. apply HB; assumption.
  Qed.

  Theorem st_tomography_physical n req rho :
    1 <= n -> Permutation req (req_canonical n false) -> trace o (2 ^ n) rho = k1 o ->
    exists R, st_tomography o ii hh n req rho = Ok R /\ meq (2 ^ n) R rho /\
              trace o (2 ^ n) R = k1 o /\ (hermitian o (2 ^ n) rho -> hermitian o (2 ^ n) R).
  Proof.
    intros Hn Hp Ht. destruct (st_tomography_identity n req rho Hn Hp Ht) as [R' [E M]].
    exists R'. repeat split; try assumption.
    - rewrite (trace_compat _ _ _ M). exact Ht.
    - intros H. apply (hermitian_compat _ _ _ M H).
  Qed.

  (* a normalised state vector gives a Hermitian idempotent of unit trace *)
  Lemma pure_projector d (psi : nat -> K) :
    sumn o d (fun k => psi k * kconj o (psi k)) = k1 o ->
    let rho := density_from_state o psi in
    hermitian o d rho /\ meq d (mmul o d rho rho) rho /\ trace o d rho = k1 o.
  Proof.
    intros Hn rho. repeat split.
    - intros i j _ _. unfold rho, madj, density_from_state. rewrite sr_conj_mul, sr_conj_inv. ring.
    - intros i j _ _. unfold rho, mmul, density_from_state.
      rewrite (sumn_ext d _ (fun k => (psi i * kconj o (psi j)) * (psi k * kconj o (psi k)))) by (intros; ring).
      rewrite sumn_mul_l, Hn. ring.
    - exact Hn.
  Qed.
End Corollaries.

Section Fidelity.
  Context {K : Type} {o : ops K} {SR : StarRing o}.
  (* scipy.linalg.sqrtm restricted to d x d matrices, and abs() on complex numbers.
     CONTRACT (the only facts assumed): the principal square root of an
     orthogonal projector - a Hermitian idempotent matrix, which is positive
     semi-definite - is the projector itself; |1| = 1. *)
  Variable sqrtm : nat -> @mat K -> @mat K.
  Variable kabs : K -> K.
  Hypothesis sqrtm_projector :
    forall d P, hermitian o d P -> meq d (mmul o d P P) P -> meq d (sqrtm d P) P.
  Hypothesis kabs_one : kabs (k1 o) = k1 o.

  Theorem fidelity_one d (rho rho_c : @mat K) :
    hermitian o d rho -> meq d (mmul o d rho rho) rho -> trace o d rho = k1 o ->
    meq d rho_c rho ->                      (* rho_c: the reconstructed matrix *)
    state_fidelity o sqrtm kabs d d rho_c rho = Ok (k1 o).
  Proof.
    intros Hh Hi Ht Hc. unfold state_fidelity. rewrite Nat.eqb_refl. cbn [negb]. f_equal.
    assert (Hhc : hermitian o d rho_c) by (apply hermitian_compat with rho; assumption).
    assert (Hic : meq d (mmul o d rho_c rho_c) rho_c).
    { eapply meq_trans; [apply mmul_compat; exact Hc|]. eapply meq_trans; [exact Hi|]. apply meq_sym. exact Hc. }
    pose proof (sqrtm_projector d rho_c Hhc Hic) as Hr.
    set (inner := mmul o d (mmul o d (sqrtm d rho_c) rho) (sqrtm d rho_c)).
    assert (Hin : meq d inner rho).
    { unfold inner. eapply meq_trans.
      - apply mmul_compat; [apply mmul_compat; [eapply meq_trans; [exact Hr|exact Hc]|apply meq_refl]|eapply meq_trans; [exact Hr|exact Hc]].
      - eapply meq_trans; [apply mmul_compat; [exact Hi|apply meq_refl]|exact Hi]. }
    assert (Hhi : hermitian o d inner).
    { intros i j Hi' Hj'. unfold madj. rewrite !Hin by assumption. apply Hh; assumption. }
    assert (Hii : meq d (mmul o d inner inner) inner).
    { eapply meq_trans; [apply mmul_compat; exact Hin|]. eapply meq_trans; [exact Hi|]. apply meq_sym. exact Hin. }
    pose proof (sqrtm_projector d inner Hhi Hii) as Hs.
    assert (Et : trace o d (sqrtm d inner) = k1 o).
    { unfold trace. rewrite <- Ht. unfold trace. apply sumn_ext. intros k Hk.
      rewrite Hs by assumption. apply Hin; assumption. }
    rewrite Et. exact kabs_one.
  Qed.
End Fidelity.

(* ---- the circuits handed to the experiment callback ---- *)
Section Settings.
  Context {K : Type} (o : ops K) (ii hh : K).

  (* the components appended to the base circuit for setting s: the basis
     change of qubit i on modes 2i, 2i+1 *)
  Definition setting_components (s : mstr) : list (@comp K) :=
    map (fun iop => (2 * fst iop, snd iop)) (combine (seq 0 (length s)) (map (meas_mat o ii hh) s)).

  Lemma setting_components_nth s i : i < length s ->
    nth i (setting_components s) (0, mid o) = (2 * i, meas_mat o ii hh (nth i s PZ)).
  Proof.
    intros Hi. unfold setting_components.
    change (0, mid o) with ((fun iop : nat * @mat K => (2 * fst iop, snd iop)) (0, mid o)).
    rewrite map_nth. rewrite combine_nth by (rewrite seq_length, map_length; reflexivity).
    rewrite seq_nth by assumption. cbn [fst snd]. f_equal.
    rewrite (nth_indep _ (mid o) (meas_mat o ii hh PZ)) by (rewrite map_length; assumption).
    apply map_nth.
  Qed.

  Theorem settings_spec n req : 1 <= n -> Permutation req (req_canonical n false) ->
    length req = 3 ^ n /\ NoDup req /\
    (forall s, In s req <-> length s = n /\ Forall (fun g => In g xyz) s) /\
    (forall c, In c (tomo_measurements n false) -> In (replIZ c) req) /\
    st_circuits o ii hh n req = Ok (map setting_components req) /\
    (forall s, In s req -> length (setting_components s) = n /\
       forall i, i < n -> nth i (setting_components s) (0, mid o) = (2 * i, meas_mat o ii hh (nth i s PZ))).
  Proof.
    intros Hn Hp.
    assert (Hin : forall s, In s req <-> length s = n /\ Forall (fun g => In g xyz) s).
    { intros s. rewrite <- (req_canonical_in n s Hn). split; apply Permutation_in; [exact Hp|apply Permutation_sym; exact Hp]. }
    refine (conj _ (conj _ (conj Hin (conj _ (conj _ _))))).
    - rewrite (Permutation_length Hp). apply req_canonical_count. exact Hn.
    - apply (Permutation_NoDup (Permutation_sym Hp)). rewrite req_canonical_eq. apply dedup_nodup.
    - intros c Hc. apply (Permutation_in _ (Permutation_sym Hp)). apply replIZ_in_req; assumption.
    - unfold st_circuits. apply mapM_ok. intros s Hs. apply Hin in Hs as [Hl _].
      unfold create_circuit, setting_components. rewrite map_length, Hl, Nat.eqb_refl. reflexivity.
    - intros s H. apply Hin in H as [Hl _]. split.
      + unfold setting_components.
        rewrite map_length, combine_length, seq_length, map_length, Hl. apply Nat.min_id.
      + intros i Hi. apply setting_components_nth. rewrite Hl. exact Hi.
  Qed.
End Settings.

(* ---- pure states: outer product and fidelity one ---- *)
Section Pure.
  Context {K : Type} {o : ops K} {ii hh : K} {TR : TomoRing o ii hh}.

  Theorem pure_state_fidelity_one
    (sqrtm : nat -> @mat K -> @mat K) (kabs : K -> K) :
    (forall d P, hermitian o d P -> meq d (mmul o d P P) P -> meq d (sqrtm d P) P) ->
    kabs (k1 o) = k1 o ->
    forall (n : nat) (req : list mstr) (psi : nat -> K),
      1 <= n -> Permutation req (req_canonical n false) ->
      sumn o (2 ^ n) (fun k => kmul o (psi k) (kconj o (psi k))) = k1 o ->
      exists R, st_tomography o ii hh n req (density_from_state o psi) = Ok R /\
                meq (2 ^ n) R (density_from_state o psi) /\
                state_fidelity o sqrtm kabs (2 ^ n) (2 ^ n) R (density_from_state o psi) = Ok (k1 o).
  Proof.
    intros Hs Ha n req psi Hn Hp Hpsi.
    destruct (pure_projector (ii:=ii) (hh:=hh) (2 ^ n) psi Hpsi) as [Hh [Hi Ht]].
    destruct (st_tomography_identity n req _ Hn Hp Ht) as [R' [E M]].
    exists R'. split; [exact E|]. split; [exact M|].
    apply (fidelity_one sqrtm kabs Hs Ha); assumption.
  Qed.

  Theorem basis_change_measures_pauli (c : mstr) (k l : nat) :
    k < 2 ^ length c -> l < 2 ^ length c ->
    sumn o (2 ^ length c) (fun z =>
      kmul o (sg o (par c (bits (length c) z)))
             (kmul o (kfold o (meas_mat o ii hh) (replIZ c) z k)
                     (kconj o (kfold o (meas_mat o ii hh) (replIZ c) z l))))
    = kfold o (pauli_mat o ii) c l k.
  Proof.
    intros Hk Hl.
    set (cs := map (fun g => (g, repl1 g)) c).
    assert (L : length cs = length c) by (unfold cs; apply map_length).
    assert (F : map fst cs = c) by (unfold cs; rewrite map_map; simpl; apply map_id).
    assert (S2 : map snd cs = replIZ c) by (unfold cs; rewrite map_map; reflexivity).
    assert (C : Forall compat cs).
    { unfold cs. apply Forall_forall. intros gt Hg. apply in_map_iff in Hg as [? [<- _]]. left. reflexivity. }
    generalize (obsum_pauli cs C k l). rewrite L, F. intros E. rewrite <- E by assumption.
    unfold obsum. rewrite F, S2. reflexivity.
  Qed.
End Pure.
