(* Lemmas for C15 (state tomography) about Model/Tomo.v.
   Part 1: enumeration of measurement strings, dictionaries, dual-rail decoding.
   Part 2: sums.  Part 3: tensor structure (kron) of the Pauli and measurement
   matrices; observables; Pauli completeness; the reconstruction identity. *)
From Coq Require Import ZArith List Bool Arith Lia Ring_theory Ring Permutation.
From LW Require Import Base.Sx Base.Num Base.Sums Base.Mat Base.QI2 Model.Tomo.
Import ListNotations.

(* ------------------------------------------------------------ Part 1: lists *)
Lemma pauli_eqb_eq a b : pauli_eqb a b = true <-> a = b.
Proof. destruct a, b; simpl; split; intros H; try reflexivity; discriminate. Qed.

Lemma mstr_eqb_eq a : forall b, mstr_eqb a b = true <-> a = b.
Proof.
  induction a as [|x a IH]; intros [|y b]; simpl; split; intros H; try reflexivity; try discriminate.
  - apply andb_true_iff in H as [H1 H2]. apply pauli_eqb_eq in H1. apply IH in H2. subst. reflexivity.
  - injection H as -> ->. apply andb_true_iff. split; [apply pauli_eqb_eq|apply IH]; reflexivity.
Qed.

Lemma mstr_eqb_refl a : mstr_eqb a a = true.
Proof. apply mstr_eqb_eq. reflexivity. Qed.

Lemma mstr_eqb_neq a b : a <> b -> mstr_eqb a b = false.
Proof. intros H. destruct (mstr_eqb a b) eqn:E; [|reflexivity]. apply mstr_eqb_eq in E. contradiction. Qed.

Lemma strings_1 keys : strings keys 1 = singles keys.
Proof. reflexivity. Qed.

Lemma strings_S keys n : 1 <= n ->
  strings keys (S n) = flat_map (fun c => map (fun g => c ++ [g]) keys) (strings keys n).
Proof.
  intros Hn. destruct n as [|m]; [lia|].
  unfold strings, combine_all. replace (S (S m) - 1) with (S (S m - 1)) by lia.
  simpl Nat.iter. unfold combine_step at 1.
  apply flat_map_ext. intros c. unfold singles. rewrite map_map. reflexivity.
Qed.

Lemma in_strings keys n c : 1 <= n ->
  (In c (strings keys n) <-> length c = n /\ Forall (fun g => In g keys) c).
Proof.
  intros Hn. revert c. induction n as [|n IH]; [lia|]. intros c.
  destruct (Nat.eq_dec n 0) as [->|Hn0].
  - rewrite strings_1. unfold singles. rewrite in_map_iff. split.
    + intros [g [<- Hg]]. split; [reflexivity|]. constructor; [exact Hg|constructor].
    + intros [Hl Hf]. destruct c as [|g [|? ?]]; try discriminate.
      exists g. split; [reflexivity|]. inversion Hf; assumption.
  - rewrite strings_S by lia. rewrite in_flat_map. split.
    + intros [c' [Hc' Hc]]. apply in_map_iff in Hc as [g [<- Hg]].
      apply IH in Hc' as [Hl Hf]; [|lia]. split.
      * rewrite app_length. simpl. lia.
      * apply Forall_app. split; [exact Hf|]. constructor; [exact Hg|constructor].
    + intros [Hl Hf]. destruct (exists_last (l:=c)) as [c' [g ->]].
      { intros ->. discriminate. }
      rewrite app_length in Hl. simpl in Hl. apply Forall_app in Hf as [Hf1 Hf2].
      exists c'. split.
      * apply IH; [lia|]. split; [lia|exact Hf1].
      * apply in_map_iff. exists g. split; [reflexivity|]. inversion Hf2; assumption.
Qed.

Lemma strings_length_elem keys n c : 1 <= n -> In c (strings keys n) -> length c = n.
Proof. intros Hn H. apply in_strings in H; [tauto|exact Hn]. Qed.

Lemma strings_count keys n : 1 <= n -> length (strings keys n) = length keys ^ n.
Proof.
  intros Hn. induction n as [|n IH]; [lia|].
  destruct (Nat.eq_dec n 0) as [->|Hn0].
  - rewrite strings_1. unfold singles. rewrite map_length. simpl. lia.
  - rewrite strings_S by lia.
    assert (G : forall l : list mstr, length (flat_map (fun c => map (fun g => c ++ [g]) keys) l) = length l * length keys).
    { induction l as [|x l IHl]; [reflexivity|]. simpl. rewrite app_length, map_length, IHl. lia. }
    rewrite G, IH by lia. simpl. lia.
Qed.

Lemma snoc_inj {A} (a b : list A) x y : a ++ [x] = b ++ [y] -> a = b /\ x = y.
Proof. intros H. apply app_inj_tail in H. exact H. Qed.

Lemma nodup_app_intro {A} (l1 l2 : list A) :
  NoDup l1 -> NoDup l2 -> (forall x, In x l1 -> In x l2 -> False) -> NoDup (l1 ++ l2).
Proof.
  induction l1 as [|a l1 IH]; intros H1 H2 H; simpl; [exact H2|].
  inversion H1 as [|? ? Ha H1']; subst. constructor.
  - rewrite in_app_iff. intros [Hin|Hin]; [contradiction|]. apply (H a); [left; reflexivity|exact Hin].
  - apply IH; [exact H1'|exact H2|]. intros x Hx. apply H. right. exact Hx.
Qed.

Lemma strings_nodup keys n : 1 <= n -> NoDup keys -> NoDup (strings keys n).
Proof.
  intros Hn Hk. induction n as [|n IH]; [lia|].
  destruct (Nat.eq_dec n 0) as [->|Hn0].
  - rewrite strings_1. unfold singles. apply FinFun.Injective_map_NoDup; [|exact Hk].
    intros a b E. injection E. auto.
  - rewrite strings_S by lia. specialize (IH ltac:(lia)).
    induction IH as [|c l Hc Hl IHl]; [constructor|]. simpl.
    apply nodup_app_intro.
    + apply FinFun.Injective_map_NoDup; [|exact Hk]. intros a b E. apply snoc_inj in E. tauto.
    + exact IHl.
    + intros x Hx Hx'. apply in_map_iff in Hx as [g [<- Hg]].
      apply in_flat_map in Hx' as [c' [Hc' Hx']]. apply in_map_iff in Hx' as [g' [E Hg']].
      apply snoc_inj in E as [-> _]. contradiction.
Qed.

(* ---- the required settings ---- *)
Lemma existsb_mstr x l : existsb (mstr_eqb x) l = true <-> In x l.
Proof.
  rewrite existsb_exists. split.
  - intros [y [Hy E]]. apply mstr_eqb_eq in E. subst. exact Hy.
  - intros H. exists x. split; [exact H|apply mstr_eqb_refl].
Qed.

Lemma dedup_in l x : In x (dedup l) <-> In x l.
Proof.
  induction l as [|a l IH]; simpl; [tauto|].
  destruct (existsb (mstr_eqb a) l) eqn:E.
  - apply existsb_mstr in E. rewrite IH. split; [auto|]. intros [<-|H]; assumption.
  - simpl. rewrite IH. tauto.
Qed.

Lemma dedup_nodup l : NoDup (dedup l).
Proof.
  induction l as [|a l IH]; simpl; [constructor|].
  destruct (existsb (mstr_eqb a) l) eqn:E; [exact IH|].
  constructor; [|exact IH]. rewrite dedup_in. intros H. apply existsb_mstr in H. congruence.
Qed.

Definition xyz : list pauli := [PX; PY; PZ].

Lemma repl1_xyz g : In (repl1 g) xyz.
Proof. destruct g; simpl; tauto. Qed.

Lemma replIZ_id s : Forall (fun g => In g xyz) s -> replIZ s = s.
Proof.
  induction 1 as [|g s Hg _ IH]; [reflexivity|]. simpl. rewrite IH. f_equal.
  destruct Hg as [<-|[<-|[<-|[]]]]; reflexivity.
Qed.

Lemma req_canonical_eq n : req_canonical n false = dedup (map replIZ (strings meas_keys n)).
Proof. unfold req_canonical, result_mapping, tomo_measurements. rewrite map_map. reflexivity. Qed.

Lemma req_canonical_in n s : 1 <= n ->
  (In s (req_canonical n false) <-> length s = n /\ Forall (fun g => In g xyz) s).
Proof.
  intros Hn. rewrite req_canonical_eq, dedup_in, in_map_iff. split.
  - intros [c [<- Hc]]. apply in_strings in Hc as [Hl _]; [|exact Hn]. split.
    + unfold replIZ. rewrite map_length. exact Hl.
    + unfold replIZ. apply Forall_forall. intros g Hg. apply in_map_iff in Hg as [g' [<- _]]. apply repl1_xyz.
  - intros [Hl Hf]. exists s. split; [apply replIZ_id; exact Hf|].
    apply in_strings; [exact Hn|]. split; [exact Hl|].
    eapply Forall_impl; [|exact Hf]. intros g. unfold xyz, meas_keys. simpl. tauto.
Qed.

Lemma req_canonical_perm n : 1 <= n -> Permutation (req_canonical n false) (strings xyz n).
Proof.
  intros Hn. apply NoDup_Permutation.
  - rewrite req_canonical_eq. apply dedup_nodup.
  - apply strings_nodup; [exact Hn|]. unfold xyz. repeat constructor; simpl; intuition discriminate.
  - intros s. rewrite req_canonical_in, in_strings by exact Hn. tauto.
Qed.

Lemma req_canonical_count n : 1 <= n -> length (req_canonical n false) = 3 ^ n.
Proof.
  intros Hn. rewrite (Permutation_length (req_canonical_perm n Hn)).
  rewrite strings_count by exact Hn. reflexivity.
Qed.

Lemma replIZ_in_req n c : 1 <= n -> In c (tomo_measurements n false) -> In (replIZ c) (req_canonical n false).
Proof.
  intros Hn Hc. rewrite req_canonical_eq, dedup_in. apply in_map. exact Hc.
Qed.

(* ---- dictionaries and mapM ---- *)
Lemma dict_get_map {V} (f : mstr -> V) k req :
  In k req -> dict_get k (combine req (map f req)) = Some (f k).
Proof.
  unfold dict_get.
  assert (G : forall acc, (acc = Some (f k) \/ In k req) ->
    fold_left (fun acc kv => if mstr_eqb (fst kv) k then Some (snd kv) else acc)
              (combine req (map f req)) acc = Some (f k)).
  { induction req as [|a req IH]; intros acc H; simpl.
    - destruct H as [H|[]]. exact H.
    - apply IH. destruct (mstr_eqb a k) eqn:E.
      + apply mstr_eqb_eq in E. subst. left. reflexivity.
      + destruct H as [H|[H|H]]; [left; exact H| |right; exact H].
        subst. rewrite mstr_eqb_refl in E. discriminate. }
  intros H. apply G. right. exact H.
Qed.

Lemma mapM_ok {A B} (f : A -> res B) (g : A -> B) l :
  (forall x, In x l -> f x = Ok (g x)) -> mapM f l = Ok (map g l).
Proof.
  induction l as [|a l IH]; intros H; simpl; [reflexivity|].
  rewrite H by (left; reflexivity). simpl. rewrite IH by (intros; apply H; right; assumption).
  reflexivity.
Qed.

(* ---- dual-rail decoding ---- *)
Fixpoint par (c : mstr) (bs : list bool) : bool :=
  match c, bs with
  | g :: c', b :: bs' => xorb (negb (pauli_eqb g PI) && b) (par c' bs')
  | _, _ => false
  end.

Lemma mult_aux_rail c : forall bs pre j,
  length pre = 2 * j -> length c = length bs ->
  mult_aux c j (pre ++ flat_map rail bs) = Ok (par c bs).
Proof.
  induction c as [|g c IH]; intros [|b bs] pre j Hp Hl; simpl in Hl; try discriminate; [reflexivity|].
  injection Hl as Hl.
  assert (Hs : firstn 2 (skipn (2 * j) (pre ++ flat_map rail (b :: bs))) = rail b).
  { rewrite skipn_app, <- Hp, skipn_all, Nat.sub_diag. simpl. destruct b; reflexivity. }
  assert (Hr : mult_aux c (S j) (pre ++ flat_map rail (b :: bs)) = Ok (par c bs)).
  { simpl flat_map. rewrite app_assoc. apply IH; [|exact Hl].
    rewrite app_length, Hp. destruct b; simpl; lia. }
  cbn [mult_aux]. rewrite Hs, Hr. cbn [par].
  destruct g, b; simpl; try reflexivity; destruct (par c bs); reflexivity.
Qed.

Lemma mult_aux_dual_rail c n z : length c = n -> mult_aux c 0 (dual_rail n z) = Ok (par c (bits n z)).
Proof.
  intros Hl. unfold dual_rail. apply (mult_aux_rail c (bits n z) [] 0); [reflexivity|].
  rewrite Hl. clear. revert z. induction n as [|n IH]; intros z; [reflexivity|].
  simpl. rewrite app_length, <- IH. simpl. lia.
Qed.

Lemma bits_length n z : length (bits n z) = n.
Proof. revert z. induction n as [|n IH]; intros z; [reflexivity|]. simpl. rewrite app_length, IH. simpl. lia. Qed.

Lemma par_snoc c : forall g bs b, length c = length bs ->
  par (c ++ [g]) (bs ++ [b]) = xorb (par c bs) (negb (pauli_eqb g PI) && b).
Proof.
  induction c as [|x c IH]; intros g [|y bs] b Hl; simpl in Hl; try discriminate.
  - simpl. destruct (negb (pauli_eqb g PI) && b); reflexivity.
  - injection Hl as Hl. simpl. rewrite IH by exact Hl. rewrite xorb_assoc. reflexivity.
Qed.

Lemma mapM_map {A B C} (f : B -> res C) (h : A -> B) l : mapM f (map h l) = mapM (fun x => f (h x)) l.
Proof. induction l as [|a l IH]; simpl; [reflexivity|]. rewrite IH. reflexivity. Qed.

Lemma combine_map {A B C} (p : A -> B) (h : A -> C) l :
  combine (map p l) (map h l) = map (fun z => (p z, h z)) l.
Proof. induction l as [|a l IH]; simpl; [reflexivity|]. rewrite IH. reflexivity. Qed.

Lemma repeat_snoc {A} (x : A) n : repeat x (S n) = repeat x n ++ [x].
Proof. induction n as [|n IH]; [reflexivity|]. simpl. simpl in IH. rewrite <- IH. reflexivity. Qed.

Lemma par_allI n bs : par (repeat PI n) bs = false.
Proof. revert bs. induction n as [|n IH]; intros [|b bs]; simpl; try reflexivity. rewrite IH. reflexivity. Qed.

(* index arithmetic for the last qubit *)
Lemma split_index z' y : y < 2 -> (z' * 2 + y) / 2 = z' /\ (z' * 2 + y) mod 2 = y /\ Nat.odd (z' * 2 + y) = Nat.odd y.
Proof.
  intros Hy. repeat split.
  - rewrite Nat.div_add_l by lia. rewrite (Nat.div_small y 2) by lia. lia.
  - rewrite Nat.add_comm, Nat.mod_add by lia. apply Nat.mod_small. lia.
  - rewrite Nat.add_comm, (Nat.mul_comm z' 2). apply Nat.odd_add_mul_2.
Qed.

Lemma half_index_lt k n : k < 2 ^ S n -> k / 2 < 2 ^ n.
Proof. intros H. apply Nat.div_lt_upper_bound; [lia|]. rewrite Nat.pow_succ_r' in H. lia. Qed.

Lemma eqb_split a k : ((a / 2 =? k / 2) && (a mod 2 =? k mod 2)) = (a =? k).
Proof.
  destruct (Nat.eqb_spec a k) as [->|Hne].
  - rewrite !Nat.eqb_refl. reflexivity.
  - destruct (Nat.eqb_spec (a / 2) (k / 2)) as [E1|]; [|reflexivity].
    destruct (Nat.eqb_spec (a mod 2) (k mod 2)) as [E2|]; [|reflexivity].
    exfalso. apply Hne. rewrite (Nat.div_mod_eq a 2), (Nat.div_mod_eq k 2). lia.
Qed.

(* ------------------------------------------------------------- Part 2: sums *)
Section SumLemmas.
  Context {K : Type} {o : ops K} {SR : StarRing o}.
  Let R := sr_ring (o:=o).
  Add Ring Ksl : R.
  Local Notation "a + b" := (kadd o a b).
  Local Notation "a * b" := (kmul o a b).
  Local Notation sumn := (sumn o).
  Local Notation suml := (suml o).

  Lemma sumn_prod n m f :
    sumn (n * m) f = sumn n (fun i => sumn m (fun j => f (i * m + j)%nat)).
  Proof.
    induction n as [|n IH]; [reflexivity|].
    rewrite Nat.mul_succ_l, sumn_app, IH. simpl. reflexivity.
  Qed.

  Lemma sumn_pair_mul n m f g :
    sumn n (fun i => sumn m (fun j => f i * g j)) = sumn n f * sumn m g.
  Proof.
    rewrite <- sumn_mul_r. apply sumn_ext. intros i _. apply sumn_mul_l.
  Qed.

  Lemma suml_map {A B} (h : A -> B) l (f : B -> K) : suml (map h l) f = suml l (fun a => f (h a)).
  Proof. induction l as [|a l IH]; simpl; [reflexivity|]. rewrite IH. reflexivity. Qed.

  Lemma suml_flat_map {A B} (h : A -> list B) l (f : B -> K) :
    suml (flat_map h l) f = suml l (fun a => suml (h a) f).
  Proof. induction l as [|a l IH]; simpl; [reflexivity|]. rewrite suml_app, IH. reflexivity. Qed.

  Lemma suml_mul_r {A} (l : list A) c f : suml l (fun a => f a * c) = suml l f * c.
  Proof. induction l as [|a l IH]; simpl; [ring|]. rewrite IH. ring. Qed.

  Lemma suml_pair_mul {A B} (l : list A) (m : list B) f g :
    suml l (fun a => suml m (fun b => f a * g b)) = suml l f * suml m g.
  Proof. rewrite <- suml_mul_r. apply suml_ext. intros a _. apply suml_mul_l. Qed.

  Lemma suml_sumn_swap {A} (l : list A) n (f : A -> nat -> K) :
    suml l (fun a => sumn n (fun k => f a k)) = sumn n (fun k => suml l (fun a => f a k)).
  Proof.
    induction l as [|a l IH]; simpl.
    - symmetry. apply sumn_zero.
    - rewrite IH, <- sumn_add. reflexivity.
  Qed.

  (* sum of rho[k,l] * delta(a,k) * delta(b,l) *)
  Lemma sumn_delta2 n a b (rho : nat -> nat -> K) : a < n -> b < n ->
    sumn n (fun k => sumn n (fun l => rho k l * (mid o a k * mid o b l))) = rho a b.
  Proof.
    intros Ha Hb.
    rewrite (sumn_single n a); [rewrite (sumn_single n b)| |]; try assumption.
    - unfold mid. rewrite !Nat.eqb_refl. ring.
    - intros l _ Hl. unfold mid. apply Nat.eqb_neq in Hl. rewrite (Nat.eqb_sym b l), Hl. ring.
    - intros k _ Hk. apply sumn_zero'. intros l _. unfold mid. apply Nat.eqb_neq in Hk.
      rewrite (Nat.eqb_sym a k), Hk. ring.
  Qed.
End SumLemmas.
