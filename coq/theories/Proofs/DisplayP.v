(* Lemmas about the display model (Model/Display.v), property C19:
   totality on well-formed circuits, rejection of bad options, and the
   well-formedness invariant WF with its preservation by the API calls. *)
From Coq Require Import ZArith List Bool Arith Lia Permutation.
From LW Require Import Base.Sx Base.Num Base.Mat Model.Circuit Model.World Model.Display Proofs.CompileP Proofs.CircuitP.
Import ListNotations.

(* ---------------- "returns Ok with a state satisfying P" ---------------- *)
Definition okP {S} (P : S -> Prop) (r : res S) : Prop := exists s, r = Ok s /\ P s.
Definition anyP {S} : S -> Prop := fun _ => True.

Lemma okP_ret {S} (P : S -> Prop) s : P s -> okP P (Ok s).
Proof. intros H. exists s. auto. Qed.
Lemma okP_bind {S T} (P : S -> Prop) (Q : T -> Prop) (r : res S) (f : S -> res T) :
  okP P r -> (forall s, P s -> okP Q (f s)) -> okP Q (bind r f).
Proof. intros (s & -> & Hs) H. simpl. apply H, Hs. Qed.
Lemma okP_weaken {S} (P Q : S -> Prop) r : okP P r -> (forall s, P s -> Q s) -> okP Q r.
Proof. intros (s & -> & Hs) H. exists s. auto. Qed.

Lemma foldM_ok {A S} (P : S -> Prop) (f : S -> A -> res S) l :
  (forall s a, In a l -> P s -> okP P (f s a)) -> forall s, P s -> okP P (foldM f l s).
Proof.
  induction l as [|a l IH]; intros H s Hs; simpl.
  - apply okP_ret, Hs.
  - apply okP_bind with (P := P).
    + apply H; [left; reflexivity|exact Hs].
    + intros s' Hs'. apply IH; [|exact Hs']. intros s0 a0 Hin. apply H. right. exact Hin.
Qed.

Lemma mapM_ok {A B} (f : A -> res B) l :
  (forall a, In a l -> okP anyP (f a)) -> okP (fun r => length r = length l) (mapM f l).
Proof.
  induction l as [|a l IH]; intros H; simpl.
  - apply okP_ret. reflexivity.
  - apply okP_bind with (P := anyP); [apply H; left; reflexivity|]. intros b _.
    apply okP_bind with (P := fun r => length r = length l).
    + apply IH. intros a0 Hin. apply H. right. exact Hin.
    + intros r Hr. apply okP_ret. simpl. congruence.
Qed.

(* ---------------- Python list operations ---------------- *)
Lemma idx_ok {A} (l : list A) i : i < length l -> okP anyP (idx l i).
Proof.
  intros H. unfold idx. destruct (nth_error l i) as [x|] eqn:E.
  - apply okP_ret. exact Logic.I.
  - apply nth_error_None in E. lia.
Qed.

Lemma idx_err {A} (l : list A) i : length l <= i -> idx l i = Err IndexError.
Proof. intros H. unfold idx. apply nth_error_None in H. rewrite H. reflexivity. Qed.

Lemma set_nth_ok l i v : i < length l -> okP (fun l' => length l' = length l) (set_nth l i v).
Proof.
  revert i; induction l as [|x l IH]; intros i H; simpl in *; [lia|].
  destruct i as [|i]; [apply okP_ret; reflexivity|].
  apply okP_bind with (P := fun l' => length l' = length l); [apply IH; lia|].
  intros r Hr. apply okP_ret. simpl. congruence.
Qed.

Lemma slice_length {A} (l : list A) a b : length (slice l a b) = Nat.min (b - a) (length l - a).
Proof. unfold slice. rewrite firstn_length, skipn_length. reflexivity. Qed.

Lemma maxZ_ok l : 0 < length l -> okP anyP (maxZ l).
Proof. destruct l; simpl; intros H; [lia|]. apply okP_ret. exact Logic.I. Qed.

Lemma maxZ_slice_ok l a b : a <= b -> a < length l -> okP anyP (maxZ (slice l a (S b))).
Proof. intros H1 H2. apply maxZ_ok. rewrite slice_length. lia. Qed.

Lemma fold_max_lt N l : forall x, x < N -> Forall (fun m => m < N) l -> fold_left Nat.max l x < N.
Proof.
  induction l as [|y l IH]; intros x Hx Hl; simpl; [exact Hx|].
  inversion Hl; subst. apply IH; [lia|assumption].
Qed.
Lemma fold_max_ge l : forall x, x <= fold_left Nat.max l x.
Proof.
  induction l as [|y l IH]; intros x; simpl; [lia|]. specialize (IH (Nat.max x y)). lia.
Qed.
Lemma fold_min_le l : forall x, fold_left Nat.min l x <= x.
Proof.
  induction l as [|y l IH]; intros x; simpl; [lia|]. specialize (IH (Nat.min x y)). lia.
Qed.

Lemma memb_in x l : memb x l = true <-> In x l.
Proof.
  unfold memb. rewrite existsb_exists. split.
  - intros (y & Hy & E). apply Nat.eqb_eq in E. subst. exact Hy.
  - intros H. exists x. split; [exact H|apply Nat.eqb_refl].
Qed.

Lemma ltb_all_forall N l : ltb_all N l = true <-> Forall (fun m => m < N) l.
Proof.
  unfold ltb_all. rewrite forallb_forall, Forall_forall. split; intros H x Hx.
  - apply Nat.ltb_lt, H, Hx.
  - apply Nat.ltb_lt, H, Hx.
Qed.

Lemma nodupb_nodup l : nodupb l = true -> NoDup l.
Proof.
  induction l as [|x l IH]; simpl; intros H; [constructor|].
  apply andb_true_iff in H as [H1 H2]. constructor; [|apply IH, H2].
  intros Hin. apply memb_in in Hin. rewrite Hin in H1. discriminate.
Qed.

Lemma ylocs_from_length her dy dys cnt : forall i y, length (ylocs_from her dy dys i cnt y) = cnt.
Proof. induction cnt as [|c IH]; intros i y; simpl; [reflexivity|]. rewrite IH. reflexivity. Qed.
Lemma ylocs_length b her n : length (ylocs b her n) = n.
Proof. destruct b; apply ylocs_from_length. Qed.

Lemma range_in a b i : In i (range a b) -> a <= i < b.
Proof. unfold range. rewrite in_seq. lia. Qed.

(* ---------------- label expansion ---------------- *)
Definition nvis (her l : list nat) : nat := length (filter (fun i => negb (memb i her)) l).

Lemma expand_loop_ok her L l : forall count (full : list (option nat)),
  count + nvis her l <= L ->
  okP (fun r : nat * list (option nat) => length (snd r) = length full + length l)
      (foldM (fun (acc : nat * list (option nat)) i =>
                let '(count, full) := acc in
                if memb i her then Ok (count, None :: full)
                else if Nat.ltb count L then Ok (S count, Some count :: full)
                else Err IndexError) l (count, full)).
Proof.
  induction l as [|a l IH]; intros count full H; simpl.
  - apply okP_ret. simpl. lia.
  - unfold nvis in H. simpl in H. destruct (memb a her) eqn:E; simpl in *.
    + eapply okP_weaken; [apply IH; exact H|]. intros r Hr. simpl in Hr. lia.
    + destruct (Nat.ltb_spec count L) as [Hlt|Hge]; [|lia]. simpl.
      eapply okP_weaken; [apply IH; unfold nvis; lia|]. intros r Hr. simpl in Hr. lia.
Qed.

Lemma filter_split_length {A} (f : A -> bool) l :
  length (filter f l) + length (filter (fun x => negb (f x)) l) = length l.
Proof. induction l as [|a l IH]; simpl; [reflexivity|]. destruct (f a); simpl; lia. Qed.

Lemma nvis_count her n :
  NoDup her -> Forall (fun m => m < n) her -> nvis her (seq 0 n) = n - length her.
Proof.
  intros Hnd Hlt. unfold nvis.
  pose proof (filter_split_length (fun i => memb i her) (seq 0 n)) as Hs. rewrite seq_length in Hs.
  assert (Hin : length (filter (fun i => memb i her) (seq 0 n)) = length her).
  { apply Nat.le_antisymm.
    - apply NoDup_incl_length; [apply NoDup_filter, seq_NoDup|].
      intros x Hx. apply filter_In in Hx as [_ Hx]. apply memb_in, Hx.
    - apply NoDup_incl_length; [exact Hnd|].
      intros x Hx. apply filter_In. split; [|apply memb_in, Hx].
      apply in_seq. rewrite Forall_forall in Hlt. specialize (Hlt x Hx). lia. }
  lia.
Qed.

Lemma expand_labels_ok n her :
  NoDup her -> Forall (fun m => m < n) her ->
  okP (fun full => length full = n) (expand_labels n her (n - length her)).
Proof.
  intros Hnd Hlt. unfold expand_labels, range. rewrite Nat.sub_0_r.
  eapply okP_bind; [apply (expand_loop_ok her (n - length her) (seq 0 n) 0 [])|].
  - rewrite nvis_count by assumption. lia.
  - intros r Hr. apply okP_ret. rewrite rev_length, Hr, seq_length. reflexivity.
Qed.

Lemma check_labels_ok n her lab :
  lab = None \/ lab = Some (n - length her) -> check_labels n her lab = Ok (n - length her).
Proof. intros [->| ->]; unfold check_labels; [reflexivity|]. rewrite Nat.eqb_refl. reflexivity. Qed.

Lemma check_labels_bad n her k :
  k <> n - length her -> check_labels n her (Some k) = Err DisplayError.
Proof. intros H. unfold check_labels. apply Nat.eqb_neq in H. rewrite H. reflexivity. Qed.

(* =====================================================================
   the drawing of one component
   ===================================================================== *)
Section Comp.
  Context {K : Type}.
  Notation comp := (@comp K).
  Notation circ := (@circ K).
  Notation val := (@val K).

  (* what a component must satisfy for the drawers (members of a group are not drawn) *)
  Definition dwf (N : nat) (c : comp) : Prop :=
    match c with
    | BS m1 m2 _ _ => m1 < N /\ m2 < N
    | PS m _ => m < N
    | LossC m _ => m < N
    | Barrier ms => Forall (fun m => m < N) ms
    | Swaps sw => Forall (fun m => m < N) (dkeys sw) /\ Forall (fun m => m < N) (dvals sw)
    | UMat m k _ => 0 < k /\ m + k <= N
    | Group _ m1 m2 hin hout =>
        m1 < N /\ m2 < N /\
        Forall (fun k => Nat.min m1 m2 + k < N) (dkeys hin) /\ Forall (fun k => Nat.min m1 m2 + k < N) (dkeys hout)
    end.

  Definition params_ok (pe : penv) : Prop := forall i, snd (pe i) <> POther.

  Variable cx : @dctx.
  Variable N : nat.
  Hypothesis Hys : length (d_ys cx) = N.
  Hypothesis Hpe : params_ok (d_pe cx).

  Definition good (s : @dst) : Prop := length (xs s) = N.

  Lemma good_emit k s : good s -> good (emit k s).
  Proof. exact (fun H => H). Qed.
  Lemma good_emits k c s : good s -> good (emits k c s).
  Proof. exact (fun H => H). Qed.

  Lemma fmt_ok v : fmt (ppv (K:=K) (d_pe cx) (d_vals cx) v) = Ok tt.
  Proof.
    destruct v as [x|i]; simpl; [reflexivity|].
    specialize (Hpe i). destruct (d_pe cx i) as [lab k]. simpl in Hpe.
    destruct (d_vals cx); [destruct k; try reflexivity; contradiction|].
    destruct lab; [reflexivity|]. destruct k; try reflexivity; contradiction.
  Qed.

  Lemma wg_at_ok s i : i < N -> good s -> okP good (wg_at cx s i).
  Proof.
    intros Hi Hs. unfold wg_at. eapply okP_bind; [apply idx_ok; rewrite Hys; exact Hi|].
    intros _ _. apply okP_ret, good_emit, Hs.
  Qed.

  Lemma setx_ok s i v : i < N -> good s -> okP good (setx s i v).
  Proof.
    intros Hi Hs. unfold setx. eapply okP_bind; [apply set_nth_ok; rewrite Hs; exact Hi|].
    intros l Hl. apply okP_ret. unfold good. simpl. rewrite Hl. exact Hs.
  Qed.

  Lemma idx_xs_ok s i : i < N -> good s -> okP anyP (idx (xs s) i).
  Proof. intros Hi Hs. apply idx_ok. rewrite Hs. exact Hi. Qed.
  Lemma idx_ys_ok i : i < N -> okP anyP (idx (d_ys cx) i).
  Proof. intros Hi. apply idx_ok. rewrite Hys. exact Hi. Qed.

  Lemma connect_ok s a b xloc : good s -> okP good (connect cx s a b xloc).
  Proof.
    intros Hs. unfold connect.
    apply foldM_ok; [|exact Hs]. intros s0 [i loc] Hin Hs0. simpl.
    destruct ((loc <? xloc)%Z && negb (memb (i + a) (d_her cx))); [|apply okP_ret, Hs0].
    apply wg_at_ok; [|exact Hs0].
    apply in_combine_l in Hin. apply in_seq in Hin. rewrite slice_length, Hs in Hin. lia.
  Qed.

  Lemma wg_range_ok alt s a b : b <= N -> good s -> okP good (wg_range cx alt s a b).
  Proof.
    intros Hb Hs. unfold wg_range. apply foldM_ok; [|exact Hs].
    intros s0 i Hin Hs0. apply range_in in Hin.
    destruct (memb i (d_her cx)); [destruct (alt i)|]; try (apply wg_at_ok; [lia|exact Hs0]).
    apply okP_ret, Hs0.
  Qed.

  Lemma out_range_ok alt s a b v : b <= N -> good s -> okP good (out_range cx alt s a b v).
  Proof.
    intros Hb Hs. unfold out_range. apply foldM_ok; [|exact Hs].
    intros s0 i Hin Hs0. apply range_in in Hin.
    apply okP_bind with (P := good).
    - destruct (memb i (d_her cx)); [destruct (alt i)|]; try (apply wg_at_ok; [lia|exact Hs0]).
      apply okP_ret, Hs0.
    - intros s1 Hs1. apply setx_ok; [lia|exact Hs1].
  Qed.

  Lemma add_heralds_ok hin hout s :
    Forall (fun m => m < N) (dkeys hin) -> Forall (fun m => m < N) (dkeys hout) -> good s ->
    okP good (add_heralds cx hin hout s).
  Proof.
    intros Hi Ho Hs. unfold add_heralds.
    assert (Hone : forall l, Forall (fun m => m < N) l -> forall s, good s ->
              okP good (foldM (fun s m => do _ <- idx (d_ys cx) m; Ok (emit c_text (emit (at_mode c_herald m) s))) l s)).
    { intros l Hl. apply foldM_ok. intros s0 m Hin Hs0. rewrite Forall_forall in Hl.
      eapply okP_bind; [apply idx_ys_ok, Hl, Hin|]. intros _ _. apply okP_ret. exact Hs0. }
    eapply okP_bind; [apply Hone; [exact Hi|exact Hs]|]. intros s1 Hs1. apply Hone; [exact Ho|exact Hs1].
  Qed.

  Lemma add_ps_ok s m (v : val) : m < N -> good s -> okP good (add_ps cx s m v).
  Proof.
    intros Hm Hs. unfold add_ps.
    eapply okP_bind; [apply idx_xs_ok; eassumption|]. intros xloc _.
    eapply okP_bind; [apply idx_ys_ok; eassumption|]. intros _ _.
    rewrite fmt_ok. simpl. apply setx_ok; [exact Hm|exact Hs].
  Qed.

  Lemma add_loss_ok s m (v : val) : m < N -> good s -> okP good (add_loss cx s m v).
  Proof.
    intros Hm Hs. unfold add_loss. destruct (negb (d_loss cx)); [apply okP_ret, Hs|].
    eapply okP_bind; [apply idx_xs_ok; eassumption|]. intros xloc _.
    eapply okP_bind; [apply idx_ys_ok; eassumption|]. intros _ _.
    rewrite fmt_ok. simpl. apply setx_ok; [exact Hm|exact Hs].
  Qed.

  Lemma add_bs_ok s m1 m2 (v : val) : m1 < N -> m2 < N -> good s -> okP good (add_bs cx s m1 m2 v).
  Proof.
    intros H1 H2 Hs. unfold add_bs.
    set (a := if m2 <? m1 then m2 else m1). set (b := if m2 <? m1 then m1 else m2).
    assert (Hab : a <= b /\ b < N) by (subst a b; destruct (Nat.ltb_spec m2 m1); lia).
    destruct Hab as [Hab Hb].
    eapply okP_bind; [apply idx_ys_ok; lia|]. intros _ _.
    eapply okP_bind; [apply idx_ys_ok; lia|]. intros _ _.
    eapply okP_bind; [apply maxZ_slice_ok; [exact Hab|rewrite Hs; lia]|]. intros xloc _.
    eapply okP_bind; [apply connect_ok, Hs|]. intros s1 Hs1.
    eapply okP_bind; [apply wg_range_ok; [lia|exact Hs1]|]. intros s2 Hs2.
    rewrite fmt_ok. simpl.
    eapply okP_bind; [apply wg_range_ok; [lia|exact Hs2]|]. intros s3 Hs3.
    apply out_range_ok; [lia|exact Hs3].
  Qed.

  Lemma add_unitary_ok s m k : 0 < k -> m + k <= N -> good s -> okP good (add_unitary cx s m k).
  Proof.
    intros Hk Hmk Hs. unfold add_unitary.
    destruct (Nat.eqb_spec k 0) as [->|_]; [lia|].
    eapply okP_bind; [apply idx_ys_ok; lia|]. intros _ _.
    eapply okP_bind; [apply idx_ys_ok; lia|]. intros _ _.
    eapply okP_bind; [apply maxZ_slice_ok; [lia|rewrite Hs; lia]|]. intros xloc _.
    eapply okP_bind; [apply connect_ok, Hs|]. intros s1 Hs1.
    eapply okP_bind; [apply wg_range_ok; [lia|exact Hs1]|]. intros s2 Hs2.
    apply out_range_ok; [lia|exact Hs2].
  Qed.

  Lemma add_barrier_ok s ms : Forall (fun m => m < N) ms -> good s -> okP good (add_barrier cx s ms).
  Proof.
    intros Hms Hs. unfold add_barrier. rewrite Forall_forall in Hms.
    assert (Hloop : forall mx, okP good
              (foldM (fun s m => do loc <- idx (xs s) m;
                                 do s1 <- (if (loc <? mx)%Z then wg_at cx s m else Ok s);
                                 setx s1 m mx) ms s)).
    { intros mx. apply foldM_ok; [|exact Hs]. intros s0 m Hin Hs0.
      eapply okP_bind; [apply idx_xs_ok; [apply Hms, Hin|exact Hs0]|]. intros loc _.
      apply okP_bind with (P := good).
      - destruct (loc <? mx)%Z; [apply wg_at_ok; [apply Hms, Hin|exact Hs0]|apply okP_ret, Hs0].
      - intros s1 Hs1. apply setx_ok; [apply Hms, Hin|exact Hs1]. }
    destruct (d_b cx).
    - destruct ms as [|m0 ms'] eqn:Ems; [simpl; apply okP_ret, Hs|].
      rewrite <- Ems in *.
      eapply okP_bind with (P := anyP); [|intros [mx|] _; [apply Hloop|apply okP_ret, Hs]].
      eapply okP_bind; [apply mapM_ok; intros m Hin; apply idx_xs_ok; [apply Hms, Hin|exact Hs]|].
      intros locs Hl. eapply okP_bind; [apply maxZ_ok; rewrite Hl, Ems; simpl; lia|].
      intros mx _. apply okP_ret. exact Logic.I.
    - eapply okP_bind with (P := anyP); [|intros [mx|] _; [apply Hloop|apply okP_ret, Hs]].
      eapply okP_bind with (P := anyP); [|intros mx _; apply okP_ret; exact Logic.I].
      apply foldM_ok; [|exact Logic.I]. intros acc m Hin _.
      eapply okP_bind; [apply idx_xs_ok; [apply Hms, Hin|exact Hs]|]. intros loc _. apply okP_ret. exact Logic.I.
  Qed.

  Lemma add_swaps_ok s sw :
    Forall (fun m => m < N) (dkeys sw) -> Forall (fun m => m < N) (dvals sw) -> good s ->
    okP good (add_swaps cx s sw).
  Proof.
    intros Hk Hv Hs. unfold add_swaps. destruct sw as [|[k0 v0] sw'] eqn:Esw; [apply okP_ret, Hs|].
    rewrite <- Esw in *.
    assert (Hkeys : dkeys sw = k0 :: dkeys sw') by (rewrite Esw; reflexivity).
    rewrite Hkeys. simpl minN. simpl maxN. simpl bind.
    set (mn := fold_left Nat.min (dkeys sw') k0). set (mx := fold_left Nat.max (dkeys sw') k0).
    assert (Hmx : mx < N).
    { rewrite Hkeys in Hk. inversion Hk; subst. apply fold_max_lt; assumption. }
    assert (Hmn : mn <= mx).
    { pose proof (fold_min_le (dkeys sw') k0). pose proof (fold_max_ge (dkeys sw') k0). subst mn mx. lia. }
    eapply okP_bind; [apply maxZ_slice_ok; [exact Hmn|rewrite Hs; lia]|]. intros xloc _.
    eapply okP_bind with (P := anyP).
    - apply foldM_ok; [|exact Logic.I]. intros acc [i j] Hin _. simpl.
      destruct (memb i (d_her cx)); [apply okP_ret; exact Logic.I|].
      assert (Hij : i < N /\ j < N).
      { apply in_app_or in Hin as [Hin|Hin].
        - rewrite Forall_forall in Hk, Hv. split.
          + apply Hk. unfold dkeys. apply in_map_iff. exists (i, j). split; [reflexivity|exact Hin].
          + apply Hv. unfold dvals. apply in_map_iff. exists (i, j). split; [reflexivity|exact Hin].
        - apply in_map_iff in Hin as (m & E & Hm). injection E as <- <-.
          apply filter_In in Hm as [Hm _]. apply range_in in Hm. lia. }
      eapply okP_bind; [apply idx_ys_ok; tauto|]. intros _ _.
      eapply okP_bind; [apply idx_ys_ok; tauto|]. intros _ _. apply okP_ret. exact Logic.I.
    - intros cnt _.
      eapply okP_bind; [apply connect_ok, Hs|]. intros s1 Hs1.
      eapply okP_bind; [apply wg_range_ok; [lia|exact Hs1]|]. intros s2 Hs2.
      apply out_range_ok; [lia|]. destruct (d_b cx); [apply good_emit|apply good_emits]; exact Hs2.
  Qed.

  Lemma shifted_keys a (h : dict) : dkeys (map (fun kv => (fst kv + a, snd kv)) h) = map (fun k => k + a) (dkeys h).
  Proof. unfold dkeys. rewrite !map_map. reflexivity. Qed.

  Lemma add_group_ok s m1 m2 hin hout :
    m1 < N -> m2 < N ->
    Forall (fun k => Nat.min m1 m2 + k < N) (dkeys hin) -> Forall (fun k => Nat.min m1 m2 + k < N) (dkeys hout) ->
    good s -> okP good (add_group cx s m1 m2 hin hout).
  Proof.
    intros H1 H2 Hi Ho Hs. unfold add_group.
    set (a := if m2 <? m1 then m2 else m1). set (b := if m2 <? m1 then m1 else m2).
    assert (Hab : a <= b /\ b < N /\ a = Nat.min m1 m2) by (subst a b; destruct (Nat.ltb_spec m2 m1); lia).
    destruct Hab as (Hab & Hb & Ha).
    eapply okP_bind; [apply idx_ys_ok; lia|]. intros _ _.
    eapply okP_bind; [apply idx_ys_ok; lia|]. intros _ _.
    eapply okP_bind; [apply maxZ_slice_ok; [exact Hab|rewrite Hs; lia]|]. intros xloc _.
    eapply okP_bind; [apply connect_ok, Hs|]. intros s1 Hs1.
    eapply okP_bind; [apply wg_range_ok; [lia|exact Hs1]|]. intros s2 Hs2.
    eapply okP_bind; [apply out_range_ok; [lia|apply good_emit, good_emit, Hs2]|]. intros s3 Hs3.
    apply add_heralds_ok; [| |exact Hs3]; rewrite shifted_keys, Forall_map; rewrite <- Ha in *.
    - eapply Forall_impl; [|exact Hi]. simpl. intros; lia.
    - eapply Forall_impl; [|exact Ho]. simpl. intros; lia.
  Qed.

  Lemma add_comp_ok s c : dwf N c -> good s -> okP good (add_comp cx s c).
  Proof.
    destruct c as [m1 m2 v cv|m v|m v|ms|sw|m k V|sp m1 m2 hin hout]; simpl; intros Hw Hs.
    - destruct Hw. apply add_bs_ok; assumption.
    - apply add_ps_ok; assumption.
    - apply add_loss_ok; assumption.
    - apply add_barrier_ok; assumption.
    - destruct Hw. apply add_swaps_ok; assumption.
    - destruct Hw. apply add_unitary_ok; assumption.
    - destruct Hw as (? & ? & ? & ?). apply add_group_ok; assumption.
  Qed.

  Lemma add_spec_ok sp s : Forall (dwf N) sp -> good s -> okP good (foldM (add_comp cx) sp s).
  Proof.
    intros Hsp Hs. apply foldM_ok; [|exact Hs]. intros s0 c Hin Hs0.
    rewrite Forall_forall in Hsp. apply add_comp_ok; [apply Hsp, Hin|exact Hs0].
  Qed.

  Lemma lead_in_ok (c : circ) s : c_n c = N -> good s -> okP good (lead_in cx c s).
  Proof.
    intros Hn Hs. unfold lead_in. destruct (nonempty (c_xin c)); [|apply okP_ret, Hs].
    apply foldM_ok; [|exact Hs]. intros s0 m Hin Hs0. apply range_in in Hin.
    destruct (memb m (d_her cx)); [apply okP_ret, Hs0|].
    eapply okP_bind; [apply idx_xs_ok; [lia|exact Hs0]|]. intros x _.
    eapply okP_bind; [apply wg_at_ok; [lia|exact Hs0]|]. intros s1 Hs1. apply setx_ok; [lia|exact Hs1].
  Qed.

  Lemma lead_out_ok (c : circ) s : 1 <= N -> good s -> okP (fun sm => good (fst sm)) (lead_out cx c s).
  Proof.
    intros HN Hs. unfold lead_out.
    eapply okP_bind; [apply maxZ_ok; rewrite Hs; lia|]. intros m0 _.
    eapply okP_bind with (P := good); [|intros s' Hs'; apply okP_ret; exact Hs'].
    apply foldM_ok; [|exact Hs]. intros s0 [i loc] Hin Hs0. simpl.
    destruct ((loc <? _)%Z && negb (memb i (d_her cx))); [|apply okP_ret, Hs0].
    apply in_combine_l in Hin. apply in_seq in Hin. rewrite Hs in Hin.
    eapply okP_bind; [apply wg_at_ok; [lia|exact Hs0]|]. intros s1 Hs1. apply setx_ok; [lia|exact Hs1].
  Qed.
End Comp.

(* =====================================================================
   whole circuits
   ===================================================================== *)
Section Circ.
  Context {K : Type}.
  Notation comp := (@comp K).
  Notation circ := (@circ K).

  Definition lt_all (N : nat) (l : list nat) : Prop := Forall (fun m => m < N) l.

  (* what the drawers need of a circuit *)
  Record DWF (c : circ) : Prop := mkDWF {
    dwf_spec : Forall (dwf (c_n c)) (c_spec c);
    dwf_xin : lt_all (c_n c) (dkeys (c_xin c));
    dwf_xout : lt_all (c_n c) (dkeys (c_xout c));
    dwf_int : lt_all (c_n c) (c_int c);
    dwf_nodup : NoDup (c_int c) }.

  Definition labels_ok (c : circ) (op : dopts) : Prop :=
    o_labels op = None \/ o_labels op = Some (c_n c - length (c_int c)).

  Lemma mk_ctx_ys b pe (c : circ) op : length (d_ys (mk_ctx b pe c op)) = c_n c.
  Proof. apply ylocs_length. Qed.

  (* everything the two drawers do between option validation and label expansion *)
  Lemma body_ok b pe (c : circ) op s0 :
    DWF c -> 1 <= c_n c -> params_ok pe -> length (xs s0) = c_n c ->
    let cx := mk_ctx b pe c op in
    okP (good (c_n c))
        (do s <- lead_in cx c s0;
         do s <- foldM (add_comp cx) (c_spec c) s;
         do sm <- lead_out cx c s;
         add_heralds cx (c_xin c) (c_xout c) (fst sm)).
  Proof.
    intros [Hsp Hxi Hxo Hint Hnd] Hn Hpe H0 cx.
    pose proof (mk_ctx_ys b pe c op) as Hys. fold cx in Hys.
    eapply okP_bind; [apply (lead_in_ok cx (c_n c) Hys); [reflexivity|exact H0]|]. intros s1 Hs1.
    eapply okP_bind; [apply (add_spec_ok cx (c_n c) Hys Hpe); [exact Hsp|exact Hs1]|]. intros s2 Hs2.
    eapply okP_bind; [apply (lead_out_ok cx (c_n c) Hys); [exact Hn|exact Hs2]|]. intros [s3 ml] Hs3.
    apply (add_heralds_ok cx (c_n c) Hys); assumption.
  Qed.

  Lemma draw_svg_ok pe (c : circ) op :
    DWF c -> 1 <= c_n c -> params_ok pe -> labels_ok c op -> okP anyP (draw_svg pe c op).
  Proof.
    intros Hw Hn Hpe Hlab. pose proof Hw as [Hsp Hxi Hxo Hint Hnd]. unfold draw_svg. cbv zeta.
    pose proof (mk_ctx_ys SVG pe c op) as Hys. set (cx := mk_ctx SVG pe c op) in *.
    rewrite (check_labels_ok _ _ _ Hlab). cbn [bind].
    eapply okP_bind; [apply expand_labels_ok; assumption|]. intros full Hfull.
    eapply okP_bind with (P := anyP).
    { destruct full; [simpl in Hfull; lia|]. apply okP_ret. exact Logic.I. }
    intros _ _.
    eapply okP_bind with (P := good (c_n c)).
    { apply foldM_ok; [|unfold good; simpl; apply repeat_length].
      intros s m Hin Hs. apply range_in in Hin. rewrite Hfull in Hin.
      eapply okP_bind; [apply (idx_ys_ok cx (c_n c) Hys); lia|]. intros _ _. apply okP_ret. exact Hs. }
    intros s0 Hs0.
    pose proof (body_ok SVG pe c op s0 Hw Hn Hpe Hs0) as Hb. cbv zeta in Hb. fold cx in Hb.
    destruct Hb as (s4 & Eb & Hs4).
    destruct (lead_in cx c s0) as [s1|] eqn:E1; simpl in Eb; [|discriminate]. cbn [bind].
    destruct (foldM (add_comp cx) (c_spec c) s1) as [s2|] eqn:E2; simpl in Eb; [|discriminate]. cbn [bind].
    destruct (lead_out cx c s2) as [sm|] eqn:E3; simpl in Eb; [|discriminate]. cbn [bind].
    rewrite Eb. cbn [bind].
    eapply okP_bind with (P := good (c_n c)).
    { apply foldM_ok; [|exact Hs4]. intros s i Hin Hs. apply range_in in Hin.
      eapply okP_bind; [apply (idx_xs_ok (c_n c)); [lia|exact Hs]|]. intros x _.
      apply (setx_ok (c_n c)); [lia|exact Hs]. }
    intros s5 Hs5.
    eapply okP_bind; [apply maxZ_ok; rewrite Hs5; lia|]. intros _ _.
    eapply okP_bind; [apply maxZ_ok; rewrite Hys; lia|]. intros _ _.
    eapply okP_bind with (P := anyP); [|intros; apply okP_ret; exact Logic.I].
    apply foldM_ok; [|exact Logic.I]. intros u i Hin _. apply range_in in Hin.
    eapply okP_bind; [apply (idx_ys_ok cx (c_n c) Hys); lia|]. intros; apply okP_ret; exact Logic.I.
  Qed.

  (* the MPL drawer reaches its label validation on every well-formed circuit *)
  Lemma draw_mpl_reaches_labels pe (c : circ) op :
    DWF c -> 1 <= c_n c -> params_ok pe ->
    exists s, draw_mpl pe c op =
              (do L <- check_labels (c_n c) (c_int c) (o_labels op);
               do _ <- expand_labels (c_n c) (c_int c) L; Ok s).
  Proof.
    intros Hw Hn Hpe. unfold draw_mpl. cbv zeta.
    pose proof (mk_ctx_ys MPL pe c op) as Hys. set (cx := mk_ctx MPL pe c op) in *.
    assert (H0 : length (xs (mkSt (repeat 2%Z (c_n c)) [])) = c_n c) by (simpl; apply repeat_length).
    pose proof (body_ok MPL pe c op _ Hw Hn Hpe H0) as Hb. cbv zeta in Hb. fold cx in Hb.
    destruct Hb as (s4 & Eb & Hs4).
    destruct (lead_in cx c _) as [s1|] eqn:E1; simpl in Eb; [|discriminate]. cbn [bind].
    destruct (foldM (add_comp cx) (c_spec c) s1) as [s2|] eqn:E2; simpl in Eb; [|discriminate]. cbn [bind].
    destruct (lead_out cx c s2) as [sm|] eqn:E3; simpl in Eb; [|discriminate]. cbn [bind].
    rewrite Eb. cbn [bind].
    destruct (maxZ_ok (xs s4)) as (x & -> & _); [rewrite Hs4; lia|]. cbn [bind].
    destruct (maxZ_ok (d_ys cx)) as (y & -> & _); [rewrite Hys; lia|]. cbn [bind].
    exists s4. reflexivity.
  Qed.

  Lemma draw_mpl_ok pe (c : circ) op :
    DWF c -> 1 <= c_n c -> params_ok pe -> labels_ok c op -> okP anyP (draw_mpl pe c op).
  Proof.
    intros Hw Hn Hpe Hlab. destruct (draw_mpl_reaches_labels pe c op Hw Hn Hpe) as (s & ->).
    rewrite (check_labels_ok _ _ _ Hlab). cbn [bind].
    destruct Hw as [_ _ _ Hint Hnd].
    eapply okP_bind; [apply expand_labels_ok; assumption|]. intros; apply okP_ret; exact Logic.I.
  Qed.

  (* ---- T1 display_total ---- *)
  Theorem display_total pe (c : circ) op :
    DWF c -> 1 <= c_n c -> params_ok pe -> labels_ok c op ->
    display_svg pe c op = Ok tt /\ display_mpl pe c op = Ok tt.
  Proof.
    intros Hw Hn Hpe Hlab. unfold display_svg, display_mpl.
    destruct (draw_svg_ok pe c op Hw Hn Hpe Hlab) as (s1 & -> & _).
    destruct (draw_mpl_ok pe c op Hw Hn Hpe Hlab) as (s2 & -> & _). split; reflexivity.
  Qed.

  (* ---- T1 display_rejects ---- *)
  Theorem display_rejects_type pe (c : circ) op : display pe c DUnknown op = Err DisplayError.
  Proof. reflexivity. Qed.

  (* SVG validates the labels before anything can fail: no hypothesis on the circuit *)
  Theorem display_svg_rejects_labels pe (c : circ) op k :
    o_labels op = Some k -> k <> c_n c - length (c_int c) -> display_svg pe c op = Err DisplayError.
  Proof.
    intros E Hk. unfold display_svg, draw_svg. rewrite E, (check_labels_bad _ _ _ Hk). reflexivity.
  Qed.

  (* MPL validates them after drawing: the drawing must get there *)
  Theorem display_mpl_rejects_labels pe (c : circ) op k :
    DWF c -> 1 <= c_n c -> params_ok pe ->
    o_labels op = Some k -> k <> c_n c - length (c_int c) -> display_mpl pe c op = Err DisplayError.
  Proof.
    intros Hw Hn Hpe E Hk. unfold display_mpl.
    destruct (draw_mpl_reaches_labels pe c op Hw Hn Hpe) as (s & ->).
    rewrite E, (check_labels_bad _ _ _ Hk). reflexivity.
  Qed.

  (* =====================================================================
     the invariant WF (deep: also the members of groups, which unpack_groups
     brings to the top level) and the decidable check exported to the harness
     ===================================================================== *)
  Inductive cwf (N : nat) : comp -> Prop :=
  | cwf_bs m1 m2 v cv : m1 < N -> m2 < N -> cwf N (BS m1 m2 v cv)
  | cwf_ps m v : m < N -> cwf N (PS m v)
  | cwf_loss m v : m < N -> cwf N (LossC m v)
  | cwf_bar ms : lt_all N ms -> cwf N (Barrier ms)
  | cwf_sw sw : lt_all N (dkeys sw) -> lt_all N (dvals sw) -> cwf N (Swaps sw)
  | cwf_u m k V : 0 < k -> m + k <= N -> cwf N (UMat m k V)
  | cwf_group sp m1 m2 hin hout :
      m1 <= m2 -> m2 < N -> lt_all (S m2 - m1) (dkeys hin) -> lt_all (S m2 - m1) (dkeys hout) ->
      Forall (cwf N) sp -> cwf N (Group sp m1 m2 hin hout).

  Record WF (c : circ) : Prop := mkWF {
    wf_spec : Forall (cwf (c_n c)) (c_spec c);
    wf_in : lt_all (c_n c) (dkeys (c_in c));
    wf_out : lt_all (c_n c) (dkeys (c_out c));
    wf_xin : lt_all (c_n c) (dkeys (c_xin c));
    wf_xout : lt_all (c_n c) (dkeys (c_xout c));
    wf_int : lt_all (c_n c) (c_int c);
    wf_nodup : NoDup (c_int c) }.

  Lemma cwf_dwf N x : cwf N x -> dwf N x.
  Proof.
    intros H. destruct H as [| | | | | |sp m1 m2 hin hout Hle Hlt Hi Ho Hsp]; simpl; auto.
    repeat split; try lia.
    - unfold lt_all in *. eapply Forall_impl; [|exact Hi]. intros a Ha. cbv beta in Ha. lia.
    - unfold lt_all in *. eapply Forall_impl; [|exact Ho]. intros a Ha. cbv beta in Ha. lia.
  Qed.

  Lemma WF_DWF c : WF c -> DWF c.
  Proof.
    intros [Hs _ _ Hxi Hxo Hi Hn]. constructor; try assumption.
    eapply Forall_impl; [|exact Hs]. intros x. apply cwf_dwf.
  Qed.

  Lemma comp_ok_cwf N (x : comp) : comp_ok N x = true -> cwf N x.
  Proof.
    induction x as [m1 m2 v cv|m v|m v|ms|sw|m k V|sp m1 m2 hin hout IH] using comp_ind'; simpl; intros H.
    - apply andb_true_iff in H as [H1 H2]. constructor; apply Nat.ltb_lt; assumption.
    - constructor. apply Nat.ltb_lt, H.
    - constructor. apply Nat.ltb_lt, H.
    - constructor. apply ltb_all_forall, H.
    - apply andb_true_iff in H as [H1 H2]. constructor; apply ltb_all_forall; assumption.
    - apply andb_true_iff in H as [H1 H2]. constructor; [apply Nat.ltb_lt, H1|apply Nat.leb_le, H2].
    - apply andb_true_iff in H as [H H5]. apply andb_true_iff in H as [H H4].
      apply andb_true_iff in H as [H H3]. apply andb_true_iff in H as [H1 H2].
      constructor; [apply Nat.leb_le, H1|apply Nat.ltb_lt, H2|apply ltb_all_forall, H3|apply ltb_all_forall, H4|].
      clear -IH H5. induction IH as [|y sp Hy _ IHsp]; [constructor|].
      apply andb_true_iff in H5 as [Ha Hb]. constructor; [apply Hy, Ha|apply IHsp, Hb].
  Qed.

  Theorem wf_check_sound (c : circ) : wf_check c = true -> WF c.
  Proof.
    unfold wf_check. intros H.
    repeat match type of H with (_ && _ = true) => apply andb_true_iff in H as [H ?] end.
    constructor; try (apply ltb_all_forall; assumption); [|apply nodupb_nodup; assumption].
    rewrite forallb_forall in H. apply Forall_forall. intros x Hx. apply comp_ok_cwf, H, Hx.
  Qed.

  (* ---- WF is established by the constructors and preserved by the
     primitive calls, herald, copy, + and unpack_groups ---- *)
  Lemma WF_new n : WF (new_circ n).
  Proof. constructor; simpl; constructor. Qed.

  Lemma WF_unitary k V : 0 < k -> WF (unitary_circ (K:=K) k V).
  Proof.
    intros Hk. constructor; simpl; try constructor; [|constructor]. constructor; [exact Hk|lia].
  Qed.

  Lemma WF_app (c : circ) sp : WF c -> Forall (cwf (c_n c)) sp -> WF (app_spec c sp).
  Proof.
    intros [Hs ? ? ? ? ? ?] Hsp. constructor; simpl; try assumption. apply Forall_app. split; assumption.
  Qed.

  Lemma mode_ok_lt' (c : circ) z a : mode_ok c z = Ok a -> a < c_n c.
  Proof.
    unfold mode_ok, in_range. destruct ((0 <=? z)%Z && (z <? Z.of_nat (c_n c))%Z) eqn:E; [|discriminate].
    intros H. injection H as <-. apply andb_true_iff in E as [E1 E2].
    apply Z.leb_le in E1. apply Z.ltb_lt in E2. lia.
  Qed.

  Lemma all_ok_lt (c : circ) zs r : all_ok c zs = Ok r -> lt_all (c_n c) r.
  Proof.
    revert r; induction zs as [|z zs IH]; intros r H; simpl in H.
    - injection H as <-. constructor.
    - destruct (mode_ok c z) as [a|] eqn:E; simpl in H; [|discriminate].
      destruct (all_ok c zs) as [r'|] eqn:E'; simpl in H; [|discriminate].
      injection H as <-. constructor; [eapply mode_ok_lt'; eassumption|apply IH; reflexivity].
  Qed.

  Ltac dbind H a E :=
    match type of H with
    | bind ?x _ = _ => destruct x as [a|] eqn:E; simpl in H; [|discriminate]
    end.
  Ltac dif H E :=
    match type of H with
    | (if ?b then _ else _) = _ => destruct b eqn:E; try discriminate
    end.

  Section Ops.
    Context (o : ops K).

    Lemma WF_op_bs e c m1 m2 r l cv c' : WF c -> op_bs o e c m1 m2 r l cv = Ok c' -> WF c'.
    Proof.
      intros Hw H. unfold op_bs in H. dbind H a Ea. dif H Eab. dbind H b Eb. dbind H u Eu. dif H Ev.
      apply mode_ok_lt' in Ea. apply mode_ok_lt' in Eb.
      destruct (loss_positive o l); injection H as <-.
      - apply WF_app; [apply WF_app; [exact Hw|]|]; repeat constructor; assumption.
      - apply WF_app; [exact Hw|]. repeat constructor; assumption.
    Qed.

    Lemma WF_op_ps e c m phi l c' : WF c -> op_ps o e c m phi l = Ok c' -> WF c'.
    Proof.
      intros Hw H. unfold op_ps in H. dbind H a Ea. dbind H u Eu. apply mode_ok_lt' in Ea.
      destruct (loss_positive o l); injection H as <-.
      - apply WF_app; [apply WF_app; [exact Hw|]|]; repeat constructor; assumption.
      - apply WF_app; [exact Hw|]. repeat constructor; assumption.
    Qed.

    Lemma WF_op_loss e c m l c' : WF c -> op_loss o e c m l = Ok c' -> WF c'.
    Proof.
      intros Hw H. unfold op_loss in H. dbind H a Ea. dbind H u Eu. apply mode_ok_lt' in Ea.
      injection H as <-. apply WF_app; [exact Hw|]. repeat constructor; assumption.
    Qed.
  End Ops.

  Lemma WF_op_barrier (c : circ) ms c' : WF c -> op_barrier c ms = Ok c' -> WF c'.
  Proof.
    intros Hw H. unfold op_barrier in H. dbind H r Er. injection H as <-.
    apply WF_app; [exact Hw|]. constructor; [|constructor]. constructor. eapply all_ok_lt; eassumption.
  Qed.

  Lemma dkeys_combine' (ks vs : list nat) : length ks = length vs -> dkeys (combine ks vs) = ks.
  Proof.
    revert vs; induction ks as [|k ks IH]; intros [|v vs] H; simpl in *; try discriminate; [reflexivity|].
    f_equal. apply IH. lia.
  Qed.
  Lemma dvals_combine' (ks vs : list nat) : length ks = length vs -> dvals (combine ks vs) = vs.
  Proof.
    revert vs; induction ks as [|k ks IH]; intros [|v vs] H; simpl in *; try discriminate; [reflexivity|].
    f_equal. apply IH. lia.
  Qed.
  Lemma all_ok_length (c : circ) zs r : all_ok c zs = Ok r -> length r = length zs.
  Proof.
    revert r; induction zs as [|z zs IH]; intros r H; simpl in H.
    - injection H as <-. reflexivity.
    - destruct (mode_ok c z) as [a|] eqn:E; simpl in H; [|discriminate].
      destruct (all_ok c zs) as [r'|] eqn:E'; simpl in H; [|discriminate].
      injection H as <-. simpl. f_equal. apply IH. reflexivity.
  Qed.

  Lemma WF_op_mode_swaps (c : circ) sw c' : WF c -> op_mode_swaps c sw = Ok c' -> WF c'.
  Proof.
    intros Hw H. unfold op_mode_swaps in H. set (mapped := fold_left _ sw []) in H.
    dbind H ks Ek. dbind H vs Ev. dif H Es. injection H as <-.
    assert (Hlen : length ks = length vs).
    { rewrite (all_ok_length _ _ _ Ek), (all_ok_length _ _ _ Ev), !map_length. reflexivity. }
    apply WF_app; [exact Hw|]. constructor; [|constructor]. constructor.
    - rewrite dkeys_combine' by exact Hlen. eapply all_ok_lt; eassumption.
    - rewrite dvals_combine' by exact Hlen. eapply all_ok_lt; eassumption.
  Qed.

  Lemma dset_keys_lt N (d : dict) k v : lt_all N (dkeys d) -> k < N -> lt_all N (dkeys (dset d k v)).
  Proof.
    intros Hd Hk. induction d as [|[k' v'] d IH]; simpl.
    - constructor; [exact Hk|constructor].
    - inversion Hd; subst. destruct (Nat.eqb k' k); simpl; constructor; auto.
      apply IH. assumption.
  Qed.

  Lemma WF_op_herald (c : circ) n im om c' : WF c -> op_herald c n im om = Ok c' -> WF c'.
  Proof.
    intros [Hs Hi Ho Hxi Hxo Hint Hnd] H. unfold op_herald in H.
    dbind H a Ea. dbind H b Eb. dif H E1. dif H E2. injection H as <-.
    apply mode_ok_lt' in Ea. apply mode_ok_lt' in Eb.
    constructor; simpl; try assumption; apply dset_keys_lt; assumption.
  Qed.

  Lemma WF_copy (c : circ) : WF c -> WF (copy_circ c).
  Proof. exact (fun H => H). Qed.

  Lemma WF_op_plus (a b c' : circ) : WF a -> WF b -> op_plus a b = Ok c' -> WF c'.
  Proof.
    intros [Ha _ _ _ _ _ _] [Hb _ _ _ _ _ _] H. unfold op_plus in H. dif H En. dif H Eh. injection H as <-.
    apply negb_false_iff, Nat.eqb_eq in En.
    constructor; simpl; try constructor. apply Forall_app. split; [exact Ha|]. rewrite En. exact Hb.
  Qed.

  Lemma WF_unpack (c : circ) : WF c -> WF (unpack_groups c).
  Proof.
    intros [Hs Hi Ho _ _ _ _]. constructor; simpl; try assumption; try constructor.
    unfold unpack_spec. apply Forall_forall. intros x Hx. apply in_flat_map in Hx as (g & Hg & Hx).
    rewrite Forall_forall in Hs. specialize (Hs g Hg).
    destruct g; try (destruct Hx as [<-|[]]; exact Hs).
    inversion Hs; subst. match goal with Hf : Forall (cwf _) _ |- _ => rewrite Forall_forall in Hf; apply Hf, Hx end.
  Qed.
End Circ.

(* =====================================================================
   Circuit.add.  First the case without heralds and ancillas (e.g. adding a
   Unitary or a plain sub-circuit, not grouped), then the general case
   (heralds, parent ancillas in the span, grouping): WFH_op_add.
   ===================================================================== *)
Section AddSimple.
  Context {K : Type} (o : ops K).
  Notation comp := (@comp K).
  Notation circ := (@circ K).

  Lemma dset_keys_in (d : dict) a b k : In k (dkeys (dset d a b)) -> k = a \/ In k (dkeys d).
  Proof.
    induction d as [|[k' v'] d IH]; simpl; [intuition|].
    destruct (Nat.eqb_spec k' a) as [->|Hne]; simpl; [intuition|]. intros [E|H]; [auto|]. destruct (IH H); auto.
  Qed.
  Lemma dset_vals_in (d : dict) a b v : In v (dvals (dset d a b)) -> v = b \/ In v (dvals d).
  Proof.
    induction d as [|[k' v'] d IH]; simpl; [intuition|].
    destruct (Nat.eqb_spec k' a) as [->|Hne]; simpl; [intuition|]. intros [E|H]; [auto|]. destruct (IH H); auto.
  Qed.
  Lemma dict_of_keys_in l k : In k (dkeys (dict_of l)) -> In k (map fst l).
  Proof.
    unfold dict_of.
    assert (G : forall acc, In k (dkeys (fold_left (fun d kv => dset d (fst kv) (snd kv)) l acc)) ->
                            In k (dkeys acc) \/ In k (map fst l)).
    { induction l as [|[a b] l IH]; intros acc H; simpl in *; [auto|].
      destruct (IH _ H) as [H1|H1]; [|auto]. apply dset_keys_in in H1 as [->|H1]; auto. }
    intros H. destruct (G [] H) as [[]|H1]. exact H1.
  Qed.
  Lemma dict_of_vals_in l v : In v (dvals (dict_of l)) -> In v (map snd l).
  Proof.
    unfold dict_of.
    assert (G : forall acc, In v (dvals (fold_left (fun d kv => dset d (fst kv) (snd kv)) l acc)) ->
                            In v (dvals acc) \/ In v (map snd l)).
    { induction l as [|[a b] l IH]; intros acc H; simpl in *; [auto|].
      destruct (IH _ H) as [H1|H1]; [|auto]. apply dset_vals_in in H1 as [->|H1]; auto. }
    intros H. destruct (G [] H) as [[]|H1]. exact H1.
  Qed.

  Lemma cwf_mono N N' (x : comp) : N <= N' -> cwf N x -> cwf N' x.
  Proof.
    intros Hle. induction x as [m1 m2 v cv|m v|m v|ms|sw|m k V|sp m1 m2 hin hout IH] using comp_ind';
      intros H; inversion H; subst; constructor; try lia; try assumption;
      try (unfold lt_all in *; eapply Forall_impl; [|eassumption]; intros a Ha; cbv beta in Ha; lia).
    rewrite Forall_forall in *. intros y Hy. apply IH; [exact Hy|]. auto.
  Qed.

  Lemma cwf_shift N d (x : comp) : cwf N x -> cwf (N + d) (shift_comp d x).
  Proof.
    induction x as [m1 m2 v cv|m v|m v|ms|sw|m k V|sp m1 m2 hin hout IH] using comp_ind';
      intros H; inversion H; subst; simpl.
    - constructor; lia.
    - constructor; lia.
    - constructor; lia.
    - constructor. unfold lt_all in *. rewrite Forall_forall in *. intros y Hy.
      apply in_map_iff in Hy as (p & <- & Hp). match goal with Hf : forall x, In x ms -> _ |- _ => specialize (Hf p Hp) end. lia.
    - match goal with Hk : lt_all N (dkeys sw), Hv : lt_all N (dvals sw) |- _ =>
        unfold lt_all in Hk, Hv; rewrite Forall_forall in Hk, Hv end.
      constructor; unfold lt_all; rewrite Forall_forall; intros y Hy.
      + apply dict_of_keys_in in Hy. rewrite map_map in Hy. apply in_map_iff in Hy as ([a b] & <- & Hp). simpl.
        assert (a < N) by (apply H1; unfold dkeys; apply in_map_iff; exists (a, b); auto). lia.
      + apply dict_of_vals_in in Hy. rewrite map_map in Hy. apply in_map_iff in Hy as ([a b] & <- & Hp). simpl.
        assert (b < N) by (apply H2; unfold dvals; apply in_map_iff; exists (a, b); auto). lia.
    - constructor; lia.
    - constructor; try lia.
      + replace (S (m2 + d) - (m1 + d)) with (S m2 - m1) by lia. assumption.
      + replace (S (m2 + d) - (m1 + d)) with (S m2 - m1) by lia. assumption.
      + rewrite Forall_forall in *. intros y Hy. apply in_map_iff in Hy as (p & <- & Hp). apply IH; auto.
  Qed.

  (* adding a herald-free sub-circuit to a circuit without ancillas, not grouped *)
  Lemma WF_op_add_simple (c sub : circ) mode c' :
    c_int c = [] -> c_in sub = [] -> c_out sub = [] ->
    WF c -> WF sub -> op_add o c sub mode false = Ok c' -> WF c'.
  Proof.
    intros Hint Hin Hout Hc Hs H.
    apply op_add_simple in H; try assumption; try reflexivity.
    destruct H as (m & -> & Hle & ->). apply WF_app; [exact Hc|].
    destruct Hs as [Hsp _ _ _ _ _ _]. unfold shift_spec. rewrite Forall_forall in *. intros y Hy.
    apply in_map_iff in Hy as (x & <- & Hx). apply (cwf_mono (c_n sub + m)); [lia|]. apply cwf_shift, Hsp, Hx.
  Qed.
End AddSimple.

(* ---------- dictionaries ---------- *)
Lemma dset_nodup (d : dict) k v : NoDup (dkeys d) -> NoDup (dkeys (dset d k v)).
Proof.
  induction d as [|[k' v'] d IH]; simpl; intros H.
  - constructor; [intros []|constructor].
  - inversion H; subst. destruct (Nat.eqb_spec k' k) as [->|Hne]; simpl; [constructor; assumption|].
    constructor; [|apply IH; assumption]. intros Hin. apply dset_keys_in in Hin as [->|Hin]; [congruence|contradiction].
Qed.

Lemma dict_of_nodup l : NoDup (dkeys (dict_of l)).
Proof.
  unfold dict_of.
  assert (G : forall acc, NoDup (dkeys acc) -> NoDup (dkeys (fold_left (fun d kv => dset d (fst kv) (snd kv)) l acc))).
  { induction l as [|[a b] l IH]; intros acc H; simpl; [exact H|]. apply IH, dset_nodup, H. }
  apply G. constructor.
Qed.

Lemma dset_fresh (d : dict) k v : ~ In k (dkeys d) -> dset d k v = d ++ [(k, v)].
Proof.
  induction d as [|[k' v'] d IH]; simpl; intros H; [reflexivity|].
  destruct (Nat.eqb_spec k' k) as [->|Hne]; [exfalso; apply H; left; reflexivity|].
  rewrite IH; [reflexivity|]. intros Hin. apply H. right. exact Hin.
Qed.

Lemma dict_of_id l : NoDup (map fst l) -> dict_of l = l.
Proof.
  unfold dict_of.
  assert (G : forall l acc, NoDup (dkeys acc ++ map fst l) ->
              fold_left (fun d kv => dset d (fst kv) (snd kv)) l acc = acc ++ l).
  { clear l. induction l as [|[a b] l IH]; intros acc Hn; simpl; [rewrite app_nil_r; reflexivity|].
    simpl in Hn. pose proof (NoDup_remove_2 _ _ _ Hn) as Hna.
    rewrite dset_fresh by (intros Hin; apply Hna; apply in_or_app; left; exact Hin).
    rewrite IH; [rewrite <- app_assoc; reflexivity|].
    unfold dkeys. rewrite map_app. simpl. rewrite <- app_assoc. simpl. exact Hn. }
  intros H. rewrite G; [reflexivity|exact H].
Qed.

Lemma nodup_map_inj {A B} (f : A -> B) l : (forall a b, f a = f b -> a = b) -> NoDup l -> NoDup (map f l).
Proof.
  intros Hf. induction 1 as [|x l Hx _ IH]; simpl; constructor; [|exact IH].
  intros Hin. apply in_map_iff in Hin as (y & E & Hy). apply Hf in E. subst. contradiction.
Qed.

Lemma bump_inj mode a b : bump mode a = bump mode b -> a = b.
Proof. unfold bump. destruct (Nat.leb_spec mode a), (Nat.leb_spec mode b); lia. Qed.
Lemma bump_lt mode a N : a < N -> bump mode a < S N.
Proof. unfold bump. destruct (Nat.leb_spec mode a); lia. Qed.
Lemma bump_ne mode a : bump mode a <> mode.
Proof. unfold bump. destruct (Nat.leb_spec mode a); lia. Qed.

Lemma bump_dict_keys_lt mode N (h : dict) : lt_all N (dkeys h) -> lt_all (S N) (dkeys (bump_dict mode h)).
Proof.
  unfold lt_all. rewrite !Forall_forall. intros H k Hk. unfold bump_dict in Hk.
  apply dict_of_keys_in in Hk. rewrite map_map in Hk. apply in_map_iff in Hk as ([a b] & <- & Hab). simpl.
  apply bump_lt, H. unfold dkeys. apply in_map_iff. exists (a, b). auto.
Qed.

Lemma bump_dict_id mode (h : dict) : NoDup (dkeys h) ->
  bump_dict mode h = map (fun kv => (bump mode (fst kv), snd kv)) h.
Proof.
  intros H. unfold bump_dict. apply dict_of_id. rewrite map_map. simpl.
  unfold dkeys in H. rewrite <- (map_map fst (bump mode)). apply nodup_map_inj; [apply bump_inj|exact H].
Qed.

(* ---------- sorting ---------- *)
Fixpoint ascl (l : list nat) : Prop :=
  match l with [] => True | x :: l' => (forall y, In y l' -> x <= y) /\ ascl l' end.
Lemma insert_in x l y : In y (insert_nat x l) <-> y = x \/ In y l.
Proof. induction l as [|z l IH]; simpl; [intuition|]. destruct (x <=? z); simpl; [intuition|]. rewrite IH. intuition. Qed.
Lemma insert_ascl x l : ascl l -> ascl (insert_nat x l).
Proof.
  induction l as [|z l IH]; intros H; simpl; [split; [intros y []|exact Logic.I]|].
  destruct H as [Hz Hl]. destruct (Nat.leb_spec x z) as [Hle|Hgt]; simpl.
  - split; [|split; assumption]. intros y [<-|Hy]; [exact Hle|]. specialize (Hz y Hy). lia.
  - split; [|apply IH; exact Hl]. intros y Hy. apply insert_in in Hy as [->|Hy]; [lia|auto].
Qed.
Lemma sort_ascl l : ascl (sort_nat l).
Proof. induction l as [|x l IH]; simpl; [exact Logic.I|]. apply insert_ascl, IH. Qed.
Lemma sort_in l y : In y (sort_nat l) <-> In y l.
Proof. induction l as [|x l IH]; simpl; [reflexivity|]. rewrite insert_in, IH. intuition. Qed.
Lemma sort_nodup l : NoDup l -> NoDup (sort_nat l).
Proof. intros H. eapply Permutation_NoDup; [apply Permutation_sym, sort_nat_perm|exact H]. Qed.
Lemma sort_length l : length (sort_nat l) = length l.
Proof. apply Permutation_length, sort_nat_perm. Qed.

Lemma ascl_bound B l : forall x, ascl (x :: l) -> NoDup (x :: l) -> Forall (fun y => y < B) (x :: l) -> x + S (length l) <= B.
Proof.
  induction l as [|y l IH]; intros x Ha Hn Hb.
  - inversion Hb; subst. simpl. lia.
  - destruct Ha as [Hx Ha]. inversion Hn as [|? ? Hnx Hn']; subst. inversion Hb as [|? ? _ Hb']; subst.
    specialize (IH y Ha Hn' Hb'). assert (x <= y) by (apply Hx; left; reflexivity).
    assert (x <> y) by (intros ->; apply Hnx; left; reflexivity). simpl in *. lia.
Qed.

(* ---------- the swap-completion loop stays inside the circuit ---------- *)
Definition freec (V : list nat) (x : nat) : nat := nvis V (seq 0 x).     (* #{y < x, y not in V} *)

Lemma freec_S V x : freec V (S x) = freec V x + (if memb x V then 0 else 1).
Proof.
  unfold freec, nvis. rewrite seq_S, filter_app, app_length. simpl. destruct (memb x V); reflexivity.
Qed.
Lemma freec_mono V a b : a <= b -> freec V a <= freec V b.
Proof. induction 1 as [|b _ IH]; [lia|]. rewrite freec_S. lia. Qed.
Lemma freec_total V n : NoDup V -> Forall (fun m => m < n) V -> freec V n = n - length V.
Proof. apply nvis_count. Qed.

Lemma skip_spec V fuel : forall cur,
  let r := skip_vals fuel V cur in
  cur <= r /\ (forall y, cur <= y < r -> In y V) /\ (~ In r V \/ r = cur + fuel).
Proof.
  induction fuel as [|f IH]; intros cur; simpl.
  - split; [lia|]. split; [intros y Hy; lia|right; lia].
  - change (existsb (Nat.eqb cur) V) with (memb cur V). destruct (memb cur V) eqn:E.
    + specialize (IH (S cur)). cbv zeta in IH. destruct IH as (H1 & H2 & H3).
      split; [lia|]. split.
      * intros y Hy. destruct (Nat.eq_dec y cur) as [->|Hne]; [apply memb_in, E|apply H2; lia].
      * destruct H3 as [H3|H3]; [left; exact H3|right; lia].
    + split; [lia|]. split; [intros y Hy; lia|]. left. intros Hin. apply memb_in in Hin. congruence.
Qed.

Lemma skip_free V cur : ~ In (skip_vals (S (length V)) V cur) V.
Proof.
  pose proof (skip_spec V (S (length V)) cur) as H. cbv zeta in H. destruct H as (H1 & H2 & [H3|H3]); [exact H3|].
  exfalso.
  assert (Hincl : incl (seq cur (S (length V))) V).
  { intros y Hy. apply in_seq in Hy. apply H2. lia. }
  pose proof (NoDup_incl_length (seq_NoDup _ _) Hincl) as Hl. rewrite seq_length in Hl. lia.
Qed.

Lemma freec_skip V a b : a <= b -> (forall y, a <= y < b -> In y V) -> freec V b = freec V a.
Proof.
  induction 1 as [|b Hle IH]; intros H; [reflexivity|].
  rewrite freec_S. replace (memb b V) with true by (symmetry; apply memb_in, H; lia).
  rewrite IH; [lia|]. intros y Hy. apply H. lia.
Qed.

Lemma dget_some' (d : dict) k v : dget d k = Some v -> In k (dkeys d) /\ In v (dvals d).
Proof.
  induction d as [|[k' v'] d IH]; simpl; [discriminate|].
  destruct (Nat.eqb_spec k' k) as [->|Hne]; intros H.
  - injection H as ->. split; left; reflexivity.
  - destruct (IH H). split; right; assumption.
Qed.
Lemma dget_none' (d : dict) k : dget d k = None -> ~ In k (dkeys d).
Proof.
  induction d as [|[k' v'] d IH]; simpl; [intros _ []|].
  destruct (Nat.eqb_spec k' k) as [->|Hne]; [discriminate|]. intros H [E|Hin]; [congruence|]. exact (IH H Hin).
Qed.

Lemma dset_range N (d : dict) k v :
  lt_all N (dkeys d) -> lt_all N (dvals d) -> k < N -> v < N ->
  lt_all N (dkeys (dset d k v)) /\ lt_all N (dvals (dset d k v)).
Proof.
  unfold lt_all. rewrite !Forall_forall. intros Hk Hv Hkn Hvn. split; intros x Hx.
  - apply dset_keys_in in Hx as [->|Hx]; auto.
  - apply dset_vals_in in Hx as [->|Hx]; auto.
Qed.

Lemma complete_swaps_range N (prov : dict) :
  NoDup (dkeys prov) -> lt_all N (dkeys prov) -> NoDup (dvals prov) -> lt_all N (dvals prov) ->
  forall cnt i cur acc,
    i + cnt = N -> freec (dvals prov) cur = freec (dkeys prov) i ->
    lt_all N (dkeys acc) -> lt_all N (dvals acc) ->
    lt_all N (dkeys (complete_swaps cnt i prov cur acc)) /\ lt_all N (dvals (complete_swaps cnt i prov cur acc)).
Proof.
  intros Hnk Hk Hnv Hv.
  assert (Hlen : length (dvals prov) = length (dkeys prov)) by (unfold dvals, dkeys; rewrite !map_length; reflexivity).
  assert (Hlp : length prov = length (dvals prov)) by (unfold dvals; rewrite map_length; reflexivity).
  induction cnt as [|cnt IH]; intros i cur acc Hi Hf Hak Hav; cbn [complete_swaps]; [split; assumption|].
  destruct (dget prov i) as [v|] eqn:E.
  - apply dget_some' in E as [Eik Evv].
    assert (Hv' : v < N) by (unfold lt_all in Hv; rewrite Forall_forall in Hv; auto).
    assert (Hi' : i < N) by lia.
    destruct (dset_range N acc i v Hak Hav Hi' Hv') as [H1 H2].
    apply IH; try assumption; [lia|]. rewrite freec_S. replace (memb i (dkeys prov)) with true by (symmetry; apply memb_in, Eik). lia.
  - apply dget_none' in E.
    set (cur' := skip_vals (S (length prov)) (dvals prov) cur).
    assert (Hfree : ~ In cur' (dvals prov)) by (subst cur'; rewrite Hlp; apply skip_free).
    pose proof (skip_spec (dvals prov) (S (length prov)) cur) as Hs. cbv zeta in Hs. fold cur' in Hs.
    destruct Hs as (Hge & Hall & _).
    assert (Hfc : freec (dvals prov) cur' = freec (dkeys prov) i) by (rewrite (freec_skip _ cur cur' Hge Hall); exact Hf).
    assert (HSi : freec (dkeys prov) (S i) = freec (dkeys prov) i + 1).
    { rewrite freec_S. destruct (memb i (dkeys prov)) eqn:Em; [apply memb_in in Em; contradiction|reflexivity]. }
    assert (HSc : freec (dvals prov) (S cur') = freec (dvals prov) cur' + 1).
    { rewrite freec_S. destruct (memb cur' (dvals prov)) eqn:Em; [apply memb_in in Em; contradiction|reflexivity]. }
    assert (Hcur : cur' < N).
    { destruct (Nat.lt_ge_cases cur' N) as [Hlt|Hge']; [exact Hlt|exfalso].
      pose proof (freec_mono (dvals prov) N cur' Hge') as Hm1.
      pose proof (freec_mono (dkeys prov) (S i) N ltac:(lia)) as Hm2.
      rewrite (freec_total _ N Hnv Hv) in Hm1. rewrite (freec_total _ N Hnk Hk) in Hm2. lia. }
    assert (Hi' : i < N) by lia.
    apply IH; try lia.
    + destruct (Nat.eqb i cur'); [assumption|]. exact (proj1 (dset_range N acc i cur' Hak Hav Hi' Hcur)).
    + destruct (Nat.eqb i cur'); [assumption|]. exact (proj2 (dset_range N acc i cur' Hak Hav Hi' Hcur)).
Qed.

Section AddGeneral.
  Context {K : Type} (o : ops K).
  Notation comp := (@comp K).
  Notation circ := (@circ K).

  Lemma lt_all_in N l x : lt_all N l -> In x l -> x < N.
  Proof. unfold lt_all. rewrite Forall_forall. auto. Qed.
  Lemma lt_all_intro N l : (forall x, In x l -> x < N) -> lt_all N l.
  Proof. unfold lt_all. rewrite Forall_forall. auto. Qed.

  Lemma shift_rel_keys rel (h : dict) k :
    In k (dkeys (shift_rel_heralds rel h)) ->
    exists k0, In k0 (dkeys h) /\ k = (if ((rel <=? Z.of_nat k0) && (0 <=? rel))%Z then S k0 else k0).
  Proof.
    unfold shift_rel_heralds. intros H. apply dict_of_keys_in in H. rewrite map_map in H.
    apply in_map_iff in H as ([a b] & <- & Hab). simpl. exists a. split; [|reflexivity].
    unfold dkeys. apply in_map_iff. exists (a, b). auto.
  Qed.

  (* add_empty_mode_to_circuit_spec keeps every component inside the enlarged circuit *)
  Lemma cwf_aem N mode (x : comp) : cwf N x -> cwf (S N) (aem o mode x).
  Proof.
    induction x as [m1 m2 v cv|m v|m v|ms|sw|m k V|sp m1 m2 hin hout IH] using comp_ind';
      intros H; inversion H; subst; simpl.
    - constructor; apply bump_lt; assumption.
    - constructor; apply bump_lt; assumption.
    - constructor; apply bump_lt; assumption.
    - constructor. apply lt_all_intro. intros y Hy. apply in_map_iff in Hy as (p & <- & Hp).
      apply bump_lt. eapply lt_all_in; eassumption.
    - constructor; apply lt_all_intro; intros y Hy.
      + apply dict_of_keys_in in Hy. rewrite map_map in Hy. apply in_map_iff in Hy as ([a b] & <- & Hp). simpl.
        apply bump_lt. apply (lt_all_in N (dkeys sw)); [assumption|]. unfold dkeys. apply in_map_iff. exists (a, b). auto.
      + apply dict_of_vals_in in Hy. rewrite map_map in Hy. apply in_map_iff in Hy as ([a b] & <- & Hp). simpl.
        apply bump_lt. apply (lt_all_in N (dvals sw)); [assumption|]. unfold dvals. apply in_map_iff. exists (a, b). auto.
    - destruct ((bump mode m <? mode) && (mode <? bump mode m + k)) eqn:E.
      + apply andb_true_iff in E as [E1 E2]. apply Nat.ltb_lt in E1. apply Nat.ltb_lt in E2.
        revert E1 E2. unfold bump. destruct (Nat.leb_spec mode m); intros E1 E2; constructor; lia.
      + unfold bump. destruct (Nat.leb_spec mode m); constructor; lia.
    - assert (Hb : bump mode m1 <= bump mode m2 /\ bump mode m2 < S N).
      { unfold bump. destruct (Nat.leb_spec mode m1), (Nat.leb_spec mode m2); lia. }
      assert (Hkeys : forall h, lt_all (S m2 - m1) (dkeys h) ->
                lt_all (S (bump mode m2) - bump mode m1)
                       (dkeys (shift_rel_heralds (Z.of_nat mode - Z.of_nat (bump mode m1)) h))).
      { intros h Hh. apply lt_all_intro. intros y Hy. apply shift_rel_keys in Hy as (k0 & Hk0 & ->).
        pose proof (lt_all_in _ _ _ Hh Hk0) as Hlt.
        unfold bump. destruct (Nat.leb_spec mode m1), (Nat.leb_spec mode m2);
          repeat match goal with |- context [(?a <=? ?b)%Z] => destruct (Z.leb_spec a b) end; cbn [andb]; lia. }
      constructor; try (apply Hkeys; assumption); try lia.
      rewrite Forall_forall in *. intros y Hy. apply in_map_iff in Hy as (p & <- & Hp). apply IH; auto.
  Qed.

  (* ---- Circuit.add as a composition of named steps ---- *)
  Definition pass_target (w : circ) (m i : nat) : Z :=
    fold_left (fun t hm => if (Z.of_nat hm <? t)%Z then (t + 1)%Z else t)
              (sort_nat (dkeys (c_in w))) (Z.of_nat i - Z.of_nat m)%Z.
  Definition pass_step (m : nat) (acc : circ * list comp) (i : nat) : circ * list comp :=
    let '(w, sp) := acc in
    let target := pass_target w m i in
    if ((0 <=? target) && (target <? Z.of_nat (c_n w)))%Z
    then add_empty_mode o w sp (Z.to_nat target) else (w, sp).
  Definition parent_step (m : nat) (p : circ) (hm : nat) : circ :=
    let '(p', sp') := add_empty_mode o p (c_spec p) (m + hm) in
    mkCirc (c_n p') sp' (c_in p') (c_out p') (c_xin p') (c_xout p') (c_int p' ++ [m + hm]).
  Definition herald_step (m : nat) (p : circ) (kv : nat * nat) : circ :=
    mkCirc (c_n p) (c_spec p) (dset (c_in p) (fst kv + m) (snd kv))
           (dset (c_out p) (fst kv + m) (snd kv)) (c_xin p) (c_xout p) (c_int p).

  Definition op_add' (c sub : circ) (mode : Z) (group : bool) : res circ :=
    do m <- mode_ok c (map_mode (c_int c) mode);
    let cc := unpack_groups (copy_circ sub) in
    let group := group || negb (Nat.eqb (length (c_in cc)) 0) in
    let w := if group then cc else copy_circ sub in
    if Nat.ltb (c_n c - m - length (filter (fun i => Nat.leb m i) (c_int c))) (c_n w - length (c_in w))
    then Err ModeRangeError else
    let swaps := complete_swaps (c_n w) 0 (dict_of (combine (dkeys (c_out w)) (dkeys (c_in w)))) 0 [] in
    let sp0 := if list_eqb (dkeys swaps) (dvals swaps) then c_spec w else c_spec w ++ [Swaps swaps] in
    let w1 := mkCirc (c_n w) (c_spec w) (c_in w) (c_in w) (c_xin w) (c_xin w) (c_int w) in
    let '(w2, sp) := fold_left (pass_step m) (sort_nat (c_int c)) (w1, sp0) in
    let c1 := fold_left (parent_step m) (sort_nat (dkeys (c_in w2))) c in
    let c2 := fold_left (herald_step m) (c_in w2) c1 in
    let add_cs := shift_spec m sp in
    if group then Ok (app_spec c2 [Group add_cs m (m + c_n w2 - 1) (c_in w2) (c_in w2)])
    else Ok (app_spec c2 add_cs).

  Lemma op_add_eq c sub mode g : op_add o c sub mode g = op_add' c sub mode g.
  Proof. reflexivity. Qed.

  (* ---- pass-through modes for the parent's ancillas ---- *)
  Definition PI (h0 : nat) (acc : circ * list comp) : Prop :=
    Forall (cwf (c_n (fst acc))) (snd acc) /\ lt_all (c_n (fst acc)) (dkeys (c_in (fst acc))) /\
    NoDup (dkeys (c_in (fst acc))) /\ length (c_in (fst acc)) = h0.

  Lemma target_neg l : forall t0, (t0 < 0)%Z ->
    fold_left (fun t hm => if (Z.of_nat hm <? t)%Z then (t + 1)%Z else t) l t0 = t0.
  Proof.
    induction l as [|hm l IH]; intros t0 H; simpl; [reflexivity|].
    destruct (Z.ltb_spec (Z.of_nat hm) t0); [lia|]. apply IH, H.
  Qed.

  Lemma aem_PI h0 (w : circ) sp t : PI h0 (w, sp) -> PI h0 (add_empty_mode o w sp t).
  Proof.
    intros (Hsp & Hk & Hn & Hl). unfold PI, add_empty_mode. simpl in *.
    split; [|split; [|split]].
    - unfold aem_spec. rewrite Forall_forall in *. intros y Hy. apply in_map_iff in Hy as (x & <- & Hx). apply cwf_aem, Hsp, Hx.
    - apply bump_dict_keys_lt, Hk.
    - unfold bump_dict. apply dict_of_nodup.
    - rewrite bump_dict_id by exact Hn. rewrite map_length. exact Hl.
  Qed.

  Lemma pass_step_inv h0 m acc i : PI h0 acc ->
    PI h0 (pass_step m acc i) /\
    c_n (fst acc) <= c_n (fst (pass_step m acc i)) <= c_n (fst acc) + (if Nat.leb m i then 1 else 0).
  Proof.
    destruct acc as [w sp]. intros H. unfold pass_step.
    destruct ((0 <=? pass_target w m i)%Z && (pass_target w m i <? Z.of_nat (c_n w))%Z) eqn:E.
    - split; [apply aem_PI, H|]. simpl. destruct (Nat.leb_spec m i) as [Hle|Hgt]; [lia|exfalso].
      apply andb_true_iff in E as [E1 _]. apply Z.leb_le in E1.
      unfold pass_target in E1. rewrite target_neg in E1 by lia. lia.
    - split; [exact H|]. simpl. destruct (m <=? i); lia.
  Qed.

  Lemma pass_fold_inv h0 m L : forall acc, PI h0 acc ->
    PI h0 (fold_left (pass_step m) L acc) /\
    c_n (fst acc) <= c_n (fst (fold_left (pass_step m) L acc)) <= c_n (fst acc) + length (filter (Nat.leb m) L).
  Proof.
    induction L as [|i L IH]; intros acc H; simpl; [split; [exact H|lia]|].
    destruct (pass_step_inv h0 m acc i H) as [H1 H2]. destruct (IH _ H1) as [H3 H4].
    split; [exact H3|]. destruct (m <=? i); simpl; lia.
  Qed.

  Lemma filter_perm_length (f : nat -> bool) l l' : Permutation l l' -> length (filter f l) = length (filter f l').
  Proof.
    induction 1; simpl; try congruence.
    - destruct (f x); simpl; congruence.
    - destruct (f x), (f y); reflexivity.
  Qed.

  Lemma count_ge_bound N m (l : list nat) : NoDup l -> lt_all N l -> length (filter (Nat.leb m) l) <= N - m.
  Proof.
    intros Hn Hl.
    assert (Hincl : incl (filter (Nat.leb m) l) (seq m (N - m))).
    { intros x Hx. apply filter_In in Hx as [Hx Hle]. apply Nat.leb_le in Hle.
      pose proof (lt_all_in _ _ _ Hl Hx). apply in_seq. lia. }
    pose proof (NoDup_incl_length (NoDup_filter _ Hn) Hincl) as H. rewrite seq_length in H. exact H.
  Qed.

  Lemma keys_length_le N (d : dict) : NoDup (dkeys d) -> lt_all N (dkeys d) -> length d <= N.
  Proof.
    intros Hn Hl.
    assert (Hincl : incl (dkeys d) (seq 0 N)) by (intros x Hx; apply in_seq; pose proof (lt_all_in _ _ _ Hl Hx); lia).
    pose proof (NoDup_incl_length Hn Hincl) as H. rewrite seq_length in H. unfold dkeys in H. rewrite map_length in H. exact H.
  Qed.

  (* ---- the parent receives one new ancilla per herald of the sub-circuit ---- *)
  Definition WFH (c : circ) : Prop := WF c /\ NoDup (dkeys (c_in c)) /\ NoDup (dkeys (c_out c)).

  Lemma nodup_snoc (l : list nat) x : NoDup l -> ~ In x l -> NoDup (l ++ [x]).
  Proof.
    induction l as [|y l IH]; simpl; intros Hn Hx; [constructor; [intros []|constructor]|].
    inversion Hn; subst. constructor.
    - intros Hin. apply in_app_or in Hin as [Hin|[->|[]]]; [contradiction|]. apply Hx. left. reflexivity.
    - apply IH; [assumption|]. intros Hin. apply Hx. right. exact Hin.
  Qed.

  Lemma parent_step_inv m (p : circ) hm : WFH p -> m + hm <= c_n p ->
    WFH (parent_step m p hm) /\ c_n (parent_step m p hm) = S (c_n p).
  Proof.
    intros ([Hs Hi Ho Hxi Hxo Hint Hnd] & Hni & Hno) Hle. unfold parent_step, add_empty_mode. simpl.
    split; [|reflexivity]. split; [|split; unfold bump_dict; apply dict_of_nodup].
    constructor; simpl; try (apply bump_dict_keys_lt; assumption).
    - unfold aem_spec. rewrite Forall_forall in *. intros y Hy. apply in_map_iff in Hy as (x & <- & Hx). apply cwf_aem, Hs, Hx.
    - apply lt_all_intro. intros x Hx. apply in_app_or in Hx as [Hx|[<-|[]]]; [|lia].
      apply in_map_iff in Hx as (y & <- & Hy). apply bump_lt. eapply lt_all_in; eassumption.
    - apply nodup_snoc; [apply nodup_map_inj; [apply bump_inj|exact Hnd]|].
      intros Hin. apply in_map_iff in Hin as (y & E & _). exact (bump_ne _ _ E).
  Qed.

  Lemma parent_fold_inv m B L : forall p, WFH p -> ascl L -> NoDup L -> Forall (fun y => y < B) L ->
    m + B <= c_n p + length L ->
    WFH (fold_left (parent_step m) L p) /\ c_n (fold_left (parent_step m) L p) = c_n p + length L.
  Proof.
    induction L as [|x L IH]; intros p Hp Ha Hn Hb Hle; simpl; [split; [exact Hp|lia]|].
    pose proof (ascl_bound B L x Ha Hn Hb) as Hx. simpl in Hle.
    assert (Hmx : m + x <= c_n p) by lia.
    destruct (parent_step_inv m p x Hp Hmx) as [H1 H2].
    destruct Ha as [_ Ha]. inversion Hn as [|? ? _ Hn']; subst. inversion Hb as [|? ? _ Hb']; subst.
    assert (Hle' : m + B <= c_n (parent_step m p x) + length L) by lia.
    destruct (IH _ H1 Ha Hn' Hb' Hle') as [H3 H4].
    split; [exact H3|lia].
  Qed.

  Lemma herald_fold_inv m L : forall p, WFH p -> Forall (fun kv : nat * nat => fst kv + m < c_n p) L ->
    WFH (fold_left (herald_step m) L p) /\ c_n (fold_left (herald_step m) L p) = c_n p.
  Proof.
    induction L as [|kv L IH]; intros p Hp Hl; simpl; [split; [exact Hp|reflexivity]|].
    inversion Hl as [|? ? Hkv Hl']; subst.
    assert (Hstep : WFH (herald_step m p kv)).
    { destruct Hp as ([Hs Hi Ho Hxi Hxo Hint Hnd] & Hni & Hno). unfold herald_step.
      split; [|split; simpl; apply dset_nodup; assumption].
      constructor; simpl; try assumption; apply dset_keys_lt; assumption. }
    destruct (IH (herald_step m p kv) Hstep Hl') as [H3 H4]. split; [exact H3|exact H4].
  Qed.
  (* ---- assembling Circuit.add ---- *)
  Lemma combine_fst_in (a b : list nat) x : In x (map fst (combine a b)) -> In x a.
  Proof. intros H. apply in_map_iff in H as ([p q] & <- & Hpq). simpl. eapply in_combine_l, Hpq. Qed.
  Lemma combine_snd_in (a b : list nat) x : In x (map snd (combine a b)) -> In x b.
  Proof. intros H. apply in_map_iff in H as ([p q] & <- & Hpq). simpl. eapply in_combine_r, Hpq. Qed.
  Lemma combine_fst_nodup (a b : list nat) : NoDup a -> NoDup (map fst (combine a b)).
  Proof.
    revert b. induction a as [|x a IH]; intros [|y b] H; simpl; try constructor.
    - inversion H; subst. intros Hin. apply combine_fst_in in Hin. contradiction.
    - inversion H; subst. apply IH. assumption.
  Qed.
  Lemma combine_snd_nodup (a b : list nat) : NoDup b -> NoDup (map snd (combine a b)).
  Proof.
    revert b. induction a as [|x a IH]; intros [|y b] H; simpl; try constructor.
    - inversion H; subst. intros Hin. apply combine_snd_in in Hin. contradiction.
    - inversion H; subst. apply IH. assumption.
  Qed.

  Lemma swaps_cwf (w : circ) : WFH w ->
    cwf (K:=K) (c_n w) (Swaps (complete_swaps (c_n w) 0 (dict_of (combine (dkeys (c_out w)) (dkeys (c_in w)))) 0 [])).  
  Proof.
    intros ([Hs Hi Ho Hxi Hxo Hint Hnd] & Hni & Hno).
    set (l := combine (dkeys (c_out w)) (dkeys (c_in w))).
    assert (Hid : dict_of l = l) by (apply dict_of_id, combine_fst_nodup, Hno).
    rewrite Hid.
    destruct (complete_swaps_range (c_n w) l) with (cnt := c_n w) (i := 0) (cur := 0) (acc := @nil (nat * nat)) as [H1 H2].
    - apply combine_fst_nodup, Hno.
    - apply lt_all_intro. intros x Hx. apply combine_fst_in in Hx. exact (lt_all_in _ _ _ Ho Hx).
    - apply combine_snd_nodup, Hni.
    - apply lt_all_intro. intros x Hx. apply combine_snd_in in Hx. exact (lt_all_in _ _ _ Hi Hx).
    - reflexivity.
    - reflexivity.
    - constructor.
    - constructor.
    - constructor; assumption.
  Qed.

  Lemma shifted_members N' m n2 (sp : list comp) :
    Forall (cwf n2) sp -> m + n2 <= N' -> Forall (cwf N') (shift_spec m sp).
  Proof.
    intros H Hle. unfold shift_spec. rewrite Forall_forall in *. intros y Hy.
    apply in_map_iff in Hy as (x & <- & Hx). apply (cwf_mono (n2 + m)); [lia|]. apply cwf_shift, H, Hx.
  Qed.

  Theorem WFH_op_add (c sub : circ) mode g c' :
    WFH c -> WFH sub -> 1 <= c_n sub -> op_add o c sub mode g = Ok c' -> WFH c' /\ c_n c <= c_n c'.
  Proof.
    intros Hc Hsub Hn1 H. rewrite op_add_eq in H. unfold op_add' in H.
    destruct (mode_ok c (map_mode (c_int c) mode)) as [m|] eqn:Em; cbn [bind] in H; [|discriminate].
    apply mode_ok_lt' in Em. cbv zeta in H.
    set (g' := g || negb (length (c_in (unpack_groups (copy_circ sub))) =? 0)) in *.
    set (w := if g' then unpack_groups (copy_circ sub) else copy_circ sub) in *.
    assert (Hw : WFH w /\ c_n w = c_n sub).
    { subst w. destruct g'; [|split; [exact Hsub|reflexivity]].
      destruct Hsub as (Hs & Hni & Hno). split; [|reflexivity]. split; [apply WF_unpack, Hs|split; assumption]. }
    destruct Hw as [Hw Hnw].
    change (fun i : nat => m <=? i) with (Nat.leb m) in H.
    set (cnt := length (filter (Nat.leb m) (c_int c))) in *.
    set (h0 := length (c_in w)) in *.
    destruct (Nat.ltb_spec (c_n c - m - cnt) (c_n w - h0)) as [Hlt|Hsize]; [discriminate|].
    set (swaps := complete_swaps (c_n w) 0 (dict_of (combine (dkeys (c_out w)) (dkeys (c_in w)))) 0 []) in *.
    set (sp0 := if list_eqb (dkeys swaps) (dvals swaps) then c_spec w else c_spec w ++ [Swaps swaps]) in *.
    set (w1 := mkCirc (c_n w) (c_spec w) (c_in w) (c_in w) (c_xin w) (c_xin w) (c_int w)) in *.
    pose proof Hw as ([Hws Hwi Hwo Hwxi Hwxo Hwint Hwnd] & Hwni & Hwno).
    pose proof Hc as ([Hcs Hci Hco Hcxi Hcxo Hcint Hcnd] & Hcni & Hcno).
    assert (HPI : PI h0 (w1, sp0)).
    { unfold PI. simpl. repeat split; try assumption. subst sp0.
      destruct (list_eqb (dkeys swaps) (dvals swaps)); [exact Hws|].
      apply Forall_app. split; [exact Hws|]. constructor; [|constructor]. apply swaps_cwf, Hw. }
    destruct (pass_fold_inv h0 m (sort_nat (c_int c)) (w1, sp0) HPI) as [HPI2 Hcount].
    destruct (fold_left (pass_step m) (sort_nat (c_int c)) (w1, sp0)) as [w2 sp] eqn:Ef.
    destruct HPI2 as (Hsp & Hk2 & Hn2 & Hl2). simpl in Hsp, Hk2, Hn2, Hl2, Hcount.
    rewrite (filter_perm_length (Nat.leb m) _ _ (sort_nat_perm (c_int c))) in Hcount. fold cnt in Hcount.
    pose proof (count_ge_bound (c_n c) m (c_int c) Hcnd Hcint) as Hcb. fold cnt in Hcb.
    pose proof (keys_length_le (c_n w) (c_in w) Hwni Hwi) as Hh0. fold h0 in Hh0.
    assert (Hkey : m + c_n w2 <= c_n c + h0) by lia.
    assert (Hw2pos : 1 <= c_n w2) by lia.
    (* new ancillas of the parent *)
    destruct (parent_fold_inv m (c_n w2) (sort_nat (dkeys (c_in w2))) c Hc) as [Hc1 Hn1c].
    { apply sort_ascl. }
    { apply sort_nodup, Hn2. }
    { apply Forall_forall. intros y Hy. apply (proj1 (sort_in _ _)) in Hy. exact (lt_all_in _ _ _ Hk2 Hy). }
    { rewrite sort_length. unfold dkeys. rewrite map_length, Hl2. exact Hkey. }
    rewrite sort_length in Hn1c. unfold dkeys in Hn1c at 2. rewrite map_length, Hl2 in Hn1c.
    set (c1 := fold_left (parent_step m) (sort_nat (dkeys (c_in w2))) c) in *.
    destruct (herald_fold_inv m (c_in w2) c1 Hc1) as [Hc2 Hn2c].
    { apply Forall_forall. intros [a b] Hab. simpl.
      assert (a < c_n w2) by (eapply lt_all_in; [exact Hk2|]; unfold dkeys; apply in_map_iff; exists (a, b); auto). lia. }
    set (c2 := fold_left (herald_step m) (c_in w2) c1) in *.
    assert (Hmem : Forall (cwf (c_n c2)) (shift_spec m sp)) by (apply (shifted_members _ m (c_n w2)); [exact Hsp|lia]).
    destruct Hc2 as (Hc2w & Hc2i & Hc2o).
    destruct g'; injection H as <-; (split; [|simpl; lia]).
    - split; [|split; simpl; assumption]. apply WF_app; [exact Hc2w|]. constructor; [|constructor].
      constructor; try lia; try exact Hmem.
      + replace (S (m + c_n w2 - 1) - m) with (c_n w2) by lia. exact Hk2.
      + replace (S (m + c_n w2 - 1) - m) with (c_n w2) by lia. exact Hk2.
    - split; [|split; simpl; assumption]. apply WF_app; [exact Hc2w|exact Hmem].
  Qed.
End AddGeneral.

(* =====================================================================
   the invariant of every circuit an API program can build (all sizes >= 1):
   WF, herald dictionaries with distinct keys, at least one mode
   ===================================================================== *)
Section Reachable.
  Context {K : Type} (o : ops K).
  Notation comp := (@comp K).
  Notation circ := (@circ K).
  Notation world := (@world K).
  Notation op := (@op K).

  Definition RI (c : circ) : Prop := WFH c /\ 1 <= c_n c.

  Lemma RI_WF c : RI c -> WF c /\ 1 <= c_n c.
  Proof. intros [[H _] Hn]. split; assumption. Qed.

  Lemma RI_new n : 1 <= n -> RI (new_circ n).
  Proof. intros Hn. split; [|exact Hn]. split; [apply WF_new|split; constructor]. Qed.

  Lemma RI_unitary k V : 1 <= k -> RI (unitary_circ (K:=K) k V).
  Proof. intros Hk. split; [|exact Hk]. split; [apply WF_unitary; lia|split; constructor]. Qed.

  Lemma RI_app (c : circ) sp : RI c -> Forall (cwf (c_n c)) sp -> RI (app_spec c sp).
  Proof.
    intros [(Hw & Hi & Ho) Hn] Hsp. split; [|exact Hn]. split; [apply WF_app; assumption|split; assumption].
  Qed.

  Ltac dbind H a E :=
    match type of H with
    | bind ?x _ = _ => destruct x as [a|] eqn:E; simpl in H; [|discriminate]
    end.
  Ltac dif H E :=
    match type of H with
    | (if ?b then _ else _) = _ => destruct b eqn:E; try discriminate
    end.

  Lemma RI_op_bs e c m1 m2 r l cv c' : RI c -> op_bs o e c m1 m2 r l cv = Ok c' -> RI c'.
  Proof.
    intros Hw H. unfold op_bs in H. dbind H a Ea. dif H Eab. dbind H b Eb. dbind H u Eu. dif H Ev.
    apply mode_ok_lt' in Ea. apply mode_ok_lt' in Eb.
    destruct (loss_positive o l); injection H as <-.
    - apply RI_app; [apply RI_app; [exact Hw|]|]; repeat constructor; assumption.
    - apply RI_app; [exact Hw|]. repeat constructor; assumption.
  Qed.

  Lemma RI_op_ps e c m phi l c' : RI c -> op_ps o e c m phi l = Ok c' -> RI c'.
  Proof.
    intros Hw H. unfold op_ps in H. dbind H a Ea. dbind H u Eu. apply mode_ok_lt' in Ea.
    destruct (loss_positive o l); injection H as <-.
    - apply RI_app; [apply RI_app; [exact Hw|]|]; repeat constructor; assumption.
    - apply RI_app; [exact Hw|]. repeat constructor; assumption.
  Qed.

  Lemma RI_op_loss e c m l c' : RI c -> op_loss o e c m l = Ok c' -> RI c'.
  Proof.
    intros Hw H. unfold op_loss in H. dbind H a Ea. dbind H u Eu. apply mode_ok_lt' in Ea.
    injection H as <-. apply RI_app; [exact Hw|]. repeat constructor; assumption.
  Qed.

  Lemma RI_op_barrier (c : circ) ms c' : RI c -> op_barrier c ms = Ok c' -> RI c'.
  Proof.
    intros Hw H. unfold op_barrier in H. dbind H r Er. injection H as <-.
    apply RI_app; [exact Hw|]. constructor; [|constructor]. constructor. eapply all_ok_lt; eassumption.
  Qed.

  Lemma RI_op_mode_swaps (c : circ) sw c' : RI c -> op_mode_swaps c sw = Ok c' -> RI c'.
  Proof.
    intros Hw H. pose proof H as H0. unfold op_mode_swaps in H. set (mapped := fold_left _ sw []) in H.
    dbind H ks Ek. dbind H vs Ev. dif H Es. injection H as <-.
    assert (Hlen : length ks = length vs).
    { rewrite (all_ok_length _ _ _ Ek), (all_ok_length _ _ _ Ev), !map_length. reflexivity. }
    apply RI_app; [exact Hw|]. constructor; [|constructor]. constructor.
    - rewrite dkeys_combine' by exact Hlen. eapply all_ok_lt; eassumption.
    - rewrite dvals_combine' by exact Hlen. eapply all_ok_lt; eassumption.
  Qed.

  Lemma RI_op_herald (c : circ) n im om c' : RI c -> op_herald c n im om = Ok c' -> RI c'.
  Proof.
    intros [(Hw & Hi & Ho) Hn] H. pose proof (WF_op_herald c n im om c' Hw H) as Hw'.
    unfold op_herald in H. dbind H a Ea. dbind H b Eb. dif H E1. dif H E2. injection H as <-.
    split; [|exact Hn]. split; [exact Hw'|split; simpl; apply dset_nodup; assumption].
  Qed.

  Lemma RI_op_plus (a b c' : circ) : RI a -> RI b -> op_plus a b = Ok c' -> RI c'.
  Proof.
    intros [(Ha & _) Hna] [(Hb & _) _] H. pose proof (WF_op_plus a b c' Ha Hb H) as Hw.
    unfold op_plus in H. dif H En. dif H Eh. injection H as <-.
    split; [|exact Hna]. split; [exact Hw|split; constructor].
  Qed.

  Lemma RI_unpack (c : circ) : RI c -> RI (unpack_groups c).
  Proof.
    intros [(Hw & Hi & Ho) Hn]. split; [|exact Hn]. split; [apply WF_unpack, Hw|split; assumption].
  Qed.

  Lemma RI_op_add (c sub : circ) mode g c' : RI c -> RI sub -> op_add o c sub mode g = Ok c' -> RI c'.
  Proof.
    intros [Hc Hn] [Hs Hns] H. destruct (WFH_op_add o c sub mode g c' Hc Hs Hns H) as [Hw Hle].
    split; [exact Hw|lia].
  Qed.

  (* ---- programs ---- *)
  Definition world_ri (w : world) : Prop := forall id c, wget w id = Some c -> RI c.

  (* the only restriction: no zero-mode circuits (recorded finding zero-mode-circuit) *)
  Definition op_sized (x : op) : Prop :=
    match x with
    | ONew _ n => 1 <= n
    | OUnitary _ k _ => 1 <= k
    | _ => True
    end.

  Lemma wget_wset (w : world) id j (c : circ) :
    wget (wset w id c) j = if Nat.eqb id j then Some c else wget w j.
  Proof.
    induction w as [|[i c'] w IH]; simpl.
    - destruct (Nat.eqb id j); reflexivity.
    - destruct (Nat.eqb_spec i id) as [->|Hne]; simpl.
      + destruct (Nat.eqb id j); reflexivity.
      + destruct (Nat.eqb_spec i j) as [->|Hij].
        * destruct (Nat.eqb_spec id j) as [->|_]; [congruence|reflexivity].
        * exact IH.
  Qed.

  Lemma wset_ri (w : world) id c : world_ri w -> RI c -> world_ri (wset w id c).
  Proof.
    intros Hw Hc j c0 H. rewrite wget_wset in H. destruct (Nat.eqb id j); [injection H as <-; exact Hc|].
    eapply Hw, H.
  Qed.

  Lemma upd_ri (w : world) id f :
    world_ri w -> (forall c c', RI c -> f c = Ok c' -> RI c') -> world_ri (fst (upd w id f)).
  Proof.
    intros Hw Hf. unfold upd. destruct (wget w id) as [c|] eqn:E; [|exact Hw].
    destruct (f c) as [c'|] eqn:E'; [|exact Hw]. simpl. apply wset_ri; [exact Hw|].
    eapply Hf; [eapply Hw, E|exact E'].
  Qed.

  Lemma step_ri e (w : world) (x : op) : op_sized x -> world_ri w -> world_ri (fst (step o e w x)).
  Proof.
    intros Hx Hw. destruct x; simpl in *.
    - apply wset_ri; [exact Hw|apply RI_new, Hx].
    - apply wset_ri; [exact Hw|apply RI_unitary, Hx].
    - apply upd_ri; [exact Hw|]. intros c c'. apply RI_op_bs.
    - apply upd_ri; [exact Hw|]. intros c c'. apply RI_op_ps.
    - apply upd_ri; [exact Hw|]. intros c c'. apply RI_op_loss.
    - apply upd_ri; [exact Hw|]. intros c c'. apply RI_op_barrier.
    - apply upd_ri; [exact Hw|]. intros c c'. apply RI_op_mode_swaps.
    - apply upd_ri; [exact Hw|]. intros c c'. apply RI_op_herald.
    - destruct (wget w sub) as [s|] eqn:Es; [|exact Hw].
      apply upd_ri; [exact Hw|]. intros c c' Hc. apply RI_op_add; [exact Hc|eapply Hw, Es].
    - destruct (wget w a) as [ca|] eqn:Ea; [|exact Hw]. destruct (wget w b) as [cb|] eqn:Eb; [|exact Hw].
      destruct (op_plus ca cb) as [c|] eqn:Ep; [|exact Hw]. simpl. apply wset_ri; [exact Hw|].
      eapply RI_op_plus; [eapply Hw, Ea|eapply Hw, Eb|exact Ep].
    - destruct (wget w a) as [ca|] eqn:Ea; [|exact Hw]. simpl. apply wset_ri; [exact Hw|]. eapply Hw, Ea.
    - apply upd_ri; [exact Hw|]. intros c c' Hc H. injection H as <-. apply RI_unpack, Hc.
  Qed.

  Theorem run_ri e (p : list op) : Forall op_sized p -> forall w : world, world_ri w -> world_ri (fst (run o e w p)).
  Proof.
    induction 1 as [|x p Hx _ IH]; intros w Hw; simpl; [exact Hw|].
    pose proof (step_ri e w x Hx Hw) as H1. destruct (step o e w x) as [w' r]. simpl in H1.
    specialize (IH w' H1). destruct (run o e w' p) as [w'' rs]. exact IH.
  Qed.

  Lemma world_ri_nil : world_ri [].
  Proof. intros id c H. discriminate H. Qed.

  (* every circuit of the pool of a program is well formed and has >= 1 mode *)
  Theorem run_reachable_wf e (p : list op) id c :
    Forall op_sized p -> wget (fst (run o e [] p)) id = Some c -> WF c /\ 1 <= c_n c.
  Proof. intros Hp H. apply RI_WF. eapply (run_ri e p Hp [] world_ri_nil), H. Qed.

  (* ... hence displayable by both back-ends under every valid option combination *)
  Theorem display_total_reachable e (p : list op) id c pe op :
    Forall op_sized p -> wget (fst (run o e [] p)) id = Some c ->
    params_ok pe -> labels_ok c op ->
    display_svg pe c op = Ok tt /\ display_mpl pe c op = Ok tt.
  Proof.
    intros Hp H Hpe Hl. destruct (run_reachable_wf e p id c Hp H) as [Hw Hn].
    apply display_total; [apply WF_DWF, Hw|exact Hn|exact Hpe|exact Hl].
  Qed.
End Reachable.
