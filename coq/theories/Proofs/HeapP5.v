(* Reference-level heap model: local lemmas for Circuit.add (work on a circuit object that is a
   local of the call): unpack_groups, _add_empty_mode, appending an entry. *)
From Coq Require Import ZArith List Bool Arith Lia PArith FMapPositive.
From LW Require Import Base.Sx Base.Num Base.Sums Base.Mat Model.Circuit Model.World Model.Rewrite Model.Heap
     Proofs.WorldP Proofs.HeapP Proofs.HeapP2 Proofs.HeapFlat Proofs.HeapP3 Proofs.HeapP4.
Import ListNotations.

Section HeapP5.
  Context {K : Type} (o : ops K).
  Notation heap := (@heap K).
  Notation cell := (@cell K).
  Notation hcomp := (@hcomp K).
  Notation comp := (@comp K).
  Notation circ := (@circ K).

  Lemma fold_sim {A B X} (R : A -> B -> Prop) (f : A -> X -> A) (g : B -> X -> B) l :
    (forall a b x, R a b -> R (f a x) (g b x)) -> forall a b, R a b -> R (fold_left f l a) (fold_left g l b).
  Proof. intros H. induction l as [|x l IH]; intros a b Hab; [exact Hab|]. cbn [fold_left]. apply IH, H, Hab. Qed.

  Lemma insert_nat_not_nil x l : insert_nat x l <> [].
  Proof. destruct l as [|y l]; simpl; [discriminate|]. destruct (x <=? y); discriminate. Qed.
  Lemma sort_nat_nil l : sort_nat l = [] -> l = [].
  Proof. destruct l as [|x l]; [reflexivity|]. unfold sort_nat. cbn [fold_right]. intros H. exfalso. exact (insert_nat_not_nil _ _ H). Qed.

  (* ---------------- unpack_groups on any circuit object ---------------- *)
  Lemma h_unpack_groups_local (h : heap) c h' c' :
    hwf h -> cwf h c -> sep_circ c -> flat_spec (abs_list h (rd_list h (hc_spec c))) ->
    h_unpack_groups h c = (h', c') ->
    hframe [] h h' /\ hwf h' /\ cwf h' c' /\ sep_circ c' /\
    abs_circ h' c' = unpack_groups (abs_circ h c) /\
    hc_in c' = hc_in c /\ hc_out c' = hc_out c /\ hc_xin c' = hc_in c /\ hc_xout c' = hc_out c /\
    h_next h <=p hc_spec c' /\ h_next h <=p hc_int c' /\
    incl (spec_cells h' (rd_list h' (hc_spec c'))) (spec_cells h (rd_list h (hc_spec c))).
  Proof.
    intros Hw0 Hc0 Hs0 Fl E. unfold h_unpack_groups in E.
    destruct (cwf_fields h c Hc0) as (L1 & L2 & L3 & L4 & L5 & L6).
    destruct (halloc h (CNats [])) as [h1 it] eqn:E1.
    destruct (halloc_inv _ _ _ _ [] h E1 Hw0 (Forall_nil _) (hframe_refl _ _)) as (-> & N1 & W1 & F1 & G1 & _).
    pose proof (hframe_agree _ _ F1) as Ag1.
    rewrite (rd_list_agree h h1 _ Ag1 L1) in E.
    set (l := rd_list h (hc_spec c)) in *.
    assert (Bl : below h l) by apply (rd_list_below h _ Hw0).
    assert (U1 : h_unpack h1 l = h_unpack h l).
    { unfold h_unpack. apply flat_map_ext_in. intros a Ha. unfold below in Bl. rewrite Forall_forall in Bl.
      rewrite (Ag1 a (Bl a Ha)).
      destruct (hget h a) as [[[| | | | | |lst m1 m2 hi ho]| | |]|] eqn:Ea; try reflexivity.
      apply rd_list_agree; [exact Ag1|].
      pose proof (proj2 Hw0 _ _ Ea) as Hc. cbn [cell_addrs] in Hc. exact (Forall_inv Hc). }
    rewrite U1 in E.
    assert (Bu : below h (h_unpack h l)) by (apply h_unpack_below; assumption).
    destruct (halloc h1 (CList (h_unpack h l))) as [h2 sp] eqn:E2.
    assert (Bu1 : below h1 (h_unpack h l)) by (eapply below_mono; [|exact Bu]; lia).
    destruct (halloc_inv _ _ _ _ [] h E2 W1 Bu1 F1) as (-> & N2 & W2 & F2 & G2 & S2).
    injection E as <- <-.
    pose proof (hframe_agree _ _ F2) as Ag2.
    destruct (unpack_abs h l Fl) as (UA1 & UA2).
    assert (R2 : rd_list h2 (h_next h1) = h_unpack h l) by (unfold rd_list; rewrite G2; reflexivity).
    assert (R1 : rd_nats h2 (h_next h) = []).
    { unfold rd_nats. rewrite (hget_frame h1 h2 (h_next h) S2) by lia. rewrite G1. reflexivity. }
    destruct Hs0 as (S1 & S2' & S3 & S4 & S5 & S6).
    split; [exact F2|]. split; [exact W2|]. split.
    { unfold cwf, below, priv. cbn [hc_spec hc_in hc_out hc_xin hc_xout hc_int]. repeat constructor; lia. }
    split.
    { unfold sep_circ. cbn [hc_spec hc_in hc_out hc_xin hc_xout hc_int]. simpl.
      repeat split; try assumption; intros H; repeat (destruct H as [H|H]; [lia|]); try lia; try (exact H); congruence. }
    split.
    { unfold unpack_groups, abs_circ. cbn [c_n c_spec c_in c_out hc_n hc_spec hc_in hc_out hc_xin hc_xout hc_int].
      rewrite R2, R1.
      rewrite (proj1 (abs_list_stable h h2 _ Hw0 Ag2 Bu)), UA1.
      rewrite !(rd_dict_agree h h2 _ Ag2) by assumption. fold l. reflexivity. }
    cbn [hc_spec hc_in hc_out hc_xin hc_xout hc_int].
    repeat (split; [reflexivity || lia|]).
    rewrite R2. rewrite (proj2 (abs_list_stable h h2 _ Hw0 Ag2 Bu)). exact UA2.
  Qed.

  (* ---------------- _add_empty_mode on any circuit object ---------------- *)
  Lemma h_add_empty_mode_post (h : heap) w l mode h' w' l' :
    hwf h -> cwf h w -> below h l -> h_add_empty_mode o h w l mode = (h', w', l') ->
    hframe [] h h' /\ hwf h' /\ cwf h' w' /\ below h' l' /\
    abs_list h' l' = aem_spec o mode (abs_list h l) /\
    hc_n w' = S (hc_n w) /\ hc_spec w' = hc_spec w /\
    rd_dict h' (hc_in w') = bump_dict mode (rd_dict h (hc_in w)) /\
    rd_dict h' (hc_out w') = bump_dict mode (rd_dict h (hc_out w)) /\
    rd_dict h' (hc_xin w') = bump_dict mode (rd_dict h (hc_xin w)) /\
    rd_dict h' (hc_xout w') = bump_dict mode (rd_dict h (hc_xout w)) /\
    rd_nats h' (hc_int w') = map (bump mode) (rd_nats h (hc_int w)) /\
    (forall b, In b (spec_cells h' l') -> (h_next h <=p b \/ In b (spec_cells h l)) /\ b <p hc_in w') /\
    Forall (fun a => h_next h <=p a) l' /\
    (h_next h <=p hc_in w' /\ hc_in w' <p hc_out w' /\ hc_out w' <p hc_xin w' /\ hc_xin w' <p hc_xout w' /\
     hc_xout w' <p hc_int w' /\ h_next h' = Pos.succ (hc_int w')).
  Proof.
    intros Hw Hc Hl E. unfold h_add_empty_mode in E.
    destruct (cwf_fields h w Hc) as (L1 & L2 & L3 & L4 & L5 & L6).
    destruct (hmap (h_aem o 2 mode) h l) as [h1 l1] eqn:E0.
    destruct (h_aem_list_post o mode l h h1 l1 Hw Hl E0) as (Q1 & Q2 & Q3 & Q4 & Q5 & Q6 & Q7).
    pose proof (hframe_agree _ _ Q1) as Ag1.
    assert (Hn1 : h_next h <=p h_next h1) by apply Q1.
    rewrite (rd_dict_agree h h1 _ Ag1 L2) in E.
    destruct (halloc h1 (CDict (bump_dict mode (rd_dict h (hc_in w))))) as [h2 a2] eqn:E2.
    destruct (halloc_inv _ _ _ _ [] h E2 Q2 (Forall_nil _) Q1) as (-> & N2 & W2 & F2 & G2 & S2).
    rewrite (rd_dict_agree h h2 _ (hframe_agree _ _ F2) L3) in E.
    destruct (halloc h2 (CDict (bump_dict mode (rd_dict h (hc_out w))))) as [h3 a3] eqn:E3.
    destruct (halloc_inv _ _ _ _ [] h E3 W2 (Forall_nil _) F2) as (-> & N3 & W3 & F3 & G3 & S3).
    rewrite (rd_dict_agree h h3 _ (hframe_agree _ _ F3) L4) in E.
    destruct (halloc h3 (CDict (bump_dict mode (rd_dict h (hc_xin w))))) as [h4 a4] eqn:E4.
    destruct (halloc_inv _ _ _ _ [] h E4 W3 (Forall_nil _) F3) as (-> & N4 & W4 & F4 & G4 & S4).
    rewrite (rd_dict_agree h h4 _ (hframe_agree _ _ F4) L5) in E.
    destruct (halloc h4 (CDict (bump_dict mode (rd_dict h (hc_xout w))))) as [h5 a5] eqn:E5.
    destruct (halloc_inv _ _ _ _ [] h E5 W4 (Forall_nil _) F4) as (-> & N5 & W5 & F5 & G5 & S5).
    rewrite (rd_nats_agree h h5 _ (hframe_agree _ _ F5) L6) in E.
    destruct (halloc h5 (CNats (map (bump mode) (rd_nats h (hc_int w))))) as [h6 a6] eqn:E6.
    destruct (halloc_inv _ _ _ _ [] h E6 W5 (Forall_nil _) F5) as (-> & N6 & W6 & F6 & G6 & S6).
    injection E as <- <- <-.
    assert (Ag16 : agree h1 h6).
    { apply hframe_agree. eapply hframe_trans; [exact S2|]. eapply hframe_trans; [exact S3|].
      eapply hframe_trans; [exact S4|]. eapply hframe_trans; [exact S5|exact S6]. }
    destruct (abs_list_stable h1 h6 l1 Q2 Ag16 Q3) as (St1 & St2).
    assert (R2 : hget h6 (h_next h1) = Some (CDict (bump_dict mode (rd_dict h (hc_in w))))).
    { rewrite (hget_frame h5 h6), (hget_frame h4 h5), (hget_frame h3 h4), (hget_frame h2 h3); try assumption; lia. }
    assert (R3 : hget h6 (h_next h2) = Some (CDict (bump_dict mode (rd_dict h (hc_out w))))).
    { rewrite (hget_frame h5 h6), (hget_frame h4 h5), (hget_frame h3 h4); try assumption; lia. }
    assert (R4 : hget h6 (h_next h3) = Some (CDict (bump_dict mode (rd_dict h (hc_xin w))))).
    { rewrite (hget_frame h5 h6), (hget_frame h4 h5); try assumption; lia. }
    assert (R5 : hget h6 (h_next h4) = Some (CDict (bump_dict mode (rd_dict h (hc_xout w))))).
    { rewrite (hget_frame h5 h6); try assumption; lia. }
    cbn [hc_n hc_spec hc_in hc_out hc_xin hc_xout hc_int].
    split; [exact F6|]. split; [exact W6|]. split.
    { unfold cwf, below, priv. cbn [hc_spec hc_in hc_out hc_xin hc_xout hc_int]. repeat constructor; lia. }
    split; [eapply below_mono; [|exact Q3]; lia|].
    split; [unfold abs_list in *; rewrite St1; exact Q4|].
    split; [reflexivity|]. split; [reflexivity|].
    unfold rd_dict, rd_nats. rewrite R2, R3, R4, R5, G6.
    repeat (split; [reflexivity|]).
    split.
    { intros b Hb. rewrite St2 in Hb. split; [exact (Q6 b Hb)|].
      pose proof (spec_cells_below h1 l1 Q2 Q3) as Hbl. unfold below in Hbl. rewrite Forall_forall in Hbl. exact (Hbl b Hb). }
    split; [apply Q5; lia|]. lia.
  Qed.

  (* ---------------- appending one entry to the list of any circuit object ---------------- *)
  Lemma append_entry_gen (h : heap) pp (x : cell) :
    hwf h -> cwf h pp -> sep_circ pp ->
    (forall a, In a (spec_cells h (rd_list h (hc_spec pp))) -> a <> hc_spec pp) ->
    below h (cell_addrs x) ->
    (forall b, In b (comp_cells 2 (fst (halloc h x)) (h_next h)) -> b <> hc_spec pp) ->
    let h1 := fst (halloc h x) in
    let h2 := h_append h1 (hc_spec pp) (h_next h) in
    hwf h2 /\ h_next h2 = Pos.succ (h_next h) /\
    abs_circ h2 pp = app_spec (abs_circ h pp) [abs_comp 2 h1 (h_next h)] /\
    spec_cells h2 (rd_list h2 (hc_spec pp)) = spec_cells h (rd_list h (hc_spec pp)) ++ comp_cells 2 h1 (h_next h) /\
    (forall b, b <> hc_spec pp -> hget h2 b = hget h1 b) /\
    rd_list h2 (hc_spec pp) = rd_list h (hc_spec pp) ++ [h_next h].
  Proof.
    intros Hw Hc Hs Hfz Hx Hxc h1 h2.
    destruct (cwf_fields h pp Hc) as (L1 & L2 & L3 & L4 & L5 & L6).
    assert (Hw1 : hwf h1) by (apply hwf_alloc; assumption).
    assert (N1 : h_next h1 = Pos.succ (h_next h)) by reflexivity.
    assert (G1 : forall b, b <p h_next h -> hget h1 b = hget h b).
    { intros b Hb. unfold h1. rewrite hget_alloc. destruct (Pos.eqb_spec b (h_next h)); [lia|reflexivity]. }
    assert (R1 : rd_list h1 (hc_spec pp) = rd_list h (hc_spec pp)) by (unfold rd_list; rewrite G1 by exact L1; reflexivity).
    set (l := rd_list h (hc_spec pp)) in *.
    assert (Bl : below h l) by apply (rd_list_below h _ Hw).
    assert (G2 : forall b, b <> hc_spec pp -> hget h2 b = hget h1 b).
    { intros b Hb. unfold h2, h_append. rewrite hget_write. destruct (Pos.eqb_spec b (hc_spec pp)); [contradiction|reflexivity]. }
    assert (R2 : rd_list h2 (hc_spec pp) = l ++ [h_next h]).
    { unfold rd_list at 1. unfold h2, h_append. rewrite hget_write, Pos.eqb_refl, R1. reflexivity. }
    assert (Hw2 : hwf h2).
    { unfold h2, h_append. apply hwf_write; [exact Hw1|lia|]. cbn [cell_addrs]. rewrite R1.
      apply Forall_app. split; [eapply below_mono; [|exact Bl]; lia|]. constructor; [lia|constructor]. }
    assert (Old : forall b, In b (spec_cells h l) -> hget h2 b = hget h b).
    { intros b Hb. rewrite G2 by (apply Hfz, Hb). apply G1.
      pose proof (spec_cells_below h l Hw Bl) as Hbl. unfold below in Hbl. rewrite Forall_forall in Hbl. exact (Hbl b Hb). }
    destruct (abs_list_cells h h2 l Old) as (A1 & A2).
    assert (New : forall b, In b (comp_cells 2 h1 (h_next h)) -> hget h2 b = hget h1 b).
    { intros b Hb. apply G2, Hxc, Hb. }
    destruct (abs_comp_cells h1 h2 2 (h_next h) New) as (B1 & B2).
    destruct Hs as (S1 & _).
    split; [exact Hw2|]. split; [reflexivity|]. split.
    { unfold abs_circ, app_spec, set_spec. cbn [c_n c_spec c_in c_out c_xin c_xout c_int]. rewrite R2.
      unfold abs_list at 1. rewrite map_app. fold (abs_list h2 l). rewrite A1. cbn [map]. rewrite B1.
      unfold rd_dict, rd_nats.
      rewrite !G2, !G1; try assumption; try reflexivity; intros E; apply S1; rewrite <- E; simpl; auto 6. }
    split; [|split; [exact G2|exact R2]].
    rewrite R2. unfold spec_cells at 1. rewrite flat_map_app. fold (spec_cells h2 l). rewrite A2.
    cbn [flat_map]. rewrite app_nil_r, B2. reflexivity.
  Qed.
End HeapP5.
