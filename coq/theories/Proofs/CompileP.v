(* Lemmas about CompiledCircuit.add / Circuit._build (property C01). *)
From Coq Require Import ZArith List Bool Arith Lia Ring_theory Ring Permutation.
From LW Require Import Base.Sx Base.Num Base.Sums Base.Mat Base.Embed Model.Circuit.
Import ListNotations.

Section CompileP.
  Context {K : Type} {o : ops K} {SRK : StarRing o}.
  Let R := sr_ring (o:=o).
  Add Ring Kr : R.
  Notation T := (@T K).
  Notation co := (co o).
  Notation comp := (@comp K).
  Notation mat := (@mat T).

  (* ---- induction principle for the nested component type ---- *)
  Section CompInd.
    Variable P : comp -> Prop.
    Hypothesis HBS : forall m1 m2 v cv, P (BS m1 m2 v cv).
    Hypothesis HPS : forall m v, P (PS m v).
    Hypothesis HLoss : forall m v, P (LossC m v).
    Hypothesis HBar : forall ms, P (Barrier ms).
    Hypothesis HSw : forall sw, P (Swaps sw).
    Hypothesis HU : forall m k V, P (UMat m k V).
    Hypothesis HG : forall sp m1 m2 hin hout, Forall P sp -> P (Group sp m1 m2 hin hout).
    Fixpoint comp_ind' (c : comp) : P c :=
      match c with
      | BS m1 m2 v cv => HBS m1 m2 v cv
      | PS m v => HPS m v
      | LossC m v => HLoss m v
      | Barrier ms => HBar ms
      | Swaps sw => HSw sw
      | UMat m k V => HU m k V
      | Group sp m1 m2 hin hout =>
          HG sp m1 m2 hin hout
             ((fix go (l : list comp) : Forall P l :=
                 match l with
                 | [] => Forall_nil P
                 | x :: l' => Forall_cons x (comp_ind' x) (go l')
                 end) sp)
      end.
  End CompInd.

  (* ---- unfolding lemmas ---- *)
  Lemma cadd_err e c x : cadd o e c (Err x) = Err x.
  Proof. destruct c; reflexivity. Qed.

  Lemma cadd_list_err e sp x : cadd_list o e sp (Err x) = Err x.
  Proof. induction sp as [|c sp IH]; simpl; [reflexivity|]. rewrite cadd_err. exact IH. Qed.

  Lemma cadd_go e sp (s : res (cstate (K:=K))) :
    (fix go (l : list comp) (s : res cstate) : res cstate :=
       match l with [] => s | x :: l' => go l' (cadd o e x s) end) sp s = cadd_list o e sp s.
  Proof. revert s. induction sp as [|c sp IH]; intros s; simpl; [reflexivity|]. apply IH. Qed.

  Lemma cadd_group e sp m1 m2 hin hout st :
    cadd o e (Group sp m1 m2 hin hout) st = cadd_list o e sp st.
  Proof.
    destruct st as [[n U]|x]; [|simpl; symmetry; apply cadd_list_err].
    simpl. exact (cadd_go e sp (Ok (n, U))).
  Qed.

  Lemma cadd_list_app e sp1 sp2 st :
    cadd_list o e (sp1 ++ sp2) st = cadd_list o e sp2 (cadd_list o e sp1 st).
  Proof. unfold cadd_list. apply fold_left_app. Qed.

  Lemma cadd_list_cons e c sp st : cadd_list o e (c :: sp) st = cadd_list o e sp (cadd o e c st).
  Proof. reflexivity. Qed.

  (* ---- T1: dimension ---- *)
  Lemma cadd_dim e c : forall n U n' U',
    cadd o e c (Ok (n, U)) = Ok (n', U') -> n' = n + n_loss c.
  Proof.
    induction c as [m1 m2 v cv|m v|m v|ms|sw|m k V|sp m1 m2 hin hout IH] using comp_ind';
      intros n U n' U' H; simpl in H.
    - destruct (in01 o (t1 (getv e v))); [|discriminate]. injection H as <- _. simpl. lia.
    - injection H as <- _. simpl. lia.
    - destruct (in01 o (t1 (getv e v))); [|discriminate]. injection H as <- _. simpl. lia.
    - injection H as <- _. simpl. lia.
    - injection H as <- _. simpl. lia.
    - injection H as <- _. simpl. lia.
    - change (cadd o e (Group sp m1 m2 hin hout) (Ok (n, U)) = Ok (n', U')) in H.
      rewrite cadd_group in H. simpl n_loss. fold (n_loss_list sp).
      revert n U H. induction IH as [|c sp Hc _ IHsp]; intros n U H.
      + simpl in H. injection H as <- _. simpl. lia.
      + rewrite cadd_list_cons in H.
        destruct (cadd o e c (Ok (n, U))) as [[n1 U1]|x] eqn:E; [|rewrite cadd_list_err in H; discriminate].
        apply Hc in E. apply IHsp in H. simpl. lia.
  Qed.

  Lemma cadd_list_dim e sp : forall n U n' U',
    cadd_list o e sp (Ok (n, U)) = Ok (n', U') -> n' = n + n_loss_list sp.
  Proof.
    induction sp as [|c sp IH]; intros n U n' U' H.
    - simpl in H. injection H as <- _. simpl. lia.
    - rewrite cadd_list_cons in H.
      destruct (cadd o e c (Ok (n, U))) as [[n1 U1]|x] eqn:E; [|rewrite cadd_list_err in H; discriminate].
      apply cadd_dim in E. apply IH in H. simpl. lia.
  Qed.

  (* ---- well-formed components (what Circuit.bs/ps/... and the dataclass
     validators guarantee), relative to the number N of circuit modes ---- *)
  Definition unit_amp (x : triple (K:=K)) : Prop :=
    kadd o (kmul o (t2 x) (t2 x)) (kmul o (t3 x) (t3 x)) = k1 o.

  Definition wf_swaps (N : nat) (sw : dict) : Prop :=
    NoDup (dkeys sw) /\ NoDup (dvals sw) /\ (forall k, In k (dkeys sw) <-> In k (dvals sw)) /\
    (forall k, In k (dkeys sw) -> k < N).

  Inductive wf (e : env (K:=K)) (N : nat) : comp -> Prop :=
  | wf_bs m1 m2 v cv : m1 < N -> m2 < N -> m1 <> m2 ->
      (in01 o (t1 (getv e v)) = true -> unit_amp (getv e v)) -> wf e N (BS m1 m2 v cv)
  | wf_ps m v : m < N -> unit_amp (getv e v) -> wf e N (PS m v)
  | wf_loss m v : m < N -> (in01 o (t1 (getv e v)) = true -> unit_amp (getv e v)) -> wf e N (LossC m v)
  | wf_bar ms : wf e N (Barrier ms)
  | wf_sw sw : wf_swaps N sw -> wf e N (Swaps sw)
  | wf_u m k V : m + k <= N -> unitary co k V -> wf e N (UMat m k V)
  | wf_group sp m1 m2 hin hout : Forall (wf e N) sp -> wf e N (Group sp m1 m2 hin hout).

  (* ---- 2x2 blocks ---- *)
  Local Notation "0" := (k0 o).
  Local Notation "1" := (k1 o).
  Local Notation "a + b" := (kadd o a b).
  Local Notation "a * b" := (kmul o a b).
  Local Notation "- a" := (kopp o a).

  Lemma ceq (a b c d : K) : a = c -> b = d -> (a, b) = (c, d).
  Proof. congruence. Qed.

  Ltac cstep := simpl; unfold cmul, cadd, cconj, cR, cI; simpl; apply ceq; simpl.

  Lemma unit2_rx c s : c * c + s * s = 1 ->
    unit2 (o:=co) (cR o c) (cI o s) (cI o s) (cR o c).
  Proof.
    intros H. unfold unit2. repeat split; cstep; try ring; try (rewrite <- H; ring).
  Qed.

  Lemma unit2_h c s : c * c + s * s = 1 ->
    unit2 (o:=co) (cR o c) (cR o s) (cR o s) (cR o (- c)).
  Proof.
    intros H. unfold unit2. repeat split; cstep; try ring; try (rewrite <- H; ring).
  Qed.

  Lemma unit2_loss t a : t * t + a * a = 1 ->
    unit2 (o:=co) (cR o t) (cR o (- a)) (cR o a) (cR o t).
  Proof.
    intros H. unfold unit2. repeat split; cstep; try ring; try (rewrite <- H; ring).
  Qed.

  Lemma conj_cR a : kconj co (cR o a) = cR o a.
  Proof. simpl. unfold cconj, cR. simpl. apply ceq; ring. Qed.
  Lemma conj_cI a : kconj co (cI o a) = cI o (- a).
  Proof. simpl. unfold cconj, cI. simpl. apply ceq; ring. Qed.

  Lemma unitary_bs_mat n m1 m2 x cv :
    m1 < n -> m2 < n -> m1 <> m2 -> unit_amp x -> unitary co n (bs_mat o m1 m2 x cv).
  Proof.
    intros H1 H2 Hne Hu. unfold bs_mat. destruct cv.
    - apply unitary_embed2; try assumption; [apply unit2_rx; exact Hu|].
      rewrite !conj_cR, !conj_cI. apply unit2_rx. rewrite <- Hu. ring.
    - apply unitary_embed2; try assumption; [apply unit2_h; exact Hu|].
      rewrite !conj_cR. apply unit2_h. exact Hu.
  Qed.

  Lemma unitary_loss_mat n m x :
    m < n - 1 -> unit_amp x -> unitary co n (loss_mat o n m x).
  Proof.
    intros Hm Hu. unfold loss_mat. apply unitary_embed2; try lia; [apply unit2_loss; exact Hu|].
    rewrite !conj_cR.
    replace (cR o (t3 x)) with (cR o (- (- t3 x))) by (f_equal; ring).
    apply unit2_loss. rewrite <- Hu. ring.
  Qed.

  Lemma unitary_ps_mat n m x : unit_amp x -> unitary co n (ps_mat o m x).
  Proof.
    intros Hu. unfold ps_mat. apply unitary_phase. cstep; [rewrite <- Hu|]; ring.
  Qed.

  (* ---- swap dictionaries denote permutations ---- *)
  Definition inv_dict (sw : dict) : dict := map (fun kv => (snd kv, fst kv)) sw.

  Lemma dget_in sw k v : NoDup (dkeys sw) -> In (k, v) sw -> dget sw k = Some v.
  Proof.
    induction sw as [|[k' v'] sw IH]; intros Hnd Hin; [destruct Hin|].
    simpl in *. inversion Hnd as [|? ? Hn Hnd']; subst.
    destruct Hin as [E|Hin].
    - injection E as -> ->. rewrite Nat.eqb_refl. reflexivity.
    - destruct (Nat.eqb_spec k' k) as [->|Hne]; [|apply IH; assumption].
      exfalso. apply Hn. unfold dkeys. apply in_map_iff. exists (k, v). split; [reflexivity|assumption].
  Qed.

  Lemma dget_some sw k v : dget sw k = Some v -> In (k, v) sw.
  Proof.
    induction sw as [|[k' v'] sw IH]; simpl; [discriminate|].
    destruct (Nat.eqb_spec k' k) as [->|Hne]; intros H; [injection H as ->; left; reflexivity|right; auto].
  Qed.

  Lemma dget_none sw k : dget sw k = None <-> ~ In k (dkeys sw).
  Proof.
    induction sw as [|[k' v'] sw IH]; simpl; [intuition|].
    destruct (Nat.eqb_spec k' k) as [->|Hne]; [split; [discriminate|intros H; exfalso; apply H; left; reflexivity]|].
    rewrite IH. intuition.
  Qed.

  Lemma inv_dict_keys sw : dkeys (inv_dict sw) = dvals sw.
  Proof. unfold dkeys, dvals, inv_dict. rewrite map_map. reflexivity. Qed.
  Lemma inv_dict_vals sw : dvals (inv_dict sw) = dkeys sw.
  Proof. unfold dkeys, dvals, inv_dict. rewrite map_map. reflexivity. Qed.
  Lemma inv_dict_in sw k v : In (k, v) (inv_dict sw) <-> In (v, k) sw.
  Proof.
    unfold inv_dict. rewrite in_map_iff. split.
    - intros ([a b] & E & H). simpl in E. injection E as <- <-. exact H.
    - intros H. exists (v, k). split; [reflexivity|exact H].
  Qed.

  Lemma swap_inv_l sw i :
    NoDup (dkeys sw) -> NoDup (dvals sw) -> (forall k, In k (dkeys sw) <-> In k (dvals sw)) ->
    swap_fun (inv_dict sw) (swap_fun sw i) = i.
  Proof.
    intros Hk Hv Hkv. unfold swap_fun at 2.
    destruct (dget sw i) as [v|] eqn:E.
    - apply dget_some in E. unfold swap_fun.
      rewrite (dget_in (inv_dict sw) v i); [reflexivity|rewrite inv_dict_keys; exact Hv|].
      apply inv_dict_in. exact E.
    - unfold swap_fun. apply dget_none in E.
      replace (dget (inv_dict sw) i) with (@None nat); [reflexivity|].
      symmetry. apply dget_none. rewrite inv_dict_keys. rewrite <- Hkv. exact E.
  Qed.

  Lemma swap_fun_range N sw i :
    (forall k, In k (dkeys sw) <-> In k (dvals sw)) -> (forall k, In k (dkeys sw) -> k < N) ->
    i < N -> swap_fun sw i < N.
  Proof.
    intros Hkv Hr Hi. unfold swap_fun. destruct (dget sw i) as [v|] eqn:E; [|exact Hi].
    apply dget_some in E. apply Hr, Hkv. unfold dvals. apply in_map_iff. exists (i, v). split; [reflexivity|exact E].
  Qed.

  Lemma unitary_swaps_mat n N sw : N <= n -> wf_swaps N sw -> unitary co n (swaps_mat o sw).
  Proof.
    intros Hle (Hk & Hv & Hkv & Hr). unfold swaps_mat.
    assert (Hr' : forall k, In k (dkeys sw) -> k < n) by (intros k Hin; specialize (Hr k Hin); lia).
    apply (unitary_perm n (swap_fun sw) (swap_fun (inv_dict sw))).
    - intros i Hi. apply swap_fun_range; assumption.
    - intros i Hi. apply swap_fun_range; try assumption.
      + intros k. rewrite inv_dict_keys, inv_dict_vals. symmetry. apply Hkv.
      + intros k. rewrite inv_dict_keys. intros Hin. apply Hr', Hkv. exact Hin.
    - intros i _. apply swap_inv_l; assumption.
    - intros i _.
      replace sw with (inv_dict (inv_dict sw)) at 1.
      + apply swap_inv_l; rewrite ?inv_dict_keys, ?inv_dict_vals; try assumption.
        intros k. symmetry. apply Hkv.
      + unfold inv_dict. rewrite map_map. rewrite <- (map_id sw) at 2. apply map_ext. intros [a b]; reflexivity.
  Qed.

  (* ---- T2: U_full is unitary ---- *)
  Lemma cadd_unitary e N c : wf e N c -> forall n U n' U',
    N <= n -> unitary co n U -> cadd o e c (Ok (n, U)) = Ok (n', U') -> unitary co n' U'.
  Proof.
    induction c as [m1 m2 v cv|m v|m v|ms|sw|m k V|sp m1 m2 hin hout IH] using comp_ind';
      intros Hwf n U n' U' HN HU H; inversion Hwf; subst; simpl in H.
    - destruct (in01 o (t1 (getv e v))) eqn:E01; [|discriminate]. injection H as <- <-.
      apply unitary_tab, unitary_mmul; [apply unitary_bs_mat; try lia; auto|exact HU].
    - injection H as <- <-. apply unitary_tab, unitary_mmul; [apply unitary_ps_mat; assumption|exact HU].
    - destruct (in01 o (t1 (getv e v))) eqn:E01; [|discriminate]. injection H as <- <-.
      apply unitary_tab, unitary_mmul; [apply unitary_loss_mat; [simpl; lia|auto]|].
      apply unitary_pad; [lia|exact HU].
    - injection H as <- <-. exact HU.
    - injection H as <- <-. apply unitary_tab, unitary_mmul; [eapply unitary_swaps_mat; eassumption|exact HU].
    - injection H as <- <-. apply unitary_tab, unitary_mmul; [|exact HU].
      unfold umat_mat. apply unitary_block; [lia|assumption].
    - change (cadd o e (Group sp m1 m2 hin hout) (Ok (n, U)) = Ok (n', U')) in H.
      rewrite cadd_group in H.
      match goal with Hf : Forall (wf e N) sp |- _ => rename Hf into Hall end.
      clear Hwf. revert Hall n U HN HU H. induction IH as [|c sp Hc _ IHsp]; intros Hall n U HN HU H.
      + simpl in H. injection H as <- <-. exact HU.
      + rewrite cadd_list_cons in H. inversion Hall; subst.
        destruct (cadd o e c (Ok (n, U))) as [[n1 U1]|x] eqn:E; [|rewrite cadd_list_err in H; discriminate].
        match goal with Ht : Forall (wf e N) sp |- _ => apply (IHsp Ht n1 U1) end; [|eapply Hc; eassumption|exact H].
        apply cadd_dim in E. lia.
  Qed.

  Lemma cadd_list_unitary e N sp : Forall (wf e N) sp -> forall n U n' U',
    N <= n -> unitary co n U -> cadd_list o e sp (Ok (n, U)) = Ok (n', U') -> unitary co n' U'.
  Proof.
    induction 1 as [|c sp Hc _ IH]; intros n U n' U' HN HU H.
    - simpl in H. injection H as <- <-. exact HU.
    - rewrite cadd_list_cons in H.
      destruct (cadd o e c (Ok (n, U))) as [[n1 U1]|x] eqn:E; [|rewrite cadd_list_err in H; discriminate].
      apply (IH n1 U1); [|eapply cadd_unitary; eassumption|exact H].
      apply cadd_dim in E. lia.
  Qed.

  Theorem build_unitary e (c : circ (K:=K)) n' U' :
    Forall (wf e (c_n c)) (c_spec c) -> build o e c = Ok (n', U') ->
    n' = (c_n c + n_loss_list (c_spec c))%nat /\ unitary co n' U'.
  Proof.
    intros Hwf H. unfold build in H.
    destruct (cadd_list o e (c_spec c) (Ok (c_n c, mid co))) as [[n1 U1]|x] eqn:E; [|discriminate].
    injection H as <- <-. split; [eapply cadd_list_dim; eassumption|].
    eapply cadd_list_unitary; [eassumption| |apply unitary_mid|exact E]. lia.
  Qed.

  (* ---- compile never fails on validated values ---- *)
  Definition vals_ok (e : env (K:=K)) : comp -> Prop :=
    fix go c := match c with
                | BS _ _ v _ => in01 o (t1 (getv e v)) = true
                | LossC _ v => in01 o (t1 (getv e v)) = true
                | Group sp _ _ _ _ => (fix all l := match l with [] => True | x :: l' => go x /\ all l' end) sp
                | _ => True
                end.

  (* ---- T3: the leading N x N block is the ordered product of the N x N
     embeddings, a loss element acting as the factor sqrt(1-loss) ---- *)
  Definition small_mat (e : env (K:=K)) (c : comp) : mat :=
    match c with
    | BS m1 m2 v cv => bs_mat o m1 m2 (getv e v) cv
    | PS m v => ps_mat o m (getv e v)
    | LossC m v => phase_mat co m (cR o (t2 (getv e v)))
    | Swaps sw => swaps_mat o sw
    | UMat m k V => umat_mat o m k V
    | _ => mid co
    end.

  Fixpoint prod_small (e : env (K:=K)) (N : nat) (c : comp) (U : mat) {struct c} : mat :=
    match c with
    | Group sp _ _ _ _ =>
        (fix go (l : list comp) (U : mat) : mat :=
           match l with [] => U | x :: l' => go l' (prod_small e N x U) end) sp U
    | Barrier _ => U
    | _ => mmul co N (small_mat e c) U
    end.
  Definition prod_small_list (e : env (K:=K)) (N : nat) (sp : list comp) (U : mat) : mat :=
    fold_left (fun U c => prod_small e N c U) sp U.

  Lemma prod_small_group e N sp m1 m2 hin hout U :
    prod_small e N (Group sp m1 m2 hin hout) U = prod_small_list e N sp U.
  Proof. simpl. revert U. induction sp as [|c sp IH]; intros U; simpl; [reflexivity|]. apply IH. Qed.

  (* the ordered product is a homomorphism from concatenation of component lists, and a
     group is transparent: it contributes the ordered product of its own components *)
  Lemma prod_small_list_app e N sp1 sp2 U :
    prod_small_list e N (sp1 ++ sp2) U = prod_small_list e N sp2 (prod_small_list e N sp1 U).
  Proof. unfold prod_small_list. apply fold_left_app. Qed.

  Lemma prod_small_list_group e N sp1 sp m1 m2 hin hout sp2 U :
    prod_small_list e N (sp1 ++ Group sp m1 m2 hin hout :: sp2) U =
    prod_small_list e N (sp1 ++ sp ++ sp2) U.
  Proof.
    rewrite !prod_small_list_app.
    change (prod_small_list e N (Group sp m1 m2 hin hout :: sp2) (prod_small_list e N sp1 U))
      with (prod_small_list e N sp2
              (prod_small e N (Group sp m1 m2 hin hout) (prod_small_list e N sp1 U))).
    rewrite prod_small_group. reflexivity.
  Qed.

  Lemma lead_mul n N (A B : mat) :
    N <= n ->
    (forall i j k, i < N -> j < N -> N <= k -> k < n -> kmul co (A i k) (B k j) = k0 co) ->
    meq N (mmul co n A B) (mmul co N A B).
  Proof.
    intros Hle Hz i j Hi Hj. unfold mmul. apply sumn_extend; [exact Hle|].
    intros k Hk1 Hk2. apply Hz; assumption.
  Qed.

  Lemma czero_l (x : T) : kmul co (k0 co) x = k0 co.
  Proof. destruct x. simpl. unfold cmul. simpl. apply ceq; ring. Qed.
  Lemma czero_r (x : T) : kmul co x (k0 co) = k0 co.
  Proof. destruct x. simpl. unfold cmul. simpl. apply ceq; ring. Qed.

  (* a matrix that is the identity outside [0,N) has a zero upper-right block *)
  Lemma embed2_ur N m1 m2 a b c d i k :
    m1 < N -> m2 < N -> i < N -> N <= k -> embed2 co m1 m2 a b c d i k = k0 co.
  Proof.
    intros H1 H2 Hi Hk. unfold embed2.
    replace (k =? m1) with false by (symmetry; apply Nat.eqb_neq; lia).
    replace (k =? m2) with false by (symmetry; apply Nat.eqb_neq; lia).
    destruct (i =? m1); [reflexivity|]. destruct (i =? m2); [reflexivity|].
    unfold mid. replace (i =? k) with false by (symmetry; apply Nat.eqb_neq; lia). reflexivity.
  Qed.

  Lemma small_ur e N c i k :
    wf e N c -> i < N -> N <= k -> small_mat e c i k = k0 co.
  Proof.
    intros Hwf Hi Hk. destruct Hwf; simpl.
    - unfold bs_mat. destruct cv; apply (embed2_ur N); assumption.
    - unfold ps_mat, phase_mat. replace (i =? k) with false by (symmetry; apply Nat.eqb_neq; lia). reflexivity.
    - unfold phase_mat. replace (i =? k) with false by (symmetry; apply Nat.eqb_neq; lia). reflexivity.
    - unfold mid. replace (i =? k) with false by (symmetry; apply Nat.eqb_neq; lia). reflexivity.
    - unfold swaps_mat, perm_mat.
      match goal with Hs : wf_swaps N sw |- _ => destruct Hs as (Hk1 & Hv1 & Hkv & Hr) end.
      replace (i =? swap_fun sw k) with false; [reflexivity|]. symmetry. apply Nat.eqb_neq.
      unfold swap_fun. destruct (dget sw k) as [v|] eqn:E; [|lia].
      apply dget_some in E. assert (In k (dkeys sw)) by (unfold dkeys; apply in_map_iff; exists (k, v); split; [reflexivity|exact E]).
      specialize (Hr k ltac:(assumption)). lia.
    - unfold umat_mat. rewrite block_out_r by lia. unfold mid.
      replace (i =? k) with false by (symmetry; apply Nat.eqb_neq; lia). reflexivity.
    - unfold mid. replace (i =? k) with false by (symmetry; apply Nat.eqb_neq; lia). reflexivity.
  Qed.

  Lemma cadd_lead e N c : wf e N c -> forall n U n' U' U0,
    N <= n -> meq N U U0 -> cadd o e c (Ok (n, U)) = Ok (n', U') ->
    meq N U' (prod_small e N c U0).
  Proof.
    induction c as [m1 m2 v cv|m v|m v|ms|sw|m k V|sp m1 m2 hin hout IH] using comp_ind';
      intros Hwf n U n' U' U0 HN HU H; simpl in H.
    1,2,5,6:
      try (destruct (in01 o (t1 (getv e v))); [|discriminate]); injection H as <- <-;
      (eapply meq_trans; [apply (meq_le n N); [exact HN|apply tab_spec]|]);
      (eapply meq_trans; [apply lead_mul; [exact HN|]|]);
      [ intros i j k0' Hi Hj Hk1 Hk2;
        match goal with |- kmul co (?A i k0') _ = _ => change A with (small_mat e ltac:(first [exact (BS m1 m2 v cv)|exact (PS m v)|exact (Swaps sw)|exact (UMat m k V)])) end;
        rewrite (small_ur e N _ i k0' Hwf Hi Hk1); apply czero_l
      | simpl; apply mmul_compat; [apply meq_refl|exact HU] ].
    - (* loss *)
      destruct (in01 o (t1 (getv e v))); [|discriminate]. injection H as <- <-.
      inversion Hwf; subst.
      eapply meq_trans; [apply (meq_le (S n) N); [lia|apply tab_spec]|].
      eapply meq_trans; [apply lead_mul; [lia|]|].
      + intros i j k Hi Hj Hk1 Hk2.
        destruct (Nat.eq_dec k n) as [->|Hkn].
        * (* the new loss mode: the padded matrix has a unit row there *)
          unfold pad. replace (n <? n) with false by (symmetry; apply Nat.ltb_irrefl). simpl.
          unfold mid. replace (n =? j) with false by (symmetry; apply Nat.eqb_neq; lia). apply czero_r.
        * unfold loss_mat. replace (S n - 1) with n by lia.
          unfold embed2.
          replace (k =? m) with false by (symmetry; apply Nat.eqb_neq; lia).
          replace (k =? n) with false by (symmetry; apply Nat.eqb_neq; lia).
          destruct (i =? m); [apply czero_l|]. destruct (i =? n); [apply czero_l|].
          unfold mid. replace (i =? k) with false by (symmetry; apply Nat.eqb_neq; lia). apply czero_l.
      + simpl. intros i j Hi Hj. unfold mmul. apply sumn_ext. intros k Hk.
        f_equal.
        * unfold loss_mat, phase_mat, embed2. replace (S n - 1) with n by lia.
          replace (k =? n) with false by (symmetry; apply Nat.eqb_neq; lia).
          replace (i =? n) with false by (symmetry; apply Nat.eqb_neq; lia).
          destruct (Nat.eqb_spec i m) as [->|Him].
          -- destruct (Nat.eqb_spec k m) as [->|Hkm]; [rewrite Nat.eqb_refl; reflexivity|].
             replace (m =? k) with false by (symmetry; apply Nat.eqb_neq; lia). reflexivity.
          -- unfold mid. destruct (i =? k); reflexivity.
        * unfold pad. replace (k <? n) with true by (symmetry; apply Nat.ltb_lt; lia).
          replace (j <? n) with true by (symmetry; apply Nat.ltb_lt; lia). simpl. apply HU; lia.
    - injection H as <- <-. simpl. exact HU.
    - change (cadd o e (Group sp m1 m2 hin hout) (Ok (n, U)) = Ok (n', U')) in H.
      rewrite cadd_group in H. rewrite prod_small_group.
      inversion Hwf; subst.
      match goal with Hf : Forall (wf e N) sp |- _ => rename Hf into Hall end.
      clear Hwf. revert Hall n U U0 HN HU H. induction IH as [|c sp Hc _ IHsp]; intros Hall n U U0 HN HU H.
      + simpl in H. injection H as <- <-. exact HU.
      + rewrite cadd_list_cons in H. inversion Hall; subst.
        destruct (cadd o e c (Ok (n, U))) as [[n1 U1]|x] eqn:E; [|rewrite cadd_list_err in H; discriminate].
        simpl. match goal with Ht : Forall (wf e N) sp |- _ => apply (IHsp Ht n1 U1) end; [|eapply Hc; eassumption|exact H].
        apply cadd_dim in E. lia.
  Qed.

  Lemma cadd_list_lead e N sp : Forall (wf e N) sp -> forall n U n' U' U0,
    N <= n -> meq N U U0 -> cadd_list o e sp (Ok (n, U)) = Ok (n', U') ->
    meq N U' (prod_small_list e N sp U0).
  Proof.
    induction 1 as [|c sp Hc _ IH]; intros n U n' U' U0 HN HU H.
    - simpl in H. injection H as <- <-. exact HU.
    - rewrite cadd_list_cons in H.
      destruct (cadd o e c (Ok (n, U))) as [[n1 U1]|x] eqn:E; [|rewrite cadd_list_err in H; discriminate].
      simpl. apply (IH n1 U1 n' U' (prod_small e N c U0)); [|eapply cadd_lead; eassumption|exact H].
      apply cadd_dim in E. lia.
  Qed.

  Theorem build_leading_block e (c : circ (K:=K)) n' U' :
    Forall (wf e (c_n c)) (c_spec c) -> build o e c = Ok (n', U') ->
    meq (c_n c) U' (prod_small_list e (c_n c) (c_spec c) (mid co)).
  Proof.
    intros Hwf H. unfold build in H.
    destruct (cadd_list o e (c_spec c) (Ok (c_n c, mid co))) as [[n1 U1]|x] eqn:E; [|discriminate].
    injection H as <- <-.
    eapply cadd_list_lead; [eassumption| |apply meq_refl|exact E]. lia.
  Qed.

  (* compile succeeds when every literal/bound value is in range *)
  Lemma cadd_ok e c : forall n U,
    vals_ok e c -> exists n' U', cadd o e c (Ok (n, U)) = Ok (n', U').
  Proof.
    induction c as [m1 m2 v cv|m v|m v|ms|sw|m k V|sp m1 m2 hin hout IH] using comp_ind';
      intros n U Hv; simpl in *; try rewrite Hv; try (do 2 eexists; reflexivity).
    change (exists n' U', cadd o e (Group sp m1 m2 hin hout) (Ok (n, U)) = Ok (n', U')).
    rewrite cadd_group. revert n U. induction IH as [|c sp Hc _ IHsp]; intros n U.
    - do 2 eexists; reflexivity.
    - destruct Hv as [Hv1 Hv2]. destruct (Hc n U Hv1) as (n1 & U1 & E).
      rewrite cadd_list_cons, E. apply IHsp. exact Hv2.
  Qed.
End CompileP.
