(* C16: GateFidelity.process for EVERY number of qubits n >= 1. *)
From Coq Require Import ZArith List Bool Arith Lia Ring_theory Ring Permutation.
From LW Require Import Base.Sx Base.Num Base.Sums Base.Mat Base.QI2 Model.Tomo
  Proofs.TomoStateP Proofs.TomoProcP Proofs.TomoProcG Proofs.TomoProcN.
Import ListNotations.

(* ------------------------------------------------------------ lists *)
Lemma istrings_nodup keys n : 1 <= n -> NoDup keys -> NoDup (istrings keys n).
Proof.
  intros Hn Hk. induction n as [|n IH]; [lia|].
  destruct (Nat.eq_dec n 0) as [->|Hn0].
  - rewrite istrings_1. apply FinFun.Injective_map_NoDup; [|exact Hk].
    intros a b E. injection E. auto.
  - rewrite istrings_S by lia. specialize (IH ltac:(lia)).
    induction IH as [|c l Hc Hl IHl]; [constructor|]. simpl.
    apply nodup_app_intro.
    + apply FinFun.Injective_map_NoDup; [|exact Hk]. intros a b E. apply snoc_inj in E. tauto.
    + exact IHl.
    + intros x Hx Hx'. apply in_map_iff in Hx as [g [<- Hg]].
      apply in_flat_map in Hx' as [c' [Hc' Hx']]. apply in_map_iff in Hx' as [g' [E Hg']].
      apply snoc_inj in E as [-> _]. contradiction.
Qed.

Lemma li_inputs_nodup : NoDup li_inputs.
Proof. unfold li_inputs. repeat constructor; simpl; intuition discriminate. Qed.

Lemma instr_eqb_refl a : instr_eqb a a = true.
Proof. apply instr_eqb_eq. reflexivity. Qed.
Lemma instr_eqb_neq a b : a <> b -> instr_eqb a b = false.
Proof. intros H. destruct (instr_eqb a b) eqn:E; [|reflexivity]. apply instr_eqb_eq in E. contradiction. Qed.

(* the results of one input: its own block of the dictionary *)
Lemma results_of_input_family_n {K} (D : instr -> mstr -> data (K:=K)) (cs : list mstr) (inputs : list instr) i :
  NoDup inputs -> In i inputs ->
  results_of_input i (concat (map (fun i' => map (fun c => ((i', c), D i' (replIZ c))) cs) inputs))
  = map (fun c => (c, D i (replIZ c))) cs.
Proof.
  unfold results_of_input.
  assert (Blk : forall i', filter (fun kd : instr * mstr * data => instr_eqb (fst (fst kd)) i)
                            (map (fun c => ((i', c), D i' (replIZ c))) cs)
                          = if instr_eqb i' i then map (fun c => ((i', c), D i' (replIZ c))) cs else []).
  { intros i'. induction cs as [|c cs IHc]; [destruct (instr_eqb i' i); reflexivity|].
    simpl. rewrite IHc. destruct (instr_eqb i' i); reflexivity. }
  induction inputs as [|a l IH]; intros Hnd Hin; [destruct Hin|].
  simpl. rewrite filter_app, map_app, Blk.
  inversion Hnd as [|? ? Ha Hl]; subst.
  destruct Hin as [->|Hin].
  - rewrite instr_eqb_refl, map_map. cbn [fst snd].
    assert (Z : filter (fun kd : instr * mstr * data => instr_eqb (fst (fst kd)) i)
                  (concat (map (fun i' => map (fun c => ((i', c), D i' (replIZ c))) cs) l)) = []).
    { clear IH Hnd Hl. induction l as [|b l IHl]; [reflexivity|]. simpl. rewrite filter_app, Blk.
      rewrite instr_eqb_neq by (intros ->; apply Ha; left; reflexivity).
      apply IHl. intros H. apply Ha. right. exact H. }
    rewrite Z. simpl. apply app_nil_r.
  - rewrite instr_eqb_neq by (intros ->; contradiction). simpl. apply IH; assumption.
Qed.

Lemma mapM_exists {A B} (f : A -> res B) (P : A -> B -> Prop) (l : list A) (da : A) (db : B) :
  (forall a, In a l -> exists b, f a = Ok b /\ P a b) ->
  exists bs, mapM f l = Ok bs /\ length bs = length l /\ forall j, j < length l -> P (nth j l da) (nth j bs db).
Proof.
  induction l as [|a l IH]; intros H.
  - exists []. split; [reflexivity|]. split; [reflexivity|]. intros j Hj. simpl in Hj. lia.
  - destruct (H a (or_introl eq_refl)) as [b [Eb Pb]].
    destruct IH as [bs [Ebs [Lbs Pbs]]]; [intros x Hx; apply H; right; exact Hx|].
    exists (b :: bs). split; [simpl; rewrite Eb, Ebs; reflexivity|]. split; [simpl; lia|].
    intros [|j] Hj; [exact Pb|]. simpl. apply Pbs. simpl in Hj. lia.
Qed.

Section ListSums.
  Context {K : Type} {o : ops K} {SR : StarRing o}.
  Let R := sr_ring (o:=o).
  Add Ring Kls : R.
  Local Notation sumn := (sumn o).
  Local Notation suml := (suml o).

  Lemma suml_combine_seq {A} (l : list A) (d : A) (g : nat * A -> K) : forall s,
    suml (combine (seq s (length l)) l) g = sumn (length l) (fun j => g ((s + j)%nat, nth j l d)).
  Proof.
    induction l as [|a l IH]; intros s; [reflexivity|].
    simpl length. simpl seq. simpl combine. simpl Sums.suml. rewrite IH, sumn_S_l.
    rewrite Nat.add_0_r. simpl nth. f_equal. apply sumn_ext. intros j _.
    rewrite Nat.add_succ_r. reflexivity.
  Qed.

  Lemma suml_combine_map_self {A B} (h : A -> B) (l : list A) (g : B * A -> K) :
    suml (combine (map h l) l) g = suml l (fun u => g (h u, u)).
  Proof. induction l as [|a l IH]; [reflexivity|]. simpl. rewrite IH. reflexivity. Qed.
End ListSums.

Lemma combine_all_forall {A} (keys : list A) n c :
  In c (combine_all (@app A) (map (fun p => [p]) keys) n) -> Forall (fun g => In g keys) c.
Proof.
  unfold combine_all. generalize (n - 1) as m. intros m. revert c. induction m as [|m IH]; intros c Hc.
  - simpl in Hc. apply in_map_iff in Hc as [p [<- Hp]]. constructor; [exact Hp|constructor].
  - simpl in Hc. unfold combine_step at 1 in Hc. apply in_flat_map in Hc as [v1 [H1 H2]].
    apply in_map_iff in H2 as [v2 [<- H2]]. apply in_map_iff in H2 as [p [<- Hp]].
    apply Forall_app. split; [apply IH; exact H1|]. constructor; [exact Hp|constructor].
Qed.

Lemma instr_eqb_snoc s : forall t l m, length s = length t ->
  instr_eqb (s ++ [l]) (t ++ [m]) = instr_eqb s t && inlab_eqb l m.
Proof.
  induction s as [|x s IH]; intros [|y t] l m H; simpl in H; try discriminate.
  - simpl. destruct (inlab_eqb l m); reflexivity.
  - simpl. rewrite IH by lia. destruct (inlab_eqb x y); reflexivity.
Qed.

Section GFN.
  Context {K : Type} {o : ops K} {ii hh : K} {TR : TomoRing o ii hh}.
  Let R := sr_ring (o:=o).
  Add Ring Kgfn : R.
  Local Notation "a + b" := (kadd o a b).
  Local Notation "a * b" := (kmul o a b).
  Local Notation "a - b" := (ksub o a b).
  Local Notation "- a" := (kopp o a).
  Local Notation one := (k1 o).
  Local Notation zero := (k0 o).
  Local Notation conj := (kconj o).
  Local Notation sumn := (sumn o).
  Local Notation suml := (suml o).
  Local Notation pauli_mat := (pauli_mat o ii).
  Local Notation rho_mat := (rho_mat o ii).
  Local Notation kappa := (kappa (o:=o) (ii:=ii) (hh:=hh)).
  Local Notation hpow := (hpow (o:=o) (hh:=hh)).

  Ltac conj_push :=
    repeat first [rewrite sr_conj_add | rewrite sr_conj_mul | rewrite sr_conj_opp | rewrite sr_conj_1
                 | rewrite sr_conj_0 | rewrite tr_hh_conj | rewrite (tr_ii_conj (o:=o) (ii:=ii) (hh:=hh))
                 | rewrite sr_conj_inv].
  Ltac norm := cbv - [kadd kmul ksub kopp kinv kconj k0 k1]; rewrite ?(kinv_two (hh:=hh)); conj_push.
  Ltac poly Hii :=
    first [ ring | ring [Hii] | ring [Hii (tr_hh (o:=o) (ii:=ii) (hh:=hh))]
      | match goal with |- _ = ?r => transitivity (((one+one)*(hh*hh)) * r); [ring | rewrite tr_hh; ring] end
      | match goal with |- _ = ?r => transitivity (((one+one)*(hh*hh)) * r); [ring [Hii] | rewrite tr_hh; ring] end
      | match goal with |- _ = ?r => transitivity (((one+one)*(hh*hh)) * (((one+one)*(hh*hh)) * r)); [ring [Hii] | rewrite !tr_hh; ring] end ].

  (* ---- the dual matrices are orthogonal to the input states, entrywise sum ---- *)
  Lemma orth1 l m : In l li_inputs -> In m li_inputs ->
    sumn 2 (fun y => sumn 2 (fun y' => kappa l y y' * rho_mat m y y')) = if inlab_eqb l m then one else zero.
  Proof.
    intros Hl Hm. assert (Hii := tr_ii (o:=o)). unfold li_inputs in *. simpl in Hl, Hm.
    destruct Hl as [<-|[<-|[<-|[<-|[]]]]]; destruct Hm as [<-|[<-|[<-|[<-|[]]]]]; norm; poly Hii.
  Qed.

  Lemma orth_str s : forall t, length s = length t ->
    Forall (fun g => In g li_inputs) s -> Forall (fun g => In g li_inputs) t ->
    sumn (2 ^ length s) (fun a => sumn (2 ^ length s) (fun a' => kfold o kappa s a a' * kfold o rho_mat t a a'))
    = if instr_eqb s t then one else zero.
  Proof.
    induction s as [|l s IH] using rev_ind; intros t Hlen Fs Ft.
    - destruct t; [|discriminate]. simpl. unfold mid. simpl. ring.
    - destruct (exists_last (l:=t)) as [t1 [m ->]].
      { intros ->. rewrite app_length in Hlen. simpl in Hlen. lia. }
      rewrite !app_length in Hlen. simpl in Hlen. assert (Hl1 : length s = length t1) by lia.
      apply Forall_app in Fs as [Fs Fl]. apply Forall_app in Ft as [Ft Fm].
      inversion Fl as [|? ? Hl _]; subst. inversion Fm as [|? ? Hm _]; subst.
      rewrite instr_eqb_snoc by exact Hl1.
      rewrite app_length. simpl length. rewrite Nat.add_1_r, Nat.pow_succ_r', (Nat.mul_comm 2).
      rewrite sumn_prod.
      rewrite (sumn_ext _ _ (fun a1 => sumn 2 (fun y => sumn (2 ^ length s) (fun a1' => sumn 2 (fun y' =>
                 (kfold o kappa s a1 a1' * kfold o rho_mat t1 a1 a1') * (kappa l y y' * rho_mat m y y')))))).
      2:{ intros a1 Ha1. apply sumn_ext. intros y Hy. rewrite sumn_prod.
          apply sumn_ext. intros a1' Ha1'. apply sumn_ext. intros y' Hy'.
          assert (B1 : (a1 * 2 + y < 2 ^ S (length s))%nat) by (rewrite Nat.pow_succ_r'; lia).
          assert (B2 : (a1' * 2 + y' < 2 ^ S (length s))%nat) by (rewrite Nat.pow_succ_r'; lia).
          rewrite kfold_snoc_gen by assumption.
          rewrite kfold_snoc_gen by (rewrite <- Hl1; assumption).
          destruct (div_mod_block' 2 a1 y Hy) as [-> ->]. destruct (div_mod_block' 2 a1' y' Hy') as [-> ->]. ring. }
      rewrite (sumn_ext _ _ (fun a1 => sumn (2 ^ length s) (fun a1' => (kfold o kappa s a1 a1' * kfold o rho_mat t1 a1 a1') *
                 sumn 2 (fun y => sumn 2 (fun y' => kappa l y y' * rho_mat m y y'))))).
      2:{ intros a1 _. rewrite sumn_swap. apply sumn_ext. intros a1' _.
          rewrite <- sumn_mul_l. apply sumn_ext. intros y _. rewrite <- sumn_mul_l. reflexivity. }
      rewrite (sumn_ext _ _ (fun a1 => sumn (2 ^ length s) (fun a1' => kfold o kappa s a1 a1' * kfold o rho_mat t1 a1 a1') *
                 sumn 2 (fun y => sumn 2 (fun y' => kappa l y y' * rho_mat m y y'))))
        by (intros; apply sumn_mul_r).
      rewrite sumn_mul_r, (IH t1 Hl1 Fs Ft), (orth1 l m Hl Hm).
      destruct (instr_eqb s t1), (inlab_eqb l m); simpl; ring.
  Qed.

  Local Notation isn n := (istrings li_inputs n).

  Lemma isn_length n : 1 <= n -> length (isn n) = 4 ^ n.
  Proof. intros Hn. rewrite istrings_count by exact Hn. reflexivity. Qed.

  Lemma orth_index n j j' : 1 <= n -> j < 4 ^ n -> j' < 4 ^ n ->
    sumn (2 ^ n * 2 ^ n) (fun x => vec (2 ^ n) (kfold o kappa (nth j (isn n) [])) x *
                                    vec (2 ^ n) (kfold o rho_mat (nth j' (isn n) [])) x) = mid o j j'.
  Proof.
    intros Hn Hj Hj'. rewrite <- (isn_length n Hn) in Hj, Hj'.
    pose proof (nth_In (isn n) [] Hj) as I1. pose proof (nth_In (isn n) [] Hj') as I2.
    pose proof (istrings_length_elem li_inputs n _ Hn I1) as L1.
    pose proof (istrings_length_elem li_inputs n _ Hn I2) as L2.
    unfold vec.
    rewrite (sum_split2 (TR:=TR) (2 ^ n) (fun a a' => kfold o kappa (nth j (isn n) []) a a' * kfold o rho_mat (nth j' (isn n) []) a a')).
    pose proof (orth_str (nth j (isn n) []) (nth j' (isn n) []) ltac:(lia)
                  (combine_all_forall li_inputs n _ I1) (combine_all_forall li_inputs n _ I2)) as H.
    rewrite L1 in H. rewrite H.
    unfold mid. destruct (Nat.eqb_spec j j') as [->|Hne].
    - rewrite instr_eqb_refl. reflexivity.
    - rewrite instr_eqb_neq; [reflexivity|]. intros E. apply Hne.
      apply (proj1 (NoDup_nth (isn n) []) (istrings_nodup li_inputs n Hn li_inputs_nodup) j j' Hj Hj' E).
  Qed.

  (* ---- the alpha coefficients ---- *)
  Definition alpha_n (n : nat) (u : @mat K) (j : nat) : K :=
    sumn (2 ^ n * 2 ^ n) (fun y => vec (2 ^ n) (kfold o kappa (nth j (isn n) [])) y * vec (2 ^ n) u y).

  Lemma basis_vectors_nth n x j : j < 4 ^ n -> 1 <= n ->
    basis_vectors o ii n x j = vec (2 ^ n) (kfold o rho_mat (nth j (isn n) [])) x.
  Proof.
    intros Hj Hn. unfold basis_vectors, rho_basis.
    rewrite (nth_indep _ (mid o) (kfold o rho_mat [])) by (rewrite map_length, isn_length by exact Hn; exact Hj).
    rewrite (map_nth (kfold o rho_mat)). reflexivity.
  Qed.

  Lemma alpha_n_solves n (u : @mat K) x : 1 <= n -> x < 2 ^ n * 2 ^ n ->
    sumn (4 ^ n) (fun j => basis_vectors o ii n x j * alpha_n n u j) = vec (2 ^ n) u x.
  Proof.
    intros Hn Hx. set (dim := (2 ^ n)%nat) in *.
    assert (Hdim : 0 < dim) by apply pow2_pos.
    destruct (idxN (TR:=TR) n x Hx) as [X1 X2]. fold dim in X1, X2.
    rewrite (sumn_ext _ _ (fun j => sumn (dim * dim) (fun y =>
               (kfold o kappa (nth j (isn n) []) (y / dim)%nat (y mod dim)%nat * kfold o rho_mat (nth j (isn n) []) (x / dim)%nat (x mod dim)%nat)
               * vec dim u y))).
    2:{ intros j Hj. rewrite basis_vectors_nth by assumption. unfold alpha_n. fold dim.
        rewrite <- sumn_mul_l. apply sumn_ext. intros y _. unfold vec. ring. }
    rewrite sumn_swap.
    rewrite (sumn_ext _ _ (fun y => mid o y x * vec dim u y)).
    - rewrite (sumn_single (dim * dim) x); try assumption.
      + unfold mid. rewrite Nat.eqb_refl. ring.
      + intros k _ Hk. unfold mid. apply Nat.eqb_neq in Hk. rewrite Hk. ring.
    - intros y Hy. destruct (idxN (TR:=TR) n y Hy) as [Y1 Y2]. fold dim in Y1, Y2.
      rewrite sumn_mul_r. f_equal.
      rewrite <- (isn_length n Hn).
      rewrite (sumn_nth_suml (TR:=TR) (isn n) [] (fun s => kfold o kappa s (y / dim)%nat (y mod dim)%nat * kfold o rho_mat s (x / dim)%nat (x mod dim)%nat)).
      rewrite (dual_complete (TR:=TR) n Hn) by assumption.
      apply (mid_split_m (TR:=TR) dim y x). exact Hdim.
  Qed.

  Lemma alpha_contract n solve (u : @mat K) j : 1 <= n -> pinv_contract (o:=o) solve -> j < 4 ^ n ->
    solve (4 ^ n)%nat (basis_vectors o ii n) (vec (2 ^ n) u) j = alpha_n n u j.
  Proof.
    intros Hn Hs Hj. apply (Hs (4 ^ n)%nat (basis_vectors o ii n) (vec (2 ^ n) u) (alpha_n n u)).
    - intros r Hr. apply alpha_n_solves; [exact Hn|]. rewrite <- pow4_dim. exact Hr.
    - apply (left_inverse_kernel (TR:=TR) (4 ^ n)%nat
               (fun x r => vec (2 ^ n) (kfold o kappa (nth x (isn n) [])) r) (basis_vectors o ii n)).
      intros x x' Hx Hx'. rewrite pow4_dim.
      rewrite (sumn_ext _ _ (fun r => vec (2 ^ n) (kfold o kappa (nth x (isn n) [])) r * vec (2 ^ n) (kfold o rho_mat (nth x' (isn n) [])) r))
        by (intros r _; rewrite basis_vectors_nth by assumption; reflexivity).
      apply orth_index; assumption.
    - exact Hj.
  Qed.
End GFN.
