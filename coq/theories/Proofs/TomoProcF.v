(* C16: GateFidelity.process for EVERY number of qubits n >= 1. *)
From Coq Require Import ZArith List Bool Arith Lia Ring_theory Ring Permutation.
From LW Require Import Base.Sx Base.Num Base.Sums Base.Mat Base.QI2 Model.Tomo
  Proofs.TomoStateP Proofs.TomoProcP Proofs.TomoProcG Proofs.TomoProcN.
Import ListNotations.

(* ------------------------------------------------------------ lists *)
Lemma istrings_nodup keys n : 1 <= n -> NoDup keys -> NoDup (istrings keys n).
Proof.
  intros Hn Hk. induction n as [|n IH]; [lia|].
  destruct (Nat.eq_dec n 0) as [->|Hn0].
  - rewrite istrings_1. apply FinFun.Injective_map_NoDup; [|exact Hk].
    intros a b E. injection E. auto.
  - rewrite istrings_S by lia. specialize (IH ltac:(lia)).
    induction IH as [|c l Hc Hl IHl]; [constructor|]. simpl.
    apply nodup_app_intro.
    + apply FinFun.Injective_map_NoDup; [|exact Hk]. intros a b E. apply snoc_inj in E. tauto.
    + exact IHl.
    + intros x Hx Hx'. apply in_map_iff in Hx as [g [<- Hg]].
      apply in_flat_map in Hx' as [c' [Hc' Hx']]. apply in_map_iff in Hx' as [g' [E Hg']].
      apply snoc_inj in E as [-> _]. contradiction.
Qed.

Lemma li_inputs_nodup : NoDup li_inputs.
Proof. unfold li_inputs. repeat constructor; simpl; intuition discriminate. Qed.

Lemma instr_eqb_refl a : instr_eqb a a = true.
Proof. apply instr_eqb_eq. reflexivity. Qed.
Lemma instr_eqb_neq a b : a <> b -> instr_eqb a b = false.
Proof. intros H. destruct (instr_eqb a b) eqn:E; [|reflexivity]. apply instr_eqb_eq in E. contradiction. Qed.

(* the results of one input: its own block of the dictionary *)
Lemma results_of_input_family_n {K} (D : instr -> mstr -> data (K:=K)) (cs : list mstr) (inputs : list instr) i :
  NoDup inputs -> In i inputs ->
  results_of_input i (concat (map (fun i' => map (fun c => ((i', c), D i' (replIZ c))) cs) inputs))
  = map (fun c => (c, D i (replIZ c))) cs.
Proof.
  unfold results_of_input.
  assert (Blk : forall i', filter (fun kd : instr * mstr * data => instr_eqb (fst (fst kd)) i)
                            (map (fun c => ((i', c), D i' (replIZ c))) cs)
                          = if instr_eqb i' i then map (fun c => ((i', c), D i' (replIZ c))) cs else []).
  { intros i'. induction cs as [|c cs IHc]; [destruct (instr_eqb i' i); reflexivity|].
    simpl. rewrite IHc. destruct (instr_eqb i' i); reflexivity. }
  induction inputs as [|a l IH]; intros Hnd Hin; [destruct Hin|].
  simpl. rewrite filter_app, map_app, Blk.
  inversion Hnd as [|? ? Ha Hl]; subst.
  destruct Hin as [->|Hin].
  - rewrite instr_eqb_refl, map_map. cbn [fst snd].
    assert (Z : filter (fun kd : instr * mstr * data => instr_eqb (fst (fst kd)) i)
                  (concat (map (fun i' => map (fun c => ((i', c), D i' (replIZ c))) cs) l)) = []).
    { clear IH Hnd Hl. induction l as [|b l IHl]; [reflexivity|]. simpl. rewrite filter_app, Blk.
      rewrite instr_eqb_neq by (intros ->; apply Ha; left; reflexivity).
      apply IHl. intros H. apply Ha. right. exact H. }
    rewrite Z. simpl. apply app_nil_r.
  - rewrite instr_eqb_neq by (intros ->; contradiction). simpl. apply IH; assumption.
Qed.

Lemma mapM_exists {A B} (f : A -> res B) (P : A -> B -> Prop) (l : list A) (da : A) (db : B) :
  (forall a, In a l -> exists b, f a = Ok b /\ P a b) ->
  exists bs, mapM f l = Ok bs /\ length bs = length l /\ forall j, j < length l -> P (nth j l da) (nth j bs db).
Proof.
  induction l as [|a l IH]; intros H.
  - exists []. split; [reflexivity|]. split; [reflexivity|]. intros j Hj. simpl in Hj. lia.
  - destruct (H a (or_introl eq_refl)) as [b [Eb Pb]].
    destruct IH as [bs [Ebs [Lbs Pbs]]]; [intros x Hx; apply H; right; exact Hx|].
    exists (b :: bs). split; [simpl; rewrite Eb, Ebs; reflexivity|]. split; [simpl; lia|].
    intros [|j] Hj; [exact Pb|]. simpl. apply Pbs. simpl in Hj. lia.
Qed.

Section ListSums.
  Context {K : Type} {o : ops K} {SR : StarRing o}.
  Let R := sr_ring (o:=o).
  Add Ring Kls : R.
  Local Notation sumn := (sumn o).
  Local Notation suml := (suml o).

  Lemma suml_combine_seq {A} (l : list A) (d : A) (g : nat * A -> K) : forall s,
    suml (combine (seq s (length l)) l) g = sumn (length l) (fun j => g ((s + j)%nat, nth j l d)).
  Proof.
    induction l as [|a l IH]; intros s; [reflexivity|].
    simpl length. simpl seq. simpl combine. simpl Sums.suml. rewrite IH, sumn_S_l.
    rewrite Nat.add_0_r. simpl nth. f_equal. apply sumn_ext. intros j _.
    rewrite Nat.add_succ_r. reflexivity.
  Qed.

  Lemma suml_combine_map_self {A B} (h : A -> B) (l : list A) (g : B * A -> K) :
    suml (combine (map h l) l) g = suml l (fun u => g (h u, u)).
  Proof. induction l as [|a l IH]; [reflexivity|]. simpl. rewrite IH. reflexivity. Qed.
End ListSums.

Lemma combine_all_forall {A} (keys : list A) n c :
  In c (combine_all (@app A) (map (fun p => [p]) keys) n) -> Forall (fun g => In g keys) c.
Proof.
  unfold combine_all. generalize (n - 1) as m. intros m. revert c. induction m as [|m IH]; intros c Hc.
  - simpl in Hc. apply in_map_iff in Hc as [p [<- Hp]]. constructor; [exact Hp|constructor].
  - simpl in Hc. unfold combine_step at 1 in Hc. apply in_flat_map in Hc as [v1 [H1 H2]].
    apply in_map_iff in H2 as [v2 [<- H2]]. apply in_map_iff in H2 as [p [<- Hp]].
    apply Forall_app. split; [apply IH; exact H1|]. constructor; [exact Hp|constructor].
Qed.

Lemma instr_eqb_snoc s : forall t l m, length s = length t ->
  instr_eqb (s ++ [l]) (t ++ [m]) = instr_eqb s t && inlab_eqb l m.
Proof.
  induction s as [|x s IH]; intros [|y t] l m H; simpl in H; try discriminate.
  - simpl. destruct (inlab_eqb l m); reflexivity.
  - simpl. rewrite IH by lia. destruct (inlab_eqb x y); reflexivity.
Qed.

Section GFN.
  Context {K : Type} {o : ops K} {ii hh : K} {TR : TomoRing o ii hh}.
  Let R := sr_ring (o:=o).
  Add Ring Kgfn : R.
  Local Notation "a + b" := (kadd o a b).
  Local Notation "a * b" := (kmul o a b).
  Local Notation "a - b" := (ksub o a b).
  Local Notation "- a" := (kopp o a).
  Local Notation one := (k1 o).
  Local Notation zero := (k0 o).
  Local Notation conj := (kconj o).
  Local Notation sumn := (sumn o).
  Local Notation suml := (suml o).
  Local Notation pauli_mat := (pauli_mat o ii).
  Local Notation rho_mat := (rho_mat o ii).
  Local Notation kappa := (kappa (o:=o) (ii:=ii) (hh:=hh)).
  Local Notation hpow := (hpow (o:=o) (hh:=hh)).

  Ltac conj_push :=
    repeat first [rewrite sr_conj_add | rewrite sr_conj_mul | rewrite sr_conj_opp | rewrite sr_conj_1
                 | rewrite sr_conj_0 | rewrite tr_hh_conj | rewrite (tr_ii_conj (o:=o) (ii:=ii) (hh:=hh))
                 | rewrite sr_conj_inv].
  Ltac norm := cbv - [kadd kmul ksub kopp kinv kconj k0 k1]; rewrite ?(kinv_two (hh:=hh)); conj_push.
  Ltac poly Hii :=
    first [ ring | ring [Hii] | ring [Hii (tr_hh (o:=o) (ii:=ii) (hh:=hh))]
      | match goal with |- _ = ?r => transitivity (((one+one)*(hh*hh)) * r); [ring | rewrite tr_hh; ring] end
      | match goal with |- _ = ?r => transitivity (((one+one)*(hh*hh)) * r); [ring [Hii] | rewrite tr_hh; ring] end
      | match goal with |- _ = ?r => transitivity (((one+one)*(hh*hh)) * (((one+one)*(hh*hh)) * r)); [ring [Hii] | rewrite !tr_hh; ring] end ].

  (* ---- the dual matrices are orthogonal to the input states, entrywise sum ---- *)
  Lemma orth1 l m : In l li_inputs -> In m li_inputs ->
    sumn 2 (fun y => sumn 2 (fun y' => kappa l y y' * rho_mat m y y')) = if inlab_eqb l m then one else zero.
  Proof.
    intros Hl Hm. assert (Hii := tr_ii (o:=o)). unfold li_inputs in *. simpl in Hl, Hm.
    destruct Hl as [<-|[<-|[<-|[<-|[]]]]]; destruct Hm as [<-|[<-|[<-|[<-|[]]]]]; norm; poly Hii.
  Qed.

  Lemma orth_str s : forall t, length s = length t ->
    Forall (fun g => In g li_inputs) s -> Forall (fun g => In g li_inputs) t ->
    sumn (2 ^ length s) (fun a => sumn (2 ^ length s) (fun a' => kfold o kappa s a a' * kfold o rho_mat t a a'))
    = if instr_eqb s t then one else zero.
  Proof.
    induction s as [|l s IH] using rev_ind; intros t Hlen Fs Ft.
    - destruct t; [|discriminate]. simpl. unfold mid. simpl. ring.
    - destruct (exists_last (l:=t)) as [t1 [m ->]].
      { intros ->. rewrite app_length in Hlen. simpl in Hlen. lia. }
      rewrite !app_length in Hlen. simpl in Hlen. assert (Hl1 : length s = length t1) by lia.
      apply Forall_app in Fs as [Fs Fl]. apply Forall_app in Ft as [Ft Fm].
      inversion Fl as [|? ? Hl _]; subst. inversion Fm as [|? ? Hm _]; subst.
      rewrite instr_eqb_snoc by exact Hl1.
      rewrite app_length. simpl length. rewrite Nat.add_1_r, Nat.pow_succ_r', (Nat.mul_comm 2).
      rewrite sumn_prod.
      rewrite (sumn_ext _ _ (fun a1 => sumn 2 (fun y => sumn (2 ^ length s) (fun a1' => sumn 2 (fun y' =>
                 (kfold o kappa s a1 a1' * kfold o rho_mat t1 a1 a1') * (kappa l y y' * rho_mat m y y')))))).
      2:{ intros a1 Ha1. apply sumn_ext. intros y Hy. rewrite sumn_prod.
          apply sumn_ext. intros a1' Ha1'. apply sumn_ext. intros y' Hy'.
          assert (B1 : (a1 * 2 + y < 2 ^ S (length s))%nat) by (rewrite Nat.pow_succ_r'; lia).
          assert (B2 : (a1' * 2 + y' < 2 ^ S (length s))%nat) by (rewrite Nat.pow_succ_r'; lia).
          rewrite kfold_snoc_gen by assumption.
          rewrite kfold_snoc_gen by (rewrite <- Hl1; assumption).
          destruct (div_mod_block' 2 a1 y Hy) as [-> ->]. destruct (div_mod_block' 2 a1' y' Hy') as [-> ->]. ring. }
      rewrite (sumn_ext _ _ (fun a1 => sumn (2 ^ length s) (fun a1' => (kfold o kappa s a1 a1' * kfold o rho_mat t1 a1 a1') *
                 sumn 2 (fun y => sumn 2 (fun y' => kappa l y y' * rho_mat m y y'))))).
      2:{ intros a1 _. rewrite sumn_swap. apply sumn_ext. intros a1' _.
          rewrite <- sumn_mul_l. apply sumn_ext. intros y _. rewrite <- sumn_mul_l. reflexivity. }
      rewrite (sumn_ext _ _ (fun a1 => sumn (2 ^ length s) (fun a1' => kfold o kappa s a1 a1' * kfold o rho_mat t1 a1 a1') *
                 sumn 2 (fun y => sumn 2 (fun y' => kappa l y y' * rho_mat m y y'))))
        by (intros; apply sumn_mul_r).
      rewrite sumn_mul_r, (IH t1 Hl1 Fs Ft), (orth1 l m Hl Hm).
      destruct (instr_eqb s t1), (inlab_eqb l m); simpl; ring.
  Qed.

  Local Notation isn n := (istrings li_inputs n).

  Lemma isn_length n : 1 <= n -> length (isn n) = 4 ^ n.
  Proof. intros Hn. rewrite istrings_count by exact Hn. reflexivity. Qed.

  Lemma orth_index n j j' : 1 <= n -> j < 4 ^ n -> j' < 4 ^ n ->
    sumn (2 ^ n * 2 ^ n) (fun x => vec (2 ^ n) (kfold o kappa (nth j (isn n) [])) x *
                                    vec (2 ^ n) (kfold o rho_mat (nth j' (isn n) [])) x) = mid o j j'.
  Proof.
    intros Hn Hj Hj'. rewrite <- (isn_length n Hn) in Hj, Hj'.
    pose proof (nth_In (isn n) [] Hj) as I1. pose proof (nth_In (isn n) [] Hj') as I2.
    pose proof (istrings_length_elem li_inputs n _ Hn I1) as L1.
    pose proof (istrings_length_elem li_inputs n _ Hn I2) as L2.
    unfold vec.
    rewrite (sum_split2 (TR:=TR) (2 ^ n) (fun a a' => kfold o kappa (nth j (isn n) []) a a' * kfold o rho_mat (nth j' (isn n) []) a a')).
    pose proof (orth_str (nth j (isn n) []) (nth j' (isn n) []) ltac:(lia)
                  (combine_all_forall li_inputs n _ I1) (combine_all_forall li_inputs n _ I2)) as H.
    rewrite L1 in H. rewrite H.
    unfold mid. destruct (Nat.eqb_spec j j') as [->|Hne].
    - rewrite instr_eqb_refl. reflexivity.
    - rewrite instr_eqb_neq; [reflexivity|]. intros E. apply Hne.
      apply (proj1 (NoDup_nth (isn n) []) (istrings_nodup li_inputs n Hn li_inputs_nodup) j j' Hj Hj' E).
  Qed.

  (* ---- the alpha coefficients ---- *)
  Definition alpha_n (n : nat) (u : @mat K) (j : nat) : K :=
    sumn (2 ^ n * 2 ^ n) (fun y => vec (2 ^ n) (kfold o kappa (nth j (isn n) [])) y * vec (2 ^ n) u y).

  Lemma basis_vectors_nth n x j : j < 4 ^ n -> 1 <= n ->
    basis_vectors o ii n x j = vec (2 ^ n) (kfold o rho_mat (nth j (isn n) [])) x.
  Proof.
    intros Hj Hn. unfold basis_vectors, rho_basis.
    rewrite (nth_indep _ (mid o) (kfold o rho_mat [])) by (rewrite map_length, isn_length by exact Hn; exact Hj).
    rewrite (map_nth (kfold o rho_mat)). reflexivity.
  Qed.

  Lemma alpha_n_solves n (u : @mat K) x : 1 <= n -> x < 2 ^ n * 2 ^ n ->
    sumn (4 ^ n) (fun j => basis_vectors o ii n x j * alpha_n n u j) = vec (2 ^ n) u x.
  Proof.
    intros Hn Hx. set (dim := (2 ^ n)%nat) in *.
    assert (Hdim : 0 < dim) by apply pow2_pos.
    destruct (idxN n x Hx) as [X1 X2]. fold dim in X1, X2.
    rewrite (sumn_ext _ _ (fun j => sumn (dim * dim) (fun y =>
               (kfold o kappa (nth j (isn n) []) (y / dim)%nat (y mod dim)%nat * kfold o rho_mat (nth j (isn n) []) (x / dim)%nat (x mod dim)%nat)
               * vec dim u y))).
    2:{ intros j Hj. rewrite basis_vectors_nth by assumption. unfold alpha_n. fold dim.
        rewrite <- sumn_mul_l. apply sumn_ext. intros y _. unfold vec. ring. }
    rewrite sumn_swap.
    rewrite (sumn_ext _ _ (fun y => mid o y x * vec dim u y)).
    - rewrite (sumn_single (dim * dim) x); try assumption.
      + unfold mid. rewrite Nat.eqb_refl. ring.
      + intros k _ Hk. unfold mid. apply Nat.eqb_neq in Hk. rewrite Hk. ring.
    - intros y Hy. destruct (idxN n y Hy) as [Y1 Y2]. fold dim in Y1, Y2.
      rewrite sumn_mul_r. f_equal.
      rewrite <- (isn_length n Hn).
      rewrite (sumn_nth_suml (TR:=TR) (isn n) [] (fun s => kfold o kappa s (y / dim)%nat (y mod dim)%nat * kfold o rho_mat s (x / dim)%nat (x mod dim)%nat)).
      rewrite (dual_complete (TR:=TR) n Hn) by assumption.
      apply (mid_split_m (TR:=TR) dim y x). exact Hdim.
  Qed.

  Lemma alpha_contract n solve (u : @mat K) j : 1 <= n -> pinv_contract (o:=o) solve -> j < 4 ^ n ->
    solve (4 ^ n)%nat (basis_vectors o ii n) (vec (2 ^ n) u) j = alpha_n n u j.
  Proof.
    intros Hn Hs Hj. apply (Hs (4 ^ n)%nat (basis_vectors o ii n) (vec (2 ^ n) u) (alpha_n n u)).
    - intros r Hr. apply alpha_n_solves; [exact Hn|]. rewrite <- pow4_dim. exact Hr.
    - apply (left_inverse_kernel (TR:=TR) (4 ^ n)%nat
               (fun x r => vec (2 ^ n) (kfold o kappa (nth x (isn n) [])) r) (basis_vectors o ii n)).
      intros x x' Hx Hx'. rewrite pow4_dim.
      rewrite (sumn_ext _ _ (fun r => vec (2 ^ n) (kfold o kappa (nth x (isn n) [])) r * vec (2 ^ n) (kfold o rho_mat (nth x' (isn n) [])) r))
        by (intros r _; rewrite basis_vectors_nth by assumption; reflexivity).
      apply orth_index; assumption.
    - exact Hj.
  Qed.
End GFN.

(* ------------------------------------------ pointwise equality of matrices as a setoid *)
From Coq Require Import Setoid Morphisms.

Section Peq.
  Context {K : Type} {o : ops K} {SR : StarRing o}.
  Definition peq (A B : @mat K) : Prop := forall i j, A i j = B i j.
  Global Instance peq_equiv : Equivalence peq.
  Proof.
    split.
    - intros A i j. reflexivity.
    - intros A B H i j. symmetry. apply H.
    - intros A B C H1 H2 i j. rewrite H1. apply H2.
  Qed.
  Global Instance mmul_proper d : Proper (peq ==> peq ==> peq) (mmul o d).
  Proof. intros A A' HA B B' HB i j. unfold mmul. apply sumn_ext. intros k _. rewrite HA, HB. reflexivity. Qed.
  Global Instance madj_proper : Proper (peq ==> peq) (madj o).
  Proof. intros A A' HA i j. unfold madj. rewrite HA. reflexivity. Qed.
  Global Instance trace_proper d : Proper (peq ==> eq) (trace o d).
  Proof. intros A A' HA. unfold trace. apply sumn_ext. intros k _. apply HA. Qed.

  Lemma peq_assoc d A B C : peq (mmul o d (mmul o d A B) C) (mmul o d A (mmul o d B C)).
  Proof. intros i j. apply mmul_assoc. Qed.
  Lemma peq_madj_mmul d A B : peq (madj o (mmul o d A B)) (mmul o d (madj o B) (madj o A)).
  Proof. intros i j. apply madj_mmul. Qed.
  Lemma peq_madj_madj A : peq (madj o (madj o A)) A.
  Proof. intros i j. apply madj_madj. Qed.
End Peq.

Section Twirl.
  Context {K : Type} {o : ops K} {ii hh : K} {TR : TomoRing o ii hh}.
  Let R := sr_ring (o:=o).
  Add Ring Ktw : R.
  Local Notation "a + b" := (kadd o a b).
  Local Notation "a * b" := (kmul o a b).
  Local Notation one := (k1 o).
  Local Notation zero := (k0 o).
  Local Notation conj := (kconj o).
  Local Notation sumn := (sumn o).
  Local Notation suml := (suml o).
  Local Notation pauli_mat := (pauli_mat o ii).
  Local Notation hpow := (hpow (o:=o) (hh:=hh)).
  Local Notation "A ** B" := (mmul o _ A B) (at level 40, left associativity).

  (* tr(U u^+ U^+ V u V^+) = tr(u^+ M u M^+), M = U^+ V *)
  Lemma gf_cyclic d (U V u : @mat K) :
    trace o d (mmul o d (mmul o d (mmul o d U (madj o u)) (madj o U)) (out_rho o d V u))
    = trace o d (mmul o d (mmul o d (mmul o d (madj o u) (mmul o d (madj o U) V)) u) (madj o (mmul o d (madj o U) V))).
  Proof.
    unfold out_rho.
    (* left: U (u^+ (U^+ ((V u) V^+))) ; cyclic ; then reassociate *)
    rewrite (trace_proper d _ _ (peq_assoc d (mmul o d U (madj o u)) (madj o U) (mmul o d (mmul o d V u) (madj o V)))).
    rewrite (trace_proper d _ _ (peq_assoc d U (madj o u) _)).
    rewrite (trace_cyclic (TR:=TR) d U).
    (* now: tr((u^+ (U^+ ((V u) V^+))) U) *)
    assert (E1 : peq (mmul o d (mmul o d (madj o u) (mmul o d (madj o U) (mmul o d (mmul o d V u) (madj o V)))) U)
                     (mmul o d (madj o u) (mmul o d (madj o U) (mmul o d V (mmul o d u (mmul o d (madj o V) U)))))).
    { rewrite peq_assoc. rewrite (peq_assoc d (madj o U)). rewrite (peq_assoc d (mmul o d V u)). rewrite (peq_assoc d V u). reflexivity. }
    rewrite (trace_proper d _ _ E1).
    assert (E2 : peq (mmul o d (mmul o d (mmul o d (madj o u) (mmul o d (madj o U) V)) u) (madj o (mmul o d (madj o U) V)))
                     (mmul o d (madj o u) (mmul o d (madj o U) (mmul o d V (mmul o d u (mmul o d (madj o V) U)))))).
    { rewrite peq_madj_mmul, peq_madj_madj. rewrite peq_assoc. rewrite (peq_assoc d (madj o u)). rewrite (peq_assoc d (madj o U) V). reflexivity. }
    rewrite (trace_proper d _ _ E2). reflexivity.
  Qed.

  Lemma suml_pauli_keys (f : pauli -> K) : suml pauli_keys f = suml meas_keys f.
  Proof. simpl. ring. Qed.

  Definition pstrings (n : nat) : list mstr := strings pauli_keys n.

  Lemma pauli_complete_p n : 1 <= n -> forall a b k l,
    a < 2 ^ n -> b < 2 ^ n -> k < 2 ^ n -> l < 2 ^ n ->
    suml (pstrings n) (fun c => hpow n * (kfold o pauli_mat c a b * kfold o pauli_mat c l k)) = mid o a k * mid o b l.
  Proof.
    unfold pstrings.
    induction n as [|n IH]; [lia|]. intros _ a b k l Ha Hb Hk Hl.
    destruct (Nat.eq_dec n 0) as [->|Hn0].
    - change (2 ^ 1) with 2 in *. rewrite strings_1. unfold singles.
      rewrite suml_map, suml_pauli_keys, <- (comp1 (TR:=TR)) by assumption. apply suml_ext. intros g _. simpl. ring.
    - rewrite strings_S by lia. rewrite suml_flat_map.
      rewrite (suml_ext _ _ (fun c : mstr => suml pauli_keys (fun g =>
        (hpow n * (kfold o pauli_mat c (a / 2) (b / 2) * kfold o pauli_mat c (l / 2) (k / 2))) *
        ((hh * hh) * (pauli_mat g (a mod 2) (b mod 2) * pauli_mat g (l mod 2) (k mod 2)))))).
      + rewrite suml_pair_mul.
        rewrite (IH ltac:(lia) (a / 2)%nat (b / 2)%nat (k / 2)%nat (l / 2)%nat) by (apply half_index_lt; assumption).
        rewrite suml_pauli_keys, (comp1 (TR:=TR)) by (apply Nat.mod_upper_bound; lia).
        rewrite <- (mid_split (o:=o) a k), <- (mid_split (o:=o) b l). ring.
      + intros c Hc. apply strings_length_elem in Hc; [|lia].
        rewrite suml_map. apply suml_ext. intros g _.
        rewrite !(kfold_snoc (TR:=TR)) by (rewrite Hc; assumption). simpl TomoStateP.hpow. ring.
  Qed.

  Lemma twirl_entry n a b p m : 1 <= n -> a < 2 ^ n -> b < 2 ^ n -> p < 2 ^ n -> m < 2 ^ n ->
    suml (pstrings n) (fun c => conj (kfold o pauli_mat c b a) * kfold o pauli_mat c p m)
    = pow2 o n * (mid o a m * mid o b p).
  Proof.
    intros Hn Ha Hb Hp Hm. rewrite <- (pauli_complete_p n Hn a b m p) by assumption.
    rewrite <- suml_mul_l. apply suml_ext. intros c Hc.
    unfold pstrings in Hc. apply strings_length_elem in Hc; [|exact Hn].
    pose proof (kfold_herm (TR:=TR) pauli_mat c (pauli_herm (TR:=TR))) as H. rewrite Hc in H.
    rewrite (H a b Ha Hb : conj (kfold o pauli_mat c b a) = _).
    transitivity ((pow2 o n * hpow n) * (kfold o pauli_mat c a b * kfold o pauli_mat c p m)); [|ring].
    rewrite (pow2_hpow (TR:=TR)). ring.
  Qed.

  (* Pauli twirl: sum_c P_c^+ M P_c = 2^n tr(M) 1 *)
  Lemma pauli_twirl n (M : @mat K) a m : 1 <= n -> a < 2 ^ n -> m < 2 ^ n ->
    suml (pstrings n) (fun c => mmul o (2 ^ n) (mmul o (2 ^ n) (madj o (kfold o pauli_mat c)) M) (kfold o pauli_mat c) a m)
    = pow2 o n * trace o (2 ^ n) M * mid o a m.
  Proof.
    intros Hn Ha Hm. unfold mmul, madj.
    rewrite suml_sumn_swap.
    rewrite (sumn_ext _ _ (fun p => pow2 o n * mid o a m * M p p)).
    - rewrite sumn_mul_l. unfold trace. ring.
    - intros p Hp.
      rewrite (suml_ext _ _ (fun c => sumn (2 ^ n) (fun b => M b p * (conj (kfold o pauli_mat c b a) * kfold o pauli_mat c p m)))).
      2:{ intros c _. rewrite <- sumn_mul_r. apply sumn_ext. intros b _. ring. }
      rewrite suml_sumn_swap.
      rewrite (sumn_ext _ _ (fun b => mid o b p * (M b p * (pow2 o n * mid o a m)))).
      2:{ intros b Hb. rewrite suml_mul_l, twirl_entry by assumption. ring. }
      rewrite (sumn_single (2 ^ n) p); try assumption.
      + unfold mid at 1. rewrite Nat.eqb_refl. ring.
      + intros k _ Hk. unfold mid at 1. apply Nat.eqb_neq in Hk. rewrite Hk. ring.
  Qed.

  Lemma twirl_total n (M : @mat K) : 1 <= n ->
    suml (pstrings n) (fun c => trace o (2 ^ n)
        (mmul o (2 ^ n) (mmul o (2 ^ n) (mmul o (2 ^ n) (madj o (kfold o pauli_mat c)) M) (kfold o pauli_mat c)) (madj o M)))
    = pow2 o n * (trace o (2 ^ n) M * conj (trace o (2 ^ n) M)).
  Proof.
    intros Hn. unfold trace at 1. unfold mmul at 1.
    rewrite suml_sumn_swap.
    rewrite (sumn_ext _ _ (fun a => pow2 o n * trace o (2 ^ n) M * conj (M a a))).
    - rewrite sumn_mul_l. unfold trace at 3. rewrite sumn_conj. ring.
    - intros a Ha. rewrite suml_sumn_swap.
      rewrite (sumn_ext _ _ (fun m => mid o a m * (pow2 o n * trace o (2 ^ n) M * madj o M m a))).
      2:{ intros m Hm. rewrite suml_mul_r, pauli_twirl by assumption. ring. }
      rewrite (sumn_single (2 ^ n) a); try assumption.
      + unfold mid. rewrite Nat.eqb_refl. unfold madj. ring.
      + intros k _ Hk. unfold mid. apply Nat.eqb_neq in Hk. rewrite Nat.eqb_sym, Hk. ring.
  Qed.
End Twirl.

Section GFMain.
  Context {K : Type} {o : ops K} {ii hh : K} {TR : TomoRing o ii hh}.
  Let R := sr_ring (o:=o).
  Add Ring Kgm : R.
  Local Notation "a + b" := (kadd o a b).
  Local Notation "a * b" := (kmul o a b).
  Local Notation one := (k1 o).
  Local Notation zero := (k0 o).
  Local Notation conj := (kconj o).
  Local Notation sumn := (sumn o).
  Local Notation suml := (suml o).
  Local Notation pauli_mat := (pauli_mat o ii).
  Local Notation rho_mat := (rho_mat o ii).
  Local Notation hpow := (hpow (o:=o) (hh:=hh)).
  Local Notation isn n := (istrings li_inputs n).

  Lemma sum4_rot d (f : nat -> nat -> nat -> nat -> K) :
    sumn d (fun k => sumn d (fun l => sumn d (fun m => sumn d (fun p => f k l m p))))
    = sumn d (fun p => sumn d (fun m => sumn d (fun k => sumn d (fun l => f k l m p)))).
  Proof.
    transitivity (sumn d (fun k => sumn d (fun l => sumn d (fun p => sumn d (fun m => f k l m p))))).
    { apply sumn_ext; intros k _; apply sumn_ext; intros l _. apply sumn_swap. }
    transitivity (sumn d (fun k => sumn d (fun p => sumn d (fun l => sumn d (fun m => f k l m p))))).
    { apply sumn_ext; intros k _. apply (sumn_swap d d (fun l p => sumn d (fun m => f k l m p))). }
    rewrite (sumn_swap d d (fun k p => sumn d (fun l => sumn d (fun m => f k l m p)))).
    apply sumn_ext; intros p _.
    transitivity (sumn d (fun k => sumn d (fun m => sumn d (fun l => f k l m p)))).
    { apply sumn_ext; intros k _. apply (sumn_swap d d (fun l m => f k l m p)). }
    apply (sumn_swap d d (fun k m => sumn d (fun l => f k l m p))).
  Qed.

  Definition Wm (d : nat) (A V : @mat K) (p m : nat) : K :=
    sumn d (fun k => sumn d (fun l => A k l * V l p * conj (V k m))).

  (* tr(A V rho V^+) is linear in rho *)
  Lemma gf_lin d (A V rho : @mat K) :
    trace o d (mmul o d A (out_rho o d V rho)) = sumn d (fun p => sumn d (fun m => Wm d A V p m * rho p m)).
  Proof.
    unfold trace, out_rho, mmul, madj, Wm.
    transitivity (sumn d (fun k => sumn d (fun l => sumn d (fun m => sumn d (fun p =>
                    A k l * V l p * conj (V k m) * rho p m))))).
    - apply sumn_ext; intros k _. apply sumn_ext; intros l _. rewrite <- sumn_mul_l.
      apply sumn_ext; intros m _.
      transitivity ((A k l * conj (V k m)) * sumn d (fun p => V l p * rho p m)); [ring|].
      rewrite <- sumn_mul_l. apply sumn_ext; intros p _. ring.
    - rewrite sum4_rot. apply sumn_ext; intros p _. apply sumn_ext; intros m _.
      rewrite <- sumn_mul_r. apply sumn_ext; intros k _. rewrite <- sumn_mul_r. reflexivity.
  Qed.

  Lemma ofnat_add a b : ofnat o (a + b)%nat = ofnat o a + ofnat o b.
  Proof. induction a as [|a IH]; simpl; [ring|]. unfold ofnat in *. simpl. rewrite IH. ring. Qed.
  Lemma ofnat_pow2 n : ofnat o (2 ^ n) = pow2 o n.
  Proof.
    induction n as [|n IH]; [unfold ofnat; simpl; ring|].
    rewrite Nat.pow_succ_r'. replace (2 * 2 ^ n)%nat with (2 ^ n + 2 ^ n)%nat by lia.
    rewrite ofnat_add, IH. simpl. unfold two. ring.
  Qed.

  Lemma conj_pow2 n : conj (pow2 o n) = pow2 o n.
  Proof. induction n as [|n IH]; simpl; [apply sr_conj_1|]. unfold two. rewrite sr_conj_mul, sr_conj_add, sr_conj_1, IH. reflexivity. Qed.

  (* GateFidelity.process for every n >= 1, every target matrix U *)
  Theorem gate_fidelity_formula_n n solve (U V : @mat K) req inv :
    1 <= n -> pinv_contract (o:=o) solve -> lunit o (2 ^ n) V -> Permutation req (req_canonical n false) ->
    (ofnat o (2 ^ n) + one) * inv = one ->
    gf_process o ii solve n req (process_ideal o ii hh n V (isn n) req) U
    = Ok ((trace o (2 ^ n) (mmul o (2 ^ n) (madj o U) V) * conj (trace o (2 ^ n) (mmul o (2 ^ n) (madj o U) V)) + ofnat o (2 ^ n)) *
          kinv o (ofnat o (2 ^ n) * (ofnat o (2 ^ n) + one))).
  Proof.
    intros Hn Hs HV Hp Hinv. unfold gf_process, process_ideal.
    rewrite (run_required_family (fun i s => ideal_data o ii hh n s (out_rho o (2 ^ n) V (in_rho o ii hh i)))) by (try exact Hn; exact Hp).
    cbn [bind].
    match goal with |- context [mapM ?f (isn n)] =>
      destruct (mapM_exists f (fun i Ri => meq (2 ^ n) Ri (out_rho o (2 ^ n) V (kfold o rho_mat i))) (isn n) [] (mid o))
        as [Rs [ERs [LRs PRs]]] end.
    { intros i Hi.
      rewrite (results_of_input_family_n (fun i s => ideal_data o ii hh n s (out_rho o (2 ^ n) V (in_rho o ii hh i))))
        by first [exact Hi | apply istrings_nodup; [exact Hn|exact li_inputs_nodup]].
      pose proof (istrings_length_elem li_inputs n i Hn Hi) as Li.
      destruct (density_ideal (TR:=TR) n (out_rho o (2 ^ n) V (in_rho o ii hh i))) as [Ri [E M]]; [exact Hn| |].
      - rewrite out_rho_trace by exact HV. rewrite <- Li. apply in_rho_trace.
      - exists Ri. split; [exact E|]. eapply meq_trans; [exact M|]. apply out_rho_compat. rewrite <- Li. apply in_rho_spec. }
    rewrite ERs. cbn [bind]. f_equal.
    set (M := mmul o (2 ^ n) (madj o U) V).
    set (t := trace o (2 ^ n)%nat M).
    (* the double sum *)
    match goal with |- (?tot + _) * _ = _ => assert (Et : tot = pow2 o n * (t * conj t)) end.
    { unfold alpha_mat. rewrite suml_combine_map_self. unfold u_basis. rewrite suml_map. cbn [fst snd].
      unfold t. rewrite <- (twirl_total (TR:=TR) n M Hn). apply suml_ext. intros c Hc.
      unfold M. rewrite <- (gf_cyclic (TR:=TR) (2 ^ n)%nat U V (kfold o pauli_mat c)).
      set (u := kfold o pauli_mat c). set (A := mmul o (2 ^ n)%nat (mmul o (2 ^ n)%nat U (madj o u)) (madj o U)).
      rewrite (suml_combine_seq Rs (mid o)). cbn [fst snd]. rewrite LRs, (isn_length n Hn).
      transitivity (sumn (4 ^ n) (fun j => alpha_n (o:=o) (ii:=ii) (hh:=hh) n u j *
                      sumn (2 ^ n)%nat (fun p => sumn (2 ^ n)%nat (fun m => Wm (2 ^ n)%nat A V p m * kfold o rho_mat (nth j (isn n) []) p m)))).
      { apply sumn_ext. intros j Hj. rewrite Nat.add_0_l.
        rewrite (alpha_contract (o:=o) (ii:=ii) (hh:=hh) n solve u j Hn Hs Hj). f_equal.
        rewrite <- gf_lin. apply trace_compat. apply mmul_compat; [apply meq_refl|].
        apply PRs. rewrite (isn_length n Hn). exact Hj. }
      rewrite gf_lin.
      rewrite (sumn_ext _ _ (fun j => sumn (2 ^ n)%nat (fun p => sumn (2 ^ n)%nat (fun m =>
                 Wm (2 ^ n)%nat A V p m * (kfold o rho_mat (nth j (isn n) []) p m * alpha_n (o:=o) (ii:=ii) (hh:=hh) n u j))))).
      2:{ intros j _. rewrite <- sumn_mul_l. apply sumn_ext; intros p _. rewrite <- sumn_mul_l.
          apply sumn_ext; intros m _. ring. }
      rewrite (sumn_swap (4 ^ n) (2 ^ n)%nat (fun j p => sumn (2 ^ n)%nat (fun m => Wm (2 ^ n)%nat A V p m * (kfold o rho_mat (nth j (isn n) []) p m * alpha_n (o:=o) (ii:=ii) (hh:=hh) n u j)))).
      apply sumn_ext. intros p Hp'.
      rewrite (sumn_swap (4 ^ n) (2 ^ n)%nat (fun j m => Wm (2 ^ n)%nat A V p m * (kfold o rho_mat (nth j (isn n) []) p m * alpha_n (o:=o) (ii:=ii) (hh:=hh) n u j))).
      apply sumn_ext. intros m Hm.
      rewrite sumn_mul_l. f_equal.
      assert (Hx : (p * (2 ^ n)%nat + m < 2 ^ n * 2 ^ n)%nat) by (pose proof (pow2_pos n); nia).
      pose proof (alpha_n_solves (o:=o) (ii:=ii) (hh:=hh) n u (p * (2 ^ n)%nat + m)%nat Hn Hx) as HA.
      unfold vec in HA.  destruct (div_mod_block' (2 ^ n)%nat p m Hm) as [E1 E2]. rewrite E1, E2 in HA.
      rewrite <- HA. apply sumn_ext. intros j Hj.
      rewrite (basis_vectors_nth (o:=o) (ii:=ii) n _ j Hj Hn). unfold vec. rewrite E1, E2. reflexivity. }
    rewrite Et. rewrite ofnat_pow2 in *.
    assert (K2 : kinv o (pow2 o n * pow2 o n * (pow2 o n + one)) = hpow n * hpow n * inv).
    { apply ui_inv. transitivity ((pow2 o n * hpow n) * (pow2 o n * hpow n) * ((pow2 o n + one) * inv)); [ring|].
      rewrite (pow2_hpow (TR:=TR)), Hinv. ring. }
    assert (K1 : kinv o (pow2 o n * (pow2 o n + one)) = hpow n * inv).
    { apply ui_inv. transitivity ((pow2 o n * hpow n) * ((pow2 o n + one) * inv)); [ring|].
      rewrite (pow2_hpow (TR:=TR)), Hinv. ring. }
    rewrite K1, K2.
    transitivity ((pow2 o n * hpow n) * ((t * conj t + pow2 o n) * (hpow n * inv))); [ring|].
    rewrite (pow2_hpow (TR:=TR)). ring.
  Qed.

  (* target = the gate itself: one *)
  Corollary gate_fidelity_same_n n solve (V : @mat K) req inv :
    1 <= n -> pinv_contract (o:=o) solve -> unitary o (2 ^ n) V -> Permutation req (req_canonical n false) ->
    (ofnat o (2 ^ n) + one) * inv = one ->
    gf_process o ii solve n req (process_ideal o ii hh n V (isn n) req) V = Ok one.
  Proof.
    intros Hn Hs [HV _] Hp Hinv. rewrite (gate_fidelity_formula_n n solve V V req inv Hn Hs HV Hp Hinv). f_equal.
    assert (Et : trace o (2 ^ n) (mmul o (2 ^ n) (madj o V) V) = pow2 o n).
    { rewrite (trace_compat _ _ _ HV). unfold trace.
      rewrite (sumn_ext _ _ (fun _ => one)) by (intros k _; unfold mid; rewrite Nat.eqb_refl; reflexivity).
      rewrite (sumn_const (TR:=TR)). ring. }
    rewrite Et, ofnat_pow2 in *.
    assert (K1 : kinv o (pow2 o n * (pow2 o n + one)) = hpow n * inv).
    { apply ui_inv. transitivity ((pow2 o n * hpow n) * ((pow2 o n + one) * inv)); [ring|].
      rewrite (pow2_hpow (TR:=TR)), Hinv. ring. }
    assert (Cp := conj_pow2 n).
    rewrite K1, Cp.
    transitivity ((pow2 o n * hpow n) * ((pow2 o n + one) * inv)); [ring|].
    rewrite (pow2_hpow (TR:=TR)), Hinv. ring.
  Qed.
End GFMain.
