(* A concrete interpretation of the named gates for theorem [emitted_denotes_source] of
   Proofs/ConvertP.v: the standard qubit-level semantics (the gate matrix applied on the named
   qubits, composed AFTER the current operator), in a SPARSE representation for which the six
   relabelling laws of ConvertP's section Denote hold with Leibniz equality, for all arguments,
   without functional extensionality.

   Basis labels are numbers [N] (bit q of the label = value of qubit q; no range limit), an
   operator is a list of entries (row label, column label, value) (V[r,c] += value), and every
   operation is a [map] / [flat_map] over the entries that relabels rows and scales values.

   [sem_laws]: the six laws.  [sem_emitted_denotes_source]: the instance of the ConvertP theorem.
   [sval_id], [sval_act1], [sval_cz], [sval_cx], [sval_sw]: the matrix entries [sval] of the
   sparse operators on labels of bit lists follow the dense block semantics of DualRailDefs
   ([lift_blk] / [swapbits] unfolded). *)
From Coq Require Import ZArith NArith List Bool Arith Lia Permutation Ring_theory Ring.
From LW Require Import Base.Sx Base.Num Base.Sums Model.Convert Model.Gates Proofs.ConvertP
  Proofs.DualRailDefs.
Import ListNotations.
Open Scope nat_scope.

(* ------------------------------------------------------------------ labels *)
(* label of a bit list: bit q of [lab b] is [nth q b false] *)
Fixpoint lab (b : list bool) : N :=
  match b with
  | [] => 0%N
  | x :: r => (2 * lab r + N.b2n x)%N
  end.

Definition setb (n : N) (q : nat) (v : bool) : N :=
  if v then N.setbit n (N.of_nat q) else N.clearbit n (N.of_nat q).
Definition tb (n : N) (q : nat) : bool := N.testbit n (N.of_nat q).
(* exchange of bits a and b *)
Definition sigma (a b : nat) (n : N) : N := setb (setb n a (tb n b)) b (tb n a).
(* flip bit x when the condition holds *)
Definition cflip (cond : bool) (x : nat) (r : N) : N :=
  if cond then setb r x (negb (tb r x)) else r.
(* bits q, q+1 := the first two entries of x *)
Definition setb2 (L : N) (q : nat) (x : list bool) : N :=
  setb (setb L q (nth 0 x false)) (q + 1) (nth 1 x false).

Lemma bool_eq_iff (a b : bool) : (a = true <-> b = true) -> a = b.
Proof.
  destruct a, b; intros [H1 H2]; try reflexivity.
  - symmetry. apply H1. reflexivity.
  - apply H2. reflexivity.
Qed.

Lemma tb_ext n m : (forall p, tb n p = tb m p) -> n = m.
Proof.
  intros H. apply N.bits_inj. intros k. specialize (H (N.to_nat k)). unfold tb in H.
  rewrite N2Nat.id in H. exact H.
Qed.

Lemma of_nat_eqb p q : N.eqb (N.of_nat p) (N.of_nat q) = Nat.eqb p q.
Proof.
  destruct (Nat.eqb_spec p q) as [->|H]; [apply N.eqb_refl|].
  apply N.eqb_neq. intros E. apply Nat2N.inj in E. contradiction.
Qed.

Lemma tb_setb n q v p : tb (setb n q v) p = if Nat.eqb p q then v else tb n p.
Proof.
  unfold tb, setb. destruct v.
  - rewrite N.setbit_eqb, of_nat_eqb, Nat.eqb_sym. destruct (p =? q); reflexivity.
  - rewrite N.clearbit_eqb, of_nat_eqb, Nat.eqb_sym.
    destruct (p =? q); cbn [negb]; [apply andb_false_r | apply andb_true_r].
Qed.

Lemma tb_lab b : forall q, tb (lab b) q = nth q b false.
Proof.
  induction b as [|x r IH]; intros q; unfold tb in *.
  - cbn [lab]. rewrite N.bits_0. destruct q; reflexivity.
  - cbn [lab]. destruct q as [|q].
    + cbn [N.of_nat nth]. apply N.testbit_0_r.
    + rewrite Nat2N.inj_succ, N.testbit_succ_r. cbn [nth]. apply IH.
Qed.

Lemma setb_setb n q a b : setb (setb n q a) q b = setb n q b.
Proof.
  apply tb_ext. intros p. rewrite !tb_setb. destruct (p =? q); reflexivity.
Qed.

Lemma setb_same n q : setb n q (tb n q) = n.
Proof.
  apply tb_ext. intros p. rewrite tb_setb. destruct (Nat.eqb_spec p q); subst; reflexivity.
Qed.

Lemma sigma_tb a b n p : tb (sigma a b n) p = tb n (transp a b p).
Proof.
  unfold sigma. rewrite !tb_setb. unfold transp.
  destruct (Nat.eqb_spec p b), (Nat.eqb_spec p a); subst; reflexivity.
Qed.

Lemma sigma_invol a b n : sigma a b (sigma a b n) = n.
Proof. apply tb_ext. intros p. rewrite !sigma_tb, transp_invol. reflexivity. Qed.

Lemma sigma_comm a b c d n : a <> c -> a <> d -> b <> c -> b <> d ->
  sigma a b (sigma c d n) = sigma c d (sigma a b n).
Proof.
  intros H1 H2 H3 H4. apply tb_ext. intros p. rewrite !sigma_tb. f_equal.
  unfold transp. eqbs_in; lia.
Qed.

Lemma transp_eqb_swap a b p q : (transp a b p =? q) = (p =? transp a b q).
Proof.
  destruct (Nat.eqb_spec (transp a b p) q) as [E|E], (Nat.eqb_spec p (transp a b q)) as [E'|E'];
    try reflexivity; exfalso.
  - apply E'. rewrite <- E, transp_invol. reflexivity.
  - apply E. rewrite E', transp_invol. reflexivity.
Qed.

Lemma sigma_setb_sigma a b r q x : sigma a b (setb (sigma a b r) q x) = setb r (transp a b q) x.
Proof.
  apply tb_ext. intros p. rewrite sigma_tb, !tb_setb, sigma_tb, transp_invol, transp_eqb_swap.
  reflexivity.
Qed.

Lemma cflip_invol C X n : C <> X ->
  cflip (tb (cflip (tb n C) X n) C) X (cflip (tb n C) X n) = n.
Proof.
  intros H. unfold cflip. destruct (tb n C) eqn:E.
  - rewrite tb_setb. destruct (Nat.eqb_spec C X); [contradiction|]. rewrite E.
    rewrite tb_setb, Nat.eqb_refl, negb_involutive, setb_setb. apply setb_same.
  - rewrite E. reflexivity.
Qed.

Lemma eqb_swap_invol (F : N -> N) : (forall n, F (F n) = n) ->
  forall r L, N.eqb (F r) L = N.eqb r (F L).
Proof.
  intros H r L.
  destruct (N.eqb_spec (F r) L) as [E|E], (N.eqb_spec r (F L)) as [E'|E'];
    try reflexivity; exfalso.
  - apply E'. rewrite <- E. symmetry. apply H.
  - apply E. rewrite E'. apply H.
Qed.

Lemma lab_cons_eqb z x u y :
  N.eqb (lab (z :: x)) (lab (u :: y)) = Bool.eqb z u && N.eqb (lab x) (lab y).
Proof.
  cbn [lab].
  destruct z, u; cbn [N.b2n Bool.eqb andb];
    destruct (N.eqb_spec (lab x) (lab y));
    match goal with |- N.eqb ?a ?b = _ => destruct (N.eqb_spec a b) end; try reflexivity; lia.
Qed.

Lemma lab_eqb a : forall b, length a = length b -> N.eqb (lab a) (lab b) = bits_eqb a b.
Proof.
  induction a as [|x a IH]; intros [|y b] H; try discriminate; [reflexivity|].
  rewrite lab_cons_eqb. cbn [bits_eqb]. rewrite IH by (cbn [length] in H; lia). reflexivity.
Qed.

(* the two agreement facts used for a single-qubit gate: [r] and [L] agree off bit q *)
Definition agree (r L : N) (q : nat) : bool := N.eqb (setb r q (tb L q)) L.

Lemma eqb_setb_l r L q x : N.eqb (setb r q x) L = Bool.eqb x (tb L q) && agree r L q.
Proof.
  apply bool_eq_iff. unfold agree. rewrite andb_true_iff, !N.eqb_eq, eqb_true_iff. split.
  - intros H. assert (Hx : x = tb L q) by (rewrite <- H, tb_setb, Nat.eqb_refl; reflexivity).
    subst x. split; [reflexivity | exact H].
  - intros [Hx H]. subst x. exact H.
Qed.

Lemma eqb_setb_r r L q x : N.eqb r (setb L q x) = Bool.eqb (tb r q) x && agree r L q.
Proof.
  apply bool_eq_iff. unfold agree. rewrite andb_true_iff, !N.eqb_eq, eqb_true_iff. split.
  - intros H. subst r. split; [rewrite tb_setb, Nat.eqb_refl; reflexivity|].
    rewrite setb_setb. apply setb_same.
  - intros [Hx H]. rewrite <- H, setb_setb. subst x. symmetry. apply setb_same.
Qed.

(* ------------------------------------------------------------------ bit lists *)
Lemma bits_In_length n : forall b, In b (bits n) -> length b = n.
Proof.
  induction n as [|n IH]; intros b H.
  - cbn in H. destruct H as [<-|[]]. reflexivity.
  - cbn [bits flat_map] in H. rewrite app_nil_r, in_app_iff, !in_map_iff in H.
    destruct H as [(x & <- & Hx)|(x & <- & Hx)]; cbn [length]; rewrite (IH x Hx); reflexivity.
Qed.

Lemma length_In_bits n : forall b, length b = n -> In b (bits n).
Proof.
  induction n as [|n IH]; intros b H.
  - destruct b; [left; reflexivity | discriminate].
  - destruct b as [|x b]; [discriminate|]. cbn [length] in H.
    cbn [bits flat_map]. rewrite app_nil_r, in_app_iff, !in_map_iff.
    destruct x; [right | left]; exists b; (split; [reflexivity | apply IH; lia]).
Qed.

Lemma bits_In_iff n b : In b (bits n) <-> length b = n.
Proof. split; [apply bits_In_length | apply length_In_bits]. Qed.

Lemma nth_firstn_lt {A} (l : list A) d : forall q p, p < q -> nth p (firstn q l) d = nth p l d.
Proof.
  induction l as [|x l IH]; intros q p H.
  - rewrite firstn_nil. reflexivity.
  - destruct q; [lia|]. destruct p; cbn [firstn nth]; [reflexivity|]. apply IH. lia.
Qed.

Lemma nth_skipn_add {A} (l : list A) d : forall k p, nth p (skipn k l) d = nth (k + p) l d.
Proof.
  induction l as [|x l IH]; intros k p.
  - rewrite skipn_nil. destruct p, (k + _); reflexivity.
  - destruct k; [reflexivity|]. rewrite skipn_cons. cbn [Nat.add nth]. apply IH.
Qed.

Lemma skipn_cons_nth {A} (l : list A) d : forall q, q < length l ->
  skipn q l = nth q l d :: skipn (S q) l.
Proof.
  induction l as [|x l IH]; intros q H; cbn [length] in H; [lia|].
  destruct q; [reflexivity|]. rewrite !skipn_cons. cbn [nth]. apply IH. lia.
Qed.

Lemma slice_1 (b : list bool) q : q < length b -> slice b q 1 = [nth q b false].
Proof. intros H. unfold slice. rewrite (skipn_cons_nth b false q) by lia. reflexivity. Qed.

Lemma slice_2 (b : list bool) q : q + 1 < length b ->
  slice b q 2 = [nth q b false; nth (q + 1) b false].
Proof.
  intros H. unfold slice. rewrite (skipn_cons_nth b false q) by lia.
  rewrite (skipn_cons_nth b false (S q)) by lia. replace (q + 1) with (S q) by lia. reflexivity.
Qed.

Lemma nth_splice {A} (b x : list A) q p d : q + length x <= length b ->
  nth p (splice b q x) d =
  if (q <=? p) && (p <? q + length x) then nth (p - q) x d else nth p b d.
Proof.
  intros H. unfold splice.
  assert (Lf : length (firstn q b) = q) by (rewrite firstn_length; lia).
  destruct (Nat.leb_spec q p) as [H1|H1]; cbn [andb].
  - rewrite app_nth2 by lia. rewrite Lf.
    destruct (Nat.ltb_spec p (q + length x)) as [H2|H2].
    + rewrite app_nth1 by lia. reflexivity.
    + rewrite app_nth2 by lia. rewrite nth_skipn_add. f_equal. lia.
  - rewrite app_nth1 by lia. apply nth_firstn_lt. exact H1.
Qed.

Lemma lab_splice_1 b q x : length x = 1 -> q < length b ->
  lab (splice b q x) = setb (lab b) q (nth 0 x false).
Proof.
  intros Hx Hq. destruct x as [|x0 [|]]; try discriminate. cbn [nth].
  apply tb_ext. intros p. rewrite tb_lab, nth_splice by (cbn [length]; lia).
  rewrite tb_setb, tb_lab. cbn [length].
  destruct (Nat.eqb_spec p q) as [->|Hp].
  - rewrite Nat.leb_refl. destruct (Nat.ltb_spec q (q + 1)); [|lia]. cbn [andb].
    rewrite Nat.sub_diag. reflexivity.
  - destruct (Nat.leb_spec q p), (Nat.ltb_spec p (q + 1)); cbn [andb]; try reflexivity; lia.
Qed.

Lemma lab_splice_2 b q x : length x = 2 -> q + 1 < length b ->
  lab (splice b q x) = setb2 (lab b) q x.
Proof.
  intros Hx Hq. destruct x as [|x0 [|x1 [|]]]; try discriminate. unfold setb2. cbn [nth].
  apply tb_ext. intros p. rewrite tb_lab, nth_splice by (cbn [length]; lia).
  rewrite !tb_setb, tb_lab. cbn [length].
  destruct (Nat.eqb_spec p (q + 1)) as [->|Hp1].
  - destruct (Nat.leb_spec q (q + 1)), (Nat.ltb_spec (q + 1) (q + 2)); try lia. cbn [andb].
    replace (q + 1 - q) with 1 by lia. reflexivity.
  - destruct (Nat.eqb_spec p q) as [->|Hp].
    + rewrite Nat.leb_refl. destruct (Nat.ltb_spec q (q + 2)); [|lia]. cbn [andb].
      rewrite Nat.sub_diag. reflexivity.
    + destruct (Nat.leb_spec q p), (Nat.ltb_spec p (q + 2)); cbn [andb]; try reflexivity; lia.
Qed.

Lemma nth_map_seq {A} (f : nat -> A) d n p : p < n -> nth p (map f (seq 0 n)) d = f p.
Proof.
  intros H. rewrite (nth_indep _ d (f 0)) by (rewrite map_length, seq_length; lia).
  rewrite map_nth, seq_nth by lia. reflexivity.
Qed.

Lemma nth_swapbits qa qb b p : qa < length b -> qb < length b ->
  nth p (swapbits qa qb b) false = nth (transp qa qb p) b false.
Proof.
  intros Ha Hb. unfold swapbits. destruct (Nat.lt_ge_cases p (length b)) as [Hp|Hp].
  - apply (nth_map_seq (fun p => nth (transp qa qb p) b false)). exact Hp.
  - rewrite nth_overflow by (rewrite map_length, seq_length; lia).
    assert (E : transp qa qb p = p) by (unfold transp; eqbs_in; lia).
    rewrite E, nth_overflow by lia. reflexivity.
Qed.

Lemma lab_swapbits qa qb b : qa < length b -> qb < length b ->
  lab (swapbits qa qb b) = sigma qa qb (lab b).
Proof.
  intros Ha Hb. apply tb_ext. intros p.
  rewrite sigma_tb, !tb_lab. apply nth_swapbits; assumption.
Qed.

Lemma forallb_perm {A} (f : A -> bool) l l' : Permutation l l' -> forallb f l = forallb f l'.
Proof.
  induction 1 as [|x l l' _ IH|x y l|l l' l'' _ IH1 _ IH2]; cbn [forallb].
  - reflexivity.
  - rewrite IH. reflexivity.
  - rewrite !andb_assoc, (andb_comm (f y)). reflexivity.
  - rewrite IH1. exact IH2.
Qed.

Lemma forallb_sigma a b r l : forallb (tb (sigma a b r)) l = forallb (tb r) (map (transp a b) l).
Proof.
  induction l as [|x l IH]; cbn [forallb map]; [reflexivity|].
  rewrite IH, sigma_tb. reflexivity.
Qed.

Lemma map_flat_map {A B C} (f : B -> C) (g : A -> list B) l :
  map f (flat_map g l) = flat_map (fun x => map f (g x)) l.
Proof. induction l as [|a l IH]; cbn [flat_map map]; [reflexivity|]. rewrite map_app, IH. reflexivity. Qed.

Lemma flat_map_map {A B C} (f : A -> B) (g : B -> list C) l :
  flat_map g (map f l) = flat_map (fun x => g (f x)) l.
Proof. induction l as [|a l IH]; cbn [flat_map map]; [reflexivity|]. rewrite IH. reflexivity. Qed.

(* ------------------------------------------------------------------ the interpretation *)
Section Sem.
  Context {T : Type} (t : ops T) {SR : StarRing t}.
  Let R := sr_ring (o:=t).
  Add Ring SemR : R.

  (* m1 g i b' b : entry of the 2x2 matrix of the single-qubit / rotation instruction
     (g, parameter index i); b', b in [bits 1] *)
  Variable m1 : gname -> nat -> qmat T.

  (* entries (row label, column label, value): V[r,c] += value *)
  Definition sst : Type := list (N * N * T).

  Definition sval (s : sst) (r c : N) : T :=
    suml t s (fun e => if (N.eqb (fst (fst e)) r && N.eqb (snd (fst e)) c) then snd e else k0 t).
  Definition s_id (nq : nat) : sst := map (fun b => (lab b, lab b, k1 t)) (bits nq).

  Definition ssw (a b : nat) (s : sst) : sst :=
    map (fun e => (sigma a b (fst (fst e)), snd (fst e), snd e)) s.

  (* (G V)[r',c] = sum_r G[r',r] V[r,c]: the entry (r,c,v) contributes to the rows r' = r with
     qubit q set to x, with the coefficient M[x, r_q] *)
  Definition sact1 (g : gname) (i q : nat) (s : sst) : sst :=
    flat_map (fun e =>
       [ (setb (fst (fst e)) q false, snd (fst e),
          kmul t (m1 g i [false] [tb (fst (fst e)) q]) (snd e));
         (setb (fst (fst e)) q true, snd (fst e),
          kmul t (m1 g i [true] [tb (fst (fst e)) q]) (snd e)) ]) s.

  Definition sact_other (g : gname) (i : nat) (qs : list nat) (s : sst) : sst :=
    match qs with
    | [q] => if is_single g || is_rot g then sact1 g i q s else s
    | _ => s
    end.

  Definition sact (g : gname) (i : nat) (qs : list nat) (s : sst) : sst :=
    match g with
    | Gswap => match qs with [a; b] => ssw a b s | _ => s end
    | Gcz =>
        match qs with
        | [a; b] =>
            map (fun e => (fst (fst e), snd (fst e),
                           if tb (fst (fst e)) a && tb (fst (fst e)) b
                           then kopp t (snd e) else snd e)) s
        | _ => s
        end
    | Gccz =>
        map (fun e => (fst (fst e), snd (fst e),
                       if forallb (tb (fst (fst e))) qs then kopp t (snd e) else snd e)) s
    | Gcx =>
        match qs with
        | [c; x] =>
            map (fun e => (cflip (tb (fst (fst e)) c) x (fst (fst e)), snd (fst e), snd e)) s
        | _ => s
        end
    | Gccx =>
        match qs with
        | [a; b; x] =>
            map (fun e => (cflip (tb (fst (fst e)) a && tb (fst (fst e)) b) x (fst (fst e)),
                           snd (fst e), snd e)) s
        | _ => s
        end
    | _ => sact_other g i qs s
    end.

  Lemma sact_single g i q s : is_single g = true \/ is_rot g = true ->
    sact g i [q] s = sact1 g i q s.
  Proof. intros [H|H]; destruct g; try discriminate H; reflexivity. Qed.

  (* ---------------------------------------------------------------- the six laws *)
  Lemma ssw_invol a b s : ssw a b (ssw a b s) = s.
  Proof.
    unfold ssw. rewrite map_map. rewrite <- (map_id s) at 2. apply map_ext.
    intros [[r c] v]. cbn [fst snd]. rewrite sigma_invol. reflexivity.
  Qed.

  Lemma ssw_comm a b c d s : a <> c -> a <> d -> b <> c -> b <> d ->
    ssw a b (ssw c d s) = ssw c d (ssw a b s).
  Proof.
    intros H1 H2 H3 H4. unfold ssw. rewrite !map_map. apply map_ext.
    intros [[r c0] v]. cbn [fst snd]. rewrite sigma_comm by assumption. reflexivity.
  Qed.

  Lemma sact1_conj a b g i q s :
    ssw a b (sact1 g i q (ssw a b s)) = sact1 g i (transp a b q) s.
  Proof.
    unfold sact1, ssw. rewrite flat_map_map, map_flat_map. apply flat_map_ext.
    intros [[r c] v]. cbn [fst snd map]. rewrite !sigma_setb_sigma, !sigma_tb. reflexivity.
  Qed.

  Lemma sact_other_conj a b g i qs s :
    ssw a b (sact_other g i qs (ssw a b s)) = sact_other g i (map (transp a b) qs) s.
  Proof.
    destruct qs as [|q [|q2 r]]; cbn [map sact_other]; try apply ssw_invol.
    destruct (is_single g || is_rot g); [apply sact1_conj | apply ssw_invol].
  Qed.

  Lemma sact_conj a b g i qs s :
    ssw a b (sact g i qs (ssw a b s)) = sact g i (map (transp a b) qs) s.
  Proof.
    destruct g; try apply sact_other_conj.
    - (* Gcx *)
      destruct qs as [|c [|x [|z r]]]; cbn [sact map]; try apply ssw_invol.
      unfold ssw. rewrite !map_map. apply map_ext. intros [[r c0] v]. cbn [fst snd].
      unfold cflip. rewrite !sigma_tb.
      destruct (tb r (transp a b c)); [rewrite sigma_setb_sigma | rewrite sigma_invol]; reflexivity.
    - (* Gcz *)
      destruct qs as [|x [|y [|z r]]]; cbn [sact map]; try apply ssw_invol.
      unfold ssw. rewrite !map_map. apply map_ext. intros [[r c0] v]. cbn [fst snd].
      rewrite sigma_invol, !sigma_tb. reflexivity.
    - (* Gswap *)
      destruct qs as [|x [|y [|z r]]]; cbn [sact map]; try apply ssw_invol.
      unfold ssw. rewrite !map_map. apply map_ext. intros [[r c0] v]. cbn [fst snd].
      f_equal. f_equal. apply tb_ext. intros p. rewrite !sigma_tb. f_equal. apply transp_conj.
    - (* Gccx *)
      destruct qs as [|x [|y [|z [|w r]]]]; cbn [sact map]; try apply ssw_invol.
      unfold ssw. rewrite !map_map. apply map_ext. intros [[r c0] v]. cbn [fst snd].
      unfold cflip. rewrite !sigma_tb.
      destruct (tb r (transp a b x) && tb r (transp a b y));
        [rewrite sigma_setb_sigma | rewrite sigma_invol]; reflexivity.
    - (* Gccz *)
      cbn [sact]. unfold ssw. rewrite !map_map. apply map_ext. intros [[r c0] v]. cbn [fst snd].
      rewrite sigma_invol, forallb_sigma. reflexivity.
  Qed.

  Lemma sem_laws :
    (forall a b c d s, a <> c -> a <> d -> b <> c -> b <> d ->
       ssw a b (ssw c d s) = ssw c d (ssw a b s)) /\
    (forall a b g i qs s, ssw a b (sact g i qs (ssw a b s)) = sact g i (map (transp a b) qs) s) /\
    (forall i a b s, sact Gswap i [a; b] s = ssw a b s) /\
    (forall i a b s, sact Gcz i [a; b] s = sact Gcz i [b; a] s) /\
    (forall i l l' s, Permutation l l' -> sact Gccz i l s = sact Gccz i l' s) /\
    (forall i a b x s, sact Gccx i [a; b; x] s = sact Gccx i [b; a; x] s).
  Proof.
    split; [exact ssw_comm|]. split; [exact sact_conj|]. split; [reflexivity|].
    split; [|split].
    - intros i a b s. cbn [sact]. apply map_ext. intros e. rewrite andb_comm. reflexivity.
    - intros i l l' s H. cbn [sact]. apply map_ext. intros e.
      rewrite (forallb_perm _ l l' H). reflexivity.
    - intros i a b x s. cbn [sact]. apply map_ext. intros e. rewrite andb_comm. reflexivity.
  Qed.

  Theorem sem_emitted_denotes_source allow gs ops rules s :
    Forall (fun g => NoDup (g_qubits g)) gs ->
    convert allow gs = Ok (ops, rules) ->
    run_ops sst sact ssw ops s = run_src sst sact 0 gs s.
  Proof.
    destruct sem_laws as (L1 & L2 & L3 & L4 & L5 & L6).
    apply (emitted_denotes_source sst sact ssw L1 L2 L3 L4 L5 L6).
  Qed.

  (* ---------------------------------------------------------------- matrix entries *)
  (* the contribution of one entry to V[r,c] *)
  Definition ent (r c : N) (e : N * N * T) : T :=
    if N.eqb (fst (fst e)) r && N.eqb (snd (fst e)) c then snd e else k0 t.

  Lemma sval_ent s r c : sval s r c = suml t s (ent r c).
  Proof. reflexivity. Qed.

  Lemma sem_suml_map {A B} (h : A -> B) l (f : B -> T) :
    suml t (map h l) f = suml t l (fun a => f (h a)).
  Proof. induction l as [|a l IH]; cbn [map suml fold_right]; [reflexivity|]. unfold suml in IH. rewrite IH. reflexivity. Qed.

  Lemma sem_suml_flat_map {A B} (h : A -> list B) l (f : B -> T) :
    suml t (flat_map h l) f = suml t l (fun a => suml t (h a) f).
  Proof.
    induction l as [|a l IH]; cbn [flat_map]; [reflexivity|].
    rewrite suml_app, IH. reflexivity.
  Qed.

  Lemma sval_lin {A} (l : list A) (M : A -> T) (Rw : A -> N) s c :
    suml t l (fun x => kmul t (M x) (sval s (Rw x) c)) =
    suml t s (fun e => suml t l (fun x => kmul t (M x) (ent (Rw x) c e))).
  Proof.
    transitivity (suml t l (fun x => suml t s (fun e => kmul t (M x) (ent (Rw x) c e)))).
    - apply suml_ext. intros x _. symmetry. exact (suml_mul_l s (M x) (ent (Rw x) c)).
    - apply suml_swap.
  Qed.

  (* a sum over all bit lists with the indicator of one label *)
  Lemma suml_bits_pick n : forall (y : list bool) (f : list bool -> T), length y = n ->
    suml t (bits n) (fun x => if N.eqb (lab x) (lab y) then f x else k0 t) = f y.
  Proof.
    induction n as [|n IH]; intros y f Hy.
    - destruct y; [|discriminate]. cbn. ring.
    - destruct y as [|u y]; [discriminate|]. cbn [length] in Hy. injection Hy as Hy.
      cbn [bits flat_map]. rewrite app_nil_r, suml_app, !sem_suml_map. cbv beta.
      assert (E : forall z,
                 suml t (bits n) (fun x => if N.eqb (lab (z :: x)) (lab (u :: y))
                                           then f (z :: x) else k0 t) =
                 if Bool.eqb z u then f (z :: y) else k0 t).
      { intros z. destruct (Bool.eqb z u) eqn:Ez.
        - rewrite <- (IH y (fun x => f (z :: x)) Hy). apply suml_ext. intros x _.
          rewrite lab_cons_eqb, Ez. reflexivity.
        - transitivity (suml t (bits n) (fun _ => k0 t)); [|apply suml_zero].
          apply suml_ext. intros x _. rewrite lab_cons_eqb, Ez. reflexivity. }
      rewrite !E. destruct u; cbn [Bool.eqb]; ring.
  Qed.

  Lemma sval_id nq b b' : In b (bits nq) -> In b' (bits nq) ->
    sval (s_id nq) (lab b') (lab b) = delta t b' b.
  Proof.
    intros Hb Hb'. apply bits_In_length in Hb, Hb'. unfold sval, s_id.
    rewrite sem_suml_map. cbn [fst snd].
    transitivity (suml t (bits nq)
                    (fun x => if N.eqb (lab x) (lab b')
                              then (if N.eqb (lab x) (lab b) then k1 t else k0 t) else k0 t)).
    { apply suml_ext. intros x _.
      destruct (N.eqb (lab x) (lab b')), (N.eqb (lab x) (lab b)); reflexivity. }
    rewrite (suml_bits_pick nq b' (fun x => if N.eqb (lab x) (lab b) then k1 t else k0 t) Hb').
    unfold delta. rewrite lab_eqb by lia. reflexivity.
  Qed.

  (* single-qubit gate, one entry *)
  Lemma act1_entry (M : qmat T) L q c r c0 v :
    kadd t (ent L c (setb r q false, c0, kmul t (M [false] [tb r q]) v))
      (kadd t (ent L c (setb r q true, c0, kmul t (M [true] [tb r q]) v)) (k0 t)) =
    suml t (bits 1)
      (fun x => kmul t (M [tb L q] x) (ent (setb L q (nth 0 x false)) c (r, c0, v))).
  Proof.
    unfold suml. cbn [bits flat_map map app fold_right nth]. unfold ent. cbn [fst snd].
    rewrite (eqb_setb_l r L q false), (eqb_setb_l r L q true).
    rewrite (eqb_setb_r r L q false), (eqb_setb_r r L q true).
    destruct (tb L q), (tb r q), (agree r L q), (N.eqb c0 c); cbn [Bool.eqb andb]; ring.
  Qed.

  Lemma sval_act1 g i q nq s b' c :
    is_single g = true \/ is_rot g = true -> q < nq -> In b' (bits nq) ->
    sval (sact g i [q] s) (lab b') c =
    suml t (bits 1)
      (fun x => kmul t (m1 g i (slice b' q 1) x) (sval s (lab (splice b' q x)) c)).
  Proof.
    intros Hg Hq Hb. apply bits_In_length in Hb. rewrite sact_single by exact Hg.
    rewrite sval_lin. etransitivity; [apply sval_ent|]. unfold sact1.
    rewrite sem_suml_flat_map. apply suml_ext. intros [[r c0] v] _. cbn [fst snd].
    unfold suml at 1. cbn [fold_right]. rewrite slice_1 by lia. rewrite <- (tb_lab b' q).
    rewrite (act1_entry (m1 g i) (lab b') q c r c0 v).
    apply suml_ext. intros x Hx. apply bits_In_length in Hx.
    rewrite (lab_splice_1 b' q x) by lia. reflexivity.
  Qed.

  (* CZ, one entry *)
  Lemma cz_entry L q c r c0 v :
    ent L c (r, c0, if tb r q && tb r (q + 1) then kopp t v else v) =
    suml t (bits 2)
      (fun x => kmul t (spec_CZ t [tb L q; tb L (q + 1)] x) (ent (setb2 L q x) c (r, c0, v))).
  Proof.
    assert (EL : setb2 L q [tb L q; tb L (q + 1)] = L).
    { unfold setb2. cbn [nth]. rewrite (setb_same L q). apply setb_same. }
    unfold suml. cbn [bits flat_map map app fold_right]. unfold setb2 in *. cbn [nth] in *.
    revert EL. destruct (tb L q) eqn:U0, (tb L (q + 1)) eqn:U1; intros EL;
      unfold spec_CZ, delta, bit; cbn [bits_eqb nth Bool.eqb andb]; rewrite EL;
      unfold ent; cbn [fst snd];
      (destruct (N.eqb_spec r L) as [->|Hr]; cbn [andb];
       [rewrite U0, U1; cbn [andb]; destruct (N.eqb c0 c) | ]; ring).
  Qed.

  Lemma sval_cz i q nq s b' c : q + 1 < nq -> In b' (bits nq) ->
    sval (sact Gcz i [q; q + 1] s) (lab b') c =
    suml t (bits 2)
      (fun x => kmul t (spec_CZ t (slice b' q 2) x) (sval s (lab (splice b' q x)) c)).
  Proof.
    intros Hq Hb. apply bits_In_length in Hb. rewrite sval_lin.
    etransitivity; [apply sval_ent|]. cbn [sact]. rewrite sem_suml_map.
    apply suml_ext. intros [[r c0] v] _. cbn [fst snd].
    rewrite slice_2 by lia. rewrite <- (tb_lab b' q), <- (tb_lab b' (q + 1)).
    rewrite (cz_entry (lab b') q c r c0 v).
    apply suml_ext. intros x Hx. apply bits_In_length in Hx.
    rewrite (lab_splice_2 b' q x) by lia. reflexivity.
  Qed.

  (* CNOT, one entry *)
  Lemma ent_cflip C X L c r c0 v : C <> X ->
    ent L c (cflip (tb r C) X r, c0, v) = ent (cflip (tb L C) X L) c (r, c0, v).
  Proof.
    intros H. unfold ent. cbn [fst snd].
    pose proof (eqb_swap_invol (fun n => cflip (tb n C) X n)
                  (fun n => cflip_invol C X n H) r L) as E.
    cbv beta in E. rewrite E. reflexivity.
  Qed.

  Lemma cx_entry tq L q c r c0 v : tq <= 1 ->
    ent L c (cflip (tb r (q + (1 - tq))) (q + tq) r, c0, v) =
    suml t (bits 2)
      (fun x => kmul t (spec_CNOT t tq [tb L q; tb L (q + 1)] x)
                  (ent (setb2 L q x) c (r, c0, v))).
  Proof.
    intros Htq. rewrite ent_cflip by lia.
    destruct tq as [|[|tq]]; [| |lia]; cbn [Nat.sub].
    - replace (q + 0) with q by lia.
      assert (EL : setb2 L q [if tb L (q + 1) then negb (tb L q) else tb L q; tb L (q + 1)] =
                   cflip (tb L (q + 1)) q L).
      { unfold setb2, cflip. cbn [nth]. apply tb_ext. intros p.
        destruct (tb L (q + 1)) eqn:U1; rewrite !tb_setb;
          destruct (Nat.eqb_spec p (q + 1)), (Nat.eqb_spec p q); subst; try lia; congruence. }
      unfold suml. cbn [bits flat_map map app fold_right]. unfold setb2 in *. cbn [nth] in *.
      revert EL. destruct (tb L q) eqn:U0, (tb L (q + 1)) eqn:U1; intros EL;
        unfold spec_CNOT, delta, bit;
        cbn [bits_eqb nth flip_bit negb Bool.eqb andb Nat.sub] in *; rewrite <- EL; ring.
    - replace (q + 0) with q by lia.
      assert (EL : setb2 L q [tb L q; if tb L q then negb (tb L (q + 1)) else tb L (q + 1)] =
                   cflip (tb L q) (q + 1) L).
      { unfold setb2, cflip. cbn [nth]. apply tb_ext. intros p.
        destruct (tb L q) eqn:U0; rewrite !tb_setb;
          destruct (Nat.eqb_spec p (q + 1)), (Nat.eqb_spec p q); subst; try lia; congruence. }
      unfold suml. cbn [bits flat_map map app fold_right]. unfold setb2 in *. cbn [nth] in *.
      revert EL. destruct (tb L q) eqn:U0, (tb L (q + 1)) eqn:U1; intros EL;
        unfold spec_CNOT, delta, bit;
        cbn [bits_eqb nth flip_bit negb Bool.eqb andb Nat.sub] in *; rewrite <- EL; ring.
  Qed.

  Lemma sval_cx i q tq nq s b' c : tq <= 1 -> q + 1 < nq -> In b' (bits nq) ->
    sval (sact Gcx i [q + (1 - tq); q + tq] s) (lab b') c =
    suml t (bits 2)
      (fun x => kmul t (spec_CNOT t tq (slice b' q 2) x) (sval s (lab (splice b' q x)) c)).
  Proof.
    intros Htq Hq Hb. apply bits_In_length in Hb. rewrite sval_lin.
    etransitivity; [apply sval_ent|]. cbn [sact]. rewrite sem_suml_map.
    apply suml_ext. intros [[r c0] v] _. cbn [fst snd].
    rewrite slice_2 by lia. rewrite <- (tb_lab b' q), <- (tb_lab b' (q + 1)).
    rewrite (cx_entry tq (lab b') q c r c0 v Htq).
    apply suml_ext. intros x Hx. apply bits_In_length in Hx.
    rewrite (lab_splice_2 b' q x) by lia. reflexivity.
  Qed.

  Lemma sval_sw qa qb nq s b' c : qa < nq -> qb < nq -> In b' (bits nq) ->
    sval (ssw qa qb s) (lab b') c = sval s (lab (swapbits qa qb b')) c.
  Proof.
    intros Ha Hb Hb'. apply bits_In_length in Hb'. rewrite !sval_ent. unfold ssw.
    rewrite sem_suml_map. apply suml_ext. intros [[r c0] v] _. unfold ent. cbn [fst snd].
    rewrite lab_swapbits by lia.
    rewrite (eqb_swap_invol (sigma qa qb) (sigma_invol qa qb)). reflexivity.
  Qed.
End Sem.
