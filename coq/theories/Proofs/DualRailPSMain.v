(* The post-selection theorems in the form quoted by Properties/C12.v (heralds inserted by
   add_heralds_to_state), and the counting facts about the outputs of a post-selected gate. *)
From Coq Require Import ZArith NArith List Bool Arith Lia Permutation.
From LW Require Import Base.Sx Base.Num Base.Sums Base.Mat Model.State Model.Circuit Model.World Model.Fock Model.Gates
     Model.Convert Proofs.PermP Proofs.DisplayP Proofs.WiringMat Proofs.GatesP Proofs.ConvertP
     Proofs.DualRailDefs Proofs.DualRailFull Proofs.DualRailP Proofs.DualRailPSStep Proofs.DualRailPS.
Import ListNotations.
Open Scope nat_scope.

(* k photons on k mode pairs, at most one pair count different from 1: a dual-rail state.
   (So a non-dual-rail output of a post-selected k-qubit gate that conserves the photon number has
   a wrong count on at least TWO of its qubits: (2,0) or (0,2) for CZ / CNOT.) *)
Theorem postselected_leak_counts k w : length w = 2 * k -> osum w = k ->
  (forall i j, i < k -> j < k -> i <> j -> cnt w i = 1 \/ cnt w j = 1) ->
  exists b', In b' (bits k) /\ w = drn b'.
Proof.
  intros Hl Hs H. destruct (all_one_dr k w Hl (at_most_one_bad k w Hl Hs H)) as (b' & Lb & E).
  exists b'. split; [apply in_bits_length; exact Lb|exact E].
Qed.

Section PSMain.
  Context {K : Type} (o : ops K) {SRK : StarRing o} {ZMK : ZMorph o}.
  Notation T := (K * K)%type.
  Notation cq := (co o).
  Notation circ := (@circ K).
  Variable ninv : nat -> T.
  Hypothesis ninv_spec : forall k, 0 < k -> kmul cq (kofnat cq k) (ninv k) = k1 cq.

  Theorem dual_rail_step_ps (e : env (K:=K)) (c sub c' : circ) (nq q k : nat) (Kc kG : T) (V M : qmat T)
          (g lf : bool) (Dd Dd' : nat -> bool) :
    accepts_dual_rail o e c nq Kc V Dd -> gate_tab o e sub k kG M lf -> q + k <= nq ->
    (lf = true \/ forall i j, i < k -> j < k -> i <> j -> Dd' (q + i) = true \/ Dd' (q + j) = true) ->
    (forall p, p < nq -> p < q \/ q + k <= p -> Dd p = true -> Dd' p = true) ->
    (forall i, i < k -> Dd (q + i) = true -> blk_kill o e sub k q Dd' i) ->
    (exists c0, op_add o c sub (Z.of_nat (2 * q)) g = Ok c0) /\
    (op_add o c sub (Z.of_nat (2 * q)) g = Ok c' ->
     accepts_dual_rail o e c' nq (kmul cq Kc kG) (lift_blk cq M q k V) Dd').
  Proof.
    intros HA Htab Hq Hlf Hs Hb. apply accepts_iff in HA. split.
    - pose proof HA as (Sh & _). pose proof Htab as (_ & _ & Hk & HnS & _).
      exact (block_accept o c sub nq q k g Sh HnS Hk Hq).
    - intros Hadd. apply accepts_iff.
      exact (block_step_ps o ninv ninv_spec e c sub c' nq q k Kc kG V M g lf Dd Dd' HA Htab Hq Hlf Hs Hb Hadd).
  Qed.

  (* a gate circuit whose heralds carry the same photons in and out conserves the photon number *)
  Theorem gate_conserves (e : env (K:=K)) (sub : circ) (k : nat) (US : @mat T) (v w xs ys : list nat) :
    WFH sub -> c_n sub = 2 * k + length (c_in sub) -> length (c_in sub) = length (c_out sub) ->
    dvals (c_out sub) = dvals (c_in sub) -> length v = 2 * k -> length w = 2 * k ->
    full_st (c_n sub) 0 (c_in sub) v xs -> full_st (c_n sub) 0 (c_out sub) w ys ->
    osum w <> osum v -> amp_perm cq US xs ys = k0 cq.
  Proof.
    intros (WFs & N1 & N2) Hn Hl Hv Lv Lw Fx Fy Hne.
    assert (B1 : forall i, In i (dkeys (c_in sub)) -> i < c_n sub) by (intros i; apply lt_all_in', WFs).
    assert (B2 : forall i, In i (dkeys (c_out sub)) -> i < c_n sub) by (intros i; apply lt_all_in', WFs).
    unfold amp_perm. apply perm_ml_length. rewrite !expand_length.
    rewrite (full_st_osum _ _ _ _ _ Fx N1 B1) by (rewrite vis_length by assumption; unfold dkeys; rewrite map_length; lia).
    rewrite (full_st_osum _ _ _ _ _ Fy N2 B2) by (rewrite vis_length by assumption; unfold dkeys; rewrite map_length; lia).
    rewrite Hv. lia.
  Qed.
End PSMain.
