(* C12 with post-selection, instantiated in the exact number field of the post-selected gates
   (tower A of Base/NumField.v: Q(sqrt 2, sqrt 3, sqrt 7)(i); CZ, CNOT, CCZ, CCNOT of C13), for the
   programs whose emitted multi-qubit gates are all post-selected, and a computed example:
   h(0); cx(0,1); cx(1,2) on three qubits with allow_post_selection = True. *)
From Coq Require Import ZArith NArith List Bool Arith Lia Permutation Ring_theory Ring QArith Qcanon.
From LW Require Import Base.Sx Base.Num Base.Sums Base.Mat Base.QI2 Base.NumField Model.State Model.Circuit Model.World
     Model.Fock Model.Gates Model.Display Model.Convert Proofs.PermP Proofs.FockUnitP Proofs.DisplayP Proofs.WiringMat Proofs.WiringP
     Proofs.WiringAmpP Proofs.GatesP Proofs.ConvertP
     Proofs.DualRailDefs Proofs.DualRailSem Proofs.DualRailFull Proofs.DualRailP Proofs.DualRailConv Proofs.DualRailB
     Proofs.DualRailPSStep Proofs.DualRailPS Proofs.DualRailPSConv.
Import ListNotations.
Open Scope nat_scope.

(* ---- canonical integers and 1/k in tower A ---- *)
Global Instance oA1_zmorph : ZMorph oA1 := qext_zmorph qcops _.
Global Instance oA2_zmorph : ZMorph oA2 := qext_zmorph oA1 _.
Global Instance oA_zmorph : ZMorph oA := qext_zmorph oA2 _.

Definition rinvA1 (k : nat) : KA1 := (qrinv k, k0 qcops).
Definition rinvA2 (k : nat) : KA2 := (rinvA1 k, k0 oA1).
Definition rinvA (k : nat) : KA := (rinvA2 k, k0 oA2).
Definition ninvA (k : nat) : TA := (rinvA k, k0 oA).

Lemma ninvA_spec k : 0 < k -> kmul (co oA) (kofnat (co oA) k) (ninvA k) = k1 (co oA).
Proof.
  intros Hk. apply (cplx_rinv oA rinvA); [|exact Hk].
  intros k0 Hk0. apply (qext_rinv oA2 (kofZ oA2 7) rinvA2); [|exact Hk0].
  intros k1 Hk1. apply (qext_rinv oA1 (kofZ oA1 3) rinvA1); [|exact Hk1].
  intros k2 Hk2. apply (qext_rinv qcops (qq 2 1) qrinv qrinv_spec). exact Hk2.
Qed.

Lemma a_h_half : kmul oA a_h a_h = kq oA 1 2.
Proof. apply (by_eqb oA). vm_compute. reflexivity. Qed.

(* ---- the post-selected gates: structure (boolean check) and table (C13) give [gate_tab] ---- *)
Lemma gate_tab_of_check (gt : @gate KA) k kG M :
  build oA (env0 oA) (g_circ gt) = Ok (g_dim gt, g_U gt) -> struct_ok k (Ok gt) = true -> 1 <= k ->
  (forall b b', In b (bits k) -> In b' (bits k) -> sim_amp oA gt (dr b) (dr b') = Ok (kmul cA kG (M b' b), 1)) ->
  gate_tab oA (env0 oA) (g_circ gt) k kG M false.
Proof.
  intros Hg Hs Hk Hc. unfold struct_ok in Hs. cbv zeta in Hs.
  do 8 (apply andb_true_iff in Hs as [Hs ?]).
  apply (gate_tab_of_c13 oA (env0 oA) gt k kG M Hc).
  - split; [apply wf_check_sound; assumption|]. split; apply nodupb_nodup; assumption.
  - apply swndb_spec_sound. assumption.
  - exact Hk.
  - apply Nat.eqb_eq. assumption.
  - apply Nat.eqb_eq. assumption.
  - apply dict_vals_eqb_eq. assumption.
  - intros kv Hkv. match goal with H : forallb _ (c_in _) = true |- _ => rewrite forallb_forall in H; specialize (H kv Hkv) end.
    apply Nat.leb_le. assumption.
  - rewrite Hg. f_equal. f_equal. apply Nat.eqb_eq. assumption.
Qed.

Lemma ps_gate_tab (g : res (@gate KA)) k kG M :
  check_table oA g k kG M = true -> struct_ok k g = true -> 1 <= k ->
  (forall gt, g = Ok gt -> build oA (env0 oA) (g_circ gt) = Ok (g_dim gt, g_U gt)) ->
  exists gt, g = Ok gt /\ gate_tab oA (env0 oA) (g_circ gt) k kG M false.
Proof.
  intros Ht Hs Hk Hb. destruct (check_table_sound oA g k kG M Ht) as (gt & Hg & Htab).
  exists gt. split; [exact Hg|]. rewrite Hg in Hs. exact (gate_tab_of_check gt k kG M (Hb gt Hg) Hs Hk Htab).
Qed.

Lemma struct_CZ : struct_ok 2 (gate_CZ oA a_r2 a_r3i) = true. Proof. vm_compute. reflexivity. Qed.
Lemma struct_CNOT0 : struct_ok 2 (gate_CNOT oA a_h a_r2 a_r3i 0%Z) = true. Proof. vm_compute. reflexivity. Qed.
Lemma struct_CNOT1 : struct_ok 2 (gate_CNOT oA a_h a_r2 a_r3i 1%Z) = true. Proof. vm_compute. reflexivity. Qed.
Lemma struct_CCZ : struct_ok 3 (gate_CCZ oA a_h a_r2 a_r3i a_r7) = true. Proof. vm_compute. reflexivity. Qed.
Lemma struct_CCNOT0 : struct_ok 3 (gate_CCNOT oA a_h a_r2 a_r3i a_r7 0%Z) = true. Proof. vm_compute. reflexivity. Qed.
Lemma struct_CCNOT1 : struct_ok 3 (gate_CCNOT oA a_h a_r2 a_r3i a_r7 1%Z) = true. Proof. vm_compute. reflexivity. Qed.
Lemma struct_CCNOT2 : struct_ok 3 (gate_CCNOT oA a_h a_r2 a_r3i a_r7 2%Z) = true. Proof. vm_compute. reflexivity. Qed.

Lemma build_CZ gt : gate_CZ oA a_r2 a_r3i = Ok gt -> build oA (env0 oA) (g_circ gt) = Ok (g_dim gt, g_U gt).
Proof. unfold gate_CZ. apply compile_gate_build. Qed.
Lemma build_CNOT tq gt : gate_CNOT oA a_h a_r2 a_r3i tq = Ok gt -> build oA (env0 oA) (g_circ gt) = Ok (g_dim gt, g_U gt).
Proof. unfold gate_CNOT. apply compile_gate_build. Qed.
Lemma build_CCZ gt : gate_CCZ oA a_h a_r2 a_r3i a_r7 = Ok gt -> build oA (env0 oA) (g_circ gt) = Ok (g_dim gt, g_U gt).
Proof. unfold gate_CCZ. apply compile_gate_build. Qed.
Lemma build_CCNOT tq gt : gate_CCNOT oA a_h a_r2 a_r3i a_r7 tq = Ok gt -> build oA (env0 oA) (g_circ gt) = Ok (g_dim gt, g_U gt).
Proof. unfold gate_CCNOT. apply compile_gate_build. Qed.

(* the scalars: -1/3 for CZ / CNOT, i sqrt 2 / 12 for CCZ / CCNOT (C13) *)
Definition kofA (op : eop) : TA :=
  match op with
  | ECZ false _ | ECX false _ _ => kA_cz
  | ECCZ _ | ECCX _ _ => kA_ccz
  | _ => k0 cA
  end.
Definition wofA (op : eop) : TA :=
  match op with
  | ECZ false _ | ECX false _ _ => kofZ cA 9
  | ECCZ _ | ECCX _ _ => kofZ cA 72
  | _ => k1 cA
  end.

(* an operation emitted when every multi-qubit gate is post-selected *)
Definition op_postselected (op : eop) : Prop :=
  match op with ECZ true _ | ECX true _ _ => False | _ => True end.

Notation gate_of_A ang := (gate_of oA a_h a_r2 a_r3i (k0 oA) (k0 oA) a_r7 ang).
Notation run_emitted_A ang := (run_emitted oA a_h a_r2 a_r3i (k0 oA) (k0 oA) a_r7 ang).

Lemma op_fact_A ang op : op_postselected op -> op_fact oA a_h a_r2 a_r3i (k0 oA) (k0 oA) a_r7 ang kofA op.
Proof.
  destruct op as [g i m|r a0 a1 b0 b1|[|] m|[|] t m|m|t m]; cbn [op_postselected op_fact]; try tauto; intros _.
  - exact (ps_gate_tab _ 2 kA_cz (spec_CZ cA) tab_CZ struct_CZ ltac:(lia) build_CZ).
  - intros Ht. destruct t as [|[|t]]; [| |lia].
    + exact (ps_gate_tab _ 2 kA_cz (spec_CNOT cA 0) tab_CNOT0 struct_CNOT0 ltac:(lia) (build_CNOT 0%Z)).
    + exact (ps_gate_tab _ 2 kA_cz (spec_CNOT cA 1) tab_CNOT1 struct_CNOT1 ltac:(lia) (build_CNOT 1%Z)).
  - exact (ps_gate_tab _ 3 kA_ccz (spec_CCZ cA) tab_CCZ struct_CCZ ltac:(lia) build_CCZ).
  - intros Ht. destruct t as [|[|[|t]]]; [| | |lia].
    + exact (ps_gate_tab _ 3 kA_ccz (spec_CCNOT cA 0) tab_CCNOT0 struct_CCNOT0 ltac:(lia) (build_CCNOT 0%Z)).
    + exact (ps_gate_tab _ 3 kA_ccz (spec_CCNOT cA 1) tab_CCNOT1 struct_CCNOT1 ltac:(lia) (build_CCNOT 1%Z)).
    + exact (ps_gate_tab _ 3 kA_ccz (spec_CCNOT cA 2) tab_CCNOT2 struct_CCNOT2 ltac:(lia) (build_CCNOT 2%Z)).
Qed.

Lemma op_norm_A op : op_postselected op ->
  kmul cA (wofA op) (kmul cA (op_kps oA kofA op) (kconj cA (op_kps oA kofA op))) = k1 cA.
Proof.
  assert (E1 : kmul cA (k1 cA) (kmul cA (k1 cA) (kconj cA (k1 cA))) = k1 cA) by exact (cq_norm_one oA).
  destruct op as [g i m|r a0 a1 b0 b1|[|] m|[|] t m|m|t m]; cbn [op_postselected wofA op_kps kofA]; try tauto; intros _;
    first [exact E1|exact kA_cz_norm|exact kA_ccz_norm].
Qed.

(* ---- C12 with post-selection over tower A ---- *)
Theorem convert_postselected_correct_A :
  forall (ang : nat -> KA * KA) (nq : nat) (gs : list qgate) (ops : list eop) (rules : option (list nat)),
    Forall (ConvertP.in_range nq) gs -> Forall (fun g => NoDup (g_qubits g)) gs ->
    convert true gs = Ok (ops, rules) -> Forall op_postselected ops ->
    (exists c, run_emitted_A ang ops (new_circ (2 * nq)) = Ok c /\
               accepts_dual_rail oA (env0 oA) c nq (kprod_ps oA kofA ops (k1 cA)) (Vsrc oA a_h ang nq gs) (rule_set rules)) /\
    kmul cA (kmul cA (kprod_ps oA kofA ops (k1 cA)) (kconj cA (kprod_ps oA kofA ops (k1 cA))))
         (wprod_ps oA wofA ops (k1 cA)) = k1 cA.
Proof.
  intros ang nq gs ops rules Hr Hd Hc Hps. split.
  - apply (convert_postselected_correct oA ninvA ninvA_spec a_h a_r2 a_r3i (k0 oA) (k0 oA) a_r7 ang a_h_half kofA
             nq gs ops rules Hr Hd Hc).
    rewrite Forall_forall in *. intros op Hop. apply op_fact_A. apply Hps. exact Hop.
  - apply (kprod_ps_unit oA kofA wofA ops).
    + rewrite Forall_forall in Hps. intros op Hop. apply op_norm_A. apply Hps. exact Hop.
    + exact (cq_norm_one oA).
Qed.

