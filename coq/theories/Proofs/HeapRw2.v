(* Reference-level heap model: remove_non_adjacent_bs and compress_mode_swaps. *)
From Coq Require Import ZArith List Bool Arith Lia PArith FMapPositive.
From LW Require Import Base.Sx Base.Num Base.Sums Base.Mat Model.Circuit Model.World Model.Rewrite Model.Heap
     Proofs.WorldP Proofs.HeapP Proofs.HeapP2 Proofs.HeapFlat Proofs.HeapP3 Proofs.HeapP4.
From LW Require Import Proofs.HeapP5 Proofs.HeapP6 Proofs.HeapMain Proofs.HeapRw.
Import ListNotations.

Section HeapRw2.
  Context {K : Type} (o : ops K).
  Notation heap := (@heap K).
  Notation cell := (@cell K).
  Notation hcomp := (@hcomp K).
  Notation comp := (@comp K).
  Notation circ := (@circ K).

  (* ---------------- a per-entry transformer that returns a LIST of entries ---------------- *)
  Definition lentry_post (F : comp -> list comp) (d : nat) (h : heap) (a : addr) (h' : heap) (l' : list addr) : Prop :=
    hframe [] h h' /\ hwf h' /\ below h' l' /\
    map (abs_comp d h') l' = F (abs_comp d h a) /\
    ((0 < d)%nat -> Forall (fun a' => h_next h <=p a') l') /\
    (forall b, In b (flat_map (comp_cells d h') l') -> h_next h <=p b \/ In b (comp_cells d h a)).

  Definition llist_post (F : comp -> list comp) (d : nat) (h : heap) (l : list addr) (h' : heap) (l' : list addr) : Prop :=
    hframe [] h h' /\ hwf h' /\ below h' l' /\
    map (abs_comp d h') l' = flat_map F (map (abs_comp d h) l) /\
    ((0 < d)%nat -> Forall (fun a' => h_next h <=p a') l') /\
    (forall b, In b (flat_map (comp_cells d h') l') -> h_next h <=p b \/ In b (flat_map (comp_cells d h) l)).

  Lemma hflat_post (F : comp -> list comp) d (f : heap -> addr -> heap * list addr) :
    (forall h a h' l', hwf h -> a <p h_next h -> f h a = (h', l') -> lentry_post F d h a h' l') ->
    forall l h h' l', hwf h -> below h l -> hflat f h l = (h', l') -> llist_post F d h l h' l'.
  Proof.
    intros Hf. induction l as [|a l IH]; intros h h' l' Hw Hl E; cbn [hflat] in E.
    - injection E as <- <-. split; [apply hframe_refl|]. split; [exact Hw|]. split; [constructor|].
      split; [reflexivity|]. split; [intros _; constructor|]. intros b [].
    - destruct (f h a) as [h1 r1] eqn:E1. destruct (hflat f h1 l) as [h2 r] eqn:E2. injection E as <- <-.
      pose proof (Forall_inv Hl) as Ha. pose proof (Forall_inv_tail Hl) as Hl'. cbv beta in Ha.
      destruct (Hf h a h1 r1 Hw Ha E1) as (P1 & P2 & P3 & P4 & P5 & P6).
      assert (Hl1 : below h1 l) by (eapply below_mono; [apply P1|exact Hl']).
      destruct (IH h1 h2 r P2 Hl1 E2) as (Q1 & Q2 & Q3 & Q4 & Q5 & Q6).
      pose proof (hframe_agree _ _ P1) as Ag1. pose proof (hframe_agree _ _ Q1) as Ag2.
      assert (St1 : map (abs_comp d h2) r1 = map (abs_comp d h1) r1 /\
                    flat_map (comp_cells d h2) r1 = flat_map (comp_cells d h1) r1).
      { unfold below in P3. rewrite Forall_forall in P3.
        split; [apply map_ext_in|apply flat_map_ext_in]; intros x Hx; apply (abs_comp_stable h1 h2 d x P2 Ag2 (P3 x Hx)). }
      split; [eapply hframe_trans; eassumption|]. split; [exact Q2|]. split.
      { apply Forall_app. split; [eapply below_mono; [apply Q1|exact P3]|exact Q3]. }
      split.
      { cbn [map flat_map]. rewrite map_app, (proj1 St1), P4, Q4. f_equal. f_equal. apply abs_map_stable; assumption. }
      split.
      { intros Hd. apply Forall_app. split; [apply P5, Hd|]. eapply Forall_impl; [|apply Q5, Hd].
        intros x Hx. cbv beta in Hx |- *. destruct P1 as (P1 & _). lia. }
      intros b Hb. rewrite flat_map_app in Hb. apply in_app_or in Hb as [Hb|Hb].
      + rewrite (proj2 St1) in Hb. destruct (P6 b Hb) as [H|H]; [left; exact H|right; cbn [flat_map]; apply in_or_app; left; exact H].
      + destruct (Q6 b Hb) as [H|H]; [left; destruct P1 as (P1 & _); lia|].
        right. cbn [flat_map]. apply in_or_app. right.
        apply in_flat_map in H as (m & Hm & H). apply in_flat_map. exists m. split; [exact Hm|].
        unfold below in Hl'. rewrite Forall_forall in Hl'.
        rewrite <- (proj2 (abs_comp_stable h h1 d m Hw Ag1 (Hl' m Hm))). exact H.
  Qed.

  (* a shallow copy reads like the original *)
  Lemma copy_reads_same (h h1 : heap) d a a1 :
    hwf h -> agree h h1 -> a <p h_next h -> hget h1 a1 = hget h a ->
    abs_comp (S d) h1 a1 = abs_comp (S d) h a /\
    (forall b, In b (comp_cells (S d) h1 a1) -> b = a1 \/ In b (comp_cells (S d) h a)).
  Proof.
    intros Hw Ag Ha E. cbn [abs_comp comp_cells]. rewrite E.
    destruct (hget h a) as [[[| | | | | |lst m1 m2 hi ho]| | |]|] eqn:Ec;
      try (split; [reflexivity|intros b [<-|[]]; left; reflexivity]).
    pose proof (proj2 Hw _ _ Ec) as Hc. cbn [cell_addrs] in Hc. unfold below in Hc.
    pose proof (Forall_inv Hc) as Hlst. pose proof (Forall_inv (Forall_inv_tail Hc)) as Hhi.
    pose proof (Forall_inv (Forall_inv_tail (Forall_inv_tail Hc))) as Hho. cbv beta in Hlst, Hhi, Hho.
    rewrite (rd_list_agree h h1 _ Ag Hlst), (rd_dict_agree h h1 _ Ag Hhi), (rd_dict_agree h h1 _ Ag Hho).
    pose proof (rd_list_below h lst Hw) as Bl. unfold below in Bl. rewrite Forall_forall in Bl.
    split.
    - f_equal. apply map_ext_in. intros m Hm. apply (abs_comp_stable h h1 d m Hw Ag (Bl m Hm)).
    - intros b [<-|Hb]; [left; reflexivity|right; right].
      destruct Hb as [<-|[<-|[<-|Hb]]]; [simpl; auto|simpl; auto|simpl; auto|].
      right. right. right. apply in_flat_map in Hb as (m & Hm & Hb). apply in_flat_map. exists m. split; [exact Hm|].
      rewrite <- (proj2 (abs_comp_stable h h1 d m Hw Ag (Bl m Hm))). exact Hb.
  Qed.

  Lemma hcopy_inv (h : heap) a h1 a1 : hwf h -> a <p h_next h -> hcopy h a = (h1, a1) ->
    a1 = h_next h /\ h_next h1 = Pos.succ (h_next h) /\ hwf h1 /\ hframe [] h h1 /\ hget h1 a1 = hget h a.
  Proof.
    intros Hw Ha E. destruct (hwf_some h a Hw Ha) as [c Ec]. unfold hcopy in E. rewrite Ec in E.
    destruct (halloc_inv _ _ _ _ [] h E Hw (proj2 Hw _ _ Ec) (hframe_refl _ _)) as (-> & N1 & W1 & F1 & G1 & _).
    rewrite Ec. split; [reflexivity|]. split; [exact N1|]. split; [exact W1|]. split; [exact F1|exact G1].
  Qed.

  (* ---------------- convert_non_adj_beamsplitters ---------------- *)
  Lemma non_adj_nil : non_adj_comp (Barrier (K:=K) []) = [Barrier []].
  Proof. reflexivity. Qed.

  Lemma h_nonadj_one_post : forall d (h : heap) a h' l',
    hwf h -> a <p h_next h -> h_nonadj_one d h a = (h', l') -> lentry_post non_adj_comp d h a h' l'.
  Proof.
    induction d as [|d IH]; intros h a h' l' Hw Ha E; cbn [h_nonadj_one] in E.
    - injection E as <- <-. split; [apply hframe_refl|]. split; [exact Hw|]. split; [constructor; [exact Ha|constructor]|].
      split; [reflexivity|]. split; [lia|]. intros b [].
    - destruct (hcopy h a) as [h1 a1] eqn:Ecp.
      destruct (hcopy_inv h a h1 a1 Hw Ha Ecp) as (-> & N1 & W1 & F1 & G1).
      pose proof (hframe_agree _ _ F1) as Ag1.
      destruct (copy_reads_same h h1 d a (h_next h) Hw Ag1 Ha G1) as (CR1 & CR2).
      assert (Keep : (h1, [h_next h]) = (h', l') -> lentry_post non_adj_comp (S d) h a h' l' \/ True) by (intros; right; exact Logic.I).
      clear Keep.
      (* the default outcome: the copy is the only entry *)
      assert (Default : non_adj_comp (abs_comp (S d) h a) = [abs_comp (S d) h a] ->
                        lentry_post non_adj_comp (S d) h a h1 [h_next h]).
      { intros Hd. split; [exact F1|]. split; [exact W1|]. split; [constructor; [lia|constructor]|].
        split; [cbn [map]; rewrite CR1, Hd; reflexivity|]. split; [intros _; constructor; [lia|constructor]|].
        intros b Hb. cbn [flat_map] in Hb. rewrite app_nil_r in Hb. destruct (CR2 b Hb) as [->|H]; [left; lia|right; exact H]. }
      rewrite G1 in E.
      destruct (hget h a) as [[c| | |]|] eqn:Ec.
      2,3,4,5: injection E as <- <-; apply Default; cbn [abs_comp]; rewrite Ec; reflexivity.
      destruct c as [m1 m2 v cv|m v|m v|ms|sw|m k V|lst m1 m2 hi ho].
      2,3,4,5,6: injection E as <- <-; apply Default; cbn [abs_comp]; rewrite Ec; reflexivity.
      + (* a beam splitter *)
        assert (Ab : abs_comp (S d) h a = BS m1 m2 v cv) by (cbn [abs_comp]; rewrite Ec; reflexivity).
        destruct (adjacent m1 m2) eqn:Eadj.
        { injection E as <- <-. apply Default. transitivity (non_adj_comp (BS m1 m2 v cv)); [f_equal; exact Ab|]. cbn [non_adj_comp]. rewrite Eadj. f_equal. symmetry. exact Ab. }
        set (lo := Nat.min m1 m2) in *. set (hi := Nat.max m1 m2) in *. set (mid := non_adj_mid lo hi) in *.
        set (sw := non_adj_swaps lo hi) in *.
        destruct (if m2 <? m1 then (mid + 1, mid) else (mid, mid + 1))%nat as [b1 b2] eqn:Eb.
        destruct (halloc h1 (CComp (HSwaps sw))) as [h2 x1] eqn:E2.
        destruct (halloc_inv _ _ _ _ [] h E2 W1 (Forall_nil _) F1) as (-> & N2 & W2 & F2 & G2 & S2).
        destruct (halloc h2 (CComp (HBS b1 b2 v cv))) as [h3 x2] eqn:E3.
        destruct (halloc_inv _ _ _ _ [] h E3 W2 (Forall_nil _) F2) as (-> & N3 & W3 & F3 & G3 & S3).
        destruct (halloc h3 (CComp (HSwaps (flip_dict sw)))) as [h4 x3] eqn:E4.
        destruct (halloc_inv _ _ _ _ [] h E4 W3 (Forall_nil _) F3) as (-> & N4 & W4 & F4 & G4 & S4).
        injection E as <- <-.
        assert (R2 : hget h4 (h_next h1) = Some (CComp (HSwaps sw))).
        { rewrite (hget_frame h3 h4 _ S4), (hget_frame h2 h3 _ S3) by lia. exact G2. }
        assert (R3 : hget h4 (h_next h2) = Some (CComp (HBS b1 b2 v cv))).
        { rewrite (hget_frame h3 h4 _ S4) by lia. exact G3. }
        split; [exact F4|]. split; [exact W4|]. split; [repeat constructor; lia|].
        split.
        { rewrite Ab. cbn [map abs_comp non_adj_comp]. rewrite R2, R3, G4, Eadj. fold lo hi mid sw. rewrite Eb. reflexivity. }
        split; [intros _; repeat constructor; lia|].
        intros b Hb. cbn [flat_map comp_cells] in Hb. rewrite R2, R3, G4 in Hb. cbn [app] in Hb.
        left. destruct Hb as [<-|[<-|[<-|[]]]]; lia.
      + (* a group *)
        assert (Ab : abs_comp (S d) h a = Group (map (abs_comp d h) (rd_list h lst)) m1 m2 (rd_dict h hi) (rd_dict h ho))
          by (cbn [abs_comp]; rewrite Ec; reflexivity).
        assert (Cb : comp_cells (S d) h a = a :: lst :: hi :: ho :: flat_map (comp_cells d h) (rd_list h lst))
          by (cbn [comp_cells]; rewrite Ec; reflexivity).
        pose proof (proj2 Hw _ _ Ec) as Hc. cbn [cell_addrs] in Hc. unfold below in Hc.
        pose proof (Forall_inv Hc) as Hlst. pose proof (Forall_inv (Forall_inv_tail Hc)) as Hhi.
        pose proof (Forall_inv (Forall_inv_tail (Forall_inv_tail Hc))) as Hho. cbv beta in Hlst, Hhi, Hho. clear Hc.
        rewrite (rd_list_agree h h1 _ Ag1 Hlst) in E.
        destruct (hflat (h_nonadj_one d) h1 (rd_list h lst)) as [h2 ms] eqn:E2.
        assert (Hbl : below h1 (rd_list h lst)).
        { eapply below_mono; [|apply rd_list_below; exact Hw]. lia. }
        destruct (hflat_post non_adj_comp d (h_nonadj_one d) IH _ _ _ _ W1 Hbl E2) as (Q1 & Q2 & Q3 & Q4 & Q5 & Q6).
        assert (Hn2 : h_next h1 <=p h_next h2) by apply Q1.
        destruct (halloc h2 (CList ms)) as [h3 lst'] eqn:E3.
        assert (F02 : hframe [] h h2) by (eapply hframe_trans; eassumption).
        destruct (halloc_inv _ _ _ _ [] h E3 Q2 Q3 F02) as (-> & N3 & W3 & F3 & G3 & S3).
        injection E as <- <-.
        set (hf := hwrite h3 (h_next h) (CComp (HGroup (h_next h2) m1 m2 hi ho))).
        assert (Gf : forall b, b <> h_next h -> hget hf b = hget h3 b).
        { intros b Hb. unfold hf. rewrite hget_write. destruct (Pos.eqb_spec b (h_next h)); [contradiction|reflexivity]. }
        assert (Ga : hget hf (h_next h) = Some (CComp (HGroup (h_next h2) m1 m2 hi ho))).
        { unfold hf. rewrite hget_write, Pos.eqb_refl. reflexivity. }
        assert (Glst : rd_list hf (h_next h2) = ms).
        { unfold rd_list. rewrite Gf by lia. rewrite G3. reflexivity. }
        pose proof (rd_list_below h lst Hw) as Hb0. unfold below in Hb0. rewrite Forall_forall in Hb0.
        (* the members, seen from the final heap *)
        assert (Gm : forall m, In m ms -> abs_comp d hf m = abs_comp d h2 m /\ comp_cells d hf m = comp_cells d h2 m).
        { intros m Hm. apply abs_comp_cells. intros b Hb.
          assert (Hlt : b <p h_next h2).
          { unfold below in Q3. rewrite Forall_forall in Q3.
            pose proof (comp_cells_below h2 Q2 d m (Q3 m Hm)) as Hcb. unfold below in Hcb. rewrite Forall_forall in Hcb. exact (Hcb b Hb). }
          rewrite Gf.
          - apply (hget_frame h2 h3 b S3 Hlt).
          - intros ->. destruct (Q6 (h_next h)) as [H|H].
            + apply in_flat_map. exists m. split; assumption.
            + lia.
            + apply in_flat_map in H as (m0 & Hm0 & H).
              rewrite (proj2 (abs_comp_stable h h1 d m0 Hw Ag1 (Hb0 m0 Hm0))) in H.
              pose proof (comp_cells_below h Hw d m0 (Hb0 m0 Hm0)) as Hcb. unfold below in Hcb.
              rewrite Forall_forall in Hcb. specialize (Hcb _ H). cbv beta in Hcb. lia. }
        assert (M1 : map (abs_comp d hf) ms = flat_map non_adj_comp (map (abs_comp d h) (rd_list h lst))).
        { rewrite <- (abs_map_stable h h1 d (rd_list h lst) Hw Ag1 (rd_list_below h lst Hw)), <- Q4.
          apply map_ext_in. intros m Hm. apply (Gm m Hm). }
        assert (M2 : flat_map (comp_cells d hf) ms = flat_map (comp_cells d h2) ms).
        { apply flat_map_ext_in. intros m Hm. apply (Gm m Hm). }
        assert (Rhi : rd_dict hf hi = rd_dict h hi).
        { unfold rd_dict. rewrite Gf by lia. rewrite (hget_frame h h3 hi F3 Hhi). reflexivity. }
        assert (Rho : rd_dict hf ho = rd_dict h ho).
        { unfold rd_dict. rewrite Gf by lia. rewrite (hget_frame h h3 ho F3 Hho). reflexivity. }
        split; [unfold hf; apply hframe_write; [exact F3|left; lia]|].
        split.
        { unfold hf. apply hwf_write; [exact W3|lia|]. cbn [cell_addrs]. repeat constructor; lia. }
        split; [constructor; [unfold hf; rewrite next_write; lia|constructor]|].
        split.
        { cbn [map]. rewrite (proj1 (abs_comp_group hf d _ _ _ _ _ _ Ga)), Glst, M1, Rhi, Rho, Ab. reflexivity. }
        split; [intros _; constructor; [lia|constructor]|].
        intros b Hb. cbn [flat_map] in Hb. rewrite app_nil_r in Hb.
        rewrite (proj2 (abs_comp_group hf d _ _ _ _ _ _ Ga)), Glst, M2 in Hb. rewrite Cb.
        destruct Hb as [<-|[<-|[<-|[<-|Hb]]]]; try (left; lia); try (right; simpl; auto; fail).
        destruct (Q6 b Hb) as [H|H]; [left; lia|right].
        right. right. right. right.
        apply in_flat_map in H as (m0 & Hm0 & H). apply in_flat_map. exists m0. split; [exact Hm0|].
        rewrite <- (proj2 (abs_comp_stable h h1 d m0 Hw Ag1 (Hb0 m0 Hm0))). exact H.
  Qed.

  (* ---------------- compress_mode_swaps ---------------- *)
  Lemma spec_cells_app (h : heap) l1 l2 : spec_cells h (l1 ++ l2) = spec_cells h l1 ++ spec_cells h l2.
  Proof. unfold spec_cells. apply flat_map_app. Qed.
  Lemma abs_list_app (h : heap) l1 l2 : abs_list h (l1 ++ l2) = abs_list h l1 ++ abs_list h l2.
  Proof. unfold abs_list. apply map_app. Qed.

  Lemma h_compress_outer_post : forall l i (h : heap) to_skip new h' r,
    hwf h -> below h l -> below h new ->
    h_compress_outer i h l to_skip new = (h', r) ->
    hframe [] h h' /\ hwf h' /\ below h' r /\
    abs_list h' r = compress_outer true i (abs_list h l) to_skip (abs_list h new) /\
    (forall b, In b (spec_cells h' r) -> h_next h <=p b \/ In b (spec_cells h l) \/ In b (spec_cells h new)).
  Proof.
    induction l as [|a rest IH]; intros i h to_skip new h' r Hw Hl Hnew E; cbn [h_compress_outer] in E.
    - injection E as <- <-. split; [apply hframe_refl|]. split; [exact Hw|]. split; [exact Hnew|].
      split; [reflexivity|]. intros b Hb. right. right. exact Hb.
    - pose proof (Forall_inv Hl) as Ha. pose proof (Forall_inv_tail Hl) as Hrest. cbv beta in Ha.
      destruct (hcopy h a) as [h1 a1] eqn:Ecp.
      destruct (hcopy_inv h a h1 a1 Hw Ha Ecp) as (-> & N1 & W1 & F1 & G1).
      pose proof (hframe_agree _ _ F1) as Ag1.
      destruct (copy_reads_same h h1 1 a (h_next h) Hw Ag1 Ha G1) as (CR1 & CR2).
      assert (Br1 : below h1 rest) by (eapply below_mono; [|exact Hrest]; lia).
      assert (Bn1 : below h1 new) by (eapply below_mono; [|exact Hnew]; lia).
      destruct (abs_list_stable h h1 rest Hw Ag1 Hrest) as (Ar1 & Cr1).
      destruct (abs_list_stable h h1 new Hw Ag1 Hnew) as (An1 & Cn1).
      change (abs_list h (a :: rest)) with (abs_comp 2 h a :: abs_list h rest). cbn [compress_outer].
      assert (Sub : forall b, In b (spec_cells h rest) -> In b (spec_cells h (a :: rest))).
      { intros b Hb. unfold spec_cells. cbn [flat_map]. apply in_or_app. right. exact Hb. }
      assert (Sub0 : forall b, In b (comp_cells 2 h a) -> In b (spec_cells h (a :: rest))).
      { intros b Hb. unfold spec_cells. cbn [flat_map]. apply in_or_app. left. exact Hb. }
      destruct (memb i to_skip) eqn:Esk.
      { destruct (IH _ _ _ _ _ _ W1 Br1 Bn1 E) as (P1 & P2 & P3 & P4 & P5).
        split; [eapply hframe_trans; eassumption|]. split; [exact P2|]. split; [exact P3|].
        split; [rewrite P4, Ar1, An1; reflexivity|].
        intros b Hb. destruct (P5 b Hb) as [H|[H|H]]; [left; lia|right; left; rewrite Cr1 in H; apply Sub, H|right; right; rewrite Cn1 in H; exact H]. }
      (* the copy joins the new list *)
      assert (Default : forall hz, hz = h1 -> h_compress_outer (S i) hz rest to_skip (new ++ [h_next h]) = (h', r) ->
                (forall sw, abs_comp 2 h a <> Swaps sw) ->
                hframe [] h h' /\ hwf h' /\ below h' r /\
                abs_list h' r = match abs_comp 2 h a with
                                | Swaps sw => let '(sw', ts') := compress_inner true (S i) (abs_list h rest) [] sw to_skip in
                                              compress_outer true (S i) (abs_list h rest) ts' (abs_list h new ++ [Swaps sw'])
                                | _ => compress_outer true (S i) (abs_list h rest) to_skip (abs_list h new ++ [abs_comp 2 h a])
                                end /\
                (forall b, In b (spec_cells h' r) -> h_next h <=p b \/ In b (spec_cells h (a :: rest)) \/ In b (spec_cells h new))).
      { intros hz -> E' Hns.
        assert (Bn' : below h1 (new ++ [h_next h])) by (apply Forall_app; split; [exact Bn1|constructor; [lia|constructor]]).
        destruct (IH _ _ _ _ _ _ W1 Br1 Bn' E') as (P1 & P2 & P3 & P4 & P5).
        split; [eapply hframe_trans; eassumption|]. split; [exact P2|]. split; [exact P3|]. split.
        - rewrite P4, Ar1, abs_list_app, An1. unfold abs_list at 3. cbn [map]. rewrite CR1.
          destruct (abs_comp 2 h a) eqn:Eab; try reflexivity. exfalso. exact (Hns sw eq_refl).
        - intros b Hb. destruct (P5 b Hb) as [H|[H|H]]; [left; lia|right; left; rewrite Cr1 in H; apply Sub, H|].
          rewrite spec_cells_app in H. apply in_app_or in H as [H|H]; [right; right; rewrite Cn1 in H; exact H|].
          unfold spec_cells in H. cbn [flat_map] in H. rewrite app_nil_r in H.
          destruct (CR2 b H) as [->|H']; [left; lia|right; left; apply Sub0, H']. }
      rewrite G1 in E.
      destruct (hget h a) as [[c| | |]|] eqn:Ec.
      2,3,4,5: apply (Default h1 eq_refl E); intros sw; cbn [abs_comp]; rewrite Ec; discriminate.
      destruct c as [m1 m2 v cv|m v|m v|ms|sw|m k V|lst m1 m2 hi ho].
      1,2,3,4,6,7: apply (Default h1 eq_refl E); intros sw'; cbn [abs_comp]; rewrite Ec; discriminate.
      (* a mode swap: merge what follows into the copy *)
      assert (Ab : abs_comp 2 h a = Swaps sw) by (cbn [abs_comp]; rewrite Ec; reflexivity).
      rewrite Ab. rewrite Ar1 in E.
      destruct (compress_inner true (S i) (abs_list h rest) [] sw to_skip) as [sw' ts'] eqn:Ein.
      set (h2 := hwrite h1 (h_next h) (CComp (HSwaps sw'))) in *.
      assert (W2 : hwf h2) by (unfold h2; apply hwf_write; [exact W1|lia|apply Forall_nil]).
      assert (F2 : hframe [] h h2) by (unfold h2; apply hframe_write; [exact F1|left; lia]).
      pose proof (hframe_agree _ _ F2) as Ag2.
      assert (N2 : h_next h2 = h_next h1) by reflexivity.
      assert (Br2 : below h2 rest) by (eapply below_mono; [|exact Hrest]; lia).
      assert (Bn2 : below h2 (new ++ [h_next h])).
      { apply Forall_app; split; [eapply below_mono; [|exact Hnew]; lia|constructor; [lia|constructor]]. }
      destruct (abs_list_stable h h2 rest Hw Ag2 Hrest) as (Ar2 & Cr2).
      destruct (abs_list_stable h h2 new Hw Ag2 Hnew) as (An2 & Cn2).
      assert (G2 : hget h2 (h_next h) = Some (CComp (HSwaps sw'))) by (unfold h2; rewrite hget_write, Pos.eqb_refl; reflexivity).
      destruct (IH _ _ _ _ _ _ W2 Br2 Bn2 E) as (P1 & P2 & P3 & P4 & P5).
      split; [eapply hframe_trans; eassumption|]. split; [exact P2|]. split; [exact P3|]. split.
      + rewrite P4, Ar2, abs_list_app, An2. unfold abs_list at 3. cbn [map abs_comp]. rewrite G2. reflexivity.
      + intros b Hb. destruct (P5 b Hb) as [H|[H|H]]; [left; lia|right; left; rewrite Cr2 in H; apply Sub, H|].
        rewrite spec_cells_app in H. apply in_app_or in H as [H|H]; [right; right; rewrite Cn2 in H; exact H|].
        unfold spec_cells in H. cbn [flat_map comp_cells] in H. rewrite G2 in H. destruct H as [<-|[]]. left. lia.
  Qed.

  (* ---------------- a call that replaces the target's list by a new list object ---------------- *)
  Lemma replace_spec_post (p : hpool) (h0 : heap) id c (h1 : heap) (l : list addr) (F : circ -> res circ) :
    inv (mkHW p h0) -> In (id, c) p ->
    hframe [] h0 h1 -> hwf h1 -> below h1 l ->
    (forall b, In b (spec_cells h1 l) -> h_next h0 <=p b \/ In b (spec_cells h0 (rd_list h0 (hc_spec c)))) ->
    F (abs_circ h0 c) = Ok (set_spec (abs_circ h0 c) (abs_list h1 l)) ->
    upd_post p h0 c F (fst (halloc h1 (CList l))) (Ok (set_spec_ref c (h_next h1))).
  Proof.
    intros I Hin Fr W1 Bl Prov EF.
    pose proof (inv_hwf _ I) as Hw0. cbn [hw_heap] in Hw0.
    destruct (inv_cwf _ I id c Hin) as (Hc0 & Hs0). cbn [hw_heap] in Hc0.
    destruct (cwf_fields h0 c Hc0) as (L1 & L2 & L3 & L4 & L5 & L6).
    destruct (halloc h1 (CList l)) as [h2 sp] eqn:E2.
    destruct (halloc_inv _ _ _ _ [] h0 E2 W1 Bl Fr) as (-> & N2 & W2 & F2 & G2 & S2). cbn [fst].
    pose proof (hframe_agree _ _ F2) as Ag2. pose proof (hframe_agree _ _ S2) as Ag12.
    assert (Hn : h_next h0 <=p h_next h1) by apply Fr.
    assert (Rl : rd_list h2 (h_next h1) = l) by (unfold rd_list; rewrite G2; reflexivity).
    destruct (abs_list_stable h1 h2 l W1 Ag12 Bl) as (Al & Cl).
    split; [apply hframe_nil; exact F2|]. split; [exact W2|]. split.
    { rewrite EF. f_equal. unfold abs_circ, set_spec, set_spec_ref.
      cbn [c_n c_spec c_in c_out c_xin c_xout c_int hc_n hc_spec hc_in hc_out hc_xin hc_xout hc_int].
      rewrite Rl, Al. rewrite !(rd_dict_agree h0 h2 _ Ag2), (rd_nats_agree h0 h2 _ Ag2) by assumption. reflexivity. }
    destruct Hs0 as (T1 & T2 & T3 & T4 & T5 & T6).
    split.
    { unfold cwf, below, priv, set_spec_ref. cbn [hc_spec hc_in hc_out hc_xin hc_xout hc_int]. repeat constructor; lia. }
    split.
    { unfold sep_circ, set_spec_ref. cbn [hc_spec hc_in hc_out hc_xin hc_xout hc_int].
      repeat split; try assumption. simpl. intros H. repeat (destruct H as [H|H]; [lia|]). exact H. }
    split.
    { intros a Ha. unfold priv, set_spec_ref in Ha. cbn [hc_spec hc_in hc_out hc_xin hc_xout hc_int] in Ha.
      destruct Ha as [<-|Ha]; [right; lia|left; unfold priv; right; exact Ha]. }
    intros a Ha. unfold set_spec_ref in Ha. cbn [hc_spec] in Ha. rewrite Rl, Cl in Ha.
    pose proof (spec_cells_below h1 l W1 Bl) as Hb. unfold below in Hb. rewrite Forall_forall in Hb. specialize (Hb a Ha). cbv beta in Hb.
    assert (Hno : ~ owned p a).
    { destruct (Prov a Ha) as [H|H].
      - intros Ho. pose proof (owned_below _ _ I Ho) as Hlt. cbn [hw_heap] in Hlt. lia.
      - exact (inv_frozen _ I id c Hin a H). }
    split; [exact Hno|].
    unfold priv, set_spec_ref. cbn [hc_spec hc_in hc_out hc_xin hc_xout hc_int].
    intros [E|H]; [lia|]. apply Hno. exists id, c. split; [exact Hin|]. unfold priv. right. exact H.
  Qed.

  Lemma h_nonadj_post (p : hpool) (h0 : heap) id c :
    inv (mkHW p h0) -> In (id, c) p ->
    upd_post p h0 c (fun cf => Ok (non_adj_circ cf)) (fst (h_nonadj h0 c)) (snd (h_nonadj h0 c)).
  Proof.
    intros I Hin. pose proof (inv_hwf _ I) as Hw0. cbn [hw_heap] in Hw0.
    unfold h_nonadj.
    destruct (hflat (h_nonadj_one 2) h0 (rd_list h0 (hc_spec c))) as [h1 l] eqn:E1.
    destruct (hflat_post non_adj_comp 2 (h_nonadj_one 2) (h_nonadj_one_post 2) _ _ _ _ Hw0 (rd_list_below h0 _ Hw0) E1)
      as (Q1 & Q2 & Q3 & Q4 & Q5 & Q6).
    rewrite (halloc_eta h1). cbv iota beta. cbn [fst snd].
    apply (replace_spec_post p h0 id c h1 l _ I Hin Q1 Q2 Q3 Q6).
    unfold non_adj_circ, non_adj_spec. f_equal. f_equal. unfold abs_list. rewrite Q4. reflexivity.
  Qed.

  Lemma h_compress_post (p : hpool) (h0 : heap) id c :
    inv (mkHW p h0) -> In (id, c) p ->
    upd_post p h0 c (fun cf => Ok (compress_circ cf)) (fst (h_compress h0 c)) (snd (h_compress h0 c)).
  Proof.
    intros I Hin. pose proof (inv_hwf _ I) as Hw0. cbn [hw_heap] in Hw0.
    unfold h_compress.
    destruct (h_compress_outer 0 h0 (rd_list h0 (hc_spec c)) [] []) as [h1 l] eqn:E1.
    destruct (h_compress_outer_post _ _ _ _ _ _ _ Hw0 (rd_list_below h0 _ Hw0) (Forall_nil _) E1) as (Q1 & Q2 & Q3 & Q4 & Q5).
    rewrite (halloc_eta h1). cbv iota beta. cbn [fst snd].
    apply (replace_spec_post p h0 id c h1 l _ I Hin Q1 Q2 Q3).
    - intros b Hb. destruct (Q5 b Hb) as [H|[H|[]]]; [left; exact H|right; exact H].
    - unfold compress_circ, compress_spec, compress_gen. rewrite Q4. reflexivity.
  Qed.

  (* both rewrites keep groups flat *)
  Lemma non_adj_is_group (c x : comp) : is_group c = false -> In x (non_adj_comp c) -> is_group x = false.
  Proof.
    destruct c; try discriminate; intros _; cbn [non_adj_comp].
    1: destruct (adjacent m1 m2); [|destruct (if m2 <? m1 then _ else _)].
    all: intros H; repeat (destruct H as [<-|H]; [reflexivity|]); destruct H.
  Qed.
  Lemma non_adj_flat (c : circ) : flat_circ c -> flat_circ (non_adj_circ c).
  Proof.
    intros Hc. unfold flat_circ, non_adj_circ, set_spec, non_adj_spec. cbn [c_spec].
    unfold flat_circ, flat_spec in Hc. rewrite Forall_forall in Hc.
    apply Forall_forall. intros x Hx. apply in_flat_map in Hx as (y & Hy & Hx). specialize (Hc y Hy).
    destruct y; cbn [non_adj_comp] in Hx.
    1: destruct (adjacent m1 m2); [|destruct (if m2 <? m1 then _ else _)].
    all: try (repeat (destruct Hx as [<-|Hx]; [exact Logic.I|]); destruct Hx; fail).
    destruct Hx as [<-|[]]. cbn [flat_comp] in *. unfold nogroup in *. rewrite Forall_forall in Hc.
    apply Forall_forall. intros z Hz. apply in_flat_map in Hz as (w & Hw & Hz).
    exact (non_adj_is_group w z (Hc w Hw) Hz).
  Qed.
End HeapRw2.
