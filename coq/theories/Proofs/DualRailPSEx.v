(* Computed example for C12 with post-selection (Proofs/DualRailPSA.v). *)
From Coq Require Import ZArith NArith List Bool Arith Lia.
From LW Require Import Base.Sx Base.Num Base.Sums Base.Mat Base.QI2 Base.NumField Model.State Model.Circuit Model.World
     Model.Fock Model.Gates Model.Convert Proofs.PermP Proofs.GatesP Proofs.ConvertP
     Proofs.DualRailDefs Proofs.DualRailSem Proofs.DualRailFull Proofs.DualRailP Proofs.DualRailConv Proofs.DualRailB
     Proofs.DualRailPSStep Proofs.DualRailPS Proofs.DualRailPSConv Proofs.DualRailPSA.
Import ListNotations.
Open Scope nat_scope.

(* ------------------------------------------------------------------ *)
(* computed example: h(0); cx(0,1); cx(1,2), allow_post_selection = True *)
(* ------------------------------------------------------------------ *)
Definition exps_gs : list qgate := [mkG Gh [0] false; mkG Gcx [0; 1] false; mkG Gcx [1; 2] false].
Definition exps_ang : nat -> KA * KA := fun _ => (k1 oA, k0 oA).
Definition exps_ops : list eop := match convert true exps_gs with Ok (ops, _) => ops | Err _ => [] end.
Definition exps_gate : res (@gate KA) :=
  do c <- run_emitted_A exps_ang exps_ops (new_circ 6);
  do st <- build oA (env0 oA) c;
  Ok (mkGate c (fst st) (snd st)).
Definition exps_K : TA := kprod_ps oA kofA exps_ops (k1 cA).

(* the rules accept y: one photon on each rule qubit *)
Definition accepted (rules : option (list nat)) (nq : nat) (y : list Z) : bool :=
  okD nq (rule_set rules) (znat y).

(* all dual-rail inputs x all 56 three-photon outputs of the six visible modes: an accepted output is a
   dual-rail state; and some rejected output has a non-zero amplitude *)
Definition exps_accepted_are_dr : bool :=
  forallb (fun t => implb (accepted (Some [2; 0; 1]) 3 t) (match undr t with Some _ => true | None => false end))
          (zstates 6 3).
Definition exps_some_leak : bool :=
  match exps_gate with
  | Ok gt => existsb (fun b => existsb (fun t => negb (accepted (Some [2; 0; 1]) 3 t) && negb (amp_zero oA gt (dr b) t))
                                       (zstates 6 3)) (bits 3)
  | Err _ => false
  end.

Example convert_postselected_example :
  convert true exps_gs = Ok ([EGate1 Gh 0 0; ECX false 1 0; ECX false 1 2], Some [2; 0; 1]) /\
  Forall (ConvertP.in_range 3) exps_gs /\ Forall (fun g => NoDup (g_qubits g)) exps_gs /\ Forall op_postselected exps_ops /\
  (* the conclusion recomputed: K * V_src on the dual-rail basis (accepted outputs), K = 1/9 *)
  check_table oA exps_gate 3 exps_K (Vsrc oA a_h exps_ang 3 exps_gs) = true /\
  keqb cA exps_K (kq oA 1 9, k0 oA) = true /\
  keqb cA (kmul cA (kofZ cA 81) (kmul cA exps_K (kconj cA exps_K))) (k1 cA) = true /\
  exps_accepted_are_dr = true /\
  (* the rules do real work: a rejected (leaked) output with non-zero amplitude exists *)
  exps_some_leak = true /\
  match exps_gate with Ok gt => (c_n (g_circ gt), c_in (g_circ gt)) | Err _ => (0, []) end
  = (10, [(0, 0); (6, 0); (3, 0); (9, 0)]).
Proof.
  split; [vm_compute; reflexivity|].
  split; [apply Forall_forall; intros g Hg q Hq; cbn in Hg; destruct Hg as [<-|[<-|[<-|[]]]]; cbn in Hq; intuition lia|].
  split; [repeat constructor; cbn; intuition; discriminate|].
  split; [vm_compute; repeat constructor|].
  split; [vm_compute; reflexivity|]. split; [vm_compute; reflexivity|].
  split; [vm_compute; reflexivity|].
  split; [vm_compute; reflexivity|]. split; [vm_compute; reflexivity|]. vm_compute. reflexivity.
Qed.
