(* Lemmas about Model/Reck.v (property C14).
   Part 1 (Section Gen): algebra over an abstract commutative *-ring playing
   the role of the complex numbers: 2x2 blocks, the unit cell, one nulling
   step, the rebuilt product, the mode flip. *)
From Coq Require Import ZArith Arith List Bool Lia Ring.
From LW Require Import Base.Num Base.Sums Base.Mat Base.Embed Base.Sx Model.Reck.
Import ListNotations.

Section Gen.
  Context {K : Type} {o : ops K} {SR : StarRing o}.
  Let Rr := sr_ring (o:=o).
  Add Ring Kr : Rr.
  Local Notation "0" := (k0 o).
  Local Notation "1" := (k1 o).
  Local Notation "a + b" := (kadd o a b).
  Local Notation "a * b" := (kmul o a b).
  Local Notation "a - b" := (ksub o a b).
  Local Notation "- a" := (kopp o a).
  Local Notation conj := (kconj o).
  Local Notation sumn := (sumn o).
  Local Notation mmul := (mmul o).
  Local Notation madj := (madj o).
  Local Notation mid := (mid o).
  Local Notation meq := (@meq K).
  Local Notation embed2 := (embed2 o).
  Local Notation phase_mat := (phase_mat o).
  Local Notation mat := (@mat K).

  (* ---- entries of an embedded block ---- *)
  Lemma embed2_aa a b u00 u01 u10 u11 : embed2 a b u00 u01 u10 u11 a a = u00.
  Proof. unfold Mat.embed2. rewrite !Nat.eqb_refl. reflexivity. Qed.
  Lemma embed2_ab a b u00 u01 u10 u11 : a <> b -> embed2 a b u00 u01 u10 u11 a b = u01.
  Proof.
    intros H. unfold Mat.embed2. rewrite !Nat.eqb_refl.
    replace (b =? a) with false by (symmetry; apply Nat.eqb_neq; lia). reflexivity.
  Qed.
  Lemma embed2_ba a b u00 u01 u10 u11 : a <> b -> embed2 a b u00 u01 u10 u11 b a = u10.
  Proof.
    intros H. unfold Mat.embed2. rewrite !Nat.eqb_refl.
    replace (b =? a) with false by (symmetry; apply Nat.eqb_neq; lia). reflexivity.
  Qed.
  Lemma embed2_bb a b u00 u01 u10 u11 : a <> b -> embed2 a b u00 u01 u10 u11 b b = u11.
  Proof.
    intros H. unfold Mat.embed2. rewrite !Nat.eqb_refl.
    replace (b =? a) with false by (symmetry; apply Nat.eqb_neq; lia). reflexivity.
  Qed.
  Lemma embed2_a_out a b u00 u01 u10 u11 k : k <> a -> k <> b -> embed2 a b u00 u01 u10 u11 a k = 0.
  Proof.
    intros Ha Hb. unfold Mat.embed2. rewrite Nat.eqb_refl.
    apply Nat.eqb_neq in Ha, Hb. rewrite Ha, Hb. reflexivity.
  Qed.
  Lemma embed2_b_out a b u00 u01 u10 u11 k : a <> b -> k <> a -> k <> b -> embed2 a b u00 u01 u10 u11 b k = 0.
  Proof.
    intros Hab Ha Hb. unfold Mat.embed2. rewrite Nat.eqb_refl.
    replace (b =? a) with false by (symmetry; apply Nat.eqb_neq; lia).
    apply Nat.eqb_neq in Ha, Hb. rewrite Ha, Hb. reflexivity.
  Qed.
  Lemma embed2_out_a a b u00 u01 u10 u11 k : k <> a -> k <> b -> embed2 a b u00 u01 u10 u11 k a = 0.
  Proof.
    intros Ha Hb. rewrite embed2_out_l by assumption. apply mid_neq. assumption.
  Qed.
  Lemma embed2_out_b a b u00 u01 u10 u11 k : k <> a -> k <> b -> embed2 a b u00 u01 u10 u11 k b = 0.
  Proof.
    intros Ha Hb. rewrite embed2_out_l by assumption. apply mid_neq. assumption.
  Qed.

  Lemma embed2_swap a b u00 u01 u10 u11 i j :
    a <> b -> embed2 a b u00 u01 u10 u11 i j = embed2 b a u11 u10 u01 u00 i j.
  Proof.
    intros Hab. unfold Mat.embed2.
    destruct (Nat.eqb_spec i a), (Nat.eqb_spec i b), (Nat.eqb_spec j a), (Nat.eqb_spec j b);
      subst; try lia; reflexivity.
  Qed.

  Lemma phase_embed2_a a b e i j : a <> b -> phase_mat a e i j = embed2 a b e 0 0 1 i j.
  Proof.
    intros Hab. unfold Mat.phase_mat, Mat.embed2, Mat.mid.
    destruct (Nat.eqb_spec i j), (Nat.eqb_spec i a), (Nat.eqb_spec i b), (Nat.eqb_spec j a), (Nat.eqb_spec j b);
      subst; try lia; reflexivity.
  Qed.
  Lemma phase_embed2_b a b e i j : a <> b -> phase_mat b e i j = embed2 a b 1 0 0 e i j.
  Proof.
    intros Hab. unfold Mat.phase_mat, Mat.embed2, Mat.mid.
    destruct (Nat.eqb_spec i j), (Nat.eqb_spec i a), (Nat.eqb_spec i b), (Nat.eqb_spec j a), (Nat.eqb_spec j b);
      subst; try lia; reflexivity.
  Qed.

  (* ---- multiplication by an embedded block: rows / columns a, b ---- *)
  Lemma mmul_embed2_l n a b u00 u01 u10 u11 M i j :
    a < n -> b < n -> a <> b -> i < n ->
    mmul n (embed2 a b u00 u01 u10 u11) M i j =
      if i =? a then u00 * M a j + u01 * M b j
      else if i =? b then u10 * M a j + u11 * M b j else M i j.
  Proof.
    intros Ha Hb Hab Hi. unfold Mat.mmul.
    destruct (Nat.eqb_spec i a) as [->|Hia]; [|destruct (Nat.eqb_spec i b) as [->|Hib]].
    - rewrite (sumn_two n a b) by
        (try assumption; intros k _ H1 H2; rewrite embed2_a_out by assumption; ring).
      rewrite embed2_aa, embed2_ab by assumption. reflexivity.
    - rewrite (sumn_two n a b) by
        (try assumption; intros k _ H1 H2; rewrite embed2_b_out by assumption; ring).
      rewrite embed2_ba, embed2_bb by assumption. reflexivity.
    - rewrite (sumn_single n i); try assumption.
      + rewrite embed2_out_l, mid_eq by assumption. ring.
      + intros k _ Hk. rewrite embed2_out_l, mid_neq by auto. ring.
  Qed.

  Lemma mmul_embed2_r n a b u00 u01 u10 u11 M i j :
    a < n -> b < n -> a <> b -> j < n ->
    mmul n M (embed2 a b u00 u01 u10 u11) i j =
      if j =? a then M i a * u00 + M i b * u10
      else if j =? b then M i a * u01 + M i b * u11 else M i j.
  Proof.
    intros Ha Hb Hab Hj. unfold Mat.mmul.
    destruct (Nat.eqb_spec j a) as [->|Hja]; [|destruct (Nat.eqb_spec j b) as [->|Hjb]].
    - rewrite (sumn_two n a b) by
        (try assumption; intros k _ H1 H2; rewrite embed2_out_a by assumption; ring).
      rewrite embed2_aa, embed2_ba by assumption. reflexivity.
    - rewrite (sumn_two n a b) by
        (try assumption; intros k _ H1 H2; rewrite embed2_out_b by assumption; ring).
      rewrite embed2_ab, embed2_bb by assumption. reflexivity.
    - rewrite (sumn_single n j); try assumption.
      + rewrite embed2_out_r, mid_eq by assumption. ring.
      + intros k _ Hk. rewrite embed2_out_r, mid_neq by auto. ring.
  Qed.

  Lemma embed2_mmul n a b a00 a01 a10 a11 b00 b01 b10 b11 :
    a < n -> b < n -> a <> b ->
    meq n (mmul n (embed2 a b a00 a01 a10 a11) (embed2 a b b00 b01 b10 b11))
          (embed2 a b (a00 * b00 + a01 * b10) (a00 * b01 + a01 * b11)
                      (a10 * b00 + a11 * b10) (a10 * b01 + a11 * b11)).
  Proof.
    intros Ha Hb Hab i j Hi Hj. rewrite mmul_embed2_l by assumption.
    destruct (Nat.eqb_spec i a) as [->|Hia]; [|destruct (Nat.eqb_spec i b) as [->|Hib]].
    - destruct (Nat.eq_dec j a) as [->|Hja]; [|destruct (Nat.eq_dec j b) as [->|Hjb]].
      + rewrite !embed2_aa, embed2_ba by assumption. reflexivity.
      + rewrite !embed2_ab, embed2_bb by assumption. reflexivity.
      + rewrite !embed2_a_out, embed2_b_out by assumption. ring.
    - destruct (Nat.eq_dec j a) as [->|Hja]; [|destruct (Nat.eq_dec j b) as [->|Hjb]].
      + rewrite embed2_aa, !embed2_ba by assumption. reflexivity.
      + rewrite embed2_ab, !embed2_bb by assumption. reflexivity.
      + rewrite embed2_a_out, !embed2_b_out by assumption. ring.
    - rewrite !(embed2_out_l a b _ _ _ _ i j) by assumption. reflexivity.
  Qed.

  Lemma embed2_ext a b u00 u01 u10 u11 v00 v01 v10 v11 :
    u00 = v00 -> u01 = v01 -> u10 = v10 -> u11 = v11 ->
    embed2 a b u00 u01 u10 u11 = embed2 a b v00 v01 v10 v11.
  Proof. intros -> -> -> ->. reflexivity. Qed.

  Lemma mmul_phase_l n a e M i j :
    i < n -> mmul n (phase_mat a e) M i j = if i =? a then e * M i j else M i j.
  Proof.
    intros Hi. unfold Mat.mmul. rewrite (sumn_single n i); try assumption.
    - unfold Mat.phase_mat. rewrite Nat.eqb_refl. destruct (i =? a); ring.
    - intros k _ Hk. unfold Mat.phase_mat. apply Nat.eqb_neq in Hk. rewrite Nat.eqb_sym, Hk. ring.
  Qed.

  (* ---- the unit cell: amplitudes c = cos(theta/2), s = sin(theta/2), e = exp(i phi),
          g = i (c + i s), ii = the imaginary unit, h = 1/sqrt 2 ---- *)
  Section Cell.
    Variables (c s e g ii h : K).
    Hypothesis Hc : conj c = c.
    Hypothesis Hs : conj s = s.
    Hypothesis Hcs : c * c = 1 - s * s.
    Hypothesis He : e * conj e = 1.
    Hypothesis Hg : g * conj g = 1.

    Lemma bs_unit2 : unit2 (o:=o) (((- e) * s) * g) (c * g) ((e * c) * g) (s * g).
    Proof.
      unfold unit2. rewrite !sr_conj_mul, sr_conj_opp, Hc, Hs. repeat split.
      - transitivity ((e * conj e) * (g * conj g) * (s * s + c * c)); [ring|]. rewrite He, Hg. ring [Hcs].
      - ring.
      - ring.
      - transitivity ((g * conj g) * (c * c + s * s)); [ring|]. rewrite Hg. ring [Hcs].
    Qed.

    Lemma bs_unit2_adj :
      unit2 (o:=o) (conj (((- e) * s) * g)) (conj ((e * c) * g)) (conj (c * g)) (conj (s * g)).
    Proof.
      unfold unit2. rewrite !sr_conj_inv. rewrite !sr_conj_mul, sr_conj_opp, Hc, Hs. repeat split.
      - transitivity ((g * conj g) * ((e * conj e) * (s * s) + c * c)); [ring|]. rewrite He, Hg. ring [Hcs].
      - transitivity ((g * conj g) * (s * c) * (1 - e * conj e)); [ring|]. rewrite He. ring.
      - transitivity ((g * conj g) * (s * c) * (1 - e * conj e)); [ring|]. rewrite He. ring.
      - transitivity ((g * conj g) * ((e * conj e) * (c * c) + s * s)); [ring|]. rewrite He, Hg. ring [Hcs].
    Qed.

    Lemma bs_unitary_gen n a b :
      a < n -> b < n -> a <> b ->
      unitary o n (embed2 a b (((- e) * s) * g) (c * g) ((e * c) * g) (s * g)).
    Proof.
      intros Ha Hb Hab. apply unitary_embed2; try assumption; [apply bs_unit2 | apply bs_unit2_adj].
    Qed.

    Hypothesis Hii : ii * ii = - (1).
    Hypothesis Hh : h * h + h * h = 1.
    Hypothesis Hgdef : g = ii * (c + ii * s).

    (* bs(m); ps(m, theta); bs(m); with exp(i theta) = (c + i s)^2, after ps(m+1, phi):
       BS . P_m(E) . BS . P_{m+1}(e)  =  the block [[s g, e c g], [c g, -e s g]] on (m, m+1) *)
    Lemma cell_product n m E :
      S m < n -> E = (c + ii * s) * (c + ii * s) ->
      meq n (mmul n (embed2 m (S m) h (ii * h) (ii * h) h)
               (mmul n (phase_mat m E)
                  (mmul n (embed2 m (S m) h (ii * h) (ii * h) h) (phase_mat (S m) e))))
            (embed2 m (S m) (s * g) ((e * c) * g) (c * g) (((- e) * s) * g)).
    Proof.
      intros Hm HE.
      assert (Hne : m <> S m) by lia. assert (Hm' : m < n) by lia.
      eapply meq_trans.
      { apply mmul_compat; [apply meq_refl|]. apply mmul_compat.
        - intros i j _ _. apply (phase_embed2_a m (S m)); assumption.
        - apply mmul_compat; [apply meq_refl|]. intros i j _ _. apply (phase_embed2_b m (S m)); assumption. }
      eapply meq_trans.
      { apply mmul_compat; [apply meq_refl|]. apply mmul_compat; [apply meq_refl|].
        apply embed2_mmul; assumption. }
      eapply meq_trans.
      { apply mmul_compat; [apply meq_refl|]. apply embed2_mmul; assumption. }
      eapply meq_trans; [apply embed2_mmul; assumption|].
      assert (E1 : E - 1 = (1 + 1) * (s * g)) by (rewrite HE, Hgdef; ring [Hcs Hii]).
      assert (E2 : ii * (E + 1) = (1 + 1) * (c * g)) by (rewrite HE, Hgdef; ring [Hcs Hii]).
      assert (H2 : forall x, (h * h) * ((1 + 1) * x) = x).
      { intros x. transitivity ((h * h + h * h) * x); [ring|]. rewrite Hh. ring. }
      intros i j _ _.
      match goal with |- ?A i j = ?B i j => assert (EE : A = B); [|rewrite EE; reflexivity] end.
      apply embed2_ext.
      - transitivity ((h * h) * (E - 1)); [ring [Hii]|]. rewrite E1. apply H2.
      - transitivity (e * ((h * h) * (ii * (E + 1)))); [ring|]. rewrite E2, H2. ring.
      - transitivity ((h * h) * (ii * (E + 1))); [ring|]. rewrite E2. apply H2.
      - transitivity (- e * ((h * h) * (E - 1))); [ring [Hii]|]. rewrite E1, H2. ring.
    Qed.
  End Cell.

  (* ---- one nulling step: right-multiplication by the adjoint of a block on (j, j+1) ---- *)
  Lemma null_update_entry n a b u00 u01 u10 u11 U r x :
    a < n -> b < n -> a <> b -> x < n ->
    mmul n U (madj (embed2 a b u00 u01 u10 u11)) r x =
      if x =? a then U r a * conj u00 + U r b * conj u01
      else if x =? b then U r a * conj u10 + U r b * conj u11 else U r x.
  Proof.
    intros Ha Hb Hab Hx.
    transitivity (mmul n U (embed2 a b (conj u00) (conj u10) (conj u01) (conj u11)) r x).
    - unfold Mat.mmul. apply sumn_ext. intros k _. rewrite madj_embed2 by assumption. reflexivity.
    - apply mmul_embed2_r; assumption.
  Qed.

  Section NullStep.
    Variables (c s e g : K).
    Hypothesis Hc : conj c = c.
    Hypothesis Hs : conj s = s.
    Let T (j : nat) := embed2 j (S j) (((- e) * s) * g) (c * g) ((e * c) * g) (s * g).

    (* the new entry in column j is conj g (c u_{j+1} - conj e . s . u_j) *)
    Lemma null_step_target n U r j :
      S j < n ->
      mmul n U (madj (T j)) r j = conj g * (c * U r (S j) - conj e * s * U r j).
    Proof.
      intros Hj. unfold T. rewrite null_update_entry by lia. rewrite Nat.eqb_refl.
      rewrite !sr_conj_mul, sr_conj_opp, Hc, Hs. ring.
    Qed.

    (* nulling equation  c u_{j+1} = conj e . s . u_j  =>  the target becomes 0 *)
    Lemma null_step_zero n U r j :
      S j < n -> c * U r (S j) = conj e * s * U r j -> mmul n U (madj (T j)) r j = 0.
    Proof. intros Hj H. rewrite null_step_target by assumption. rewrite H. ring. Qed.

    (* a row whose entries in columns j, j+1 vanish keeps them; other columns are untouched *)
    Lemma null_step_keeps_zero n U r j x :
      S j < n -> x < n -> U r x = 0 -> (x = j \/ x = S j -> U r j = 0 /\ U r (S j) = 0) ->
      mmul n U (madj (T j)) r x = 0.
    Proof.
      intros Hj Hx H0 Hpair. unfold T. rewrite null_update_entry by lia.
      destruct (Nat.eqb_spec x j) as [->|Hxj]; [|destruct (Nat.eqb_spec x (S j)) as [->|Hxs]].
      - destruct Hpair as [A B]; [left; reflexivity|]. rewrite A, B. ring.
      - destruct Hpair as [A B]; [right; reflexivity|]. rewrite A, B. ring.
      - exact H0.
    Qed.

    Lemma null_step_other_col n U r j x :
      S j < n -> x < n -> x <> j -> x <> S j -> mmul n U (madj (T j)) r x = U r x.
    Proof.
      intros Hj Hx H1 H2. unfold T. rewrite null_update_entry by lia.
      apply Nat.eqb_neq in H1, H2. rewrite H1, H2. reflexivity.
    Qed.
  End NullStep.

  (* ---- the rebuilt product ---- *)
  Definition nulled (n : nat) (U : mat) (Ts : list mat) : mat :=
    fold_left (fun M T => tab o n (mmul n M (madj T))) Ts U.
  Fixpoint prodT (n : nat) (Ts : list mat) : mat :=
    match Ts with
    | [] => mid
    | T :: Ts' => mmul n (prodT n Ts') T
    end.

  Lemma nulled_compat n Ts U U' : meq n U U' -> meq n (nulled n U Ts) (nulled n U' Ts).
  Proof.
    revert U U'; induction Ts as [|T Ts IH]; intros U U' H; simpl; [exact H|].
    apply IH. eapply meq_trans; [apply tab_spec|]. eapply meq_trans; [|apply meq_sym, tab_spec].
    apply mmul_compat; [exact H|apply meq_refl].
  Qed.

  (* U = (U T1^+ ... TK^+) . TK ... T1 when every T is (left-)unitary *)
  Lemma nulled_rebuild n Ts U :
    Forall (lunit o n) Ts -> meq n U (mmul n (nulled n U Ts) (prodT n Ts)).
  Proof.
    revert U; induction Ts as [|T Ts IH]; intros U HT; simpl.
    - apply meq_sym, mmul_id_r.
    - inversion HT as [|? ? HT1 HT2]; subst.
      set (U1 := tab o n (mmul n U (madj T))).
      apply meq_trans with (mmul n (mmul n (nulled n U1 Ts) (prodT n Ts)) T).
      2:{ intros i j _ _. apply mmul_assoc. }
      apply meq_trans with (mmul n U1 T).
      2:{ apply mmul_compat; [apply IH; assumption|apply meq_refl]. }
      apply meq_trans with (mmul n (mmul n U (madj T)) T).
      2:{ apply mmul_compat; [apply meq_sym, tab_spec|apply meq_refl]. }
      apply meq_trans with (mmul n U (mmul n (madj T) T)).
      2:{ intros i j _ _. symmetry. apply mmul_assoc. }
      apply meq_trans with (mmul n U mid); [apply meq_sym, mmul_id_r|].
      apply mmul_compat; [apply meq_refl|apply meq_sym; exact HT1].
  Qed.

  Lemma nulled_unitary n Ts U :
    Forall (unitary o n) Ts -> unitary o n U -> unitary o n (nulled n U Ts).
  Proof.
    revert U; induction Ts as [|T Ts IH]; intros U HT HU; simpl; [exact HU|].
    inversion HT; subst. apply IH; [assumption|].
    apply unitary_tab, unitary_mmul; [assumption|apply unitary_madj; assumption].
  Qed.

  (* a unitary diagonal matrix has unit-modulus diagonal entries *)
  Lemma diag_unit_modulus n D i :
    lunit o n D -> i < n -> (forall a b, a < n -> b < n -> a <> b -> D a b = 0) ->
    conj (D i i) * D i i = 1.
  Proof.
    intros HD Hi Hoff. specialize (HD i i Hi Hi). unfold Mat.mmul, Mat.madj in HD.
    rewrite (sumn_single n i) in HD; try assumption.
    - rewrite HD. apply mid_eq.
    - intros k Hk Hne. rewrite (Hoff k i) by assumption. ring.
  Qed.

  (* ---- the mode flip ---- *)
  Definition flipm (n : nat) (A : mat) : mat := fun i j => A (n - 1 - i)%nat (n - 1 - j)%nat.

  Lemma sumn_rev n f : sumn n f = sumn n (fun k => f (n - 1 - k)%nat).
  Proof.
    induction n as [|n IH]; [reflexivity|].
    rewrite (sumn_S_l n (fun k => f (S n - 1 - k)%nat)). simpl sumn at 1.
    replace (S n - 1 - 0)%nat with n by lia.
    rewrite IH. rewrite (sumn_ext n (fun i => f (S n - 1 - S i)%nat) (fun k => f (n - 1 - k)%nat))
      by (intros i Hi; f_equal; lia). ring.
  Qed.

  Lemma flipm_mmul n A B : meq n (flipm n (mmul n A B)) (mmul n (flipm n A) (flipm n B)).
  Proof.
    intros i j _ _. unfold flipm, Mat.mmul. rewrite sumn_rev. reflexivity.
  Qed.

  Lemma flipm_flipm n A : meq n (flipm n (flipm n A)) A.
  Proof.
    intros i j Hi Hj. unfold flipm. f_equal; lia.
  Qed.

  Lemma flipm_compat n A B : meq n A B -> meq n (flipm n A) (flipm n B).
  Proof. intros H i j Hi Hj. unfold flipm. apply H; lia. Qed.

  Lemma flipm_embed2 n a b u00 u01 u10 u11 :
    a < n -> b < n ->
    meq n (flipm n (embed2 a b u00 u01 u10 u11)) (embed2 (n - 1 - a) (n - 1 - b) u00 u01 u10 u11).
  Proof.
    intros Ha Hb i j Hi Hj. unfold flipm, Mat.embed2, Mat.mid.
    destruct (Nat.eqb_spec (n - 1 - i) a), (Nat.eqb_spec i (n - 1 - a)); try lia;
    destruct (Nat.eqb_spec (n - 1 - j) a), (Nat.eqb_spec j (n - 1 - a)); try lia;
    destruct (Nat.eqb_spec (n - 1 - j) b), (Nat.eqb_spec j (n - 1 - b)); try lia;
    destruct (Nat.eqb_spec (n - 1 - i) b), (Nat.eqb_spec i (n - 1 - b)); try lia;
    try reflexivity;
    destruct (Nat.eqb_spec (n - 1 - i) (n - 1 - j)), (Nat.eqb_spec i j); try lia; reflexivity.
  Qed.
End Gen.

(* Part 2: the model over complex pairs (cplx o), o an abstract "real" *-ring. *)
Section Model.
  Context {K : Type} {o : ops K} {SR : StarRing o}.
  Let Rr := sr_ring (o:=o).
  Add Ring Kr2 : Rr.
  Notation C := (K * K)%type.
  Notation co := (cplx o).
  Local Notation "0" := (k0 o).
  Local Notation "1" := (k1 o).
  Local Notation "a + b" := (kadd o a b).
  Local Notation "a * b" := (kmul o a b).
  Local Notation "a - b" := (ksub o a b).
  Local Notation "- a" := (kopp o a).
  Local Notation cmat := (@mat C).
  Local Notation cmeq := (@meq C).

  Ltac cx := unfold cre, ci, gph; simpl; unfold cmul, cadd, csub, copp, cconj; simpl; f_equal; ring.

  Lemma cre_conj a : kconj co (cre o a) = cre o a.
  Proof. cx. Qed.
  Lemma ci_sq : kmul co (ci o) (ci o) = kopp co (k1 co).
  Proof. cx. Qed.
  Lemma cmul_1_r (x : C) : kmul co x (k1 co) = x.
  Proof. destruct x. cx. Qed.
  Lemma gph_def c s : gph o c s = kmul co (ci o) (kadd co (cre o c) (kmul co (ci o) (cre o s))).
  Proof. cx. Qed.
  Lemma gph_unit c s : c * c + s * s = 1 -> kmul co (gph o c s) (kconj co (gph o c s)) = k1 co.
  Proof. intros H. unfold gph; simpl; unfold cmul, cconj; simpl. f_equal; [|ring]. rewrite <- H. ring. Qed.
  Lemma cre_cs c s : c * c + s * s = 1 ->
    kmul co (cre o c) (cre o c) = ksub co (k1 co) (kmul co (cre o s) (cre o s)).
  Proof. intros H. unfold cre; simpl; unfold cmul, csub; simpl. f_equal; [|ring]. rewrite <- H. ring. Qed.
  Lemma cis_sq c s : (c, s) = kadd co (cre o c) (kmul co (ci o) (cre o s)).
  Proof. cx. Qed.
  Lemma unit_pair c s : c * c + s * s = 1 -> kmul co (c, s) (kconj co (c, s)) = k1 co.
  Proof. intros H. simpl; unfold cmul, cconj; simpl. f_equal; [|ring]. rewrite <- H. ring. Qed.

  (* bs_matrix is unitary whenever the amplitudes are those of angles *)
  Lemma bs_amp_unitary n m1 m2 c s (e : C) :
    m1 < n -> m2 < n -> m1 <> m2 -> c * c + s * s = 1 -> kmul co e (kconj co e) = k1 co ->
    unitary co n (bs_amp o m1 m2 c s e).
  Proof.
    intros H1 H2 H12 Hcs He. unfold bs_amp.
    apply (bs_unitary_gen (o:=co) (cre o c) (cre o s) e (gph o c s));
      try assumption; try apply cre_conj; [apply cre_cs | apply gph_unit]; assumption.
  Qed.

  Section WithEnv.
    Variable E : env (K:=K).
    Hypothesis Hcis : forall x, fst (e_cis E x) * fst (e_cis E x) + snd (e_cis E x) * snd (e_cis E x) = 1.

    Lemma cis_unit x : kmul co (e_cis E x) (kconj co (e_cis E x)) = k1 co.
    Proof. specialize (Hcis x). destruct (e_cis E x) as [c s]. apply unit_pair. exact Hcis. Qed.

    Lemma bs_matrix_unitary n m1 m2 theta phi :
      m1 < n -> m2 < n -> m1 <> m2 -> unitary co n (bs_matrix o E m1 m2 theta phi).
    Proof.
      intros. unfold bs_matrix. apply bs_amp_unitary; try assumption; [apply Hcis | apply cis_unit].
    Qed.

    (* ---- compile ---- *)
    Definition cstep (n : nat) (M : cmat) (c : comp (K:=K)) : cmat :=
      match c with
      | CBarrier _ => M
      | _ => tab co n (mmul co n (comp_mat o E c) M)
      end.

    Lemma cstep_spec n M c : cmeq n (cstep n M c) (mmul co n (comp_mat o E c) M).
    Proof.
      destruct c; simpl; try apply tab_spec.
      apply meq_sym. apply (mmul_id_l (o:=co)).
    Qed.

    Lemma compile_from_cons n M c l : compile_from o E n M (c :: l) = compile_from o E n (cstep n M c) l.
    Proof. reflexivity. Qed.

    Lemma compile_from_app n M a b :
      compile_from o E n M (a ++ b) = compile_from o E n (compile_from o E n M a) b.
    Proof. unfold compile_from. apply fold_left_app. Qed.

    Lemma cstep_compat n M M' c : cmeq n M M' -> cmeq n (cstep n M c) (cstep n M' c).
    Proof.
      intros H. eapply meq_trans; [apply cstep_spec|]. eapply meq_trans; [|apply meq_sym, cstep_spec].
      apply (mmul_compat (o:=co)); [apply meq_refl|exact H].
    Qed.

    Lemma compile_from_compat n M M' l :
      cmeq n M M' -> cmeq n (compile_from o E n M l) (compile_from o E n M' l).
    Proof.
      revert M M'; induction l as [|c l IH]; intros M M' H; [exact H|].
      rewrite !compile_from_cons. apply IH. apply cstep_compat. exact H.
    Qed.

    Lemma compile_from_mul n M l :
      cmeq n (compile_from o E n M l) (mmul co n (compile o E n l) M).
    Proof.
      unfold compile. revert M; induction l as [|c l IH]; intros M.
      - apply meq_sym. apply (mmul_id_l (o:=co)).
      - rewrite !compile_from_cons.
        set (P := compile_from o E n (mid co) l) in *.
        set (Cm := comp_mat o E c).
        apply meq_trans with (mmul co n P (mmul co n Cm M)).
        { eapply meq_trans; [apply IH|]. apply (mmul_compat (o:=co)); [apply meq_refl|apply cstep_spec]. }
        apply meq_sym.
        apply meq_trans with (mmul co n (mmul co n P Cm) M).
        { apply (mmul_compat (o:=co)); [|apply meq_refl]. eapply meq_trans; [apply IH|].
          apply (mmul_compat (o:=co)); [apply meq_refl|].
          eapply meq_trans; [apply cstep_spec|]. apply (mmul_id_r (o:=co)). }
        intros i j _ _. apply (mmul_assoc (o:=co)).
    Qed.
  
    (* ---- the unit cell of Reck.map compiles to the flipped bs_matrix ---- *)
    Lemma strip_tab n A X Y : cmeq n X Y -> cmeq n (tab co n (mmul co n A X)) (mmul co n A Y).
    Proof.
      intros H. eapply meq_trans; [apply tab_spec|]. apply (mmul_compat (o:=co)); [apply meq_refl|exact H].
    Qed.

    Lemma unit_cell_model n j (pt pp : phase (K:=K)) r c s (e : C) hh :
      S j < n -> c * c + s * s = 1 -> e_bsamp E r = (hh, hh) -> hh * hh + hh * hh = 1 ->
      ph_amp pt = kmul co (c, s) (c, s) -> ph_amp pp = e ->
      cmeq n (compile o E n [CBarrier [(n - j - 2)%nat; S (n - j - 2)%nat]; CPS (S (n - j - 2)%nat) pp;
                             CBS (n - j - 2)%nat (S (n - j - 2)%nat) r; CPS (n - j - 2)%nat pt;
                             CBS (n - j - 2)%nat (S (n - j - 2)%nat) r])
             (flip n (bs_amp o j (S j) c s e)).
    Proof.
      intros Hj Hcs Hbs Hh Hpt Hpp. set (m := (n - j - 2)%nat).
      unfold compile, compile_from. simpl fold_left.
      eapply meq_trans.
      { apply strip_tab, strip_tab, strip_tab. eapply meq_trans; [apply tab_spec|]. apply (mmul_id_r (o:=co)). }
      unfold comp_mat. rewrite Hbs, Hpp. simpl fst; simpl snd.
      eapply meq_trans.
      { eapply (cell_product (o:=co)) with (c := cre o c) (s := cre o s) (g := gph o c s) (ii := ci o).
        - apply cre_cs; assumption.
        - apply ci_sq.
        - unfold cre; simpl; unfold cmul, cadd; simpl. f_equal; [|ring]. rewrite <- Hh. ring.
        - apply gph_def.
        - unfold m. lia.
        - rewrite Hpt, <- cis_sq. reflexivity. }
      assert (E1 : S m = (n - 1 - j)%nat) by (unfold m; lia).
      assert (E2 : m = (n - 1 - S j)%nat) by (unfold m; lia).
      apply meq_sym. eapply meq_trans.
      { unfold bs_amp. apply (flipm_embed2 (o:=co)); lia. }
      rewrite <- E1, <- E2. intros a b _ _. apply (embed2_swap (o:=co)). lia.
    Qed.
  
    (* ---- structure of the nulling loop ---- *)
    Definition T_of (r : nrec (K:=K)) : cmat :=
      bs_matrix o E (nr_j r) (S (nr_j r)) (nr_theta r) (nr_phi r).

    Lemma decomp_loop_nulled n ans st k U :
      snd (decomp_loop o E n ans st k U) =
      nulled (o:=co) n U (map T_of (fst (decomp_loop o E n ans st k U))).
    Proof.
      revert k U; induction st as [|[i j] st IH]; intros k U; [reflexivity|].
      simpl. rewrite IH. reflexivity.
    Qed.

    Lemma decomp_loop_ij n ans st k U :
      map (fun r => (nr_i r, nr_j r)) (fst (decomp_loop o E n ans st k U)) = st.
    Proof.
      revert k U; induction st as [|[i j] st IH]; intros k U; [reflexivity|].
      simpl. rewrite IH. reflexivity.
    Qed.

    Lemma reck_steps_bound n i j : In (i, j) (reck_steps n) -> (i + j + 2 <= n)%nat.
    Proof.
      unfold reck_steps. rewrite in_flat_map. intros [x [Hx H]].
      apply in_map_iff in H as [y [Hy H]]. inversion Hy; subst.
      apply in_seq in Hx, H. lia.
    Qed.

    Lemma decomp_loop_bound n ans k U :
      Forall (fun r => (nr_i r + nr_j r + 2 <= n)%nat) (fst (decomp_loop o E n ans (reck_steps n) k U)).
    Proof.
      apply Forall_forall. intros r Hr. apply reck_steps_bound.
      rewrite <- (decomp_loop_ij n ans (reck_steps n) k U).
      apply (in_map (fun r => (nr_i r, nr_j r))) in Hr. exact Hr.
    Qed.

    Lemma T_of_unitary n r : (S (nr_j r) < n)%nat -> unitary co n (T_of r).
    Proof. intros H. apply bs_matrix_unitary; lia. Qed.

    Lemma reck_decomposition_ok n U ans endo dc :
      reck_decomposition o E n U ans endo = Ok dc ->
      dc = mkDecomp (fst (decomp_loop o E n ans (reck_steps n) 0%nat U)) (map endo (seq 0 n))
                    (snd (decomp_loop o E n ans (reck_steps n) 0%nat U)) /\
      check_unitary o E n U = true /\
      check_null o E n (snd (decomp_loop o E n ans (reck_steps n) 0%nat U)) = true.
    Proof.
      unfold reck_decomposition. destruct (check_unitary o E n U); simpl; [|discriminate].
      destruct (check_null o E n _); simpl; [|discriminate].
      intros H. injection H as <-. auto.
    Qed.

    (* ---- Reck.map with an error model made of constants ---- *)
    Definition dphase (p0 v : K) (amp : C) : phase (K:=K) :=
      mkPhase (pmod o E (v + p0)) (kmul co amp (e_cis E p0)).
    Definition dprec (p0 : K) (r : nrec (K:=K)) : prec (K:=K) :=
      let cs := e_cis E (half o (nr_theta r)) in
      mkPrec (nr_i r) (nr_j r)
             (dphase p0 (nr_theta r) (kmul co (fst cs, snd cs) (fst cs, snd cs)))
             (dphase p0 (nr_phi r) (e_cis E (nr_phi r))).
    Definition dcell (n : nat) (r0 : K) (p : prec (K:=K)) : list (comp (K:=K)) :=
      let m := (n - pr_j p - 2)%nat in
      [CBarrier [m; S m]; CPS (S m) (pr_phi p); CBS m (S m) r0; CPS m (pr_theta p); CBS m (S m) r0].
    Definition default_spec (n : nat) (r0 p0 : K) (dc : decomp (K:=K)) : list (comp (K:=K)) :=
      flat_map (dcell n r0) (map (dprec p0) (dc_recs dc)) ++ [CBarrier (seq 0 n)]
      ++ end_spec n (map (fun a => dphase p0 a (e_cis E a)) (dc_end dc)).

    Lemma program_steps_const fuel recs p0 g :
      program_steps o E fuel recs (mkDobj (DConst p0) g) = Ok (map (dprec p0) recs, mkDobj (DConst p0) g).
    Proof.
      induction recs as [|r recs IH]; [reflexivity|].
      simpl. unfold program_phase. simpl. rewrite IH. reflexivity.
    Qed.

    Lemma program_ends_const fuel ends p0 g :
      program_ends o E fuel ends (mkDobj (DConst p0) g) =
      Ok (map (fun a => dphase p0 a (e_cis E a)) ends, mkDobj (DConst p0) g).
    Proof.
      induction ends as [|a ends IH]; [reflexivity|].
      simpl. unfold program_phase. simpl. rewrite IH. reflexivity.
    Qed.

    Lemma build_cells_const fuel n ps r0 l0 g1 g2 :
      in01 o r0 = true -> in01 o l0 = true -> kgtb o l0 0 = false ->
      build_cells o E fuel n ps (mkDobj (DConst r0) g1) (mkDobj (DConst l0) g2) =
      Ok (flat_map (dcell n r0) ps, (mkDobj (DConst r0) g1, mkDobj (DConst l0) g2)).
    Proof.
      intros Hr Hl Hl0. induction ps as [|p ps IH]; [reflexivity|].
      simpl. rewrite Hr. simpl. unfold cell. rewrite Hr, Hl, Hl0. simpl. rewrite IH. simpl.
      reflexivity.
    Qed.

    Lemma zip_heralds_ok hin hout :
      Forall2 (fun x y : nat * Z => snd x = snd y) hin hout -> zip_heralds hin hout = Ok (hin, hout).
    Proof.
      induction 1 as [|[m1 a] [m2 b] hin hout Hab H IH]; [reflexivity|].
      simpl in Hab. subst b. simpl. rewrite Z.eqb_refl. simpl. rewrite IH. reflexivity.
    Qed.

    Lemma set_random_seed_const em seed tok :
      seed <> SeedBad ->
      has_rng (d_dist (em_bs em)) = false -> has_rng (d_dist (em_loss em)) = false ->
      has_rng (d_dist (em_phase em)) = false ->
      set_random_seed E em seed tok = Ok em.
    Proof.
      intros Hs H1 H2 H3. unfold set_random_seed.
      destruct seed; try contradiction; simpl; unfold reseed; rewrite H1, H2, H3; destruct em; reflexivity.
    Qed.
  
    (* ---- the compiled cells are the flipped product T_K ... T_1 ---- *)
    Lemma flip_mid n : cmeq n (flip n (mid co)) (mid co).
    Proof.
      intros i j Hi Hj. unfold flip, Mat.mid.
      destruct (Nat.eqb_spec (n - 1 - i) (n - 1 - j)), (Nat.eqb_spec i j); try lia; reflexivity.
    Qed.

    Section Cells.
      Variables (r0 hh p0 : K).
      Hypothesis Hbs : e_bsamp E r0 = (hh, hh).
      Hypothesis Hh : hh * hh + hh * hh = 1.
      Hypothesis Hp0 : e_cis E p0 = k1 co.

      Lemma compile_cells n recs :
        Forall (fun r => (nr_i r + nr_j r + 2 <= n)%nat) recs ->
        cmeq n (compile o E n (flat_map (dcell n r0) (map (dprec p0) recs)))
               (flip n (prodT (o:=co) n (map T_of recs))).
      Proof.
        induction recs as [|r recs IH]; intros HF.
        - simpl. apply meq_sym, flip_mid.
        - inversion HF as [|? ? Hr HF']; subst. cbn [flat_map map prodT].
          unfold compile. rewrite compile_from_app.
          eapply meq_trans; [apply compile_from_mul|].
          eapply meq_trans; [|apply meq_sym; apply (flipm_mmul (o:=co))].
          apply (mmul_compat (o:=co)); [apply IH; assumption|].
          unfold dcell, dprec, T_of, bs_matrix. cbn [pr_j pr_phi pr_theta].
          apply (unit_cell_model n (nr_j r) _ _ r0 _ _ _ hh); try assumption.
          + lia.
          + apply Hcis.
          + unfold dphase. cbn [ph_amp]. rewrite Hp0. apply cmul_1_r.
          + unfold dphase. cbn [ph_amp]. rewrite Hp0. apply cmul_1_r.
      Qed.
    End Cells.

    (* ---- a list of phase shifters scales the rows ---- *)
    Fixpoint rowfac (l : list (nat * phase (K:=K))) (i : nat) : C :=
      match l with
      | [] => k1 co
      | mp :: l' => kmul co (rowfac l' i) (if i =? fst mp then ph_amp (snd mp) else k1 co)
      end.

    Let Rc := cplx_ring o.
    Add Ring Cr : Rc.

    Lemma compile_ps_list n M l i j :
      i < n -> j < n ->
      compile_from o E n M (map (fun mp => CPS (fst mp) (snd mp)) l) i j = kmul co (rowfac l i) (M i j).
    Proof.
      intros Hi Hj. revert M; induction l as [|[m p] l IH]; intros M.
      - change (M i j = kmul co (k1 co) (M i j)). ring.
      - cbn [map]. rewrite compile_from_cons, IH. cbn [cstep comp_mat rowfac fst snd].
        rewrite tab_spec by assumption. rewrite (mmul_phase_l (o:=co)) by assumption.
        destruct (i =? m); ring.
    Qed.

    Lemma rowfac_seq n (g : nat -> phase (K:=K)) len : forall a i,
      (a + len <= n)%nat -> i < n ->
      rowfac (map (fun x => ((n - x - 1)%nat, g x)) (seq a len)) i =
      if (a <=? n - 1 - i) && (n - 1 - i <? a + len) then ph_amp (g (n - 1 - i)%nat) else k1 co.
    Proof.
      induction len as [|len IH]; intros a i Hle Hi.
      - simpl. destruct (a <=? n - 1 - i) eqn:E1, (n - 1 - i <? a + 0) eqn:E2; simpl; try reflexivity.
        apply Nat.leb_le in E1. apply Nat.ltb_lt in E2. lia.
      - simpl seq. simpl map. cbn [rowfac fst snd]. rewrite IH by lia.
        destruct (Nat.eqb_spec i (n - a - 1)) as [Heq|Hne].
        + replace (S a <=? n - 1 - i) with false by (symmetry; apply Nat.leb_gt; lia). simpl andb.
          replace (a <=? n - 1 - i) with true by (symmetry; apply Nat.leb_le; lia).
          replace (n - 1 - i <? a + S len) with true by (symmetry; apply Nat.ltb_lt; lia). simpl andb.
          replace (n - 1 - i)%nat with a by lia. ring.
        + destruct (a <=? n - 1 - i) eqn:E1, (S a <=? n - 1 - i) eqn:E2,
            (n - 1 - i <? S a + len) eqn:E3, (n - 1 - i <? a + S len) eqn:E4; simpl andb; try ring;
          repeat match goal with
                 | H : (_ <=? _) = true |- _ => apply Nat.leb_le in H
                 | H : (_ <=? _) = false |- _ => apply Nat.leb_gt in H
                 | H : (_ <? _) = true |- _ => apply Nat.ltb_lt in H
                 | H : (_ <? _) = false |- _ => apply Nat.ltb_ge in H
                 end; lia.
    Qed.

    Lemma combine_seq_map {A} (g : nat -> A) a len :
      combine (seq a len) (map g (seq a len)) = map (fun x => (x, g x)) (seq a len).
    Proof. revert a; induction len as [|len IH]; intros a; simpl; [reflexivity|]. rewrite IH. reflexivity. Qed.

    Lemma end_spec_seq n (g : nat -> phase (K:=K)) :
      end_spec n (map g (seq 0 n)) =
      map (fun mp => CPS (fst mp) (snd mp)) (map (fun x => ((n - x - 1)%nat, g x)) (seq 0 n)).
    Proof. unfold end_spec. rewrite combine_seq_map, !map_map. reflexivity. Qed.
  End WithEnv.
End Model.
