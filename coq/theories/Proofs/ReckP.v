(* Lemmas about Model/Reck.v (property C14). *)
From Coq Require Import ZArith Arith List Bool Lia.
From LW Require Import Base.Num Base.Sums Base.Mat Base.Embed Base.Sx Model.Reck.
Import ListNotations.

Lemma reck_steps_length_2 : length (reck_steps 2) = 1.
Proof. reflexivity. Qed.
