(* Lemmas about Model/Reck.v (property C14).
   Part 1 (Section Gen): algebra over an abstract commutative *-ring playing
   the role of the complex numbers: 2x2 blocks, the unit cell, one nulling
   step, the rebuilt product, the mode flip. *)
From Coq Require Import ZArith Arith List Bool Lia Ring.
From LW Require Import Base.Num Base.Sums Base.Mat Base.Embed Base.Sx Model.Reck.
Import ListNotations.

Section Gen.
  Context {K : Type} {o : ops K} {SR : StarRing o}.
  Let Rr := sr_ring (o:=o).
  Add Ring Kr : Rr.
  Local Notation "0" := (k0 o).
  Local Notation "1" := (k1 o).
  Local Notation "a + b" := (kadd o a b).
  Local Notation "a * b" := (kmul o a b).
  Local Notation "a - b" := (ksub o a b).
  Local Notation "- a" := (kopp o a).
  Local Notation conj := (kconj o).
  Local Notation sumn := (sumn o).
  Local Notation mmul := (mmul o).
  Local Notation madj := (madj o).
  Local Notation mid := (mid o).
  Local Notation meq := (@meq K).
  Local Notation embed2 := (embed2 o).
  Local Notation phase_mat := (phase_mat o).
  Local Notation mat := (@mat K).

  (* ---- entries of an embedded block ---- *)
  Lemma embed2_aa a b u00 u01 u10 u11 : embed2 a b u00 u01 u10 u11 a a = u00.
  Proof. unfold Mat.embed2. rewrite !Nat.eqb_refl. reflexivity. Qed.
  Lemma embed2_ab a b u00 u01 u10 u11 : a <> b -> embed2 a b u00 u01 u10 u11 a b = u01.
  Proof.
    intros H. unfold Mat.embed2. rewrite !Nat.eqb_refl.
    replace (b =? a) with false by (symmetry; apply Nat.eqb_neq; lia). reflexivity.
  Qed.
  Lemma embed2_ba a b u00 u01 u10 u11 : a <> b -> embed2 a b u00 u01 u10 u11 b a = u10.
  Proof.
    intros H. unfold Mat.embed2. rewrite !Nat.eqb_refl.
    replace (b =? a) with false by (symmetry; apply Nat.eqb_neq; lia). reflexivity.
  Qed.
  Lemma embed2_bb a b u00 u01 u10 u11 : a <> b -> embed2 a b u00 u01 u10 u11 b b = u11.
  Proof.
    intros H. unfold Mat.embed2. rewrite !Nat.eqb_refl.
    replace (b =? a) with false by (symmetry; apply Nat.eqb_neq; lia). reflexivity.
  Qed.
  Lemma embed2_a_out a b u00 u01 u10 u11 k : k <> a -> k <> b -> embed2 a b u00 u01 u10 u11 a k = 0.
  Proof.
    intros Ha Hb. unfold Mat.embed2. rewrite Nat.eqb_refl.
    apply Nat.eqb_neq in Ha, Hb. rewrite Ha, Hb. reflexivity.
  Qed.
  Lemma embed2_b_out a b u00 u01 u10 u11 k : a <> b -> k <> a -> k <> b -> embed2 a b u00 u01 u10 u11 b k = 0.
  Proof.
    intros Hab Ha Hb. unfold Mat.embed2. rewrite Nat.eqb_refl.
    replace (b =? a) with false by (symmetry; apply Nat.eqb_neq; lia).
    apply Nat.eqb_neq in Ha, Hb. rewrite Ha, Hb. reflexivity.
  Qed.
  Lemma embed2_out_a a b u00 u01 u10 u11 k : k <> a -> k <> b -> embed2 a b u00 u01 u10 u11 k a = 0.
  Proof.
    intros Ha Hb. rewrite embed2_out_l by assumption. apply mid_neq. assumption.
  Qed.
  Lemma embed2_out_b a b u00 u01 u10 u11 k : k <> a -> k <> b -> embed2 a b u00 u01 u10 u11 k b = 0.
  Proof.
    intros Ha Hb. rewrite embed2_out_l by assumption. apply mid_neq. assumption.
  Qed.

  Lemma embed2_swap a b u00 u01 u10 u11 i j :
    a <> b -> embed2 a b u00 u01 u10 u11 i j = embed2 b a u11 u10 u01 u00 i j.
  Proof.
    intros Hab. unfold Mat.embed2.
    destruct (Nat.eqb_spec i a), (Nat.eqb_spec i b), (Nat.eqb_spec j a), (Nat.eqb_spec j b);
      subst; try lia; reflexivity.
  Qed.

  Lemma phase_embed2_a a b e i j : a <> b -> phase_mat a e i j = embed2 a b e 0 0 1 i j.
  Proof.
    intros Hab. unfold Mat.phase_mat, Mat.embed2, Mat.mid.
    destruct (Nat.eqb_spec i j), (Nat.eqb_spec i a), (Nat.eqb_spec i b), (Nat.eqb_spec j a), (Nat.eqb_spec j b);
      subst; try lia; reflexivity.
  Qed.
  Lemma phase_embed2_b a b e i j : a <> b -> phase_mat b e i j = embed2 a b 1 0 0 e i j.
  Proof.
    intros Hab. unfold Mat.phase_mat, Mat.embed2, Mat.mid.
    destruct (Nat.eqb_spec i j), (Nat.eqb_spec i a), (Nat.eqb_spec i b), (Nat.eqb_spec j a), (Nat.eqb_spec j b);
      subst; try lia; reflexivity.
  Qed.

  (* ---- multiplication by an embedded block: rows / columns a, b ---- *)
  Lemma mmul_embed2_l n a b u00 u01 u10 u11 M i j :
    a < n -> b < n -> a <> b -> i < n ->
    mmul n (embed2 a b u00 u01 u10 u11) M i j =
      if i =? a then u00 * M a j + u01 * M b j
      else if i =? b then u10 * M a j + u11 * M b j else M i j.
  Proof.
    intros Ha Hb Hab Hi. unfold Mat.mmul.
    destruct (Nat.eqb_spec i a) as [->|Hia]; [|destruct (Nat.eqb_spec i b) as [->|Hib]].
    - rewrite (sumn_two n a b) by
        (try assumption; intros k _ H1 H2; rewrite embed2_a_out by assumption; ring).
      rewrite embed2_aa, embed2_ab by assumption. reflexivity.
    - rewrite (sumn_two n a b) by
        (try assumption; intros k _ H1 H2; rewrite embed2_b_out by assumption; ring).
      rewrite embed2_ba, embed2_bb by assumption. reflexivity.
    - rewrite (sumn_single n i); try assumption.
      + rewrite embed2_out_l, mid_eq by assumption. ring.
      + intros k _ Hk. rewrite embed2_out_l, mid_neq by auto. ring.
  Qed.

  Lemma mmul_embed2_r n a b u00 u01 u10 u11 M i j :
    a < n -> b < n -> a <> b -> j < n ->
    mmul n M (embed2 a b u00 u01 u10 u11) i j =
      if j =? a then M i a * u00 + M i b * u10
      else if j =? b then M i a * u01 + M i b * u11 else M i j.
  Proof.
    intros Ha Hb Hab Hj. unfold Mat.mmul.
    destruct (Nat.eqb_spec j a) as [->|Hja]; [|destruct (Nat.eqb_spec j b) as [->|Hjb]].
    - rewrite (sumn_two n a b) by
        (try assumption; intros k _ H1 H2; rewrite embed2_out_a by assumption; ring).
      rewrite embed2_aa, embed2_ba by assumption. reflexivity.
    - rewrite (sumn_two n a b) by
        (try assumption; intros k _ H1 H2; rewrite embed2_out_b by assumption; ring).
      rewrite embed2_ab, embed2_bb by assumption. reflexivity.
    - rewrite (sumn_single n j); try assumption.
      + rewrite embed2_out_r, mid_eq by assumption. ring.
      + intros k _ Hk. rewrite embed2_out_r, mid_neq by auto. ring.
  Qed.

  Lemma embed2_mmul n a b a00 a01 a10 a11 b00 b01 b10 b11 :
    a < n -> b < n -> a <> b ->
    meq n (mmul n (embed2 a b a00 a01 a10 a11) (embed2 a b b00 b01 b10 b11))
          (embed2 a b (a00 * b00 + a01 * b10) (a00 * b01 + a01 * b11)
                      (a10 * b00 + a11 * b10) (a10 * b01 + a11 * b11)).
  Proof.
    intros Ha Hb Hab i j Hi Hj. rewrite mmul_embed2_l by assumption.
    destruct (Nat.eqb_spec i a) as [->|Hia]; [|destruct (Nat.eqb_spec i b) as [->|Hib]].
    - destruct (Nat.eq_dec j a) as [->|Hja]; [|destruct (Nat.eq_dec j b) as [->|Hjb]].
      + rewrite !embed2_aa, embed2_ba by assumption. reflexivity.
      + rewrite !embed2_ab, embed2_bb by assumption. reflexivity.
      + rewrite !embed2_a_out, embed2_b_out by assumption. ring.
    - destruct (Nat.eq_dec j a) as [->|Hja]; [|destruct (Nat.eq_dec j b) as [->|Hjb]].
      + rewrite embed2_aa, !embed2_ba by assumption. reflexivity.
      + rewrite embed2_ab, !embed2_bb by assumption. reflexivity.
      + rewrite embed2_a_out, !embed2_b_out by assumption. ring.
    - rewrite !(embed2_out_l a b _ _ _ _ i j) by assumption. reflexivity.
  Qed.

  Lemma embed2_ext a b u00 u01 u10 u11 v00 v01 v10 v11 :
    u00 = v00 -> u01 = v01 -> u10 = v10 -> u11 = v11 ->
    embed2 a b u00 u01 u10 u11 = embed2 a b v00 v01 v10 v11.
  Proof. intros -> -> -> ->. reflexivity. Qed.

  Lemma mmul_phase_l n a e M i j :
    i < n -> mmul n (phase_mat a e) M i j = if i =? a then e * M i j else M i j.
  Proof.
    intros Hi. unfold Mat.mmul. rewrite (sumn_single n i); try assumption.
    - unfold Mat.phase_mat. rewrite Nat.eqb_refl. destruct (i =? a); ring.
    - intros k _ Hk. unfold Mat.phase_mat. apply Nat.eqb_neq in Hk. rewrite Nat.eqb_sym, Hk. ring.
  Qed.

  (* ---- the unit cell: amplitudes c = cos(theta/2), s = sin(theta/2), e = exp(i phi),
          g = i (c + i s), ii = the imaginary unit, h = 1/sqrt 2 ---- *)
  Section Cell.
    Variables (c s e g ii h : K).
    Hypothesis Hc : conj c = c.
    Hypothesis Hs : conj s = s.
    Hypothesis Hcs : c * c = 1 - s * s.
    Hypothesis He : e * conj e = 1.
    Hypothesis Hg : g * conj g = 1.

    Lemma bs_unit2 : unit2 (o:=o) (((- e) * s) * g) (c * g) ((e * c) * g) (s * g).
    Proof.
      unfold unit2. rewrite !sr_conj_mul, sr_conj_opp, Hc, Hs. repeat split.
      - transitivity ((e * conj e) * (g * conj g) * (s * s + c * c)); [ring|]. rewrite He, Hg. ring [Hcs].
      - ring.
      - ring.
      - transitivity ((g * conj g) * (c * c + s * s)); [ring|]. rewrite Hg. ring [Hcs].
    Qed.

    Lemma bs_unit2_adj :
      unit2 (o:=o) (conj (((- e) * s) * g)) (conj ((e * c) * g)) (conj (c * g)) (conj (s * g)).
    Proof.
      unfold unit2. rewrite !sr_conj_inv. rewrite !sr_conj_mul, sr_conj_opp, Hc, Hs. repeat split.
      - transitivity ((g * conj g) * ((e * conj e) * (s * s) + c * c)); [ring|]. rewrite He, Hg. ring [Hcs].
      - transitivity ((g * conj g) * (s * c) * (1 - e * conj e)); [ring|]. rewrite He. ring.
      - transitivity ((g * conj g) * (s * c) * (1 - e * conj e)); [ring|]. rewrite He. ring.
      - transitivity ((g * conj g) * ((e * conj e) * (c * c) + s * s)); [ring|]. rewrite He, Hg. ring [Hcs].
    Qed.

    Lemma bs_unitary_gen n a b :
      a < n -> b < n -> a <> b ->
      unitary o n (embed2 a b (((- e) * s) * g) (c * g) ((e * c) * g) (s * g)).
    Proof.
      intros Ha Hb Hab. apply unitary_embed2; try assumption; [apply bs_unit2 | apply bs_unit2_adj].
    Qed.

    Hypothesis Hii : ii * ii = - (1).
    Hypothesis Hh : h * h + h * h = 1.
    Hypothesis Hgdef : g = ii * (c + ii * s).

    (* bs(m); ps(m, theta); bs(m); with exp(i theta) = (c + i s)^2, after ps(m+1, phi):
       BS . P_m(E) . BS . P_{m+1}(e)  =  the block [[s g, e c g], [c g, -e s g]] on (m, m+1) *)
    Lemma cell_product n m E :
      S m < n -> E = (c + ii * s) * (c + ii * s) ->
      meq n (mmul n (embed2 m (S m) h (ii * h) (ii * h) h)
               (mmul n (phase_mat m E)
                  (mmul n (embed2 m (S m) h (ii * h) (ii * h) h) (phase_mat (S m) e))))
            (embed2 m (S m) (s * g) ((e * c) * g) (c * g) (((- e) * s) * g)).
    Proof.
      intros Hm HE.
      assert (Hne : m <> S m) by lia. assert (Hm' : m < n) by lia.
      eapply meq_trans.
      { apply mmul_compat; [apply meq_refl|]. apply mmul_compat.
        - intros i j _ _. apply (phase_embed2_a m (S m)); assumption.
        - apply mmul_compat; [apply meq_refl|]. intros i j _ _. apply (phase_embed2_b m (S m)); assumption. }
      eapply meq_trans.
      { apply mmul_compat; [apply meq_refl|]. apply mmul_compat; [apply meq_refl|].
        apply embed2_mmul; assumption. }
      eapply meq_trans.
      { apply mmul_compat; [apply meq_refl|]. apply embed2_mmul; assumption. }
      eapply meq_trans; [apply embed2_mmul; assumption|].
      assert (E1 : E - 1 = (1 + 1) * (s * g)) by (rewrite HE, Hgdef; ring [Hcs Hii]).
      assert (E2 : ii * (E + 1) = (1 + 1) * (c * g)) by (rewrite HE, Hgdef; ring [Hcs Hii]).
      assert (H2 : forall x, (h * h) * ((1 + 1) * x) = x).
      { intros x. transitivity ((h * h + h * h) * x); [ring|]. rewrite Hh. ring. }
      intros i j _ _.
      match goal with |- ?A i j = ?B i j => assert (EE : A = B); [|rewrite EE; reflexivity] end.
      apply embed2_ext.
      - transitivity ((h * h) * (E - 1)); [ring [Hii]|]. rewrite E1. apply H2.
      - transitivity (e * ((h * h) * (ii * (E + 1)))); [ring|]. rewrite E2, H2. ring.
      - transitivity ((h * h) * (ii * (E + 1))); [ring|]. rewrite E2. apply H2.
      - transitivity (- e * ((h * h) * (E - 1))); [ring [Hii]|]. rewrite E1, H2. ring.
    Qed.
  End Cell.

  (* ---- one nulling step: right-multiplication by the adjoint of a block on (j, j+1) ---- *)
  Lemma null_update_entry n a b u00 u01 u10 u11 U r x :
    a < n -> b < n -> a <> b -> x < n ->
    mmul n U (madj (embed2 a b u00 u01 u10 u11)) r x =
      if x =? a then U r a * conj u00 + U r b * conj u01
      else if x =? b then U r a * conj u10 + U r b * conj u11 else U r x.
  Proof.
    intros Ha Hb Hab Hx.
    transitivity (mmul n U (embed2 a b (conj u00) (conj u10) (conj u01) (conj u11)) r x).
    - unfold Mat.mmul. apply sumn_ext. intros k _. rewrite madj_embed2 by assumption. reflexivity.
    - apply mmul_embed2_r; assumption.
  Qed.

  Section NullStep.
    Variables (c s e g : K).
    Hypothesis Hc : conj c = c.
    Hypothesis Hs : conj s = s.
    Let T (j : nat) := embed2 j (S j) (((- e) * s) * g) (c * g) ((e * c) * g) (s * g).

    (* the new entry in column j is conj g (c u_{j+1} - conj e . s . u_j) *)
    Lemma null_step_target n U r j :
      S j < n ->
      mmul n U (madj (T j)) r j = conj g * (c * U r (S j) - conj e * s * U r j).
    Proof.
      intros Hj. unfold T. rewrite null_update_entry by lia. rewrite Nat.eqb_refl.
      rewrite !sr_conj_mul, sr_conj_opp, Hc, Hs. ring.
    Qed.

    (* nulling equation  c u_{j+1} = conj e . s . u_j  =>  the target becomes 0 *)
    Lemma null_step_zero n U r j :
      S j < n -> c * U r (S j) = conj e * s * U r j -> mmul n U (madj (T j)) r j = 0.
    Proof. intros Hj H. rewrite null_step_target by assumption. rewrite H. ring. Qed.

    (* a row whose entries in columns j, j+1 vanish keeps them; other columns are untouched *)
    Lemma null_step_keeps_zero n U r j x :
      S j < n -> x < n -> U r x = 0 -> (x = j \/ x = S j -> U r j = 0 /\ U r (S j) = 0) ->
      mmul n U (madj (T j)) r x = 0.
    Proof.
      intros Hj Hx H0 Hpair. unfold T. rewrite null_update_entry by lia.
      destruct (Nat.eqb_spec x j) as [->|Hxj]; [|destruct (Nat.eqb_spec x (S j)) as [->|Hxs]].
      - destruct Hpair as [A B]; [left; reflexivity|]. rewrite A, B. ring.
      - destruct Hpair as [A B]; [right; reflexivity|]. rewrite A, B. ring.
      - exact H0.
    Qed.

    Lemma null_step_other_col n U r j x :
      S j < n -> x < n -> x <> j -> x <> S j -> mmul n U (madj (T j)) r x = U r x.
    Proof.
      intros Hj Hx H1 H2. unfold T. rewrite null_update_entry by lia.
      apply Nat.eqb_neq in H1, H2. rewrite H1, H2. reflexivity.
    Qed.
  End NullStep.

  (* ---- the rebuilt product ---- *)
  Definition nulled (n : nat) (U : mat) (Ts : list mat) : mat :=
    fold_left (fun M T => tab o n (mmul n M (madj T))) Ts U.
  Fixpoint prodT (n : nat) (Ts : list mat) : mat :=
    match Ts with
    | [] => mid
    | T :: Ts' => mmul n (prodT n Ts') T
    end.

  Lemma nulled_compat n Ts U U' : meq n U U' -> meq n (nulled n U Ts) (nulled n U' Ts).
  Proof.
    revert U U'; induction Ts as [|T Ts IH]; intros U U' H; simpl; [exact H|].
    apply IH. eapply meq_trans; [apply tab_spec|]. eapply meq_trans; [|apply meq_sym, tab_spec].
    apply mmul_compat; [exact H|apply meq_refl].
  Qed.

  (* U = (U T1^+ ... TK^+) . TK ... T1 when every T is (left-)unitary *)
  Lemma nulled_rebuild n Ts U :
    Forall (lunit o n) Ts -> meq n U (mmul n (nulled n U Ts) (prodT n Ts)).
  Proof.
    revert U; induction Ts as [|T Ts IH]; intros U HT; simpl.
    - apply meq_sym, mmul_id_r.
    - inversion HT as [|? ? HT1 HT2]; subst.
      set (U1 := tab o n (mmul n U (madj T))).
      apply meq_trans with (mmul n (mmul n (nulled n U1 Ts) (prodT n Ts)) T).
      2:{ intros i j _ _. apply mmul_assoc. }
      apply meq_trans with (mmul n U1 T).
      2:{ apply mmul_compat; [apply IH; assumption|apply meq_refl]. }
      apply meq_trans with (mmul n (mmul n U (madj T)) T).
      2:{ apply mmul_compat; [apply meq_sym, tab_spec|apply meq_refl]. }
      apply meq_trans with (mmul n U (mmul n (madj T) T)).
      2:{ intros i j _ _. symmetry. apply mmul_assoc. }
      apply meq_trans with (mmul n U mid); [apply meq_sym, mmul_id_r|].
      apply mmul_compat; [apply meq_refl|apply meq_sym; exact HT1].
  Qed.

  Lemma nulled_unitary n Ts U :
    Forall (unitary o n) Ts -> unitary o n U -> unitary o n (nulled n U Ts).
  Proof.
    revert U; induction Ts as [|T Ts IH]; intros U HT HU; simpl; [exact HU|].
    inversion HT; subst. apply IH; [assumption|].
    apply unitary_tab, unitary_mmul; [assumption|apply unitary_madj; assumption].
  Qed.

  (* a unitary diagonal matrix has unit-modulus diagonal entries *)
  Lemma diag_unit_modulus n D i :
    lunit o n D -> i < n -> (forall a b, a < n -> b < n -> a <> b -> D a b = 0) ->
    conj (D i i) * D i i = 1.
  Proof.
    intros HD Hi Hoff. specialize (HD i i Hi Hi). unfold Mat.mmul, Mat.madj in HD.
    rewrite (sumn_single n i) in HD; try assumption.
    - rewrite HD. apply mid_eq.
    - intros k Hk Hne. rewrite (Hoff k i) by assumption. ring.
  Qed.

  (* ---- the mode flip ---- *)
  Definition flipm (n : nat) (A : mat) : mat := fun i j => A (n - 1 - i)%nat (n - 1 - j)%nat.

  Lemma sumn_rev n f : sumn n f = sumn n (fun k => f (n - 1 - k)%nat).
  Proof.
    induction n as [|n IH]; [reflexivity|].
    rewrite (sumn_S_l n (fun k => f (S n - 1 - k)%nat)). simpl sumn at 1.
    replace (S n - 1 - 0)%nat with n by lia.
    rewrite IH. rewrite (sumn_ext n (fun i => f (S n - 1 - S i)%nat) (fun k => f (n - 1 - k)%nat))
      by (intros i Hi; f_equal; lia). ring.
  Qed.

  Lemma flipm_mmul n A B : meq n (flipm n (mmul n A B)) (mmul n (flipm n A) (flipm n B)).
  Proof.
    intros i j _ _. unfold flipm, Mat.mmul. rewrite sumn_rev. reflexivity.
  Qed.

  Lemma flipm_flipm n A : meq n (flipm n (flipm n A)) A.
  Proof.
    intros i j Hi Hj. unfold flipm. f_equal; lia.
  Qed.

  Lemma flipm_compat n A B : meq n A B -> meq n (flipm n A) (flipm n B).
  Proof. intros H i j Hi Hj. unfold flipm. apply H; lia. Qed.

  Lemma eqb_flip n i a : i < n -> a < n -> (n - 1 - i =? a) = (i =? n - 1 - a).
  Proof.
    intros Hi Ha. destruct (Nat.eqb_spec (n - 1 - i) a), (Nat.eqb_spec i (n - 1 - a)); try reflexivity; lia.
  Qed.
  Lemma eqb_flip2 n i j : i < n -> j < n -> (n - 1 - i =? n - 1 - j) = (i =? j).
  Proof.
    intros Hi Hj. destruct (Nat.eqb_spec (n - 1 - i) (n - 1 - j)), (Nat.eqb_spec i j); try reflexivity; lia.
  Qed.

  Lemma flipm_embed2 n a b u00 u01 u10 u11 :
    a < n -> b < n ->
    meq n (flipm n (embed2 a b u00 u01 u10 u11)) (embed2 (n - 1 - a) (n - 1 - b) u00 u01 u10 u11).
  Proof.
    intros Ha Hb i j Hi Hj. unfold flipm, Mat.embed2, Mat.mid.
    rewrite !(eqb_flip n i), !(eqb_flip n j), (eqb_flip2 n i j) by assumption. reflexivity.
  Qed.
End Gen.

(* Part 2: the model over complex pairs (cplx o), o an abstract "real" *-ring. *)
Section Model.
  Context {K : Type} {o : ops K} {SR : StarRing o}.
  Let Rr := sr_ring (o:=o).
  Add Ring Kr2 : Rr.
  Notation C := (K * K)%type.
  Notation co := (cplx o).
  Local Notation "0" := (k0 o).
  Local Notation "1" := (k1 o).
  Local Notation "a + b" := (kadd o a b).
  Local Notation "a * b" := (kmul o a b).
  Local Notation "a - b" := (ksub o a b).
  Local Notation "- a" := (kopp o a).
  Local Notation cmat := (@mat C).
  Local Notation cmeq := (@meq C).

  Ltac cx := unfold cre, ci, gph; simpl; unfold cmul, cadd, csub, copp, cconj; simpl; f_equal; ring.

  Lemma cre_conj a : kconj co (cre o a) = cre o a.
  Proof. cx. Qed.
  Lemma ci_sq : kmul co (ci o) (ci o) = kopp co (k1 co).
  Proof. cx. Qed.
  Lemma cmul_1_r (x : C) : kmul co x (k1 co) = x.
  Proof. destruct x. cx. Qed.
  Lemma gph_def c s : gph o c s = kmul co (ci o) (kadd co (cre o c) (kmul co (ci o) (cre o s))).
  Proof. cx. Qed.
  Lemma gph_unit c s : c * c + s * s = 1 -> kmul co (gph o c s) (kconj co (gph o c s)) = k1 co.
  Proof. intros H. unfold gph; simpl; unfold cmul, cconj; simpl. f_equal; [|ring]. rewrite <- H. ring. Qed.
  Lemma cre_cs c s : c * c + s * s = 1 ->
    kmul co (cre o c) (cre o c) = ksub co (k1 co) (kmul co (cre o s) (cre o s)).
  Proof. intros H. unfold cre; simpl; unfold cmul, csub; simpl. f_equal; [|ring]. rewrite <- H. ring. Qed.
  Lemma cis_sq c s : (c, s) = kadd co (cre o c) (kmul co (ci o) (cre o s)).
  Proof. cx. Qed.
  Lemma unit_pair c s : c * c + s * s = 1 -> kmul co (c, s) (kconj co (c, s)) = k1 co.
  Proof. intros H. simpl; unfold cmul, cconj; simpl. f_equal; [|ring]. rewrite <- H. ring. Qed.

  (* bs_matrix is unitary whenever the amplitudes are those of angles *)
  Lemma bs_amp_unitary n m1 m2 c s (e : C) :
    m1 < n -> m2 < n -> m1 <> m2 -> c * c + s * s = 1 -> kmul co e (kconj co e) = k1 co ->
    unitary co n (bs_amp o m1 m2 c s e).
  Proof.
    intros H1 H2 H12 Hcs He. unfold bs_amp.
    apply (bs_unitary_gen (o:=co) (cre o c) (cre o s) e (gph o c s));
      try assumption; try apply cre_conj; [apply cre_cs | apply gph_unit]; assumption.
  Qed.

  Section WithEnv.
    Variable E : env (K:=K).
    Hypothesis Hcis : forall x, fst (e_cis E x) * fst (e_cis E x) + snd (e_cis E x) * snd (e_cis E x) = 1.

    Lemma cis_unit x : kmul co (e_cis E x) (kconj co (e_cis E x)) = k1 co.
    Proof. specialize (Hcis x). destruct (e_cis E x) as [c s]. apply unit_pair. exact Hcis. Qed.

    Lemma bs_matrix_unitary n m1 m2 theta phi :
      m1 < n -> m2 < n -> m1 <> m2 -> unitary co n (bs_matrix o E m1 m2 theta phi).
    Proof.
      intros. unfold bs_matrix. apply bs_amp_unitary; try assumption; [apply Hcis | apply cis_unit].
    Qed.

    (* ---- compile ---- *)
    Definition cstep (n : nat) (M : cmat) (c : comp (K:=K)) : cmat :=
      match c with
      | CBarrier _ => M
      | _ => tab co n (mmul co n (comp_mat o E c) M)
      end.

    Lemma cstep_spec n M c : cmeq n (cstep n M c) (mmul co n (comp_mat o E c) M).
    Proof.
      destruct c; simpl; try apply tab_spec.
      apply meq_sym. apply (mmul_id_l (o:=co)).
    Qed.

    Lemma compile_from_cons n M c l : compile_from o E n M (c :: l) = compile_from o E n (cstep n M c) l.
    Proof. reflexivity. Qed.

    Lemma compile_from_app n M a b :
      compile_from o E n M (a ++ b) = compile_from o E n (compile_from o E n M a) b.
    Proof. unfold compile_from. apply fold_left_app. Qed.

    Lemma cstep_compat n M M' c : cmeq n M M' -> cmeq n (cstep n M c) (cstep n M' c).
    Proof.
      intros H. eapply meq_trans; [apply cstep_spec|]. eapply meq_trans; [|apply meq_sym, cstep_spec].
      apply (mmul_compat (o:=co)); [apply meq_refl|exact H].
    Qed.

    Lemma compile_from_compat n M M' l :
      cmeq n M M' -> cmeq n (compile_from o E n M l) (compile_from o E n M' l).
    Proof.
      revert M M'; induction l as [|c l IH]; intros M M' H; [exact H|].
      rewrite !compile_from_cons. apply IH. apply cstep_compat. exact H.
    Qed.

    Lemma compile_from_mul n M l :
      cmeq n (compile_from o E n M l) (mmul co n (compile o E n l) M).
    Proof.
      unfold compile. revert M; induction l as [|c l IH]; intros M.
      - apply meq_sym. apply (mmul_id_l (o:=co)).
      - rewrite !compile_from_cons.
        set (P := compile_from o E n (mid co) l) in *.
        set (Cm := comp_mat o E c).
        apply meq_trans with (mmul co n P (mmul co n Cm M)).
        { eapply meq_trans; [apply IH|]. apply (mmul_compat (o:=co)); [apply meq_refl|apply cstep_spec]. }
        apply meq_sym.
        apply meq_trans with (mmul co n (mmul co n P Cm) M).
        { apply (mmul_compat (o:=co)); [|apply meq_refl]. eapply meq_trans; [apply IH|].
          apply (mmul_compat (o:=co)); [apply meq_refl|].
          eapply meq_trans; [apply cstep_spec|]. apply (mmul_id_r (o:=co)). }
        intros i j _ _. apply (mmul_assoc (o:=co)).
    Qed.
  
    (* ---- the unit cell of Reck.map compiles to the flipped bs_matrix ---- *)
    Lemma strip_tab n A X Y : cmeq n X Y -> cmeq n (tab co n (mmul co n A X)) (mmul co n A Y).
    Proof.
      intros H. eapply meq_trans; [apply tab_spec|]. apply (mmul_compat (o:=co)); [apply meq_refl|exact H].
    Qed.

    Lemma unit_cell_model n j (pt pp : phase (K:=K)) r c s (e : C) hh :
      S j < n -> c * c + s * s = 1 -> e_bsamp E r = (hh, hh) -> hh * hh + hh * hh = 1 ->
      ph_amp pt = kmul co (c, s) (c, s) -> ph_amp pp = e ->
      cmeq n (compile o E n [CBarrier [(n - j - 2)%nat; S (n - j - 2)%nat]; CPS (S (n - j - 2)%nat) pp;
                             CBS (n - j - 2)%nat (S (n - j - 2)%nat) r; CPS (n - j - 2)%nat pt;
                             CBS (n - j - 2)%nat (S (n - j - 2)%nat) r])
             (flip n (bs_amp o j (S j) c s e)).
    Proof.
      intros Hj Hcs Hbs Hh Hpt Hpp. set (m := (n - j - 2)%nat).
      unfold compile, compile_from. simpl fold_left.
      eapply meq_trans.
      { apply strip_tab, strip_tab, strip_tab. eapply meq_trans; [apply tab_spec|]. apply (mmul_id_r (o:=co)). }
      unfold comp_mat. rewrite Hbs, Hpp. simpl fst; simpl snd.
      eapply meq_trans.
      { eapply (cell_product (o:=co)) with (c := cre o c) (s := cre o s) (g := gph o c s) (ii := ci o).
        - apply cre_cs; assumption.
        - apply ci_sq.
        - unfold cre; simpl; unfold cmul, cadd; simpl. f_equal; [|ring]. rewrite <- Hh. ring.
        - apply gph_def.
        - unfold m. lia.
        - rewrite Hpt, <- cis_sq. reflexivity. }
      assert (E1 : S m = (n - 1 - j)%nat) by (unfold m; lia).
      assert (E2 : m = (n - 1 - S j)%nat) by (unfold m; lia).
      apply meq_sym. eapply meq_trans.
      { unfold bs_amp. apply (flipm_embed2 (o:=co)); lia. }
      rewrite <- E1, <- E2. intros a b _ _. apply (embed2_swap (o:=co)). lia.
    Qed.
  
    (* ---- structure of the nulling loop ---- *)
    Definition T_of (r : nrec (K:=K)) : cmat :=
      bs_matrix o E (nr_j r) (S (nr_j r)) (nr_theta r) (nr_phi r).

    Lemma decomp_loop_nulled n ans st k U :
      snd (decomp_loop o E n ans st k U) =
      nulled (o:=co) n U (map T_of (fst (decomp_loop o E n ans st k U))).
    Proof.
      revert k U; induction st as [|[i j] st IH]; intros k U; [reflexivity|].
      simpl. rewrite IH. reflexivity.
    Qed.

    Lemma decomp_loop_ij n ans st k U :
      map (fun r => (nr_i r, nr_j r)) (fst (decomp_loop o E n ans st k U)) = st.
    Proof.
      revert k U; induction st as [|[i j] st IH]; intros k U; [reflexivity|].
      simpl. rewrite IH. reflexivity.
    Qed.

    Lemma reck_steps_bound n i j : In (i, j) (reck_steps n) -> (i + j + 2 <= n)%nat.
    Proof.
      unfold reck_steps. rewrite in_flat_map. intros [x [Hx H]].
      apply in_map_iff in H as [y [Hy H]]. inversion Hy; subst.
      apply in_seq in Hx, H. lia.
    Qed.

    Lemma decomp_loop_bound n ans k U :
      Forall (fun r => (nr_i r + nr_j r + 2 <= n)%nat) (fst (decomp_loop o E n ans (reck_steps n) k U)).
    Proof.
      apply Forall_forall. intros r Hr. apply reck_steps_bound.
      rewrite <- (decomp_loop_ij n ans (reck_steps n) k U).
      apply (in_map (fun r => (nr_i r, nr_j r))) in Hr. exact Hr.
    Qed.

    Lemma T_of_unitary n r : (S (nr_j r) < n)%nat -> unitary co n (T_of r).
    Proof. intros H. apply bs_matrix_unitary; lia. Qed.

    Lemma reck_decomposition_ok n U ans endo dc :
      reck_decomposition o E n U ans endo = Ok dc ->
      dc = mkDecomp (fst (decomp_loop o E n ans (reck_steps n) 0%nat U)) (map endo (seq 0 n))
                    (snd (decomp_loop o E n ans (reck_steps n) 0%nat U)) /\
      check_unitary o E n U = true /\
      check_null o E n (snd (decomp_loop o E n ans (reck_steps n) 0%nat U)) = true.
    Proof.
      unfold reck_decomposition. destruct (check_unitary o E n U); simpl; [|discriminate].
      destruct (check_null o E n _); simpl; [|discriminate].
      intros H. injection H as <-. auto.
    Qed.

    (* ---- Reck.map with an error model made of constants ---- *)
    Definition dphase (p0 v : K) (amp : C) : phase (K:=K) :=
      mkPhase (pmod o E (v + p0)) (kmul co amp (e_cis E p0)).
    Definition dprec (p0 : K) (r : nrec (K:=K)) : prec (K:=K) :=
      let cs := e_cis E (half o (nr_theta r)) in
      mkPrec (nr_i r) (nr_j r)
             (dphase p0 (nr_theta r) (kmul co (fst cs, snd cs) (fst cs, snd cs)))
             (dphase p0 (nr_phi r) (e_cis E (nr_phi r))).
    Definition dcell (n : nat) (r0 : K) (p : prec (K:=K)) : list (comp (K:=K)) :=
      let m := (n - pr_j p - 2)%nat in
      [CBarrier [m; S m]; CPS (S m) (pr_phi p); CBS m (S m) r0; CPS m (pr_theta p); CBS m (S m) r0].
    Definition default_spec (n : nat) (r0 p0 : K) (dc : decomp (K:=K)) : list (comp (K:=K)) :=
      flat_map (dcell n r0) (map (dprec p0) (dc_recs dc)) ++ [CBarrier (seq 0 n)]
      ++ end_spec n (map (fun a => dphase p0 a (e_cis E a)) (dc_end dc)).

    Lemma program_steps_const fuel recs p0 g :
      program_steps o E fuel recs (mkDobj (DConst p0) g) = Ok (map (dprec p0) recs, mkDobj (DConst p0) g).
    Proof.
      induction recs as [|r recs IH]; [reflexivity|].
      simpl. unfold program_phase. simpl. rewrite IH. reflexivity.
    Qed.

    Lemma program_ends_const fuel ends p0 g :
      program_ends o E fuel ends (mkDobj (DConst p0) g) =
      Ok (map (fun a => dphase p0 a (e_cis E a)) ends, mkDobj (DConst p0) g).
    Proof.
      induction ends as [|a ends IH]; [reflexivity|].
      simpl. unfold program_phase. simpl. rewrite IH. reflexivity.
    Qed.

    Lemma build_cells_const fuel n ps r0 l0 g1 g2 :
      in01 o r0 = true -> in01 o l0 = true -> kgtb o l0 0 = false ->
      build_cells o E fuel n ps (mkDobj (DConst r0) g1) (mkDobj (DConst l0) g2) =
      Ok (flat_map (dcell n r0) ps, (mkDobj (DConst r0) g1, mkDobj (DConst l0) g2)).
    Proof.
      intros Hr Hl Hl0. induction ps as [|p ps IH]; [reflexivity|].
      simpl. rewrite Hr. simpl. unfold cell. rewrite Hr, Hl, Hl0. simpl. rewrite IH. simpl.
      reflexivity.
    Qed.

    Lemma zip_heralds_ok hin hout :
      Forall2 (fun x y : nat * Z => snd x = snd y) hin hout -> zip_heralds hin hout = Ok (hin, hout).
    Proof.
      induction 1 as [|[m1 a] [m2 b] hin hout Hab H IH]; [reflexivity|].
      simpl in Hab. subst b. simpl. rewrite Z.eqb_refl. simpl. rewrite IH. reflexivity.
    Qed.

    Lemma set_random_seed_const em seed tok :
      seed <> SeedBad ->
      has_rng (d_dist (em_bs em)) = false -> has_rng (d_dist (em_loss em)) = false ->
      has_rng (d_dist (em_phase em)) = false ->
      set_random_seed E em seed tok = Ok em.
    Proof.
      intros Hs H1 H2 H3. unfold set_random_seed.
      destruct seed; try contradiction; simpl; unfold reseed; rewrite H1, H2, H3; destruct em; reflexivity.
    Qed.
  
    (* ---- the compiled cells are the flipped product T_K ... T_1 ---- *)
    Lemma flip_mid n : cmeq n (flip n (mid co)) (mid co).
    Proof.
      intros i j Hi Hj. unfold flip, Mat.mid.
      destruct (Nat.eqb_spec (n - 1 - i) (n - 1 - j)), (Nat.eqb_spec i j); try lia; reflexivity.
    Qed.

    Section Cells.
      Variables (r0 hh p0 : K).
      Hypothesis Hbs : e_bsamp E r0 = (hh, hh).
      Hypothesis Hh : hh * hh + hh * hh = 1.
      Hypothesis Hp0 : e_cis E p0 = k1 co.

      Lemma compile_cells n recs :
        Forall (fun r => (nr_i r + nr_j r + 2 <= n)%nat) recs ->
        cmeq n (compile o E n (flat_map (dcell n r0) (map (dprec p0) recs)))
               (flip n (prodT (o:=co) n (map T_of recs))).
      Proof.
        induction recs as [|r recs IH]; intros HF.
        - simpl. apply meq_sym, flip_mid.
        - inversion HF as [|? ? Hr HF']; subst. cbn [flat_map map prodT].
          unfold compile. rewrite compile_from_app.
          eapply meq_trans; [apply compile_from_mul|].
          eapply meq_trans; [|apply meq_sym; apply (flipm_mmul (o:=co))].
          apply (mmul_compat (o:=co)); [apply IH; assumption|].
          unfold dcell, dprec, T_of, bs_matrix. cbn [pr_j pr_phi pr_theta].
          set (cs := e_cis E (half o (nr_theta r))).
          apply (unit_cell_model n (nr_j r)
                   (dphase p0 (nr_theta r) (kmul co (fst cs, snd cs) (fst cs, snd cs)))
                   (dphase p0 (nr_phi r) (e_cis E (nr_phi r))) r0 (fst cs) (snd cs)
                   (e_cis E (nr_phi r)) hh); try assumption.
          + lia.
          + apply Hcis.
          + unfold dphase. cbn [ph_amp]. rewrite Hp0. apply cmul_1_r.
          + unfold dphase. cbn [ph_amp]. rewrite Hp0. apply cmul_1_r.
      Qed.
    End Cells.

    (* ---- a list of phase shifters scales the rows ---- *)
    Fixpoint rowfac (l : list (nat * phase (K:=K))) (i : nat) : C :=
      match l with
      | [] => k1 co
      | mp :: l' => kmul co (rowfac l' i) (if i =? fst mp then ph_amp (snd mp) else k1 co)
      end.

    Let Rc := cplx_ring o.
    Add Ring Cr : Rc.

    Lemma compile_ps_list n M l i j :
      i < n -> j < n ->
      compile_from o E n M (map (fun mp => CPS (fst mp) (snd mp)) l) i j = kmul co (rowfac l i) (M i j).
    Proof.
      intros Hi Hj. revert M; induction l as [|[m p] l IH]; intros M.
      - change (M i j = kmul co (k1 co) (M i j)). ring.
      - cbn [map]. rewrite compile_from_cons, IH. cbn [cstep comp_mat rowfac fst snd].
        rewrite tab_spec by assumption. rewrite (mmul_phase_l (o:=co)) by assumption.
        destruct (i =? m); ring.
    Qed.

    Lemma rowfac_seq n (g : nat -> phase (K:=K)) len : forall a i,
      (a + len <= n)%nat -> i < n ->
      rowfac (map (fun x => ((n - x - 1)%nat, g x)) (seq a len)) i =
      if (a <=? n - 1 - i) && (n - 1 - i <? a + len) then ph_amp (g (n - 1 - i)%nat) else k1 co.
    Proof.
      induction len as [|len IH]; intros a i Hle Hi.
      - simpl. destruct (a <=? n - 1 - i) eqn:E1, (n - 1 - i <? a + 0) eqn:E2; simpl; try reflexivity.
        apply Nat.leb_le in E1. apply Nat.ltb_lt in E2. lia.
      - simpl seq. simpl map. cbn [rowfac fst snd]. rewrite IH by lia.
        destruct (Nat.eqb_spec i (n - a - 1)) as [Heq|Hne].
        + replace (S a <=? n - 1 - i) with false by (symmetry; apply Nat.leb_gt; lia). simpl andb.
          replace (a <=? n - 1 - i) with true by (symmetry; apply Nat.leb_le; lia).
          replace (n - 1 - i <? a + S len) with true by (symmetry; apply Nat.ltb_lt; lia). simpl andb.
          replace (n - 1 - i)%nat with a by lia. ring.
        + destruct (a <=? n - 1 - i) eqn:E1, (S a <=? n - 1 - i) eqn:E2,
            (n - 1 - i <? S a + len) eqn:E3, (n - 1 - i <? a + S len) eqn:E4; simpl andb; try ring;
          repeat match goal with
                 | H : (_ <=? _) = true |- _ => apply Nat.leb_le in H
                 | H : (_ <=? _) = false |- _ => apply Nat.leb_gt in H
                 | H : (_ <? _) = true |- _ => apply Nat.ltb_lt in H
                 | H : (_ <? _) = false |- _ => apply Nat.ltb_ge in H
                 end; lia.
    Qed.

    Lemma combine_seq_map {A} (g : nat -> A) a len :
      combine (seq a len) (map g (seq a len)) = map (fun x => (x, g x)) (seq a len).
    Proof. revert a; induction len as [|len IH]; intros a; simpl; [reflexivity|]. rewrite IH. reflexivity. Qed.

    Lemma end_spec_seq n (g : nat -> phase (K:=K)) :
      end_spec n (map g (seq 0 n)) =
      map (fun mp => CPS (fst mp) (snd mp)) (map (fun x => ((n - x - 1)%nat, g x)) (seq 0 n)).
    Proof. unfold end_spec. rewrite combine_seq_map, !map_map. reflexivity. Qed.
  
    (* ---- Reck.map with the default (constant) error model reproduces U ---- *)
    Theorem reck_map_default fuel n U hin hout seed tok ans endo g1 g2 g3 r0 hh l0 p0 dc :
      e_bsamp E r0 = (hh, hh) -> hh * hh + hh * hh = 1 -> e_cis E p0 = k1 co ->
      in01 o r0 = true -> in01 o l0 = true -> kgtb o l0 0 = false ->
      seed <> SeedBad ->
      reck_decomposition o E n (tab co n (flip n U)) ans endo = Ok dc ->
      (forall a b, a < n -> b < n -> a <> b -> dc_nulled dc a b = k0 co) ->
      (forall a, a < n -> dc_nulled dc a a = e_cis E (endo a)) ->
      Forall2 (fun x y : nat * Z => snd x = snd y) hin hout ->
      let em := mkEm (mkDobj (DConst r0) g1) (mkDobj (DConst l0) g2) (mkDobj (DConst p0) g3) in
      reck_map o E fuel em n U hin hout seed tok ans endo
        = Ok (mkCirc n (default_spec n r0 p0 dc) hin hout, em) /\
      cmeq n (compile o E n (default_spec n r0 p0 dc)) U.
    Proof.
      intros Hbs Hh Hp0 Hr Hl Hl0 Hseed Hdc Hoff Hdiag Hher em.
      split.
      - unfold reck_map. rewrite set_random_seed_const by (try assumption; reflexivity).
        cbn [bind]. rewrite Hdc. cbn [bind]. unfold em; cbn [em_phase em_bs em_loss].
        rewrite program_steps_const. cbn [bind fst snd]. rewrite program_ends_const. cbn [bind fst snd].
        rewrite build_cells_const by assumption. cbn [bind fst snd].
        rewrite zip_heralds_ok by assumption. cbn [bind fst snd]. reflexivity.
      - apply reck_decomposition_ok in Hdc as [Edc _].
        set (U' := tab co n (flip n U)) in *.
        set (lp := decomp_loop o E n ans (reck_steps n) 0%nat U') in *.
        assert (Erecs : dc_recs dc = fst lp) by (rewrite Edc; reflexivity).
        assert (Eend : dc_end dc = map endo (seq 0 n)) by (rewrite Edc; reflexivity).
        assert (Enul : dc_nulled dc = snd lp) by (rewrite Edc; reflexivity).
        set (Ts := map T_of (fst lp)).
        assert (HD : dc_nulled dc = nulled (o:=co) n U' Ts).
        { rewrite Enul. unfold lp, Ts. apply decomp_loop_nulled. }
        assert (Hb : Forall (fun r => (nr_i r + nr_j r + 2 <= n)%nat) (fst lp)) by apply decomp_loop_bound.
        assert (HT : Forall (lunit co n) Ts).
        { unfold Ts. apply Forall_forall. intros T HT. apply in_map_iff in HT as [r [<- Hr']].
          rewrite Forall_forall in Hb. specialize (Hb r Hr'). apply T_of_unitary. lia. }
        pose proof (nulled_rebuild (o:=co) n Ts U' HT) as Hreb. rewrite <- HD in Hreb.
        unfold default_spec, compile. rewrite !compile_from_app. rewrite Erecs, Eend, map_map.
        rewrite end_spec_seq.
        intros i j Hi Hj. rewrite compile_ps_list by assumption.
        rewrite rowfac_seq by lia.
        replace (0 <=? n - 1 - i) with true by (symmetry; apply Nat.leb_le; lia).
        replace (n - 1 - i <? 0 + n) with true by (symmetry; apply Nat.ltb_lt; lia).
        cbn [andb dphase ph_amp]. rewrite Hp0, cmul_1_r.
        change (compile_from o E n (compile_from o E n (mid co) (flat_map (dcell n r0) (map (dprec p0) (fst lp))))
                  [CBarrier (seq 0 n)])
          with (compile o E n (flat_map (dcell n r0) (map (dprec p0) (fst lp)))).
        rewrite (compile_cells r0 hh p0 Hbs Hh Hp0 n (fst lp) Hb) by assumption.
        fold Ts. unfold flip at 1.
        (* U i j = U' (n-1-i) (n-1-j) = (D . P) (n-1-i) (n-1-j) = D_ii' . P i' j' *)
        transitivity (U' (n - 1 - i)%nat (n - 1 - j)%nat).
        2:{ unfold U'. rewrite tab_spec by lia. unfold flip. f_equal; lia. }
        rewrite (Hreb (n - 1 - i)%nat (n - 1 - j)%nat) by lia.
        unfold Mat.mmul. rewrite (sumn_single (o:=co) n (n - 1 - i)%nat) by
          (try lia; intros k Hk Hne; rewrite Hoff by (try lia; auto); ring).
        rewrite Hdiag by lia. reflexivity.
    Qed.
  End WithEnv.
End Model.

(* Part 3: ErrorModel._set_random_seed as a state machine over generator states. *)
Section Seed.
  Context {K : Type}.
  Notation dobj := (dobj (K:=K)).
  Notation emodel := (emodel (K:=K)).

  (* objects built by the constructors: a Constant carries the placeholder generator *)
  Definition wf_dobj (x : dobj) : Prop := has_rng (d_dist x) = false -> d_rng x = norng.
  Definition wf_em (em : emodel) : Prop :=
    wf_dobj (em_bs em) /\ wf_dobj (em_loss em) /\ wf_dobj (em_phase em).
  Definition same_dists (a b : emodel) : Prop :=
    d_dist (em_bs a) = d_dist (em_bs b) /\ d_dist (em_loss a) = d_dist (em_loss b) /\
    d_dist (em_phase a) = d_dist (em_phase b).

  Lemma reseed_determined (E : env (K:=K)) s tok1 tok2 (x y : dobj) k :
    wf_dobj x -> wf_dobj y -> d_dist x = d_dist y ->
    reseed E (Some s) tok1 x k = reseed E (Some s) tok2 y k.
  Proof.
    intros Hx Hy Hd. unfold reseed. rewrite <- Hd.
    destruct (has_rng (d_dist x)) eqn:Hr; [reflexivity|].
    destruct x as [dx gx], y as [dy gy]. unfold wf_dobj in *. simpl in *. subst dy.
    rewrite Hx, Hy by assumption. reflexivity.
  Qed.

  (* after _set_random_seed s (s an integer) the whole error-model state is a
     function of the distributions and s: prior generator states, prior draws
     and entropy tokens do not matter *)
  Theorem set_random_seed_determined (E : env (K:=K)) em1 em2 s tok1 tok2 :
    wf_em em1 -> wf_em em2 -> same_dists em1 em2 ->
    set_random_seed E em1 (SeedInt s) tok1 = set_random_seed E em2 (SeedInt s) tok2.
  Proof.
    intros (A1 & A2 & A3) (B1 & B2 & B3) (D1 & D2 & D3). unfold set_random_seed. simpl.
    rewrite (reseed_determined E s tok1 tok2 (em_bs em1) (em_bs em2) 0) by assumption.
    rewrite (reseed_determined E s tok1 tok2 (em_loss em1) (em_loss em2)) by assumption.
    rewrite (reseed_determined E s tok1 tok2 (em_phase em1) (em_phase em2)) by assumption.
    reflexivity.
  Qed.

  Definition nrand (l : list (dist (K:=K))) : nat := length (filter has_rng l).

  (* explicit form: the k-th random distribution gets default_rng(ints(s, k)), position 0 *)
  Theorem set_random_seed_rngs (E : env (K:=K)) em s tok :
    exists em', set_random_seed E em (SeedInt s) tok = Ok em' /\
      same_dists em em' /\
      (has_rng (d_dist (em_bs em)) = true ->
         d_rng (em_bs em') = mkRng (Seeded (e_ints E s 0)) 0) /\
      (has_rng (d_dist (em_loss em)) = true ->
         d_rng (em_loss em') = mkRng (Seeded (e_ints E s (nrand [d_dist (em_bs em)]))) 0) /\
      (has_rng (d_dist (em_phase em)) = true ->
         d_rng (em_phase em') = mkRng (Seeded (e_ints E s (nrand [d_dist (em_bs em); d_dist (em_loss em)]))) 0) /\
      (has_rng (d_dist (em_bs em)) = false -> em_bs em' = em_bs em) /\
      (has_rng (d_dist (em_loss em)) = false -> em_loss em' = em_loss em) /\
      (has_rng (d_dist (em_phase em)) = false -> em_phase em' = em_phase em).
  Proof.
    unfold set_random_seed, nrand. simpl. eexists. split; [reflexivity|].
    unfold reseed, same_dists. simpl.
    destruct (has_rng (d_dist (em_bs em))) eqn:H1, (has_rng (d_dist (em_loss em))) eqn:H2,
      (has_rng (d_dist (em_phase em))) eqn:H3; simpl; repeat split; intros; try reflexivity; try discriminate.
  Qed.

  Lemma mk_const_wf v x : mk_const (K:=K) v = Ok x -> wf_dobj x.
  Proof. destruct v; simpl; try discriminate. intros H; injection H as <-. intros _. reflexivity. Qed.
End Seed.

Section SeedMap.
  Context {K : Type} (o : ops K).
  (* the mapped circuit (and the final error-model state) is a function of
     (circuit, distributions, seed): two error models with the same
     distributions and arbitrary histories give the same result *)
  Theorem reck_map_seed_determined (E : env (K:=K)) fuel em1 em2 n U hin hout s tok1 tok2 ans endo :
    wf_em em1 -> wf_em em2 -> same_dists em1 em2 ->
    reck_map o E fuel em1 n U hin hout (SeedInt s) tok1 ans endo =
    reck_map o E fuel em2 n U hin hout (SeedInt s) tok2 ans endo.
  Proof.
    intros H1 H2 H3. unfold reck_map.
    rewrite (set_random_seed_determined E em1 em2 s tok1 tok2 H1 H2 H3). reflexivity.
  Qed.
End SeedMap.

(* Part 4: the real / complex instance. *)
From Coq Require Import Reals Lra RealField.

Definition rleb (a b : R) : bool := if Rle_dec a b then true else false.
Definition reqb (a b : R) : bool := if Req_EM_T a b then true else false.
Definition rops : ops R := mkOps R 0%R 1%R Rplus Rmult Rminus Ropp Rinv (fun x => x) reqb rleb IZR.

Global Instance rops_star : StarRing rops.
Proof.
  constructor; simpl; intros; try reflexivity.
  constructor; simpl; intros; ring.
Qed.

Definition cisR (x : R) : R * R := (cos x, sin x).
Definition Rfloor (x : R) : Z := (up x - 1)%Z.

(* the environment over the reals: cos/sin, sqrt, floor, PI are the real functions;
   thresholds and the three numpy streams are arbitrary *)
Definition renv (eps2 prec uprec2 : R) (ints : Z -> nat -> Z) (unif norm : rsrc -> nat -> R) : env (K:=R) :=
  mkEnv cisR (fun r => (sqrt r, sqrt (1 - r))) sqrt (fun x y => Rfloor (x / y)) PI
        eps2 prec uprec2 ints unif norm.

Section Reals.
  Open Scope R_scope.

  Lemma rleb_true a b : rleb a b = true <-> a <= b.
  Proof. unfold rleb. destruct (Rle_dec a b); split; intros; try assumption; try reflexivity; try discriminate; contradiction. Qed.
  Lemma rleb_false a b : rleb a b = false <-> b < a.
  Proof. unfold rleb. destruct (Rle_dec a b); split; intros; try discriminate; try reflexivity; lra. Qed.
  Lemma kltb_true a b : kltb rops a b = true <-> a < b.
  Proof. unfold kltb. simpl. rewrite negb_true_iff. apply rleb_false. Qed.
  Lemma kltb_false a b : kltb rops a b = false <-> b <= a.
  Proof. unfold kltb. simpl. rewrite negb_false_iff. apply rleb_true. Qed.

  Lemma cisR_unit x : fst (cisR x) * fst (cisR x) + snd (cisR x) * snd (cisR x) = 1.
  Proof. simpl. pose proof (sin2_cos2 x) as H. unfold Rsqr in H. lra. Qed.

  Lemma cisR_0 : cisR 0 = (1, 0).
  Proof. unfold cisR. rewrite cos_0, sin_0. reflexivity. Qed.

  Lemma cisR_add x y : cisR (x + y) = kmul (cplx rops) (cisR x) (cisR y).
  Proof. unfold cisR. simpl. unfold cmul. simpl. rewrite cos_plus, sin_plus. f_equal; ring. Qed.

  Lemma cisR_double x : kmul (cplx rops) (cisR (half rops x)) (cisR (half rops x)) = cisR x.
  Proof.
    rewrite <- cisR_add. f_equal. unfold half, two. simpl. field.
  Qed.

  Lemma cisR_period_nat x (k : nat) : cisR (x + 2 * INR k * PI) = cisR x.
  Proof. unfold cisR. rewrite cos_period, sin_period. reflexivity. Qed.

  Lemma cisR_period x (k : Z) : cisR (x - IZR k * (2 * PI)) = cisR x.
  Proof.
    destruct (Z_le_gt_dec 0 k) as [Hk|Hk].
    - rewrite <- (cisR_period_nat (x - IZR k * (2 * PI)) (Z.to_nat k)).
      f_equal. rewrite INR_IZR_INZ, Z2Nat.id by assumption. ring.
    - rewrite <- (cisR_period_nat x (Z.to_nat (- k))).
      f_equal. rewrite INR_IZR_INZ, Z2Nat.id by lia. rewrite opp_IZR. ring.
  Qed.

  Lemma Rfloor_spec x : IZR (Rfloor x) <= x < IZR (Rfloor x) + 1.
  Proof. unfold Rfloor. rewrite minus_IZR. destruct (archimed x) as [H1 H2]. lra. Qed.

  Section Env.
    Variables (eps2 prec uprec2 : R) (ints : Z -> nat -> Z) (unif norm : rsrc -> nat -> R).
    Let E := renv eps2 prec uprec2 ints unif norm.

    Lemma two_pi_R : two_pi rops E = 2 * PI.
    Proof. unfold two_pi, two. simpl. ring. Qed.

    Lemma pmod_R x : pmod rops E x = x - IZR (Rfloor (x / (2 * PI))) * (2 * PI).
    Proof. unfold pmod. rewrite two_pi_R. reflexivity. Qed.

    (* float % (2 pi), as the real modulo: the programmed value lies in [0, 2 pi) *)
    Lemma pmod_range x : 0 <= pmod rops E x < 2 * PI.
    Proof.
      rewrite pmod_R. pose proof PI_RGT_0 as Hpi.
      destruct (Rfloor_spec (x / (2 * PI))) as [H1 H2].
      set (k := IZR (Rfloor (x / (2 * PI)))) in *.
      assert (Hx : x = (x / (2 * PI)) * (2 * PI)) by (field; lra).
      split.
      - assert (k * (2 * PI) <= (x / (2 * PI)) * (2 * PI)) by (apply Rmult_le_compat_r; lra). lra.
      - assert ((x / (2 * PI)) * (2 * PI) < (k + 1) * (2 * PI)) by (apply Rmult_lt_compat_r; lra). lra.
    Qed.

    Lemma cisR_pmod x : cisR (pmod rops E x) = cisR x.
    Proof. rewrite pmod_R. apply cisR_period. Qed.
  End Env.
End Reals.

Section Reals2.
  Open Scope R_scope.
  Variables (eps2 prec uprec2 : R) (ints : Z -> nat -> Z) (unif norm : rsrc -> nat -> R).
  Let E := renv eps2 prec uprec2 ints unif norm.
  Notation Cr := (cplx rops).

  Lemma Hcis_R : forall x, kadd rops (kmul rops (fst (e_cis E x)) (fst (e_cis E x)))
                                (kmul rops (snd (e_cis E x)) (snd (e_cis E x))) = k1 rops.
  Proof. intros x. apply cisR_unit. Qed.

  (* bs_matrix(theta, phi) is unitary for all real theta, phi *)
  Theorem bs_unitary_R n m1 m2 theta phi :
    (m1 < n)%nat -> (m2 < n)%nat -> m1 <> m2 -> unitary Cr n (bs_matrix rops E m1 m2 theta phi).
  Proof. intros. apply (bs_matrix_unitary (o:=rops) E Hcis_R); assumption. Qed.

  Lemma half_amp_R : e_bsamp E (/ 2) = (sqrt (/ 2), sqrt (/ 2)).
  Proof. simpl. replace (1 - / 2) with (/ 2) by lra. reflexivity. Qed.
  Lemma half_amp_sq : sqrt (/ 2) * sqrt (/ 2) + sqrt (/ 2) * sqrt (/ 2) = 1.
  Proof. rewrite sqrt_sqrt by lra. lra. Qed.

  (* barrier; ps(m+1, phi); bs(m); ps(m, theta); bs(m)  compiles to the flipped bs_matrix(theta, phi),
     m = n - j - 2, for phase shifters whose amplitude is exp(i theta), exp(i phi) *)
  Theorem unit_cell_R n j theta phi (pt pp : phase (K:=R)) :
    (S j < n)%nat -> ph_amp pt = cisR theta -> ph_amp pp = cisR phi ->
    meq n (compile rops E n [CBarrier [(n - j - 2)%nat; S (n - j - 2)]; CPS (S (n - j - 2)) pp;
                             CBS (n - j - 2) (S (n - j - 2)) (/ 2); CPS (n - j - 2) pt;
                             CBS (n - j - 2) (S (n - j - 2)) (/ 2)])
          (flip n (bs_matrix rops E j (S j) theta phi)).
  Proof.
    intros Hj Hpt Hpp.
    eapply (unit_cell_model (o:=rops) E) with (c := cos (half rops theta)) (s := sin (half rops theta))
                                            (e := cisR phi) (hh := sqrt (/ 2)); try assumption.
    - apply (cisR_unit (half rops theta)).
    - apply half_amp_R.
    - apply half_amp_sq.
    - rewrite Hpt. symmetry. apply cisR_double.
  Qed.

  Definition default_em (g1 g2 g3 : rng) : emodel (K:=R) :=
    mkEm (mkDobj (DConst (/ 2)) g1) (mkDobj (DConst 0) g2) (mkDobj (DConst 0) g3).

  Definition comp_ok (n : nat) (c : Reck.comp (K:=R)) : Prop :=
    match c with
    | CBarrier ms => Forall (fun m => (m < n)%nat) ms
    | CPS m p => (m < n)%nat /\ 0 <= ph_val p < 2 * PI /\ ph_amp p = cisR (ph_val p)
    | CBS m1 m2 r => m2 = S m1 /\ (m2 < n)%nat /\ r = / 2
    | CLoss _ _ => False
    end.

  Lemma dphase_ok v amp :
    amp = cisR v ->
    0 <= ph_val (dphase (o:=rops) E 0 v amp) < 2 * PI /\
    ph_amp (dphase (o:=rops) E 0 v amp) = cisR (ph_val (dphase (o:=rops) E 0 v amp)).
  Proof.
    intros ->. unfold dphase. cbn [ph_val ph_amp]. split; [apply pmod_range|].
    change (e_cis E 0) with (cisR 0). unfold E. rewrite cisR_pmod. rewrite cisR_0.
    change (kadd rops v 0) with (v + 0). rewrite Rplus_0_r.
    unfold cisR. simpl. unfold cmul. simpl. f_equal; ring.
  Qed.

  Lemma default_spec_ok n (dc : decomp (K:=R)) :
    Forall (fun r => (nr_i r + nr_j r + 2 <= n)%nat) (dc_recs dc) -> length (dc_end dc) = n ->
    Forall (comp_ok n) (default_spec (o:=rops) E n (/ 2) 0 dc).
  Proof.
    intros Hb Hlen. unfold default_spec. apply Forall_app. split; [|apply Forall_app; split].
    - apply Forall_forall. intros c Hc. apply in_flat_map in Hc as [p [Hp Hc]].
      apply in_map_iff in Hp as [r [<- Hr]]. rewrite Forall_forall in Hb. specialize (Hb r Hr).
      unfold dcell, dprec in Hc. cbn [pr_j pr_phi pr_theta] in Hc.
      destruct Hc as [<-|[<-|[<-|[<-|[<-|[]]]]]]; simpl comp_ok.
      + repeat constructor; lia.
      + split; [lia|]. apply dphase_ok. reflexivity.
      + repeat split; lia.
      + split; [lia|]. apply dphase_ok. exact (cisR_double (nr_theta r)).
      + repeat split; lia.
    - constructor; [|constructor]. simpl. apply Forall_forall. intros m Hm. apply in_seq in Hm. lia.
    - unfold end_spec. apply Forall_forall. intros c Hc. apply in_map_iff in Hc as [[i p] [<- Hip]].
      pose proof (in_combine_l _ _ _ _ Hip) as Hi. pose proof (in_combine_r _ _ _ _ Hip) as Hp.
      apply in_seq in Hi. apply in_map_iff in Hp as [a [<- _]]. simpl.
      split; [lia|]. apply dphase_ok. reflexivity.
  Qed.

  (* Reck.map with the default error model: whenever the decomposition passed its
     own checks and the nulled matrix is diagonal with entries exp(i end_phase),
     the compiled mapped circuit equals U, the heralds are copied, every
     component is a barrier, an adjacent-mode 50:50 beam splitter or a phase
     shifter programmed with a value in [0, 2 pi) *)
  Theorem reck_reconstructs_R fuel n U hin hout seed tok ans endo g1 g2 g3 dc :
    seed <> SeedBad ->
    reck_decomposition rops E n (tab Cr n (flip n U)) ans endo = Ok dc ->
    (forall a b, (a < n)%nat -> (b < n)%nat -> a <> b -> dc_nulled dc a b = (0, 0)) ->
    (forall a, (a < n)%nat -> dc_nulled dc a a = cisR (endo a)) ->
    Forall2 (fun x y : nat * Z => snd x = snd y) hin hout ->
    exists spec,
      reck_map rops E fuel (default_em g1 g2 g3) n U hin hout seed tok ans endo
        = Ok (mkCirc n spec hin hout, default_em g1 g2 g3) /\
      meq n (compile rops E n spec) U /\
      Forall (comp_ok n) spec.
  Proof.
    intros Hseed Hdc Hoff Hdiag Hher.
    exists (default_spec (o:=rops) E n (/ 2) 0 dc).
    destruct (reck_map_default (o:=rops) E Hcis_R fuel n U hin hout seed tok ans endo g1 g2 g3
                (/ 2) (sqrt (/ 2)) 0 0 dc) as [H1 H2]; try assumption.
    - apply half_amp_R.
    - apply half_amp_sq.
    - change (e_cis E 0) with (cisR 0). apply cisR_0.
    - unfold in01. simpl. rewrite andb_true_iff, !rleb_true. lra.
    - unfold in01. simpl. rewrite andb_true_iff, !rleb_true. lra.
    - unfold kgtb. simpl. rewrite negb_false_iff, rleb_true. lra.
    - split; [exact H1|]. split; [exact H2|].
      apply reck_decomposition_ok in Hdc as [Edc _]. apply default_spec_ok.
      + rewrite Edc. cbn [dc_recs]. apply decomp_loop_bound.
      + rewrite Edc. cbn [dc_end]. rewrite map_length, seq_length. reflexivity.
  Qed.
End Reals2.

(* Part 5: distributions over the reals: every returned value lies in the declared bounds. *)
Section Draws.
  Open Scope R_scope.
  Variable E : env (K:=R).

  Definition in_bounds (d : Reck.dist (K:=R)) (v : R) : Prop :=
    match dist_lo d with Some a => a <= v | None => True end /\
    match dist_hi d with Some b => v <= b | None => True end.
  (* what the constructors guarantee *)
  Definition dist_valid (d : Reck.dist (K:=R)) : Prop :=
    match d with DTopHat lo hi => lo <= hi | _ => True end.

  Lemma gauss_loop_bounds fuel src c d lo hi : forall pos v pos',
    gauss_loop rops E fuel src pos c d lo hi = Ok (v, pos') ->
    match lo with Some a => a <= v | None => True end /\
    match hi with Some b => v <= b | None => True end /\ (pos < pos')%nat.
  Proof.
    induction fuel as [|fuel IH]; intros pos v pos' H; simpl in H; [discriminate|].
    destruct (below rops lo _ || above rops hi _) eqn:Hb.
    - apply IH in H. destruct H as (A & B & C). repeat split; try assumption. lia.
    - injection H as <- <-. apply orb_false_iff in Hb as [Hl Hh]. repeat split; try lia.
      + destruct lo as [a|]; [|exact I]. simpl in Hl. apply kltb_false in Hl. exact Hl.
      + destruct hi as [b|]; [|exact I]. simpl in Hh. apply kltb_false in Hh. exact Hh.
  Qed.

  (* Constant / TopHat / bounded Gaussian with resampling: for every raw stream
     (TopHat needs Generator.random() in [0,1)), every value returned lies within
     the declared bounds; the distribution and the generator source are unchanged *)
  Theorem draws_in_bounds fuel (x x' : dobj (K:=R)) v :
    dist_valid (d_dist x) -> (forall src k, 0 <= e_unif E src k < 1) ->
    dist_value rops E fuel x = Ok (v, x') ->
    in_bounds (d_dist x) v /\ d_dist x' = d_dist x /\ r_src (d_rng x') = r_src (d_rng x) /\
    (r_pos (d_rng x) <= r_pos (d_rng x'))%nat.
  Proof.
    intros Hv Hu H. unfold dist_value in H. destruct x as [d g]. simpl in *.
    destruct d as [c|lo hi|c d lo hi]; simpl in *.
    - injection H as <- <-. unfold in_bounds. simpl. repeat split; try lra; lia.
    - injection H as <- <-. unfold in_bounds. simpl. specialize (Hu (r_src g) (r_pos g)).
      repeat split; try lia; nra.
    - destruct (kltb rops d 0); [discriminate|].
      destruct (gauss_loop rops E fuel (r_src g) (r_pos g) c d lo hi) as [[v0 p0]|e] eqn:Hg; simpl in H; [|discriminate].
      injection H as <- <-. apply gauss_loop_bounds in Hg as (A & B & C).
      unfold in_bounds. simpl. repeat split; try assumption. lia.
  Qed.

  Lemma mk_tophat_valid lo hi g x : mk_tophat rops lo hi g = Ok x -> dist_valid (d_dist x).
  Proof.
    destruct lo as [a| |], hi as [b| |]; simpl; try discriminate.
    destruct (kltb rops b a) eqn:Hk; [discriminate|]. intros H; injection H as <-. simpl.
    apply kltb_false in Hk. exact Hk.
  Qed.
  Lemma mk_gauss_valid c d lo hi g x : mk_gauss rops c d lo hi g = Ok x -> dist_valid (d_dist x).
  Proof.
    destruct c, d, lo, hi; simpl; try discriminate;
      try (destruct (kltb rops _ _); try discriminate); intros H; injection H as <-; exact I.
  Qed.
  Lemma mk_const_valid v x : mk_const (K:=R) v = Ok x -> dist_valid (d_dist x).
  Proof. destruct v; simpl; try discriminate. intros H; injection H as <-. exact I. Qed.
End Draws.

(* Part 6: one nulling step of the model. *)
Section NullModel.
  Context {K : Type} {o : ops K} {SR : StarRing o}.
  Let Rr := sr_ring (o:=o).
  Add Ring Kr3 : Rr.
  Notation C := (K * K)%type.
  Notation co := (cplx o).
  Local Notation cmat := (@mat C).

  (* the nulling equation for amplitudes (c, s, e):  c u_{i,j+1} = conj e . s . u_{ij} *)
  Definition null_eq_amp (c s : K) (e u0 u1 : C) : Prop :=
    kmul co (cre o c) u1 = kmul co (kmul co (kconj co e) (cre o s)) u0.

  Lemma null_step_model n (U : cmat) j r c s (e : C) :
    S j < n -> r < n -> null_eq_amp c s e (U r j) (U r (S j)) ->
    null_update o n U (bs_amp o j (S j) c s e) r j = k0 co.
  Proof.
    intros Hj Hr H. unfold null_update. rewrite tab_spec by lia. unfold bs_amp.
    apply (null_step_zero (o:=co) (cre o c) (cre o s) e (gph o c s)); try assumption; apply cre_conj.
  Qed.

  (* value of the target without assuming the equation (the |u| < 1e-20 branch leaves -conj g . u) *)
  Lemma null_step_model_target n (U : cmat) j r c s (e : C) :
    S j < n -> r < n ->
    null_update o n U (bs_amp o j (S j) c s e) r j =
    kmul co (kconj co (gph o c s))
         (ksub co (kmul co (cre o c) (U r (S j))) (kmul co (kmul co (kconj co e) (cre o s)) (U r j))).
  Proof.
    intros Hj Hr. unfold null_update. rewrite tab_spec by lia. unfold bs_amp.
    apply (null_step_target (o:=co) (cre o c) (cre o s) e (gph o c s)); try assumption; apply cre_conj.
  Qed.

  Lemma null_keep_model n (U : cmat) j r x c s (e : C) :
    S j < n -> r < n -> x < n -> U r x = k0 co ->
    (x = j \/ x = S j -> U r j = k0 co /\ U r (S j) = k0 co) ->
    null_update o n U (bs_amp o j (S j) c s e) r x = k0 co.
  Proof.
    intros Hj Hr Hx H0 Hp. unfold null_update. rewrite tab_spec by lia. unfold bs_amp.
    apply (null_step_keeps_zero (o:=co)); assumption.
  Qed.

  Lemma null_unitary_model n (U : cmat) j c s (e : C) :
    S j < n -> kadd o (kmul o c c) (kmul o s s) = k1 o -> kmul co e (kconj co e) = k1 co ->
    unitary co n U -> unitary co n (null_update o n U (bs_amp o j (S j) c s e)).
  Proof.
    intros Hj Hcs He HU. unfold null_update. apply unitary_tab, unitary_mmul; [exact HU|].
    apply unitary_madj. apply bs_amp_unitary; try assumption; lia.
  Qed.
End NullModel.

Section NullReal.
  Open Scope R_scope.
  Notation Cr := (cplx rops).
  Definition cabsR (z : R * R) : R := sqrt (fst z * fst z + snd z * snd z).
  (* contract of np.angle / np.abs:  z = |z| exp(i angle z) *)
  Definition angle_ok (z : R * R) (a : R) : Prop := z = (cabsR z * cos a, cabsR z * sin a).

  Lemma cabsR_pos z : z <> (0, 0) -> 0 < cabsR z.
  Proof.
    intros Hz. unfold cabsR. apply sqrt_lt_R0. destruct z as [x y]. simpl.
    destruct (Req_dec x 0) as [->|Hx]; [destruct (Req_dec y 0) as [->|Hy]; [contradiction Hz; reflexivity|]|]; nra.
  Qed.

  (* the formulas of the code, theta = 2 arctan(|u1| / |u0|), phi = angle u0 - angle u1,
     satisfy the nulling equation whenever u0 <> 0 *)
  Theorem code_answer_nulls (u0 u1 : R * R) a0 a1 :
    u0 <> (0, 0) -> angle_ok u0 a0 -> angle_ok u1 a1 ->
    let theta := 2 * atan (cabsR u1 / cabsR u0) in
    let phi := a0 - a1 in
    null_eq_amp (o:=rops) (cos (half rops theta)) (sin (half rops theta)) (cisR phi) u0 u1.
  Proof.
    intros Hz H0 H1 theta phi. pose proof (cabsR_pos u0 Hz) as Hr0.
    set (r0 := cabsR u0) in *. set (r1 := cabsR u1) in *.
    assert (Hh : half rops theta = atan (r1 / r0)) by (unfold half, two, theta; simpl; field).
    unfold null_eq_amp. rewrite Hh, sin_atan, cos_atan. set (t := r1 / r0).
    assert (Hw : 0 < sqrt (1 + t²)) by (apply sqrt_lt_R0; unfold Rsqr; nra).
    set (w := sqrt (1 + t²)) in *.
    rewrite H0, H1. fold r0 r1. unfold phi, cisR. rewrite cos_minus, sin_minus.
    assert (Ht : t * r0 = r1) by (unfold t; field; lra).
    pose proof (sin2_cos2 a0) as Hsc. unfold Rsqr in Hsc.
    unfold cre. simpl. unfold cmul, cconj. simpl. f_equal.
    - transitivity (/ w * r1 * cos a1); [field; lra|].
      transitivity (/ w * (t * r0) * cos a1 * (sin a0 * sin a0 + cos a0 * cos a0)); [rewrite Hsc, Ht; ring|].
      field. lra.
    - transitivity (/ w * r1 * sin a1); [field; lra|].
      transitivity (/ w * (t * r0) * sin a1 * (sin a0 * sin a0 + cos a0 * cos a0)); [rewrite Hsc, Ht; ring|].
      field. lra.
  Qed.

  (* the |u_ij| < 1e-20 branch, theta = pi, phi = 0, satisfies it when u_ij = 0 *)
  Theorem zero_branch_nulls (u1 : R * R) :
    null_eq_amp (o:=rops) (cos (half rops PI)) (sin (half rops PI)) (cisR 0) (0, 0) u1.
  Proof.
    assert (Hh : half rops PI = PI / 2) by (unfold half, two; simpl; field).
    unfold null_eq_amp. rewrite Hh, cos_PI2, sin_PI2, cisR_0. destruct u1 as [x y].
    unfold cre. simpl. unfold cmul, cconj. simpl. f_equal; ring.
  Qed.
End NullReal.

(* Part 7: one nulling step of the model over the reals, with the code's formulas. *)
Section NullStepR.
  Open Scope R_scope.
  Variables (eps2 prec uprec2 : R) (ints : Z -> nat -> Z) (unif norm : rsrc -> nat -> R).
  Let E := renv eps2 prec uprec2 ints unif norm.
  Notation Cr := (cplx rops).

  Lemma bs_matrix_R m1 m2 theta phi :
    bs_matrix rops E m1 m2 theta phi =
    bs_amp rops m1 m2 (cos (half rops theta)) (sin (half rops theta)) (cisR phi).
  Proof. reflexivity. Qed.

  (* generic branch: theta = 2 arctan(|u_ij+1| / |u_ij|), phi = angle u_ij - angle u_ij+1 zeroes u_ij *)
  Theorem null_step_generic_R n (U : @mat (R * R)) r j a0 a1 :
    (S j < n)%nat -> (r < n)%nat -> U r j <> (0, 0) ->
    angle_ok (U r j) a0 -> angle_ok (U r (S j)) a1 ->
    null_update rops n U
      (bs_matrix rops E j (S j) (2 * atan (cabsR (U r (S j)) / cabsR (U r j))) (a0 - a1)) r j = (0, 0).
  Proof.
    intros Hj Hr Hz H0 H1. rewrite bs_matrix_R.
    apply (null_step_model (o:=rops)); try assumption.
    apply code_answer_nulls; assumption.
  Qed.

  (* the |u_ij| < 1e-20 branch (theta = pi, phi = 0) leaves the target entry as it is:
     exactly zero iff it was exactly zero *)
  Theorem null_step_zero_branch_R n (U : @mat (R * R)) r j :
    (S j < n)%nat -> (r < n)%nat ->
    null_update rops n U (bs_matrix rops E j (S j) PI 0) r j = U r j.
  Proof.
    intros Hj Hr. rewrite bs_matrix_R, (null_step_model_target (o:=rops)) by assumption.
    assert (Hh : half rops PI = PI / 2) by (unfold half, two; simpl; field).
    rewrite Hh, cos_PI2, sin_PI2, cisR_0. destruct (U r j) as [x y], (U r (S j)) as [x1 y1].
    unfold cre, gph. simpl. unfold cmul, cconj, csub. simpl. f_equal; ring.
  Qed.

  (* zeros made earlier survive: an entry outside columns j, j+1 is untouched, and a row
     whose entries in both columns vanish keeps them *)
  Theorem null_step_keeps_R n (U : @mat (R * R)) r j x theta phi :
    (S j < n)%nat -> (r < n)%nat -> (x < n)%nat -> U r x = (0, 0) ->
    (x = j \/ x = S j -> U r j = (0, 0) /\ U r (S j) = (0, 0)) ->
    null_update rops n U (bs_matrix rops E j (S j) theta phi) r x = (0, 0).
  Proof. intros. rewrite bs_matrix_R. apply (null_keep_model (o:=rops)); assumption. Qed.

  Theorem null_step_unitary_R n (U : @mat (R * R)) j theta phi :
    (S j < n)%nat -> unitary Cr n U ->
    unitary Cr n (null_update rops n U (bs_matrix rops E j (S j) theta phi)).
  Proof.
    intros Hj HU. rewrite bs_matrix_R. apply (null_unitary_model (o:=rops)); try assumption.
    - apply (cisR_unit (half rops theta)).
    - apply (cis_unit (o:=rops) E (Hcis_R eps2 prec uprec2 ints unif norm)).
  Qed.
End NullStepR.

(* Part 8: the double loop.  For an exactly unitary input, when every step either meets an
   exactly vanishing entry (zero branch) or an entry of modulus >= 1e-20 (code's formulas),
   the nulled matrix is diagonal with unit-modulus entries, both checks of
   reck_decomposition pass, and Reck.map reproduces U. *)
Section Loop.
  Context {K : Type} (o : ops K).
  Variable E : env (K:=K).

  Lemma decomp_loop_app n ans l1 l2 k U :
    snd (decomp_loop o E n ans (l1 ++ l2) k U) =
    snd (decomp_loop o E n ans l2 (k + length l1) (snd (decomp_loop o E n ans l1 k U))).
  Proof.
    revert k U; induction l1 as [|[i j] l1 IH]; intros k U.
    - simpl. rewrite Nat.add_0_r. reflexivity.
    - simpl. rewrite IH. f_equal. f_equal. lia.
  Qed.
End Loop.

Section Diag.
  Open Scope R_scope.
  Notation Cr := (cplx rops).
  Notation cmat := (@mat (R * R)).

  Lemma fst_sumn n (f : nat -> R * R) : fst (sumn Cr n f) = sumn rops n (fun k => fst (f k)).
  Proof. induction n as [|n IH]; [reflexivity|]. simpl. rewrite IH. reflexivity. Qed.

  Lemma sumn_nonneg n (f : nat -> R) : (forall k, (k < n)%nat -> 0 <= f k) -> 0 <= sumn rops n f.
  Proof.
    induction n as [|n IH]; intros H; simpl; [lra|].
    assert (0 <= sumn rops n f) by (apply IH; intros; apply H; lia).
    assert (0 <= f n) by (apply H; lia). lra.
  Qed.

  Lemma sumn_nonneg_zero n (f : nat -> R) :
    (forall k, (k < n)%nat -> 0 <= f k) -> sumn rops n f = 0 -> forall k, (k < n)%nat -> f k = 0.
  Proof.
    induction n as [|n IH]; intros H Hs k Hk; [lia|]. simpl in Hs.
    assert (A : 0 <= sumn rops n f) by (apply sumn_nonneg; intros; apply H; lia).
    assert (B : 0 <= f n) by (apply H; lia).
    destruct (Nat.eq_dec k n) as [->|Hne]; [lra|].
    apply IH; try lia; [intros; apply H; lia|lra].
  Qed.

  Lemma cnorm2_0 : cnorm2 rops (0, 0) = 0.
  Proof. unfold cnorm2. simpl. ring. Qed.

  Lemma cnorm2_pos_nz u : 0 < cnorm2 rops u -> u <> (0, 0).
  Proof. intros H ->. rewrite cnorm2_0 in H. lra. Qed.

  Lemma cnorm2_nonneg z : 0 <= cnorm2 rops z.
  Proof. unfold cnorm2. simpl. nra. Qed.
  Lemma cnorm2_zero z : cnorm2 rops z = 0 -> z = (0, 0).
  Proof. destruct z as [a b]. unfold cnorm2. simpl. intros H. f_equal; nra. Qed.
  Lemma fst_conj_mul z : fst (kmul Cr (kconj Cr z) z) = cnorm2 rops z.
  Proof. destruct z. unfold cnorm2. simpl. ring. Qed.
  Lemma fst_mul_conj z : fst (kmul Cr z (kconj Cr z)) = cnorm2 rops z.
  Proof. destruct z. unfold cnorm2. simpl. ring. Qed.

  (* column and row norms of a unitary matrix *)
  Lemma unitary_col_norm n (M : cmat) c :
    unitary Cr n M -> (c < n)%nat -> sumn rops n (fun r => cnorm2 rops (M r c)) = 1.
  Proof.
    intros [HL _] Hc. specialize (HL c c Hc Hc). apply (f_equal fst) in HL.
    unfold mmul in HL. rewrite fst_sumn in HL. unfold mid in HL. rewrite Nat.eqb_refl in HL. simpl fst in HL at 2.
    rewrite <- HL. apply sumn_ext. intros r _. unfold madj. symmetry. apply fst_conj_mul.
  Qed.

  Lemma unitary_row_norm n (M : cmat) r :
    unitary Cr n M -> (r < n)%nat -> sumn rops n (fun c => cnorm2 rops (M r c)) = 1.
  Proof.
    intros [_ HR] Hr. specialize (HR r r Hr Hr). apply (f_equal fst) in HR.
    unfold mmul in HR. rewrite fst_sumn in HR. unfold mid in HR. rewrite Nat.eqb_refl in HR. simpl fst in HR at 2.
    rewrite <- HR. apply sumn_ext. intros c _. unfold madj.
    destruct (M r c) as [a b]. unfold cnorm2. simpl. ring.
  Qed.

  (* unitary + zero left of the diagonal  =>  diagonal, with unit-modulus diagonal *)
  Theorem unitary_triangular_diagonal n (M : cmat) :
    unitary Cr n M ->
    (forall r x, (r < n)%nat -> (x < r)%nat -> M r x = (0, 0)) ->
    forall k, (k < n)%nat ->
      cnorm2 rops (M k k) = 1 /\ (forall x, (x < n)%nat -> x <> k -> M k x = (0, 0)).
  Proof.
    intros HU Htri k. induction k as [k IH] using lt_wf_ind. intros Hk.
    assert (Hkk : cnorm2 rops (M k k) = 1).
    { rewrite <- (unitary_col_norm n M k HU Hk).
      symmetry. apply (sumn_single (o:=rops) n k (fun r => cnorm2 rops (M r k)) Hk).
      intros r Hr Hne. destruct (lt_dec r k) as [Hlt|Hge].
      - destruct (IH r Hlt ltac:(lia)) as [_ Hoff]. rewrite Hoff by lia. apply cnorm2_0.
      - rewrite Htri by lia. apply cnorm2_0. }
    split; [exact Hkk|].
    set (h := fun x => if Nat.eqb x k then 0 else cnorm2 rops (M k x)).
    assert (Hh0 : sumn rops n h = 0).
    { assert (Hsplit : sumn rops n h =
                       ksub rops (sumn rops n (fun x => cnorm2 rops (M k x)))
                                 (sumn rops n (fun x => if Nat.eqb x k then cnorm2 rops (M k x) else k0 rops))).
      { rewrite <- (sumn_sub (o:=rops)). apply sumn_ext. intros x _. unfold h.
        destruct (Nat.eqb x k); simpl; ring. }
      rewrite Hsplit, (unitary_row_norm n M k HU Hk), (sumn_delta (o:=rops)) by assumption.
      rewrite Hkk. simpl. ring. }
    intros x Hx Hne. apply cnorm2_zero.
    assert (Hnn : forall y, (y < n)%nat -> 0 <= h y).
    { intros y _. unfold h. destruct (Nat.eqb y k); [lra|apply cnorm2_nonneg]. }
    pose proof (sumn_nonneg_zero n h Hnn Hh0 x Hx) as Hx0. unfold h in Hx0.
    apply Nat.eqb_neq in Hne. rewrite Hne in Hx0. exact Hx0.
  Qed.

  (* a unit-modulus number is exp(i angle) *)
  Lemma unit_angle z a : cnorm2 rops z = 1 -> angle_ok z a -> z = cisR a.
  Proof.
    intros H1 Ha. unfold angle_ok in Ha. rewrite Ha. unfold cisR.
    assert (Habs : cabsR z = 1).
    { unfold cabsR. unfold cnorm2 in H1. simpl in H1. rewrite H1. apply sqrt_1. }
    rewrite Habs. f_equal; ring.
  Qed.

  (* np.flip(U, axis=(0,1)) of a unitary is unitary *)
  Lemma flip_lunit n (A : cmat) : lunit Cr n A -> lunit Cr n (flip n A).
  Proof.
    intros H. unfold lunit.
    eapply meq_trans; [|apply (flip_mid (o:=rops))].
    eapply meq_trans; [apply meq_sym; apply (flipm_mmul (o:=Cr) n (madj Cr A) A)|].
    exact (flipm_compat n (mmul Cr n (madj Cr A) A) (mid Cr) H).
  Qed.

  Lemma flip_unitary n (A : cmat) : unitary Cr n A -> unitary Cr n (flip n A).
  Proof. intros [H1 H2]. split; [apply flip_lunit, H1|apply (flip_lunit n (madj Cr A)), H2]. Qed.
End Diag.

Section Tri.
  Open Scope R_scope.
  Variables (eps2 prec uprec2 : R) (ints : Z -> nat -> Z) (unif norm : rsrc -> nat -> R).
  Let E := renv eps2 prec uprec2 ints unif norm.
  Notation Cr := (cplx rops).
  Notation cmat := (@mat (R * R)).

  (* what is assumed of one step: the entry to null is exactly zero, or it is not below the
     1e-20 threshold and the oracle's answer is the code's formula for some valid np.angle values *)
  Definition step_ok (ans : nat -> R * R) (k : nat) (u0 u1 : R * R) : Prop :=
    u0 = (0, 0) \/
    (eps2 <= cnorm2 rops u0 /\
     exists a0 a1, angle_ok u0 a0 /\ angle_ok u1 a1 /\
                   ans k = (2 * atan (cabsR u1 / cabsR u0), a0 - a1)).

  (* the matrix after one iteration of the loop body of the model *)
  Definition loop_step (n : nat) (ans : nat -> R * R) (k : nat) (U : cmat) (i j : nat) : cmat :=
    let a := null_answer rops E ans k (U (n - 1 - i)%nat j) in
    null_update rops n U (bs_matrix rops E j (S j) (fst (fst a)) (snd (fst a))).

  Fixpoint steps_ok (n : nat) (ans : nat -> R * R) (st : list (nat * nat)) (k : nat) (U : cmat) : Prop :=
    match st with
    | [] => True
    | (i, j) :: st' =>
        step_ok ans k (U (n - 1 - i)%nat j) (U (n - 1 - i)%nat (S j)) /\
        steps_ok n ans st' (S k) (loop_step n ans k U i j)
    end.

  Lemma decomp_loop_cons n ans i j st k U :
    snd (decomp_loop rops E n ans ((i, j) :: st) k U) =
    snd (decomp_loop rops E n ans st (S k) (loop_step n ans k U i j)).
  Proof. reflexivity. Qed.

  Lemma steps_ok_app n ans l1 l2 k U :
    steps_ok n ans (l1 ++ l2) k U <->
    steps_ok n ans l1 k U /\
    steps_ok n ans l2 (k + length l1) (snd (decomp_loop rops E n ans l1 k U)).
  Proof.
    revert k U; induction l1 as [|[i j] l1 IH]; intros k U.
    - simpl. rewrite Nat.add_0_r. tauto.
    - cbn [app steps_ok length]. rewrite IH, decomp_loop_cons.
      replace (S k + length l1)%nat with (k + S (length l1))%nat by lia. tauto.
  Qed.

  (* one iteration zeroes its target *)
  Lemma loop_step_target n ans k U i j :
    0 < eps2 -> (i + j + 2 <= n)%nat ->
    step_ok ans k (U (n - 1 - i)%nat j) (U (n - 1 - i)%nat (S j)) ->
    loop_step n ans k U i j (n - 1 - i)%nat j = (0, 0).
  Proof.
    intros Heps Hij Hs. unfold loop_step, null_answer.
    change (e_eps2 E) with eps2. change (e_pi E) with PI.
    destruct Hs as [H0|(Hge & a0 & a1 & A0 & A1 & Hans)].
    - rewrite H0, cnorm2_0.
      replace (kltb rops 0 eps2) with true by (symmetry; apply kltb_true; exact Heps).
      cbn [fst snd]. change (k0 rops) with 0.
      rewrite (null_step_zero_branch_R eps2 prec uprec2 ints unif norm) by lia. exact H0.
    - replace (kltb rops (cnorm2 rops (U (n - 1 - i)%nat j)) eps2) with false
        by (symmetry; apply kltb_false; exact Hge).
      cbn [fst snd]. rewrite Hans. cbn [fst snd].
      apply (null_step_generic_R eps2 prec uprec2 ints unif norm); try assumption; try lia.
      apply cnorm2_pos_nz. lra.
  Qed.

  (* rows below row n-1-i are zero left of the diagonal; row n-1-i is zero left of column j *)
  Definition tri_inv (n i j : nat) (U : cmat) : Prop :=
    forall r x, (r < n)%nat -> (x < r)%nat ->
                ((n - 1 - i < r)%nat \/ (r = n - 1 - i /\ x < j)%nat) -> U r x = (0, 0).

  Lemma loop_step_inv n ans k U i j :
    0 < eps2 -> (i + j + 2 <= n)%nat ->
    step_ok ans k (U (n - 1 - i)%nat j) (U (n - 1 - i)%nat (S j)) ->
    tri_inv n i j U -> tri_inv n i (S j) (loop_step n ans k U i j).
  Proof.
    intros Heps Hij Hs Hinv r x Hr Hx Hc.
    destruct (Nat.eq_dec r (n - 1 - i)) as [Hrl|Hrl].
    - destruct (Nat.eq_dec x j) as [->|Hxj].
      + subst r. apply loop_step_target; assumption.
      + assert (Hxlt : (x < j)%nat) by lia.
        assert (Hz : U r x = (0, 0)) by (apply Hinv; lia).
        unfold loop_step. apply (null_step_keeps_R eps2 prec uprec2 ints unif norm); try lia; exact Hz.
    - assert (Hgt : (n - 1 - i < r)%nat) by lia.
      assert (Hz : U r x = (0, 0)) by (apply Hinv; lia).
      assert (Hz1 : U r j = (0, 0)) by (apply Hinv; lia).
      assert (Hz2 : U r (S j) = (0, 0)) by (apply Hinv; lia).
      unfold loop_step. apply (null_step_keeps_R eps2 prec uprec2 ints unif norm); try lia; try exact Hz.
      intros _. split; assumption.
  Qed.

  Lemma inner_loop_inv n ans i len : forall j0 k U,
    0 < eps2 -> (i + j0 + len + 1 = n)%nat ->
    steps_ok n ans (map (fun j => (i, j)) (seq j0 len)) k U ->
    tri_inv n i j0 U ->
    tri_inv n i (j0 + len) (snd (decomp_loop rops E n ans (map (fun j => (i, j)) (seq j0 len)) k U)).
  Proof.
    induction len as [|len IH]; intros j0 k U Heps Hn Hs Hinv.
    - simpl. rewrite Nat.add_0_r. exact Hinv.
    - cbn [seq map] in *. rewrite decomp_loop_cons. destruct Hs as [Hs1 Hs2].
      replace (j0 + S len)%nat with (S j0 + len)%nat by lia.
      apply IH; try assumption; try lia.
      apply loop_step_inv; try assumption. lia.
  Qed.

  Lemma tri_inv_next n i U : (i + 1 < n)%nat -> tri_inv n i (n - 1 - i) U -> tri_inv n (S i) 0 U.
  Proof.
    intros Hi H r x Hr Hx Hc. apply H; try assumption.
    destruct Hc as [Hc|[_ Hc]]; [|lia].
    destruct (Nat.eq_dec r (n - 1 - i)); [right; lia|left; lia].
  Qed.

  Definition steps_from (n i0 m : nat) : list (nat * nat) :=
    flat_map (fun i => map (fun j => (i, j)) (seq 0 (n - 1 - i))) (seq i0 m).

  Lemma outer_loop_inv n ans m : forall i0 k U,
    0 < eps2 -> (i0 + m + 1 = n)%nat ->
    steps_ok n ans (steps_from n i0 m) k U ->
    tri_inv n i0 0 U ->
    tri_inv n (i0 + m) 0 (snd (decomp_loop rops E n ans (steps_from n i0 m) k U)).
  Proof.
    induction m as [|m IH]; intros i0 k U Heps Hn Hs Hinv.
    - simpl. rewrite Nat.add_0_r. exact Hinv.
    - unfold steps_from in *. cbn [seq flat_map] in *.
      apply steps_ok_app in Hs as [Hs1 Hs2]. rewrite decomp_loop_app.
      replace (i0 + S m)%nat with (S i0 + m)%nat by lia.
      apply IH; try assumption; try lia.
      apply tri_inv_next; [lia|].
      apply (inner_loop_inv n ans i0 (n - 1 - i0) 0 k U Heps); try assumption; lia.
  Qed.

  (* the loop invariant at the end: everything left of the diagonal is zero *)
  Theorem nulled_lower_zero n ans U :
    0 < eps2 -> steps_ok n ans (reck_steps n) 0 U ->
    forall r x, (r < n)%nat -> (x < r)%nat ->
      snd (decomp_loop rops E n ans (reck_steps n) 0 U) r x = (0, 0).
  Proof.
    intros Heps Hs r x Hr Hx.
    change (reck_steps n) with (steps_from n 0 (n - 1)) in *.
    assert (H : tri_inv n (0 + (n - 1)) 0 (snd (decomp_loop rops E n ans (steps_from n 0 (n - 1)) 0 U))).
    { apply outer_loop_inv; try assumption; [lia|]. intros r' x' Hr' Hx' [Hc|[_ Hc]]; lia. }
    apply H; try assumption. left. lia.
  Qed.
End Tri.

Section Main.
  Open Scope R_scope.
  Variables (eps2 prec uprec2 : R) (ints : Z -> nat -> Z) (unif norm : rsrc -> nat -> R).
  Let E := renv eps2 prec uprec2 ints unif norm.
  Notation Cr := (cplx rops).
  Notation cmat := (@mat (R * R)).
  Notation steps_ok := (steps_ok eps2 prec uprec2 ints unif norm).

  (* check_unitary accepts an exactly unitary matrix *)
  Lemma check_unitary_exact n (U : cmat) :
    0 <= uprec2 -> lunit Cr n U -> check_unitary rops E n U = true.
  Proof.
    intros Hp HU. unfold check_unitary. apply forallb_forall. intros i Hi. apply forallb_forall. intros j Hj.
    apply in_seq in Hi, Hj. rewrite (HU i j) by lia.
    change (e_uprec2 E) with uprec2. apply rleb_true.
    destruct (mid Cr i j) as [a b]. unfold cnorm2. simpl.
    replace ((a - a) * (a - a) + (b - b) * (b - b)) with 0 by ring. exact Hp.
  Qed.

  (* check_null accepts a diagonal matrix *)
  Lemma check_null_diag n (D : cmat) :
    0 < prec -> (forall a b, (a < n)%nat -> (b < n)%nat -> a <> b -> D a b = (0, 0)) ->
    check_null rops E n D = true.
  Proof.
    intros Hp HD. unfold check_null. apply forallb_forall. intros i Hi. apply forallb_forall. intros j Hj.
    apply in_seq in Hi, Hj. destruct (Nat.eqb_spec i j) as [|Hne]; [reflexivity|].
    rewrite HD by lia. change (e_prec E) with prec. cbn [fst snd]. unfold kgtb. simpl.
    replace (rleb 0 prec) with true by (symmetry; apply rleb_true; lra).
    replace (rleb 0 0) with true by (symmetry; apply rleb_true; lra).
    simpl. rewrite andb_false_r. reflexivity.
  Qed.

  (* T2 (partial): the nulled matrix is unitary and diagonal with unit-modulus entries *)
  Theorem nulled_is_diagonal_partial n (U : cmat) ans :
    0 < eps2 -> unitary Cr n U -> steps_ok n ans (reck_steps n) 0%nat U ->
    let D := snd (decomp_loop rops E n ans (reck_steps n) 0%nat U) in
    unitary Cr n D /\
    (forall a b, (a < n)%nat -> (b < n)%nat -> a <> b -> D a b = (0, 0)) /\
    (forall a, (a < n)%nat -> cnorm2 rops (D a a) = 1).
  Proof.
    intros Heps HU Hs D.
    assert (HDU : unitary Cr n D).
    { unfold D. rewrite (decomp_loop_nulled (o:=rops)). apply (nulled_unitary (o:=Cr)); [|exact HU].
      apply Forall_forall. intros T HT. apply in_map_iff in HT as [r [<- Hr]].
      pose proof (decomp_loop_bound (o:=rops) E n ans 0%nat U) as Hb. rewrite Forall_forall in Hb.
      specialize (Hb r Hr). apply (T_of_unitary (o:=rops) E (Hcis_R eps2 prec uprec2 ints unif norm)). lia. }
    assert (Htri : forall r x, (r < n)%nat -> (x < r)%nat -> D r x = (0, 0)).
    { intros r x Hr Hx. unfold D. apply (nulled_lower_zero eps2 prec uprec2 ints unif norm); assumption. }
    split; [exact HDU|]. split.
    - intros a b Ha Hb Hab. destruct (unitary_triangular_diagonal n D HDU Htri a Ha) as [_ Hoff]. apply Hoff; [assumption|auto].
    - intros a Ha. destruct (unitary_triangular_diagonal n D HDU Htri a Ha) as [H1 _]. exact H1.
  Qed.

  (* hence reck_decomposition raises neither ValueError nor DecompositionUnsuccessful *)
  Theorem reck_decomposition_succeeds_partial n (U : cmat) ans endo :
    0 < eps2 -> 0 < prec -> 0 <= uprec2 ->
    unitary Cr n U -> steps_ok n ans (reck_steps n) 0%nat U ->
    let D := snd (decomp_loop rops E n ans (reck_steps n) 0%nat U) in
    (forall a, (a < n)%nat -> angle_ok (D a a) (endo a)) ->
    exists dc, reck_decomposition rops E n U ans endo = Ok dc /\
      dc_nulled dc = D /\
      (forall a b, (a < n)%nat -> (b < n)%nat -> a <> b -> dc_nulled dc a b = (0, 0)) /\
      (forall a, (a < n)%nat -> dc_nulled dc a a = cisR (endo a)).
  Proof.
    intros Heps Hprec Hup HU Hs D Hang.
    destruct (nulled_is_diagonal_partial n U ans Heps HU Hs) as (HDU & Hoff & Hdiag). fold D in HDU, Hoff, Hdiag.
    unfold reck_decomposition.
    rewrite (check_unitary_exact n U Hup (proj1 HU)). cbn [negb].
    fold D. rewrite (check_null_diag n D Hprec Hoff). cbn [negb].
    eexists. split; [reflexivity|]. cbn [dc_nulled]. split; [reflexivity|]. split; [exact Hoff|].
    intros a Ha. apply unit_angle; [apply Hdiag|apply Hang]; assumption.
  Qed.

  (* end to end: Reck.map with the default error model reproduces every exactly unitary U
     whose decomposition never meets an entry of modulus strictly between 0 and 1e-20 *)
  Theorem reck_map_reproduces_partial fuel n (U : cmat) hin hout seed tok ans endo g1 g2 g3 :
    0 < eps2 -> 0 < prec -> 0 <= uprec2 ->
    unitary Cr n U -> seed <> SeedBad ->
    let U' := tab Cr n (flip n U) in
    let D := snd (decomp_loop rops E n ans (reck_steps n) 0%nat U') in
    steps_ok n ans (reck_steps n) 0%nat U' ->
    (forall a, (a < n)%nat -> angle_ok (D a a) (endo a)) ->
    Forall2 (fun x y : nat * Z => snd x = snd y) hin hout ->
    exists spec,
      reck_map rops E fuel (default_em g1 g2 g3) n U hin hout seed tok ans endo
        = Ok (mkCirc n spec hin hout, default_em g1 g2 g3) /\
      meq n (compile rops E n spec) U /\
      Forall (comp_ok n) spec.
  Proof.
    intros Heps Hprec Hup HU Hseed U' D Hs Hang Hher.
    assert (HU' : unitary Cr n U') by (apply unitary_tab, flip_unitary, HU).
    destruct (reck_decomposition_succeeds_partial n U' ans endo Heps Hprec Hup HU' Hs Hang)
      as (dc & Hdc & _ & Hoff & Hdiag).
    exact (reck_reconstructs_R eps2 prec uprec2 ints unif norm fuel n U hin hout seed tok ans endo g1 g2 g3 dc
             Hseed Hdc Hoff Hdiag Hher).
  Qed.
End Main.

(* Part 9: a concrete instance of the hypotheses of [reck_map_reproduces_partial]
   (non-vacuity): the 2 x 2 identity, thresholds 1/4, the zero branch is taken. *)
Section ExampleId2.
  Open Scope R_scope.
  Variables (ints : Z -> nat -> Z) (unif norm : rsrc -> nat -> R).
  Notation Cr := (cplx rops).
  Let E := renv (/ 4) (/ 4) 0 ints unif norm.
  Let U' : @mat (R * R) := tab Cr 2 (flip 2 (mid Cr)).

  Lemma ex_U' i j : (i < 2)%nat -> (j < 2)%nat -> U' i j = mid Cr i j.
  Proof.
    intros Hi Hj. unfold U'. rewrite tab_spec by lia. unfold flip.
    destruct i as [|[|i]], j as [|[|j]]; try lia; reflexivity.
  Qed.

  Lemma angle_ok_1 : angle_ok (1, 0) 0.
  Proof.
    unfold angle_ok, cabsR. simpl. rewrite cos_0, sin_0.
    replace (1 * 1 + 0 * 0) with 1 by ring. rewrite sqrt_1. f_equal; ring.
  Qed.
  Lemma angle_ok_m1 : angle_ok (-1, 0) PI.
  Proof.
    unfold angle_ok, cabsR. simpl. rewrite cos_PI, sin_PI.
    replace (-1 * -1 + 0 * 0) with 1 by ring. rewrite sqrt_1. f_equal; ring.
  Qed.

  Theorem example_identity2 :
    let ans : nat -> R * R := fun _ => (0, 0) in
    let endo : nat -> R := fun a => if Nat.eqb a 0 then 0 else PI in
    unitary Cr 2 (mid Cr) /\
    steps_ok (/ 4) (/ 4) 0 ints unif norm 2 ans (reck_steps 2) 0%nat U' /\
    (forall a, (a < 2)%nat ->
       angle_ok (snd (decomp_loop rops E 2 ans (reck_steps 2) 0%nat U') a a) (endo a)) /\
    (* the zero branch is the one taken *)
    map (fun r => nr_small r) (fst (decomp_loop rops E 2 ans (reck_steps 2) 0%nat U')) = [true].
  Proof.
    intros ans endo.
    assert (H10 : U' 1%nat 0%nat = (0, 0)) by (rewrite ex_U' by lia; reflexivity).
    assert (Hsmall : kltb rops (cnorm2 rops (U' 1%nat 0%nat)) (/ 4) = true).
    { rewrite H10, cnorm2_0. apply kltb_true. lra. }
    split; [apply (unitary_mid (o:=Cr))|]. split; [|split].
    - change (reck_steps 2) with [(0%nat, 0%nat)]. cbn [steps_ok]. split; [|exact Logic.I].
      left. exact H10.
    - intros a Ha. change (reck_steps 2) with [(0%nat, 0%nat)].
      rewrite (decomp_loop_cons (/ 4) (/ 4) 0 ints unif norm). cbn [decomp_loop snd].
      unfold loop_step, null_answer. change (e_eps2 (renv (/ 4) (/ 4) 0 ints unif norm)) with (/ 4).
      change (2 - 1 - 0)%nat with 1%nat. rewrite Hsmall. cbn [fst snd].
      change (e_pi (renv (/ 4) (/ 4) 0 ints unif norm)) with PI. change (k0 rops) with 0.
      rewrite (bs_matrix_R (/ 4) (/ 4) 0 ints unif norm).
      assert (Hh : half rops PI = PI / 2) by (unfold half, two; simpl; field).
      rewrite Hh, cos_PI2, sin_PI2, cisR_0.
      unfold null_update. rewrite tab_spec by lia. unfold bs_amp.
      rewrite (null_update_entry (o:=Cr)) by lia.
      destruct a as [|[|a]]; [| |lia].
      + cbn [Nat.eqb]. rewrite !ex_U' by lia. cbn [endo Nat.eqb].
        match goal with |- angle_ok ?z _ => replace z with ((1, 0) : R * R) end; [apply angle_ok_1|].
        unfold cre, gph, mid. simpl. unfold cmul, cadd, cconj, copp. simpl. f_equal; ring.
      + cbn [Nat.eqb]. rewrite !ex_U' by lia. cbn [endo Nat.eqb].
        match goal with |- angle_ok ?z _ => replace z with ((-1, 0) : R * R) end; [apply angle_ok_m1|].
        unfold cre, gph, mid. simpl. unfold cmul, cadd, cconj, copp. simpl. f_equal; ring.
    - change (reck_steps 2) with [(0%nat, 0%nat)]. cbn [decomp_loop fst map nr_small].
      unfold null_answer. change (e_eps2 E) with (/ 4). change (2 - 1 - 0)%nat with 1%nat.
      rewrite Hsmall. reflexivity.
  Qed.
End ExampleId2.

(* Part 10: with ANY error model the mapped circuit is a sub-unitary (a contraction:
   it never increases the norm of a vector); without loss elements it is unitary. *)
Section Contraction.
  Open Scope R_scope.
  Notation Cr := (cplx rops).
  Notation cmat := (@mat (R * R)).
  Notation vec := (nat -> R * R).

  Definition vnorm2 (n : nat) (v : vec) : R := sumn rops n (fun k => cnorm2 rops (v k)).
  (* M v, as the first column of a matrix product *)
  Definition mvec (n : nat) (M : cmat) (v : vec) : vec := fun i => mmul Cr n M (fun k _ => v k) i 0%nat.
  Definition contraction (n : nat) (M : cmat) : Prop := forall v, vnorm2 n (mvec n M v) <= vnorm2 n v.

  Lemma vnorm2_ext n v w : (forall k, (k < n)%nat -> v k = w k) -> vnorm2 n v = vnorm2 n w.
  Proof. intros H. unfold vnorm2. apply sumn_ext. intros k Hk. rewrite H by assumption. reflexivity. Qed.

  Lemma mvec_compat n A B v i : meq n A B -> (i < n)%nat -> mvec n A v i = mvec n B v i.
  Proof.
    intros H Hi. unfold mvec. apply (mmul_compat (o:=Cr) n A B _ _ H (meq_refl n _)); lia || assumption.
  Qed.

  Lemma mvec_mmul n A B v i : (i < n)%nat -> mvec n (mmul Cr n A B) v i = mvec n A (mvec n B v) i.
  Proof.
    intros Hi. unfold mvec. rewrite (mmul_assoc (o:=Cr)). reflexivity.
  Qed.

  Lemma contraction_compat n A B : meq n A B -> contraction n A -> contraction n B.
  Proof.
    intros H HA v. rewrite (vnorm2_ext n (mvec n B v) (mvec n A v)); [apply HA|].
    intros k Hk. symmetry. apply mvec_compat; assumption.
  Qed.

  Lemma contraction_mmul n A B : contraction n A -> contraction n B -> contraction n (mmul Cr n A B).
  Proof.
    intros HA HB v.
    rewrite (vnorm2_ext n _ (mvec n A (mvec n B v))) by (intros; apply mvec_mmul; assumption).
    eapply Rle_trans; [apply HA|apply HB].
  Qed.

  Lemma contraction_tab n A : contraction n A -> contraction n (tab Cr n A).
  Proof. apply contraction_compat, meq_sym, tab_spec. Qed.

  (* a vector changed in at most two places *)
  Lemma vnorm2_two n a b (v w : vec) :
    (a < n)%nat -> (b < n)%nat -> a <> b ->
    (forall k, (k < n)%nat -> k <> a -> k <> b -> w k = v k) ->
    cnorm2 rops (w a) + cnorm2 rops (w b) <= cnorm2 rops (v a) + cnorm2 rops (v b) ->
    vnorm2 n w <= vnorm2 n v.
  Proof.
    intros Ha Hb Hab Hout Hle.
    pose proof (sumn_sub (o:=rops) n (fun k => cnorm2 rops (w k)) (fun k => cnorm2 rops (v k))) as S1.
    assert (S2 : sumn rops n (fun k => ksub rops (cnorm2 rops (w k)) (cnorm2 rops (v k))) =
                 kadd rops (ksub rops (cnorm2 rops (w a)) (cnorm2 rops (v a)))
                           (ksub rops (cnorm2 rops (w b)) (cnorm2 rops (v b)))).
    { apply (sumn_two (o:=rops) n a b
               (fun k => ksub rops (cnorm2 rops (w k)) (cnorm2 rops (v k)))); try assumption.
      intros k Hk H1 H2. rewrite Hout by assumption. simpl. ring. }
    cbv beta in S1. rewrite S2 in S1. unfold vnorm2. cbn [ksub kadd rops] in S1. lra.
  Qed.

  Lemma vnorm2_one n a (v w : vec) :
    (a < n)%nat -> (forall k, (k < n)%nat -> k <> a -> w k = v k) ->
    cnorm2 rops (w a) <= cnorm2 rops (v a) -> vnorm2 n w <= vnorm2 n v.
  Proof.
    intros Ha Hout Hle.
    pose proof (sumn_sub (o:=rops) n (fun k => cnorm2 rops (w k)) (fun k => cnorm2 rops (v k))) as S1.
    assert (S2 : sumn rops n (fun k => ksub rops (cnorm2 rops (w k)) (cnorm2 rops (v k))) =
                 ksub rops (cnorm2 rops (w a)) (cnorm2 rops (v a))).
    { apply (sumn_single (o:=rops) n a
               (fun k => ksub rops (cnorm2 rops (w k)) (cnorm2 rops (v k)))); try assumption.
      intros k Hk H1. rewrite Hout by assumption. simpl. ring. }
    cbv beta in S1. rewrite S2 in S1. unfold vnorm2. cbn [ksub kadd rops] in S1. lra.
  Qed.

  (* beam splitter [[c, i s], [i s, c]] with real c, s, c^2 + s^2 = 1, on modes a <> b *)
  Lemma contraction_bs n a b c s :
    (a < n)%nat -> (b < n)%nat -> a <> b -> c * c + s * s = 1 ->
    contraction n (embed2 Cr a b (cre rops c) (kmul Cr (ci rops) (cre rops s))
                          (kmul Cr (ci rops) (cre rops s)) (cre rops c)).
  Proof.
    intros Ha Hb Hab Hcs v. apply (vnorm2_two n a b); try assumption.
    - intros k Hk H1 H2. unfold mvec. rewrite (mmul_embed2_l (o:=Cr)) by assumption.
      apply Nat.eqb_neq in H1, H2. rewrite H1, H2. reflexivity.
    - unfold mvec. rewrite !(mmul_embed2_l (o:=Cr)) by assumption.
      rewrite Nat.eqb_refl. replace (b =? a)%nat with false by (symmetry; apply Nat.eqb_neq; lia).
      rewrite Nat.eqb_refl. destruct (v a) as [x1 y1], (v b) as [x2 y2].
      unfold cre, ci, cnorm2. simpl. unfold cmul, cadd. simpl.
      assert (Hs : s * s = 1 - c * c) by lra.
      apply Req_le. ring_simplify. 
      replace (s ^ 2) with (1 - c ^ 2) by (simpl; lra). ring.
  Qed.

  (* diagonal factor e with |e| <= 1 on mode a (phase shifter: |e| = 1; loss: e = sqrt(1 - l)) *)
  Lemma contraction_phase n a e :
    (a < n)%nat -> cnorm2 rops e <= 1 -> contraction n (phase_mat Cr a e).
  Proof.
    intros Ha He v. apply (vnorm2_one n a); try assumption.
    - intros k Hk H1. unfold mvec. rewrite (mmul_phase_l (o:=Cr)) by assumption.
      apply Nat.eqb_neq in H1. rewrite H1. reflexivity.
    - unfold mvec. rewrite (mmul_phase_l (o:=Cr)) by assumption. rewrite Nat.eqb_refl.
      destruct e as [e1 e2], (v a) as [x y]. unfold cnorm2 in *. simpl in *. unfold cmul. simpl.
      assert (0 <= x * x + y * y) by nra.
      replace ((e1 * x - e2 * y) * (e1 * x - e2 * y) + (e1 * y + e2 * x) * (e1 * y + e2 * x))
        with ((e1 * e1 + e2 * e2) * (x * x + y * y)) by ring.
      nra.
  Qed.

  Lemma contraction_mid n : contraction n (mid Cr).
  Proof.
    intros v. apply Req_le. apply vnorm2_ext. intros k Hk. unfold mvec.
    apply (mmul_id_l (o:=Cr)); lia.
  Qed.
End Contraction.

Section NoisyMap.
  Open Scope R_scope.
  Variables (eps2 prec uprec2 : R) (ints : Z -> nat -> Z) (unif norm : rsrc -> nat -> R).
  Let E := renv eps2 prec uprec2 ints unif norm.
  Notation Cr := (cplx rops).
  Notation cmat := (@mat (R * R)).

  (* what every emitted component satisfies, whatever the error model *)
  Definition comp_sub (n : nat) (c : Reck.comp (K:=R)) : Prop :=
    match c with
    | CBarrier _ => True
    | CPS m p => (m < n)%nat /\ cnorm2 rops (ph_amp p) = 1
    | CBS m1 m2 r => (m1 < n)%nat /\ m2 = S m1 /\ (m2 < n)%nat /\ 0 <= r <= 1
    | CLoss m l => (m < n)%nat /\ 0 <= l <= 1
    end.
  Definition not_loss (c : Reck.comp (K:=R)) : Prop := match c with CLoss _ _ => False | _ => True end.

  Lemma cnorm2_mul a b : cnorm2 rops (kmul Cr a b) = cnorm2 rops a * cnorm2 rops b.
  Proof. destruct a, b. unfold cnorm2. simpl. ring. Qed.
  Lemma cnorm2_cmul a b : cnorm2 rops (cmul rops a b) = cnorm2 rops a * cnorm2 rops b.
  Proof. exact (cnorm2_mul a b). Qed.
  Lemma cnorm2_cis x : cnorm2 rops (cisR x) = 1.
  Proof. apply (cisR_unit x). Qed.
  Lemma unit_conj_mul e : cnorm2 rops e = 1 -> kmul Cr (kconj Cr e) e = k1 Cr.
  Proof. destruct e as [x y]. unfold cnorm2. simpl. intros H. unfold cmul, cconj. simpl. f_equal; [lra|ring]. Qed.

  Lemma bsamp_sq r : 0 <= r <= 1 -> fst (e_bsamp E r) * fst (e_bsamp E r) + snd (e_bsamp E r) * snd (e_bsamp E r) = 1.
  Proof. intros Hr. simpl. rewrite !sqrt_sqrt by lra. lra. Qed.

  Lemma comp_sub_contraction n c : comp_sub n c -> contraction n (comp_mat rops E c).
  Proof.
    destruct c as [ms|m p|m1 m2 r|m l]; simpl comp_sub; intros H.
    - apply contraction_mid.
    - destruct H as [Hm Hp]. apply contraction_phase; [assumption|apply Req_le; exact Hp].
    - destruct H as (H1 & -> & H2 & Hr). apply contraction_bs; try assumption; try lia. apply bsamp_sq. exact Hr.
    - destruct H as [Hm Hl]. apply contraction_phase; [assumption|].
      unfold cre, cnorm2. simpl. rewrite sqrt_sqrt by lra. lra.
  Qed.

  Lemma comp_sub_unitary n c : comp_sub n c -> not_loss c -> unitary Cr n (comp_mat rops E c).
  Proof.
    destruct c as [ms|m p|m1 m2 r|m l]; simpl comp_sub; intros H Hn.
    - apply (unitary_mid (o:=Cr)).
    - destruct H as [Hm Hp]. apply (unitary_phase (o:=Cr)). apply unit_conj_mul. exact Hp.
    - destruct H as (H1 & -> & H2 & Hr). pose proof (bsamp_sq r Hr) as Hcs.
      cbn [comp_mat]. set (c := fst (e_bsamp E r)) in *. set (s := snd (e_bsamp E r)) in *.
      apply (unitary_embed2 (o:=Cr)); try assumption; try lia;
        unfold unit2, cre, ci; simpl; unfold cmul, cadd, cconj; simpl;
        repeat split; f_equal; try ring; try (ring_simplify; nra).
    - destruct Hn.
  Qed.

  Lemma compile_from_contraction n spec : forall M,
    Forall (comp_sub n) spec -> contraction n M -> contraction n (compile_from rops E n M spec).
  Proof.
    induction spec as [|c spec IH]; intros M HF HM; [exact HM|].
    inversion HF; subst. rewrite (compile_from_cons (o:=rops) E). apply IH; [assumption|].
    apply (contraction_compat n (mmul Cr n (comp_mat rops E c) M)).
    - apply meq_sym. apply (cstep_spec (o:=rops) E).
    - apply contraction_mmul; [apply comp_sub_contraction; assumption|exact HM].
  Qed.

  Lemma compile_from_unitary n spec : forall M,
    Forall (comp_sub n) spec -> Forall not_loss spec -> unitary Cr n M ->
    unitary Cr n (compile_from rops E n M spec).
  Proof.
    induction spec as [|c spec IH]; intros M HF HN HM; [exact HM|].
    inversion HF; inversion HN; subst. rewrite (compile_from_cons (o:=rops) E). apply IH; try assumption.
    apply (unitary_compat (o:=Cr) n (mmul Cr n (comp_mat rops E c) M)).
    - apply meq_sym. apply (cstep_spec (o:=rops) E).
    - apply (unitary_mmul (o:=Cr)); [apply comp_sub_unitary; assumption|exact HM].
  Qed.

  (* ---- every component Reck.map emits satisfies comp_sub ---- *)
  Lemma program_phase_unit fuel v amp ph p ph' :
    program_phase rops E fuel v amp ph = Ok (p, ph') -> cnorm2 rops amp = 1 -> cnorm2 rops (ph_amp p) = 1.
  Proof.
    unfold program_phase. destruct (dist_value rops E fuel ph) as [[x d]|e]; cbn [bind]; [|discriminate].
    intros H Ha. injection H as <- _. cbn [ph_amp fst]. first [rewrite cnorm2_mul|rewrite cnorm2_cmul]. rewrite Ha.
    change (e_cis E x) with (cisR x). rewrite cnorm2_cis. ring.
  Qed.

  Definition prec_ok (n : nat) (p : Reck.prec (K:=R)) : Prop :=
    (pr_j p + 2 <= n)%nat /\ cnorm2 rops (ph_amp (pr_theta p)) = 1 /\ cnorm2 rops (ph_amp (pr_phi p)) = 1.

  Lemma program_steps_ok n fuel recs : forall ph ps ph',
    Forall (fun r => (nr_i r + nr_j r + 2 <= n)%nat) recs ->
    program_steps rops E fuel recs ph = Ok (ps, ph') -> Forall (prec_ok n) ps.
  Proof.
    induction recs as [|r recs IH]; intros ph ps ph' HF H.
    - simpl in H. injection H as <- _. constructor.
    - inversion HF as [|? ? Hr HF']; subst. cbn [program_steps] in H.
      destruct (program_phase rops E fuel (nr_theta r) _ ph) as [[a pa]|e] eqn:Ha; cbn [bind] in H; [|discriminate].
      destruct (program_phase rops E fuel (nr_phi r) _ (snd (a, pa))) as [[b pb]|e] eqn:Hb; cbn [bind] in H; [|discriminate].
      destruct (program_steps rops E fuel recs (snd (b, pb))) as [[rest pr]|e] eqn:Hrest; cbn [bind] in H; [|discriminate].
      injection H as <- _. cbn [fst]. constructor.
      + unfold prec_ok. cbn [pr_j pr_theta pr_phi]. split; [lia|]. split.
        * eapply program_phase_unit; [exact Ha|]. first [rewrite cnorm2_mul|rewrite cnorm2_cmul].
          change (fst (e_cis E (half rops (nr_theta r))), snd (e_cis E (half rops (nr_theta r))))
            with (cisR (half rops (nr_theta r))). rewrite cnorm2_cis. ring.
        * eapply program_phase_unit; [exact Hb|]. apply cnorm2_cis.
      + eapply IH; [exact HF'|exact Hrest].
  Qed.

  Lemma program_ends_ok fuel ends : forall ph es ph',
    program_ends rops E fuel ends ph = Ok (es, ph') -> Forall (fun p => cnorm2 rops (ph_amp p) = 1) es.
  Proof.
    induction ends as [|a ends IH]; intros ph es ph' H.
    - simpl in H. injection H as <- _. constructor.
    - cbn [program_ends] in H.
      destruct (program_phase rops E fuel a _ ph) as [[p pp]|e] eqn:Hp; cbn [bind] in H; [|discriminate].
      destruct (program_ends rops E fuel ends (snd (p, pp))) as [[rest pr]|e] eqn:Hrest; cbn [bind] in H; [|discriminate].
      injection H as <- _. cbn [fst]. constructor.
      + eapply program_phase_unit; [exact Hp|]. apply cnorm2_cis.
      + eapply IH. exact Hrest.
  Qed.

  Lemma in01_R x : in01 rops x = true -> 0 <= x <= 1.
  Proof. unfold in01. simpl. rewrite andb_true_iff, !rleb_true. tauto. Qed.

  Lemma cell_ok n p r1 r2 l cs :
    prec_ok n p -> cell rops n p r1 r2 l = Ok cs -> Forall (comp_sub n) cs.
  Proof.
    intros (Hj & Ht & Hp) H. unfold cell in H.
    destruct (in01 rops r1) eqn:H1; cbn [negb] in H; [|discriminate].
    destruct (in01 rops l) eqn:Hl; cbn [negb] in H; [|discriminate].
    destruct (in01 rops r2) eqn:H2; cbn [negb] in H; [|discriminate].
    apply in01_R in H1, Hl, H2. injection H as <-.
    destruct (kgtb rops l 0);
      repeat match goal with
             | |- Forall _ (_ :: _) => apply Forall_cons
             | |- Forall _ [] => apply Forall_nil
             | |- Forall _ (_ ++ _) => apply Forall_app; split
             end; simpl; try exact Logic.I; repeat split; try lia; try assumption; tauto.
  Qed.

  Lemma build_cells_ok n fuel ps : forall bs ls cs st,
    Forall (prec_ok n) ps -> build_cells rops E fuel n ps bs ls = Ok (cs, st) -> Forall (comp_sub n) cs.
  Proof.
    induction ps as [|p ps IH]; intros bs ls cs st HF H.
    - simpl in H. injection H as <- _. constructor.
    - inversion HF as [|? ? Hp HF']; subst. cbn [build_cells] in H.
      destruct (dist_value rops E fuel bs) as [[r1 b1]|e]; cbn [bind] in H; [|discriminate].
      destruct (negb (in01 rops (fst (r1, b1)))); [discriminate|].
      destruct (dist_value rops E fuel (snd (r1, b1))) as [[r2 b2]|e]; cbn [bind] in H; [|discriminate].
      destruct (dist_value rops E fuel ls) as [[l l1]|e]; cbn [bind] in H; [|discriminate].
      destruct (cell rops n p (fst (r1, b1)) (fst (r2, b2)) (fst (l, l1))) as [c|e] eqn:Hc; cbn [bind] in H; [|discriminate].
      destruct (build_cells rops E fuel n ps (snd (r2, b2)) (snd (l, l1))) as [[rest st']|e] eqn:Hrest; cbn [bind] in H; [|discriminate].
      injection H as <- _. cbn [fst]. apply Forall_app. split.
      + eapply cell_ok; [exact Hp|exact Hc].
      + eapply IH; [exact HF'|exact Hrest].
  Qed.

  Lemma end_spec_ok n es :
    Forall (fun p => cnorm2 rops (ph_amp p) = 1) es -> Forall (comp_sub n) (end_spec n es).
  Proof.
    intros HF. unfold end_spec. apply Forall_forall. intros c Hc.
    apply in_map_iff in Hc as [[i p] [<- Hip]].
    pose proof (in_combine_l _ _ _ _ Hip) as Hi. pose proof (in_combine_r _ _ _ _ Hip) as Hp.
    apply in_seq in Hi. rewrite Forall_forall in HF. simpl. split; [lia|]. apply HF. exact Hp.
  Qed.

  (* T2 noisy_map_subunitary: for EVERY error model (any distributions, any streams, any seed),
     every unitary or non-unitary input and every oracle answer: if Reck.map returns a circuit,
     all its components are well-formed (modes in range, adjacent beam splitters with
     reflectivity in [0,1], unit-modulus phase amplitudes, loss in [0,1]) and the compiled
     transformation is a contraction; if no loss element was emitted it is unitary *)
  Theorem noisy_map_subunitary fuel em n (U : cmat) hin hout seed tok ans endo c em' :
    reck_map rops E fuel em n U hin hout seed tok ans endo = Ok (c, em') ->
    c_n c = n /\ Forall (comp_sub n) (c_spec c) /\
    contraction n (compile rops E n (c_spec c)) /\
    (Forall not_loss (c_spec c) -> unitary Cr n (compile rops E n (c_spec c))).
  Proof.
    unfold reck_map. intros H.
    destruct (set_random_seed E em seed tok) as [em1|e]; cbn [bind] in H; [|discriminate].
    destruct (reck_decomposition rops E n (tab Cr n (flip n U)) ans endo) as [dc|e] eqn:Hdc; cbn [bind] in H; [|discriminate].
    destruct (program_steps rops E fuel (dc_recs dc) (em_phase em1)) as [[ps ph1]|e] eqn:Hps; cbn [bind] in H; [|discriminate].
    destruct (program_ends rops E fuel (dc_end dc) (snd (ps, ph1))) as [[es ph2]|e] eqn:Hes; cbn [bind] in H; [|discriminate].
    destruct (build_cells rops E fuel n (fst (ps, ph1)) (em_bs em1) (em_loss em1)) as [[cells st]|e] eqn:Hcells; cbn [bind] in H; [|discriminate].
    destruct (zip_heralds hin hout) as [hs|e]; cbn [bind] in H; [|discriminate].
    injection H as <- _. cbn [c_n c_spec fst].
    assert (Hspec : Forall (comp_sub n) (cells ++ [CBarrier (seq 0 n)] ++ end_spec n es)).
    { apply Forall_app. split; [|apply Forall_app; split].
      - eapply build_cells_ok; [|exact Hcells]. cbn [fst].
        eapply program_steps_ok; [|exact Hps].
        apply (reck_decomposition_ok (o:=rops)) in Hdc as [-> _]. cbn [dc_recs].
        apply (decomp_loop_bound (o:=rops)).
      - repeat constructor.
      - apply end_spec_ok. eapply program_ends_ok. exact Hes. }
    split; [reflexivity|]. split; [exact Hspec|]. split.
    - unfold compile. apply compile_from_contraction; [exact Hspec|apply contraction_mid].
    - intros Hn. unfold compile. apply compile_from_unitary; [exact Hspec|exact Hn|apply (unitary_mid (o:=Cr))].
  Qed.
End NoisyMap.

(* Part 11: Reck.map succeeds with a non-trivial error model (non-vacuity of
   [noisy_map_subunitary]): one mode, phase offset drawn from TopHat(0, 1). *)
Section ExampleNoisy.
  Open Scope R_scope.
  Notation Cr := (cplx rops).
  Let E := renv (/ 4) (/ 4) 0 (fun _ k => Z.of_nat k) (fun _ _ => / 2) (fun _ _ => 0).
  Let em : emodel (K:=R) :=
    mkEm (mkDobj (DConst (/ 2)) norng) (mkDobj (DConst 0) norng)
         (mkDobj (DTopHat 0 1) (mkRng (Entropy 7) 3)).

  Theorem example_noisy_map :
    exists c em', reck_map rops E 5 em 1 (mid Cr) [] [] (SeedInt 11) 0 (fun _ => (0, 0)) (fun _ => 0) = Ok (c, em') /\
                  d_rng (em_phase em') = mkRng (Seeded 0) 1.
  Proof.
    unfold reck_map. cbn [set_random_seed process_random_seed bind em em_bs em_loss em_phase reseed has_rng d_dist fst snd].
    unfold reck_decomposition.
    assert (HU : check_unitary rops E 1 (tab Cr 1 (flip 1 (mid Cr))) = true).
    { apply (check_unitary_exact (/ 4) (/ 4) 0); [lra|].
      apply unitary_tab, flip_unitary, (unitary_mid (o:=Cr)). }
    rewrite HU.
    cbn [negb]. change (reck_steps 1) with (@nil (nat * nat)). cbn [decomp_loop snd fst].
    replace (check_null rops E 1 (tab Cr 1 (flip 1 (mid Cr)))) with true by reflexivity.
    cbn [negb bind dc_recs dc_end program_steps seq map program_ends program_phase dist_value d_dist d_rng r_src r_pos
         build_cells zip_heralds fst snd].
    eexists. eexists. split; [reflexivity|]. reflexivity.
  Qed.
End ExampleNoisy.

(* Part 12: a second instance of the hypotheses of [reck_map_reproduces_partial], taking the
   generic (arctan / angle) branch: the 2 x 2 swap. *)
Section ExampleSwap2.
  Open Scope R_scope.
  Variables (ints : Z -> nat -> Z) (unif norm : rsrc -> nat -> R).
  Notation Cr := (cplx rops).
  Let E := renv (/ 4) (/ 4) 0 ints unif norm.
  Definition swap2 : @mat (R * R) := fun i j => if Nat.eqb (i + j) 1 then (1, 0) else (0, 0).
  Let U' : @mat (R * R) := tab Cr 2 (flip 2 swap2).

  Lemma swap2_unitary : unitary Cr 2 swap2.
  Proof.
    split; intros i j Hi Hj; destruct i as [|[|i]], j as [|[|j]]; try lia;
      unfold mmul, madj, swap2, mid; simpl; unfold cmul, cadd, cconj; simpl; f_equal; ring.
  Qed.

  Lemma ex_sw_U' i j : (i < 2)%nat -> (j < 2)%nat -> U' i j = swap2 i j.
  Proof.
    intros Hi Hj. unfold U'. rewrite tab_spec by lia. unfold flip.
    destruct i as [|[|i]], j as [|[|j]]; try lia; reflexivity.
  Qed.

  Lemma cabsR_0 : cabsR (0, 0) = 0.
  Proof. unfold cabsR. simpl. replace (0 * 0 + 0 * 0) with 0 by ring. apply sqrt_0. Qed.
  Lemma cabsR_1 : cabsR (1, 0) = 1.
  Proof. unfold cabsR. simpl. replace (1 * 1 + 0 * 0) with 1 by ring. apply sqrt_1. Qed.
  Lemma angle_ok_0 a : angle_ok (0, 0) a.
  Proof. unfold angle_ok. rewrite cabsR_0. f_equal; ring. Qed.
  Lemma angle_ok_mi : angle_ok (0, -1) (- (PI / 2)).
  Proof.
    unfold angle_ok, cabsR. simpl. rewrite cos_neg, sin_neg, cos_PI2, sin_PI2.
    replace (0 * 0 + -1 * -1) with 1 by ring. rewrite sqrt_1. f_equal; ring.
  Qed.

  Theorem example_swap2 :
    let ans : nat -> R * R := fun _ => (0, 0) in
    let endo : nat -> R := fun _ => - (PI / 2) in
    unitary Cr 2 swap2 /\
    steps_ok (/ 4) (/ 4) 0 ints unif norm 2 ans (reck_steps 2) 0%nat U' /\
    (forall a, (a < 2)%nat ->
       angle_ok (snd (decomp_loop rops E 2 ans (reck_steps 2) 0%nat U') a a) (endo a)) /\
    (* the generic branch is the one taken *)
    map (fun r => nr_small r) (fst (decomp_loop rops E 2 ans (reck_steps 2) 0%nat U')) = [false].
  Proof.
    intros ans endo.
    assert (H10 : U' 1%nat 0%nat = (1, 0)) by (rewrite ex_sw_U' by lia; reflexivity).
    assert (H11 : U' 1%nat 1%nat = (0, 0)) by (rewrite ex_sw_U' by lia; reflexivity).
    assert (Hn1 : cnorm2 rops (1, 0) = 1) by (unfold cnorm2; simpl; ring).
    assert (Hbig : kltb rops (cnorm2 rops (U' 1%nat 0%nat)) (/ 4) = false).
    { rewrite H10, Hn1. apply kltb_false. lra. }
    split; [exact swap2_unitary|]. split; [|split].
    - change (reck_steps 2) with [(0%nat, 0%nat)]. cbn [steps_ok]. split; [|exact Logic.I].
      right. change (2 - 1 - 0)%nat with 1%nat. rewrite H10, H11, Hn1. split; [lra|].
      exists 0, 0. split; [apply angle_ok_1|]. split; [apply angle_ok_0|].
      unfold ans. rewrite cabsR_0, cabsR_1. f_equal; [|ring].
      replace (0 / 1) with 0 by field. rewrite atan_0. ring.
    - intros a Ha. change (reck_steps 2) with [(0%nat, 0%nat)].
      rewrite (decomp_loop_cons (/ 4) (/ 4) 0 ints unif norm). cbn [decomp_loop snd].
      unfold loop_step, null_answer. change (e_eps2 (renv (/ 4) (/ 4) 0 ints unif norm)) with (/ 4).
      change (2 - 1 - 0)%nat with 1%nat. rewrite Hbig. cbn [fst snd ans].
      rewrite (bs_matrix_R (/ 4) (/ 4) 0 ints unif norm).
      assert (Hh : half rops 0 = 0) by (unfold half, two; simpl; field).
      rewrite Hh, cos_0, sin_0, cisR_0.
      unfold null_update. rewrite tab_spec by lia. unfold bs_amp.
      rewrite (null_update_entry (o:=Cr)) by lia.
      destruct a as [|[|a]]; [| |lia].
      + cbn [Nat.eqb]. rewrite !ex_sw_U' by lia.
        match goal with |- angle_ok ?z _ => replace z with ((0, -1) : R * R) end; [apply angle_ok_mi|].
        unfold cre, gph, swap2. simpl. unfold cmul, cadd, cconj, copp. simpl. f_equal; ring.
      + cbn [Nat.eqb]. rewrite !ex_sw_U' by lia.
        match goal with |- angle_ok ?z _ => replace z with ((0, -1) : R * R) end; [apply angle_ok_mi|].
        unfold cre, gph, swap2. simpl. unfold cmul, cadd, cconj, copp. simpl. f_equal; ring.
    - change (reck_steps 2) with [(0%nat, 0%nat)]. cbn [decomp_loop fst map nr_small].
      unfold null_answer. change (e_eps2 E) with (/ 4). change (2 - 1 - 0)%nat with 1%nat.
      rewrite Hbig. reflexivity.
  Qed.
End ExampleSwap2.
