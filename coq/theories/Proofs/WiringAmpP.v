(* Property C02, T2 add_amplitudes: the Fock-space transition amplitudes of the result of
   an accepted Circuit.add are those of the parent and of the sub-circuit composed under
   the wiring of add_wiring (Proofs/WiringP.v), herald photons included, parent ancillas
   passing straight through.  Pure combination of
     add_wiring           (WiringP)       U_R = E . iP with explicit index maps, and
     wiring_amplitudes    (WiringAmpFock) amplitudes of a product of transported matrices
                                          (Cauchy-Binet for permanents + block factorisation).
   Scalars: the complex pairs over any commutative *-ring [o] whose integers are the canonical
   ones (ZMorph) and in which the positive integers are invertible ([ninv]); instantiated at
   the reals at the end. *)
From Coq Require Import ZArith List Bool Arith Lia Ring_theory Ring Permutation.
From LW Require Import Base.Sx Base.Num Base.Sums Base.Mat Model.Circuit Model.Display Model.State Model.Fock
     Proofs.CompileP Proofs.CircuitP Proofs.AddP Proofs.DisplayP Proofs.StateP Proofs.PermP Proofs.FockUnitP
     Proofs.WiringDefs Proofs.WiringMat Proofs.WiringSwaps Proofs.WiringP Proofs.WiringAmpFock.
Import ListNotations.
Open Scope nat_scope.

Section WiringAmp.
  Context {K : Type} {o : ops K} {SRK : StarRing o} {ZMK : ZMorph o}.
  Notation T := (@T K).
  Notation co := (co o).
  Notation circ := (@circ K).
  Notation mat := (@mat T).

  Let SRC : StarRing co := cplx_star o.
  Let ZMC : ZMorph co := cplx_zmorph o.
  Let Rc := sr_ring (o:=co).
  Add Ring Kwa : Rc.

  Variable ninv : nat -> T.
  Hypothesis Hninv : forall k, 0 < k -> kmul co (kofnat co k) (ninv k) = k1 co.

  Lemma nth_map_fst (d : list (nat * nat)) k : nth k (map fst d) 0 = fst (nth k d (0, 0)).
  Proof. exact (map_nth fst d (0, 0) k). Qed.

  Lemma nth_map_snd (d : list (nat * nat)) k : nth k (map snd d) 0 = snd (nth k d (0, 0)).
  Proof. exact (map_nth snd d (0, 0) k). Qed.

  Lemma in_nth_fst (d : list (nat * nat)) kv :
    In kv d -> exists k, k < length d /\ nth k d (0, 0) = kv /\ nth k (map fst d) 0 = fst kv.
  Proof.
    intros H. destruct (In_nth d kv (0, 0) H) as [k [Hk E]]. exists k. split; [exact Hk|]. split; [exact E|].
    rewrite nth_map_fst, E. reflexivity.
  Qed.

  (* T-B and T-C.  Hypotheses and witnesses of add_wiring; the conclusion of add_wiring is
     repeated (first conjunct), followed by the amplitude clauses. *)
  Theorem add_amplitudes e (c sub c' : circ) mode g lP UP lS US :
    WFH c -> WFH sub -> 1 <= c_n sub ->
    Forall swnd (c_spec c) -> Forall swnd (c_spec sub) ->
    length (c_in sub) = length (c_out sub) ->
    op_add o c sub mode g = Ok c' ->
    build o e c = Ok (c_n c + lP, UP) -> build o e sub = Ok (c_n sub + lS, US) ->
    let nP := c_n c in let nS := c_n sub in let h := length (c_in sub) in let nR := nP + h in
    let ins := dkeys (c_in sub) in let outs := dkeys (c_out sub) in
    let D := nR + lP + lS in
    exists (m : nat) (old loc phi_in phi_out : nat -> nat) (UR E iP : mat),
      (* ---- the wiring (conclusion of add_wiring, verbatim) ---- *)
      (mode_ok c (map_mode (c_int c) mode) = Ok m /\ m < nP /\ ~ In m (c_int c) /\
       c_n c' = nR /\ build o e c' = Ok (nR + lP + lS, UR) /\
       (forall a b, a < b -> old a < old b) /\ (forall i, i < nP -> old i < nR) /\
       (forall l, old (nP + l) = nR + l) /\ (forall i, i < m -> old i = i) /\
       (forall k, k < h -> loc k < nR /\ forall i, old i <> loc k) /\
       (forall k k', k < h -> k' < h -> loc k = loc k' -> k = k') /\
       Permutation (c_int c') (map old (c_int c) ++ map loc (seq 0 h)) /\
       c_in c' = map (fun kv => (old (fst kv), snd kv)) (c_in c) ++ map (fun kv => (phi_in (fst kv), snd kv)) (c_in sub) /\
       c_out c' = map (fun kv => (old (fst kv), snd kv)) (c_out c) ++ map (fun kv => (phi_in (fst kv), snd kv)) (c_in sub) /\
       (forall k, k < h -> phi_in (nth k ins 0) = loc k /\ phi_out (nth k outs 0) = loc k) /\
       nS - h <= length (visible_from nP (c_int c) m) /\
       (forall j, j < nS - h ->
          phi_in (nth j (open_modes_of nS ins) 0) = old (nth j (visible_from nP (c_int c) m) 0) /\
          phi_out (nth j (open_modes_of nS outs) 0) = old (nth j (visible_from nP (c_int c) m) 0)) /\
       (forall l, phi_in (nS + l) = nR + lP + l /\ phi_out (nS + l) = nR + lP + l) /\
       (forall i, i < nS + lS -> phi_in i < nR + lP + lS /\ phi_out i < nR + lP + lS) /\
       (forall i j, i < nS + lS -> j < nS + lS -> (phi_in i = phi_in j -> i = j) /\ (phi_out i = phi_out j -> i = j)) /\
       (forall i j, i < nS + lS -> j < nS + lS -> E (phi_out i) (phi_in j) = US i j) /\
       (forall x y, x < nR + lP + lS -> y < nR + lP + lS -> (forall i, i < nS + lS -> phi_in i <> x) ->
                    E x y = mid co x y /\ E y x = mid co y x) /\
       (forall x, (forall i, i < nS + lS -> phi_in i <> x) <-> (forall i, i < nS + lS -> phi_out i <> x)) /\
       (forall i, In i (c_int c) -> forall i', i' < nS + lS -> phi_in i' <> old i) /\
       (forall i j, i < nP + lP -> j < nP + lP -> iP (old i) (old j) = UP i j) /\
       (forall x y, x < nR + lP + lS -> y < nR + lP + lS -> (forall i, i < nP + lP -> old i <> x) ->
                    iP x y = mid co x y /\ iP y x = mid co y x) /\
       meq (nR + lP + lS) UR (mmul co (nR + lP + lS) E iP) /\
       WFH c' /\ Forall swnd (c_spec c')) /\
      (* ---- T-B: amplitudes, for all full input states x and output states y of the result ---- *)
      (forall (x y : list nat) (L : list (list nat)),
         length x = D -> length y = D -> fock_enum L D (osum x) ->
         (* (a) sum over the intermediate states *)
         amp_perm co UR x y =
           suml co L (fun t => kmul co (kmul co (amp_perm co E t y) (amp_perm co iP x t)) (ninv (fact_prod t))) /\
         (* (b) each factor is the parent's / the sub-circuit's own amplitude *)
         (forall t, length t = D ->
            amp_perm co iP x t =
              kmul co (pass_factor co old (nP + lP) D x t)
                      (amp_perm co UP (restr old (nP + lP) x) (restr old (nP + lP) t)) /\
            amp_perm co E t y =
              kmul co (pass_factor co phi_in (nS + lS) D t y)
                      (amp_perm co US (restr phi_in (nS + lS) t) (restr phi_out (nS + lS) y))) /\
         (* (c) combined *)
         amp_perm co UR x y =
           suml co L (fun t =>
             kmul co (kmul co
               (kmul co (pass_factor co phi_in (nS + lS) D t y)
                        (amp_perm co US (restr phi_in (nS + lS) t) (restr phi_out (nS + lS) y)))
               (kmul co (pass_factor co old (nP + lP) D x t)
                        (amp_perm co UP (restr old (nP + lP) x) (restr old (nP + lP) t))))
               (ninv (fact_prod t))) /\
         (* (d) the parent's ancillas carry their photons through E untouched *)
         (forall t, length t = D -> amp_perm co E t y <> k0 co ->
            forall i, In i (c_int c) -> nth (old i) t 0 = nth (old i) y 0) /\
         (* (e) the new ancillas carry their photons through iP untouched *)
         (forall t, length t = D -> amp_perm co iP x t <> k0 co ->
            forall k, k < h -> nth (loc k) x 0 = nth (loc k) t 0)) /\
      (* ---- T-C: heralded form ---- *)
      (forall (x y : list nat),
         length x = D -> length y = D ->
         (forall kv, In kv (c_in c') -> nth (fst kv) x 0 = snd kv) ->
         (forall kv, In kv (c_out c') -> nth (fst kv) y 0 = snd kv) ->
         (* the parent's input heralds hold at the parent's own input *)
         (forall kv, In kv (c_in c) -> nth (fst kv) (restr old (nP + lP) x) 0 = snd kv) /\
         (* the k-th herald of sub leaves sub on its declared output mode with its photon number *)
         (forall k, k < h ->
            nth (nth k outs 0) (restr phi_out (nS + lS) y) 0 = snd (nth k (c_in sub) (0, 0))) /\
         (dvals (c_out sub) = dvals (c_in sub) ->
            forall kv, In kv (c_out sub) -> nth (fst kv) (restr phi_out (nS + lS) y) 0 = snd kv) /\
         (* in every non-vanishing term of the sum over t: sub's heralds hold at sub's own input,
            and the parent's ancillas hold their output heralds at the parent's own output *)
         (forall t, length t = D -> amp_perm co E t y <> k0 co -> amp_perm co iP x t <> k0 co ->
            (forall kv, In kv (c_in sub) -> nth (fst kv) (restr phi_in (nS + lS) t) 0 = snd kv) /\
            (forall kv, In kv (c_out c) -> In (fst kv) (c_int c) ->
               nth (fst kv) (restr old (nP + lP) t) 0 = snd kv))).
  Proof.
    intros Hc Hsub Hn1 Hsc Hss Hlen Hadd HbP HbS. cbv zeta.
    destruct (add_wiring (o:=o) e c sub c' mode g lP UP lS US Hc Hsub Hn1 Hsc Hss Hlen Hadd HbP HbS)
      as (m & old & loc & phi_in & phi_out & UR & E & iP & HW).
    exists m, old, loc, phi_in, phi_out, UR, E, iP. split; [exact HW|].
    cbv zeta in HW.
    destruct HW as (Hm & Hmlt & Hmni & Hn & Hb & Hmono & Holt & Holoss & Hofix & Hloc & Hlocinj & Hperm &
                    Hcin & Hcout & Hher & Hfit & Hopen & Hphiloss & Hphilt & Hphiinj & HE & HEoff & Himg &
                    Hanc & HiP & HiPoff & Hmeq & HWF & Hsw).
    set (nP := c_n c) in *. set (nS := c_n sub) in *. set (h := length (c_in sub)) in *.
    set (D := nP + h + lP + lS) in *.
    assert (Hol : forall i, i < nP + lP -> old i < D).
    { intros i Hi. destruct (Nat.lt_ge_cases i nP) as [L|L].
      - pose proof (Holt i L). unfold D. lia.
      - replace i with (nP + (i - nP)) by lia. rewrite Holoss. unfold D. lia. }
    assert (Hoi : forall i j, old i = old j -> i = j).
    { intros i j Eo. destruct (Nat.lt_trichotomy i j) as [L|[L|L]]; [|exact L|].
      - pose proof (Hmono i j L). lia.
      - pose proof (Hmono j i L). lia. }
    (* transport hypotheses for iP in the shape of amp_transport *)
    assert (Tlt : forall i, i < nP + lP -> old i < D /\ old i < D) by (intros i Hi; split; apply Hol, Hi).
    assert (Tinj : forall i j, i < nP + lP -> j < nP + lP -> (old i = old j -> i = j) /\ (old i = old j -> i = j))
      by (intros i j _ _; split; apply Hoi).
    assert (Timg : forall x, (forall i, i < nP + lP -> old i <> x) <-> (forall i, i < nP + lP -> old i <> x))
      by (intros x; tauto).
    (* bounds of the herald / ancilla modes *)
    destruct Hc as [HWc [Hndci Hndco]]. destruct Hsub as [HWs [Hndsi Hndso]].
    assert (Hintlt : forall i, In i (c_int c) -> i < nP).
    { intros i Hi. pose proof (wf_int c HWc) as Hf. unfold lt_all in Hf. rewrite Forall_forall in Hf. apply Hf, Hi. }
    assert (Hcinlt : forall kv, In kv (c_in c) -> fst kv < nP).
    { intros kv Hkv. pose proof (wf_in c HWc) as Hf. unfold lt_all in Hf. rewrite Forall_forall in Hf.
      apply Hf. unfold dkeys. apply in_map. exact Hkv. }
    assert (Hcoutlt : forall kv, In kv (c_out c) -> fst kv < nP).
    { intros kv Hkv. pose proof (wf_out c HWc) as Hf. unfold lt_all in Hf. rewrite Forall_forall in Hf.
      apply Hf. unfold dkeys. apply in_map. exact Hkv. }
    assert (Hsinlt : forall kv, In kv (c_in sub) -> fst kv < nS).
    { intros kv Hkv. pose proof (wf_in sub HWs) as Hf. unfold lt_all in Hf. rewrite Forall_forall in Hf.
      apply Hf. unfold dkeys. apply in_map. exact Hkv. }
    assert (Hsoutlt : forall kv, In kv (c_out sub) -> fst kv < nS).
    { intros kv Hkv. pose proof (wf_out sub HWs) as Hf. unfold lt_all in Hf. rewrite Forall_forall in Hf.
      apply Hf. unfold dkeys. apply in_map. exact Hkv. }
    (* pass-through facts *)
    assert (HthruE : forall y t, length y = D -> length t = D -> amp_perm co E t y <> k0 co ->
                       forall i, In i (c_int c) -> nth (old i) t 0 = nth (old i) y 0).
    { intros y t Hy Ht Hne i Hi.
      apply (amp_transport_conserved (r:=co) (nS + lS) D phi_in phi_out US E t y); try assumption.
      - apply Hol. pose proof (Hintlt i Hi). lia.
      - apply Hanc. exact Hi. }
    assert (HthruP : forall x t, length x = D -> length t = D -> amp_perm co iP x t <> k0 co ->
                       forall k, k < h -> nth (loc k) x 0 = nth (loc k) t 0).
    { intros x t Hx Ht Hne k Hk. destruct (Hloc k Hk) as [Hl1 Hl2].
      apply (amp_transport_conserved (r:=co) (nP + lP) D old old UP iP x t); try assumption.
      - unfold D. lia.
      - intros i _. apply Hl2. }
    split.
    - (* T-B *)
      intros x y L Hx Hy HL.
      destruct (wiring_amplitudes (r:=co) ninv Hninv (nP + lP) (nS + lS) D old phi_in phi_out UP US UR E iP
                  Hol (fun i j _ _ => Hoi i j) HiP HiPoff Hphilt Hphiinj Himg HE HEoff Hmeq x y L Hx Hy HL)
        as (Ha & Hb' & Hc').
      split; [exact Ha|]. split; [exact Hb'|]. split; [exact Hc'|]. split.
      + intros t Ht Hne. apply (HthruE y t Hy Ht Hne).
      + intros t Ht Hne. apply (HthruP x t Hx Ht Hne).
    - (* T-C *)
      intros x y Hx Hy Hhx Hhy.
      assert (Hsubout : forall k, k < h ->
                nth (nth k (dkeys (c_out sub)) 0) (restr phi_out (nS + lS) y) 0 = snd (nth k (c_in sub) (0, 0))).
      { intros k Hk.
        assert (Hko : nth k (dkeys (c_out sub)) 0 < nS).
        { assert (Hin : In (nth k (c_out sub) (0, 0)) (c_out sub)) by (apply nth_In; fold h in Hlen; lia).
          pose proof (Hsoutlt _ Hin) as Hlt. unfold dkeys. rewrite nth_map_fst. exact Hlt. }
        rewrite nth_restr by lia. destruct (Hher k Hk) as [Hhi Hho]. rewrite Hho, <- Hhi.
        assert (Hin : In (nth k (c_in sub) (0, 0)) (c_in sub)) by (apply nth_In; exact Hk).
        assert (Ek : nth k (dkeys (c_in sub)) 0 = fst (nth k (c_in sub) (0, 0))).
        { unfold dkeys. apply nth_map_fst. }
        rewrite Ek.
        apply (Hhy (phi_in (fst (nth k (c_in sub) (0, 0))), snd (nth k (c_in sub) (0, 0)))).
        rewrite Hcout. apply in_or_app. right.
        apply (in_map (fun kv => (phi_in (fst kv), snd kv))). exact Hin. }
      split; [|split; [exact Hsubout|split]].
      + intros kv Hkv. rewrite nth_restr by (pose proof (Hcinlt kv Hkv); lia).
        apply (Hhx (old (fst kv), snd kv)). rewrite Hcin. apply in_or_app. left.
        apply (in_map (fun kv => (old (fst kv), snd kv))). exact Hkv.
      + intros Hvals kv Hkv. destruct (in_nth_fst (c_out sub) kv Hkv) as (k & Hk & Ek & Ef).
        assert (Hk' : k < h) by (fold h in Hlen; lia).
        fold (dkeys (c_out sub)) in Ef. rewrite <- Ef, (Hsubout k Hk').
        transitivity (nth k (dvals (c_in sub)) 0).
        * unfold dvals. rewrite nth_map_snd. reflexivity.
        * rewrite <- Hvals. unfold dvals. rewrite nth_map_snd, Ek. reflexivity.
      + intros t Ht HneE HneP. split.
        * intros kv Hkv. destruct (in_nth_fst (c_in sub) kv Hkv) as (k & Hk & Ek & Ef).
          fold (dkeys (c_in sub)) in Ef. fold h in Hk.
          rewrite nth_restr by (pose proof (Hsinlt kv Hkv); lia).
          destruct (Hher k Hk) as [Hhi _]. rewrite Ef in Hhi. rewrite Hhi.
          rewrite <- (HthruP x t Hx Ht HneP k Hk), <- Hhi.
          apply (Hhx (phi_in (fst kv), snd kv)). rewrite Hcin. apply in_or_app. right.
          apply (in_map (fun kv => (phi_in (fst kv), snd kv))). exact Hkv.
        * intros kv Hkv Hint. rewrite nth_restr by (pose proof (Hcoutlt kv Hkv); lia).
          rewrite (HthruE y t Hy Ht HneE (fst kv) Hint).
          apply (Hhy (old (fst kv), snd kv)). rewrite Hcout. apply in_or_app. left.
          apply (in_map (fun kv => (old (fst kv), snd kv))). exact Hkv.
  Qed.

  (* Any nesting depth: the result of an accepted add satisfies every hypothesis that
     add_wiring / add_amplitudes put on a parent (WFH, swnd) AND on a sub-circuit
     (WFH, swnd, at least one mode, herald dictionaries of equal length), and it compiles;
     so both theorems apply again with c' as the parent of a further addition or as the
     sub-circuit added to another parent, and so on along any tree of additions. *)
  Theorem add_result_reusable e (c sub c' : circ) mode g lP UP lS US :
    WFH c -> WFH sub -> 1 <= c_n sub ->
    Forall swnd (c_spec c) -> Forall swnd (c_spec sub) ->
    length (c_in sub) = length (c_out sub) ->
    op_add o c sub mode g = Ok c' ->
    build o e c = Ok (c_n c + lP, UP) -> build o e sub = Ok (c_n sub + lS, US) ->
    WFH c' /\ Forall swnd (c_spec c') /\ 1 <= c_n c' /\
    (length (c_in c) = length (c_out c) -> length (c_in c') = length (c_out c')) /\
    exists UR, build o e c' = Ok (c_n c' + (lP + lS), UR).
  Proof.
    intros Hc Hsub Hn1 Hsc Hss Hlen Hadd HbP HbS.
    destruct (add_wiring (o:=o) e c sub c' mode g lP UP lS US Hc Hsub Hn1 Hsc Hss Hlen Hadd HbP HbS)
      as (m & old & loc & phi_in & phi_out & UR & E & iP & HW).
    cbv zeta in HW.
    destruct HW as (Hm & Hmlt & Hmni & Hn & Hb & Hmono & Holt & Holoss & Hofix & Hloc & Hlocinj & Hperm &
                    Hcin & Hcout & Hher & Hfit & Hopen & Hphiloss & Hphilt & Hphiinj & HE & HEoff & Himg &
                    Hanc & HiP & HiPoff & Hmeq & HWF & Hsw).
    split; [exact HWF|]. split; [exact Hsw|]. split; [lia|]. split.
    - intros Hl. rewrite Hcin, Hcout, !app_length, !map_length, Hl. reflexivity.
    - exists UR. rewrite Hb, Hn. f_equal. f_equal. lia.
  Qed.
End WiringAmp.

(* ------------------------------------------------------------------ *)
(* the reals: complex amplitudes, 1/k = cinvn k                        *)
(* ------------------------------------------------------------------ *)
From Coq Require Import Reals.
From LW Require Import Base.RInst.

Definition add_amplitudes_real :=
  @add_amplitudes R rops rstar rops_zmorph cinvn cinvn_spec.

(* ------------------------------------------------------------------ *)
(* the canonical rationals (used by the non-vacuity examples)          *)
(* ------------------------------------------------------------------ *)
From Coq Require Import QArith Qcanon.
From LW Require Import Base.QI2.

Global Instance qc_zmorph : ZMorph qcops.
Proof.
  constructor; simpl.
  - intros a b. apply Qc_is_canon. unfold Qcplus, Q2Qc, this.
    rewrite !Qred_correct, inject_Z_plus. reflexivity.
  - reflexivity.
  - reflexivity.
Qed.

(* 1/k as a complex rational *)
Definition qcinvn (k : nat) : Qc * Qc := (Qcinv (Q2Qc (inject_Z (Z.of_nat k))), Q2Qc 0).

Lemma qcinvn_spec k : (0 < k)%nat -> kmul (co qcops) (kofnat (co qcops) k) (qcinvn k) = k1 (co qcops).
Proof.
  intros Hk. unfold qcinvn.
  change (kofnat (co qcops) k) with (Q2Qc (inject_Z (Z.of_nat k)), Q2Qc 0).
  set (q := Q2Qc (inject_Z (Z.of_nat k))).
  assert (Hq : q <> Q2Qc 0).
  { intros E. apply Q2Qc_eq_iff in E. unfold Qeq in E. simpl in E. lia. }
  change (kmul (co qcops) (q, Q2Qc 0) (Qcinv q, Q2Qc 0)) with
    (Qcminus (Qcmult q (Qcinv q)) (Qcmult (Q2Qc 0) (Q2Qc 0)),
     Qcplus (Qcmult q (Q2Qc 0)) (Qcmult (Q2Qc 0) (Qcinv q))).
  change (k1 (co qcops)) with (Q2Qc 1, Q2Qc 0).
  f_equal.
  - rewrite Qcmult_inv_r by exact Hq. ring.
  - ring.
Qed.
