(* Lemmas about Circuit._map_mode and the bookkeeping of Circuit.add (property C02). *)
From Coq Require Import ZArith List Bool Arith Lia Permutation Sorted.
From LW Require Import Base.Sx Base.Num Base.Mat Base.Embed Model.Circuit Proofs.CircuitP.
Import ListNotations.

(* ---- sort_nat produces an ascending list ---- *)
Fixpoint asc (l : list nat) : Prop :=
  match l with
  | [] => True
  | x :: l' => (forall y, In y l' -> x <= y) /\ asc l'
  end.

Lemma insert_nat_in x l y : In y (insert_nat x l) <-> y = x \/ In y l.
Proof.
  induction l as [|z l IH]; simpl; [intuition|].
  destruct (x <=? z); simpl; [intuition|]. rewrite IH. intuition.
Qed.

Lemma insert_nat_asc x l : asc l -> asc (insert_nat x l).
Proof.
  induction l as [|z l IH]; intros H; simpl; [split; [intros y []|exact I]|].
  destruct H as [Hz Hl]. destruct (Nat.leb_spec x z) as [Hle|Hgt]; simpl.
  - split; [|split; assumption]. intros y [<-|Hy]; [exact Hle|]. specialize (Hz y Hy). lia.
  - split; [|apply IH; exact Hl]. intros y Hy. apply insert_nat_in in Hy as [->|Hy]; [lia|auto].
Qed.

Lemma sort_nat_asc l : asc (sort_nat l).
Proof. induction l as [|x l IH]; simpl; [exact I|]. apply insert_nat_asc, IH. Qed.

Lemma sort_nat_in l y : In y (sort_nat l) <-> In y l.
Proof. induction l as [|x l IH]; simpl; [reflexivity|]. rewrite insert_nat_in, IH. intuition. Qed.

(* ---- _map_mode: user mode u |-> the u-th mode that is not an ancilla ---- *)
Definition mm_step (acc : Z) (i : nat) : Z := if (Z.of_nat i <=? acc)%Z then (acc + 1)%Z else acc.
Definition below (l : list nat) (r : Z) : Z :=
  Z.of_nat (length (filter (fun i => (Z.of_nat i <? r)%Z) l)).

Lemma map_mode_fold internal z : map_mode internal z = fold_left mm_step (sort_nat internal) z.
Proof. reflexivity. Qed.

(* invariant of the fold over an ascending duplicate-free list *)
Lemma mm_fold_spec (s : list nat) : asc s -> NoDup s -> forall (p : list nat) (acc z : Z),
  (forall i, In i p -> (Z.of_nat i < acc)%Z) ->      (* processed ancillas at or below were jumped over *)
  (forall i j, In i p -> In j s -> i < j) ->
  acc = (z + below p acc)%Z ->
  let r := fold_left mm_step s acc in
  (forall i, In i (p ++ s) -> Z.of_nat i <> r) /\ r = (z + below (p ++ s) r)%Z /\ (acc <= r)%Z.
Proof.
  induction s as [|i s IH]; intros Hasc Hnd p acc z Hp Hps Hacc; simpl.
  - rewrite app_nil_r. split; [|split; [exact Hacc|lia]]. intros i Hi. specialize (Hp i Hi). lia.
  - destruct Hasc as [Hi Hasc]. inversion Hnd as [|? ? Hni Hnd']; subst.
    destruct (Z.leb_spec (Z.of_nat i) acc) as [Hle|Hgt].
    + (* ancilla at or below the running mode: step over it *)
      assert (Es : mm_step acc i = (acc + 1)%Z).
      { unfold mm_step. replace (Z.of_nat i <=? acc)%Z with true by (symmetry; apply Z.leb_le; lia). reflexivity. }
      rewrite Es.
      specialize (IH Hasc Hnd' (p ++ [i]) (acc + 1)%Z z).
      rewrite <- app_assoc in IH. simpl in IH.
      assert (G : (forall i0, In i0 (p ++ i :: s) -> Z.of_nat i0 <> fold_left mm_step s (acc + 1)%Z) /\
                  fold_left mm_step s (acc + 1)%Z = (z + below (p ++ i :: s) (fold_left mm_step s (acc + 1)))%Z /\
                  (acc + 1 <= fold_left mm_step s (acc + 1))%Z); [|destruct G as (G1 & G2 & G3); repeat split; [exact G1|exact G2|lia]].
      apply IH.
      * intros j Hj. apply in_app_or in Hj as [Hj|[<-|[]]]; [specialize (Hp j Hj)|]; lia.
      * intros a b Ha Hb. apply in_app_or in Ha as [Ha|[<-|[]]].
        -- apply Hps; [exact Ha|right; exact Hb].
        -- specialize (Hi b Hb). assert (i <> b) by (intros ->; contradiction). lia.
      * unfold below in *. rewrite filter_app, app_length. simpl.
        replace (Z.of_nat i <? acc + 1)%Z with true by (symmetry; apply Z.ltb_lt; lia). simpl.
        assert (E : filter (fun i0 => (Z.of_nat i0 <? acc + 1)%Z) p = filter (fun i0 => (Z.of_nat i0 <? acc)%Z) p).
        { apply filter_ext_in. intros a Ha. specialize (Hp a Ha).
          replace (Z.of_nat a <? acc + 1)%Z with true by (symmetry; apply Z.ltb_lt; lia).
          replace (Z.of_nat a <? acc)%Z with true by (symmetry; apply Z.ltb_lt; lia). reflexivity. }
        rewrite E. rewrite Nat2Z.inj_add. simpl. lia.
    + (* ancilla above: nothing happens now or later (the list ascends) *)
      assert (Es : mm_step acc i = acc).
      { unfold mm_step. replace (Z.of_nat i <=? acc)%Z with false by (symmetry; apply Z.leb_gt; lia). reflexivity. }
      rewrite Es.
      assert (Hrest : fold_left mm_step s acc = acc).
      { clear -Hi Hgt. induction s as [|j s IHs]; simpl; [reflexivity|].
        unfold mm_step at 2. replace (Z.of_nat j <=? acc)%Z with false.
        - apply IHs. intros y Hy. apply Hi. right. exact Hy.
        - symmetry. apply Z.leb_gt. specialize (Hi j (or_introl eq_refl)). lia. }
      rewrite Hrest. split; [|split; [|lia]].
      * intros j Hj. apply in_app_or in Hj as [Hj|[<-|Hj]]; [specialize (Hp j Hj); lia|lia|].
        specialize (Hi j Hj). lia.
      * unfold below in *. rewrite filter_app, app_length. simpl.
        replace (Z.of_nat i <? acc)%Z with false by (symmetry; apply Z.ltb_ge; lia).
        assert (E : filter (fun i0 => (Z.of_nat i0 <? acc)%Z) s = []).
        { clear -Hi Hgt. induction s as [|j s IHs]; simpl; [reflexivity|].
          replace (Z.of_nat j <? acc)%Z with false.
          - apply IHs. intros y Hy. apply Hi. right. exact Hy.
          - symmetry. apply Z.ltb_ge. specialize (Hi j (or_introl eq_refl)). lia. }
        rewrite E. simpl. rewrite Nat.add_0_r. exact Hacc.
Qed.

Lemma below_perm l l' r : Permutation l l' -> below l r = below l' r.
Proof.
  intros H. unfold below. f_equal. apply Permutation_length.
  induction H; simpl; try (destruct (_ <? _)%Z); auto; try (constructor; assumption).
  - destruct (Z.of_nat y <? r)%Z, (Z.of_nat x <? r)%Z; try reflexivity; apply perm_swap.
  - eapply perm_trans; eassumption.
Qed.

(* the mapped mode is never an ancilla, and exactly z non-ancilla modes lie below it *)
Theorem map_mode_spec (internal : list nat) (z : Z) :
  NoDup internal ->
  let r := map_mode internal z in
  (forall i, In i internal -> Z.of_nat i <> r) /\ (r - below internal r = z)%Z /\ (z <= r)%Z.
Proof.
  intros Hnd r.
  assert (Hnd' : NoDup (sort_nat internal)) by (eapply Permutation_NoDup; [apply Permutation_sym, sort_nat_perm|exact Hnd]).
  assert (Er : r = fold_left mm_step (sort_nat internal) z) by reflexivity.
  pose proof (mm_fold_spec (sort_nat internal) (sort_nat_asc internal) Hnd' [] z z) as H.
  cbv zeta in H. rewrite <- Er in H. change ([] ++ sort_nat internal) with (sort_nat internal) in H.
  destruct H as (H1 & H2 & H3).
  - intros i [].
  - intros i j [].
  - unfold below. simpl. lia.
  - split; [|split; [|exact H3]].
    + intros i Hi. apply H1. apply sort_nat_in. exact Hi.
    + rewrite (below_perm _ _ r (sort_nat_perm internal)) in H2. lia.
Qed.

Lemma mm_step_mono a b i : (a < b)%Z -> (mm_step a i < mm_step b i)%Z.
Proof.
  intros H. unfold mm_step.
  destruct (Z.leb_spec (Z.of_nat i) a), (Z.leb_spec (Z.of_nat i) b); lia.
Qed.

Theorem map_mode_mono internal a b : (a < b)%Z -> (map_mode internal a < map_mode internal b)%Z.
Proof.
  intros H. rewrite !map_mode_fold. revert a b H.
  induction (sort_nat internal) as [|i s IH]; intros a b H; simpl; [exact H|].
  apply IH, mm_step_mono, H.
Qed.

(* ---- bookkeeping of an accepted add ---- *)
Section AddBook.
  Context {K : Type} (o : ops K).
  Notation circ := (@circ K).

  Lemma add_empty_mode_n (c : circ) sp mode : c_n (fst (add_empty_mode o c sp mode)) = S (c_n c).
  Proof. reflexivity. Qed.

  Lemma dict_of_length_le l : length (dict_of l) <= length l.
  Proof.
    unfold dict_of.
    assert (G : forall l acc, length (fold_left (fun d kv => dset d (fst kv) (snd kv)) l acc) <= length acc + length l).
    { clear l. induction l as [|[a b] l IH]; intros acc; simpl; [lia|].
      specialize (IH (dset acc a b)).
      assert (length (dset acc a b) <= S (length acc)).
      { clear. induction acc as [|[a' b'] acc IHa]; simpl; [lia|]. destruct (a' =? a); simpl; lia. }
      lia. }
    specialize (G l []). simpl in G. exact G.
  Qed.
End AddBook.

Section AddAccept.
  Context {K : Type} (o : ops K).
  Notation circ := (@circ K).

  (* number of non-heralded modes a sub-circuit presents to its parent *)
  Definition open_modes (sub : circ) : nat := c_n sub - length (c_in sub).
  (* full modes from m on that are not ancillas *)
  Definition avail_from (c : circ) (m : nat) : nat :=
    c_n c - m - length (filter (fun i => Nat.leb m i) (c_int c)).

  (* an addition is accepted exactly when the mode exists and the sub-circuit's
     open modes fit into the parent's non-ancilla modes from there on *)
  Lemma w_facts (sub : circ) (b : bool) :
    c_n (if b then unpack_groups (copy_circ sub) else copy_circ sub) = c_n sub /\
    length (c_in (if b then unpack_groups (copy_circ sub) else copy_circ sub)) = length (c_in sub).
  Proof. destruct b; split; reflexivity. Qed.

  Theorem op_add_accept_iff (c sub : circ) mode g :
    (exists c', op_add o c sub mode g = Ok c') <->
    (exists m, mode_ok c (map_mode (c_int c) mode) = Ok m /\ open_modes sub <= avail_from c m).
  Proof.
    unfold op_add, open_modes, avail_from.
    destruct (mode_ok c (map_mode (c_int c) mode)) as [m|e] eqn:Em; cbn [bind].
    - cbv zeta.
      match goal with |- context [c_n (if ?b then _ else _)] => destruct (w_facts sub b) as [Hn Hl]; rewrite Hn, Hl end.
      destruct (Nat.ltb_spec (c_n c - m - length (filter (fun i => m <=? i) (c_int c))) (c_n sub - length (c_in sub))) as [Hlt|Hge].
      + split; [intros [c' H]; discriminate|]. intros (m' & E & Hle). injection E as <-. lia.
      + split; [intros _; exists m; split; [reflexivity|exact Hge]|].
        intros _.
        match goal with |- exists c', (let '(w, sp) := ?X in _) = _ => destruct X as [w sp] end.
        match goal with |- exists c', (if ?b then _ else _) = _ => destruct b end; eexists; reflexivity.
    - split; [intros [c' H]; discriminate|intros (m' & E & _); discriminate].
  Qed.

  (* a rejected addition is rejected with ModeRangeError *)
  Theorem op_add_reject_class (c sub : circ) mode g e :
    op_add o c sub mode g = Err e -> e = ModeRangeError.
  Proof.
    unfold op_add, mode_ok.
    destruct (in_range (c_n c) (map_mode (c_int c) mode)); cbn [bind]; [|intros H; injection H as <-; reflexivity].
    cbv zeta.
    match goal with |- (if ?b then _ else _) = _ -> _ => destruct b end;
      [intros H; injection H as <-; reflexivity|].
    match goal with |- (let '(w, sp) := ?X in _) = _ -> _ => destruct X as [w sp] end.
    match goal with |- (if ?b then _ else _) = _ -> _ => destruct b end; discriminate.
  Qed.
End AddAccept.

(* ---- later components never act on an ancilla ---- *)
Section Untouched.
  Context {K : Type} (o : ops K).
  Notation circ := (@circ K).
  Notation comp := (@comp K).

  (* the modes a (non-group) component acts on *)
  Definition comp_modes (x : comp) : list nat :=
    match x with
    | BS m1 m2 _ _ => [m1; m2]
    | PS m _ => [m]
    | LossC m _ => [m]
    | Swaps sw => dkeys sw ++ dvals sw
    | UMat m k _ => seq m k
    | Barrier ms => ms
    | Group _ m1 m2 _ _ => seq m1 (S m2 - m1)
    end.

  Lemma mode_ok_not_ancilla (c : circ) z a :
    NoDup (c_int c) -> mode_ok c (map_mode (c_int c) z) = Ok a -> ~ In a (c_int c).
  Proof.
    intros Hnd H. apply mode_ok_lt in H as [_ E]. intros Hin.
    destruct (map_mode_spec (c_int c) z Hnd) as (H1 & _ & _). apply (H1 a Hin). symmetry. exact E.
  Qed.

  Ltac dbind H a E :=
    match type of H with
    | bind ?x _ = _ => destruct x as [a|] eqn:E; cbn [bind] in H; [|discriminate]
    end.
  Ltac dif H E :=
    match type of H with
    | (if ?b then _ else _) = _ => destruct b eqn:E; try discriminate
    end.

  Ltac solve_untouched :=
    let x := fresh "x" in let Hx := fresh "Hx" in let i := fresh "i" in
    let Hi := fresh "Hi" in let Hin := fresh "Hin" in
    intros x Hx i Hi Hin;
    repeat (destruct Hx as [<-|Hx];
            [simpl in Hi; repeat (destruct Hi as [<-|Hi]; [contradiction|]); destruct Hi|]);
    destruct Hx.

  Theorem op_bs_untouched e (c : circ) m1 m2 r l cv c' :
    NoDup (c_int c) -> op_bs o e c m1 m2 r l cv = Ok c' ->
    exists added, c_spec c' = c_spec c ++ added /\ c_int c' = c_int c /\
                  forall x, In x added -> forall i, In i (comp_modes x) -> ~ In i (c_int c).
  Proof.
    intros Hnd H. unfold op_bs in H. dbind H a Ea. dif H Eab. dbind H b Eb. dbind H u Eu. dif H Ev.
    pose proof (mode_ok_not_ancilla c _ a Hnd Ea) as Ha. pose proof (mode_ok_not_ancilla c _ b Hnd Eb) as Hb.
    destruct (loss_positive o l); injection H as <-.
    - exists [BS a b r cv; LossC a l; LossC b l]. simpl. rewrite <- app_assoc. repeat split.
      solve_untouched.
    - exists [BS a b r cv]. simpl. repeat split.
      solve_untouched.
  Qed.

  Theorem op_ps_untouched e (c : circ) m phi l c' :
    NoDup (c_int c) -> op_ps o e c m phi l = Ok c' ->
    exists added, c_spec c' = c_spec c ++ added /\ c_int c' = c_int c /\
                  forall x, In x added -> forall i, In i (comp_modes x) -> ~ In i (c_int c).
  Proof.
    intros Hnd H. unfold op_ps in H. dbind H a Ea. dbind H u Eu.
    pose proof (mode_ok_not_ancilla c _ a Hnd Ea) as Ha.
    destruct (loss_positive o l); injection H as <-.
    - exists [PS a phi; LossC a l]. simpl. rewrite <- app_assoc. repeat split.
      solve_untouched.
    - exists [PS a phi]. simpl. repeat split.
      solve_untouched.
  Qed.

  Theorem op_loss_untouched e (c : circ) m l c' :
    NoDup (c_int c) -> op_loss o e c m l = Ok c' ->
    exists added, c_spec c' = c_spec c ++ added /\ c_int c' = c_int c /\
                  forall x, In x added -> forall i, In i (comp_modes x) -> ~ In i (c_int c).
  Proof.
    intros Hnd H. unfold op_loss in H. dbind H a Ea. dbind H u Eu.
    pose proof (mode_ok_not_ancilla c _ a Hnd Ea) as Ha. injection H as <-.
    exists [LossC a l]. simpl. repeat split.
    solve_untouched.
  Qed.

  (* a component acts as the identity on every mode it does not list *)
  Lemma bs_mat_off m1 m2 x cv i j :
    i <> m1 -> i <> m2 -> bs_mat o m1 m2 x cv i j = mid (cplx o) i j /\ bs_mat o m1 m2 x cv j i = mid (cplx o) j i.
  Proof.
    intros H1 H2. unfold bs_mat. destruct cv; (split; [apply embed2_out_l; assumption|apply embed2_out_r; assumption]).
  Qed.

  Lemma ps_mat_off m x i j :
    i <> m -> ps_mat o m x i j = mid (cplx o) i j /\ ps_mat o m x j i = mid (cplx o) j i.
  Proof.
    intros H. unfold ps_mat, phase_mat, mid. apply Nat.eqb_neq in H.
    split; [rewrite H; reflexivity|].
    destruct (Nat.eqb_spec j i) as [->|]; [rewrite H|]; reflexivity.
  Qed.
End Untouched.
