(* sdk/utils/conversion.py over the real numbers. *)
From Coq Require Import Reals Lra.
Open Scope R_scope.

Definition log10 (x : R) : R := ln x / ln 10.
Definition db_loss_to_decimal (loss : R) : R := 1 - Rpower 10 (- Rabs loss / 10).
(* defined on [0,1); the code raises ValueError outside *)
Definition decimal_to_db_loss (loss : R) : R := Rabs (10 * log10 (1 - loss)).

Lemma ln10_pos : 0 < ln 10.
Proof. rewrite <- ln_1. apply ln_increasing; lra. Qed.

Lemma db_of_decimal l : 0 <= l < 1 -> db_loss_to_decimal (decimal_to_db_loss l) = l.
Proof.
  intros [H0 H1]. unfold db_loss_to_decimal, decimal_to_db_loss, log10.
  rewrite Rabs_Rabsolu.
  assert (Hln : ln (1 - l) <= 0).
  { destruct (Req_dec l 0) as [->|Hne]; [rewrite Rminus_0_r, ln_1; lra|].
    left. rewrite <- ln_1. apply ln_increasing; lra. }
  pose proof ln10_pos as Hp.
  assert (Hq : 10 * (ln (1 - l) / ln 10) <= 0).
  { unfold Rdiv. assert (0 < / ln 10) by (apply Rinv_0_lt_compat; exact Hp).
    assert (0 <= (- ln (1 - l)) * / ln 10) by (apply Rmult_le_pos; lra). lra. }
  rewrite Rabs_left1 by exact Hq.
  unfold Rpower.
  replace (- - (10 * (ln (1 - l) / ln 10)) / 10 * ln 10) with (ln (1 - l)) by (field; lra).
  rewrite exp_ln by lra. lra.
Qed.

Lemma decimal_of_db x : decimal_to_db_loss (db_loss_to_decimal x) = Rabs x.
Proof.
  unfold db_loss_to_decimal, decimal_to_db_loss, log10.
  replace (1 - (1 - Rpower 10 (- Rabs x / 10))) with (Rpower 10 (- Rabs x / 10)) by lra.
  unfold Rpower. rewrite ln_exp. pose proof ln10_pos as Hp.
  replace (10 * (- Rabs x / 10 * ln 10 / ln 10)) with (- Rabs x) by (field; lra).
  rewrite Rabs_Ropp. apply Rabs_Rabsolu.
Qed.

Lemma db_loss_range x : 0 <= db_loss_to_decimal x < 1.
Proof.
  unfold db_loss_to_decimal. pose proof ln10_pos as Hp. pose proof (Rabs_pos x) as Ha.
  unfold Rpower. split.
  - assert (exp (- Rabs x / 10 * ln 10) <= 1); [|lra].
    rewrite <- exp_0. destruct (Req_dec (Rabs x) 0) as [->|Hne].
    + right. f_equal. field.
    + left. apply exp_increasing. assert (0 < Rabs x * ln 10) by (apply Rmult_lt_0_compat; lra). lra.
  - pose proof (exp_pos (- Rabs x / 10 * ln 10)). lra.
Qed.
