(* Reference-level heap model: the primitive calls (bs, ps, loss, barrier, mode_swaps), herald and
   unpack_groups establish [upd_post]. *)
From Coq Require Import ZArith List Bool Arith Lia PArith FMapPositive.
From LW Require Import Base.Sx Base.Num Base.Sums Base.Mat Model.Circuit Model.World Model.Rewrite Model.Heap
     Proofs.WorldP Proofs.HeapP Proofs.HeapP2 Proofs.HeapFlat Proofs.HeapP3.
Import ListNotations.

Section HeapP4.
  Context {K : Type} (o : ops K).
  Notation heap := (@heap K).
  Notation cell := (@cell K).
  Notation hcomp := (@hcomp K).
  Notation comp := (@comp K).
  Notation circ := (@circ K).
  Notation hworld := (@hworld K).

  Lemma mode_ok_n_eq (h : heap) c z : mode_ok (abs_circ h c) z = mode_ok_n (hc_n c) z.
  Proof. reflexivity. Qed.
  Lemma all_ok_n_eq (h : heap) c zs : all_ok (abs_circ h c) zs = all_ok_n (hc_n c) zs.
  Proof. induction zs as [|z zs IH]; [reflexivity|]. cbn [all_ok all_ok_n]. rewrite IH. reflexivity. Qed.

  Section Target.
    Variables (p : hpool) (h0 : heap) (id : nat) (c : hcirc).
    Hypothesis I : inv (mkHW p h0).
    Hypothesis Hin : In (id, c) p.

    Let Hw0 : hwf h0 := inv_hwf _ I.
    Let Hc0 : cwf h0 c := proj1 (inv_cwf _ I id c Hin).
    Let Hs0 : sep_circ c := proj2 (inv_cwf _ I id c Hin).

    Lemma priv_owned a : In a (priv c) -> owned p a.
    Proof. intros Ha. exists id, c. split; assumption. Qed.

    (* state after some appends to the target's own list *)
    Definition tgood (h : heap) : Prop :=
      hframe [hc_spec c] h0 h /\ hwf h /\
      (forall a, In a (spec_cells h (rd_list h (hc_spec c))) -> ~ owned p a).

    Lemma tgood_init : tgood h0.
    Proof.
      split; [apply hframe_refl|]. split; [exact Hw0|]. intros a Ha. exact (inv_frozen _ I id c Hin a Ha).
    Qed.

    Lemma append_entry (h : heap) (x : cell) :
      tgood h -> below h (cell_addrs x) ->
      (forall b, In b (comp_cells 2 (fst (halloc h x)) (h_next h)) -> ~ owned p b) ->
      let h1 := fst (halloc h x) in
      let h2 := h_append h1 (hc_spec c) (h_next h) in
      tgood h2 /\
      abs_list h2 (rd_list h2 (hc_spec c)) = abs_list h (rd_list h (hc_spec c)) ++ [abs_comp 2 h1 (h_next h)].
    Proof.
      intros (Fr & Hw & Hfz) Hx Hxc h1 h2.
      destruct (cwf_fields h0 c Hc0) as (L1 & _).
      assert (Ls : hc_spec c <p h_next h) by (destruct Fr as (Fr & _); lia).
      assert (Hw1 : hwf h1) by (apply hwf_alloc; assumption).
      assert (N1 : h_next h1 = Pos.succ (h_next h)) by reflexivity.
      assert (R1 : rd_list h1 (hc_spec c) = rd_list h (hc_spec c)).
      { unfold rd_list, h1. rewrite hget_alloc. destruct (Pos.eqb_spec (hc_spec c) (h_next h)); [lia|reflexivity]. }
      set (l := rd_list h (hc_spec c)) in *.
      assert (Bl : below h l) by apply (rd_list_below h _ Hw).
      assert (G2 : forall b, b <> hc_spec c -> hget h2 b = hget h1 b).
      { intros b Hb. unfold h2, h_append. rewrite hget_write. destruct (Pos.eqb_spec b (hc_spec c)); [contradiction|reflexivity]. }
      assert (R2 : rd_list h2 (hc_spec c) = l ++ [h_next h]).
      { unfold rd_list at 1. unfold h2, h_append. rewrite hget_write, Pos.eqb_refl, R1. reflexivity. }
      assert (Hw2 : hwf h2).
      { unfold h2, h_append. apply hwf_write; [exact Hw1|lia|]. cbn [cell_addrs]. rewrite R1.
        apply Forall_app. split; [eapply below_mono; [|exact Bl]; lia|]. constructor; [lia|constructor]. }
      (* the old entries and the new one are out of reach of the write to the list cell *)
      assert (Old : forall b, In b (spec_cells h l) -> hget h2 b = hget h b).
      { intros b Hb. rewrite G2.
        - unfold h1. rewrite hget_alloc.
          pose proof (spec_cells_below h l Hw Bl) as Hbl. unfold below in Hbl. rewrite Forall_forall in Hbl.
          specialize (Hbl b Hb). destruct (Pos.eqb_spec b (h_next h)); [lia|reflexivity].
        - intros ->. apply (Hfz _ Hb). apply priv_owned. simpl. auto. }
      destruct (abs_list_cells h h2 l Old) as (A1 & A2).
      assert (New : forall b, In b (comp_cells 2 h1 (h_next h)) -> hget h2 b = hget h1 b).
      { intros b Hb. apply G2. intros ->. apply (Hxc _ Hb). apply priv_owned. simpl. auto. }
      destruct (abs_comp_cells h1 h2 2 (h_next h) New) as (B1 & B2).
      split.
      - split.
        { unfold h2, h_append. apply hframe_write; [apply hframe_alloc; exact Fr|right; left; reflexivity]. }
        split; [exact Hw2|].
        intros a Ha. rewrite R2 in Ha. unfold spec_cells in Ha. rewrite flat_map_app in Ha.
        apply in_app_or in Ha as [Ha|Ha].
        + fold (spec_cells h2 l) in Ha. rewrite A2 in Ha. apply (Hfz _ Ha).
        + cbn [flat_map] in Ha. rewrite app_nil_r, B2 in Ha. apply (Hxc _ Ha).
      - rewrite R2. unfold abs_list at 1. rewrite map_app. fold (abs_list h2 l). rewrite A1. cbn [map]. rewrite B1. reflexivity.
    Qed.

    Lemma append_leaf (h : heap) (x : hcomp) :
      tgood h -> is_hgroup x = false ->
      let h1 := fst (halloc h (CComp x)) in
      let h2 := h_append h1 (hc_spec c) (h_next h) in
      tgood h2 /\ abs_list h2 (rd_list h2 (hc_spec c)) = abs_list h (rd_list h (hc_spec c)) ++ [abs_leaf x].
    Proof.
      intros Tg Hx h1 h2.
      assert (G : hget h1 (h_next h) = Some (CComp x)) by (unfold h1; rewrite hget_alloc, Pos.eqb_refl; reflexivity).
      destruct (append_entry h (CComp x) Tg) as (T2 & E2).
      - destruct x; try apply Forall_nil. discriminate.
      - fold h1. rewrite (comp_cells_leaf h1 1 _ x G Hx). intros b [<-|[]] Ho.
        pose proof (owned_below _ _ I Ho) as Hb. simpl in Hb. destruct Tg as ((Fr & _) & _). lia.
      - split; [exact T2|]. fold h1 h2 in E2. rewrite E2, (abs_comp_leaf h1 1 _ x G Hx). reflexivity.
    Qed.

    (* reading the target after appends *)
    Lemma tgood_abs (h : heap) : tgood h ->
      abs_circ h c = set_spec (abs_circ h0 c) (abs_list h (rd_list h (hc_spec c))).
    Proof.
      intros ((_ & A2 & _) & _ & _). destruct (cwf_fields h0 c Hc0) as (L1 & L2 & L3 & L4 & L5 & L6).
      destruct Hs0 as (S1 & _).
      unfold abs_circ, set_spec. cbn [c_n c_in c_out c_xin c_xout c_int]. unfold rd_dict, rd_nats.
      rewrite !A2; try assumption; try reflexivity; intros [E|[]]; apply S1; rewrite <- E; simpl; auto 6.
    Qed.

    Lemma tgood_post (h : heap) (F : circ -> res circ) :
      tgood h -> F (abs_circ h0 c) = Ok (abs_circ h c) -> upd_post p h0 c F h (Ok c).
    Proof.
      intros Tg EF. destruct Tg as (Fr & Hw & Hfz).
      split; [eapply hframe_weaken; [|exact Fr]; intros a [<-|[]]; simpl; auto|].
      split; [exact Hw|]. split; [exact EF|].
      split; [eapply cwf_mono; [apply Fr|exact Hc0]|]. split; [exact Hs0|].
      split; [intros a Ha; left; exact Ha|].
      intros a Ha. split; [exact (Hfz a Ha)|]. intros Hp. apply (Hfz a Ha), priv_owned, Hp.
    Qed.

    Lemma err_post (F : circ -> res circ) x : F (abs_circ h0 c) = Err x -> upd_post p h0 c F h0 (Err x).
    Proof.
      intros EF. split; [apply hframe_refl|]. split; [exact Hw0|]. split; [exact EF|apply hframe_refl].
    Qed.

    (* ---------------- the primitives ---------------- *)
    Ltac dres E := match goal with |- context [match ?t with Ok _ => _ | Err _ => _ end] => destruct t eqn:E end.
    Ltac dif E := match goal with |- context [if ?b then _ else _] => destruct b eqn:E end.

    Lemma halloc_eta (h : heap) x : halloc h x = (fst (halloc h x), h_next h).
    Proof. reflexivity. Qed.

    Lemma h_bs_post e m1 m2 r l cv :
      upd_post p h0 c (fun cf => op_bs o e cf m1 m2 r l cv)
               (fst (h_bs o e h0 c m1 m2 r l cv)) (snd (h_bs o e h0 c m1 m2 r l cv)).
    Proof.
      unfold h_bs. cbv zeta.
      dres E1; [rename n into a|rename e0 into x]; cbn [fst snd].
      2:{ apply err_post. unfold op_bs. rewrite mode_ok_n_eq. cbn [abs_circ c_int]. rewrite E1. reflexivity. }
      dif E2; cbn [fst snd].
      { apply err_post. unfold op_bs. rewrite mode_ok_n_eq. cbn [abs_circ c_int]. rewrite E1. cbn [bind]. cbv zeta.
        rewrite E2. reflexivity. }
      dres E3; [rename n into b|rename e0 into x]; cbn [fst snd].
      2:{ apply err_post. unfold op_bs. rewrite !mode_ok_n_eq. cbn [abs_circ c_int]. rewrite E1. cbn [bind]. cbv zeta.
          rewrite E2, E3. reflexivity. }
      dres E4; [|rename e0 into x]; cbn [fst snd].
      2:{ apply err_post. unfold op_bs. rewrite !mode_ok_n_eq. cbn [abs_circ c_int]. rewrite E1. cbn [bind]. cbv zeta.
          rewrite E2, E3. cbn [bind]. rewrite E4. reflexivity. }
      dif E5; cbn [fst snd].
      { apply err_post. unfold op_bs. rewrite !mode_ok_n_eq. cbn [abs_circ c_int]. rewrite E1. cbn [bind]. cbv zeta.
        rewrite E2, E3. cbn [bind]. rewrite E4. cbn [bind]. rewrite E5. reflexivity. }
      assert (EF : forall cf', (if loss_positive o l then Ok (app_spec (app_spec (abs_circ h0 c) [BS a b r cv]) [LossC a l; LossC b l])
                               else Ok (app_spec (abs_circ h0 c) [BS a b r cv])) = Ok cf' ->
                   op_bs o e (abs_circ h0 c) m1 m2 r l cv = Ok cf').
      { intros cf' H. unfold op_bs. rewrite !mode_ok_n_eq. cbn [abs_circ c_int]. rewrite E1. cbn [bind]. cbv zeta.
        rewrite E2, E3. cbn [bind]. rewrite E4. cbn [bind]. rewrite E5. exact H. }
      rewrite (halloc_eta h0). cbv iota beta.
      destruct (append_leaf h0 (HBS a b r cv) tgood_init eq_refl) as (T1 & A1). cbv zeta in T1, A1.
      set (h2 := h_append (fst (halloc h0 (CComp (HBS a b r cv)))) (hc_spec c) (h_next h0)) in *.
      destruct (loss_positive o l).
      - rewrite (halloc_eta h2). cbv iota beta.
        destruct (append_leaf h2 (HLoss a l) T1 eq_refl) as (T2 & A2). cbv zeta in T2, A2.
        set (h4 := h_append (fst (halloc h2 (CComp (HLoss a l)))) (hc_spec c) (h_next h2)) in *.
        rewrite (halloc_eta h4). cbv iota beta. cbn [fst snd].
        destruct (append_leaf h4 (HLoss b l) T2 eq_refl) as (T3 & A3). cbv zeta in T3, A3.
        apply tgood_post; [exact T3|]. apply EF. rewrite (tgood_abs _ T3), A3, A2, A1.
        unfold app_spec, set_spec. cbn [c_n c_spec c_in c_out c_xin c_xout c_int abs_leaf]. rewrite <- !app_assoc. reflexivity.
      - cbn [fst snd]. apply tgood_post; [exact T1|]. apply EF. rewrite (tgood_abs _ T1), A1. reflexivity.
    Qed.

    Lemma h_ps_post e m phi l :
      upd_post p h0 c (fun cf => op_ps o e cf m phi l) (fst (h_ps o e h0 c m phi l)) (snd (h_ps o e h0 c m phi l)).
    Proof.
      unfold h_ps.
      dres E1; [rename n into a|rename e0 into x]; cbn [fst snd].
      2:{ apply err_post. unfold op_ps. rewrite mode_ok_n_eq. cbn [abs_circ c_int]. rewrite E1. reflexivity. }
      dres E4; [|rename e0 into x]; cbn [fst snd].
      2:{ apply err_post. unfold op_ps. rewrite !mode_ok_n_eq. cbn [abs_circ c_int]. rewrite E1. cbn [bind]. rewrite E4. reflexivity. }
      assert (EF : forall cf', (if loss_positive o l then Ok (app_spec (app_spec (abs_circ h0 c) [PS a phi]) [LossC a l])
                               else Ok (app_spec (abs_circ h0 c) [PS a phi])) = Ok cf' ->
                   op_ps o e (abs_circ h0 c) m phi l = Ok cf').
      { intros cf' H. unfold op_ps. rewrite !mode_ok_n_eq. cbn [abs_circ c_int]. rewrite E1. cbn [bind]. rewrite E4. exact H. }
      rewrite (halloc_eta h0). cbv iota beta.
      destruct (append_leaf h0 (HPS a phi) tgood_init eq_refl) as (T1 & A1). cbv zeta in T1, A1.
      set (h2 := h_append (fst (halloc h0 (CComp (HPS a phi)))) (hc_spec c) (h_next h0)) in *.
      destruct (loss_positive o l).
      - rewrite (halloc_eta h2). cbv iota beta. cbn [fst snd].
        destruct (append_leaf h2 (HLoss a l) T1 eq_refl) as (T2 & A2). cbv zeta in T2, A2.
        apply tgood_post; [exact T2|]. apply EF. rewrite (tgood_abs _ T2), A2, A1.
        unfold app_spec, set_spec. cbn [c_n c_spec c_in c_out c_xin c_xout c_int abs_leaf]. reflexivity.
      - cbn [fst snd]. apply tgood_post; [exact T1|]. apply EF. rewrite (tgood_abs _ T1), A1. reflexivity.
    Qed.

    Lemma h_loss_post e m l :
      upd_post p h0 c (fun cf => op_loss o e cf m l) (fst (h_loss o e h0 c m l)) (snd (h_loss o e h0 c m l)).
    Proof.
      unfold h_loss.
      dres E1; [rename n into a|rename e0 into x]; cbn [fst snd].
      2:{ apply err_post. unfold op_loss. rewrite mode_ok_n_eq. cbn [abs_circ c_int]. rewrite E1. reflexivity. }
      dres E4; [|rename e0 into x]; cbn [fst snd].
      2:{ apply err_post. unfold op_loss. rewrite !mode_ok_n_eq. cbn [abs_circ c_int]. rewrite E1. cbn [bind]. rewrite E4. reflexivity. }
      rewrite (halloc_eta h0). cbv iota beta. cbn [fst snd].
      destruct (append_leaf h0 (HLoss a l) tgood_init eq_refl) as (T1 & A1). cbv zeta in T1, A1.
      apply tgood_post; [exact T1|].
      unfold op_loss. rewrite !mode_ok_n_eq. cbn [abs_circ c_int]. rewrite E1. cbn [bind]. rewrite E4. cbn [bind].
      rewrite (tgood_abs _ T1), A1. reflexivity.
    Qed.

    Lemma h_barrier_post ms :
      upd_post p h0 c (fun cf => op_barrier cf ms) (fst (h_barrier h0 c ms)) (snd (h_barrier h0 c ms)).
    Proof.
      unfold h_barrier. cbv zeta.
      dres E1; [rename l into r|rename e into x]; cbn [fst snd].
      2:{ apply err_post. unfold op_barrier. rewrite all_ok_n_eq. cbn [abs_circ c_int c_n]. rewrite E1. reflexivity. }
      rewrite (halloc_eta h0). cbv iota beta. cbn [fst snd].
      destruct (append_leaf h0 (HBarrier r) tgood_init eq_refl) as (T1 & A1). cbv zeta in T1, A1.
      apply tgood_post; [exact T1|].
      unfold op_barrier. rewrite all_ok_n_eq. cbn [abs_circ c_int c_n]. rewrite E1. cbn [bind].
      rewrite (tgood_abs _ T1), A1. reflexivity.
    Qed.

    Lemma h_mode_swaps_post sw :
      upd_post p h0 c (fun cf => op_mode_swaps cf sw) (fst (h_mode_swaps h0 c sw)) (snd (h_mode_swaps h0 c sw)).
    Proof.
      unfold h_mode_swaps. cbv zeta.
      dres E1; [rename l into ks|rename e into x]; cbn [fst snd].
      2:{ apply err_post. unfold op_mode_swaps. rewrite all_ok_n_eq. cbn [abs_circ c_int c_n]. rewrite E1. reflexivity. }
      dres E2; [rename l into vs|rename e into x]; cbn [fst snd].
      2:{ apply err_post. unfold op_mode_swaps. rewrite !all_ok_n_eq. cbn [abs_circ c_int c_n]. rewrite E1. cbn [bind].
          rewrite E2. reflexivity. }
      dif E3; cbn [fst snd].
      2:{ apply err_post. unfold op_mode_swaps. rewrite !all_ok_n_eq. cbn [abs_circ c_int c_n]. rewrite E1. cbn [bind].
          rewrite E2. cbn [bind]. rewrite E3. reflexivity. }
      rewrite (halloc_eta h0). cbv iota beta. cbn [fst snd].
      destruct (append_leaf h0 (HSwaps (combine ks vs)) tgood_init eq_refl) as (T1 & A1). cbv zeta in T1, A1.
      apply tgood_post; [exact T1|].
      unfold op_mode_swaps. rewrite !all_ok_n_eq. cbn [abs_circ c_int c_n]. rewrite E1. cbn [bind].
      rewrite E2. cbn [bind]. rewrite E3.
      rewrite (tgood_abs _ T1), A1. reflexivity.
    Qed.

    (* ---------------- herald: four in-place dict stores ---------------- *)
    Lemma hget_dset_other (h : heap) a k v b : b <> a -> hget (h_dset h a k v) b = hget h b.
    Proof. intros Hb. unfold h_dset. rewrite hget_write. destruct (Pos.eqb_spec b a); [contradiction|reflexivity]. Qed.
    Lemma rd_dict_dset (h : heap) a k v b :
      rd_dict (h_dset h a k v) b = if Pos.eqb b a then dset (rd_dict h a) k v else rd_dict h b.
    Proof.
      unfold rd_dict at 1. unfold h_dset. rewrite hget_write. destruct (Pos.eqb_spec b a); reflexivity.
    Qed.
    Lemma dset_idem (d : dict) k v : dset (dset d k v) k v = dset d k v.
    Proof.
      induction d as [|[k' v'] d IH]; simpl; [rewrite Nat.eqb_refl; reflexivity|].
      destruct (Nat.eqb_spec k' k) as [->|Hne]; simpl.
      - rewrite Nat.eqb_refl. reflexivity.
      - apply Nat.eqb_neq in Hne. rewrite Hne, IH. reflexivity.
    Qed.

    (* a heap that differs from h0 on the four dict cells of the target only *)
    Lemma dicts_only (h : heap) :
      (forall b, ~ In b [hc_in c; hc_out c; hc_xin c; hc_xout c] -> hget h b = hget h0 b) ->
      rd_list h (hc_spec c) = rd_list h0 (hc_spec c) /\
      abs_list h (rd_list h0 (hc_spec c)) = abs_list h0 (rd_list h0 (hc_spec c)) /\
      spec_cells h (rd_list h0 (hc_spec c)) = spec_cells h0 (rd_list h0 (hc_spec c)) /\
      rd_nats h (hc_int c) = rd_nats h0 (hc_int c).
    Proof.
      intros H. destruct Hs0 as (S1 & S2 & _).
      split; [unfold rd_list; rewrite H; [reflexivity|]; intros Hb; apply S1; simpl in *; tauto|].
      destruct (abs_list_cells h0 h (rd_list h0 (hc_spec c))) as (A1 & A2).
      { intros b Hb. apply H. intros Hd. apply (inv_frozen _ I id c Hin b Hb). apply priv_owned. simpl in *. tauto. }
      split; [exact A1|]. split; [exact A2|].
      unfold rd_nats. rewrite H; [reflexivity|]. exact S2.
    Qed.

    Lemma h_herald_post n im om :
      upd_post p h0 c (fun cf => op_herald cf n im om) (fst (h_herald h0 c n im om)) (snd (h_herald h0 c n im om)).
    Proof.
      unfold h_herald. cbv zeta.
      dres E1; [rename n0 into a|rename e into x]; cbn [fst snd].
      2:{ apply err_post. unfold op_herald. cbv zeta. rewrite mode_ok_n_eq. cbn [abs_circ c_int]. rewrite E1. reflexivity. }
      dres E2; [rename n0 into b|rename e into x]; cbn [fst snd].
      2:{ apply err_post. unfold op_herald. cbv zeta. rewrite !mode_ok_n_eq. cbn [abs_circ c_int]. rewrite E1. cbn [bind].
          rewrite E2. reflexivity. }
      dif E3; cbn [fst snd].
      { apply err_post. unfold op_herald. cbv zeta. rewrite !mode_ok_n_eq. cbn [abs_circ c_int c_in]. rewrite E1. cbn [bind].
        rewrite E2. cbn [bind]. rewrite E3. reflexivity. }
      dif E4; cbn [fst snd].
      { apply err_post. unfold op_herald. cbv zeta. rewrite !mode_ok_n_eq. cbn [abs_circ c_int c_in c_out]. rewrite E1. cbn [bind].
        rewrite E2. cbn [bind]. rewrite E3, E4. reflexivity. }
      destruct (cwf_fields h0 c Hc0) as (L1 & L2 & L3 & L4 & L5 & L6).
      set (h1 := h_dset h0 (hc_in c) a n).
      set (h2 := h_dset h1 (hc_out c) b n).
      set (h3 := h_dset h2 (hc_xin c) a n).
      set (h4 := h_dset h3 (hc_xout c) b n).
      assert (Hn : h_next h4 = h_next h0) by reflexivity.
      assert (Only : forall x, ~ In x [hc_in c; hc_out c; hc_xin c; hc_xout c] -> hget h4 x = hget h0 x).
      { intros x Hx. unfold h4, h3, h2, h1. rewrite !hget_dset_other; [reflexivity| | | |]; intros ->; apply Hx; simpl; auto. }
      destruct (dicts_only h4 Only) as (D1 & D2 & D3 & D4).
      assert (Fr : hframe (priv c) h0 h4).
      { unfold h4, h3, h2, h1, h_dset. repeat (apply hframe_write; [|right; simpl; auto 8]). apply hframe_refl. }
      assert (Hw4 : hwf h4).
      { unfold h4, h3, h2, h1, h_dset. repeat (apply hwf_write; [|rewrite ?next_write; assumption|apply Forall_nil]). exact Hw0. }
      split; [exact Fr|]. split; [exact Hw4|]. split.
      { unfold op_herald. cbv zeta. rewrite !mode_ok_n_eq. cbn [abs_circ c_int c_in c_out c_n c_spec c_xin c_xout]. rewrite E1. cbn [bind].
        rewrite E2. cbn [bind]. rewrite E3, E4. f_equal.
        unfold abs_circ. rewrite D1, D2, D4. f_equal.
        all: destruct Hs0 as (_ & _ & S3 & S4 & S5 & S6).
        all: destruct (Pos.eq_dec (hc_xin c) (hc_in c)) as [Exi|Nxi]; destruct (Pos.eq_dec (hc_xout c) (hc_out c)) as [Exo|Nxo].
        all: unfold h4, h3, h2, h1; rewrite !rd_dict_dset; try rewrite Exi; try rewrite Exo; rewrite ?Pos.eqb_refl.
        all: repeat match goal with
                    | |- context [Pos.eqb ?u ?v] =>
                        let Hn := fresh in
                        assert (Hn : Pos.eqb u v = false) by (apply Pos.eqb_neq; congruence); rewrite Hn; clear Hn
                    end.
        all: rewrite ?Pos.eqb_refl, ?dset_idem; try rewrite Exi; try rewrite Exo; reflexivity. }
      split; [eapply cwf_mono; [apply Fr|exact Hc0]|]. split; [exact Hs0|].
      split; [intros x Hx; left; exact Hx|].
      intros x Hx. rewrite D1, D3 in Hx. pose proof (inv_frozen _ I id c Hin x Hx) as Hno.
      split; [exact Hno|]. intros Hp. apply Hno, priv_owned, Hp.
    Qed.

    (* ---------------- unpack_groups ---------------- *)
    Lemma nongroup_depth (h : heap) m :
      is_group (abs_comp 1 h m) = false ->
      abs_comp 2 h m = abs_comp 1 h m /\ comp_cells 2 h m = comp_cells 1 h m.
    Proof.
      cbn [abs_comp comp_cells]. destruct (hget h m) as [[[| | | | | |]| | |]|]; try (split; reflexivity). discriminate.
    Qed.

    Lemma unpack_abs (h : heap) l :
      flat_spec (abs_list h l) ->
      abs_list h (h_unpack h l) = unpack_spec (abs_list h l) /\
      incl (spec_cells h (h_unpack h l)) (spec_cells h l).
    Proof.
      induction l as [|a l IH]; intros Hf; [split; [reflexivity|intros x []]|].
      unfold flat_spec, abs_list in Hf. change (map (abs_comp 2 h) (a :: l)) with (abs_comp 2 h a :: map (abs_comp 2 h) l) in Hf.
      pose proof (Forall_inv Hf) as Ha. pose proof (Forall_inv_tail Hf) as Hl.
      destruct (IH Hl) as (IH1 & IH2). clear IH.
      unfold h_unpack, unpack_spec, abs_list, spec_cells in *. cbn [flat_map map].
      rewrite map_app, flat_map_app.
      rewrite IH1. clear IH1.
      assert (G : map (abs_comp 2 h)
                      match hget h a with Some (CComp (HGroup lst _ _ _ _)) => rd_list h lst | _ => [a] end =
                  match abs_comp 2 h a with Group g _ _ _ _ => g | _ => [abs_comp 2 h a] end /\
                  incl (flat_map (comp_cells 2 h)
                          match hget h a with Some (CComp (HGroup lst _ _ _ _)) => rd_list h lst | _ => [a] end)
                       (comp_cells 2 h a)).
      { destruct (hget h a) as [[cc| | |]|] eqn:E.
        - destruct (is_hgroup cc) eqn:Hg.
          + destruct cc as [| | | | | |lst m1 m2 hi ho]; try discriminate.
            assert (EA : abs_comp 2 h a = Group (map (abs_comp 1 h) (rd_list h lst)) m1 m2 (rd_dict h hi) (rd_dict h ho))
              by (cbn [abs_comp]; rewrite E; reflexivity).
            assert (EC : comp_cells 2 h a = a :: lst :: hi :: ho :: flat_map (comp_cells 1 h) (rd_list h lst))
              by (cbn [comp_cells]; rewrite E; reflexivity).
            rewrite EA in Ha |- *. rewrite EC.
            cbn [flat_comp] in Ha. unfold nogroup in Ha. rewrite Forall_map in Ha. rewrite Forall_forall in Ha.
            split.
            * apply map_ext_in. intros m Hm. apply (nongroup_depth h m (Ha m Hm)).
            * intros x Hx. right. right. right. right. apply in_flat_map in Hx as (m & Hm & Hx).
              apply in_flat_map. exists m. split; [exact Hm|]. rewrite <- (proj2 (nongroup_depth h m (Ha m Hm))). exact Hx.
          + rewrite (comp_cells_leaf h 1 a cc E Hg).
            assert (EL : match cc with HGroup lst _ _ _ _ => rd_list h lst | _ => [a] end = [a])
              by (destruct cc; try reflexivity; discriminate).
            rewrite EL. cbn [map flat_map]. rewrite (comp_cells_leaf h 1 a cc E Hg), app_nil_r.
            rewrite (abs_comp_leaf h 1 a cc E Hg).
            split; [destruct cc; try reflexivity; discriminate|apply incl_refl].
        - assert (EA : abs_comp 2 h a = Barrier []) by (cbn [abs_comp]; rewrite E; reflexivity).
          cbn [map flat_map]. rewrite EA, app_nil_r. split; [reflexivity|apply incl_refl].
        - assert (EA : abs_comp 2 h a = Barrier []) by (cbn [abs_comp]; rewrite E; reflexivity).
          cbn [map flat_map]. rewrite EA, app_nil_r. split; [reflexivity|apply incl_refl].
        - assert (EA : abs_comp 2 h a = Barrier []) by (cbn [abs_comp]; rewrite E; reflexivity).
          cbn [map flat_map]. rewrite EA, app_nil_r. split; [reflexivity|apply incl_refl].
        - assert (EA : abs_comp 2 h a = Barrier []) by (cbn [abs_comp]; rewrite E; reflexivity).
          cbn [map flat_map]. rewrite EA, app_nil_r. split; [reflexivity|apply incl_refl]. }
      destruct G as (G1 & G2). split.
      - rewrite G1. reflexivity.
      - apply incl_app; [apply incl_appl; exact G2|apply incl_appr; exact IH2].
    Qed.

    Lemma h_unpack_below (h : heap) l : hwf h -> below h l -> below h (h_unpack h l).
    Proof.
      intros Hw Hl. unfold below, h_unpack. apply Forall_forall. intros x Hx. apply in_flat_map in Hx as (a & Ha & Hx).
      unfold below in Hl. rewrite Forall_forall in Hl.
      destruct (hget h a) as [[[| | | | | |lst m1 m2 hi ho]| | |]|] eqn:E; try (destruct Hx as [<-|[]]; apply Hl, Ha).
      pose proof (rd_list_below h lst Hw) as Hb. unfold below in Hb. rewrite Forall_forall in Hb. apply Hb, Hx.
    Qed.

    Lemma h_unpack_groups_post :
      upd_post p h0 c (fun cf => Ok (unpack_groups cf))
               (fst (let '(h', c') := h_unpack_groups h0 c in (h', Ok c')))
               (snd (let '(h', c') := h_unpack_groups h0 c in (h', Ok c'))).
    Proof.
      unfold h_unpack_groups.
      destruct (cwf_fields h0 c Hc0) as (L1 & L2 & L3 & L4 & L5 & L6).
      destruct (halloc h0 (CNats [])) as [h1 it] eqn:E1.
      destruct (halloc_inv _ _ _ _ [] h0 E1 Hw0 (Forall_nil _) (hframe_refl _ _)) as (-> & N1 & W1 & F1 & G1 & _).
      pose proof (hframe_agree _ _ F1) as Ag1.
      rewrite (rd_list_agree h0 h1 _ Ag1 L1).
      set (l := rd_list h0 (hc_spec c)) in *.
      assert (Bl : below h0 l) by apply (rd_list_below h0 _ Hw0).
      assert (U1 : h_unpack h1 l = h_unpack h0 l).
      { unfold h_unpack. apply flat_map_ext_in. intros a Ha. unfold below in Bl. rewrite Forall_forall in Bl.
        rewrite (Ag1 a (Bl a Ha)).
        destruct (hget h0 a) as [[[| | | | | |lst m1 m2 hi ho]| | |]|] eqn:E; try reflexivity.
        apply rd_list_agree; [exact Ag1|].
        pose proof (proj2 Hw0 _ _ E) as Hc. cbn [cell_addrs] in Hc. exact (Forall_inv Hc). }
      rewrite U1.
      assert (Bu : below h0 (h_unpack h0 l)) by (apply h_unpack_below; assumption).
      destruct (halloc h1 (CList (h_unpack h0 l))) as [h2 sp] eqn:E2.
      assert (Bu1 : below h1 (h_unpack h0 l)) by (eapply below_mono; [|exact Bu]; lia).
      destruct (halloc_inv _ _ _ _ [] h0 E2 W1 Bu1 F1) as (-> & N2 & W2 & F2 & G2 & S2).
      cbn [fst snd].
      pose proof (hframe_agree _ _ F2) as Ag2.
      pose proof (inv_flat _ I id c Hin) as Fl. unfold flat_circ in Fl. cbn [abs_circ c_spec hw_heap] in Fl. fold l in Fl.
      destruct (unpack_abs h0 l Fl) as (UA1 & UA2).
      split; [apply hframe_nil; exact F2|]. split; [exact W2|]. split.
      { f_equal. unfold unpack_groups, abs_circ. cbn [c_n c_spec c_in c_out hc_n hc_spec hc_in hc_out hc_xin hc_xout hc_int].
        assert (R2 : rd_list h2 (h_next h1) = h_unpack h0 l) by (unfold rd_list; rewrite G2; reflexivity).
        assert (R1 : rd_nats h2 (h_next h0) = []).
        { unfold rd_nats. rewrite (hget_frame h1 h2 (h_next h0) S2) by lia. rewrite G1. reflexivity. }
        rewrite R2, R1.
        rewrite (proj1 (abs_list_stable h0 h2 _ Hw0 Ag2 Bu)), UA1.
        rewrite !(rd_dict_agree h0 h2 _ Ag2) by assumption. fold l. reflexivity. }
      destruct Hs0 as (S1 & S2' & S3 & S4 & S5 & S6).
      split.
      { unfold cwf, below, priv. cbn [hc_spec hc_in hc_out hc_xin hc_xout hc_int]. repeat constructor; lia. }
      split.
      { unfold sep_circ. cbn [hc_spec hc_in hc_out hc_xin hc_xout hc_int]. simpl.
        repeat split; try assumption; intros H; repeat (destruct H as [H|H]; [lia|]); try lia; try (exact H); congruence. }
      split.
      { intros a Ha. unfold priv in Ha. cbn [hc_spec hc_in hc_out hc_xin hc_xout hc_int] in Ha. simpl in Ha.
        destruct Ha as [<-|[<-|[<-|[<-|[<-|[<-|[]]]]]]]; try (right; lia); left; simpl; auto. }
      intros a Ha. cbn [hc_spec] in Ha. unfold rd_list in Ha. rewrite G2 in Ha.
      rewrite (proj2 (abs_list_stable h0 h2 _ Hw0 Ag2 Bu)) in Ha. apply UA2 in Ha.
      pose proof (inv_frozen _ I id c Hin a Ha) as Hno. split; [exact Hno|].
      unfold priv. cbn [hc_spec hc_in hc_out hc_xin hc_xout hc_int]. simpl.
      pose proof (spec_cells_below h0 l Hw0 Bl) as Hb. unfold below in Hb. rewrite Forall_forall in Hb. specialize (Hb a Ha).
      intros [E|[E|[E|[E|[E|[E|[]]]]]]]; try lia; apply Hno, priv_owned; rewrite <- E; simpl; auto.
    Qed.
  End Target.
End HeapP4.
