(* The pass-through loop of Circuit.add (property C02): where the empty modes for the
   parent's existing ancillas are inserted into the copy of the sub-circuit, expressed
   through the rank function freec of the current herald set. *)
From Coq Require Import ZArith List Bool Arith Lia Permutation.
From LW Require Import Base.Sx Base.Num Base.Mat Model.Circuit Model.Display Proofs.CompileP Proofs.CircuitP Proofs.DisplayP Proofs.WiringDefs.
Import ListNotations.

(* ---------- iterated insertion as an index map ---------- *)
Lemma mins_nil x : mins [] x = x.
Proof. reflexivity. Qed.
Lemma mins_cons t ts x : mins (t :: ts) x = mins ts (bump t x).
Proof. reflexivity. Qed.
Lemma mins_snoc ts t x : mins (ts ++ [t]) x = bump t (mins ts x).
Proof. unfold mins. rewrite fold_left_app. reflexivity. Qed.

Lemma mins_inj ts a b : mins ts a = mins ts b -> a = b.
Proof.
  revert a b. induction ts as [|t ts IH]; intros a b H; [exact H|].
  rewrite !mins_cons in H. apply IH in H. eapply bump_inj; exact H.
Qed.

Lemma mins_top ts n : (forall j, j < length ts -> nth j ts 0 <= n + j) ->
  forall l, mins ts (n + l) = n + length ts + l.
Proof.
  revert n. induction ts as [|t ts IH]; intros n H l; [rewrite mins_nil; simpl; lia|].
  rewrite mins_cons.
  assert (Ht : t <= n). { specialize (H 0). simpl in H. lia. }
  replace (bump t (n + l)) with (S n + l).
  2:{ unfold bump. destruct (Nat.leb_spec t (n + l)); lia. }
  rewrite IH; [simpl; lia|].
  intros j Hj. specialize (H (S j)). simpl in H. lia.
Qed.

Lemma wp_bump_image t z : z <> t -> exists y, bump t y = z.
Proof.
  intros H. destruct (Nat.lt_ge_cases z t).
  - exists z. unfold bump. destruct (Nat.leb_spec t z); lia.
  - exists (z - 1). unfold bump. destruct (Nat.leb_spec t (z - 1)); lia.
Qed.

Lemma mins_image_dec ts p : (exists y, mins ts y = p) \/ (forall y, mins ts y <> p).
Proof.
  revert p. induction ts as [|t ts IH]; intros p.
  - left. exists p. reflexivity.
  - destruct (IH p) as [[z Hz]|Hn].
    + destruct (Nat.eq_dec z t) as [->|Hne].
      * right. intros y Hy. rewrite mins_cons in Hy. rewrite <- Hz in Hy.
        apply mins_inj in Hy. exact (bump_ne _ _ Hy).
      * left. destruct (wp_bump_image t z Hne) as [y Hy]. exists y. rewrite mins_cons, Hy. exact Hz.
    + right. intros y. rewrite mins_cons. apply Hn.
Qed.

(* mins below / above a single insertion point *)
Lemma mins_lt_all ts x : (forall t, In t ts -> x < t) -> mins ts x = x.
Proof.
  revert x. induction ts as [|t ts IH]; intros x H; [reflexivity|].
  rewrite mins_cons. replace (bump t x) with x.
  - apply IH. intros t' Ht'. apply H. right. exact Ht'.
  - unfold bump. specialize (H t (or_introl eq_refl)). destruct (Nat.leb_spec t x); lia.
Qed.

(* ---------- freec: facts needed here ---------- *)
Lemma wp_memb_false x l : memb x l = false <-> ~ In x l.
Proof. rewrite <- memb_in. destruct (memb x l); split; intros; congruence. Qed.

Lemma wp_freec_0 V : freec V 0 = 0.
Proof. reflexivity. Qed.

Lemma wp_freec_S_in V x : In x V -> freec V (S x) = freec V x.
Proof. intros H. rewrite freec_S. apply memb_in in H. rewrite H. lia. Qed.

Lemma wp_freec_S_out V x : ~ In x V -> freec V (S x) = S (freec V x).
Proof. intros H. rewrite freec_S. apply wp_memb_false in H. rewrite H. lia. Qed.

Lemma wp_memb_ext x V V' : (In x V <-> In x V') -> memb x V = memb x V'.
Proof. intros H. apply Bool.eq_true_iff_eq. rewrite !memb_in. exact H. Qed.

Lemma wp_freec_ext V V' x : (forall y, y < x -> (In y V <-> In y V')) -> freec V x = freec V' x.
Proof.
  induction x as [|x IH]; intros H; [reflexivity|].
  rewrite !freec_S. rewrite IH by (intros y Hy; apply H; lia).
  rewrite (wp_memb_ext x V V') by (apply H; lia). reflexivity.
Qed.

Lemma wp_freec_sort V x : freec (sort_nat V) x = freec V x.
Proof. apply wp_freec_ext. intros y _. apply sort_in. Qed.

Lemma wp_freec_le V x : freec V x <= x.
Proof. induction x as [|x IH]; [rewrite wp_freec_0; lia|]. rewrite freec_S. destruct (memb x V); lia. Qed.

Lemma wp_freec_low V x : (forall y, In y V -> x <= y) -> freec V x = x.
Proof.
  induction x as [|x IH]; intros H; [reflexivity|].
  rewrite wp_freec_S_out.
  - rewrite IH; [reflexivity|]. intros y Hy. specialize (H y Hy). lia.
  - intros Hin. specialize (H x Hin). lia.
Qed.

Lemma wp_freec_cons a V x : ~ In a V -> freec V x = freec (a :: V) x + (if a <? x then 1 else 0).
Proof.
  intros Ha. induction x as [|x IH]; [reflexivity|].
  rewrite !freec_S, IH.
  change (memb x (a :: V)) with (Nat.eqb x a || memb x V).
  destruct (Nat.eqb_spec x a) as [->|Hne]; cbn [orb].
  - apply wp_memb_false in Ha. rewrite Ha.
    destruct (Nat.ltb_spec a a), (Nat.ltb_spec a (S a)); lia.
  - destruct (memb x V); destruct (Nat.ltb_spec a x), (Nat.ltb_spec a (S x)); lia.
Qed.

(* a non-herald position is determined by its rank *)
Lemma wp_freec_rank_inj V p q : ~ In p V -> ~ In q V -> freec V p = freec V q -> p = q.
Proof.
  intros Hp Hq E.
  destruct (lt_eq_lt_dec p q) as [[Hlt| ->]|Hlt]; [exfalso| reflexivity |exfalso].
  - pose proof (freec_mono V (S p) q ltac:(lia)). rewrite wp_freec_S_out in H by exact Hp. lia.
  - pose proof (freec_mono V (S q) p ltac:(lia)). rewrite wp_freec_S_out in H by exact Hq. lia.
Qed.

(* ---------- one insertion and the herald set ---------- *)
Lemma wp_in_bump t H y : In y (map (bump t) H) <-> (y < t /\ In y H) \/ (t < y /\ In (y - 1) H).
Proof.
  rewrite in_map_iff. split.
  - intros (z & <- & Hz). unfold bump. destruct (Nat.leb_spec t z).
    + right. split; [lia|]. replace (S z - 1) with z by lia. exact Hz.
    + left. split; [lia|exact Hz].
  - intros [[Hl Hy]|[Hl Hy]].
    + exists y. split; [|exact Hy]. unfold bump. destruct (Nat.leb_spec t y); lia.
    + exists (y - 1). split; [|exact Hy]. unfold bump. destruct (Nat.leb_spec t (y - 1)); lia.
Qed.

Lemma wp_bump_notin t H : ~ In t (map (bump t) H).
Proof. intros Hin. apply in_map_iff in Hin as (z & E & _). exact (bump_ne _ _ E). Qed.

Lemma wp_in_bump_low t H y : y < t -> (In y (map (bump t) H) <-> In y H).
Proof.
  intros Hy. rewrite wp_in_bump. split.
  - intros [[_ Hin]|[Hlt _]]; [exact Hin|lia].
  - intros Hin. left. split; assumption.
Qed.

Lemma wp_in_bump_high t H y : t <= y -> (In (S y) (map (bump t) H) <-> In y H).
Proof.
  intros Hy. rewrite wp_in_bump. replace (S y - 1) with y by lia. split.
  - intros [[Hlt _]|[_ Hin]]; [lia|exact Hin].
  - intros Hin. right. split; [lia|exact Hin].
Qed.

Lemma wp_freec_bump_low t H x : x <= t -> freec (map (bump t) H) x = freec H x.
Proof. intros Hx. apply wp_freec_ext. intros y Hy. apply wp_in_bump_low. lia. Qed.

Lemma wp_freec_bump_high t H x : t <= x -> freec (map (bump t) H) (S x) = S (freec H x).
Proof.
  induction 1 as [|x Hle IH].
  - rewrite wp_freec_S_out by apply wp_bump_notin. rewrite wp_freec_bump_low by lia. reflexivity.
  - rewrite (freec_S _ (S x)), IH, (freec_S H x).
    replace (memb (S x) (map (bump t) H)) with (memb x H).
    + lia.
    + apply Bool.eq_true_iff_eq. rewrite !memb_in. symmetry. apply wp_in_bump_high. exact Hle.
Qed.

(* ---------- the target computed by the inner loop ---------- *)
Lemma wp_tfold_id l : forall t0 : Z, (forall hm, In hm l -> (t0 <= Z.of_nat hm)%Z) ->
  fold_left (fun t hm => if (Z.of_nat hm <? t)%Z then (t + 1)%Z else t) l t0 = t0.
Proof.
  induction l as [|a l IH]; intros t0 H; simpl; [reflexivity|].
  destruct (Z.ltb_spec (Z.of_nat a) t0).
  - specialize (H a (or_introl eq_refl)). lia.
  - apply IH. intros hm Hhm. apply H. right. exact Hhm.
Qed.

(* on a strictly ascending list the loop returns the smallest position of rank r *)
Lemma wp_tfold_spec l : ascl l -> NoDup l -> forall r, exists t,
  fold_left (fun t hm => if (Z.of_nat hm <? t)%Z then (t + 1)%Z else t) l (Z.of_nat r) = Z.of_nat t /\
  freec l t = r /\ (t = 0 \/ ~ In (t - 1) l).
Proof.
  induction l as [|hm l IH]; intros Ha Hn r.
  - exists r. simpl. split; [reflexivity|]. split; [|right; intros []].
    apply wp_freec_low. intros y [].
  - destruct Ha as [Hle Ha]. inversion Hn as [|? ? Hnin Hn']; subst.
    assert (Hlt : forall y, In y l -> hm < y).
    { intros y Hy. specialize (Hle y Hy). assert (y <> hm) by (intros ->; contradiction). lia. }
    simpl fold_left. destruct (Z.ltb_spec (Z.of_nat hm) (Z.of_nat r)) as [Hc|Hc].
    + destruct (IH Ha Hn' (S r)) as (t & E & F & M).
      exists t. split.
      { rewrite <- E. replace (Z.of_nat r + 1)%Z with (Z.of_nat (S r)) by lia. reflexivity. }
      pose proof (wp_freec_le l t) as Hle'.
      assert (Hht : hm < t) by lia.
      split.
      { pose proof (wp_freec_cons hm l t Hnin) as Hc'. destruct (Nat.ltb_spec hm t); lia. }
      destruct M as [->|M]; [lia|]. right. intros [E'|Hin]; [lia|contradiction].
    + exists r. split.
      { apply wp_tfold_id. intros y Hy. apply Hlt in Hy. lia. }
      split.
      { apply wp_freec_low. intros y [<-|Hy]; [lia|apply Hlt in Hy; lia]. }
      destruct r as [|r]; [left; reflexivity|right]. simpl. rewrite Nat.sub_0_r.
      intros [E|Hy]; [lia|apply Hlt in Hy; lia].
Qed.

Lemma wp_target_spec H r : NoDup H -> exists t,
  fold_left (fun t hm => if (Z.of_nat hm <? t)%Z then (t + 1)%Z else t) (sort_nat H) (Z.of_nat r) = Z.of_nat t /\
  freec H t = r /\ (t = 0 \/ ~ In (t - 1) H).
Proof.
  intros Hn. destruct (wp_tfold_spec (sort_nat H) (sort_ascl H) (sort_nodup H Hn) r) as (t & E & F & M).
  exists t. split; [exact E|]. split; [rewrite <- wp_freec_sort; exact F|].
  destruct M as [M|M]; [left; exact M|right]. intros Hin. apply M, sort_in, Hin.
Qed.

(* minimality in the other form: every smaller position has a smaller rank *)
Lemma wp_target_minimal H r t : freec H t = r -> (t = 0 \/ ~ In (t - 1) H) ->
  forall t', t' < t -> freec H t' < r.
Proof.
  intros F [->|M] t' Hlt; [lia|].
  pose proof (freec_mono H t' (t - 1) ltac:(lia)) as Hm.
  pose proof (wp_freec_S_out H (t - 1) M) as HS. replace (S (t - 1)) with t in HS by lia. lia.
Qed.

(* the target is unique *)
Lemma wp_target_unique H r t t' :
  freec H t = r -> (t = 0 \/ ~ In (t - 1) H) -> freec H t' = r -> (t' = 0 \/ ~ In (t' - 1) H) -> t = t'.
Proof.
  intros F M F' M'.
  destruct (lt_eq_lt_dec t t') as [[Hlt| ->]|Hlt]; [exfalso|reflexivity|exfalso].
  - pose proof (wp_target_minimal H r t' F' M' t Hlt). lia.
  - pose proof (wp_target_minimal H r t F M t' Hlt). lia.
Qed.

Lemma wp_ascl_snoc P x : ascl (P ++ [x]) -> NoDup (P ++ [x]) ->
  ascl P /\ NoDup P /\ forall i, In i P -> i < x.
Proof.
  induction P as [|a P IH]; intros Ha Hn.
  - split; [exact Logic.I|]. split; [constructor|intros i []].
  - simpl in Ha, Hn. destruct Ha as [Hle Ha]. inversion Hn as [|? ? Hnin Hn']; subst.
    destruct (IH Ha Hn') as (Ha' & Hn'' & Hlt).
    split; [|split].
    + split; [|exact Ha']. intros y Hy. apply Hle, in_or_app. left. exact Hy.
    + constructor; [|exact Hn'']. intros Hin. apply Hnin, in_or_app. left. exact Hin.
    + intros i [<-|Hi]; [|apply Hlt, Hi].
      assert (Hx : In x (P ++ [x])) by (apply in_or_app; right; left; reflexivity).
      specialize (Hle x Hx). assert (a <> x) by (intros ->; contradiction). lia.
Qed.

Section Pass.
  Context {K : Type} (o : ops K).
  Notation comp := (@comp K).
  Notation circ := (@circ K).

  (* the value of pass_target *)
  Lemma pass_target_ge (w : circ) m i : NoDup (dkeys (c_in w)) -> m <= i ->
    exists t, pass_target w m i = Z.of_nat t /\
      freec (dkeys (c_in w)) t = i - m /\ (t = 0 \/ ~ In (t - 1) (dkeys (c_in w))) /\
      (forall t', t' < t -> freec (dkeys (c_in w)) t' < i - m).
  Proof.
    intros Hn Hmi. destruct (wp_target_spec (dkeys (c_in w)) (i - m) Hn) as (t & E & F & M).
    exists t. split; [|split; [exact F|split; [exact M|]]].
    - unfold pass_target. replace (Z.of_nat i - Z.of_nat m)%Z with (Z.of_nat (i - m)) by lia. exact E.
    - apply (wp_target_minimal _ _ _ F M).
  Qed.

  Lemma pass_target_lt (w : circ) m i : i < m -> pass_target w m i = (Z.of_nat i - Z.of_nat m)%Z.
  Proof. intros H. unfold pass_target. apply target_neg. lia. Qed.

  (* the invariant of the loop after the ancillas P have been processed *)
  Definition PInv (m : nat) (w1 : circ) (sp0 : list comp) (P : list nat)
             (w : circ) (sp : list comp) (ts : list nat) : Prop :=
    c_n w = c_n w1 + length ts /\
    sp = fold_left (fun s t => aem_spec o t s) ts sp0 /\
    c_in w = map (fun kv => (mins ts (fst kv), snd kv)) (c_in w1) /\
    (forall j, j < length ts -> nth j ts 0 < c_n w1 + j) /\
    NoDup (dkeys (c_in w)) /\
    (forall k, In k (dkeys (c_in w)) -> k < c_n w) /\
    (forall p, p < c_n w -> (forall y, mins ts y <> p) ->
       exists i, In i P /\ m <= i /\ ~ In p (dkeys (c_in w)) /\ freec (dkeys (c_in w)) p = i - m) /\
    (forall i, In i P -> m <= i ->
       (exists p, p < c_n w /\ ~ In p (dkeys (c_in w)) /\ freec (dkeys (c_in w)) p = i - m /\
                  forall y, mins ts y <> p) \/
       c_n w - length (c_in w1) <= i - m).

  Lemma wp_init_inv m (w1 : circ) sp0 :
    NoDup (dkeys (c_in w1)) -> (forall k, In k (dkeys (c_in w1)) -> k < c_n w1) ->
    PInv m w1 sp0 [] w1 sp0 [].
  Proof.
    intros Hn Hb. unfold PInv. simpl.
    split; [lia|]. split; [reflexivity|]. split.
    { rewrite <- (map_id (c_in w1)) at 1. apply map_ext. intros [a b]. reflexivity. }
    split; [intros j Hj; lia|]. split; [exact Hn|]. split; [exact Hb|]. split.
    - intros p _ Hp. exfalso. apply (Hp p). reflexivity.
    - intros i [].
  Qed.

  Lemma wp_insert_inv m w1 sp0 P (w : circ) sp ts x t :
    PInv m w1 sp0 P w sp ts -> m <= x -> (forall i, In i P -> i < x) ->
    freec (dkeys (c_in w)) t = x - m -> t < c_n w ->
    PInv m w1 sp0 (P ++ [x]) (fst (add_empty_mode o w sp t)) (snd (add_empty_mode o w sp t)) (ts ++ [t]).
  Proof.
    intros (I1 & I2 & I3 & I4 & I5 & I6 & I7 & I8) Hmx Hlt Hf Ht.
    assert (EH : dkeys (bump_dict t (c_in w)) = map (bump t) (dkeys (c_in w))).
    { rewrite bump_dict_id by exact I5. unfold dkeys. rewrite !map_map. reflexivity. }
    assert (Hh0 : length (dkeys (c_in w)) = length (c_in w1)).
    { unfold dkeys. rewrite map_length, I3, map_length. reflexivity. }
    assert (Htot : freec (dkeys (c_in w)) (c_n w) = c_n w - length (dkeys (c_in w))).
    { apply freec_total; [exact I5|apply Forall_forall; exact I6]. }
    unfold PInv, add_empty_mode. cbn [fst snd c_n c_in]. rewrite EH.
    set (H := dkeys (c_in w)) in *.
    split; [rewrite app_length; simpl; lia|].
    split; [rewrite fold_left_app; simpl; rewrite <- I2; reflexivity|].
    split.
    { rewrite bump_dict_id by exact I5. rewrite I3, map_map. apply map_ext. intros [a b]. simpl.
      rewrite mins_snoc. reflexivity. }
    split.
    { intros j Hj. rewrite app_length in Hj. simpl in Hj.
      destruct (Nat.lt_ge_cases j (length ts)) as [Hj'|Hj'].
      - rewrite app_nth1 by exact Hj'. apply I4, Hj'.
      - rewrite app_nth2 by exact Hj'. replace (j - length ts) with 0 by lia. simpl. lia. }
    split; [apply nodup_map_inj; [apply bump_inj|exact I5]|].
    split.
    { intros k Hk. apply in_map_iff in Hk as (z & <- & Hz). apply bump_lt, I6, Hz. }
    split.
    - intros p Hp Hni. destruct (lt_eq_lt_dec p t) as [[Hpt| ->]|Hpt].
      + assert (Hni' : forall y, mins ts y <> p).
        { intros y E. apply (Hni y). rewrite mins_snoc, E. unfold bump. destruct (Nat.leb_spec t p); lia. }
        destruct (I7 p ltac:(lia) Hni') as (i & Hi & Hmi & Hnp & Hfp).
        exists i. split; [apply in_or_app; left; exact Hi|]. split; [exact Hmi|]. split.
        * rewrite wp_in_bump_low by exact Hpt. exact Hnp.
        * rewrite wp_freec_bump_low by lia. exact Hfp.
      + exists x. split; [apply in_or_app; right; left; reflexivity|]. split; [exact Hmx|]. split.
        * apply wp_bump_notin.
        * rewrite wp_freec_bump_low by lia. exact Hf.
      + exfalso.
        assert (Hni' : forall y, mins ts y <> p - 1).
        { intros y E. apply (Hni y). rewrite mins_snoc, E. unfold bump. destruct (Nat.leb_spec t (p - 1)); lia. }
        destruct (I7 (p - 1) ltac:(lia) Hni') as (i & Hi & Hmi & Hnp & Hfp).
        pose proof (freec_mono H t (p - 1) ltac:(lia)). specialize (Hlt i Hi). lia.
    - intros i Hi Hmi. apply in_app_or in Hi as [Hi|[<-|[]]].
      + destruct (I8 i Hi Hmi) as [(p & Hp & Hnp & Hfp & Him)|Hbig].
        * assert (Hpt : p < t).
          { destruct (Nat.lt_ge_cases p t) as [Hc|Hc]; [exact Hc|exfalso].
            pose proof (freec_mono H t p Hc). specialize (Hlt i Hi). lia. }
          left. exists p. split; [lia|]. split; [rewrite wp_in_bump_low by exact Hpt; exact Hnp|].
          split; [rewrite wp_freec_bump_low by lia; exact Hfp|].
          intros y E. rewrite mins_snoc in E. unfold bump in E.
          destruct (Nat.leb_spec t (mins ts y)); [lia|]. exact (Him y E).
        * exfalso. pose proof (freec_mono H t (c_n w) ltac:(lia)). specialize (Hlt i Hi). lia.
      + left. exists t. split; [lia|]. split; [apply wp_bump_notin|].
        split; [rewrite wp_freec_bump_low by lia; exact Hf|].
        intros y E. rewrite mins_snoc in E. exact (bump_ne _ _ E).
  Qed.

  Lemma wp_skip_inv m w1 sp0 P (w : circ) sp ts x :
    PInv m w1 sp0 P w sp ts ->
    (m <= x -> exists t, freec (dkeys (c_in w)) t = x - m /\ c_n w <= t) ->
    PInv m w1 sp0 (P ++ [x]) w sp ts.
  Proof.
    intros (I1 & I2 & I3 & I4 & I5 & I6 & I7 & I8) Hsk.
    assert (Hh0 : length (dkeys (c_in w)) = length (c_in w1)).
    { unfold dkeys. rewrite map_length, I3, map_length. reflexivity. }
    assert (Htot : freec (dkeys (c_in w)) (c_n w) = c_n w - length (dkeys (c_in w))).
    { apply freec_total; [exact I5|apply Forall_forall; exact I6]. }
    unfold PInv. repeat (split; [assumption|]). split.
    - intros p Hp Hni. destruct (I7 p Hp Hni) as (i & Hi & Hrest).
      exists i. split; [apply in_or_app; left; exact Hi|exact Hrest].
    - intros i Hi Hmi. apply in_app_or in Hi as [Hi|[<-|[]]]; [apply I8; assumption|].
      right. destruct (Hsk Hmi) as (t & Hf & Hge).
      pose proof (freec_mono (dkeys (c_in w)) (c_n w) t Hge). lia.
  Qed.

  Lemma wp_step_inv m w1 sp0 P (w : circ) sp ts x :
    PInv m w1 sp0 P w sp ts -> (forall i, In i P -> i < x) ->
    exists ts', PInv m w1 sp0 (P ++ [x]) (fst (pass_step o m (w, sp) x)) (snd (pass_step o m (w, sp) x)) ts'.
  Proof.
    intros HI Hlt. unfold pass_step. cbv beta iota zeta.
    destruct (Nat.le_gt_cases m x) as [Hmx|Hmx].
    - assert (Hn : NoDup (dkeys (c_in w))) by apply HI.
      destruct (pass_target_ge w m x Hn Hmx) as (t & Et & Hf & _ & _).
      rewrite Et.
      destruct (Z.leb_spec 0 (Z.of_nat t)); [|lia].
      destruct (Z.ltb_spec (Z.of_nat t) (Z.of_nat (c_n w))); cbn [andb].
      + rewrite Nat2Z.id. exists (ts ++ [t]). apply wp_insert_inv; auto; lia.
      + exists ts. cbn [fst snd]. apply wp_skip_inv; [exact HI|]. intros _. exists t. split; [exact Hf|lia].
    - rewrite (pass_target_lt w m x Hmx).
      destruct (Z.leb_spec 0 (Z.of_nat x - Z.of_nat m)); [lia|]. cbn [andb].
      exists ts. cbn [fst snd]. apply wp_skip_inv; [exact HI|]. intros; lia.
  Qed.

  Lemma wp_fold_inv m (w1 : circ) sp0 L : ascl L -> NoDup L -> PInv m w1 sp0 [] w1 sp0 [] ->
    exists ts, PInv m w1 sp0 L (fst (fold_left (pass_step o m) L (w1, sp0)))
                    (snd (fold_left (pass_step o m) L (w1, sp0))) ts.
  Proof.
    induction L as [|x L IH] using rev_ind; intros Ha Hn H0.
    - exists []. exact H0.
    - apply wp_ascl_snoc in Ha as (Ha' & Hn' & Hlt); [|exact Hn].
      destruct (IH Ha' Hn' H0) as (ts & HI). rewrite fold_left_app. simpl.
      destruct (fold_left (pass_step o m) L (w1, sp0)) as [w sp]. simpl in HI.
      apply (wp_step_inv m w1 sp0 L w sp ts x HI Hlt).
  Qed.

  Theorem pass_fold_spec (m : nat) (I : list nat) (w1 : circ) (sp0 : list comp) w2 sp :
    NoDup I -> NoDup (dkeys (c_in w1)) -> (forall k, In k (dkeys (c_in w1)) -> k < c_n w1) ->
    fold_left (pass_step o m) (sort_nat I) (w1, sp0) = (w2, sp) ->
    exists ts : list nat,
      c_n w2 = c_n w1 + length ts /\
      sp = fold_left (fun s t => aem_spec o t s) ts sp0 /\
      c_in w2 = map (fun kv => (mins ts (fst kv), snd kv)) (c_in w1) /\
      (forall j, j < length ts -> nth j ts 0 < c_n w1 + j) /\
      let H2 := dkeys (c_in w2) in
      (forall p, p < c_n w2 -> (forall y, mins ts y <> p) ->
         exists i, In i I /\ m <= i /\ ~ In p H2 /\ freec H2 p = i - m) /\
      (forall i, In i I -> m <= i ->
         (exists p, p < c_n w2 /\ ~ In p H2 /\ freec H2 p = i - m /\ forall y, mins ts y <> p) \/
         c_n w2 - length (c_in w1) <= i - m).
  Proof.
    intros HnI Hn Hb Hfold.
    destruct (wp_fold_inv m w1 sp0 (sort_nat I) (sort_ascl I) (sort_nodup I HnI) (wp_init_inv m w1 sp0 Hn Hb))
      as (ts & HI).
    rewrite Hfold in HI. simpl in HI.
    destruct HI as (I1 & I2 & I3 & I4 & I5 & I6 & I7 & I8).
    exists ts. repeat (split; [assumption|]). cbv zeta. split.
    - intros p Hp Hni. destruct (I7 p Hp Hni) as (i & Hi & Hrest).
      exists i. split; [apply sort_in; exact Hi|exact Hrest].
    - intros i Hi Hmi. apply I8; [apply sort_in; exact Hi|exact Hmi].
  Qed.

  (* the herald set stays duplicate-free and inside the circuit *)
  Theorem pass_fold_heralds (m : nat) (I : list nat) (w1 : circ) (sp0 : list comp) w2 sp :
    NoDup I -> NoDup (dkeys (c_in w1)) -> (forall k, In k (dkeys (c_in w1)) -> k < c_n w1) ->
    fold_left (pass_step o m) (sort_nat I) (w1, sp0) = (w2, sp) ->
    NoDup (dkeys (c_in w2)) /\ (forall k, In k (dkeys (c_in w2)) -> k < c_n w2) /\
    length (c_in w2) = length (c_in w1).
  Proof.
    intros HnI Hn Hb Hfold.
    destruct (wp_fold_inv m w1 sp0 (sort_nat I) (sort_ascl I) (sort_nodup I HnI) (wp_init_inv m w1 sp0 Hn Hb))
      as (ts & HI).
    rewrite Hfold in HI. simpl in HI.
    destruct HI as (I1 & I2 & I3 & I4 & I5 & I6 & I7 & I8).
    split; [exact I5|]. split; [exact I6|]. rewrite I3, map_length. reflexivity.
  Qed.
End Pass.
