(* C15 T2, photonic level: a circuit that acts on the dual-rail basis as Kc * V, followed by the
   per-qubit basis changes of a tomography setting (2-mode herald-free circuits added at modes
   2i), acts as Kc * ((U_0 (x) ... (x) U_{n-1}) . V) with zero leakage; hence the dual-rail outcome
   frequencies are |Kc|^2 times the Born probabilities of the state V|b> in that basis. *)
From Coq Require Import ZArith List Bool Arith Lia Permutation Ring_theory Ring.
From LW Require Import Base.Sx Base.Num Base.Sums Base.Mat Model.State Model.Circuit Model.World Model.Fock Model.Gates
     Proofs.StateP Proofs.PermP Proofs.FockUnitP Proofs.DisplayP Proofs.WiringMat Proofs.WiringP Proofs.WiringAmpFock
     Proofs.GatesP Proofs.DualRailDefs Proofs.DualRailFull Proofs.DualRailStep Proofs.DualRailP.
Import ListNotations.
Open Scope nat_scope.

Section Tomo.
  Context {K : Type} (o : ops K) {SRK : StarRing o} {ZMK : ZMorph o}.
  Notation T := (K * K)%type.
  Notation cq := (co o).
  Notation circ := (@circ K).
  Notation mat := (@mat T).
  Variable ninv : nat -> T.
  Hypothesis ninv_spec : forall k, 0 < k -> kmul cq (kofnat cq k) (ninv k) = k1 cq.
  Variable e : env (K:=K).
  Let Rc := cplx_ring o.
  Add Ring Ktomo : Rc.

  (* ---- any herald-free 2-mode circuit is a single-qubit gate with matrix U_full ---- *)
  Lemma amp_one_photon (U : mat) (x : bool) (w : list nat) : length w = 2 ->
    amp_perm (cplx o) U (drn [x]) w =
      if nlist_eqb w (drn [false]) then U 0 (idx1 [x])
      else if nlist_eqb w (drn [true]) then U 1 (idx1 [x]) else k0 (cplx o).
  Proof.
    intros Hw. destruct w as [|w0 [|w1 [|w2 w]]]; try discriminate. unfold amp_perm.
    assert (Ex : expand (drn [x]) = [idx1 [x]]) by (destruct x; reflexivity). rewrite Ex.
    destruct w0 as [|[|w0]]; destruct w1 as [|[|w1]]; cbn [nlist_eqb drn flat_map app Nat.eqb andb];
      try (apply perm_ml_length; rewrite expand_length; unfold osum; simpl; lia).
    - (* [0;1] *) change (expand [0; 1]) with [1]. rewrite perm_ml_cons. cbn [selects map suml fold_right fst snd]. rewrite perm_ml_nil_r. ring.
    - (* [1;0] *) change (expand [1; 0]) with [0]. rewrite perm_ml_cons. cbn [selects map suml fold_right fst snd]. rewrite perm_ml_nil_r. ring.
  Qed.

  Definition two_mode (sub : circ) (U : mat) : Prop :=
    WFH sub /\ Forall swnd (c_spec sub) /\ c_n sub = 2 /\ c_in sub = [] /\ c_out sub = [] /\
    build o e sub = Ok (2, U).

  Lemma two_mode_gate_ok sub U : two_mode sub U -> gate_ok o e sub 1 (k1 cq) (m1_of U).
  Proof.
    intros (W & Sw & Hn & Hi & Ho & Hb).
    split; [exact W|]. split; [exact Sw|]. split; [lia|]. split; [rewrite Hi, Hn; reflexivity|].
    split; [rewrite Hi, Ho; reflexivity|]. split; [rewrite Hi, Ho; reflexivity|].
    split; [rewrite Hi; intros kv []|]. exists U. split; [rewrite Hn; exact Hb|].
    intros b w xs ys Hbb Hw Fx Fy. rewrite Hn, Hi in Fx. rewrite Hn, Ho in Fy.
    assert (Lb : length b = 1) by (apply in_bits_length; exact Hbb).
    destruct b as [|x [|? ?]]; try discriminate.
    rewrite (full_st_nil 2 (drn [x]) xs ltac:(destruct x; reflexivity) Fx), (full_st_nil 2 w ys Hw Fy).
    change (amp_perm cq U (drn [x]) w) with (amp_perm (cplx o) U (drn [x]) w). rewrite (amp_one_photon U x w Hw).
    split.
    - intros b' Hb' ->. assert (Lb' : length b' = 1) by (apply in_bits_length; exact Hb').
      destruct b' as [|y [|? ?]]; try discriminate. unfold m1_of.
      destruct y; cbn [drn flat_map app nlist_eqb Nat.eqb andb idx1 hd]; symmetry; apply (cq_mul_1_l o).
    - intros Hnd.
      destruct (nlist_eqb w (drn [false])) eqn:E1; [apply nlist_eqb_eq in E1; exfalso; apply (Hnd [false]); [simpl; auto|exact E1]|].
      destruct (nlist_eqb w (drn [true])) eqn:E2; [apply nlist_eqb_eq in E2; exfalso; apply (Hnd [true]); [simpl; auto|exact E2]|].
      reflexivity.
  Qed.

  (* ---- the measurement circuit of a setting: base, then sub_i added at mode 2 i ---- *)
  Definition add_from (off : nat) (subs : list circ) (c : circ) : res circ :=
    fold_left (fun r isub => do c0 <- r; op_add o c0 (snd isub) (Z.of_nat (2 * fst isub)) false)
              (combine (seq off (length subs)) subs) (Ok c).
  Definition lift_from (off : nat) (Us : list mat) (V : qmat T) : qmat T :=
    fold_left (fun W iU => lift_blk cq (m1_of (snd iU)) (fst iU) 1 W) (combine (seq off (length Us)) Us) V.

  Lemma add_from_acts nq Kc : forall (subs : list circ) (Us : list mat) off (c : circ) (W : qmat T),
    Forall2 two_mode subs Us -> off + length subs <= nq -> dr_acts o e c nq Kc W ->
    exists c', add_from off subs c = Ok c' /\ dr_acts o e c' nq Kc (lift_from off Us W).
  Proof.
    induction subs as [|sub subs IH]; intros Us off c W HF Hoff HA.
    - inversion HF; subst. exists c. split; [reflexivity|exact HA].
    - inversion HF as [|? U ? Us' H1 H2]; subst.
      pose proof (two_mode_gate_ok sub U H1) as Hok. pose proof HA as (Sh & _).
      pose proof Hok as (_ & _ & _ & HnS & _). cbn [length] in Hoff.
      destruct (block_accept o c sub nq off 1 false Sh HnS ltac:(lia) ltac:(lia)) as [c1 Hc1].
      pose proof (block_step o ninv ninv_spec e c sub c1 nq off 1 Kc (k1 cq) W _ false HA Hok ltac:(lia) Hc1) as HB.
      rewrite (cq_mul_1_r o) in HB.
      destruct (IH Us' (S off) c1 _ H2 ltac:(lia) HB) as (c' & Ec' & Ac').
      exists c'. split; [|exact Ac'].
      unfold add_from in *. cbn [length seq combine fold_left bind fst snd]. rewrite Hc1. exact Ec'.
  Qed.

  (* ---- the tensor product U_0 (x) ... (x) U_{n-1} on bit lists ---- *)
  Definition b2n (a : bool) : nat := if a then 1 else 0.
  Fixpoint tprod (Us : list mat) (z x : list bool) : T :=
    match Us, z, x with
    | U :: Us', a :: z', c :: x' => kmul cq (U (b2n a) (b2n c)) (tprod Us' z' x')
    | _, _, _ => k1 cq
    end.

  Lemma bits_S n : bits (S n) = map (cons false) (bits n) ++ map (cons true) (bits n).
  Proof. cbn [bits flat_map]. rewrite app_nil_r. reflexivity. Qed.

  Lemma suml_map' {A B} (f : A -> B) (l : list A) (g : B -> T) : suml cq (map f l) g = suml cq l (fun a => g (f a)).
  Proof. induction l as [|a l IH]; [reflexivity|]. cbn [map suml fold_right]. fold (suml cq (map f l) g). rewrite IH. reflexivity. Qed.

  Lemma splice_splice (b' : list bool) off (a : bool) x' : off + 1 + length x' <= length b' ->
    splice (splice b' (off + 1) x') off [a] = splice b' off (a :: x').
  Proof.
    intros H. apply (nth_ext _ _ false false).
    - rewrite !splice_length; cbn [length]; rewrite ?splice_length; lia.
    - intros p Hp.
      rewrite (nth_splice (splice b' (off + 1) x') [a] off p false) by (cbn [length]; rewrite splice_length; lia).
      rewrite (nth_splice b' (a :: x') off p false) by (cbn [length]; lia).
      rewrite (nth_splice b' x' (off + 1) p false) by lia.
      cbn [length].
      destruct (Nat.ltb_spec p off); destruct (Nat.ltb_spec p (off + 1)); destruct (Nat.ltb_spec p (off + 1 + length x'));
        destruct (Nat.ltb_spec p (off + S (length x'))); try lia; try reflexivity.
      + replace (p - off) with 0 by lia. reflexivity.
      + replace (p - off) with (S (p - (off + 1))) by lia. reflexivity.
  Qed.

  Lemma lift_from_tprod : forall (Us : list mat) off (V : qmat T) (b' b : list bool),
    off + length Us <= length b' ->
    lift_from off Us V b' b =
    suml cq (bits (length Us)) (fun x => kmul cq (tprod Us (slice b' off (length Us)) x) (V (splice b' off x) b)).
  Proof.
    induction Us as [|U Us IH]; intros off V b' b Hl.
    - unfold lift_from. cbn [length seq combine fold_left bits suml fold_right tprod].
      assert (E : splice b' off [] = b').
      { unfold splice. cbn [app length]. rewrite Nat.add_0_r. apply firstn_skipn. }
      rewrite E. unfold slice. cbn [firstn tprod]. unfold co, Circuit.T. ring.
    - cbn [length] in Hl |- *.
      change (lift_from off (U :: Us) V) with (lift_from (S off) Us (lift_blk cq (m1_of U) off 1 V)).
      rewrite IH by lia. rewrite bits_S, suml_app, !suml_map'.
      assert (Hs : slice b' off (S (length Us)) = nth off b' false :: slice b' (S off) (length Us)).
      { apply (nth_ext _ _ false false).
        - cbn [length]. rewrite !slice_length by lia. reflexivity.
        - intros p Hp. rewrite slice_length in Hp by lia. rewrite nth_slice by lia.
          destruct p as [|p]; [rewrite Nat.add_0_r; reflexivity|]. cbn [nth]. rewrite nth_slice by lia. f_equal. lia. }
      rewrite Hs. cbn [tprod].
      rewrite <- suml_add. apply suml_ext. intros x' Hx'. assert (Lx' := proj1 (in_bits_length _ _) Hx').
      unfold lift_blk at 1. cbn [bits flat_map map app suml fold_right].
      assert (S1 : slice (splice b' (S off) x') off 1 = [nth off b' false]).
      { apply (nth_ext _ _ false false); [rewrite slice_length; [reflexivity|rewrite splice_length; lia]|].
        intros p Hp. rewrite slice_length in Hp by (rewrite splice_length; lia).
        rewrite nth_slice by lia. replace p with 0 by lia. rewrite Nat.add_0_r. cbn [nth].
        rewrite nth_splice by lia. destruct (Nat.ltb_spec off (S off)); [reflexivity|lia]. }
      rewrite S1. replace (S off) with (off + 1) by lia.
      rewrite !splice_splice by lia. unfold m1_of, idx1. cbn [hd].
      destruct (nth off b' false); cbn [b2n]; unfold co, Circuit.T; ring.
  Qed.

  Lemma forall2_len {A B} (P : A -> B -> Prop) l l' : Forall2 P l l' -> length l = length l'.
  Proof. induction 1; simpl; congruence. Qed.

  (* ---- D4 ---- *)
  Theorem setting_acts (base : circ) nq Kc (V : qmat T) (subs : list circ) (Us : list mat) :
    dr_acts o e base nq Kc V -> Forall2 two_mode subs Us -> length subs = nq ->
    exists c', add_from 0 subs base = Ok c' /\
      dr_acts o e c' nq Kc (fun z b => suml cq (bits nq) (fun x => kmul cq (tprod Us z x) (V x b))).
  Proof.
    intros HA HF Hl. assert (HlU : length Us = nq) by (rewrite <- Hl; symmetry; eapply forall2_len; exact HF).
    destruct (add_from_acts nq Kc subs Us 0 base V HF ltac:(lia) HA) as (c' & Ec & Ac).
    exists c'. split; [exact Ec|]. eapply dr_acts_ext; [|exact Ac].
    intros b z Hb Hz. assert (Lz := proj1 (in_bits_length _ _) Hz).
    rewrite lift_from_tprod by lia. rewrite HlU. apply suml_ext. intros x Hx.
    assert (Lx := proj1 (in_bits_length _ _) Hx).
    assert (E1 : slice z 0 nq = z) by (unfold slice; cbn [skipn]; rewrite <- Lz; apply firstn_all).
    assert (E2 : splice z 0 x = x).
    { unfold splice. cbn [firstn app]. rewrite skipn_all2 by lia. apply app_nil_r. }
    rewrite E1, E2. reflexivity.
  Qed.
End Tomo.
