(* Matrix-level facts behind the wiring theorem of Circuit.add (property C02):
   compiling a renumbered component list gives the renumbered matrix.

   [embr f n n' U U']  : U' (dimension n') is U (dimension n) transported along the
                         injection f, and the identity on every index outside f[0,n).
   Layer 1 [aem_compile]   : add_empty_mode_to_circuit_spec  = insertion of an identity row/column
   Layer 2 [shift_compile] : add_modes_to_circuit_spec       = embedding as a block at an offset
   [cadd_from]             : compiling onto a state = compiling onto the identity, times the state. *)
From Coq Require Import ZArith List Bool Arith Lia Ring_theory Ring Permutation.
From LW Require Import Base.Sx Base.Num Base.Sums Base.Mat Base.Embed Model.Circuit
     Proofs.CompileP Proofs.RewriteP Proofs.WiringDefs.
Import ListNotations.

(* ====================================================================== *)
(* Part 1: transport of a matrix along an injection, abstract *-ring       *)
(* ====================================================================== *)
Section EmbGeneric.
  Context {K : Type} {o : ops K} {SR : StarRing o}.
  Let R := sr_ring (o:=o).
  Add Ring Kr : R.
  Local Notation "0" := (k0 o).
  Local Notation "1" := (k1 o).
  Local Notation "a + b" := (kadd o a b).
  Local Notation "a * b" := (kmul o a b).
  Local Notation sumn := (sumn o).
  Local Notation mmul := (mmul o).
  Local Notation mid := (mid o).
  Local Notation meq := (@meq K).
  Local Notation mat := (@mat K).

  Definition finj (f : nat -> nat) (n n' : nat) : Prop :=
    (forall i, i < n -> f i < n') /\ (forall a b, a < n -> b < n -> f a = f b -> a = b).

  Definition embr (f : nat -> nat) (n n' : nat) (U U' : mat) : Prop :=
    (forall i j, i < n -> j < n -> U' (f i) (f j) = U i j) /\
    (forall x y, x < n' -> y < n' -> (forall i, i < n -> f i <> x) ->
                 U' x y = mid x y /\ U' y x = mid y x).

  Lemma im_dec (f : nat -> nat) n x :
    (exists i, i < n /\ f i = x) \/ (forall i, i < n -> f i <> x).
  Proof.
    induction n as [|n IH].
    - right. intros i Hi. lia.
    - destruct IH as [(i & Hi & E)|IH]; [left; exists i; split; [lia|exact E]|].
      destruct (Nat.eq_dec (f n) x) as [E|E]; [left; exists n; split; [lia|exact E]|].
      right. intros i Hi. destruct (Nat.eq_dec i n) as [->|Hne]; [exact E|apply IH; lia].
  Qed.

  (* a sum whose terms vanish outside the image of an injection *)
  Lemma sumn_reindex f n n' (g : nat -> K) :
    finj f n n' -> (forall x, x < n' -> (forall i, i < n -> f i <> x) -> g x = 0) ->
    sumn n' g = sumn n (fun i => g (f i)).
  Proof.
    intros [Hr Hi] Hz.
    rewrite (sumn_ext n' g (fun x => sumn n (fun i => if x =? f i then g x else 0))).
    - rewrite sumn_swap. apply sumn_ext. intros i Hlt.
      rewrite (sumn_delta n' (f i) g) by (apply Hr; exact Hlt). reflexivity.
    - intros x Hx. destruct (im_dec f n x) as [(i0 & Hi0 & E)|Hno].
      + rewrite (sumn_single n i0); [subst x; rewrite Nat.eqb_refl; reflexivity|exact Hi0|].
        intros k Hk Hne. destruct (Nat.eqb_spec x (f k)) as [E'|]; [|reflexivity].
        exfalso. apply Hne. apply Hi; try assumption. congruence.
      + rewrite sumn_zero'; [apply Hz; assumption|].
        intros i Hlt. destruct (Nat.eqb_spec x (f i)) as [E'|]; [|reflexivity].
        exfalso. apply (Hno i Hlt). congruence.
  Qed.

  Lemma mid_inj f n i j : (forall a b, a < n -> b < n -> f a = f b -> a = b) ->
    i < n -> j < n -> mid (f i) (f j) = mid i j.
  Proof.
    intros Hi Hlt Hlt'. unfold Mat.mid.
    destruct (Nat.eqb_spec (f i) (f j)) as [E|E], (Nat.eqb_spec i j) as [E'|E']; try reflexivity.
    - exfalso. apply E', Hi; assumption.
    - exfalso. apply E. congruence.
  Qed.

  Lemma embr_mid f n n' : finj f n n' -> embr f n n' mid mid.
  Proof.
    intros [Hr Hi]. split.
    - intros i j Hlt Hlt'. apply (mid_inj f n); assumption.
    - intros x y _ _ _. split; reflexivity.
  Qed.

  Lemma embr_mmul f n n' (A A' U U' : mat) :
    finj f n n' -> embr f n n' A A' -> embr f n n' U U' ->
    embr f n n' (mmul n A U) (mmul n' A' U').
  Proof.
    intros Hf [HA1 HA2] [HU1 HU2]. pose proof Hf as [Hr Hi]. split.
    - intros i j Hlt Hlt'. unfold Mat.mmul.
      rewrite (sumn_reindex f n n') ; [|exact Hf|].
      + apply sumn_ext. intros k Hk. rewrite HA1, HU1 by assumption. reflexivity.
      + intros x Hx Hno.
        destruct (HA2 x (f i) Hx (Hr i Hlt) Hno) as [_ E]. rewrite E.
        rewrite mid_neq; [ring|]. intros E'. apply (Hno i Hlt). exact E'.
    - intros x y Hx Hy Hno. split.
      + unfold Mat.mmul. rewrite (sumn_single n' x); [|exact Hx|].
        * destruct (HA2 x x Hx Hx Hno) as [E _]. rewrite E, mid_eq.
          destruct (HU2 x y Hx Hy Hno) as [E' _]. rewrite E'. ring.
        * intros k Hk Hne. destruct (HA2 x k Hx Hk Hno) as [E _]. rewrite E.
          rewrite mid_neq by (intros E'; apply Hne; congruence). ring.
      + unfold Mat.mmul. rewrite (sumn_single n' x); [|exact Hx|].
        * destruct (HU2 x x Hx Hx Hno) as [E _]. rewrite E, mid_eq.
          destruct (HA2 x y Hx Hy Hno) as [_ E']. rewrite E'. ring.
        * intros k Hk Hne. destruct (HU2 x k Hx Hk Hno) as [_ E]. rewrite E.
          rewrite mid_neq by exact Hne. ring.
  Qed.

  Lemma embr_compat f n n' (U V U' V' : mat) :
    finj f n n' -> meq n U V -> meq n' U' V' -> embr f n n' U U' -> embr f n n' V V'.
  Proof.
    intros [Hr Hi] HUV HUV' [H1 H2]. split.
    - intros i j Hlt Hlt'. rewrite <- HUV by assumption. rewrite <- HUV' by (apply Hr; assumption).
      apply H1; assumption.
    - intros x y Hx Hy Hno. rewrite <- !HUV' by assumption. apply H2; assumption.
  Qed.

  (* one compile step: left multiplication, memoised *)
  Lemma embr_step f n n' (A A' U U' : mat) :
    finj f n n' -> embr f n n' A A' -> embr f n n' U U' ->
    embr f n n' (tab o n (mmul n A U)) (tab o n' (mmul n' A' U')).
  Proof.
    intros Hf HA HU. eapply embr_compat; [exact Hf|apply meq_sym, tab_spec|apply meq_sym, tab_spec|].
    apply embr_mmul; assumption.
  Qed.

  Lemma embr_comp f g n n' n'' (U U' U'' : mat) :
    finj f n n' -> finj g n' n'' -> embr f n n' U U' -> embr g n' n'' U' U'' ->
    embr (fun i => g (f i)) n n'' U U''.
  Proof.
    intros [Hfr Hfi] [Hgr Hgi] [H1 H2] [G1 G2]. split.
    - intros i j Hlt Hlt'. rewrite G1 by (apply Hfr; assumption). apply H1; assumption.
    - intros x y Hx Hy Hno.
      destruct (im_dec g n' x) as [(x' & Hx' & Ex)|Hnx]; [|apply G2; assumption].
      assert (Hno' : forall i, i < n -> f i <> x') by (intros i Hlt E; apply (Hno i Hlt); congruence).
      destruct (im_dec g n' y) as [(y' & Hy' & Ey)|Hny].
      + subst x y. rewrite !G1 by assumption.
        destruct (H2 x' y' Hx' Hy' Hno') as [E1 E2]. rewrite E1, E2.
        split; symmetry; apply (mid_inj g n'); assumption.
      + destruct (G2 y x Hy Hx Hny) as [E1 E2]. split; assumption.
  Qed.

  Lemma finj_comp f g n n' n'' : finj f n n' -> finj g n' n'' -> finj (fun i => g (f i)) n n''.
  Proof.
    intros [Hfr Hfi] [Hgr Hgi]. split.
    - intros i Hlt. apply Hgr, Hfr, Hlt.
    - intros a b Ha Hb E. apply Hfi; try assumption. apply Hgi; try assumption; apply Hfr; assumption.
  Qed.

  Lemma embr_ext f g n n' (U U' : mat) :
    (forall i, i < n -> f i = g i) -> embr f n n' U U' -> embr g n n' U U'.
  Proof.
    intros E [H1 H2]. split.
    - intros i j Hlt Hlt'. rewrite <- !E by assumption. apply H1; assumption.
    - intros x y Hx Hy Hno. apply H2; try assumption. intros i Hlt. rewrite E by assumption. apply Hno, Hlt.
  Qed.

  (* a new loss mode is appended on both sides *)
  Lemma embr_pad f n n' (U U' : mat) :
    finj f (S n) (S n') -> f n = n' -> (forall i, i < n -> f i < n') ->
    embr f n n' U U' -> embr f (S n) (S n') (pad o n U) (pad o n' U').
  Proof.
    intros [Hr Hi] Hn Hlo [H1 H2]. split.
    - intros i j Hlt Hlt'. unfold pad.
      destruct (Nat.ltb_spec i n) as [Hin|Hin], (Nat.ltb_spec j n) as [Hjn|Hjn]; simpl.
      + replace (f i <? n') with true by (symmetry; apply Nat.ltb_lt; apply Hlo; exact Hin).
        replace (f j <? n') with true by (symmetry; apply Nat.ltb_lt; apply Hlo; exact Hjn).
        simpl. apply H1; assumption.
      + assert (j = n) by lia. subst j. rewrite Hn. rewrite Nat.ltb_irrefl, andb_false_r.
        rewrite <- Hn. apply (mid_inj f (S n)); assumption.
      + assert (i = n) by lia. subst i. rewrite Hn. rewrite Nat.ltb_irrefl. simpl.
        rewrite <- Hn. apply (mid_inj f (S n)); assumption.
      + assert (i = n) by lia. subst i. rewrite Hn. rewrite Nat.ltb_irrefl. simpl.
        rewrite <- Hn. apply (mid_inj f (S n)); assumption.
    - intros x y Hx Hy Hno.
      assert (Hxn : x <> n') by (intros ->; apply (Hno n); [lia|exact Hn]).
      assert (Hx' : x < n') by lia.
      assert (Hno' : forall i, i < n -> f i <> x) by (intros i Hlt; apply Hno; lia).
      unfold pad. replace (x <? n') with true by (symmetry; apply Nat.ltb_lt; exact Hx').
      destruct (Nat.ltb_spec y n') as [Hyn|Hyn]; simpl; [|split; reflexivity].
      apply H2; assumption.
  Qed.

  Lemma pad_pad n n1 (B : mat) i j : n <= n1 -> pad o n1 (pad o n B) i j = pad o n B i j.
  Proof.
    intros Hle. unfold pad.
    destruct (Nat.ltb_spec i n1), (Nat.ltb_spec j n1), (Nat.ltb_spec i n), (Nat.ltb_spec j n);
      simpl; try reflexivity; lia.
  Qed.

  Lemma pad_meq n (B : mat) : meq n (pad o n B) B.
  Proof.
    intros i j Hi Hj. unfold pad.
    replace (i <? n) with true by (symmetry; apply Nat.ltb_lt; exact Hi).
    replace (j <? n) with true by (symmetry; apply Nat.ltb_lt; exact Hj). reflexivity.
  Qed.

  Lemma pad_mmul n n' (A B : mat) : n <= n' ->
    meq n' (pad o n (mmul n A B)) (mmul n' (pad o n A) (pad o n B)).
  Proof.
    intros Hle i j Hi Hj.
    destruct (Nat.ltb_spec i n) as [Hin|Hin].
    - destruct (Nat.ltb_spec j n) as [Hjn|Hjn].
      + unfold pad at 1. replace (i <? n) with true by (symmetry; apply Nat.ltb_lt; exact Hin).
        replace (j <? n) with true by (symmetry; apply Nat.ltb_lt; exact Hjn). simpl.
        unfold Mat.mmul. symmetry. rewrite (sumn_extend n n') ; [|exact Hle|].
        * apply sumn_ext. intros k Hk. rewrite !pad_meq by assumption. reflexivity.
        * intros k Hk1 Hk2. unfold pad at 1.
          replace (k <? n) with false by (symmetry; apply Nat.ltb_ge; exact Hk1).
          rewrite andb_false_r. rewrite mid_neq by lia. ring.
      + unfold pad at 1. replace (j <? n) with false by (symmetry; apply Nat.ltb_ge; exact Hjn).
        rewrite andb_false_r. unfold Mat.mmul. rewrite (sumn_single n' j); [|exact Hj|].
        * unfold pad at 2. replace (j <? n) with false by (symmetry; apply Nat.ltb_ge; exact Hjn).
          simpl. rewrite mid_eq. unfold pad.
          replace (j <? n) with false by (symmetry; apply Nat.ltb_ge; exact Hjn).
          rewrite andb_false_r. ring.
        * intros k Hk Hne. unfold pad at 2.
          replace (j <? n) with false by (symmetry; apply Nat.ltb_ge; exact Hjn).
          rewrite andb_false_r. rewrite mid_neq by exact Hne. ring.
    - unfold pad at 1. replace (i <? n) with false by (symmetry; apply Nat.ltb_ge; exact Hin). simpl.
      unfold Mat.mmul. rewrite (sumn_single n' i); [|exact Hi|].
      + unfold pad at 1. replace (i <? n) with false by (symmetry; apply Nat.ltb_ge; exact Hin).
        simpl. rewrite mid_eq. unfold pad.
        replace (i <? n) with false by (symmetry; apply Nat.ltb_ge; exact Hin). simpl. ring.
      + intros k Hk Hne. unfold pad at 1.
        replace (i <? n) with false by (symmetry; apply Nat.ltb_ge; exact Hin). simpl.
        rewrite mid_neq by (intros E; apply Hne; congruence). ring.
  Qed.

  (* ---- dimension-free version for the component matrices ---- *)
  Definition embi (f : nat -> nat) (A A' : mat) : Prop :=
    (forall i j, A' (f i) (f j) = A i j) /\
    (forall x y, (forall i, f i <> x) -> A' x y = mid x y /\ A' y x = mid y x).

  Definition inj (f : nat -> nat) : Prop := forall a b, f a = f b -> a = b.

  Lemma feqb f x y : inj f -> (f x =? f y) = (x =? y).
  Proof.
    intros Hi. destruct (Nat.eqb_spec (f x) (f y)) as [E|E], (Nat.eqb_spec x y) as [E'|E']; try reflexivity.
    - exfalso. apply E', Hi, E.
    - exfalso. apply E. congruence.
  Qed.

  Lemma embi_embed2 f a b u00 u01 u10 u11 : inj f ->
    embi f (embed2 o a b u00 u01 u10 u11) (embed2 o (f a) (f b) u00 u01 u10 u11).
  Proof.
    intros Hi. split.
    - intros i j. unfold embed2, Mat.mid. rewrite !(feqb f) by exact Hi. reflexivity.
    - intros x y Hno. split; [apply embed2_out_l|apply embed2_out_r]; intros E; eapply Hno; symmetry; exact E.
  Qed.

  Lemma embi_phase f a e : inj f -> embi f (phase_mat o a e) (phase_mat o (f a) e).
  Proof.
    intros Hi. split.
    - intros i j. unfold phase_mat. rewrite !(feqb f) by exact Hi. reflexivity.
    - intros x y Hno. unfold phase_mat, Mat.mid.
      assert (x =? f a = false) by (apply Nat.eqb_neq; intros E; eapply Hno; symmetry; exact E).
      split.
      + destruct (Nat.eqb_spec x y); [rewrite H|]; reflexivity.
      + destruct (Nat.eqb_spec y x) as [->|]; [rewrite H|]; reflexivity.
  Qed.
End EmbGeneric.

(* ====================================================================== *)
(* Part 2: compiling renumbered components                                 *)
(* ====================================================================== *)
From LW Require Import Model.Display Proofs.CircuitP Proofs.DisplayP.

Section All2.
  Context {A : Type} (R : A -> A -> Prop).
  Fixpoint all2 (l l' : list A) : Prop :=
    match l, l' with
    | [], [] => True
    | x :: l1, x' :: l1' => R x x' /\ all2 l1 l1'
    | _, _ => False
    end.
  Lemma all2_map (g : A -> A) l : Forall (fun x => R x (g x)) l -> all2 l (map g l).
  Proof. induction 1; simpl; auto. Qed.
End All2.

Section Wiring.
  Context {K : Type} {o : ops K} {SRK : StarRing o}.
  Notation T := (@T K).
  Notation co := (co o).
  Notation comp := (@comp K).
  Notation mat := (@mat T).
  Notation cstate := (@cstate K).
  Notation cadd := (cadd o).
  Notation cadd_list := (cadd_list o).
  Notation embr := (embr (o:=co)).
  Notation embi := (embi (o:=co)).

  (* f renumbers the n current modes into n' modes, and the loss modes appended
     later correspond one to one *)
  Definition fok (f : nat -> nat) (n n' : nat) : Prop :=
    inj f /\ forall l i, i < n + l <-> f i < n' + l.

  Lemma fok_finj f n n' : fok f n n' -> finj f n n'.
  Proof.
    intros [Hi Hb]. split.
    - intros i Hlt. specialize (Hb 0 i). rewrite !Nat.add_0_r in Hb. apply Hb, Hlt.
    - intros a b _ _ E. apply Hi, E.
  Qed.
  Lemma fok_plus f n n' l : fok f n n' -> fok f (n + l) (n' + l).
  Proof.
    intros [Hi Hb]. split; [exact Hi|]. intros l' i. rewrite <- !Nat.add_assoc. apply Hb.
  Qed.
  Lemma fok_S f n n' : fok f n n' -> fok f (S n) (S n').
  Proof. intros H. apply (fok_plus f n n' 1) in H. rewrite !Nat.add_1_r in H. exact H. Qed.
  Lemma fok_last f n n' : fok f n n' -> f n = n'.
  Proof.
    intros [Hi Hb]. pose proof (Hb 0 n) as H0. pose proof (Hb 1 n) as H1. lia.
  Qed.
  Lemma fok_lo f n n' i : fok f n n' -> i < n -> f i < n'.
  Proof. intros [Hi Hb] Hlt. specialize (Hb 0 i). rewrite !Nat.add_0_r in Hb. apply Hb, Hlt. Qed.

  Lemma embi_embr f n n' (A A' : mat) : fok f n n' -> embi f A A' -> embr f n n' A A'.
  Proof.
    intros [Hi Hb] [H1 H2]. split.
    - intros i j _ _. apply H1.
    - intros x y Hx _ Hno. apply H2. intros i E.
      assert (i < n) by (specialize (Hb 0 i); rewrite !Nat.add_0_r in Hb; apply Hb; lia).
      exact (Hno i H E).
  Qed.

  Lemma embi_bs f m1 m2 x cv : inj f -> embi f (bs_mat o m1 m2 x cv) (bs_mat o (f m1) (f m2) x cv).
  Proof. intros Hi. unfold bs_mat. destruct cv; apply embi_embed2; exact Hi. Qed.
  Lemma embi_ps f m x : inj f -> embi f (ps_mat o m x) (ps_mat o (f m) x).
  Proof. intros Hi. unfold ps_mat. apply embi_phase; exact Hi. Qed.
  Lemma embi_loss f n n' m x : inj f -> f n = n' ->
    embi f (loss_mat o (S n) m x) (loss_mat o (S n') (f m) x).
  Proof.
    intros Hi Hn. unfold loss_mat. replace (S n - 1) with n by lia. replace (S n' - 1) with n' by lia.
    rewrite <- Hn. apply embi_embed2; exact Hi.
  Qed.

  (* c' is c with its modes renumbered by f *)
  Fixpoint crel (f : nat -> nat) (c c' : comp) {struct c} : Prop :=
    match c, c' with
    | BS m1 m2 v cv, BS a b v' cv' => a = f m1 /\ b = f m2 /\ v' = v /\ cv' = cv
    | PS m v, PS a v' => a = f m /\ v' = v
    | LossC m v, LossC a v' => a = f m /\ v' = v
    | Barrier _, Barrier _ => True
    | Swaps sw, Swaps sw' => embi f (swaps_mat o sw) (swaps_mat o sw')
    | UMat m k V, UMat m' k' V' => embi f (umat_mat o m k V) (umat_mat o m' k' V')
    | Group sp _ _ _ _, Group sp' _ _ _ _ => all2 (crel f) sp sp'
    | _, _ => False
    end.

  Lemma cadd_crel f e : forall c c', crel f c c' -> forall n n' U U' n2 U2,
    fok f n n' -> embr f n n' U U' -> cadd e c (Ok (n, U)) = Ok (n2, U2) ->
    exists l U2', n2 = n + l /\ cadd e c' (Ok (n', U')) = Ok (n' + l, U2') /\
                  embr f (n + l) (n' + l) U2 U2'.
  Proof.
    induction c as [m1 m2 v cv|m v|m v|ms|sw|m k V|sp m1 m2 hin hout IH] using comp_ind';
      intros c' Hrel; destruct c' as [a1 a2 v' cv'|a v'|a v'|ms'|sw'|m' k' V'|sp' b1 b2 hin' hout'];
      simpl in Hrel; try contradiction; intros n n' U U' n2 U2 Hf HU H.
    - destruct Hrel as (-> & -> & -> & ->). simpl in H.
      destruct (in01 o (t1 (getv e v))) eqn:E; [|discriminate]. injection H as <- <-.
      exists 0. eexists. rewrite !Nat.add_0_r. split; [reflexivity|]. split; [simpl; rewrite E; reflexivity|].
      apply embr_step; [apply fok_finj, Hf| |exact HU].
      apply embi_embr; [exact Hf|]. apply embi_bs, Hf.
    - destruct Hrel as (-> & ->). simpl in H. injection H as <- <-.
      exists 0. eexists. rewrite !Nat.add_0_r. split; [reflexivity|]. split; [reflexivity|].
      apply embr_step; [apply fok_finj, Hf| |exact HU].
      apply embi_embr; [exact Hf|]. apply embi_ps, Hf.
    - destruct Hrel as (-> & ->). simpl in H.
      destruct (in01 o (t1 (getv e v))) eqn:E; [|discriminate]. injection H as <- <-.
      exists 1. eexists. rewrite !Nat.add_1_r. split; [reflexivity|]. split; [simpl; rewrite E; reflexivity|].
      pose proof (fok_S _ _ _ Hf) as Hf'.
      apply embr_step; [apply fok_finj, Hf'| |].
      + apply embi_embr; [exact Hf'|]. apply embi_loss; [apply Hf|apply (fok_last f n n' Hf)].
      + apply embr_pad; [apply fok_finj, Hf'|apply (fok_last f n n' Hf)| |exact HU].
        intros i Hlt. apply (fok_lo f n n'); assumption.
    - simpl in H. injection H as <- <-. exists 0, U'. rewrite !Nat.add_0_r. auto.
    - simpl in H. injection H as <- <-.
      exists 0. eexists. rewrite !Nat.add_0_r. split; [reflexivity|]. split; [reflexivity|].
      apply embr_step; [apply fok_finj, Hf| |exact HU]. apply embi_embr; [exact Hf|exact Hrel].
    - simpl in H. injection H as <- <-.
      exists 0. eexists. rewrite !Nat.add_0_r. split; [reflexivity|]. split; [reflexivity|].
      apply embr_step; [apply fok_finj, Hf| |exact HU]. apply embi_embr; [exact Hf|exact Hrel].
    - rewrite cadd_group in H. 
      assert (G : exists l U2', n2 = n + l /\ cadd_list e sp' (Ok (n', U')) = Ok (n' + l, U2') /\
                                embr f (n + l) (n' + l) U2 U2').
      2:{ destruct G as (l & U2' & G1 & G2 & G3). exists l, U2'. rewrite cadd_group. auto. }
      revert sp' Hrel n n' U U' Hf HU H.
      induction IH as [|c sp Hc _ IHsp]; intros sp' Hrel n n' U U' Hf HU H;
        destruct sp' as [|c' sp']; simpl in Hrel; try contradiction.
      + simpl in H. injection H as <- <-. exists 0, U'. rewrite !Nat.add_0_r. auto.
      + destruct Hrel as [Hr1 Hr2]. rewrite cadd_list_cons in H.
        destruct (cadd e c (Ok (n, U))) as [[n1 U1]|x] eqn:E1; [|rewrite cadd_list_err in H; discriminate].
        destruct (Hc c' Hr1 _ _ _ _ _ _ Hf HU E1) as (l1 & U1' & -> & E1' & HU1).
        rewrite cadd_list_cons, E1'.
        destruct (IHsp sp' Hr2 (n + l1) (n' + l1) U1 U1' (fok_plus _ _ _ l1 Hf) HU1 H) as (l2 & U2' & -> & E2 & HU2).
        exists (l1 + l2), U2'. rewrite !Nat.add_assoc. auto.
  Qed.

  Lemma cadd_list_crel f e sp sp' : all2 (crel f) sp sp' -> forall n n' U U' n2 U2,
    fok f n n' -> embr f n n' U U' -> cadd_list e sp (Ok (n, U)) = Ok (n2, U2) ->
    exists l U2', n2 = n + l /\ cadd_list e sp' (Ok (n', U')) = Ok (n' + l, U2') /\
                  embr f (n + l) (n' + l) U2 U2'.
  Proof.
    intros Hrel n n' U U' n2 U2 Hf HU H.
    destruct (cadd_crel f e (Group sp 0 0 [] []) (Group sp' 0 0 [] []) Hrel n n' U U' n2 U2 Hf HU)
      as (l & U2' & G1 & G2 & G3); [rewrite cadd_group; exact H|].
    exists l, U2'. rewrite cadd_group in G2. auto.
  Qed.

  (* ---- swap dictionaries with renumbered keys and values ---- *)
  Definition imdec (f : nat -> nat) : Prop := forall y, (exists j, f j = y) \/ (forall j, f j <> y).

  Lemma dget_map_f (f : nat -> nat) (sw : dict) k : inj f ->
    dget (map (fun kv => (f (fst kv), f (snd kv))) sw) (f k) = option_map f (dget sw k).
  Proof.
    intros Hi. induction sw as [|[k' v'] sw IH]; simpl; [reflexivity|].
    rewrite (feqb f) by exact Hi. destruct (k' =? k); [reflexivity|exact IH].
  Qed.
  Lemma dget_map_out (f : nat -> nat) (sw : dict) x : (forall i, f i <> x) ->
    dget (map (fun kv => (f (fst kv), f (snd kv))) sw) x = None.
  Proof.
    intros Hno. induction sw as [|[k' v'] sw IH]; simpl; [reflexivity|].
    destruct (Nat.eqb_spec (f k') x) as [E|_]; [exfalso; exact (Hno k' E)|exact IH].
  Qed.

  Lemma embi_swaps f (sw sw' : dict) : inj f -> imdec f ->
    (forall i, swap_fun sw' (f i) = f (swap_fun sw i)) ->
    (forall x, (forall i, f i <> x) -> swap_fun sw' x = x) ->
    embi f (swaps_mat o sw) (swaps_mat o sw').
  Proof.
    intros Hi Hd H1 H2. split.
    - intros i j. unfold swaps_mat, perm_mat. rewrite H1, (feqb f) by exact Hi. reflexivity.
    - intros x y Hno. unfold swaps_mat, perm_mat, Mat.mid. split.
      + destruct (Hd y) as [(j & Ej)|Hny]; [subst y|].
        * rewrite H1.
          replace (x =? f (swap_fun sw j)) with false by (symmetry; apply Nat.eqb_neq; intros E; eapply Hno; symmetry; exact E).
          replace (x =? f j) with false by (symmetry; apply Nat.eqb_neq; intros E; eapply Hno; symmetry; exact E).
          reflexivity.
        * rewrite (H2 y Hny). reflexivity.
      + rewrite (H2 x Hno). reflexivity.
  Qed.

  Lemma embi_swaps_map f (sw : dict) : inj f -> imdec f -> NoDup (dkeys sw) ->
    embi f (swaps_mat o sw) (swaps_mat o (dict_of (map (fun kv => (f (fst kv), f (snd kv))) sw))).
  Proof.
    intros Hi Hd Hnd.
    rewrite DisplayP.dict_of_id.
    2:{ rewrite map_map. simpl. unfold dkeys in Hnd. rewrite <- (map_map fst f).
        apply nodup_map_inj; [exact Hi|exact Hnd]. }
    apply embi_swaps; try assumption.
    - intros i. unfold swap_fun. rewrite dget_map_f by exact Hi. destruct (dget sw i); reflexivity.
    - intros x Hno. unfold swap_fun. rewrite dget_map_out by exact Hno. reflexivity.
  Qed.

  (* ---- no duplicate keys in swap dictionaries (Python dicts) ---- *)
  Fixpoint swnd (c : comp) : Prop :=
    match c with
    | Swaps sw => NoDup (dkeys sw)
    | Group sp _ _ _ _ => (fix all (l : list comp) : Prop := match l with [] => True | x :: l' => swnd x /\ all l' end) sp
    | _ => True
    end.
  Lemma swnd_group sp a b hi ho : swnd (Group sp a b hi ho) <-> Forall swnd sp.
  Proof.
    simpl. induction sp as [|x sp IH]; [split; auto|].
    split; [intros [H1 H2]; constructor; [exact H1|apply IH, H2]|intros H; inversion H; subst; split; [assumption|apply IH; assumption]].
  Qed.

  (* ---- Layer 1: add_empty_mode_to_circuit_spec ---- *)
  Lemma inj_bump mode : inj (bump mode).
  Proof. intros a b. apply bump_inj. Qed.
  Lemma bump_image mode x : (forall i, bump mode i <> x) -> x = mode.
  Proof.
    intros Hno. destruct (lt_eq_lt_dec x mode) as [[Hlt| ->]|Hgt]; [|reflexivity|].
    - exfalso. apply (Hno x). unfold bump. destruct (Nat.leb_spec mode x); lia.
    - exfalso. apply (Hno (x - 1)). unfold bump. destruct (Nat.leb_spec mode (x - 1)); lia.
  Qed.
  Lemma imdec_bump mode : imdec (bump mode).
  Proof.
    intros y. destruct (Nat.eq_dec y mode) as [->|Hne]; [right; intros j; apply bump_ne|left].
    destruct (le_lt_dec mode y).
    - exists (y - 1). unfold bump. destruct (Nat.leb_spec mode (y - 1)); lia.
    - exists y. unfold bump. destruct (Nat.leb_spec mode y); lia.
  Qed.
  Lemma fok_bump mode n : mode <= n -> fok (bump mode) n (S n).
  Proof.
    intros Hle. split; [apply inj_bump|]. intros l i. unfold bump. destruct (Nat.leb_spec mode i); lia.
  Qed.

  Ltac bl := unfold bump; repeat match goal with |- context [?a <=? ?b] => destruct (Nat.leb_spec a b) end; lia.

  Lemma mid_bump mode i j : mid co (bump mode i) (bump mode j) = mid co i j.
  Proof. unfold mid. rewrite (feqb (bump mode)) by apply inj_bump. reflexivity. Qed.

  Lemma embi_umat_below mode m k V : mode <= m ->
    embi (bump mode) (block_mat co m k V) (block_mat co (S m) k V).
  Proof.
    intros Hle. split.
    - intros i j.
      destruct (le_lt_dec m i) as [Hi1|Hi1]; [destruct (le_lt_dec (m + k) i) as [Hi2|Hi2]|].
      2:{ destruct (le_lt_dec m j) as [Hj1|Hj1]; [destruct (le_lt_dec (m + k) j) as [Hj2|Hj2]|].
          2:{ rewrite !block_in by bl. f_equal; bl. }
          all: rewrite !(block_out_r _ _ _ _ j), ?(block_out_r _ _ _ _ (bump mode j)) by bl; apply mid_bump. }
      all: rewrite !(block_out_l _ _ _ i), ?(block_out_l _ _ _ (bump mode i)) by bl; apply mid_bump.
    - intros x y Hno. apply bump_image in Hno. subst x. split; [apply block_out_l|apply block_out_r]; lia.
  Qed.

  Lemma embi_umat_above mode m k V : m + k <= mode ->
    embi (bump mode) (block_mat co m k V) (block_mat co m k V).
  Proof.
    intros Hle. split.
    - intros i j.
      destruct (le_lt_dec m i) as [Hi1|Hi1]; [destruct (le_lt_dec (m + k) i) as [Hi2|Hi2]|].
      2:{ destruct (le_lt_dec m j) as [Hj1|Hj1]; [destruct (le_lt_dec (m + k) j) as [Hj2|Hj2]|].
          2:{ rewrite !block_in by bl. f_equal; bl. }
          all: rewrite !(block_out_r _ _ _ _ j), ?(block_out_r _ _ _ _ (bump mode j)) by bl; apply mid_bump. }
      all: rewrite !(block_out_l _ _ _ i), ?(block_out_l _ _ _ (bump mode i)) by bl; apply mid_bump.
    - intros x y Hno. apply bump_image in Hno. subst x. split; [apply block_out_l|apply block_out_r]; lia.
  Qed.

  Lemma amu_in V a p q : p <> a -> q <> a ->
    add_mode_to_unitary o V a p q = V (if a <? p then p - 1 else p) (if a <? q then q - 1 else q).
  Proof.
    intros Hp Hq. unfold add_mode_to_unitary.
    replace (p =? a) with false by (symmetry; apply Nat.eqb_neq; exact Hp).
    replace (q =? a) with false by (symmetry; apply Nat.eqb_neq; exact Hq). reflexivity.
  Qed.

  Lemma embi_umat_in mode m k V : m < mode -> mode < m + k ->
    embi (bump mode) (block_mat co m k V)
         (block_mat co m (S k) (tab co (S k) (add_mode_to_unitary o V (mode - m)))).
  Proof.
    intros H1 H2. split.
    - intros i j.
      destruct (le_lt_dec m i) as [Hi1|Hi1]; [destruct (le_lt_dec (m + k) i) as [Hi2|Hi2]|].
      2:{ destruct (le_lt_dec m j) as [Hj1|Hj1]; [destruct (le_lt_dec (m + k) j) as [Hj2|Hj2]|].
          2:{ rewrite !block_in by bl. rewrite tab_spec by bl. rewrite amu_in by bl.
              f_equal; unfold bump;
                repeat match goal with
                       | |- context [?a <=? ?b] => destruct (Nat.leb_spec a b)
                       | |- context [?a <? ?b] => destruct (Nat.ltb_spec a b) end; lia. }
          all: rewrite !(block_out_r _ _ _ _ j), ?(block_out_r _ _ _ _ (bump mode j)) by bl; apply mid_bump. }
      all: rewrite !(block_out_l _ _ _ i), ?(block_out_l _ _ _ (bump mode i)) by bl; apply mid_bump.
    - intros x y Hno. apply bump_image in Hno. subst x.
      assert (Hd : forall q, q < S k -> add_mode_to_unitary o V (mode - m) (mode - m) q = mid co (mode - m) q
                                     /\ add_mode_to_unitary o V (mode - m) q (mode - m) = mid co q (mode - m)).
      { intros q _. unfold add_mode_to_unitary. rewrite Nat.eqb_refl, orb_true_r. simpl. auto. }
      destruct (le_lt_dec m y) as [Hy1|Hy1]; [destruct (le_lt_dec (m + S k) y) as [Hy2|Hy2]|].
      2:{ rewrite !block_in by lia. rewrite !tab_spec by lia.
          destruct (Hd (y - m) ltac:(lia)) as [E1 E2]. rewrite E1, E2. unfold mid.
          destruct (Nat.eqb_spec (mode - m) (y - m)), (Nat.eqb_spec mode y), (Nat.eqb_spec (y - m) (mode - m)), (Nat.eqb_spec y mode);
            try (split; reflexivity); lia. }
      all: split; [apply block_out_r|apply block_out_l]; lia.
  Qed.

  Lemma aem_crel mode (c : comp) : swnd c -> crel (bump mode) c (aem o mode c).
  Proof.
    induction c as [m1 m2 v cv|m v|m v|ms|sw|m k V|sp m1 m2 hin hout IH] using comp_ind'; intros Hs.
    - simpl. auto.
    - simpl. auto.
    - simpl. auto.
    - simpl. auto.
    - simpl. apply embi_swaps_map; [apply inj_bump|apply imdec_bump|exact Hs].
    - cbn [aem].
      destruct (Nat.ltb_spec (bump mode m) mode) as [Ha|Ha]; [destruct (Nat.ltb_spec mode (bump mode m + k)) as [Hb|Hb]|]; cbn [andb crel].
      + assert (bump mode m = m) as E by (revert Ha; bl). rewrite E in *.
        unfold umat_mat. apply embi_umat_in; lia.
      + assert (bump mode m = m) as E by (revert Ha; bl). rewrite E in *. unfold umat_mat. apply embi_umat_above. lia.
      + assert (Hm : mode <= m) by (revert Ha; bl).
        assert (bump mode m = S m) as E by (revert Ha; bl). rewrite E in *. unfold umat_mat. apply embi_umat_below. exact Hm.
    - apply swnd_group in Hs. cbn [aem crel]. apply all2_map.
      rewrite Forall_forall in *. intros x Hx. apply IH; [exact Hx|apply Hs, Hx].
  Qed.

  Theorem aem_compile_gen e mode (sp : list comp) n n2 U U' U2 :
    Forall swnd sp -> mode <= n -> embr (bump mode) n (S n) U U' ->
    cadd_list e sp (Ok (n, U)) = Ok (n2, U2) ->
    exists U2', cadd_list e (aem_spec o mode sp) (Ok (S n, U')) = Ok (S n2, U2') /\
                embr (bump mode) n2 (S n2) U2 U2'.
  Proof.
    intros Hs Hle HU H.
    destruct (cadd_list_crel (bump mode) e sp (aem_spec o mode sp)) with (n := n) (n' := S n) (U := U) (U' := U') (n2 := n2) (U2 := U2)
      as (l & U2' & -> & E & HU2); try assumption.
    - unfold aem_spec. apply all2_map. rewrite Forall_forall in *. intros x Hx. apply aem_crel, Hs, Hx.
    - apply fok_bump, Hle.
    - exists U2'. split; [exact E|exact HU2].
  Qed.

  (* ---- Layer 2: add_modes_to_circuit_spec ---- *)
  (* the n modes of the sub-circuit go to d .. d+n-1, its loss modes after the N modes present *)
  Definition fsh (n d N : nat) (i : nat) : nat := if i <? n then i + d else i - n + N.

  Ltac fl := unfold fsh; repeat match goal with |- context [?a <? ?b] => destruct (Nat.ltb_spec a b) end; lia.

  Lemma inj_fsh n d N : d + n <= N -> inj (fsh n d N).
  Proof. intros Hle a b. fl. Qed.
  Lemma fok_fsh n d N : d + n <= N -> fok (fsh n d N) n N.
  Proof. intros Hle. split; [apply inj_fsh, Hle|]. intros l i. fl. Qed.
  Lemma fsh_image n d N x : d + n <= N -> (forall i, fsh n d N i <> x) -> x < d \/ (d + n <= x /\ x < N).
  Proof.
    intros Hle Hno. destruct (le_lt_dec d x) as [H1|H1]; [|left; exact H1].
    destruct (le_lt_dec (d + n) x) as [H2|H2].
    - destruct (le_lt_dec N x) as [H3|H3]; [|right; lia].
      exfalso. apply (Hno (x - N + n)). fl.
    - exfalso. apply (Hno (x - d)). fl.
  Qed.
  Lemma imdec_fsh n d N : d + n <= N -> imdec (fsh n d N).
  Proof.
    intros Hle y. destruct (le_lt_dec d y) as [H1|H1].
    - destruct (le_lt_dec (d + n) y) as [H2|H2].
      + destruct (le_lt_dec N y) as [H3|H3].
        * left. exists (y - N + n). fl.
        * right. intros j. fl.
      + left. exists (y - d). fl.
    - right. intros j. fl.
  Qed.
  Lemma mid_fsh n d N i j : d + n <= N -> mid co (fsh n d N i) (fsh n d N j) = mid co i j.
  Proof. intros Hle. unfold mid. rewrite (feqb (fsh n d N)) by (apply inj_fsh, Hle). reflexivity. Qed.

  Lemma embi_umat_shift n d N m k V : m + k <= n -> d + n <= N ->
    embi (fsh n d N) (block_mat co m k V) (block_mat co (m + d) k V).
  Proof.
    intros Hmk Hle. split.
    - intros i j.
      destruct (le_lt_dec m i) as [Hi1|Hi1]; [destruct (le_lt_dec (m + k) i) as [Hi2|Hi2]|].
      2:{ destruct (le_lt_dec m j) as [Hj1|Hj1]; [destruct (le_lt_dec (m + k) j) as [Hj2|Hj2]|].
          2:{ rewrite !block_in by fl. f_equal; fl. }
          all: rewrite !(block_out_r _ _ _ _ j), ?(block_out_r _ _ _ _ (fsh n d N j)) by fl; apply mid_fsh, Hle. }
      all: rewrite !(block_out_l _ _ _ i), ?(block_out_l _ _ _ (fsh n d N i)) by fl; apply mid_fsh, Hle.
    - intros x y Hno. apply fsh_image in Hno; [|exact Hle].
      split; [apply block_out_l|apply block_out_r]; lia.
  Qed.

  Lemma shift_crel n d N (c : comp) : d + n <= N -> cwf n c -> swnd c -> crel (fsh n d N) c (shift_comp d c).
  Proof.
    intros Hle.
    induction c as [m1 m2 v cv|m v|m v|ms|sw|m k V|sp m1 m2 hin hout IH] using comp_ind'; intros Hc Hs;
      inversion Hc; subst.
    - simpl. repeat split; fl.
    - simpl. repeat split; fl.
    - simpl. repeat split; fl.
    - simpl. auto.
    - cbn [shift_comp crel].
      match goal with Hk : lt_all n (dkeys sw), Hv : lt_all n (dvals sw) |- _ =>
        pose proof Hk as HK; pose proof Hv as HV end.
      unfold lt_all in HK, HV. rewrite Forall_forall in HK, HV.
      replace (map (fun kv : nat * nat => (fst kv + d, snd kv + d)) sw)
        with (map (fun kv : nat * nat => (fsh n d N (fst kv), fsh n d N (snd kv))) sw).
      + apply embi_swaps_map; [apply inj_fsh, Hle|apply imdec_fsh, Hle|exact Hs].
      + apply map_ext_in. intros [a b] Hab. simpl.
        assert (a < n) by (apply HK; unfold dkeys; apply in_map_iff; exists (a, b); auto).
        assert (b < n) by (apply HV; unfold dvals; apply in_map_iff; exists (a, b); auto).
        f_equal; fl.
    - cbn [shift_comp crel]. unfold umat_mat. apply embi_umat_shift; lia.
    - apply swnd_group in Hs. cbn [shift_comp crel]. apply all2_map.
      rewrite Forall_forall in *. intros x Hx. apply IH; [exact Hx|auto|apply Hs, Hx].
  Qed.

  Theorem shift_compile_gen e d n N l (sp : list comp) U U' n2 U2 :
    Forall (cwf n) sp -> Forall swnd sp -> d + n <= N ->
    embr (fsh n d N) (n + l) (N + l) U U' ->
    cadd_list e sp (Ok (n + l, U)) = Ok (n2, U2) ->
    exists l2 U2', n2 = n + l + l2 /\ cadd_list e (shift_spec d sp) (Ok (N + l, U')) = Ok (N + l + l2, U2') /\
                   embr (fsh n d N) (n + l + l2) (N + l + l2) U2 U2'.
  Proof.
    intros Hc Hs Hle HU H.
    apply (cadd_list_crel (fsh n d N) e sp (shift_spec d sp)) with (n := n + l) (U := U); try assumption.
    - unfold shift_spec. apply all2_map. rewrite Forall_forall in *. intros x Hx. apply shift_crel; auto.
    - apply fok_plus, fok_fsh, Hle.
  Qed.

  (* ---- compiling onto a state = compiling onto the identity, times the (padded) state ---- *)
  Lemma from_step n (X A B : mat) :
    meq n (tab co n (mmul co n X (mmul co n A B))) (mmul co n (tab co n (mmul co n X A)) (pad co n B)).
  Proof.
    eapply meq_trans; [apply tab_spec|]. apply meq_sym.
    eapply meq_trans; [apply mmul_compat; [apply tab_spec|apply pad_meq]|].
    intros i j _ _. apply mmul_assoc.
  Qed.

  Lemma cadd_from e : forall (c : comp) n A n2 A2 B,
    cadd e c (Ok (n, A)) = Ok (n2, A2) ->
    steq (cadd e c (Ok (n, mmul co n A B))) (Ok (n2, mmul co n2 A2 (pad co n B))).
  Proof.
    induction c as [m1 m2 v cv|m v|m v|ms|sw|m k V|sp m1 m2 hin hout IH] using comp_ind';
      intros n A n2 A2 B H.
    - simpl in H |- *. destruct (in01 o (t1 (getv e v))); [|discriminate]. injection H as <- <-.
      simpl. split; [reflexivity|]. apply from_step.
    - simpl in H |- *. injection H as <- <-. split; [reflexivity|]. apply from_step.
    - simpl in H |- *. destruct (in01 o (t1 (getv e v))); [|discriminate]. injection H as <- <-.
      simpl. split; [reflexivity|].
      eapply meq_trans; [apply tab_spec|]. apply meq_sym.
      eapply meq_trans; [apply mmul_compat; [apply tab_spec|apply meq_refl]|].
      eapply meq_trans; [intros i j _ _; apply mmul_assoc|].
      apply mmul_compat; [apply meq_refl|]. apply meq_sym. apply pad_mmul. lia.
    - simpl in H |- *. injection H as <- <-. split; [reflexivity|].
      apply mmul_compat; [apply meq_refl|apply meq_sym, pad_meq].
    - simpl in H |- *. injection H as <- <-. split; [reflexivity|]. apply from_step.
    - simpl in H |- *. injection H as <- <-. split; [reflexivity|]. apply from_step.
    - rewrite cadd_group in H. rewrite cadd_group.
      revert n A B H. induction IH as [|c sp Hc _ IHsp]; intros n A B H.
      + simpl in H |- *. injection H as <- <-. split; [reflexivity|].
        apply mmul_compat; [apply meq_refl|apply meq_sym, pad_meq].
      + rewrite cadd_list_cons in H. rewrite cadd_list_cons.
        destruct (cadd e c (Ok (n, A))) as [[n1 A1]|x] eqn:E1; [|rewrite cadd_list_err in H; discriminate].
        pose proof (Hc _ _ _ _ B E1) as S1.
        pose proof (cadd_dim e c _ _ _ _ E1) as Hn1.
        eapply steq_trans; [apply cadd_list_steq; exact S1|].
        eapply steq_trans; [apply (IHsp n1 A1 (pad co n B) H)|].
        simpl. split; [reflexivity|]. apply mmul_compat; [apply meq_refl|].
        intros i j _ _. apply pad_pad. lia.
  Qed.

  Lemma cadd_list_from e (sp : list comp) n A n2 A2 B :
    cadd_list e sp (Ok (n, A)) = Ok (n2, A2) ->
    steq (cadd_list e sp (Ok (n, mmul co n A B))) (Ok (n2, mmul co n2 A2 (pad co n B))).
  Proof.
    intros H. pose proof (cadd_from e (Group sp 0 0 [] []) n A n2 A2 B) as G.
    rewrite !cadd_group in G. apply G, H.
  Qed.

  (* compiling [sp] after a state U: the matrix of [sp] compiled alone, times the padded state *)
  Theorem cadd_list_onto e (sp : list comp) n U n2 M :
    cadd_list e sp (Ok (n, mid co)) = Ok (n2, M) ->
    exists UR, cadd_list e sp (Ok (n, U)) = Ok (n2, UR) /\ meq n2 UR (mmul co n2 M (pad co n U)).
  Proof.
    intros H. pose proof (cadd_list_from e sp n (mid co) n2 M U H) as S1.
    assert (S0 : steq (cadd_list e sp (Ok (n, U))) (cadd_list e sp (Ok (n, mmul co n (mid co) U)))).
    { apply cadd_list_steq. simpl. split; [reflexivity|]. apply meq_sym, mmul_id_l. }
    pose proof (steq_trans _ _ _ S0 S1) as S2.
    destruct (cadd_list e sp (Ok (n, U))) as [[n3 UR]|x]; simpl in S2; [|contradiction].
    destruct S2 as [-> HU]. exists UR. split; [reflexivity|exact HU].
  Qed.
End Wiring.
